(* C10/Canon.v — the split form of a path string is canonical (parse (render u) = u) for everything the posixpath
   functions of the model produce; needed to relate the STRING-level translation of _check_path_containment
   (Gen/C10Gen.v) to the hand model, which keeps intermediate paths in split form. *)
From Coq Require Import NArith List Bool Arith Lia.
From IRV Require Import Base.Exn C10.Model C10.Proofs1 C10.Proofs2 C10.StrPrefix.
Import ListNotations.

Definition canon (u : upath) : Prop :=
  snd u <> [] /\ Forall noslash (snd u) /\ (forall r, snd u = [] :: r -> r = []).

Lemma count_lead_repeat n s :
  count_lead (repeat slash n ++ s) = (n + fst (count_lead s), snd (count_lead s)).
Proof.
  induction n as [|n IH]; simpl.
  - destruct (count_lead s); reflexivity.
  - rewrite IH. reflexivity.
Qed.

Lemma count_lead_nostart s : (forall r, s <> slash :: r) -> count_lead s = (0, s).
Proof.
  destruct s as [|c r]; intros H; [reflexivity|]. simpl.
  destruct (N.eqb c slash) eqn:E; [|reflexivity]. apply N.eqb_eq in E. subst. exfalso. eapply H. reflexivity.
Qed.

Lemma join_nostart cs : Forall noslash cs -> (forall r, cs = [] :: r -> r = []) -> forall r, join_slash cs <> slash :: r.
Proof.
  intros Hn Hc r E. destruct cs as [|a t]; [discriminate|].
  destruct a as [|c a].
  - rewrite (Hc t eq_refl) in E. discriminate.
  - inversion Hn as [|? ? Ha _]; subst. destruct t; simpl in E; inversion E; subst; apply Ha; left; reflexivity.
Qed.

Lemma parse_render_canon u : canon u -> parse (render u) = u.
Proof.
  destruct u as [l cs]. intros [Hne [Hn Hc]]. simpl in *. unfold parse, render. simpl.
  rewrite count_lead_repeat. rewrite (count_lead_nostart (join_slash cs)) by (apply join_nostart; assumption).
  simpl. rewrite Nat.add_0_r. rewrite split_join_slash by assumption. reflexivity.
Qed.

Lemma count_lead_snd_nostart s : forall r, snd (count_lead s) <> slash :: r.
Proof.
  induction s as [|c t IH]; intros r; simpl; [discriminate|].
  destruct (N.eqb c slash) eqn:E.
  - destruct (count_lead t) as [n x] eqn:C. simpl in *. apply IH.
  - simpl. intros H. inversion H; subst. rewrite N.eqb_refl in E. discriminate.
Qed.

Lemma split_hd_empty s r : split_slash s = [] :: r -> s = [] \/ exists t, s = slash :: t.
Proof.
  destruct s as [|c t]; [left; reflexivity|]. simpl. destruct (N.eqb c slash) eqn:E.
  - apply N.eqb_eq in E. subst. right. eauto.
  - destruct (split_slash t); discriminate.
Qed.

Lemma canon_parse s : canon (parse s).
Proof.
  unfold parse. destruct (count_lead s) as [n r] eqn:C. unfold canon. simpl.
  split; [apply split_slash_nonempty|]. split; [apply split_slash_noslash|].
  intros t H. destruct (split_hd_empty _ _ H) as [->|[x Hx]].
  - simpl in H. inversion H. reflexivity.
  - exfalso. pose proof (count_lead_snd_nostart s x) as Hc. rewrite C in Hc. simpl in Hc. congruence.
Qed.

Lemma noslash_dot : noslash s_dot.
Proof. intros [H|[]]. discriminate. Qed.
Lemma noslash_nil : noslash [].
Proof. intros []. Qed.

(* ---------- normpath *)
Definition okc (c : str) : Prop := is_nil c = false /\ noslash c.

Lemma norm_step_okc abs acc c : Forall okc acc -> noslash c -> Forall okc (norm_step abs acc c).
Proof.
  intros Ha Hc. unfold norm_step.
  destruct (is_nil c || is_dot c) eqn:E1; [exact Ha|].
  apply orb_false_elim in E1. destruct E1 as [E1 _].
  destruct (is_dotdot c).
  - destruct acc as [|h t].
    + destruct abs; [constructor|]. constructor; [split; assumption|constructor].
    + destruct (is_dotdot h); [constructor; [split; assumption|exact Ha]|]. inversion Ha; assumption.
  - constructor; [split; assumption|exact Ha].
Qed.

Lemma fold_norm_okc abs : forall cs acc, Forall okc acc -> Forall noslash cs -> Forall okc (fold_left (norm_step abs) cs acc).
Proof.
  induction cs as [|c cs IH]; intros acc Ha Hc; [exact Ha|].
  inversion Hc; subst. simpl. apply IH; [apply norm_step_okc|]; assumption.
Qed.

Lemma canon_of_okc l cs : cs <> [] -> Forall okc cs -> canon (l, cs).
Proof.
  intros Hne H. unfold canon. simpl. split; [exact Hne|]. split.
  - eapply Forall_impl; [|exact H]. intros c [_ Hc]. exact Hc.
  - intros r E. subst. inversion H as [|? ? [D _] _]. discriminate.
Qed.

Lemma canon_single_nil l : canon (l, [[]]).
Proof. unfold canon. simpl. split; [discriminate|]. split; [constructor; [apply noslash_nil|constructor]|]. intros r E. inversion E. reflexivity. Qed.

Lemma canon_normpath u : Forall noslash (snd u) -> canon (py_normpath u).
Proof.
  intros Hn. unfold py_normpath.
  assert (Hd : canon (0, [s_dot])).
  { apply canon_of_okc; [discriminate|]. constructor; [split; [reflexivity|apply noslash_dot]|constructor]. }
  destruct (is_empty_path u); [exact Hd|].
  set (i := norm_lead (fst u)).
  pose proof (fold_norm_okc (negb (i =? 0)) (snd u) [] (Forall_nil _) Hn) as Hf.
  apply Forall_rev in Hf.
  destruct (rev (fold_left (norm_step (negb (i =? 0))) (snd u) [])) as [|a r] eqn:E.
  - destruct (i =? 0); [exact Hd|apply canon_single_nil].
  - apply canon_of_okc; [discriminate|exact Hf].
Qed.

(* ---------- join *)
Lemma canon_join a b : canon a -> canon b -> canon (py_join a b).
Proof.
  intros Ha Hb. unfold py_join.
  destruct (isabs b); [exact Hb|]. destruct (is_empty_path a); [exact Hb|].
  destruct a as [la ca], b as [lb cb]. destruct Ha as [Ha1 [Ha2 Ha3]], Hb as [Hb1 [Hb2 Hb3]]. simpl in *.
  destruct (ends_with_sep (la, ca)) eqn:Es; unfold canon; simpl.
  - split; [destruct (removelast ca); [exact Hb1|discriminate]|].
    split; [apply Forall_app; split; [apply Forall_removelast; exact Ha2|exact Hb2]|].
    intros r E.
    destruct (snoc_cases ca) as [->|[ca' [x ->]]]; [congruence|].
    rewrite removelast_snoc in E.
    destruct ca' as [|c0 ca''].
    + simpl in E. apply Hb3. exact E.
    + simpl in E. inversion E; subst. specialize (Ha3 _ eq_refl). destruct ca''; discriminate.
  - split; [destruct ca; [congruence|discriminate]|].
    split; [apply Forall_app; split; assumption|].
    intros r E. destruct ca as [|c0 ca']; [congruence|]. simpl in E. inversion E; subst.
    specialize (Ha3 _ eq_refl). subst ca'.
    (* a = (la, [[]]) does not end with a separator only if ... it always does: contradiction *)
    unfold ends_with_sep in Es. simpl in Es. discriminate.
Qed.

Lemma noslash_join a b : Forall noslash (snd a) -> Forall noslash (snd b) -> Forall noslash (snd (py_join a b)).
Proof.
  intros Ha Hb. unfold py_join.
  destruct (isabs b); [assumption|]. destruct (is_empty_path a); [assumption|].
  destruct (ends_with_sep a); simpl; apply Forall_app; split; auto. apply Forall_removelast. assumption.
Qed.

Lemma noslash_cwd_up cwd : Forall noslash cwd -> Forall noslash (snd (cwd_up cwd)).
Proof. intros H. unfold cwd_up. simpl. destruct cwd; [constructor; [apply noslash_nil|constructor]|exact H]. Qed.

Lemma canon_abspath cwd p : Forall noslash cwd -> Forall noslash (snd p) -> canon (py_abspath cwd p).
Proof.
  intros Hc Hp. unfold py_abspath. apply canon_normpath.
  destruct (isabs p); [exact Hp|]. apply noslash_join; [apply noslash_cwd_up; exact Hc|exact Hp].
Qed.

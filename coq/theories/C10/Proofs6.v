(* C10/Proofs6.v — for a relative location the hypothesis "the kernel resolves base_dir" of C10_contained is
   not an extra assumption: it follows from open(join(base_dir, location)) succeeding. *)
From Coq Require Import NArith List Bool Arith Lia.
From IRV Require Import Base.Exn C10.Model C10.Proofs1 C10.Proofs2 C10.Proofs3 C10.Proofs4 C10.Proofs5 C10.StrPrefix.
Import ListNotations.

Lemma parse_comps_nonempty s : snd (parse s) <> [].
Proof. unfold parse. destruct (count_lead s) as [n r]. simpl. apply split_slash_nonempty. Qed.

Lemma count_lead_zero s : fst (count_lead s) = 0 -> snd (count_lead s) = s.
Proof.
  destruct s as [|c r]; [reflexivity|]. simpl. destruct (N.eqb c slash).
  - destruct (count_lead r). simpl. discriminate.
  - reflexivity.
Qed.

Lemma parse_nonempty s : s <> [] -> is_empty_path (parse s) = false.
Proof.
  intros Hs. unfold is_empty_path, parse.
  destruct (count_lead s) as [n r] eqn:E. simpl.
  destruct n as [|n]; [|reflexivity]. simpl.
  pose proof (count_lead_zero s) as H. rewrite E in H. simpl in H. specialize (H eq_refl). subst r.
  destruct s as [|c t]; [congruence|].
  simpl in E. simpl. destruct (N.eqb c slash) eqn:Ec.
  - destruct (count_lead t). discriminate.
  - destruct (split_slash t) as [|h tl]; reflexivity.
Qed.

Theorem base_resolves_if_relative_loc kf fs cwd base loc rp n :
  base <> [] -> isabs (parse loc) = false ->
  kstr kf fs cwd (py_join (parse base) (parse loc)) true = Some (rp, n) ->
  exists rb nb, kstr kf fs cwd (parse base) true = Some (rb, nb).
Proof.
  intros Hb Hrel Hk.
  pose proof (parse_nonempty base Hb) as Hne.
  pose proof (parse_comps_nonempty loc) as Hl.
  pose proof (parse_comps_nonempty base) as Hbc.
  unfold py_join in Hk. rewrite Hrel, Hne in Hk.
  unfold kstr in *. rewrite Hne.
  destruct (ends_with_sep (parse base)) eqn:Es.
  - (* base ends with "/" *)
    match type of Hk with context [is_empty_path ?u] => destruct (is_empty_path u); [discriminate|] end.
    simpl fst in Hk. simpl snd in Hk.
    destruct kf as [|kf0]; [discriminate|]. rewrite kwalk_S in *.
    change (isabs (fst (parse base), removelast (snd (parse base)) ++ snd (parse loc))) with (isabs (parse base)) in Hk.
    rewrite go_app in Hk by assumption.
    match type of Hk with context [go fs ?rc true ?st (removelast _)] =>
      destruct (go fs rc true st (removelast (snd (parse base)))) as [[c' n']|] eqn:E1 end; [|discriminate].
    unfold ends_with_sep in Es. destruct (snd (parse base)) as [|b0 bs] eqn:Eb; [congruence|].
    assert (Hlast : last (b0 :: bs) s_dot = []) by (destruct (last (b0 :: bs) s_dot); [reflexivity|discriminate]).
    rewrite (app_removelast_last s_dot (l := b0 :: bs)) by discriminate. rewrite Hlast.
    rewrite go_app by discriminate. rewrite E1.
    destruct (snd (parse loc)) as [|l0 ls]; [congruence|].
    rewrite go_cons in Hk. rewrite go_cons.
    destruct (get fs c') as [[k e| |]|] eqn:Ec; try discriminate.
    simpl. rewrite Ec. eauto.
  - match type of Hk with context [is_empty_path ?u] => destruct (is_empty_path u); [discriminate|] end.
    simpl fst in Hk. simpl snd in Hk.
    destruct kf as [|kf0]; [discriminate|]. rewrite kwalk_S in *.
    change (isabs (fst (parse base), snd (parse base) ++ snd (parse loc))) with (isabs (parse base)) in Hk.
    rewrite go_app in Hk by assumption.
    match type of Hk with context [go fs ?rc true ?st (snd (parse base))] =>
      destruct (go fs rc true st (snd (parse base))) as [[c' n']|] eqn:E1 end; [|discriminate].
    eauto.
Qed.

Theorem contained_relative_loc kf fs cwd pf base loc rp ino data a e :
  get fs cwd = Some (Dir a e) -> Forall entry_name cwd ->
  base <> [] -> isabs (parse loc) = false ->
  check kf fs cwd pf base loc = Some (Ok tt) ->
  kopen kf fs cwd base loc = Ok (rp, ino, data) ->
  exists rb nb, kstr kf fs cwd (parse base) true = Some (rb, nb) /\
    (exists suf, rp = rb ++ suf) /\ exists nl, get fs rp = Some (File ino nl data) /\ (nl <= 1)%N.
Proof.
  intros Hcwd Hcg Hb Hrel Hc Ho.
  assert (Hk : exists n, kstr kf fs cwd (py_join (parse base) (parse loc)) true = Some (rp, n)).
  { unfold kopen in Ho. destruct (kstr kf fs cwd (py_join (parse base) (parse loc)) true) as [[rp' n]|]; [|discriminate].
    destruct n; try discriminate. inversion Ho; subst. eauto. }
  destruct Hk as [n Hk].
  destruct (base_resolves_if_relative_loc _ _ _ _ _ _ _ Hb Hrel Hk) as [rb [nb Hkb]].
  exists rb, nb. split; [exact Hkb|].
  eapply contained_open; eauto.
Qed.

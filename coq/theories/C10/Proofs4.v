(* C10/Proofs4.v — containment of every read, fail-closed, every entry point checked, load(). *)
From Coq Require Import NArith List Bool Arith Lia.
From IRV Require Import Base.Exn C10.Model C10.Proofs1 C10.Proofs2 C10.Proofs3 C10.StrPrefix.
Import ListNotations.

Definition entry_name (c : str) : Prop := good c /\ noslash c.

Lemma entry_name_ok c : entry_name c -> name_ok c.
Proof. intros [[H _] Hn]. split; [|exact Hn]. destruct c; [discriminate|discriminate]. Qed.

Lemma abs_of_abs_up rp : abs_of rp = abs_up rp.
Proof. reflexivity. Qed.

Lemma py_join_forall (P : str -> Prop) a b :
  Forall P (snd a) -> Forall P (snd b) -> Forall P (snd (py_join a b)).
Proof.
  intros Ha Hb. unfold py_join.
  destruct (isabs b); [assumption|]. destruct (is_empty_path a); [assumption|].
  destruct (ends_with_sep a); simpl; apply Forall_app; split; auto. apply Forall_removelast. assumption.
Qed.

(* what a successful system call returns: a real, link-free location made of entry names *)
Lemma kstr_result kf fs cwd u rp n a e :
  get fs cwd = Some (Dir a e) -> Forall entry_name cwd -> Forall noslash (snd u) ->
  kstr kf fs cwd u true = Some (rp, n) ->
  Forall entry_name rp /\ get fs rp = Some n /\ not_link n.
Proof.
  intros Hcwd Hcg Hu Hk. unfold kstr in Hk. destruct (is_empty_path u); [discriminate|].
  assert (Hs : Forall (fun c => good c /\ noslash c) (if isabs u then [] else cwd)).
  { destruct (isabs u); [constructor|exact Hcg]. }
  assert (Hi : inv_cur fs (if isabs u then [] else cwd)).
  { intros x Hx. destruct (isabs u).
    - simpl in Hx. inversion Hx; subst. pose proof (get_dir_root_dir _ _ _ _ Hcwd) as Hd. destruct x; try contradiction; exact I.
    - rewrite Hcwd in Hx. inversion Hx. exact I. }
  destruct (kwalk_result fs noslash parse_noslash kf _ _ _ _ _ Hs Hu Hi Hk) as [A [B C]].
  split; [exact A|]. split; [exact B|]. apply C. reflexivity.
Qed.

Lemma Forall_entry_good l : Forall entry_name l -> Forall good l.
Proof. intros H. eapply Forall_impl; [|exact H]. intros c [Hc _]. exact Hc. Qed.

(* ------------------------------------------------------------------ C10_contained *)
Theorem contained kf fs cwd pf base loc rb nb rp n a e :
  get fs cwd = Some (Dir a e) -> Forall entry_name cwd ->
  base <> [] ->
  check kf fs cwd pf base loc = Some (Ok tt) ->
  kstr kf fs cwd (parse base) true = Some (rb, nb) ->
  kstr kf fs cwd (py_join (parse base) (parse loc)) true = Some (rp, n) ->
  (exists suf, rp = rb ++ suf) /\ (nlink_of n <= 1)%N /\ get fs rp = Some n /\ not_link n.
Proof.
  intros Hcwd Hcg Hb Hc Hkb Hkp.
  pose proof (Forall_entry_good _ Hcg) as Hcgood.
  unfold check in Hc. destruct base as [|b0 base']; [congruence|]. cbv iota in Hc.
  change (is_nil (b0 :: base')) with false in Hc. cbv iota in Hc.
  set (base := b0 :: base') in *.
  cbv zeta in Hc.
  match type of Hc with context [negb (within ?x ?y)] => destruct (negb (within x y)) eqn:Ew1 end; [discriminate Hc|].
  destruct (py_realpath kf fs cwd pf (parse base)) as [br|] eqn:Ebr; [|discriminate].
  destruct (py_realpath kf fs cwd pf (py_join (parse base) (parse loc))) as [pr|] eqn:Epr; [|discriminate].
  pose proof (realpath_agrees_resolve_up _ _ _ _ _ _ _ _ _ _ Hcwd Hcgood Hkb Ebr) as ->.
  pose proof (realpath_agrees_resolve_up _ _ _ _ _ _ _ _ _ _ Hcwd Hcgood Hkp Epr) as ->.
  destruct (kstr_result _ _ _ _ _ _ _ _ Hcwd Hcg (parse_noslash base) Hkb) as [Hrb [Hgb Hnb]].
  assert (Hpj : Forall noslash (snd (py_join (parse base) (parse loc)))).
  { apply py_join_forall; apply parse_noslash. }
  destruct (kstr_result _ _ _ _ _ _ _ _ Hcwd Hcg Hpj Hkp) as [Hrp [Hgp Hnp]].
  destruct (negb (within (render (abs_of rp)) (render (abs_of rb)))) eqn:Ew; [discriminate|].
  apply negb_false_iff in Ew. rewrite !abs_of_abs_up in Ew.
  apply prefix_with_sep_iff_component_prefix in Ew;
    [|eapply Forall_impl; [|exact Hrb]; apply entry_name_ok
     |eapply Forall_impl; [|exact Hrp]; apply entry_name_ok].
  split; [exact Ew|].
  destruct kf as [|kf0]; [unfold kstr in Hkb; destruct (is_empty_path (parse base)); discriminate|].
  rewrite (stat_abs kf0 fs cwd rp n (get_dir_root_dir _ _ _ _ Hcwd) (Forall_entry_good _ Hrp) Hgp Hnp) in Hc.
  destruct (1 <? nlink_of n)%N eqn:El; [discriminate|].
  apply N.ltb_ge in El. auto.
Qed.

(* in terms of open(): the bytes come from a regular file, singly linked, below the resolved base *)
Corollary contained_open kf fs cwd pf base loc rb nb rp ino data a e :
  get fs cwd = Some (Dir a e) -> Forall entry_name cwd ->
  base <> [] ->
  check kf fs cwd pf base loc = Some (Ok tt) ->
  kstr kf fs cwd (parse base) true = Some (rb, nb) ->
  kopen kf fs cwd base loc = Ok (rp, ino, data) ->
  (exists suf, rp = rb ++ suf) /\ exists nl, get fs rp = Some (File ino nl data) /\ (nl <= 1)%N.
Proof.
  intros Hcwd Hcg Hb Hc Hkb Ho. unfold kopen in Ho.
  destruct (kstr kf fs cwd (py_join (parse base) (parse loc)) true) as [[rp' n]|] eqn:Ek; [|discriminate].
  destruct n as [| i nl d |]; try discriminate. inversion Ho; subst.
  destruct (contained _ _ _ _ _ _ _ _ _ _ _ _ Hcwd Hcg Hb Hc Hkb Ek) as [Hp [Hl [Hg _]]].
  split; [exact Hp|]. exists nl. split; [exact Hg|exact Hl].
Qed.

(* ------------------------------------------------------------------ entry points *)
Section Entries.
  Variables (kf : nat) (fs : node) (cwd : rpath) (pf : nat).

  Inductive ev_shape (t : tstate) : list event -> Prop :=
  | shape_none : ev_shape t []
  | shape_check rc :
      check kf fs cwd pf (t_base t) (t_loc t) = Some rc ->
      ev_shape t [EvCheck (t_base t) (t_loc t) rc]
  | shape_open e :
      check kf fs cwd pf (t_base t) (t_loc t) = Some (Ok tt) ->
      kopen kf fs cwd (t_base t) (t_loc t) = Raise e ->
      ev_shape t [EvCheck (t_base t) (t_loc t) (Ok tt); EvOpen (t_base t) (t_loc t)]
  | shape_read rp ino data :
      check kf fs cwd pf (t_base t) (t_loc t) = Some (Ok tt) ->
      kopen kf fs cwd (t_base t) (t_loc t) = Ok (rp, ino, data) ->
      ev_shape t [EvCheck (t_base t) (t_loc t) (Ok tt); EvOpen (t_base t) (t_loc t); EvRead rp ino].

  Ltac chk t :=
    unfold do_check in *;
    destruct (check kf fs cwd pf (t_base t) (t_loc t)) as [[[]|?]|] eqn:Echk; try discriminate.

  Lemma load_shape t t' ev r : load kf fs cwd pf t = Some (t', ev, r) -> ev_shape t ev /\ t_loc t' = t_loc t /\ t_base t' = t_base t.
  Proof.
    unfold load. destruct (negb (t_valid t)); [intros H; inversion H; subst; repeat split; constructor|].
    chk t.
    - destruct (t_arr t); [intros H; inversion H; subst; repeat split; constructor; assumption|].
      destruct (N.eqb (t_n t) 0); [intros H; inversion H; subst; repeat split; constructor; assumption|].
      destruct (kopen kf fs cwd (t_base t) (t_loc t)) as [[[rp ino] data]|e] eqn:Eo.
      + destruct (is_nil data); [intros H; inversion H; subst; repeat split; econstructor; eassumption|].
        destruct (N.of_nat (length data) <? or0 (t_off t) + t_n t)%N;
          intros H; inversion H; subst; repeat split; econstructor; eassumption.
      + intros H; inversion H; subst; repeat split; econstructor; eassumption.
    - intros H; inversion H; subst; repeat split; constructor; assumption.
  Qed.

  Lemma numpy_shape t t' ev r : numpy kf fs cwd pf t = Some (t', ev, r) -> ev_shape t ev /\ t_loc t' = t_loc t /\ t_base t' = t_base t.
  Proof.
    unfold numpy. destruct (negb (t_valid t)); [intros H; inversion H; subst; repeat split; constructor|].
    destruct (t_arr t); [intros H; inversion H; subst; repeat split; constructor|]. apply load_shape.
  Qed.

  Lemma tobytes_shape t t' ev r : tobytes kf fs cwd pf t = Some (t', ev, r) -> ev_shape t ev /\ t_loc t' = t_loc t /\ t_base t' = t_base t.
  Proof.
    unfold tobytes. destruct (negb (t_valid t)); [intros H; inversion H; subst; repeat split; constructor|].
    destruct (N.eqb (t_n t) 0).
    - chk t; intros H; inversion H; subst; repeat split; constructor; assumption.
    - destruct (t_raw t) eqn:Er.
      + intros H; inversion H; subst; repeat split; constructor.
      + destruct (load kf fs cwd pf t) as [[[t1 ev1] [a|e]]|] eqn:El; try discriminate.
        * destruct (load_shape _ _ _ _ El) as [A [B C]].
          destruct (t_raw t1); intros H; inversion H; subst; auto.
        * destruct (load_shape _ _ _ _ El) as [A [B C]]. intros H; inversion H; subst; auto.
  Qed.

  Lemma tofile_shape t t' ev r : tofile kf fs cwd pf t = Some (t', ev, r) -> ev_shape t ev /\ t_loc t' = t_loc t /\ t_base t' = t_base t.
  Proof.
    unfold tofile. destruct (negb (t_valid t)); [intros H; inversion H; subst; repeat split; constructor|].
    chk t.
    - destruct (kopen kf fs cwd (t_base t) (t_loc t)) as [[[rp ino] data]|e] eqn:Eo.
      + destruct ((0 <? or_default (t_len t) (t_n t))%N && (N.of_nat (length data) <? or0 (t_off t) + or_default (t_len t) (t_n t))%N);
          intros H; inversion H; subst; repeat split; econstructor; eassumption.
      + intros H; inversion H; subst; repeat split; econstructor; eassumption.
    - intros H; inversion H; subst; repeat split; constructor; assumption.
  Qed.

  (* every entry point: at most one open, always after a check of the CURRENT base_dir/location that passed *)
  Theorem every_entry_checked o t t' ev r :
    step kf fs cwd pf o t = Some (t', ev, r) ->
    ev_shape t ev /\ t_loc t' = t_loc t.
  Proof.
    destruct o; simpl; intros H.
    - inversion H; subst. split; [constructor|reflexivity].
    - destruct (numpy_shape _ _ _ _ H) as [A [B _]]. auto.
    - destruct (numpy_shape _ _ _ _ H) as [A [B _]]. auto.
    - destruct (tobytes_shape _ _ _ _ H) as [A [B _]]. auto.
    - destruct (tofile_shape _ _ _ _ H) as [A [B _]]. auto.
    - destruct (numpy kf fs cwd pf t) as [[[t1 ev1] [a|e]]|] eqn:En; try discriminate;
        destruct (numpy_shape _ _ _ _ En) as [A [B _]]; inversion H; subst; auto.
    - inversion H; subst. split; [constructor|reflexivity].
    - inversion H; subst. split; [constructor|reflexivity].
  Qed.

  Definition is_read_op (o : op) : bool :=
    match o with Numpy | ArrayProto | ToBytes | ToFile | Serialize => true | _ => false end.

  (* fail closed: when the check raises, nothing is opened or read; a tensor without cached data returns
     the check's exception and is left unchanged *)
  Theorem fail_closed o t t' ev r e :
    step kf fs cwd pf o t = Some (t', ev, r) ->
    check kf fs cwd pf (t_base t) (t_loc t) = Some (Raise e) ->
    (forall x, In x ev -> x = EvCheck (t_base t) (t_loc t) (Raise e)) /\
    (is_read_op o = true -> t_valid t = true -> t_arr t = None -> t_raw t = None -> r = Raise e /\ t' = t).
  Proof.
    intros Hs Hc. split.
    - destruct (every_entry_checked _ _ _ _ _ Hs) as [Hsh _].
      inversion Hsh; subst; intros x Hx; simpl in Hx.
      + contradiction.
      + destruct Hx as [<-|[]]. congruence.
      + congruence.
      + congruence.
    - intros Ho Hv Ha Hr.
      assert (Hl : load kf fs cwd pf t = Some (t, [EvCheck (t_base t) (t_loc t) (Raise e)], Raise e)).
      { unfold load, do_check. rewrite Hv, Hc. reflexivity. }
      destruct o; try discriminate; simpl in Hs.
      + unfold numpy in Hs. rewrite Hv, Ha, Hl in Hs. inversion Hs; auto.
      + unfold numpy in Hs. rewrite Hv, Ha, Hl in Hs. inversion Hs; auto.
      + unfold tobytes, do_check in Hs. rewrite Hv, Hc, Hr, Hl in Hs. simpl in Hs.
        destruct (N.eqb (t_n t) 0); inversion Hs; auto.
      + unfold tofile, do_check in Hs. rewrite Hv, Hc in Hs. inversion Hs; auto.
      + unfold numpy in Hs. rewrite Hv, Ha, Hl in Hs. inversion Hs; auto.
  Qed.

  (* histories: every read event of every step is contained in the base_dir in force at that step *)
  Theorem history_reads_contained a e :
    get fs cwd = Some (Dir a e) -> Forall entry_name cwd ->
    forall ops t l, run kf fs cwd pf ops t = Some l ->
    forall b ev r, In (b, ev, r) l ->
    forall rp ino, In (EvRead rp ino) ev ->
    b <> [] -> forall rb nb, kstr kf fs cwd (parse b) true = Some (rb, nb) ->
    (exists suf, rp = rb ++ suf) /\ exists nl data, get fs rp = Some (File ino nl data) /\ (nl <= 1)%N.
  Proof.
    intros Hcwd Hcg. induction ops as [|o ops IH]; intros t l Hrun b ev r Hin rp ino Hrd Hb rb nb Hkb.
    - inversion Hrun; subst. contradiction.
    - simpl in Hrun. destruct (step kf fs cwd pf o t) as [[[t1 ev1] r1]|] eqn:Es; [|discriminate].
      destruct (run kf fs cwd pf ops t1) as [l1|] eqn:Er; [|discriminate].
      inversion Hrun; subst. destruct Hin as [Hin|Hin].
      + inversion Hin; subst.
        destruct (every_entry_checked _ _ _ _ _ Es) as [Hsh _].
        inversion Hsh; subst; simpl in Hrd.
        * contradiction.
        * destruct Hrd as [Hx|[]]; discriminate.
        * destruct Hrd as [Hx|[Hx|[]]]; discriminate.
        * destruct Hrd as [Hx|[Hx|[Hx|[]]]]; try discriminate. inversion Hx; subst.
          destruct (contained_open _ _ _ _ _ _ _ _ _ _ _ _ _ Hcwd Hcg Hb H Hkb H0) as [P [nl [G L]]].
          split; [exact P|]. eauto.
      + eapply IH; eauto.
  Qed.
End Entries.

(* ------------------------------------------------------------------ histories with a changing world *)
Definition world_ok (fs : node) (cwd : rpath) : Prop :=
  (exists a e, get fs cwd = Some (Dir a e)) /\ Forall entry_name cwd.

Fixpoint worlds_ok (ops : list wop) : Prop :=
  match ops with
  | [] => True
  | World f c :: r => world_ok f c /\ worlds_ok r
  | TOp _ :: r => worlds_ok r
  end.

Theorem world_history_reads_contained kf pf :
  forall ops fs cwd t l, world_ok fs cwd -> worlds_ok ops ->
  wrun kf pf ops fs cwd t = Some l ->
  forall fs' cwd' b ev r, In (fs', cwd', b, ev, r) l ->
  forall rp ino, In (EvRead rp ino) ev ->
  b <> [] -> forall rb nb, kstr kf fs' cwd' (parse b) true = Some (rb, nb) ->
  (exists suf, rp = rb ++ suf) /\ exists nl data, get fs' rp = Some (File ino nl data) /\ (nl <= 1)%N.
Proof.
  induction ops as [|o ops IH]; intros fs cwd t l Hw Hws Hrun fs' cwd' b ev r Hin rp ino Hrd Hb rb nb Hkb.
  - inversion Hrun; subst. contradiction.
  - destruct o as [o|f c]; simpl in Hrun.
    + destruct (step kf fs cwd pf o t) as [[[t1 ev1] r1]|] eqn:Es; [|discriminate].
      destruct (wrun kf pf ops fs cwd t1) as [l1|] eqn:Er; [|discriminate].
      inversion Hrun; subst. destruct Hin as [Hin|Hin].
      * inversion Hin; subst.
        destruct Hw as [[a [e Hcwd]] Hcg].
        destruct (every_entry_checked _ _ _ _ _ _ _ _ _ Es) as [Hsh _].
        inversion Hsh; subst; simpl in Hrd.
        -- contradiction.
        -- destruct Hrd as [Hx|[]]; discriminate.
        -- destruct Hrd as [Hx|[Hx|[]]]; discriminate.
        -- destruct Hrd as [Hx|[Hx|[Hx|[]]]]; try discriminate. inversion Hx; subst.
           destruct (contained_open _ _ _ _ _ _ _ _ _ _ _ _ _ Hcwd Hcg Hb H Hkb H0) as [P [nl [G L]]].
           split; [exact P|]. eauto.
      * eapply (IH fs cwd t1); eauto.
    + destruct (wrun kf pf ops f c t) as [l1|] eqn:Er; [|discriminate].
      inversion Hrun; subst. destruct Hws as [Hw' Hws']. destruct Hin as [Hin|Hin].
      * inversion Hin; subst. contradiction.
      * eapply (IH f c t); eauto.
Qed.

(* ------------------------------------------------------------------ load() *)
Lemma render_nonempty u : is_empty_path u = false -> snd u <> [] -> render u <> [].
Proof.
  destruct u as [l cs]. unfold is_empty_path, render. simpl. intros He Hne.
  destruct l as [|l]; simpl; [|discriminate].
  destruct cs as [|c [|c2 r]]; simpl in *.
  - congruence.
  - destruct c; [discriminate|discriminate].
  - destruct c; discriminate.
Qed.

Lemma py_split_head_nonempty u : snd (fst (py_split u)) <> [].
Proof.
  unfold py_split. simpl. destruct (strip_trailing_empty (removelast (snd u))); simpl; discriminate.
Qed.

Theorem load_base_nonempty p : load_base p <> [].
Proof.
  unfold load_base. destruct (is_empty_path (py_dirname (parse p))) eqn:E; [discriminate|].
  apply render_nonempty; [exact E|]. apply py_split_head_nonempty.
Qed.

Theorem load_sets_all_base p m t :
  In t (m_graph (load_model p m) ++ m_funcs (load_model p m)) -> t_base t = load_base p /\ t_base t <> [].
Proof.
  unfold load_model. simpl. intros H. apply in_app_or in H.
  destruct H as [H|H]; apply in_map_iff in H; destruct H as [t0 [<- _]];
    (simpl; split; [reflexivity|apply load_base_nonempty]).
Qed.

(* the fixed defect: a bare file name *)
Example load_base_bare : load_base [109; 46; 111; 110; 110; 120]%N = s_dot.
Proof. reflexivity. Qed.

(* an empty base_dir (programmatic construction only, never after load) disables the check for EVERY
   location: this is why load() must never leave it empty *)
Theorem empty_base_unchecked kf fs cwd pf loc : check kf fs cwd pf [] loc = Some (Ok tt).
Proof. reflexivity. Qed.

(* C10/Traverse.v — which tensors load() gives the base directory to: a model of external_data._all_tensors
   (initializers, then RecursiveGraphIterator over all nodes of the graph and of every nested subgraph, per node the
   TENSOR / TENSORS attributes and the initializers of GRAPH / GRAPHS attributes), set_base_dir, and _io.load
   (model.graph and every model-local function), against an independent definition of "occurs in the model". *)
From Coq Require Import NArith List Bool.
Import ListNotations.

(* a tensor object: identity, is it an ExternalTensor? *)
Definition tens := (N * bool)%type.

Inductive attr : Type :=
| ATensor (t : tens) | ATensors (ts : list tens)
| AGraph (g : graph) | AGraphs (gs : list graph) | AOther
with node : Type := Node (attrs : list attr)
with graph : Type := Graph (inits : list tens) (nodes : list node).

Definition n_attrs (n : node) := match n with Node a => a end.
Definition g_inits (g : graph) := match g with Graph i _ => i end.
Definition g_nodes (g : graph) := match g with Graph _ n => n end.

(* traversal.RecursiveGraphIterator: every node, then the nodes of its graph attributes, depth first *)
Fixpoint rec_nodes (g : graph) : list node :=
  match g with
  | Graph _ nodes =>
      flat_map (fun n => n :: flat_map (fun a => match a with
                                                 | AGraph g2 => rec_nodes g2
                                                 | AGraphs gs => flat_map rec_nodes gs
                                                 | _ => []
                                                 end) (n_attrs n)) nodes
  end.

Definition nodes_rec (ns : list node) : list node :=
  flat_map (fun n => n :: flat_map (fun a => match a with
                                             | AGraph g2 => rec_nodes g2
                                             | AGraphs gs => flat_map rec_nodes gs
                                             | _ => []
                                             end) (n_attrs n)) ns.

(* the per-node part of _all_tensors(include_attributes=True) *)
Definition node_tensors (n : node) : list tens :=
  flat_map (fun a => match a with
                     | ATensor t => [t]
                     | ATensors ts => ts
                     | AGraph g => g_inits g
                     | AGraphs gs => flat_map g_inits gs
                     | AOther => []
                     end) (n_attrs n).

Definition all_tensors (g : graph) : list tens := g_inits g ++ flat_map node_tensors (rec_nodes g).
(* a Function has no initializers *)
Definition all_tensors_fn (body : list node) : list tens := flat_map node_tensors (nodes_rec body).

Record model := mkModel { md_graph : graph; md_funcs : list (list node) }.

(* _io.load: set_base_dir(model.graph) and set_base_dir(function) for every function; only ExternalTensors *)
Definition visited (m : model) : list tens :=
  all_tensors (md_graph m) ++ flat_map all_tensors_fn (md_funcs m).
Definition gets_base (m : model) (t : tens) : bool :=
  snd t && existsb (fun x => N.eqb (fst x) (fst t)) (visited m).

(* ---------- independent specification: where a tensor can sit in a model *)
Inductive occ_g : graph -> tens -> Prop :=
| occ_init g t : In t (g_inits g) -> occ_g g t
| occ_in_node g n t : In n (g_nodes g) -> occ_n n t -> occ_g g t
with occ_n : node -> tens -> Prop :=
| occ_attr_t n t : In (ATensor t) (n_attrs n) -> occ_n n t
| occ_attr_ts n ts t : In (ATensors ts) (n_attrs n) -> In t ts -> occ_n n t
| occ_attr_g n g t : In (AGraph g) (n_attrs n) -> occ_g g t -> occ_n n t
| occ_attr_gs n gs g t : In (AGraphs gs) (n_attrs n) -> In g gs -> occ_g g t -> occ_n n t.

Scheme occ_g_mind := Minimality for occ_g Sort Prop
  with occ_n_mind := Minimality for occ_n Sort Prop.

Definition occ_model (m : model) (t : tens) : Prop :=
  occ_g (md_graph m) t \/ exists body n, In body (md_funcs m) /\ In n body /\ occ_n n t.

Definition sub_nodes (n : node) : list node :=
  flat_map (fun a => match a with
                     | AGraph g2 => rec_nodes g2
                     | AGraphs gs => flat_map rec_nodes gs
                     | _ => []
                     end) (n_attrs n).

Lemma rec_nodes_unfold g : rec_nodes g = flat_map (fun n => n :: sub_nodes n) (g_nodes g).
Proof. destruct g; reflexivity. Qed.

(* what a node contributes once the iterator reaches it: its own attribute tensors / subgraph initializers, and
   everything below its subgraphs *)
Definition P_g (g : graph) (t : tens) : Prop := In t (all_tensors g).
Definition P_n (n : node) (t : tens) : Prop := In t (flat_map node_tensors (n :: sub_nodes n)).

Lemma occ_complete :
  (forall g t, occ_g g t -> P_g g t) /\ (forall n t, occ_n n t -> P_n n t).
Proof.
  split.
  - apply (occ_g_mind P_g P_n); unfold P_g, P_n, all_tensors.
    + intros g t H. apply in_or_app. left. exact H.
    + intros g n t Hn _ IH. apply in_or_app. right. rewrite rec_nodes_unfold.
      apply in_flat_map in IH. destruct IH as [x [Hx Ht]].
      apply in_flat_map. exists x. split; [|exact Ht]. apply in_flat_map. exists n. auto.
    + intros n t H. simpl. apply in_or_app. left. unfold node_tensors. apply in_flat_map. exists (ATensor t). split; [exact H|left; reflexivity].
    + intros n ts t H Ht. simpl. apply in_or_app. left. unfold node_tensors. apply in_flat_map. exists (ATensors ts). auto.
    + intros n g t H _ IH. simpl. unfold all_tensors in IH. apply in_app_or in IH. apply in_or_app. destruct IH as [IH|IH].
      * left. unfold node_tensors. apply in_flat_map. exists (AGraph g). auto.
      * right. apply in_flat_map in IH. destruct IH as [x [Hx Ht]]. apply in_flat_map. exists x. split; [|exact Ht].
        unfold sub_nodes. apply in_flat_map. exists (AGraph g). auto.
    + intros n gs g t H Hg _ IH. simpl. unfold all_tensors in IH. apply in_app_or in IH. apply in_or_app. destruct IH as [IH|IH].
      * left. unfold node_tensors. apply in_flat_map. exists (AGraphs gs). split; [exact H|]. apply in_flat_map. exists g. auto.
      * right. apply in_flat_map in IH. destruct IH as [x [Hx Ht]]. apply in_flat_map. exists x. split; [|exact Ht].
        unfold sub_nodes. apply in_flat_map. exists (AGraphs gs). split; [exact H|]. apply in_flat_map. exists g. auto.
  - apply (occ_n_mind P_g P_n); unfold P_g, P_n, all_tensors.
    + intros g t H. apply in_or_app. left. exact H.
    + intros g n t Hn _ IH. apply in_or_app. right. rewrite rec_nodes_unfold.
      apply in_flat_map in IH. destruct IH as [x [Hx Ht]].
      apply in_flat_map. exists x. split; [|exact Ht]. apply in_flat_map. exists n. auto.
    + intros n t H. simpl. apply in_or_app. left. unfold node_tensors. apply in_flat_map. exists (ATensor t). split; [exact H|left; reflexivity].
    + intros n ts t H Ht. simpl. apply in_or_app. left. unfold node_tensors. apply in_flat_map. exists (ATensors ts). auto.
    + intros n g t H _ IH. simpl. apply in_app_or in IH. apply in_or_app. destruct IH as [IH|IH].
      * left. unfold node_tensors. apply in_flat_map. exists (AGraph g). auto.
      * right. apply in_flat_map in IH. destruct IH as [x [Hx Ht]]. apply in_flat_map. exists x. split; [|exact Ht].
        unfold sub_nodes. apply in_flat_map. exists (AGraph g). auto.
    + intros n gs g t H Hg _ IH. simpl. apply in_app_or in IH. apply in_or_app. destruct IH as [IH|IH].
      * left. unfold node_tensors. apply in_flat_map. exists (AGraphs gs). split; [exact H|]. apply in_flat_map. exists g. auto.
      * right. apply in_flat_map in IH. destruct IH as [x [Hx Ht]]. apply in_flat_map. exists x. split; [|exact Ht].
        unfold sub_nodes. apply in_flat_map. exists (AGraphs gs). split; [exact H|]. apply in_flat_map. exists g. auto.
Qed.

Theorem traversal_complete m t : occ_model m t -> snd t = true -> gets_base m t = true.
Proof.
  intros H He. unfold gets_base. rewrite He. simpl. apply existsb_exists. exists t. split; [|apply N.eqb_refl].
  unfold visited. apply in_or_app. destruct H as [H|[body [n [Hb [Hn Ho]]]]].
  - left. apply (proj1 occ_complete). exact H.
  - right. apply in_flat_map. exists body. split; [exact Hb|].
    unfold all_tensors_fn, nodes_rec. pose proof (proj2 occ_complete _ _ Ho) as Hp. unfold P_n in Hp.
    apply in_flat_map in Hp. destruct Hp as [x [Hx Ht]]. apply in_flat_map. exists x. split; [|exact Ht].
    apply in_flat_map. exists n. split; [exact Hn|exact Hx].
Qed.

(* The base directory a tensor has after load(): the model directory when the traversal reaches it, whatever other
   external_data entries (basepath, checksum, unknown keys — kept in tensor.meta since fb2515e) the model file carries
   for it.  E = the type of those entries, B = base directories. *)
Definition base_after_load {B E : Type} (model_dir : B) (m : model) (t : tens) (old : B) (entries : E) : B :=
  if gets_base m t then model_dir else old.

Theorem base_after_load_ignores_entries {B E : Type} (model_dir old : B) m t (e1 e2 : E) :
  base_after_load model_dir m t old e1 = base_after_load model_dir m t old e2.
Proof. reflexivity. Qed.

Theorem load_assigns_model_dir {B E : Type} (model_dir old : B) m t (e : E) :
  occ_model m t -> snd t = true -> base_after_load model_dir m t old e = model_dir.
Proof. intros H He. unfold base_after_load. rewrite (traversal_complete m t H He). reflexivity. Qed.

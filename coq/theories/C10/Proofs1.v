(* C10/Proofs1.v — lemmas about the file-system / kernel model (get, go, kwalk) and about the shapes
   the path variable of _joinrealpath can take (pform), with the posixpath operations on them. *)
From Coq Require Import NArith List Bool Arith Lia.
From IRV Require Import Base.Exn C10.Model.
Import ListNotations.

(* ------------------------------------------------------------------ equality tests *)
Lemma str_eqb_iff (a b : str) : str_eqb a b = true <-> a = b.
Proof. apply list_eqb_eq. intros x y. apply N.eqb_eq. Qed.

Lemma str_eqb_refl (a : str) : str_eqb a a = true.
Proof. apply str_eqb_iff. reflexivity. Qed.

Lemma upath_eqb_iff (a b : upath) : upath_eqb a b = true <-> a = b.
Proof.
  destruct a as [la ca], b as [lb cb]. unfold upath_eqb. simpl. split.
  - intros H. apply andb_prop in H. destruct H as [H1 H2].
    apply Nat.eqb_eq in H1. apply (list_eqb_eq str_eqb str_eqb_iff) in H2. congruence.
  - intros H. inversion H; subst. apply andb_true_intro. split.
    + apply Nat.eqb_refl.
    + apply (list_eqb_eq str_eqb str_eqb_iff). reflexivity.
Qed.

(* a component that names a directory entry: not "", ".", ".." *)
Definition good (c : str) : Prop := is_nil c = false /\ is_dot c = false /\ is_dotdot c = false.

Lemma good_dotdot_false : good s_dotdot -> False.
Proof. intros [_ [_ H]]. discriminate. Qed.

Lemma is_dotdot_sdd : is_dotdot s_dotdot = true.
Proof. reflexivity. Qed.

Definition not_link (n : node) : Prop := match n with Link _ => False | _ => True end.
Definition is_dir (n : node) : Prop := match n with Dir _ _ => True | _ => False end.

(* ------------------------------------------------------------------ get *)
Lemma get_app fs p q :
  get fs (p ++ q) = match get fs p with Some n => get n q | None => None end.
Proof.
  revert fs. induction p as [|a p IH]; intros fs; simpl; [reflexivity|].
  destruct fs as [k ents| |]; try reflexivity.
  destruct (ent_get ents a); [apply IH | reflexivity].
Qed.

Lemma get_snoc fs p a :
  get fs (p ++ [a]) =
  match get fs p with
  | Some (Dir _ ents) => ent_get ents a
  | _ => None
  end.
Proof.
  rewrite get_app. destruct (get fs p) as [n|]; [|reflexivity].
  simpl. destruct n; try reflexivity. destruct (ent_get ents a); reflexivity.
Qed.

Lemma removelast_snoc {A} (l : list A) a : removelast (l ++ [a]) = l.
Proof. rewrite removelast_app by discriminate. simpl. apply app_nil_r. Qed.

Lemma snoc_cases {A} (l : list A) : l = [] \/ exists l' a, l = l' ++ [a].
Proof.
  destruct l as [|x l]; [left; reflexivity|right].
  exists (removelast (x :: l)), (last (x :: l) x). apply app_removelast_last. discriminate.
Qed.

Lemma get_parent_dir fs c n :
  get fs c = Some n -> is_dir fs -> exists k e, get fs (removelast c) = Some (Dir k e).
Proof.
  intros H Hr. destruct (snoc_cases c) as [->|[c' [a ->]]].
  - simpl. destruct fs; try contradiction. eauto.
  - rewrite removelast_snoc. rewrite get_snoc in H.
    destruct (get fs c') as [[k e| |]|]; try discriminate. eauto.
Qed.

Lemma iter_parent_dir fs c n k :
  get fs c = Some n -> is_dir fs -> 0 < k -> exists a e, get fs (Nat.iter k (@removelast str) c) = Some (Dir a e).
Proof.
  intros H Hr Hk. destruct k as [|k]; [lia|]. clear Hk. revert n H.
  induction k as [|k IH]; intros n H; simpl.
  - eapply get_parent_dir; eauto.
  - destruct (IH n H) as [a [e Hg]]. eapply get_parent_dir; eauto.
Qed.

Lemma get_some_root_dir fs c k e : c <> [] -> get fs c = Some (Dir k e) -> is_dir fs.
Proof.
  intros Hc H. destruct c as [|a c]; [congruence|]. simpl in H. destruct fs; try discriminate. exact I.
Qed.

Lemma get_dir_root_dir fs c k e : get fs c = Some (Dir k e) -> is_dir fs.
Proof.
  intros H. destruct c as [|a c].
  - simpl in H. inversion H. exact I.
  - eapply get_some_root_dir; eauto. discriminate.
Qed.

(* ------------------------------------------------------------------ go *)
Section GoLemmas.
  Variable fs : node.

  Lemma go_nil rec fo cur : go fs rec fo cur [] = match get fs cur with Some n => Some (cur, n) | None => None end.
  Proof. reflexivity. Qed.

  (* walking over real, link-free names *)
  Lemma go_real rec fo : forall names c rest n',
    Forall good names -> get fs (c ++ names) = Some n' -> not_link n' ->
    go fs rec fo c (names ++ rest) = go fs rec fo (c ++ names) rest.
  Proof.
    induction names as [|a names IH]; intros c rest n' Hg Hget Hnl.
    - simpl. rewrite app_nil_r. reflexivity.
    - inversion Hg as [|? ? Ha Hg']; subst. destruct Ha as [Ha1 [Ha2 Ha3]].
      change (c ++ a :: names) with (c ++ [a] ++ names) in *.
      rewrite app_assoc in Hget |- *.
      pose proof Hget as Hget0.
      rewrite get_app in Hget. destruct (get fs (c ++ [a])) as [x|] eqn:Hx; [|discriminate].
      rewrite get_snoc in Hx. destruct (get fs c) as [[k ents| |]|] eqn:Hc; try discriminate.
      simpl. rewrite Hc, Ha1, Ha2, Ha3. simpl. rewrite Hx.
      assert (Hxl : not_link x).
      { destruct names as [|b names]; simpl in Hget.
        - inversion Hget; subst. exact Hnl.
        - destruct x; try discriminate. exact I. }
      destruct x as [k' e'| |]; try contradiction.
      + apply (IH (c ++ [a]) rest n' Hg' Hget0 Hnl).
      + apply (IH (c ++ [a]) rest n' Hg' Hget0 Hnl).
  Qed.

  Lemma go_dotdots rec fo : forall k c rest a e,
    get fs c = Some (Dir a e) ->
    go fs rec fo c (repeat s_dotdot k ++ rest) = go fs rec fo (Nat.iter k (@removelast str) c) rest.
  Proof.
    induction k as [|k IH]; intros c rest a e Hc; [reflexivity|].
    simpl repeat. simpl app. simpl go. rewrite Hc. simpl.
    destruct (get_parent_dir fs c _ Hc (get_dir_root_dir _ _ _ _ Hc)) as [a' [e' Hp]].
    rewrite (IH (removelast c) rest a' e' Hp).
    f_equal. clear. induction k; simpl; [reflexivity|]. rewrite IHk. reflexivity.
  Qed.

  Lemma go_skip_empties rec fo : forall k c rest a e,
    get fs c = Some (Dir a e) ->
    go fs rec fo c (repeat [] k ++ rest) = go fs rec fo c rest.
  Proof.
    induction k as [|k IH]; intros c rest a e Hc; [reflexivity|].
    simpl repeat. simpl app. simpl go. rewrite Hc. simpl. eapply IH; eauto.
  Qed.

  Lemma go_mono rec1 rec2 fo :
    (forall c cs r, rec1 c cs = Some r -> rec2 c cs = Some r) ->
    forall comps cur r, go fs rec1 fo cur comps = Some r -> go fs rec2 fo cur comps = Some r.
  Proof.
    intros Hrec. induction comps as [|c rest IH]; intros cur r H; [exact H|].
    simpl in *. destruct (get fs cur) as [[k ents| |]|]; try discriminate.
    destruct (is_nil c || is_dot c); [apply IH; exact H|].
    destruct (is_dotdot c); [apply IH; exact H|].
    destruct (ent_get ents c) as [[k' e'|i k' d|tgt]|]; try discriminate.
    - apply IH; exact H.
    - apply IH; exact H.
    - destruct (is_nil rest && negb fo); [exact H|].
      destruct (is_empty_path (parse tgt)); [discriminate|].
      match type of H with context [rec1 ?a ?b] => destruct (rec1 a b) as [[cur' n']|] eqn:E end; [|discriminate].
      rewrite (Hrec _ _ _ E). apply IH; exact H.
  Qed.

  (* the result is a real location; with follow it is not a link; its names are directory-entry
     names (good) and stay in any class P closed under parsing of link targets *)
  Definition inv_cur (cur : rpath) : Prop := forall x, get fs cur = Some x -> not_link x.

  Lemma inv_cur_parent cur k e : get fs cur = Some (Dir k e) -> inv_cur (removelast cur).
  Proof.
    intros H x Hx. destruct (snoc_cases cur) as [->|[c' [a ->]]].
    - simpl in *. rewrite H in Hx. inversion Hx. exact I.
    - rewrite removelast_snoc in Hx. rewrite get_snoc in H. rewrite Hx in H.
      destruct x; try discriminate. exact I.
  Qed.

  Lemma go_result (P : str -> Prop) rec fo :
    (forall c cs r n, Forall (fun c => good c /\ P c) c -> Forall P cs -> inv_cur c -> rec c cs = Some (r, n) ->
                      Forall (fun c => good c /\ P c) r /\ get fs r = Some n /\ not_link n) ->
    (forall s, Forall P (snd (parse s))) ->
    forall comps cur r n, Forall (fun c => good c /\ P c) cur -> Forall P comps -> inv_cur cur ->
    go fs rec fo cur comps = Some (r, n) ->
    Forall (fun c => good c /\ P c) r /\ get fs r = Some n /\ (fo = true -> not_link n).
  Proof.
    intros Hrec Hparse. induction comps as [|c rest IH]; intros cur r n Hcur Hcomps Hinv H.
    - simpl in H. destruct (get fs cur) as [x|] eqn:E; [|discriminate]. inversion H; subst.
      split; [assumption|]. split; [assumption|]. intros _. apply Hinv. exact E.
    - inversion Hcomps as [|? ? Pc Prest]; subst.
      simpl in H. destruct (get fs cur) as [[k ents| |]|] eqn:Ecur; try discriminate.
      destruct (is_nil c || is_dot c) eqn:E1; [apply (IH cur); assumption|].
      destruct (is_dotdot c) eqn:E2.
      { apply (IH (removelast cur)); try assumption.
        - destruct (snoc_cases cur) as [->|[c' [a ->]]]; [constructor|].
          rewrite removelast_snoc. apply Forall_app in Hcur. tauto.
        - eapply inv_cur_parent; eauto. }
      assert (Hgc : good c /\ P c).
      { apply orb_false_elim in E1. destruct E1. repeat split; assumption. }
      destruct (ent_get ents c) as [[k' e'|i k' d|tgt]|] eqn:Ec; try discriminate.
      + apply (IH (cur ++ [c])); try assumption.
        * apply Forall_app; split; [assumption|constructor; [assumption|constructor]].
        * intros x Hx. rewrite get_snoc, Ecur, Ec in Hx. inversion Hx. exact I.
      + apply (IH (cur ++ [c])); try assumption.
        * apply Forall_app; split; [assumption|constructor; [assumption|constructor]].
        * intros x Hx. rewrite get_snoc, Ecur, Ec in Hx. inversion Hx. exact I.
      + destruct (is_nil rest && negb fo) eqn:Elast.
        * inversion H; subst. split.
          { apply Forall_app; split; [assumption|constructor; [assumption|constructor]]. }
          split.
          { rewrite get_snoc, Ecur. exact Ec. }
          intros ->. rewrite andb_false_r in Elast. discriminate.
        * destruct (is_empty_path (parse tgt)); [discriminate|].
          match type of H with context [rec ?a ?b] => destruct (rec a b) as [[cur' n']|] eqn:E end; [|discriminate].
          assert (Hs : Forall (fun c => good c /\ P c) (if isabs (parse tgt) then [] else cur)).
          { destruct (isabs (parse tgt)); [constructor|assumption]. }
          assert (Hi : inv_cur (if isabs (parse tgt) then [] else cur)).
          { destruct (isabs (parse tgt)); [|assumption].
            intros x Hx. simpl in Hx. inversion Hx as [Hfx].
            pose proof (get_dir_root_dir _ _ _ _ Ecur) as Hd. rewrite Hfx in Hd. destruct x; try contradiction. exact I. }
          destruct (Hrec _ _ _ _ Hs (Hparse tgt) Hi E) as [Hp' [Hg' Hn']].
          apply (IH cur'); try assumption.
          intros x Hx. rewrite Hg' in Hx. inversion Hx; subst. exact Hn'.
  Qed.
End GoLemmas.

(* ------------------------------------------------------------------ kwalk *)
Lemma kwalk_mono fs : forall kf kf' cur comps fo r,
  kwalk kf fs cur comps fo = Some r -> kf <= kf' -> kwalk kf' fs cur comps fo = Some r.
Proof.
  induction kf as [|kf IH]; intros kf' cur comps fo r H Hle; [discriminate|].
  destruct kf' as [|kf']; [lia|]. simpl in *.
  eapply go_mono; [|exact H]. intros c cs r' Hr. apply (IH kf'); [exact Hr|lia].
Qed.

Lemma kwalk_det fs kf1 kf2 cur comps fo r1 r2 :
  kwalk kf1 fs cur comps fo = Some r1 -> kwalk kf2 fs cur comps fo = Some r2 -> r1 = r2.
Proof.
  intros H1 H2.
  apply (kwalk_mono fs kf1 (Nat.max kf1 kf2)) in H1; [|lia].
  apply (kwalk_mono fs kf2 (Nat.max kf1 kf2)) in H2; [|lia].
  congruence.
Qed.

Lemma kwalk_result fs (P : str -> Prop) :
  (forall s, Forall P (snd (parse s))) ->
  forall kf cur comps fo r n,
  Forall (fun c => good c /\ P c) cur -> Forall P comps -> inv_cur fs cur ->
  kwalk kf fs cur comps fo = Some (r, n) ->
  Forall (fun c => good c /\ P c) r /\ get fs r = Some n /\ (fo = true -> not_link n).
Proof.
  intros Hparse. induction kf as [|kf IH]; intros cur comps fo r n Hc Hcs Hi H; [discriminate|].
  simpl in H. eapply go_result; try eassumption.
  intros c cs r' n' Hc' Hcs' Hi' Hr.
  destruct (IH c cs true r' n' Hc' Hcs' Hi' Hr) as [A [B C]]. auto.
Qed.

(* minimal fuel *)
Lemma kwalk_min fs cur comps fo r : forall kf,
  kwalk kf fs cur comps fo = Some r ->
  exists m, m <= kf /\ kwalk m fs cur comps fo = Some r /\ forall g, g < m -> kwalk g fs cur comps fo = None.
Proof.
  induction kf as [|kf IH]; intros H; [discriminate|].
  destruct (kwalk kf fs cur comps fo) as [r'|] eqn:E.
  - assert (r' = r) by (eapply kwalk_det; eauto). subst.
    destruct (IH eq_refl) as [m [Hm [Hs Hn]]]. exists m. repeat split; auto.
  - exists (S kf). repeat split; auto. intros g Hg.
    destruct (kwalk g fs cur comps fo) as [x|] eqn:Eg; [|reflexivity].
    apply (kwalk_mono fs g kf) in Eg; [congruence|lia].
Qed.

(* C10/CallProofs.v — soundness of the call-structure checker `flow` against the trace semantics `Exec`. *)
From Coq Require Import List Bool Arith Lia.
From IRV Require Import C10.CallModel.
Import ListNotations.

Definition le (x y : bool) : Prop := x = true -> y = true.

Lemma le_refl x : le x x. Proof. intros H; exact H. Qed.
Lemma le_andl x y z : le x z -> le (x && y) z.
Proof. intros H E. apply andb_prop in E. destruct E as [E1 E2]. apply H. exact E1. Qed.
Lemma le_andr x y z : le y z -> le (x && y) z.
Proof. intros H E. apply andb_prop in E. destruct E as [E1 E2]. apply H. exact E2. Qed.

Lemma auto_app a t1 t2 :
  auto a (t1 ++ t2) = match auto a t1 with Some x => auto x t2 | None => None end.
Proof.
  revert a. induction t1 as [|e t1 IH]; intros a; simpl; [reflexivity|].
  destruct e; try apply IH. destruct a; [apply IH|reflexivity].
Qed.

Lemma wmin_l ra rb x z : wmin ra rb = Some x -> forall y, ra = Some y -> le y z -> le x z.
Proof.
  intros H y -> Hy. destruct rb as [b|]; simpl in H; inversion H; subst; [apply le_andl|]; assumption.
Qed.
Lemma wmin_r ra rb y z : rb = Some y -> le y z -> exists x, wmin ra rb = Some x /\ le x z.
Proof.
  intros -> Hy. destruct ra as [a|]; simpl; eexists; split; try reflexivity; [apply le_andr|]; assumption.
Qed.
Lemma wmin_l' ra rb y z : ra = Some y -> le y z -> exists x, wmin ra rb = Some x /\ le x z.
Proof.
  intros -> Hy. destruct rb as [b|]; simpl; eexists; split; try reflexivity; [apply le_andl|]; assumption.
Qed.

Definition post (n r : option bool) (o : outc) (a' : bool) : Prop :=
  match o with
  | ONormal => exists sn, n = Some sn /\ le sn a'
  | OReturn => exists sr, r = Some sr /\ le sr a'
  | ORaise => True
  end.

Lemma flow_loop_fix body w s2 r2 :
  flow body w = Some (Some s2, r2) -> w && s2 = w ->
  flow (SLoop body) w = Some (Some w, wmin r2 r2).
Proof.
  intros H E. simpl. rewrite H. rewrite E. rewrite H. rewrite E. rewrite Bool.eqb_reflx. reflexivity.
Qed.

Theorem flow_sound : forall s t o, Exec s t o ->
  forall st a n r, flow s st = Some (n, r) -> le st a ->
  exists a', auto a t = Some a' /\ post n r o a'.
Proof.
  induction 1; intros st a0 n r Hf Hle; simpl in Hf.
  - inversion Hf; subst. exists a0. split; [reflexivity|]. simpl. eauto.
  - exists a0. split; [reflexivity|exact I].
  - inversion Hf; subst. exists true. split; [reflexivity|]. simpl. exists true. split; [reflexivity|apply le_refl].
  - exists a0. split; [reflexivity|exact I].
  - destruct st; [|discriminate]. inversion Hf; subst. rewrite (Hle eq_refl). exists true. split; [reflexivity|].
    simpl. exists true. split; [reflexivity|apply le_refl].
  - destruct st; [|discriminate]. rewrite (Hle eq_refl). exists true. split; [reflexivity|exact I].
  - inversion Hf; subst. exists false. split; [reflexivity|]. simpl. exists false. split; [reflexivity|]. intros; discriminate.
  - inversion Hf; subst. exists a0. split; [reflexivity|]. simpl. eauto.
  - exists a0. split; [reflexivity|exact I].
  - (* seq, first part normal *)
    destruct (flow a st) as [[na ra]|] eqn:Fa; [|discriminate].
    destruct (IHExec1 _ _ _ _ Fa Hle) as [a1 [A1 P1]]. simpl in P1. destruct P1 as [s1 [-> L1]].
    destruct (flow b s1) as [[nb rb]|] eqn:Fb; [|discriminate]. inversion Hf; subst.
    destruct (IHExec2 _ _ _ _ Fb L1) as [a2 [A2 P2]].
    exists a2. split; [rewrite auto_app, A1; exact A2|].
    destruct o; simpl in *; auto.
    destruct P2 as [sr [E L]]. eapply wmin_r; eauto.
  - (* seq, first part returns *)
    destruct (flow a st) as [[na ra]|] eqn:Fa; [|discriminate].
    destruct (IHExec _ _ _ _ Fa Hle) as [a1 [A1 P1]]. simpl in P1. destruct P1 as [sr [-> L1]].
    exists a1. split; [exact A1|]. simpl.
    destruct na as [s1|].
    + destruct (flow b s1) as [[nb rb]|]; [|discriminate]. inversion Hf; subst. exact (wmin_l' (Some sr) rb sr a1 eq_refl L1).
    + inversion Hf; subst. eauto.
  - destruct (flow a st) as [[na ra]|] eqn:Fa; [|discriminate].
    destruct (IHExec _ _ _ _ Fa Hle) as [a1 [A1 _]]. exists a1. split; [exact A1|exact I].
  - (* if left *)
    destruct (flow a st) as [[na ra]|] eqn:Fa; [|discriminate].
    destruct (flow b st) as [[nb rb]|] eqn:Fb; [|discriminate]. inversion Hf; subst.
    destruct (IHExec _ _ _ _ Fa Hle) as [a1 [A1 P1]]. exists a1. split; [exact A1|].
    destruct o; simpl in *; auto; destruct P1 as [x [E L]]; eapply wmin_l'; eauto.
  - destruct (flow a st) as [[na ra]|] eqn:Fa; [|discriminate].
    destruct (flow b st) as [[nb rb]|] eqn:Fb; [|discriminate]. inversion Hf; subst.
    destruct (IHExec _ _ _ _ Fb Hle) as [a1 [A1 P1]]. exists a1. split; [exact A1|].
    destruct o; simpl in *; auto; destruct P1 as [x [E L]]; eapply wmin_r; eauto.
  - (* loop, zero iterations *)
    exists a0. split; [reflexivity|]. simpl.
    destruct (flow body st) as [[[s1|] r1]|]; [| |discriminate].
    + destruct (flow body (st && s1)) as [[[s2|] r2]|]; [| |discriminate].
      * destruct (Bool.eqb (st && s1 && s2) (st && s1)); [|discriminate]. inversion Hf; subst.
        eexists; split; [reflexivity|]. apply le_andl. exact Hle.
      * inversion Hf; subst. eexists; split; [reflexivity|]. apply le_andl. exact Hle.
    + inversion Hf; subst. eauto.
  - (* loop, one more iteration *)
    destruct (flow body st) as [[[s1|] r1]|] eqn:F1; [| |discriminate].
    + set (w := st && s1) in *.
      destruct (flow body w) as [[n2 r2]|] eqn:F2; [|discriminate].
      assert (Hw : le w a0) by (apply le_andl; exact Hle).
      destruct (IHExec1 _ _ _ _ F2 Hw) as [a1 [A1 P1]]. simpl in P1. destruct P1 as [s2 [-> L2]].
      destruct (Bool.eqb (w && s2) w) eqn:Eq; [|discriminate]. apply Bool.eqb_prop in Eq. inversion Hf; subst.
      assert (Hw1 : le w a1).
      { intros Ew. apply L2. rewrite Ew in Eq. simpl in Eq. exact Eq. }
      destruct (IHExec2 _ _ _ _ (flow_loop_fix _ _ _ _ F2 Eq) Hw1) as [a2 [A2 P2]].
      exists a2. split; [rewrite auto_app, A1; exact A2|].
      destruct o; simpl in *; auto.
      destruct P2 as [x [E L]].
      destruct r2 as [y|]; [|discriminate]. simpl in E. inversion E; subst.
      assert (Ly : le y a2). { intros Ey. apply L. rewrite Ey. reflexivity. }
      eapply wmin_r; eauto.
    + destruct (IHExec1 _ _ _ _ F1 Hle) as [a1 [_ P1]]. simpl in P1. destruct P1 as [x [E _]]. discriminate.
  - (* loop, body returns *)
    destruct (flow body st) as [[[s1|] r1]|] eqn:F1; [| |discriminate].
    + set (w := st && s1) in *.
      destruct (flow body w) as [[n2 r2]|] eqn:F2; [|discriminate].
      assert (Hw : le w a0) by (apply le_andl; exact Hle).
      destruct (IHExec _ _ _ _ F2 Hw) as [a1 [A1 P1]]. simpl in P1. destruct P1 as [sr [-> L]].
      exists a1. split; [exact A1|]. simpl.
      destruct n2 as [s2|].
      * destruct (Bool.eqb (w && s2) w); [|discriminate]. inversion Hf; subst. eapply wmin_r; eauto.
      * inversion Hf; subst. eapply wmin_r; eauto.
    + inversion Hf; subst. destruct (IHExec _ _ _ _ F1 Hle) as [a1 [A1 P1]]. exists a1. split; [exact A1|exact P1].
  - (* loop, body raises *)
    destruct (flow body st) as [[[s1|] r1]|] eqn:F1; [| |discriminate].
    + destruct (flow body (st && s1)) as [[n2 r2]|] eqn:F2; [|discriminate].
      assert (Hw : le (st && s1) a0) by (apply le_andl; exact Hle).
      destruct (IHExec _ _ _ _ F2 Hw) as [a1 [A1 _]]. exists a1. split; [exact A1|exact I].
    + destruct (IHExec _ _ _ _ F1 Hle) as [a1 [A1 _]]. exists a1. split; [exact A1|exact I].
  - (* call, normal *)
    destruct (flow body st) as [[nb rb]|] eqn:Fb; [|discriminate]. inversion Hf; subst.
    destruct (IHExec _ _ _ _ Fb Hle) as [a1 [A1 P1]]. exists a1. split; [exact A1|].
    simpl in *. destruct P1 as [x [E L]]. eapply wmin_l'; eauto.
  - destruct (flow body st) as [[nb rb]|] eqn:Fb; [|discriminate]. inversion Hf; subst.
    destruct (IHExec _ _ _ _ Fb Hle) as [a1 [A1 P1]]. exists a1. split; [exact A1|].
    simpl in *. destruct P1 as [x [E L]]. eapply wmin_r; eauto.
  - destruct (flow body st) as [[nb rb]|] eqn:Fb; [|discriminate].
    destruct (IHExec _ _ _ _ Fb Hle) as [a1 [A1 _]]. exists a1. split; [exact A1|exact I].
Qed.

(* what `auto` accepting a trace means: every open is preceded, in the same call, by a passing check with no
   mutation of base_dir / location in between *)
Lemma auto_open_checked : forall t st st', auto st t = Some st' ->
  forall pre post, t = pre ++ EOpen :: post ->
  (exists p1 p2, pre = p1 ++ ECheckOk :: p2 /\ ~ In EMut p2) \/ (st = true /\ ~ In EMut pre).
Proof.
  induction t as [|e t IH]; intros st st' H pre post E.
  - destruct pre; discriminate.
  - destruct pre as [|e' pre].
    + simpl in E. inversion E; subst. simpl in H. destruct st; [|discriminate]. right. split; [reflexivity|intros []].
    + simpl in E. inversion E; subst e'. subst t.
      assert (Hrec : forall s, auto s (pre ++ EOpen :: post) = Some st' ->
                (exists p1 p2, pre = p1 ++ ECheckOk :: p2 /\ ~ In EMut p2) \/ (s = true /\ ~ In EMut pre)).
      { intros s Hs. eapply IH; eauto. }
      destruct e; simpl in H.
      * destruct (Hrec _ H) as [[p1 [p2 [-> Hn]]]|[_ Hn]].
        -- left. exists (ECheckOk :: p1), p2. split; [reflexivity|exact Hn].
        -- left. exists [], pre. split; [reflexivity|exact Hn].
      * destruct (Hrec _ H) as [[p1 [p2 [-> Hn]]]|[-> Hn]].
        -- left. exists (ECheckRaise :: p1), p2. split; [reflexivity|exact Hn].
        -- right. split; [reflexivity|]. intros [D|D]; [discriminate|auto].
      * destruct st; [|discriminate].
        destruct (Hrec _ H) as [[p1 [p2 [-> Hn]]]|[_ Hn]].
        -- left. exists (EOpen :: p1), p2. split; [reflexivity|exact Hn].
        -- right. split; [reflexivity|]. intros [D|D]; [discriminate|auto].
      * destruct (Hrec _ H) as [[p1 [p2 [-> Hn]]]|[D _]]; [|discriminate].
        left. exists (EMut :: p1), p2. split; [reflexivity|exact Hn].
Qed.

(* the entry-point theorem: a method body accepted by the checker from the state "nothing checked yet" never
   opens the data file without a passing containment check before it in the same call, on ANY run *)
Theorem entry_ok_sound s : entry_ok s = true ->
  forall t o, Exec s t o ->
  forall pre post, t = pre ++ EOpen :: post ->
  exists p1 p2, pre = p1 ++ ECheckOk :: p2 /\ ~ In EMut p2.
Proof.
  unfold entry_ok. intros H t o Hx pre post E.
  destruct (flow s false) as [[n r]|] eqn:F; [|discriminate].
  destruct (flow_sound _ _ _ Hx _ false _ _ F (le_refl false)) as [a' [A _]].
  destruct (auto_open_checked _ _ _ A _ _ E) as [X|[D _]]; [exact X|discriminate].
Qed.

Corollary all_entry_ok_sound l : forallb entry_ok l = true ->
  forall s, In s l -> forall t o, Exec s t o ->
  forall pre post, t = pre ++ EOpen :: post ->
  exists p1 p2, pre = p1 ++ ECheckOk :: p2 /\ ~ In EMut p2.
Proof.
  intros H s Hin. eapply entry_ok_sound. rewrite forallb_forall in H. apply H. exact Hin.
Qed.

(* C10/CheckEquiv.v — the hand model of _check_path_containment / load()'s base directory (C10/Model.v, about which
   the containment theorems are proved) EQUALS the statement-by-statement translation of the source
   (Gen/C10Gen.v, regenerated on every run). *)
From Coq Require Import NArith List Bool Arith Lia.
From IRV Require Import Base.Exn C10.Model C10.Proofs1 C10.Proofs2 C10.Proofs3 C10.StrPrefix C10.Canon C10.CheckDsl Gen.C10Gen.
Import ListNotations.

Lemma is_nil_render u : is_nil (render u) = is_empty_path u.
Proof.
  destruct u as [l cs]. unfold render, is_empty_path. simpl. destruct l as [|l]; simpl; [|reflexivity].
  destruct cs as [|a [|b r]]; simpl; try reflexivity; destruct a; reflexivity.
Qed.

Theorem gen_load_base_eq p : gen_load_base p = load_base p.
Proof.
  unfold gen_load_base, load_base, o_dirname. rewrite is_nil_render.
  destruct (is_empty_path (py_dirname (parse p))); reflexivity.
Qed.

Theorem gen_path_eq base loc : parse (gen_path base loc) = py_join (parse base) (parse loc).
Proof. unfold gen_path. apply parse_o_join. Qed.

Theorem gen_check_eq kf fs cwd pf base loc :
  Forall noslash cwd -> gen_check kf fs cwd pf base loc = check kf fs cwd pf base loc.
Proof.
  intros Hc. unfold gen_check, check.
  destruct (is_nil base); [reflexivity|].
  cbv zeta. unfold o_normcase, o_fspath, o_normpath, o_realpath.
  rewrite !(parse_o_abspath cwd) by exact Hc. rewrite !gen_path_eq.
  change (o_endswith ?x o_sep) with (ends_with_slash x). unfold o_sep, o_startswith.
  set (B := render (py_normpath (py_abspath cwd (parse base)))).
  set (P := render (py_normpath (py_abspath cwd (py_join (parse base) (parse loc))))).
  unfold within at 1. rewrite negb_orb.
  destruct (negb (str_eqb P B) && negb (starts_with P (if ends_with_slash B then B else B ++ [slash]))); [reflexivity|].
  destruct (py_realpath kf fs cwd pf (parse base)) as [br|] eqn:Eb; simpl; [|reflexivity].
  destruct (py_realpath kf fs cwd pf (py_join (parse base) (parse loc))) as [pr|] eqn:Ep; simpl; [|reflexivity].
  unfold within. rewrite negb_orb.
  destruct (negb (str_eqb (render pr) (render br)) &&
            negb (starts_with (render pr) (if ends_with_slash (render br) then render br else render br ++ [slash]))); [reflexivity|].
  unfold o_stat_nlink.
  rewrite (parse_render_canon pr).
  - destruct (kstr kf fs cwd pr true) as [[rp n]|]; reflexivity.
  - eapply canon_realpath; [exact Hc| |exact Ep]. apply noslash_join; apply parse_noslash.
Qed.

(* the containment theorem, stated for the TRANSLATED check *)
From IRV Require Import C10.Proofs4.
Theorem contained_gen kf fs cwd pf base loc rb nb rp ino data a e :
  get fs cwd = Some (Dir a e) -> Forall entry_name cwd ->
  base <> [] ->
  gen_check kf fs cwd pf base loc = Some (Ok tt) ->
  kstr kf fs cwd (parse base) true = Some (rb, nb) ->
  kstr kf fs cwd (parse (gen_path base loc)) true = Some (rp, File ino 1 data) \/
  kopen kf fs cwd base loc = Ok (rp, ino, data) ->
  (exists suf, rp = rb ++ suf) /\ exists nl, get fs rp = Some (File ino nl data) /\ (nl <= 1)%N.
Proof.
  intros Hcwd Hcg Hb Hc Hkb Ho.
  assert (Hn : Forall noslash cwd) by (eapply Forall_impl; [|exact Hcg]; intros c [_ H]; exact H).
  rewrite (gen_check_eq _ _ _ _ _ _ Hn) in Hc.
  destruct Ho as [Ho|Ho].
  - rewrite gen_path_eq in Ho.
    eapply contained_open; eauto. unfold kopen. rewrite Ho. reflexivity.
  - eapply contained_open; eauto.
Qed.

(* C10/Proofs2.v — the shapes of the `path` variable of _joinrealpath and what posixpath.join / split /
   abspath and the kernel do on them. *)
From Coq Require Import NArith List Bool Arith Lia.
From IRV Require Import Base.Exn C10.Model C10.Proofs1.
Import ListNotations.

(* `path` is always "/" + names, or "../"*k + names (relative to the cwd), names being entry names *)
Inductive pform := PAbs (names : list str) | PRel (k : nat) (names : list str).

Definition nonempty (l : list str) : list str := match l with [] => [[]] | _ => l end.
Definition walkc (f : pform) : list str :=
  match f with PAbs ns => ns | PRel k ns => repeat s_dotdot k ++ ns end.
Definition plead (f : pform) : nat := match f with PAbs _ => 1 | PRel _ _ => 0 end.
Definition to_up (f : pform) : upath := (plead f, nonempty (walkc f)).
Definition pnames (f : pform) : list str := match f with PAbs ns => ns | PRel _ ns => ns end.
Definition push (f : pform) (n : str) : pform :=
  match f with PAbs ns => PAbs (ns ++ [n]) | PRel k ns => PRel k (ns ++ [n]) end.
Definition pop (f : pform) : pform :=
  match f with
  | PAbs ns => PAbs (removelast ns)
  | PRel k [] => PRel (S k) []
  | PRel k ns => PRel k (removelast ns)
  end.
Definition den (cwd : rpath) (f : pform) : rpath :=
  match f with PAbs ns => ns | PRel k ns => Nat.iter k (@removelast str) cwd ++ ns end.
Definition names_ok (f : pform) : Prop := Forall good (pnames f).

Definition solid (c : str) : Prop := is_nil c = false.
Lemma good_solid c : good c -> solid c.
Proof. intros [H _]. exact H. Qed.
Lemma dotdot_solid : solid s_dotdot.
Proof. reflexivity. Qed.

Lemma walkc_solid f : names_ok f -> Forall solid (walkc f).
Proof.
  destruct f as [ns|k ns]; unfold names_ok; simpl; intros H.
  - eapply Forall_impl; [|exact H]. apply good_solid.
  - apply Forall_app. split.
    + clear. induction k; simpl; constructor; [apply dotdot_solid|assumption].
    + eapply Forall_impl; [|exact H]. apply good_solid.
Qed.

Lemma nonempty_id l : l <> [] -> nonempty l = l.
Proof. destruct l; [congruence|reflexivity]. Qed.

Lemma last_solid l d : l <> [] -> Forall solid l -> is_nil (last l d) = false.
Proof.
  intros Hl Hs. destruct (snoc_cases l) as [->|[l' [a ->]]]; [congruence|].
  rewrite last_last. apply Forall_app in Hs. destruct Hs as [_ Hs]. inversion Hs; assumption.
Qed.

Lemma names_ok_push f n : names_ok f -> good n -> names_ok (push f n).
Proof.
  destruct f; unfold names_ok; simpl; intros H Hn; apply Forall_app; split; auto.
Qed.

Lemma Forall_removelast {A} (P : A -> Prop) l : Forall P l -> Forall P (removelast l).
Proof.
  intros H. destruct (snoc_cases l) as [->|[l' [a ->]]]; [constructor|].
  rewrite removelast_snoc. apply Forall_app in H. tauto.
Qed.

Lemma names_ok_pop f : names_ok f -> names_ok (pop f).
Proof.
  destruct f as [ns|k ns]; unfold names_ok; simpl; intros H.
  - apply Forall_removelast; assumption.
  - destruct ns; simpl; [constructor|]. apply (Forall_removelast good (s :: ns)); assumption.
Qed.

Lemma den_push cwd f n : den cwd (push f n) = den cwd f ++ [n].
Proof. destruct f; simpl; [reflexivity|]. rewrite app_assoc. reflexivity. Qed.

Lemma den_pop cwd f : den cwd (pop f) = removelast (den cwd f).
Proof.
  destruct f as [ns|k ns]; simpl; [reflexivity|].
  destruct ns as [|a ns].
  - simpl. rewrite !app_nil_r. reflexivity.
  - simpl den. rewrite removelast_app by discriminate. reflexivity.
Qed.

Lemma walkc_push f n : walkc (push f n) = walkc f ++ [n].
Proof. destruct f; simpl; [reflexivity|]. rewrite app_assoc. reflexivity. Qed.

Lemma plead_push f n : plead (push f n) = plead f.
Proof. destruct f; reflexivity. Qed.

(* ------------------------------------------------------------------ os.path.join(path, name) *)
Lemma join_push f n : names_ok f -> good n -> py_join (to_up f) (up1 n) = to_up (push f n).
Proof.
  intros Hf Hn. unfold py_join, to_up. rewrite walkc_push, plead_push.
  change (isabs (up1 n)) with false. cbv iota.
  rewrite (nonempty_id (walkc f ++ [n])) by (destruct (walkc f); discriminate).
  pose proof (walkc_solid f Hf) as Hs.
  destruct (walkc f) as [|a l] eqn:Ew.
  - (* "/" or "" *)
    destruct f as [ns|k ns]; simpl in *.
    + reflexivity.
    + reflexivity.
  - assert (He : is_empty_path (plead f, nonempty (a :: l)) = false).
    { unfold is_empty_path. simpl. destruct (plead f); simpl; [|reflexivity].
      inversion Hs as [|? ? Ha _]; subst. destruct a; [discriminate|]. destruct l; reflexivity. }
    rewrite He. unfold ends_with_sep. simpl snd. cbv iota.
    rewrite (last_solid (a :: l) s_dot) by (auto; discriminate). reflexivity.
Qed.

(* ------------------------------------------------------------------ the pardir branch *)
Lemma drop_empty_solid a l : solid a -> drop_empty (a :: l) = a :: l.
Proof. unfold solid. destruct a; [discriminate|reflexivity]. Qed.

Lemma strip_trailing_solid l : Forall solid l -> strip_trailing_empty l = l.
Proof.
  intros H. unfold strip_trailing_empty.
  destruct (snoc_cases l) as [->|[l' [a ->]]]; [reflexivity|].
  rewrite rev_app_distr. change (rev [a] ++ rev l') with (a :: rev l').
  apply Forall_app in H. destruct H as [_ H]. inversion H; subst.
  rewrite drop_empty_solid by assumption. simpl. rewrite rev_involutive. reflexivity.
Qed.

Lemma split_snoc lead l a :
  Forall solid l -> py_split (lead, l ++ [a]) = ((lead, nonempty l), a).
Proof.
  intros H. unfold py_split. simpl snd. rewrite last_last, removelast_snoc.
  rewrite strip_trailing_solid by assumption. destruct l; reflexivity.
Qed.

Lemma repeat_snoc {A} (x : A) k : repeat x k ++ [x] = repeat x (S k).
Proof. induction k; simpl; [reflexivity|]. rewrite IHk. reflexivity. Qed.

Lemma good_not_dotdot a : good a -> is_dotdot a = false.
Proof. intros [_ [_ H]]. exact H. Qed.

Lemma repeat_dd_solid k : Forall solid (repeat s_dotdot k).
Proof. induction k; simpl; constructor; [reflexivity|assumption]. Qed.

Lemma join_dd j : py_join (0, nonempty (repeat s_dotdot j)) (up1 s_dotdot) = (0, repeat s_dotdot (S j)).
Proof.
  destruct j as [|i]; [reflexivity|].
  rewrite nonempty_id by discriminate.
  unfold py_join. change (isabs (up1 s_dotdot)) with false. cbv iota.
  assert (He : is_empty_path (0, repeat s_dotdot (S i)) = false) by (destruct i; reflexivity).
  rewrite He. unfold ends_with_sep. simpl snd.
  pose proof (last_solid (repeat s_dotdot (S i)) s_dot) as Hl.
  assert (Hne : repeat s_dotdot (S i) <> []) by discriminate.
  specialize (Hl Hne (repeat_dd_solid (S i))).
  cbv beta iota. change (s_dotdot :: repeat s_dotdot i) with (repeat s_dotdot (S i)).
  rewrite Hl. simpl fst. change (snd (up1 s_dotdot)) with [s_dotdot].
  rewrite repeat_snoc. reflexivity.
Qed.

Lemma dotdot_rel_only k : py_dotdot (0, nonempty (repeat s_dotdot k)) = (0, repeat s_dotdot (S k)).
Proof.
  destruct k as [|j]; [reflexivity|].
  rewrite nonempty_id by discriminate.
  unfold py_dotdot.
  assert (He : is_empty_path (0, repeat s_dotdot (S j)) = false) by (destruct j; reflexivity).
  rewrite He. rewrite <- repeat_snoc. rewrite split_snoc by apply repeat_dd_solid.
  rewrite is_dotdot_sdd. rewrite join_dd.
  change (0, repeat s_dotdot (S j)) with (0, nonempty (repeat s_dotdot (S j))).
  rewrite join_dd. rewrite ?repeat_snoc. reflexivity.
Qed.

Lemma walkc_rel_nil k : walkc (PRel k []) = repeat s_dotdot k.
Proof. simpl. apply app_nil_r. Qed.

Lemma dotdot_pop f : names_ok f -> py_dotdot (to_up f) = to_up (pop f).
Proof.
  intros Hf. pose proof (walkc_solid f Hf) as Hs.
  destruct f as [ns|k ns].
  - (* absolute *)
    destruct (snoc_cases ns) as [->|[l [a ->]]].
    + reflexivity.
    + unfold py_dotdot, to_up. simpl plead. simpl walkc.
      rewrite nonempty_id by (destruct l; discriminate).
      change (is_empty_path (1, l ++ [a])) with false. cbv iota.
      simpl in Hs. apply Forall_app in Hs. destruct Hs as [Hl _].
      rewrite split_snoc by assumption.
      unfold names_ok in Hf. simpl in Hf. apply Forall_app in Hf. destruct Hf as [_ Ha]. inversion Ha; subst.
      rewrite good_not_dotdot by assumption.
      simpl pop. rewrite removelast_snoc. reflexivity.
  - destruct (snoc_cases ns) as [->|[l [a ->]]].
    + (* only ".." components *)
      change (pop (PRel k [])) with (PRel (S k) []).
      unfold to_up. rewrite !walkc_rel_nil. simpl plead.
      rewrite dotdot_rel_only.
      rewrite nonempty_id by discriminate. reflexivity.
    + unfold py_dotdot, to_up. simpl plead. simpl walkc. rewrite app_assoc.
      rewrite nonempty_id by (destruct (repeat s_dotdot k ++ l); discriminate).
      simpl in Hs. rewrite app_assoc in Hs. apply Forall_app in Hs. destruct Hs as [Hl Ha'].
      assert (He : is_empty_path (0, (repeat s_dotdot k ++ l) ++ [a]) = false).
      { unfold is_empty_path. simpl. destruct (repeat s_dotdot k ++ l) as [|x [|y r]]; simpl.
        - inversion Ha'; subst. destruct a; [discriminate|reflexivity].
        - destruct x; reflexivity.
        - destruct x; reflexivity. }
      rewrite He. rewrite split_snoc by assumption.
      unfold names_ok in Hf. simpl in Hf. apply Forall_app in Hf. destruct Hf as [_ Ha]. inversion Ha; subst.
      rewrite good_not_dotdot by assumption.
      simpl pop. destruct (l ++ [a]) as [|b l2] eqn:El; [destruct l; discriminate|].
      rewrite <- El. rewrite removelast_snoc. reflexivity.
Qed.

(* ------------------------------------------------------------------ abspath *)
Lemma norm_step_good abs acc c : good c -> norm_step abs acc c = c :: acc.
Proof. intros [H1 [H2 H3]]. unfold norm_step. rewrite H1, H2, H3. reflexivity. Qed.

Lemma fold_norm_good abs : forall l acc, Forall good l -> fold_left (norm_step abs) l acc = rev l ++ acc.
Proof.
  induction l as [|a l IH]; intros acc H; [reflexivity|].
  inversion H; subst. simpl. rewrite norm_step_good by assumption. rewrite IH by assumption.
  rewrite <- app_assoc. reflexivity.
Qed.

Lemma fold_norm_good_nil abs l : Forall good l -> fold_left (norm_step abs) l [] = rev l.
Proof. intros H. rewrite fold_norm_good by assumption. apply app_nil_r. Qed.

Lemma tl_rev {A} (l : list A) : tl (rev l) = rev (removelast l).
Proof.
  destruct (snoc_cases l) as [->|[l' [a ->]]]; [reflexivity|].
  rewrite removelast_snoc, rev_app_distr. reflexivity.
Qed.

Lemma fold_norm_dotdots : forall k l, Forall good l ->
  fold_left (norm_step true) (repeat s_dotdot k) (rev l) = rev (Nat.iter k (@removelast str) l).
Proof.
  induction k as [|k IH]; intros l Hl; [reflexivity|].
  simpl repeat. simpl fold_left.
  assert (E : norm_step true (rev l) s_dotdot = rev (removelast l)).
  { unfold norm_step. change (is_nil s_dotdot || is_dot s_dotdot) with false. rewrite is_dotdot_sdd. cbv iota.
    destruct (snoc_cases l) as [->|[l' [a ->]]]; [reflexivity|].
    rewrite removelast_snoc, rev_app_distr. simpl.
    apply Forall_app in Hl. destruct Hl as [_ Ha]. inversion Ha; subst.
    rewrite good_not_dotdot by assumption. reflexivity. }
  rewrite E. rewrite IH by (apply Forall_removelast; assumption).
  f_equal. clear. induction k; simpl; [reflexivity|]. rewrite IHk. reflexivity.
Qed.

Lemma fold_norm_nonempty abs l acc :
  fold_left (norm_step abs) (nonempty l) acc = fold_left (norm_step abs) l acc.
Proof. destruct l; reflexivity. Qed.

Definition abs_of (rp : rpath) : upath := (1, nonempty rp).

Lemma Forall_iter_removelast {A} (P : A -> Prop) k l : Forall P l -> Forall P (Nat.iter k (@removelast A) l).
Proof. induction k; simpl; intros H; [assumption|]. apply Forall_removelast. auto. Qed.

Lemma abspath_form cwd f :
  Forall good cwd -> names_ok f -> py_abspath cwd (to_up f) = abs_of (den cwd f).
Proof.
  intros Hc Hf. unfold py_abspath, abs_of.
  destruct f as [ns|k ns].
  - (* absolute already *)
    change (isabs (to_up (PAbs ns))) with true. cbv iota.
    unfold py_normpath, to_up. simpl plead. simpl walkc.
    change (is_empty_path (1, nonempty ns)) with false. cbv iota. simpl fst. simpl snd.
    change (norm_lead 1) with 1. change (negb (1 =? 0)) with true.
    rewrite fold_norm_nonempty, fold_norm_good by assumption. rewrite app_nil_r, rev_involutive.
    simpl. destruct ns; reflexivity.
  - change (isabs (to_up (PRel k ns))) with false. cbv iota.
    assert (Hj : exists X, py_join (cwd_up cwd) (to_up (PRel k ns)) = (1, X) /\
                 fold_left (norm_step true) X [] = fold_left (norm_step true) (cwd ++ repeat s_dotdot k ++ ns) []).
    { unfold py_join, to_up. simpl plead. change (isabs (0, nonempty (walkc (PRel k ns)))) with false. cbv iota.
      destruct cwd as [|c0 cw].
      - simpl. eexists; split; [reflexivity|]. apply fold_norm_nonempty.
      - assert (He : is_empty_path (cwd_up (c0 :: cw)) = false) by reflexivity.
        rewrite He. unfold ends_with_sep. simpl snd.
        assert (Hs : Forall solid (c0 :: cw)) by (eapply Forall_impl; [|exact Hc]; apply good_solid).
        cbv beta iota. rewrite (last_solid (c0 :: cw) s_dot) by (auto; discriminate).
        cbv iota. simpl fst. eexists; split; [reflexivity|].
        rewrite fold_left_app. rewrite (fold_left_app _ (c0 :: cw) (repeat s_dotdot k ++ ns)).
        apply fold_norm_nonempty. }
    destruct Hj as [X [-> HX]].
    unfold py_normpath. change (is_empty_path (1, X)) with false. cbv iota. simpl fst. simpl snd.
    change (norm_lead 1) with 1. change (negb (1 =? 0)) with true. rewrite HX.
    rewrite !fold_left_app. rewrite fold_norm_good_nil by assumption.
    rewrite fold_norm_dotdots by assumption.
    rewrite fold_norm_good by assumption.
    rewrite <- rev_app_distr, rev_involutive. simpl den.
    destruct (Nat.iter k (@removelast str) cwd ++ ns); reflexivity.
Qed.

(* ------------------------------------------------------------------ the kernel on these shapes *)
Definition kstart (cwd : rpath) (f : pform) : rpath := match f with PAbs _ => [] | PRel _ _ => cwd end.

Lemma go_form fs rec fo cwd f rest k e a' e' :
  names_ok f -> get fs cwd = Some (Dir a' e') -> get fs (den cwd f) = Some (Dir k e) ->
  go fs rec fo (kstart cwd f) (walkc f ++ rest) = go fs rec fo (den cwd f) rest.
Proof.
  intros Hf Hcwd Hd. destruct f as [ns|j ns]; simpl in *.
  - apply (go_real fs rec fo ns [] rest (Dir k e)); auto. exact I.
  - rewrite <- app_assoc. rewrite (go_dotdots fs rec fo j cwd _ a' e' Hcwd).
    apply (go_real fs rec fo ns _ rest (Dir k e)); auto. exact I.
Qed.

(* os.lstat(join(path, name)) when path denotes the directory cur *)
Lemma lstat_push kf fs cwd f n k ents a' e' :
  names_ok f -> good n -> get fs cwd = Some (Dir a' e') -> get fs (den cwd f) = Some (Dir k ents) ->
  kstr (S kf) fs cwd (to_up (push f n)) false =
  match ent_get ents n with Some x => Some (den cwd f ++ [n], x) | None => None end.
Proof.
  intros Hf Hn Hcwd Hd. unfold kstr, to_up. rewrite walkc_push, plead_push.
  rewrite (nonempty_id (walkc f ++ [n])) by (destruct (walkc f); discriminate).
  assert (He : is_empty_path (plead f, walkc f ++ [n]) = false).
  { unfold is_empty_path. simpl. destruct (plead f); [|reflexivity]. simpl.
    pose proof (walkc_solid f Hf) as Hs. destruct (walkc f) as [|x [|y r]]; simpl.
    - destruct Hn as [Hn _]. destruct n; [discriminate|reflexivity].
    - destruct x; reflexivity.
    - destruct x; reflexivity. }
  rewrite He. simpl fst. simpl snd.
  simpl kwalk.
  match goal with |- context [go _ _ _ ?st _] =>
    assert (Est : st = kstart cwd f) by (destruct f; reflexivity); rewrite Est; clear Est end.
  rewrite (go_form fs _ false cwd f [n] k ents a' e') by assumption.
  simpl. rewrite Hd. destruct Hn as [H1 [H2 H3]]. rewrite H1, H2, H3. simpl.
  destruct (ent_get ents n) as [[k' e''|i k' d|tgt]|] eqn:E; try reflexivity.
  - rewrite get_snoc, Hd, E. reflexivity.
  - rewrite get_snoc, Hd, E. reflexivity.
Qed.

(* os.stat of the rendering of a real location *)
Lemma stat_abs kf fs cwd rp n :
  is_dir fs -> Forall good rp -> get fs rp = Some n -> not_link n ->
  kstr (S kf) fs cwd (abs_of rp) true = Some (rp, n).
Proof.
  intros Hr Hg Hget Hn. unfold kstr, abs_of.
  change (is_empty_path (1, nonempty rp)) with false. cbv iota. simpl fst. simpl snd.
  change (isabs (1, nonempty rp)) with true. cbv iota. simpl kwalk.
  destruct rp as [|a rp].
  - simpl. destruct fs; try contradiction. simpl in Hget. inversion Hget; subst. reflexivity.
  - change (nonempty (a :: rp)) with (a :: rp).
    rewrite <- (app_nil_r (a :: rp)) at 1.
    rewrite (go_real fs _ true (a :: rp) [] [] n Hg Hget Hn). simpl app. rewrite go_nil, Hget. reflexivity.
Qed.

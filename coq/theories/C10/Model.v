(* C10/Model.v — executable model of external-tensor path containment.

   Levels (be explicit):
     strings     str = list N (code points).  Only `parse`/`render`, the `within` test of the check
                 (startswith(base + sep), done on rendered strings exactly as the code does) and
                 `unsplit` live at this level.
     upaths      a path string in split form: (number of leading slashes, rest.split("/")).
                 os.path.join / split / dirname / normpath / abspath / realpath are transcribed from
                 CPython 3.12 posixpath at this level (the py_ functions).  The tie compares render (py_f (parse s))
                 with os.path.f(s) on generated strings, so the split form is validated at string level.
     real paths  rpath = list of names from the root, the kernel's notion of a location.
   Kernel (POSIX) resolution `kwalk` is a SEPARATE definition from Python's realpath walk `jrp`
   (which calls the kernel only through lstat/readlink, as os.path.realpath does), so that the
   agreement lemma realpath_agrees_resolve (Proofs2.v) has content.

   Code modelled: _core.ExternalTensor.path/_check_path_containment/_load/numpy/__array__/tobytes/
   tofile/release/invalidate, base_dir setter, _io.load (base_dir = dirname(path) or "."),
   external_data.set_base_dir (model.graph and, since fix b3a8816, every model-local function). *)
From Coq Require Import NArith List Bool Arith Lia.
From IRV Require Import Base.Exn.
Import ListNotations.

(* ------------------------------------------------------------------ strings *)
Definition str := list N.
Definition slash : N := 47%N.
Definition str_eqb : str -> str -> bool := list_eqb N.eqb.
Definition s_dot : str := [46%N].
Definition s_dotdot : str := [46%N; 46%N].
Definition is_nil {A} (l : list A) : bool := match l with [] => true | _ => false end.
Definition is_dot (c : str) : bool := str_eqb c s_dot.
Definition is_dotdot (c : str) : bool := str_eqb c s_dotdot.

(* Python: s.split("/")  (never empty; "" |-> [""]) *)
Fixpoint split_slash (s : str) : list str :=
  match s with
  | [] => [[]]
  | c :: r =>
      if N.eqb c slash then [] :: split_slash r
      else match split_slash r with
           | [] => [[c]]
           | h :: t => (c :: h) :: t
           end
  end.

(* Python: "/".join(l) *)
Fixpoint join_slash (l : list str) : str :=
  match l with
  | [] => []
  | [a] => a
  | a :: r => a ++ slash :: join_slash r
  end.

Fixpoint count_lead (s : str) : nat * str :=
  match s with
  | c :: r => if N.eqb c slash then let '(n, t) := count_lead r in (S n, t) else (0, s)
  | [] => (0, [])
  end.

Definition upath := (nat * list str)%type.
Definition parse (s : str) : upath := let '(n, r) := count_lead s in (n, split_slash r).
Definition render (p : upath) : str := repeat slash (fst p) ++ join_slash (snd p).

Definition upath_eqb (a b : upath) : bool :=
  Nat.eqb (fst a) (fst b) && list_eqb str_eqb (snd a) (snd b).

Fixpoint starts_with (s pre : str) : bool :=
  match pre, s with
  | [], _ => true
  | p :: pr, c :: sr => N.eqb p c && starts_with sr pr
  | _ :: _, [] => false
  end.
Definition ends_with_slash (s : str) : bool :=
  match rev s with c :: _ => N.eqb c slash | [] => false end.

(* `p == b or p.startswith(b if b.endswith(sep) else b + sep)` *)
Definition within (p b : str) : bool :=
  str_eqb p b || starts_with p (if ends_with_slash b then b else b ++ [slash]).

(* ------------------------------------------------------------------ posixpath (CPython 3.12) on upaths *)
Definition isabs (p : upath) : bool := negb (Nat.eqb (fst p) 0).
Definition is_empty_path (p : upath) : bool :=
  Nat.eqb (fst p) 0 && match snd p with [] => true | [[]] => true | _ => false end.
Definition ends_with_sep (p : upath) : bool :=
  match snd p with [] => isabs p | l => is_nil (last l s_dot) end.
Definition root_up : upath := (1, [[]]).
Definition up1 (c : str) : upath := (0, [c]).

(* os.path.join(a, b) *)
Definition py_join (a b : upath) : upath :=
  if isabs b then b
  else if is_empty_path a then b
  else if ends_with_sep a then (fst a, removelast (snd a) ++ snd b)
  else (fst a, snd a ++ snd b).

(* the loop body of normpath; acc is new_comps reversed *)
Definition norm_step (abs : bool) (acc : list str) (c : str) : list str :=
  if is_nil c || is_dot c then acc
  else if is_dotdot c then
    match acc with
    | [] => if abs then [] else [c]
    | h :: t => if is_dotdot h then c :: acc else t
    end
  else c :: acc.

Definition norm_lead (n : nat) : nat := match n with 0 => 0 | 2 => 2 | _ => 1 end.

Definition py_normpath (p : upath) : upath :=
  if is_empty_path p then (0, [s_dot])
  else
    let i := norm_lead (fst p) in
    let cs := rev (fold_left (norm_step (negb (Nat.eqb i 0))) (snd p) []) in
    match cs with
    | [] => if Nat.eqb i 0 then (0, [s_dot]) else (i, [[]])
    | _ => (i, cs)
    end.

Definition rpath := list str.
Definition cwd_up (cwd : rpath) : upath := (1, match cwd with [] => [[]] | _ => cwd end).

Definition py_abspath (cwd : rpath) (p : upath) : upath :=
  py_normpath (if isabs p then p else py_join (cwd_up cwd) p).

Fixpoint drop_empty (l : list str) : list str :=
  match l with [] :: r => drop_empty r | _ => l end.
Definition strip_trailing_empty (l : list str) : list str := rev (drop_empty (rev l)).

(* os.path.split(p) = (head, tail) *)
Definition py_split (p : upath) : upath * str :=
  let comps := snd p in
  let tail := last comps [] in
  let init := strip_trailing_empty (removelast comps) in
  (match init with [] => (fst p, [[]]) | _ => (fst p, init) end, tail).

Definition py_dirname (p : upath) : upath := fst (py_split p).

(* the `pardir` branch of _joinrealpath *)
Definition py_dotdot (path : upath) : upath :=
  if is_empty_path path then up1 s_dotdot
  else let '(h, nm) := py_split path in
       if is_dotdot nm then py_join (py_join h (up1 s_dotdot)) (up1 s_dotdot) else h.

(* the remaining `rest` of _joinrealpath as a path again (string round trip) *)
Definition unsplit (comps : list str) : upath := parse (join_slash comps).

(* ------------------------------------------------------------------ file system and the kernel *)
Inductive node : Type :=
| Dir (nlink : N) (ents : list (str * node))
| File (ino nlink : N) (data : list N)
| Link (target : str).

Fixpoint ent_get (ents : list (str * node)) (n : str) : option node :=
  match ents with
  | [] => None
  | (k, v) :: r => if str_eqb k n then Some v else ent_get r n
  end.

Fixpoint get (fs : node) (p : rpath) : option node :=
  match p with
  | [] => Some fs
  | n :: r =>
      match fs with
      | Dir _ ents => match ent_get ents n with Some x => get x r | None => None end
      | _ => None
      end
  end.

Definition nlink_of (n : node) : N :=
  match n with Dir k _ => k | File _ k _ => k | Link _ => 1%N end.

Section Go.
  Variable fs : node.
  (* resolution of a symlink target: start directory, components -> final location (all links followed) *)
  Variable rec : rpath -> list str -> option (rpath * node).
  Variable follow : bool.   (* follow a symlink in the last component? (stat/open: yes, lstat/readlink: no) *)

  Fixpoint go (cur : rpath) (comps : list str) : option (rpath * node) :=
    match comps with
    | [] => match get fs cur with Some n => Some (cur, n) | None => None end
    | c :: rest =>
        match get fs cur with
        | Some (Dir _ ents) =>
            if is_nil c || is_dot c then go cur rest
            else if is_dotdot c then go (removelast cur) rest
            else match ent_get ents c with
                 | None => None                                       (* ENOENT *)
                 | Some (Link tgt) =>
                     if is_nil rest && negb follow then Some (cur ++ [c], Link tgt)
                     else
                       let t := parse tgt in
                       if is_empty_path t then None                    (* ENOENT: empty target *)
                       else match rec (if isabs t then [] else cur) (snd t) with
                            | Some (cur', _) => go cur' rest
                            | None => None
                            end
                 | Some _ => go (cur ++ [c]) rest
                 end
        | _ => None                                                    (* ENOTDIR / gone *)
        end
    end.
End Go.

(* kf bounds the nesting of symlink resolution (ELOOP); None = the call fails with OSError *)
Fixpoint kwalk (kf : nat) (fs : node) (cur : rpath) (comps : list str) (follow : bool)
  : option (rpath * node) :=
  match kf with
  | 0 => None
  | S kf' => go fs (fun c cs => kwalk kf' fs c cs true) follow cur comps
  end.

(* a system call on a path string *)
Definition kstr (kf : nat) (fs : node) (cwd : rpath) (p : upath) (follow : bool) : option (rpath * node) :=
  if is_empty_path p then None
  else kwalk kf fs (if isabs p then [] else cwd) (snd p) follow.

(* ------------------------------------------------------------------ os.path.realpath (non strict) *)
Definition seen_t := list (upath * option upath).
Fixpoint seen_get (s : seen_t) (k : upath) : option (option upath) :=
  match s with
  | [] => None
  | (k', v) :: r => if upath_eqb k' k then Some v else seen_get r k
  end.
Definition seen_set (s : seen_t) (k : upath) (v : option upath) : seen_t := (k, v) :: s.

(* `if isabs(rest): rest = rest[1:]; path = sep` *)
Definition entry_path (path t : upath) : upath := if isabs t then root_up else path.
Definition entry_rest (t : upath) : list str := repeat [] (fst t - 1) ++ snd t.

Section Realpath.
  Variables (kf : nat) (fs : node) (cwd : rpath).

  (* _joinrealpath(path, rest, strict=False, seen) ; pf = Python recursion/iteration budget *)
  Fixpoint jrp (pf : nat) (path : upath) (rest : list str) (seen : seen_t)
    : option (upath * bool * seen_t) :=
    match pf with
    | 0 => None
    | S pf' =>
        match rest with
        | [] => Some (path, true, seen)
        | name :: rest' =>
            if is_nil name || is_dot name then jrp pf' path rest' seen
            else if is_dotdot name then jrp pf' (py_dotdot path) rest' seen
            else
              let newpath := py_join path (up1 name) in
              match kstr kf fs cwd newpath false with              (* os.lstat(newpath) *)
              | Some (_, Link tgt) =>
                  match seen_get seen newpath with
                  | Some (Some p) => jrp pf' p rest' seen
                  | Some None => Some (py_join newpath (unsplit rest'), false, seen)
                  | None =>
                      let t := parse tgt in                        (* os.readlink(newpath) *)
                      match jrp pf' (entry_path path t) (entry_rest t) (seen_set seen newpath None) with
                      | None => None
                      | Some (p, true, seen') => jrp pf' p rest' (seen_set seen' newpath (Some p))
                      | Some (p, false, seen') => Some (py_join p (unsplit rest'), false, seen')
                      end
                  end
              | _ => jrp pf' newpath rest' seen
              end
        end
    end.

  Definition py_realpath (pf : nat) (filename : upath) : option upath :=
    match jrp pf (entry_path (0, [[]]) filename) (entry_rest filename) [] with
    | Some (p, _, _) => Some (py_abspath cwd p)
    | None => None
    end.

  (* ---------------------------------------------------------------- _check_path_containment *)
  Definition check (pf : nat) (base loc : str) : option (res unit) :=
    if is_nil base then Some (Ok tt)
    else
      let b := parse base in
      let path := py_join b (parse loc) in
      let base_abs := render (py_normpath (py_abspath cwd b)) in
      let path_abs := render (py_normpath (py_abspath cwd path)) in
      if negb (within path_abs base_abs) then Some (Raise ValueError)
      else
        match py_realpath pf b, py_realpath pf path with
        | Some br, Some pr =>
            if negb (within (render pr) (render br)) then Some (Raise ValueError)
            else
              let nl := match kstr kf fs cwd pr true with       (* os.stat(path_real).st_nlink *)
                        | Some (_, n) => nlink_of n
                        | None => 1%N
                        end in
              if (1 <? nl)%N then Some (Raise ValueError) else Some (Ok tt)
        | _, _ => None
        end.

  (* open(self.path, "rb") and read everything *)
  Definition kopen (base loc : str) : res (rpath * N * list N) :=
    match kstr kf fs cwd (py_join (parse base) (parse loc)) true with
    | Some (rp, File ino _ data) => Ok (rp, ino, data)
    | _ => Raise OSError
    end.
End Realpath.

(* ------------------------------------------------------------------ the tensor and its read entry points *)
(* dtype fixed to UINT8: size = nbytes = t_n *)
Record tstate := mkT {
  t_base : str; t_loc : str; t_n : N; t_off : option N; t_len : option N;
  t_valid : bool;
  t_arr : option (list N);    (* self._array (its bytes) *)
  t_raw : option (list N)     (* self.raw: the mmap of the whole file *)
}.

Inductive event :=
| EvCheck (base loc : str) (r : res unit)
| EvOpen (base loc : str)
| EvRead (rp : rpath) (ino : N).

Inductive op := SetBase (b : str) | Numpy | ArrayProto | ToBytes | ToFile | Serialize | Release | Invalidate.

Definition or0 (o : option N) : N := match o with Some x => x | None => 0%N end.
Definition or_default (o : option N) (d : N) : N :=
  match o with Some 0%N => d | Some x => x | None => d end.
Definition slice (l : list N) (off len : N) : list N := firstn (N.to_nat len) (skipn (N.to_nat off) l).

Section Tensor.
  Variables (kf : nat) (fs : node) (cwd : rpath) (pf : nat).

  Definition outcome := (tstate * list event * res (list N))%type.
  Definition set_arr (t : tstate) v := mkT (t_base t) (t_loc t) (t_n t) (t_off t) (t_len t) (t_valid t) v (t_raw t).
  Definition set_raw (t : tstate) v := mkT (t_base t) (t_loc t) (t_n t) (t_off t) (t_len t) (t_valid t) (t_arr t) v.

  (* None = the Python-side budget was exhausted (not a behaviour of the code) *)
  Definition do_check (t : tstate) : option (list event * res unit) :=
    match check kf fs cwd pf (t_base t) (t_loc t) with
    | Some r => Some ([EvCheck (t_base t) (t_loc t) r], r)
    | None => None
    end.

  (* ExternalTensor._load *)
  Definition load (t : tstate) : option outcome :=
    if negb (t_valid t) then Some (t, [], Raise ValueError) else
    match do_check t with
    | None => None
    | Some (ev, Raise e) => Some (t, ev, Raise e)
    | Some (ev, Ok _) =>
        match t_arr t with
        | Some _ => Some (t, ev, Raise AssertionError)
        | None =>
            if N.eqb (t_n t) 0 then Some (set_arr t (Some []), ev, Ok [])
            else
              match kopen kf fs cwd (t_base t) (t_loc t) with
              | Raise e => Some (t, ev ++ [EvOpen (t_base t) (t_loc t)], Raise e)
              | Ok (rp, ino, data) =>
                  let ev' := ev ++ [EvOpen (t_base t) (t_loc t); EvRead rp ino] in
                  if is_nil data then Some (t, ev', Raise ValueError)          (* mmap of an empty file *)
                  else
                    let t1 := set_raw t (Some data) in
                    let off := or0 (t_off t) in
                    if (N.of_nat (length data) <? off + t_n t)%N
                    then Some (t1, ev', Raise ValueError)                        (* np.frombuffer *)
                    else let a := slice data off (t_n t) in Some (set_arr t1 (Some a), ev', Ok a)
              end
        end
    end.

  Definition numpy (t : tstate) : option outcome :=
    if negb (t_valid t) then Some (t, [], Raise ValueError) else
    match t_arr t with
    | Some a => Some (t, [], Ok a)
    | None => load t
    end.

  Definition tobytes (t : tstate) : option outcome :=
    if negb (t_valid t) then Some (t, [], Raise ValueError) else
    if N.eqb (t_n t) 0 then
      match do_check t with
      | None => None
      | Some (ev, Raise e) => Some (t, ev, Raise e)
      | Some (ev, Ok _) => Some (t, ev, Ok [])
      end
    else
      let fin (t' : tstate) (ev : list event) : outcome :=
        match t_raw t' with
        | Some data => (t', ev, Ok (slice data (or0 (t_off t')) (or_default (t_len t') (t_n t'))))
        | None => (t', ev, Raise AssertionError)
        end in
      match t_raw t with
      | Some _ => Some (fin t [])
      | None =>
          match load t with
          | None => None
          | Some (t', ev, Raise e) => Some (t', ev, Raise e)
          | Some (t', ev, Ok _) => Some (fin t' ev)
          end
      end.

  Definition tofile (t : tstate) : option outcome :=
    if negb (t_valid t) then Some (t, [], Raise ValueError) else
    match do_check t with
    | None => None
    | Some (ev, Raise e) => Some (t, ev, Raise e)
    | Some (ev, Ok _) =>
        match kopen kf fs cwd (t_base t) (t_loc t) with
        | Raise e => Some (t, ev ++ [EvOpen (t_base t) (t_loc t)], Raise e)
        | Ok (rp, ino, data) =>
            let ev' := ev ++ [EvOpen (t_base t) (t_loc t); EvRead rp ino] in
            let off := or0 (t_off t) in
            let len := or_default (t_len t) (t_n t) in
            (* chunked copy: OSError only when a read returns nothing while bytes are still wanted *)
            if (0 <? len)%N && (N.of_nat (length data) <? off + len)%N then Some (t, ev', Raise OSError)
            else Some (t, ev', Ok (slice data off len))
        end
    end.

  Definition release (t : tstate) : tstate := set_raw (set_arr t None) None.

  Definition step (o : op) (t : tstate) : option outcome :=
    match o with
    | SetBase b => Some (mkT b (t_loc t) (t_n t) (t_off t) (t_len t) (t_valid t) (t_arr t) (t_raw t), [], Ok [])
    | Numpy | ArrayProto => numpy t
    | ToBytes => tobytes t
    | ToFile => tofile t
    | Serialize =>      (* external_data._external_tensor_to_memory_tensor: numpy().copy(); release() *)
        match numpy t with
        | Some (t', ev, Ok a) => Some (release t', ev, Ok a)
        | r => r
        end
    | Release => Some (release t, [], Ok [])
    | Invalidate => Some (mkT (t_base t) (t_loc t) (t_n t) (t_off t) (t_len t) false (t_arr t) (t_raw t), [], Ok [])
    end.

  (* a history; keeps going after a Raise; returns per-step (base at that time, events, result) *)
  Fixpoint run (ops : list op) (t : tstate) : option (list (str * list event * res (list N))) :=
    match ops with
    | [] => Some []
    | o :: r =>
        match step o t with
        | None => None
        | Some (t', ev, res) =>
            match run r t' with
            | None => None
            | Some l => Some ((t_base t, ev, res) :: l)
            end
        end
    end.
End Tensor.

(* Histories in which the WORLD changes between calls: the file system is replaced (an entry becomes a symlink
   or a hard link, a directory is swapped for a symlinked one, ...) or the process changes directory.  Every
   entry point runs its check and its open against the world in force at that call. *)
Inductive wop := TOp (o : op) | World (fs : node) (cwd : rpath).

Fixpoint wrun (kf pf : nat) (ops : list wop) (fs : node) (cwd : rpath) (t : tstate)
  : option (list (node * rpath * str * list event * res (list N))) :=
  match ops with
  | [] => Some []
  | World fs' cwd' :: r =>
      match wrun kf pf r fs' cwd' t with
      | Some l => Some ((fs', cwd', t_base t, [], Ok []) :: l)
      | None => None
      end
  | TOp o :: r =>
      match step kf fs cwd pf o t with
      | None => None
      | Some (t', ev, res) =>
          match wrun kf pf r fs cwd t' with
          | Some l => Some ((fs, cwd, t_base t, ev, res) :: l)
          | None => None
          end
      end
  end.

Definition fresh (base loc : str) (n : N) (off len : option N) : tstate :=
  mkT base loc n off len true None None.

(* ------------------------------------------------------------------ onnx_ir.load *)
(* base_dir = os.path.dirname(path) or "." *)
Definition load_base (p : str) : str :=
  let d := py_dirname (parse p) in
  if is_empty_path d then s_dot else render d.

(* A deserialized model: external tensors reachable from model.graph (initializers, node attributes,
   subgraphs) and those inside model.functions.  deserialize_tensor gives base_dir "" to all;
   load() calls set_base_dir on model.graph and on every function (fix b3a8816; before it only on
   model.graph, which left function tensors unchecked). *)
Record mtensors := mkM { m_graph : list tstate; m_funcs : list tstate }.
Definition with_base (b : str) (t : tstate) : tstate :=
  mkT b (t_loc t) (t_n t) (t_off t) (t_len t) (t_valid t) (t_arr t) (t_raw t).
Definition load_model (p : str) (m : mtensors) : mtensors :=
  mkM (map (with_base (load_base p)) (m_graph m)) (map (with_base (load_base p)) (m_funcs m)).

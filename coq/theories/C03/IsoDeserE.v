(* C03/IsoDeserE.v — statements of the mutual induction for deser_tree and its node / attribute cases. *)
From Coq Require Import NArith List Bool Arith Lia.
From IRV Require Import Base.Exn C03.Model C03.Canon C03.Inv C03.Tree C03.IsoSpecs C17.Basics C17.Specs C17.Steps C17.Phases C17.OpNode C17.OpGraph C17.Deser C03.IsoDeserA C03.IsoDeserB C03.IsoDeserC C03.IsoDeserD.
Import ListNotations.

Arguments alloc_value : simpl never.
Arguments new_node : simpl never.
Arguments new_graph : simpl never.
Arguments lookup_scopes : simpl never.
Arguments lookup : simpl never.

Definition tnames (t : ntree) : list N :=
  match t with NBad => [] | NT _ _ _ _ outs _ => nz (map vd_name outs) end.
Definition aname (a : atree) : N := match a with TPlain k _ _ => k | TGraph k _ => k | TGraphs k _ => k end.

Lemma aproto_name_t2p a : aproto_name (t2p_a a) = aname a.
Proof. destruct a; reflexivity. Qed.
Lemma aproto_names_t2p : forall al, aproto_names (t2p_as al) = anames al.
Proof.
  induction al as [|a r IH]; cbn [t2p_as aproto_names anames]; [reflexivity|].
  rewrite IH, aproto_name_t2p. destruct a; reflexivity.
Qed.
(* attribute names are duplicate-free: no attribute of a t2p proto is skipped *)
Lemma attr_not_repeated a r : nodup_N (anames (TACons a r)) = true ->
  existsb (N.eqb (aproto_name (t2p_a a))) (aproto_names (t2p_as r)) = false /\ nodup_N (anames r) = true.
Proof.
  cbn [anames nodup_N]. intros H. apply andb_prop in H. destruct H as (A & B). apply negb_true_iff in A.
  rewrite aproto_name_t2p, aproto_names_t2p. split; auto; destruct a; exact A.
Qed.

Definition PG (T : gtree) : Prop := forall nsc sc h,
  chain_ok sc -> SC h sc -> map nms sc = nsc -> wf_g nsc T = true ->
  exists h' gid, deser_graph (t2p_g T) sc h = Ok (h', gid) /\ nested h h' /\ ngr h' = S gid /\
                 real_g (nv h) h' (map ids sc) gid T /\ depth_g T + ngr h <= ngr h'.
Definition PGs (Ts : gtrees) : Prop := forall nsc sc h,
  chain_ok sc -> SC h sc -> map nms sc = nsc -> wf_gs nsc Ts = true ->
  exists h' gl, deser_graphs (t2p_gs Ts) sc h = Ok (h', gl) /\ nested h h' /\ real_gs (nv h) h' (map ids sc) gl Ts /\
                depth_gs Ts + ngr h <= ngr h'.
Definition PA (a : atree) : Prop := forall nsc sc h,
  chain_ok sc -> SC h sc -> map nms sc = nsc -> wf_a nsc a = true ->
  exists h' x, deser_attr (t2p_a a) sc h = Ok (h', x) /\ nested h h' /\ real_a (nv h) h' (map ids sc) x a /\
               fst x = aname a /\ depth_a a + ngr h <= ngr h'.
Definition PAs (al : atrees) : Prop := forall nsc sc h,
  chain_ok sc -> SC h sc -> map nms sc = nsc -> nodup_N (anames al) = true -> wf_as nsc al = true ->
  exists h' l, deser_attrs (t2p_as al) sc h = Ok (h', l) /\ nested h h' /\ real_as (nv h) h' (map ids sc) l al /\
               map fst l = anames al /\ depth_as al + ngr h <= ngr h'.
Definition PN (t : ntree) : Prop := forall b I nsc outn sc tbl vis h lo,
  chain_ok (tbl :: sc) -> SC h sc -> map nms (tbl :: sc) = nsc -> wf_n nsc outn t = true ->
  TQ b I h tbl -> lo <= nv h ->
  (forall k, In k (tnames t) -> In k (nms tbl)) ->
  (forall k v x, In k (tnames t) -> In (k, v) tbl -> getv h v = Some x -> v_prod x = None) ->
  exists h' nid, deser_node (t2p_n t) tbl sc vis h = Ok (h', tbl, nid) /\
    nstep (tnames t) tbl h h' /\ pre_n lo h' (map ids (tbl :: sc)) tbl nid t /\ nn h <= nid < nn h' /\
    depth_n t + ngr h <= ngr h'.
Definition PNs (ns : ntrees) : Prop := forall b I nsc outn sc tbl vis h lo,
  chain_ok (tbl :: sc) -> SC h sc -> map nms (tbl :: sc) = nsc -> wf_ns nsc outn ns = true ->
  TQ b I h tbl -> lo <= nv h ->
  NoDup (tout_names ns) ->
  (forall k, In k (tout_names ns) -> In k (nms tbl)) ->
  (forall k v x, In k (tout_names ns) -> In (k, v) tbl -> getv h v = Some x -> v_prod x = None) ->
  exists h' nids, deser_nodes (t2p_ns ns) tbl sc vis h = Ok (h', tbl, nids) /\
    nstep (tout_names ns) tbl h h' /\ pre_ns lo h' (map ids (tbl :: sc)) tbl nids ns /\
    (forall n, In n nids -> nn h <= n < nn h') /\ depth_ns ns + ngr h <= ngr h'.

Lemma nested_ngr h h' : nested h h' -> ngr h <= ngr h'.
Proof. intros ((_ & _ & A & _) & _). auto. Qed.
Lemma nstep_ngr names tbl h h' : nstep names tbl h h' -> ngr h <= ngr h'.
Proof. intros ((_ & _ & A & _) & _). auto. Qed.

Lemma nested_nv h h' : nested h h' -> nv h <= nv h'.
Proof. intros ((A & _) & _). auto. Qed.

(* ------------------------------------------------------------------ easy cases *)
Lemma PNs_nil : PNs TNil.
Proof.
  intros b I nsc outn sc tbl vis h lo Hc HS Hn Hwf HT Hlo Hnd Hdecl Hpend.
  exists h, []. cbn. csplit; auto. - apply nstep_refl. - intros n [].
Qed.

Lemma PNs_cons n r : PN n -> PNs r -> PNs (TCons n r).
Proof.
  intros IHn IHr b I nsc outn sc tbl vis h lo Hc HS Hn Hwf HT Hlo Hnd Hdecl Hpend.
  cbn [wf_ns] in Hwf. apply andb_prop in Hwf. destruct Hwf as (W1 & W2).
  change (tout_names (TCons n r)) with (tnames n ++ tout_names r) in *.
  destruct (IHn b I nsc outn sc tbl vis h lo) as (h1 & nid & E1 & S1 & P1 & R1 & D1); auto.
  { intros k Hk. apply Hdecl. apply in_or_app; auto. }
  { intros k v x Hk. apply Hpend. apply in_or_app; auto. }
  pose proof S1 as (X1 & V1 & N1).
  assert (Hnv1 : nv h <= nv h1) by (destruct X1; auto).
  assert (Hnn1 : nn h <= nn h1) by (destruct X1 as (_ & A & _); auto).
  destruct (IHr b I nsc outn sc tbl vis h1 lo) as (h2 & nids & E2 & S2 & P2 & R2 & D2); auto.
  { eapply SC_ext; eauto. }
  { eapply TQ_nstep; eauto. }
  { lia. }
  { eapply NoDup_app_r; eauto. }
  { intros k Hk. apply Hdecl. apply in_or_app; auto. }
  { intros k v x1 Hk Hin Hx1. destruct (HT k v Hin) as (_ & x & Hx & _).
    destruct (V1 _ _ Hx) as (x' & Hx' & _ & Hp). assert (x' = x1) by congruence. subst x'.
    destruct Hp as [Hp|(k' & Hk' & Hin')].
    - rewrite Hp. eapply Hpend; eauto. apply in_or_app; auto.
    - assert (k' = k) by (eapply TQ_inj; eauto). subst k'. exfalso. eapply NoDup_app_disj; eauto. }
  pose proof S2 as (X2 & _).
  assert (Hnn2 : nn h1 <= nn h2) by (destruct X2 as (_ & A & _); auto).
  exists h2, (nid :: nids). cbn [t2p_ns deser_nodes]. rewrite E1, E2. csplit; auto.
  - eapply nstep_trans.
    + eapply nstep_mono; [|exact S1]. intros k Hk. apply in_or_app; auto.
    + eapply nstep_mono; [|exact S2]. intros k Hk. apply in_or_app; auto.
  - cbn [pre_ns]. split; auto. eapply pre_n_nstep; eauto.
  - intros m [<-|Hm]; [lia|]. specialize (R2 _ Hm). lia.
  - pose proof (nstep_ngr _ _ _ _ S1). pose proof (nstep_ngr _ _ _ _ S2). cbn [depth_ns]. lia.
Qed.

Lemma PAs_nil : PAs TANil.
Proof.
  intros nsc sc h Hc HS Hn Hnd Hwf. exists h, []. cbn. csplit; auto; try apply nested_refl.
Qed.

Lemma PAs_cons a r : PA a -> PAs r -> PAs (TACons a r).
Proof.
  intros IHa IHr nsc sc h Hc HS Hn Hnd Hwf. cbn [wf_as] in Hwf. apply andb_prop in Hwf. destruct Hwf as (W1 & W2).
  destruct (attr_not_repeated _ _ Hnd) as (Hex & Hnd2).
  destruct (IHa nsc sc h) as (h1 & x & E1 & N1 & R1 & F1 & D1); auto.
  destruct (IHr nsc sc h1) as (h2 & l & E2 & N2 & R2 & F2 & D2); auto.
  { eapply SC_ext; eauto. apply nested_ext; auto. }
  exists h2, (x :: l). cbn [t2p_as deser_attrs]. rewrite Hex, E1, E2. csplit; auto.
  - eapply nested_trans'; eauto.
  - cbn [real_as]. split.
    + destruct real_stable as (_ & _ & _ & _ & Sa & _). eapply Sa; [|exact R1]. apply nested_keeps; auto.
    + destruct real_mono as (_ & _ & _ & Ma & _). eapply Ma; [|exact R2]. apply nested_nv; auto.
  - cbn. f_equal; auto; rewrite F1; destruct a; auto.
  - pose proof (nested_ngr _ _ N1). pose proof (nested_ngr _ _ N2). cbn [depth_as]. lia.
Qed.

Lemma PA_plain k tok sbad : PA (TPlain k tok sbad).
Proof.
  intros nsc sc h Hc HS Hn Hwf. exists h, (k, AtPlain tok sbad). cbn. csplit; auto; try apply nested_refl.
Qed.
Lemma PA_graph k g : PG g -> PA (TGraph k g).
Proof.
  intros IH nsc sc h Hc HS Hn Hwf. cbn [wf_a] in Hwf.
  destruct (IH nsc sc h) as (h1 & gid & E1 & N1 & _ & R1 & D1); auto.
  exists h1, (k, AtGraph gid). cbn [t2p_a deser_attr]. rewrite E1. csplit; auto.
  cbn [real_a]. exists gid. auto.
Qed.
Lemma PA_graphs k gs : PGs gs -> PA (TGraphs k gs).
Proof.
  intros IH nsc sc h Hc HS Hn Hwf. cbn [wf_a] in Hwf.
  destruct (IH nsc sc h) as (h1 & gl & E1 & N1 & R1 & D1); auto.
  exists h1, (k, AtGraphs gl). cbn [t2p_a deser_attr]. rewrite E1. csplit; auto.
  cbn [real_a]. exists gl. auto.
Qed.
Lemma PGs_nil : PGs TGNil.
Proof.
  intros nsc sc h Hc HS Hn Hwf. exists h, []. cbn. csplit; auto; try apply nested_refl.
Qed.
Lemma PGs_cons g r : PG g -> PGs r -> PGs (TGCons g r).
Proof.
  intros IHg IHr nsc sc h Hc HS Hn Hwf. cbn [wf_gs] in Hwf. apply andb_prop in Hwf. destruct Hwf as (W1 & W2).
  destruct (IHg nsc sc h) as (h1 & gid & E1 & N1 & _ & R1 & D1); auto.
  destruct (IHr nsc sc h1) as (h2 & l & E2 & N2 & R2 & D2); auto.
  { eapply SC_ext; eauto. apply nested_ext; auto. }
  exists h2, (gid :: l). cbn [t2p_gs deser_graphs]. rewrite E1, E2. csplit; auto.
  - eapply nested_trans'; eauto.
  - cbn [real_gs]. split.
    + destruct real_stable as (Sg' & _). eapply Sg'; [|exact R1]. apply nested_keeps; auto.
    + destruct real_mono as (_ & _ & _ & _ & _ & Mgs'). eapply Mgs'; [|exact R2]. apply nested_nv; auto.
  - pose proof (nested_ngr _ _ N1). pose proof (nested_ngr _ _ N2). cbn [depth_gs]. lia.
Qed.

Lemma Forall2_flip {A B} (P : A -> B -> Prop) l1 l2 : Forall2 P l1 l2 -> Forall2 (fun b a => P a b) l2 l1.
Proof. induction 1; constructor; auto. Qed.

(* ------------------------------------------------------------------ one node *)
Lemma nval_vmid nid ins outs v x : vmid (nval nid ins outs v x) = vmid x.
Proof. reflexivity. Qed.

Lemma PN_bad : PN NBad.
Proof. intros b I nsc outn sc tbl vis h lo Hc HS Hn Hwf. discriminate. Qed.

Lemma PN_case nname op ntok ins outs attrs : PAs attrs -> PN (NT nname op ntok ins outs attrs).
Proof.
  intros IHa b I nsc outn sc tbl vis h lo Hc HS Hn Hwf HT Hlo Hdecl Hpend.
  cbn [wf_n] in Hwf.
  apply andb_prop in Hwf. destruct Hwf as (Hwf & W5).
  apply andb_prop in Hwf. destruct Hwf as (Hwf & W4).
  apply andb_prop in Hwf. destruct Hwf as (Hwf & W3).
  apply andb_prop in Hwf. destruct Hwf as (W1 & W2).
  cbn [tnames] in *. set (names := nz (map vd_name outs)) in *.
  rewrite forallb_forall in W1, W2.
  assert (HS0 : SC h (tbl :: sc)) by (eapply TQ_SC; eauto).
  (* 1. inputs *)
  assert (Win : forall o, In o ins -> match o with
            | None => True
            | Some rd => snd (fst rd) <> 0%N /\ snd rd = true /\
                         exists v, lookup_scopes (snd (fst rd)) (tbl :: sc) = Some v /\
                                   find_ref v (map ids (tbl :: sc)) 0 = fst (fst rd)
            end).
  { intros o Ho. specialize (W1 o Ho). destruct o as [[[rf k] nm]|]; auto. cbn [wf_node_in fst snd] in W1 |- *.
    apply andb_prop in W1. destruct W1 as (W1 & Wd).
    apply andb_prop in W1. destruct W1 as (W1 & Wc).
    apply andb_prop in W1. destruct W1 as (Wa & Wb).
    apply negb_true_iff in Wb. apply N.eqb_neq in Wb. apply ref_eqb_eq in Wd.
    split; auto. split; auto.
    assert (Hr : resolve k (map nms (tbl :: sc)) 0 <> None).
    { rewrite Hn, <- Wd. destruct rf; [discriminate|discriminate]. }
    destruct (resolve_lookup _ _ _ Hr) as (v & Hv). exists v. split; auto.
    destruct (find_resolve _ _ _ 0 Hc Hv) as (A & _). rewrite A, Hn. auto. }
  assert (R1 : resolve_inputs h tbl sc vis (map in_name ins) = Ok (h, tbl, map (in_val (tbl :: sc)) ins)).
  { apply resolve_inputs_spec. intros o Ho. specialize (Win o Ho). destruct o as [rd|]; auto.
    destruct Win as (A & _ & v & Hv & _). split; auto. congruence. }
  (* 2. outputs *)
  destruct (resolve_outputs_spec (map vd_name outs) h tbl) as (h2 & outvs & R2 & A1 & A2 & A3 & A4 & A5 & A6).
  { intros k Hk. apply Hdecl in Hk. apply In_nms in Hk. destruct Hk as (v & Hv).
    intros Hc'. apply lookup_None in Hc'. apply Hc'. apply in_map_iff. exists (k, v); auto. }
  assert (X2 : ext h h2).
  { unfold ext, nn, ngr, getn, getg, gett. rewrite A1, A2, A3. csplit; auto; eauto.
    intros v x Hx. exists x. split; auto. rewrite A5; auto. eapply getv_lt; eauto. }
  (* 3. attributes *)
  destruct (IHa nsc (tbl :: sc) h2) as (h3 & al & R3 & N3 & Q3 & F3 & D3); auto.
  { eapply SC_ext; eauto. }
  pose proof N3 as (X3 & V3 & G3).
  (* 4. Node() *)
  assert (OV : forall v, In v outvs -> exists x, getv h3 v = Some x /\ v_prod x = None).
  { intros v Hv. destruct (Forall2_in_r _ _ _ _ A6 Hv) as (k & Hk & Hr).
    assert (G : exists x2, getv h2 v = Some x2 /\ v_prod x2 = None).
    { destruct (N.eqb_spec k 0) as [Hz|Hz].
      - destruct Hr as (_ & Hr). eexists. split; [exact Hr|reflexivity].
      - apply lookup_In in Hr. destruct (HT _ _ Hr) as (_ & x & Hx & _). exists x.
        split; [rewrite A5; auto; eapply getv_lt; eauto|].
        eapply (Hpend k); eauto. apply In_nz. split; auto. }
    destruct G as (x2 & Hx2 & Hp2). destruct (V3 _ _ Hx2) as (x3 & Hx3 & E3). exists x3. split; auto.
    apply vfix_inv in E3. destruct E3 as (_ & E3 & _). congruence. }
  pose proof (new_node_ok h3 (Some nname) op ntok (map (in_val (tbl :: sc)) ins) outvs al OV) as R4.
  set (invs := map (in_val (tbl :: sc)) ins) in *.
  assert (Hdict : dict_of [] al = al).
  { apply dict_of_id. pose proof (nodup_N_NoDup _ W4) as Hnd. rewrite <- F3 in Hnd. exact Hnd. }
  rewrite Hdict in R4.
  match type of R4 with _ = Ok (?hh, _) => set (h4 := hh) in * end.
  assert (GV4 : forall v, getv h4 v = option_map (nval (nn h3) invs outvs v) (getv h3 v)).
  { intros v. unfold h4. rewrite <- Hdict. apply nn_getv. }
  assert (GN4 : getn h4 (nn h3) = Some (mkN (Some nname) op ntok invs outvs al None)).
  { unfold h4. rewrite <- Hdict at 1. rewrite nn_getn_new. rewrite Hdict. reflexivity. }
  assert (GO4 : forall n, n < nn h3 -> getn h4 n = getn h3 n).
  { intros n Hlt. unfold h4. rewrite <- Hdict. apply nn_getn_old; auto. }
  assert (NV4 : nv h4 = nv h3).
  { unfold h4, nv; simpl. rewrite add_uses_length, set_prods_length. auto. }
  assert (NN4 : nn h4 = S (nn h3)).
  { unfold h4, nn; simpl. rewrite app_length; simpl. lia. }
  assert (X4 : ext h3 h4).
  { unfold ext. rewrite NV4, NN4. csplit; auto.
    - intros v x Hx. rewrite GV4, Hx. simpl. eexists. split; eauto.
    - intros n y Hy. exists y. split; auto. rewrite GO4; auto. eapply getn_lt; eauto. }
  assert (Hnv3 : nv h2 <= nv h3) by (apply nested_nv; auto).
  assert (K4 : keeps lo h3 h4).
  { split; auto. intros v x _ Hx. rewrite GV4, Hx. simpl. eexists. split; [reflexivity|].
    apply vmid_vview. apply nval_vmid. }
  (* the whole step *)
  assert (S04 : nstep names tbl h h4).
  { split; [eapply ext_trans; [exact X2|]; eapply ext_trans; [exact X3 | exact X4]|]. split.
    - intros v x Hx. assert (Hv : v < nv h) by (eapply getv_lt; eauto).
      assert (Hx2 : getv h2 v = Some x) by (rewrite A5; auto).
      destruct (V3 _ _ Hx2) as (x3 & Hx3 & E3). apply vfix_vmid in E3. destruct E3 as (E3 & P3).
      rewrite GV4, Hx3. simpl. eexists. split; [reflexivity|]. split; [rewrite nval_vmid; auto|].
      destruct (in_dec Nat.eq_dec v outvs) as [Hin|Hnin].
      + right. destruct (Forall2_in_r _ _ _ _ A6 Hin) as (k & Hk & Hr). destruct (N.eqb_spec k 0) as [Hz|Hz].
        * destruct Hr as (Hr & _). lia.
        * exists k. split; [apply In_nz; auto | apply lookup_In; auto].
      + left. simpl. rewrite new_prod_notin; auto.
    - intros n y Hy. assert (Hy2 : getn h2 n = Some y) by (unfold getn in *; rewrite A1; auto).
      apply G3 in Hy2. rewrite GO4; auto. eapply getn_lt; eauto. }
  pose proof S04 as (X04 & _).
  assert (HS4 : SC h4 (tbl :: sc)) by (eapply SC_ext; eauto).
  assert (Hnn : nn h <= nn h3).
  { destruct X3 as (_ & A & _). unfold nn in *. rewrite A1 in A. auto. }
  exists h4, (nn h3). cbn [t2p_n deser_node]. unfold in_name in R1. rewrite R1, R2, R3. fold invs. rewrite R4.
  csplit; auto; [|lia|].
  2:{ cbn [depth_n]. unfold ngr in *. rewrite A2 in D3. unfold h4; cbn [hg]. exact D3. }
  cbn [pre_n]. eexists. split; [exact GN4|]. cbn [n_name n_op n_tok n_graph n_inputs n_outputs n_attrs]. csplit; auto.
  - unfold invs. rewrite map_map. rewrite <- (map_id ins) at 2. apply map_ext_in. intros o Ho.
    specialize (Win o Ho). destruct o as [[[rf k] nm]|]; [|reflexivity]. cbn [fst snd] in Win.
    destruct Win as (Hk & Hnm & v & Hv & Hf). unfold in_val. cbn [fst snd]. rewrite Hv. cbn [in_desc]. rewrite Hf.
    destruct (lookup_scopes_In _ _ _ Hv) as (t & Ht & Hin). destruct (HS4 t k v Ht Hin) as (x4 & Hx4 & Hn4).
    unfold vdesc_of. rewrite Hx4, Hn4. cbn [vd_name vd_named]. subst nm. reflexivity.
  - apply Forall2_flip. apply Forall2_map_l in A6. eapply Forall2_impl_In; [|exact A6].
    intros d v Hd Hv Hr. cbn beta in Hr. unfold out_rel. destruct (N.eqb_spec (vd_name d) 0) as [Hz|Hz].
    + destruct Hr as (Hge & Hx2). destruct (V3 _ _ Hx2) as (x3 & Hx3 & E3).
      apply vfix_inv in E3. destruct E3 as (E1 & E2 & E3 & E4 & E5 & E6 & E7 & E8).
      assert (Hx4 : getv h4 v = Some (nval (nn h3) invs outvs v x3)) by (rewrite GV4, Hx3; auto).
      split; [split; [lia | eapply getv_lt; eauto]|].
      assert (Ed : d = empty_vd).
      { specialize (W2 d Hd). unfold wf_node_out in W2. destruct d as [dn dnm dp dout]. cbn in *. subst dn.
        cbn in W2. apply andb_prop in W2. destruct W2 as (Wa & Wb). apply andb_prop in Wb. destruct Wb as (Wb & Wc).
        apply N.eqb_eq in Wb. apply negb_true_iff in Wc. subst. reflexivity. }
      split; auto. rewrite Ed. unfold vdesc_of, tpay. rewrite Hx4. cbn. rewrite E1, E5, E8. reflexivity.
    + apply lookup_In; auto.
  - intros v Hv. unfold invs in Hv. apply in_map_iff in Hv. destruct Hv as (o & Ho & Hin).
    destruct o as [rd|]; [|discriminate]. unfold in_val in Ho.
    destruct (lookup_scopes_In _ _ _ Ho) as (t & Ht & Hin'). destruct (HS4 t _ v Ht Hin') as (x4 & Hx4 & _).
    eapply getv_lt; eauto.
  - destruct real_stable as (_ & _ & _ & Sa & _). destruct real_mono as (_ & _ & _ & Ma & _).
    eapply Sa; [exact K4|]. eapply Ma; [|exact Q3]. lia.
Qed.

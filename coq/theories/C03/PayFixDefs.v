(* C03/PayFixDefs.v — payloads that the leaf normalisation leaves unchanged (used by the fixpoint theorem).
   Definitions only. *)
From Coq Require Import NArith List Bool Arith.
From IRV Require Import Base.Exn C03.Model C03.Canon C03.Inv C03.Tree C03.TreeF.
Import ListNotations.

(* the leaf normalisation is idempotent: every payload it produces is a fixed point *)
Definition np_idem (np : list (N * N)) : bool :=
  forallb (fun ab => N.eqb (norm_pay np (snd ab)) (snd ab)) np.

Definition pfix (np : list (N * N)) (p : N) : bool := N.eqb (norm_pay np p) p.
Definition pf_vd (np : list (N * N)) (d : vdesc) : bool := pfix np (vd_pay d).

Fixpoint pf_g (np : list (N * N)) (T : gtree) : bool :=
  match T with
  | GBad => true
  | GT _ _ ins inits nodes outs =>
    forallb (pf_vd np) ins && forallb (fun i => pfix np (id_pay i)) inits && pf_ns np nodes
    && forallb (fun o => pf_vd np (snd o)) outs
  end
with pf_ns (np : list (N * N)) (ns : ntrees) : bool :=
  match ns with TNil => true | TCons n r => pf_n np n && pf_ns np r end
with pf_n (np : list (N * N)) (n : ntree) : bool :=
  match n with NBad => true | NT _ _ _ _ outs attrs => forallb (pf_vd np) outs && pf_as np attrs end
with pf_as (np : list (N * N)) (al : atrees) : bool :=
  match al with TANil => true | TACons a r => pf_a np a && pf_as np r end
with pf_a (np : list (N * N)) (a : atree) : bool :=
  match a with TPlain _ _ _ => true | TGraph _ g => pf_g np g | TGraphs _ gs => pf_gs np gs end
with pf_gs (np : list (N * N)) (gs : gtrees) : bool :=
  match gs with TGNil => true | TGCons g r => pf_g np g && pf_gs np r end.

Definition pf_f (np : list (N * N)) (F : ftree) : bool :=
  match F with FBad => true | FT _ _ ins nodes _ => forallb (pf_vd np) ins && pf_ns np nodes end.
Definition pf_m (np : list (N * N)) (M : mtree) : bool :=
  pf_g np (mt_graph M) && forallb (pf_f np) (mt_funcs M).

(* statements proved in PayFix.v *)
Definition payfix_spec : Prop :=
  (forall np h m, np_ok np = true -> np_idem np = true -> pf_m np (unfold_model np h m) = true) /\
  (forall np h m, np_ok np = true -> pf_m np (unfold_model [] h m) = true ->
                  unfold_model np h m = unfold_model [] h m).

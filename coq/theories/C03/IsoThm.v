(* C03/IsoThm.v — C03_iso for models whose functions list is empty (nested graphs, captured values,
   unsorted nodes included), assembled from the two halves. *)
From Coq Require Import NArith List Bool Arith Lia.
From IRV Require Import Base.Exn C03.Model C03.Canon C03.Inv C03.Tree C03.IsoSpecs C03.IsoSer C03.IsoDeser C17.Top.
Import ListNotations.

Section DepthBound.
  Variable np : list (N * N).
  Variable h : heap.

  Lemma depth_ntrees_of (l : list ntree) f : (forall x, In x l -> depth_n x <= f) -> depth_ns (ntrees_of l) <= f.
  Proof. induction l as [|x r IH]; simpl; intros H; [lia|]. apply Nat.max_lub; auto. Qed.
  Lemma depth_atrees_of (l : list atree) f : (forall x, In x l -> depth_a x <= f) -> depth_as (atrees_of l) <= f.
  Proof. induction l as [|x r IH]; simpl; intros H; [lia|]. apply Nat.max_lub; auto. Qed.
  Lemma depth_gtrees_of (l : list gtree) f : (forall x, In x l -> depth_g x <= f) -> depth_gs (gtrees_of l) <= f.
  Proof. induction l as [|x r IH]; simpl; intros H; [lia|]. apply Nat.max_lub; auto. Qed.

  Lemma unfold_depth_le : forall fuel chain g, depth_g (unfold_graph np fuel h chain g) <= fuel.
  Proof.
    induction fuel as [|f IH]; intros chain g; simpl; [lia|].
    unfold unfold_graph_body. destruct (getg h g) as [z|]; simpl; [|lia].
    apply le_n_S. apply depth_ntrees_of. intros x Hx. apply in_map_iff in Hx. destruct Hx as (n & <- & _).
    unfold unfold_node. destruct (getn h n) as [y|]; simpl; [|lia].
    apply depth_atrees_of. intros a Ha. apply in_map_iff in Ha. destruct Ha as (ka & <- & _).
    unfold unfold_attr. destruct (snd ka) as [tok sbad|sg|sgs]; simpl; [lia|apply IH|].
    apply depth_gtrees_of. intros t Ht. apply in_map_iff in Ht. destruct Ht as (sg & <- & _). apply IH.
  Qed.
End DepthBound.

Section Assemble.
  Let HA : ser_tree_spec := ser_tree.
  Let HB : deser_tree_spec := deser_tree.

  Theorem iso_graphs np h m :
    serializable_t np h m = true ->
    exists h1 q h2 m2,
      ser_model np h m = Ok (h1, q) /\ deser_model q = Ok (h2, m2) /\
      (forall f, ser_fuel h < f -> unfold_graph [] f h2 [] (m_graph m2) = unfold_root np h (m_graph m)) /\
      m_tok m2 = m_tok m /\ m_funcs m2 = [] /\ Inv h2.
  Proof.
    unfold serializable_t. intros Hs. apply andb_prop in Hs. destruct Hs as [Hs Hw].
    apply andb_prop in Hs. destruct Hs as [Hnp Hf].
    destruct (m_funcs m) as [|f0 fr] eqn:Ef; [|discriminate].
    destruct (HA np h (m_graph m) Hnp Hw) as (h1 & Hser).
    destruct (HB _ Hw) as (h2 & g2 & Hd & Hu).
    exists h1, (mkMP (m_tok m) (t2p_g (unfold_root np h (m_graph m))) []), h2, (mkM (m_tok m) g2 []).
    assert (Hdm : deser_model (mkMP (m_tok m) (t2p_g (unfold_root np h (m_graph m))) []) = Ok (h2, mkM (m_tok m) g2 [])).
    { unfold deser_model; simpl. rewrite Hd. simpl. reflexivity. }
    split; [unfold ser_model; rewrite Hser, Ef; simpl; reflexivity|].
    split; [exact Hdm|]. split.
    - intros f Hf'. simpl. apply Hu. unfold unfold_root. pose proof (unfold_depth_le np h (ser_fuel h) [] (m_graph m)). lia.
    - split; [reflexivity|]. split; [reflexivity|]. eapply deser_model_inv; eauto.
  Qed.
End Assemble.

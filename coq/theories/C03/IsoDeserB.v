(* C03/IsoDeserB.v — frame relations (ext / keeps / nested), the relational unfolding real_g, its stability
   under keeps, and the bridge real_g -> unfold_graph = T. *)
From Coq Require Import NArith List Bool Arith Lia.
From IRV Require Import Base.Exn C03.Model C03.Canon C03.Inv C03.Tree C03.IsoSpecs C17.Basics C17.Specs C17.Steps C17.Phases C17.OpNode C17.OpGraph C17.Deser C03.IsoDeserA.
Import ListNotations.

Scheme gtree_ind' := Induction for gtree Sort Prop
  with ntrees_ind' := Induction for ntrees Sort Prop
  with ntree_ind' := Induction for ntree Sort Prop
  with atrees_ind' := Induction for atrees Sort Prop
  with atree_ind' := Induction for atree Sort Prop
  with gtrees_ind' := Induction for gtrees Sort Prop.
Combined Scheme tree_mutind from gtree_ind', ntrees_ind', ntree_ind', atrees_ind', atree_ind', gtrees_ind'.

(* ------------------------------------------------------------------ frames *)
Definition vfix (x : value) := (v_name x, v_prod x, v_owner x, v_in x, v_out x, v_init x, v_const x, v_info x).
Definition vmid (x : value) := (v_name x, v_owner x, v_in x, v_out x, v_init x, v_const x, v_info x).
Definition vview (x : value) := (v_name x, v_const x, v_info x, v_out x).
Definition nfix (y : node) := (n_name y, n_op y, n_tok y, n_inputs y, n_outputs y, n_attrs y).

Definition ext (h h' : heap) : Prop :=
  nv h <= nv h' /\ nn h <= nn h' /\ ngr h <= ngr h' /\
  (forall v x, getv h v = Some x -> exists x', getv h' v = Some x' /\ v_name x' = v_name x) /\
  (forall n y, getn h n = Some y -> exists y', getn h' n = Some y' /\ nfix y' = nfix y) /\
  (forall g z, getg h g = Some z -> getg h' g = Some z) /\
  (forall t c, gett h t = Some c -> gett h' t = Some c).

Definition keeps (lo : nat) (h h' : heap) : Prop :=
  ext h h' /\ forall v x, lo <= v -> getv h v = Some x -> exists x', getv h' v = Some x' /\ vview x' = vview x.

(* a completed nested construct: existing values only gained uses, existing nodes untouched *)
Definition nested (h h' : heap) : Prop :=
  ext h h' /\
  (forall v x, getv h v = Some x -> exists x', getv h' v = Some x' /\ vfix x' = vfix x) /\
  (forall n y, getn h n = Some y -> getn h' n = Some y).

Lemma nfix_inv y' y : nfix y' = nfix y ->
  n_name y' = n_name y /\ n_op y' = n_op y /\ n_tok y' = n_tok y /\ n_inputs y' = n_inputs y /\
  n_outputs y' = n_outputs y /\ n_attrs y' = n_attrs y.
Proof. unfold nfix. intros H; inversion H. csplit; auto. Qed.
Lemma vview_inv x' x : vview x' = vview x ->
  v_name x' = v_name x /\ v_const x' = v_const x /\ v_info x' = v_info x /\ v_out x' = v_out x.
Proof. unfold vview. intros H; inversion H. csplit; auto. Qed.
Lemma vmid_inv x' x : vmid x' = vmid x ->
  v_name x' = v_name x /\ v_owner x' = v_owner x /\ v_in x' = v_in x /\ v_out x' = v_out x /\ v_init x' = v_init x /\
  v_const x' = v_const x /\ v_info x' = v_info x.
Proof. unfold vmid. intros H; inversion H. csplit; auto. Qed.
Lemma vfix_inv x' x : vfix x' = vfix x ->
  v_name x' = v_name x /\ v_prod x' = v_prod x /\ v_owner x' = v_owner x /\ v_in x' = v_in x /\ v_out x' = v_out x /\
  v_init x' = v_init x /\ v_const x' = v_const x /\ v_info x' = v_info x.
Proof. unfold vfix. intros H; inversion H. csplit; auto. Qed.

Lemma ext_refl h : ext h h.
Proof. unfold ext. csplit; auto; eauto. Qed.
Lemma ext_trans h1 h2 h3 : ext h1 h2 -> ext h2 h3 -> ext h1 h3.
Proof.
  intros (A1 & A2 & A3 & A4 & A5 & A6 & A7) (B1 & B2 & B3 & B4 & B5 & B6 & B7). unfold ext. csplit; try lia; auto.
  - intros v x H. destruct (A4 _ _ H) as (x' & H' & E). destruct (B4 _ _ H') as (x'' & H'' & E').
    exists x''. split; auto. congruence.
  - intros n y H. destruct (A5 _ _ H) as (y' & H' & E). destruct (B5 _ _ H') as (y'' & H'' & E').
    exists y''. split; auto. congruence.
Qed.
Lemma keeps_refl lo h : keeps lo h h.
Proof. split; [apply ext_refl|]. eauto. Qed.
Lemma keeps_trans lo h1 h2 h3 : keeps lo h1 h2 -> keeps lo h2 h3 -> keeps lo h1 h3.
Proof.
  intros (A & A') (B & B'). split; [eapply ext_trans; eauto|].
  intros v x Hl H. destruct (A' _ _ Hl H) as (x' & H' & E). destruct (B' _ _ Hl H') as (x'' & H'' & E').
  exists x''. split; auto. congruence.
Qed.
Lemma keeps_weaken lo lo' h h' : lo <= lo' -> keeps lo h h' -> keeps lo' h h'.
Proof. intros Hl (A & B). split; auto. intros v x Hv. apply B. lia. Qed.
Lemma nested_refl h : nested h h.
Proof. split; [apply ext_refl|]. split; eauto. Qed.
Lemma nested_trans' h1 h2 h3 : nested h1 h2 -> nested h2 h3 -> nested h1 h3.
Proof.
  intros (A & A' & A'') (B & B' & B''). split; [eapply ext_trans; eauto|]. split; auto.
  intros v x H. destruct (A' _ _ H) as (x' & H' & E). destruct (B' _ _ H') as (x'' & H'' & E').
  exists x''. split; auto. congruence.
Qed.
Lemma vfix_vview x x' : vfix x' = vfix x -> vview x' = vview x.
Proof. unfold vfix, vview. intros H; inversion H. congruence. Qed.
Lemma vmid_vview x x' : vmid x' = vmid x -> vview x' = vview x.
Proof. unfold vmid, vview. intros H; inversion H. congruence. Qed.
Lemma nested_keeps lo h h' : nested h h' -> keeps lo h h'.
Proof.
  intros (A & B & C). split; auto. intros v x _ H. destruct (B _ _ H) as (x' & H' & E). exists x'. split; auto.
  apply vfix_vview; auto.
Qed.
Lemma nested_ext h h' : nested h h' -> ext h h'.
Proof. intros (A & _); auto. Qed.

(* ------------------------------------------------------------------ what unfold reads is stable *)
Lemma getv_ext h h' v x : ext h h' -> getv h v = Some x -> exists x', getv h' v = Some x' /\ v_name x' = v_name x.
Proof. intros (_ & _ & _ & A & _). apply A. Qed.

Lemma vdesc_keep lo h h' v : keeps lo h h' -> lo <= v < nv h -> vdesc_of [] h' v = vdesc_of [] h v.
Proof.
  intros (_ & K) (Hl & Hv). destruct (getv_some h v Hv) as (x & Hx). destruct (K _ _ Hl Hx) as (x' & Hx' & E).
  unfold vdesc_of, tpay. rewrite Hx, Hx'. apply vview_inv in E. destruct E as (E1 & E2 & E3 & E4). rewrite E1, E3, E4. auto.
Qed.
Lemma vname_ext h h' v : ext h h' -> v < nv h ->
  vd_name (vdesc_of [] h' v) = vd_name (vdesc_of [] h v) /\ vd_named (vdesc_of [] h' v) = vd_named (vdesc_of [] h v) /\
  named_ne h' v = named_ne h v /\
  (match getv h' v with Some x => falsy (v_name x) | None => false end
   = match getv h v with Some x => falsy (v_name x) | None => false end).
Proof.
  intros E Hv. destruct (getv_some h v Hv) as (x & Hx). destruct (getv_ext _ _ _ _ E Hx) as (x' & Hx' & En).
  unfold vdesc_of, named_ne. rewrite Hx, Hx', En. simpl. auto.
Qed.
Lemma in_desc_ext h h' chain ins : ext h h' -> (forall v, In (Some v) ins -> v < nv h) ->
  forall f, f = (fun h ov => match ov with
                 | None => None
                 | Some v => Some (find_ref v chain 0, vd_name (vdesc_of [] h v), vd_named (vdesc_of [] h v))
                 end) -> map (f h') ins = map (f h) ins.
Proof.
  intros E Hs f ->. apply map_ext_in. intros [v|] Hin; auto.
  destruct (vname_ext h h' v E (Hs _ Hin)) as (A & B & _). rewrite A, B. auto.
Qed.
Lemma trim_ext h h' outs : ext h h' -> (forall v, In v outs -> v < nv h) -> trim_outputs h' outs = trim_outputs h outs.
Proof.
  intros E. induction outs as [|v r IH]; simpl; intros Hs; auto.
  rewrite IH by (intros; apply Hs; auto). destruct (trim_outputs h r); auto.
  assert (Hv : v < nv h) by (apply Hs; auto).
  destruct (getv_some h v Hv) as (x & Hx). destruct (getv_ext _ _ _ _ E Hx) as (x' & Hx' & En).
  rewrite Hx, Hx', En. auto.
Qed.
Lemma trim_incl h outs v : In v (trim_outputs h outs) -> In v outs.
Proof.
  revert v; induction outs as [|w r IH]; simpl; intros v H; auto.
  destruct (trim_outputs h r) eqn:Et.
  - destruct (getv h w) as [x|]; [destruct (falsy (v_name x))|]; simpl in H; intuition.
  - destruct H as [H|H]; auto.
Qed.

(* ------------------------------------------------------------------ the relational unfolding *)
Definition in_desc (h : heap) (chain : list (list nat)) (ov : option nat) : option (ref * N * bool) :=
  match ov with
  | None => None
  | Some v => Some (find_ref v chain 0, vd_name (vdesc_of [] h v), vd_named (vdesc_of [] h v))
  end.

Fixpoint real_g (lo : nat) (h : heap) (chain : list (list nat)) (g : nat) (T : gtree) {struct T} : Prop :=
  match T with
  | GBad => False
  | GT gname gtok ins inits nodes outs =>
    exists z, getg h g = Some z /\ g_name z = gname /\ g_tok z = gtok /\
      map (vdesc_of [] h) (g_inputs z) = ins /\
      map (idesc_of [] h z) (g_inits z) = inits /\
      map (fun v => (find_ref v [gdefs h z] 0, vdesc_of [] h v)) (g_outputs z) = outs /\
      (forall v, In v (g_inputs z) -> lo <= v < nv h) /\
      (forall kv, In kv (g_inits z) -> lo <= snd kv < nv h /\ id_tensor (idesc_of [] h z kv) <> None) /\
      (forall v, In v (g_outputs z) -> lo <= v < nv h) /\
      real_ns lo h (gdefs h z :: chain) (g_nodes z) nodes
  end
with real_ns (lo : nat) (h : heap) (chain : list (list nat)) (ns : list nat) (Ts : ntrees) {struct Ts} : Prop :=
  match Ts with
  | TNil => ns = []
  | TCons t r => match ns with [] => False | n :: ns' => real_n lo h chain n t /\ real_ns lo h chain ns' r end
  end
with real_n (lo : nat) (h : heap) (chain : list (list nat)) (n : nat) (t : ntree) {struct t} : Prop :=
  match t with
  | NBad => False
  | NT nname op ntok ins outs attrs =>
    exists y, getn h n = Some y /\ (match n_name y with Some k => k | None => 0%N end) = nname /\
      n_op y = op /\ n_tok y = ntok /\
      map (in_desc h chain) (n_inputs y) = ins /\
      map (vdesc_of [] h) (trim_outputs h (n_outputs y)) = outs /\
      (forall v, In (Some v) (n_inputs y) -> v < nv h) /\
      (forall v, In v (n_outputs y) -> lo <= v < nv h) /\
      real_as lo h chain (n_attrs y) attrs
  end
with real_as (lo : nat) (h : heap) (chain : list (list nat)) (al : list (name * attr)) (Ts : atrees) {struct Ts} : Prop :=
  match Ts with
  | TANil => al = []
  | TACons t r => match al with [] => False | a :: al' => real_a lo h chain a t /\ real_as lo h chain al' r end
  end
with real_a (lo : nat) (h : heap) (chain : list (list nat)) (a : name * attr) (t : atree) {struct t} : Prop :=
  match t with
  | TPlain k tok sbad => a = (k, AtPlain tok sbad)
  | TGraph k gt => exists g, a = (k, AtGraph g) /\ real_g lo h chain g gt
  | TGraphs k Ts => exists gs, a = (k, AtGraphs gs) /\ real_gs lo h chain gs Ts
  end
with real_gs (lo : nat) (h : heap) (chain : list (list nat)) (gs : list nat) (Ts : gtrees) {struct Ts} : Prop :=
  match Ts with
  | TGNil => gs = []
  | TGCons gt r => match gs with [] => False | g :: gs' => real_g lo h chain g gt /\ real_gs lo h chain gs' r end
  end.

(* the nodes of a realised node list exist, with allocated outputs *)
Lemma real_ns_nodes lo h chain : forall Ts ns, real_ns lo h chain ns Ts ->
  forall n, In n ns -> exists y, getn h n = Some y /\ forall v, In v (n_outputs y) -> v < nv h.
Proof.
  induction Ts as [|t r IH]; intros ns H n Hin; simpl in H.
  - subst. destruct Hin.
  - destruct ns as [|m ns']; [destruct H|]. destruct H as (Hn & Hr). destruct Hin as [->|Hin]; [|eauto].
    destruct t; simpl in Hn; [destruct Hn|]. destruct Hn as (y & Hy & _ & _ & _ & _ & _ & _ & Ho & _).
    exists y. split; auto. intros v Hv. apply Ho in Hv. lia.
Qed.

Lemma gdefs_ext h h' z : ext h h' ->
  (forall n, In n (g_nodes z) -> exists y, getn h n = Some y /\ forall v, In v (n_outputs y) -> v < nv h) ->
  gdefs h' z = gdefs h z.
Proof.
  intros E Hn. unfold gdefs. f_equal. f_equal.
  induction (g_nodes z) as [|n r IH]; simpl; auto.
  rewrite IH by (intros; apply Hn; right; auto). f_equal.
  destruct (Hn n (or_introl eq_refl)) as (y & Hy & Ho).
  destruct E as (_ & _ & _ & E4 & E5 & _). destruct (E5 _ _ Hy) as (y' & Hy' & Ef).
  rewrite Hy, Hy'. apply nfix_inv in Ef. destruct Ef as (_ & _ & _ & _ & Eo & _). rewrite Eo.
  apply filter_ext_in. intros v Hv. specialize (Ho _ Hv).
  destruct (getv_some h v Ho) as (x & Hx). destruct (E4 _ _ Hx) as (x' & Hx' & En).
  unfold named_ne. rewrite Hx, Hx', En. auto.
Qed.

Definition Sg (T : gtree) := forall lo h h' chain g, keeps lo h h' -> real_g lo h chain g T -> real_g lo h' chain g T.
Definition Sns (Ts : ntrees) := forall lo h h' chain ns, keeps lo h h' -> real_ns lo h chain ns Ts -> real_ns lo h' chain ns Ts.
Definition Sn (t : ntree) := forall lo h h' chain n, keeps lo h h' -> real_n lo h chain n t -> real_n lo h' chain n t.
Definition Sas (Ts : atrees) := forall lo h h' chain al, keeps lo h h' -> real_as lo h chain al Ts -> real_as lo h' chain al Ts.
Definition Sa (t : atree) := forall lo h h' chain a, keeps lo h h' -> real_a lo h chain a t -> real_a lo h' chain a t.
Definition Sgs (Ts : gtrees) := forall lo h h' chain gs, keeps lo h h' -> real_gs lo h chain gs Ts -> real_gs lo h' chain gs Ts.

Lemma idesc_keep lo h h' z kv : keeps lo h h' -> lo <= snd kv < nv h -> id_tensor (idesc_of [] h z kv) <> None ->
  idesc_of [] h' z kv = idesc_of [] h z kv.
Proof.
  intros (E & K) (Hl & Hv) Ht. destruct (getv_some h _ Hv) as (x & Hx). destruct (K _ _ Hl Hx) as (x' & Hx' & Ev).
  unfold idesc_of in *. rewrite Hx in *. rewrite Hx'. apply vview_inv in Ev. destruct Ev as (E1 & E2 & E3 & E4).
  unfold tpay. rewrite E1, E2, E3. simpl in Ht.
  destruct (v_const x) as [c|]; [|congruence]. destruct (gett h c) as [t|] eqn:Et; [|congruence].
  destruct E as (_ & _ & _ & _ & _ & _ & E7). rewrite (E7 _ _ Et). auto.
Qed.

Theorem real_stable :
  (forall T, Sg T) /\ (forall Ts, Sns Ts) /\ (forall t, Sn t) /\ (forall Ts, Sas Ts) /\ (forall t, Sa t) /\ (forall Ts, Sgs Ts).
Proof.
  apply tree_mutind.
  - intros lo h h' chain g K H. destruct H.
  - intros gname gtok ins inits nodes IHn outs lo h h' chain g K H. simpl in H |- *.
    destruct H as (z & Hz & H1 & H2 & H3 & H4 & H5 & H6 & H7 & H8 & H9).
    pose proof K as (E & K').
    assert (Hgd : gdefs h' z = gdefs h z).
    { apply gdefs_ext; auto. eapply real_ns_nodes; eauto. }
    assert (Hnv : nv h <= nv h') by (destruct E; auto).
    exists z. csplit; auto.
    + destruct E as (_ & _ & _ & _ & _ & E6 & _). auto.
    + rewrite <- H3. apply map_ext_in. intros v Hv. eapply vdesc_keep; eauto.
    + rewrite <- H4. apply map_ext_in. intros kv Hkv. destruct (H7 _ Hkv). eapply idesc_keep; eauto.
    + rewrite <- H5, Hgd. apply map_ext_in. intros v Hv. f_equal. eapply vdesc_keep; eauto.
    + intros v Hv. specialize (H6 _ Hv). lia.
    + intros kv Hkv. destruct (H7 _ Hkv) as (A & B). split; [lia|]. erewrite idesc_keep; eauto.
    + intros v Hv. specialize (H8 _ Hv). lia.
    + rewrite Hgd. eapply IHn; eauto.
  - intros lo h h' chain ns K H. exact H.
  - intros t IHt r IHr lo h h' chain ns K H. simpl in H |- *. destruct ns as [|n ns']; auto.
    destruct H. split; [eapply IHt | eapply IHr]; eauto.
  - intros lo h h' chain n K H. destruct H.
  - intros nname op ntok ins outs attrs IHa lo h h' chain n K H. simpl in H |- *.
    destruct H as (y & Hy & H1 & H2 & H3 & H4 & H5 & H6 & H7 & H8).
    pose proof K as (E & K').
    assert (Hnv : nv h <= nv h') by (destruct E; auto).
    pose proof E as (_ & _ & _ & _ & E5 & _). destruct (E5 _ _ Hy) as (y' & Hy' & Ef).
    apply nfix_inv in Ef. destruct Ef as (F1 & F2 & F3 & F4 & F5 & F6).
    exists y'. rewrite F1, F2, F3, F4, F5, F6. csplit; auto.
    + rewrite <- H4. apply map_ext_in. intros [v|] Hin; simpl; auto.
      destruct (vname_ext h h' v E (H6 _ Hin)) as (A & B & _). rewrite A, B. auto.
    + rewrite <- H5. rewrite (trim_ext h h') by (auto; intros v Hv; apply H7 in Hv; lia).
      apply map_ext_in. intros v Hv. eapply vdesc_keep; eauto. apply H7. eapply trim_incl; eauto.
    + intros v Hv. specialize (H6 _ Hv). lia.
    + intros v Hv. specialize (H7 _ Hv). lia.
    + eapply IHa; eauto.
  - intros lo h h' chain al K H. exact H.
  - intros t IHt r IHr lo h h' chain al K H. simpl in H |- *. destruct al as [|a al']; auto.
    destruct H. split; [eapply IHt | eapply IHr]; eauto.
  - intros k tok sbad lo h h' chain a K H. exact H.
  - intros k T IH lo h h' chain a K H. simpl in H |- *. destruct H as (g & Ha & Hg). exists g. split; auto.
    eapply IH; eauto.
  - intros k Ts IH lo h h' chain a K H. simpl in H |- *. destruct H as (gs & Ha & Hg). exists gs. split; auto.
    eapply IH; eauto.
  - intros lo h h' chain gs K H. exact H.
  - intros T IHT r IHr lo h h' chain gs K H. simpl in H |- *. destruct gs as [|g gs']; auto.
    destruct H. split; [eapply IHT | eapply IHr]; eauto.
Qed.

(* ---- monotone in the lower bound *)
Definition Mg (T : gtree) := forall lo lo' h chain g, lo' <= lo -> real_g lo h chain g T -> real_g lo' h chain g T.
Definition Mns (Ts : ntrees) := forall lo lo' h chain ns, lo' <= lo -> real_ns lo h chain ns Ts -> real_ns lo' h chain ns Ts.
Definition Mn (t : ntree) := forall lo lo' h chain n, lo' <= lo -> real_n lo h chain n t -> real_n lo' h chain n t.
Definition Mas (Ts : atrees) := forall lo lo' h chain al, lo' <= lo -> real_as lo h chain al Ts -> real_as lo' h chain al Ts.
Definition Ma (t : atree) := forall lo lo' h chain a, lo' <= lo -> real_a lo h chain a t -> real_a lo' h chain a t.
Definition Mgs (Ts : gtrees) := forall lo lo' h chain gs, lo' <= lo -> real_gs lo h chain gs Ts -> real_gs lo' h chain gs Ts.

Theorem real_mono :
  (forall T, Mg T) /\ (forall Ts, Mns Ts) /\ (forall t, Mn t) /\ (forall Ts, Mas Ts) /\ (forall t, Ma t) /\ (forall Ts, Mgs Ts).
Proof.
  apply tree_mutind.
  - intros lo lo' h chain g K H. destruct H.
  - intros gname gtok ins inits nodes IHn outs lo lo' h chain g K H. simpl in H |- *.
    destruct H as (z & Hz & H1 & H2 & H3 & H4 & H5 & H6 & H7 & H8 & H9).
    exists z. csplit; auto.
    + intros v Hv. specialize (H6 _ Hv). lia.
    + intros kv Hkv. destruct (H7 _ Hkv) as (A & B). split; [lia|auto].
    + intros v Hv. specialize (H8 _ Hv). lia.
    + eapply IHn; eauto.
  - intros lo lo' h chain ns K H. exact H.
  - intros t IHt r IHr lo lo' h chain ns K H. simpl in H |- *. destruct ns as [|n ns']; auto.
    destruct H. split; [eapply IHt | eapply IHr]; eauto.
  - intros lo lo' h chain n K H. destruct H.
  - intros nname op ntok ins outs attrs IHa lo lo' h chain n K H. simpl in H |- *.
    destruct H as (y & Hy & H1 & H2 & H3 & H4 & H5 & H6 & H7 & H8).
    exists y. csplit; auto.
    + intros v Hv. specialize (H7 _ Hv). lia.
    + eapply IHa; eauto.
  - intros lo lo' h chain al K H. exact H.
  - intros t IHt r IHr lo lo' h chain al K H. simpl in H |- *. destruct al as [|a al']; auto.
    destruct H. split; [eapply IHt | eapply IHr]; eauto.
  - intros k tok sbad lo lo' h chain a K H. exact H.
  - intros k T IH lo lo' h chain a K H. simpl in H |- *. destruct H as (g & Ha & Hg). exists g. split; auto.
    eapply IH; eauto.
  - intros k Ts IH lo lo' h chain a K H. simpl in H |- *. destruct H as (gs & Ha & Hg). exists gs. split; auto.
    eapply IH; eauto.
  - intros lo lo' h chain gs K H. exact H.
  - intros T IHT r IHr lo lo' h chain gs K H. simpl in H |- *. destruct gs as [|g gs']; auto.
    destruct H. split; [eapply IHT | eapply IHr]; eauto.
Qed.

(* ------------------------------------------------------------------ bridge to the functional unfolding *)
Definition Bg (T : gtree) := forall lo h chain g, real_g lo h chain g T ->
  forall fuel, depth_g T < fuel -> unfold_graph [] fuel h chain g = T.
Definition Bns (Ts : ntrees) := forall lo h chain ns, real_ns lo h chain ns Ts ->
  forall f, depth_ns Ts < f -> ntrees_of (map (unfold_node [] h (unfold_graph [] f h) chain) ns) = Ts.
Definition Bn (t : ntree) := forall lo h chain n, real_n lo h chain n t ->
  forall f, depth_n t < f -> unfold_node [] h (unfold_graph [] f h) chain n = t.
Definition Bas (Ts : atrees) := forall lo h chain al, real_as lo h chain al Ts ->
  forall f, depth_as Ts < f -> atrees_of (map (unfold_attr (unfold_graph [] f h) chain) al) = Ts.
Definition Ba (t : atree) := forall lo h chain a, real_a lo h chain a t ->
  forall f, depth_a t < f -> unfold_attr (unfold_graph [] f h) chain a = t.
Definition Bgs (Ts : gtrees) := forall lo h chain gs, real_gs lo h chain gs Ts ->
  forall f, depth_gs Ts < f -> gtrees_of (map (unfold_graph [] f h chain) gs) = Ts.

Theorem real_unfold :
  (forall T, Bg T) /\ (forall Ts, Bns Ts) /\ (forall t, Bn t) /\ (forall Ts, Bas Ts) /\ (forall t, Ba t) /\ (forall Ts, Bgs Ts).
Proof.
  apply tree_mutind.
  - intros lo h chain g H. destruct H.
  - intros gname gtok ins inits nodes IHn outs lo h chain g H fuel Hf. cbn [real_g] in H. simpl in Hf.
    destruct H as (z & Hz & H1 & H2 & H3 & H4 & H5 & H6 & H7 & H8 & H9).
    destruct fuel as [|f]; [lia|]. simpl. unfold unfold_graph_body. rewrite Hz.
    rewrite H1, H2, H3, H4, H5. f_equal. eapply IHn; eauto. lia.
  - intros lo h chain ns H f Hf. simpl in H. subst. reflexivity.
  - intros t IHt r IHr lo h chain ns H f Hf. simpl in H, Hf. destruct ns as [|n ns']; [destruct H|].
    destruct H as (Hn & Hr). simpl. f_equal; [eapply IHt | eapply IHr]; eauto; lia.
  - intros lo h chain n H. destruct H.
  - intros nname op ntok ins outs attrs IHa lo h chain n H f Hf. simpl in H, Hf.
    destruct H as (y & Hy & H1 & H2 & H3 & H4 & H5 & H6 & H7 & H8).
    unfold unfold_node. rewrite Hy, H2, H3. unfold in_desc in H4. rewrite H4, H5. f_equal; [exact H1|].
    eapply IHa; eauto.
  - intros lo h chain al H f Hf. simpl in H. subst. reflexivity.
  - intros t IHt r IHr lo h chain al H f Hf. simpl in H, Hf. destruct al as [|a al']; [destruct H|].
    destruct H as (Hn & Hr). simpl. f_equal; [eapply IHt | eapply IHr]; eauto; lia.
  - intros k tok sbad lo h chain a H f Hf. simpl in H. subst. reflexivity.
  - intros k T IH lo h chain a H f Hf. simpl in H, Hf. destruct H as (g & -> & Hg).
    unfold unfold_attr; simpl. f_equal. eapply IH; eauto.
  - intros k Ts IH lo h chain a H f Hf. simpl in H, Hf. destruct H as (gs & -> & Hg).
    unfold unfold_attr; simpl. f_equal. eapply IH; eauto.
  - intros lo h chain gs H f Hf. simpl in H. subst. reflexivity.
  - intros T IHT r IHr lo h chain gs H f Hf. simpl in H, Hf. destruct gs as [|g gs']; [destruct H|].
    destruct H as (Hn & Hr). simpl. f_equal; [eapply IHT | eapply IHr]; eauto; lia.
Qed.

(* C03/Tree.v — the unfolding of an IR model into a first-order tree, used to STATE and PROVE C03_iso.
   Definitions only.

   unfold np h g  replaces every value occurrence of the object graph rooted at graph g by a reference
   (scope depth, index in the list of values DEFINED by that scope) computed from object IDENTITY, and keeps
   next to it everything the serialized form carries (names, payloads, operator ids, tensors, order).
   Two models with equal unfoldings have the same graphs/nodes/values structure: node order, operator
   identifiers, connectivity (optional inputs, values shared between scopes, captured outer-scope values),
   names, payloads, initializers.  The values defined by a graph are: its inputs, its initializers that are
   not inputs, and the non-empty-named outputs of its nodes (in this order).  Derived links (uses,
   producer/index, role flags, owner, node.graph) are not in the tree: they are determined by the primary
   structure in any state satisfying Inv, and both ends of the round trip satisfy Inv.

   t2p T is the proto the serializer writes for a model whose unfolding is T; wf_g is the boolean
   well-formedness of a tree = `serializable`: names present and unique per scope and every reference is what
   name resolution through the scope chain gives. *)
From Coq Require Import NArith ZArith List Bool Arith.
From IRV Require Import Base.Exn C03.Model C03.Canon C03.Inv.
Import ListNotations.

Definition ref := option (nat * nat).

Record vdesc := mkVD { vd_name : N; vd_named : bool; vd_pay : N; vd_out : bool }.
Record tdesc := mkTD { td_tok : N; td_pay : N; td_bad : bool; td_fill : list (N * N) }.
Record idesc := mkID { id_name : N; id_named : bool; id_tensor : option tdesc; id_input : bool; id_pay : N }.

Inductive gtree : Type :=
| GBad                                                          (* missing object / fuel exhausted *)
| GT (gname gtok : N) (ins : list vdesc) (inits : list idesc) (nodes : ntrees) (outs : list (ref * vdesc))
with ntrees : Type := TNil | TCons (n : ntree) (r : ntrees)
with ntree : Type :=
| NBad
| NT (nname op ntok : N) (ins : list (option (ref * N * bool))) (* reference, name, has-a-name *)
     (outs : list vdesc) (attrs : atrees)
with atrees : Type := TANil | TACons (a : atree) (r : atrees)
with atree : Type :=
| TPlain (k tok : N) (sbad : bool) | TGraph (k : N) (g : gtree) | TGraphs (k : N) (gs : gtrees)
with gtrees : Type := TGNil | TGCons (g : gtree) (r : gtrees).

(* ------------------------------------------------------------------ heap -> tree *)
Fixpoint index_nat (x : nat) (l : list nat) (i : nat) : option nat :=
  match l with [] => None | y :: r => if Nat.eqb x y then Some i else index_nat x r (S i) end.
Fixpoint find_ref (v : nat) (chain : list (list nat)) (d : nat) : ref :=
  match chain with
  | [] => None
  | D :: r => match index_nat v D 0 with Some j => Some (d, j) | None => find_ref v r (S d) end
  end.

Fixpoint ntrees_of (l : list ntree) : ntrees := match l with [] => TNil | x :: r => TCons x (ntrees_of r) end.
Fixpoint atrees_of (l : list atree) : atrees := match l with [] => TANil | x :: r => TACons x (atrees_of r) end.
Fixpoint gtrees_of (l : list gtree) : gtrees := match l with [] => TGNil | x :: r => TGCons x (gtrees_of r) end.

Section Unfold.
  Variable np : list (N * N).
  Variable h : heap.

  Definition tpay (x : value) : N := if N.eqb (v_info x) 0 then 0%N else norm_pay np (v_info x).
  Definition vdesc_of (v : nat) : vdesc :=
    match getv h v with
    | Some x => mkVD (match v_name x with Some k => k | None => 0%N end)
                     (match v_name x with Some _ => true | None => false end) (tpay x) (v_out x)
    | None => mkVD 0 false 0 false
    end.
  Definition named_ne (v : nat) : bool :=
    match getv h v with Some x => match v_name x with Some k => negb (N.eqb k 0) | None => false end | None => false end.
  (* the values a graph defines *)
  Definition gdefs (z : graph) : list nat :=
    g_inputs z
    ++ filter (fun v => negb (mem v (g_inputs z))) (map snd (g_inits z))
    ++ flat_map (fun n => match getn h n with Some y => filter named_ne (n_outputs y) | None => [] end) (g_nodes z).
  Definition idesc_of (z : graph) (kv : name * nat) : idesc :=
    match getv h (snd kv) with
    | Some x =>
      mkID (match v_name x with Some k => k | None => 0%N end)
           (match v_name x with Some _ => true | None => false end)
           (match v_const x with
            | Some c => match gett h c with
                        | Some t => Some (mkTD (t_tok t) (t_pay t) (t_bad_info t) (t_fill t))
                        | None => None
                        end
            | None => None
            end)
           (mem (snd kv) (g_inputs z)) (tpay x)
    | None => mkID 0 false None false 0
    end.

  Variable rec : list (list nat) -> nat -> gtree.
  Definition unfold_attr (chain : list (list nat)) (a : name * attr) : atree :=
    match snd a with
    | AtPlain tok sbad => TPlain (fst a) tok sbad
    | AtGraph g => TGraph (fst a) (rec chain g)
    | AtGraphs gs => TGraphs (fst a) (gtrees_of (map (rec chain) gs))
    end.
  Definition unfold_node (chain : list (list nat)) (n : nat) : ntree :=
    match getn h n with
    | None => NBad
    | Some y =>
      NT (match n_name y with Some k => k | None => 0%N end) (n_op y) (n_tok y)
         (map (fun ov => match ov with
                         | None => None
                         | Some v => Some (find_ref v chain 0, vd_name (vdesc_of v), vd_named (vdesc_of v))
                         end) (n_inputs y))
         (map vdesc_of (trim_outputs h (n_outputs y)))
         (atrees_of (map (unfold_attr chain) (n_attrs y)))
    end.
  Definition unfold_graph_body (chain : list (list nat)) (g : nat) : gtree :=
    match getg h g with
    | None => GBad
    | Some z =>
      let D := gdefs z in
      GT (g_name z) (g_tok z)
         (map vdesc_of (g_inputs z))
         (map (idesc_of z) (g_inits z))
         (ntrees_of (map (unfold_node (D :: chain)) (g_nodes z)))
         (map (fun v => (find_ref v [D] 0, vdesc_of v)) (g_outputs z))
    end.
End Unfold.

Fixpoint unfold_graph (np : list (N * N)) (fuel : nat) (h : heap) (chain : list (list nat)) (g : nat) : gtree :=
  match fuel with
  | O => GBad
  | S f => unfold_graph_body np h (unfold_graph np f h) chain g
  end.
Definition unfold_root (np : list (N * N)) (h : heap) (g : nat) : gtree := unfold_graph np (ser_fuel h) h [] g.

(* ------------------------------------------------------------------ tree -> proto *)
Definition memN (k : N) (l : list N) : bool := existsb (N.eqb k) l.
Definition vi_of (d : vdesc) : vinfo := mkVI (vd_name d) (vd_pay d) false.
Definition init_tps (i : idesc) : list tproto :=
  match id_tensor i with
  | Some t => [mkTP (id_name i) (td_tok t) (td_pay t) false (td_bad t) (td_fill t)]
  | None => []
  end.
Definition init_vis (inn : list N) (i : idesc) : list vinfo :=
  if negb (N.eqb (id_pay i) 0) && negb (N.eqb (id_name i) 0) && id_named i && negb (memN (id_name i) inn)
  then [mkVI (id_name i) (id_pay i) false] else [].
Definition out_vi (d : vdesc) : list vinfo :=
  if negb (vd_out d) && negb (N.eqb (vd_pay d) 0) && negb (N.eqb (vd_name d) 0) then [vi_of d] else [].

Fixpoint t2p_g (T : gtree) : gproto :=
  match T with
  | GBad => Gp 0 0 [] [] [] [] NNil
  | GT gname gtok ins inits nodes outs =>
    let inn := map vd_name ins in
    Gp gname gtok (map vi_of ins) (map (fun o => vi_of (snd o)) outs)
       (flat_map init_tps inits)
       (flat_map (init_vis inn) inits ++ t2p_nvis nodes)
       (t2p_ns nodes)
  end
with t2p_ns (ns : ntrees) : nprotos :=
  match ns with TNil => NNil | TCons n r => NCons (t2p_n n) (t2p_ns r) end
with t2p_nvis (ns : ntrees) : list vinfo :=
  match ns with
  | TNil => []
  | TCons n r => match n with
                 | NBad => t2p_nvis r
                 | NT _ _ _ _ outs _ => flat_map out_vi outs ++ t2p_nvis r
                 end
  end
with t2p_n (n : ntree) : nproto :=
  match n with
  | NBad => Np 0 0 0 [] [] ANil
  | NT nname op ntok ins outs attrs =>
    Np nname op ntok (map (fun o => match o with None => 0%N | Some rd => snd (fst rd) end) ins)
       (map vd_name outs) (t2p_as attrs)
  end
with t2p_as (al : atrees) : aprotos :=
  match al with TANil => ANil | TACons a r => ACons (t2p_a a) (t2p_as r) end
with t2p_a (a : atree) : aproto :=
  match a with
  | TPlain k tok sbad => APlain k tok false sbad
  | TGraph k g => AGraph k (t2p_g g)
  | TGraphs k gs => AGraphs k (t2p_gs gs)
  end
with t2p_gs (gs : gtrees) : gprotos :=
  match gs with TGNil => GNil | TGCons g r => GCons (t2p_g g) (t2p_gs r) end.

(* ------------------------------------------------------------------ well-formed trees = serializable *)
Fixpoint index_N (k : N) (l : list N) (i : nat) : option nat :=
  match l with [] => None | y :: r => if N.eqb k y then Some i else index_N k r (S i) end.
Fixpoint resolve (k : N) (nsc : list (list N)) (d : nat) : ref :=
  match nsc with
  | [] => None
  | D :: r => match index_N k D 0 with Some j => Some (d, j) | None => resolve k r (S d) end
  end.
Definition ref_eqb (a b : ref) : bool :=
  option_eqb (fun x y => Nat.eqb (fst x) (fst y) && Nat.eqb (snd x) (snd y)) a b.
Definition is_some {A} (o : option A) : bool := match o with Some _ => true | None => false end.

Definition nzN (l : list N) : list N := filter (fun k => negb (N.eqb k 0)) l.
Fixpoint node_out_descs (ns : ntrees) : list vdesc :=
  match ns with
  | TNil => []
  | TCons n r => match n with NBad => node_out_descs r | NT _ _ _ _ outs _ => outs ++ node_out_descs r end
  end.
(* names (and payloads) of the values a graph tree defines, in the order of gdefs *)
Definition tdefs (ins : list vdesc) (inits : list idesc) (nodes : ntrees) : list (N * N) :=
  map (fun d => (vd_name d, vd_pay d)) ins
  ++ map (fun i => (id_name i, id_pay i)) (filter (fun i => negb (id_input i)) inits)
  ++ map (fun d => (vd_name d, vd_pay d)) (filter (fun d => negb (N.eqb (vd_name d) 0)) (node_out_descs nodes)).

Definition fill_pay' (t : tdesc) (vpay : N) : N :=
  match lookup vpay (td_fill t) with Some r => r | None => if N.eqb vpay 0 then td_pay t else vpay end.

Definition wf_in (outn : list N) (d : vdesc) : bool :=
  vd_named d && negb (N.eqb (vd_name d) 0) && Bool.eqb (vd_out d) (existsb (N.eqb (vd_name d)) outn).
Definition wf_init (ins : list vdesc) (i : idesc) : bool :=
  id_named i && negb (N.eqb (id_name i) 0)
  && match id_tensor i with
     | None => false
     | Some t =>
       if id_input i
       then existsb (fun d => N.eqb (vd_name d) (id_name i) && N.eqb (vd_pay d) (id_pay i)) ins
       else negb (memN (id_name i) (map vd_name ins)) && negb (td_bad t)
            && negb (N.eqb (id_pay i) 0) && N.eqb (fill_pay' t (id_pay i)) (id_pay i)
     end.
Definition wf_node_in (nsc : list (list N)) (o : option (ref * N * bool)) : bool :=
  match o with
  | None => true
  | Some (r, k, named) => named && negb (N.eqb k 0) && is_some r && ref_eqb r (resolve k nsc 0)
  end.
(* the serializer drops trailing empty-named outputs: a tree never ends an output list with one *)
Definition no_trailing_empty (outs : list vdesc) : bool :=
  match rev outs with d :: _ => negb (N.eqb (vd_name d) 0) | [] => true end.
Definition wf_node_out (outn : list N) (d : vdesc) : bool :=
  vd_named d
  && if N.eqb (vd_name d) 0 then N.eqb (vd_pay d) 0 && negb (vd_out d)
     else Bool.eqb (vd_out d) (memN (vd_name d) outn).
Fixpoint anames (al : atrees) : list N :=
  match al with
  | TANil => []
  | TACons a r => (match a with TPlain k _ _ => k | TGraph k _ => k | TGraphs k _ => k end) :: anames r
  end.

Fixpoint wf_g (nsc : list (list N)) (T : gtree) : bool :=
  match T with
  | GBad => false
  | GT gname gtok ins inits nodes outs =>
    let defs := tdefs ins inits nodes in
    let D := map fst defs in
    let outn := map (fun o => vd_name (snd o)) outs in
    forallb (wf_in outn) ins
    && forallb (wf_init ins) inits
    && nodup_N (map id_name inits)
    && nodup_N D
    && wf_ns (D :: nsc) outn nodes
    && forallb (fun o => let '(r, d) := o in
                         vd_named d && negb (N.eqb (vd_name d) 0) && vd_out d && is_some r
                         && ref_eqb r (resolve (vd_name d) [D] 0)
                         && match lookup (vd_name d) defs with Some p => N.eqb p (vd_pay d) | None => false end) outs
  end
with wf_ns (nsc : list (list N)) (outn : list N) (ns : ntrees) : bool :=
  match ns with TNil => true | TCons n r => wf_n nsc outn n && wf_ns nsc outn r end
with wf_n (nsc : list (list N)) (outn : list N) (n : ntree) : bool :=
  match n with
  | NBad => false
  | NT nname op ntok ins outs attrs =>
    forallb (wf_node_in nsc) ins && forallb (wf_node_out outn) outs && no_trailing_empty outs
    && nodup_N (anames attrs) && wf_as nsc attrs
  end
with wf_as (nsc : list (list N)) (al : atrees) : bool :=
  match al with TANil => true | TACons a r => wf_a nsc a && wf_as nsc r end
with wf_a (nsc : list (list N)) (a : atree) : bool :=
  match a with
  | TPlain _ _ sbad => negb sbad
  | TGraph _ g => wf_g nsc g
  | TGraphs _ gs => wf_gs nsc gs
  end
with wf_gs (nsc : list (list N)) (gs : gtrees) : bool :=
  match gs with TGNil => true | TGCons g r => wf_g nsc g && wf_gs nsc r end.

(* the leaf normalisation never erases a non-empty payload and never invents one *)
Definition np_ok (np : list (N * N)) : bool :=
  forallb (fun ab => negb (N.eqb (fst ab) 0) && negb (N.eqb (snd ab) 0)) np.

(* ------------------------------------------------------------------ models without functions (stage 1) *)
Definition serializable_t (np : list (N * N)) (h : heap) (m : model) : bool :=
  np_ok np && match m_funcs m with [] => true | _ => false end
  && wf_g [] (unfold_root np h (m_graph m)).

(* ---- trees as observations (boolean comparison in the case files) *)
Definition obs_vd (d : vdesc) : obs := T [LN (vd_name d); Lb (vd_named d); LN (vd_pay d); Lb (vd_out d)].
Definition obs_ref (r : ref) : obs := match r with None => T [] | Some (d, j) => T [Lnat d; Lnat j] end.
Definition obs_id (i : idesc) : obs :=
  T [LN (id_name i); Lb (id_named i);
     match id_tensor i with
     | None => T []
     | Some t => T [LN (td_tok t); LN (td_pay t); Lb (td_bad t); T (map (fun ab => T [LN (fst ab); LN (snd ab)]) (td_fill t))]
     end; Lb (id_input i); LN (id_pay i)].
Fixpoint obs_gt (t : gtree) : obs :=
  match t with
  | GBad => L (-9)
  | GT gname gtok ins inits nodes outs =>
    T [LN gname; LN gtok; T (map obs_vd ins); T (map obs_id inits); T (obs_nts nodes);
       T (map (fun o => T [obs_ref (fst o); obs_vd (snd o)]) outs)]
  end
with obs_nts (ns : ntrees) : list obs :=
  match ns with TNil => [] | TCons n r => obs_nt n :: obs_nts r end
with obs_nt (n : ntree) : obs :=
  match n with
  | NBad => L (-9)
  | NT nname op ntok ins outs attrs =>
    T [LN nname; LN op; LN ntok;
       T (map (fun o => match o with None => T [] | Some rd => T [obs_ref (fst (fst rd)); LN (snd (fst rd)); Lb (snd rd)] end) ins);
       T (map obs_vd outs); T (obs_ats attrs)]
  end
with obs_ats (al : atrees) : list obs :=
  match al with TANil => [] | TACons a r => obs_at a :: obs_ats r end
with obs_at (a : atree) : obs :=
  match a with
  | TPlain k tok sbad => T [LN k; L 0; LN tok; Lb sbad]
  | TGraph k g => T [LN k; L 1; obs_gt g]
  | TGraphs k gs => T [LN k; L 2; T (obs_gts gs)]
  end
with obs_gts (gs : gtrees) : list obs :=
  match gs with TGNil => [] | TGCons g r => obs_gt g :: obs_gts r end.

(* the statement of C03_iso (tree form, models without functions) on one concrete state *)
Definition tree_roundtrip_b (np : list (N * N)) (h : heap) (m : model) : bool :=
  match ser_model np h m with
  | Raise _ => false
  | Ok (_, q) =>
    match deser_model q with
    | Raise _ => false
    | Ok (h2, m2) =>
      obs_eqb (obs_gt (unfold_root np h (m_graph m))) (obs_gt (unfold_root [] h2 (m_graph m2)))
      && obs_eqb (obs_g (t2p_g (unfold_root np h (m_graph m)))) (obs_g (mp_graph q))
    end
  end.
Definition iso_t_statement_b (np : list (N * N)) (h : heap) (m : model) : bool :=
  implb (serializable_t np h m) (tree_roundtrip_b np h m).

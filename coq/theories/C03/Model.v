(* C03/Model.v — executable model shared by C03 (IR -> proto -> IR) and C17 (deserialization of
   arbitrary protos).  Definitions only.

   Abstraction level.  Names are tokens (N, 0 = the empty string; the harness interns strings),
   operator identifiers / leaf payloads (tensor contents, type+shape+doc of a value, plain attribute
   values, doc strings + metadata of nodes/graphs) are opaque tokens: their (de)serialization is the
   business of C02/C04 and is *modelled, not verified* here.  What is modelled faithfully is the
   structure: scoping of names, identity of Value objects, the redundant links the constructors
   maintain (uses / producer+index / owning graph + role flags / node.graph), the order of the
   deserializer's steps, the constructor checks that can raise, and the serializer's name-driven output.

   Python anchors (src/onnx_ir): serde._deserialize_graph / _declare_node_outputs / _deserialize_node /
   _deserialize_attribute / deserialize_function / deserialize_model / serialize_graph_into /
   serialize_node_into / _remove_trailing_outputs / _should_create_value_info_for_value /
   serialize_function_into / serialize_model_into; _core.Value.__init__ / Node.__init__ /
   Node._create_outputs / Graph.__init__ / Graph.extend; _graph_containers.GraphInputs._set_graph /
   GraphOutputs._set_graph / GraphInitializers.__init__ / Attributes.__init__. *)
From Coq Require Import NArith List Bool Arith.
From IRV Require Import Base.Exn.
Import ListNotations.

Definition name := N.
Definition payload := N.          (* type+shape+doc+metadata of a value; 0 = nothing to serialize *)

(* ------------------------------------------------------------------ protos *)

Record vinfo := mkVI { vi_name : name; vi_pay : payload; vi_bad : bool (* leaf deserialization raises *) }.
Record tproto := mkTP { tp_name : name; tp_tok : N; tp_pay : payload (* TensorType(dtype)+shape *);
                        tp_bad_ctor : bool (* deserialize_tensor raises *);
                        tp_bad_info : bool (* tensor.dtype / tensor.shape raises *);
                        tp_fill : list (N * N) (* leaf level: value-info payload -> the payload after the
                          missing type / shape have been taken from this tensor; see fill_pay *) }.

Inductive gproto : Type :=
| Gp (gname gtok : N) (ins outs : list vinfo) (inits : list tproto) (vis : list vinfo) (nodes : nprotos)
with nprotos : Type :=
| NNil | NCons (n : nproto) (r : nprotos)
with nproto : Type :=
| Np (nname op ntok : N) (ins outs : list name) (attrs : aprotos)
with aprotos : Type :=
| ANil | ACons (a : aproto) (r : aprotos)
with aproto : Type :=
| APlain (aname tok : N) (bad : bool) (sbad : bool)   (* bad: leaf deserialization raises; sbad: re-serialization raises *)
| AGraph (aname : N) (g : gproto)
| AGraphs (aname : N) (gs : gprotos)
with gprotos : Type :=
| GNil | GCons (g : gproto) (r : gprotos).

Record fproto := mkFP { fp_id : N; fp_tok : N; fp_ins : list name; fp_outs : list name;
                        fp_vis : list vinfo; fp_nodes : nprotos;
                        fp_bad : bool (* a default attribute fails to deserialize *) }.
Record mproto := mkMP { mp_tok : N (* ir_version, opsets, producer, doc, metadata *);
                        mp_graph : gproto; mp_funcs : list fproto }.

(* ------------------------------------------------------------------ IR heap *)

Inductive attr := AtPlain (tok : N) (sbad : bool) | AtGraph (g : nat) | AtGraphs (gs : list nat).

Record value := mkV {
  v_name : option name;
  v_prod : option (nat * nat);       (* Value._producer, Value._index *)
  v_uses : list (nat * nat);         (* Value._uses, insertion order *)
  v_owner : option nat;              (* Value._graph *)
  v_in : bool; v_out : bool; v_init : bool;
  v_const : option nat;              (* tensor cell *)
  v_info : payload }.
Record node := mkN {
  n_name : option name; n_op : N; n_tok : N;
  n_inputs : list (option nat); n_outputs : list nat;
  n_attrs : list (name * attr);
  n_graph : option nat }.
Record graph := mkG {
  g_name : N; g_tok : N;
  g_inputs : list nat; g_outputs : list nat;
  g_inits : list (name * nat);       (* dict order *)
  g_nodes : list nat }.
Record tensor := mkT { t_name : option name; t_tok : N; t_pay : payload; t_bad_info : bool; t_fill : list (N * N) }.
Record heap := mkH { hv : list value; hn : list node; hg : list graph; ht : list tensor }.
Record func := mkF { f_id : N; f_tok : N; f_graph : nat }.
Record model := mkM { m_tok : N; m_graph : nat; m_funcs : list func }.

Definition empty_heap : heap := mkH [] [] [] [].
Definition getv (h : heap) (v : nat) := nth_error (hv h) v.
Definition getn (h : heap) (n : nat) := nth_error (hn h) n.
Definition getg (h : heap) (g : nat) := nth_error (hg h) g.
Definition gett (h : heap) (t : nat) := nth_error (ht h) t.

Fixpoint upd {A} (l : list A) (i : nat) (f : A -> A) : list A :=
  match l, i with
  | [], _ => []
  | x :: r, O => f x :: r
  | x :: r, S j => x :: upd r j f
  end.

Definition set_hv (h : heap) (l : list value) : heap := mkH l (hn h) (hg h) (ht h).
Definition updv (h : heap) (v : nat) (f : value -> value) : heap := set_hv h (upd (hv h) v f).

Definition with_prod (p : option (nat * nat)) (x : value) : value :=
  mkV (v_name x) p (v_uses x) (v_owner x) (v_in x) (v_out x) (v_init x) (v_const x) (v_info x).
Definition with_uses (u : list (nat * nat)) (x : value) : value :=
  mkV (v_name x) (v_prod x) u (v_owner x) (v_in x) (v_out x) (v_init x) (v_const x) (v_info x).
Definition with_own (o : option nat) (i ou it : bool) (x : value) : value :=
  mkV (v_name x) (v_prod x) (v_uses x) o i ou it (v_const x) (v_info x).
Definition with_const (c : option nat) (x : value) : value :=
  mkV (v_name x) (v_prod x) (v_uses x) (v_owner x) (v_in x) (v_out x) (v_init x) c (v_info x).
Definition with_info (p : payload) (x : value) : value :=
  mkV (v_name x) (v_prod x) (v_uses x) (v_owner x) (v_in x) (v_out x) (v_init x) (v_const x) p.
Definition with_ngraph (g : option nat) (y : node) : node :=
  mkN (n_name y) (n_op y) (n_tok y) (n_inputs y) (n_outputs y) (n_attrs y) g.

(* Value(name=...) *)
Definition alloc_value (h : heap) (nm : option name) (c : option nat) (p : payload) : heap * nat :=
  (set_hv h (hv h ++ [mkV nm None [] None false false false c p]), length (hv h)).
Definition alloc_tensor (h : heap) (nm : option name) (tok : N) (pay : payload) (bad : bool) (fl : list (N * N))
  : heap * nat :=
  (mkH (hv h) (hn h) (hg h) (ht h ++ [mkT nm tok pay bad fl]), length (ht h)).

(* Python dict: assignment to an existing key keeps its position *)
Fixpoint dict_set {A} (k : N) (a : A) (l : list (N * A)) : list (N * A) :=
  match l with
  | [] => [(k, a)]
  | (k', a') :: r => if N.eqb k k' then (k, a) :: r else (k', a') :: dict_set k a r
  end.
Fixpoint dict_of {A} (acc : list (N * A)) (l : list (N * A)) : list (N * A) :=
  match l with [] => acc | (k, a) :: r => dict_of (dict_set k a acc) r end.
Fixpoint lookup {A} (k : N) (l : list (N * A)) : option A :=
  match l with [] => None | (k', a) :: r => if N.eqb k k' then Some a else lookup k r end.

(* ---- Node.__init__ (inputs, outputs=..., attributes) *)
Definition has_prod (h : heap) (v : nat) : bool :=
  match getv h v with Some x => match v_prod x with Some _ => true | None => false end | None => true end.
Fixpoint set_prods (l : list value) (nid : nat) (outs : list nat) (i : nat) : list value :=
  match outs with [] => l | v :: r => set_prods (upd l v (with_prod (Some (nid, i)))) nid r (S i) end.
Fixpoint add_uses (l : list value) (nid : nat) (ins : list (option nat)) (i : nat) : list value :=
  match ins with
  | [] => l
  | None :: r => add_uses l nid r (S i)
  | Some v :: r => add_uses (upd l v (fun x => with_uses (v_uses x ++ [(nid, i)]) x)) nid r (S i)
  end.
Definition new_node (h : heap) (nm : option name) (op tok : N) (ins : list (option nat)) (outs : list nat)
           (attrs : list (name * attr)) : res (heap * nat) :=
  if existsb (has_prod h) outs then Raise ValueError
  else
    let nid := length (hn h) in
    let l1 := set_prods (hv h) nid outs 0 in
    let l2 := add_uses l1 nid ins 0 in
    Ok (mkH l2 (hn h ++ [mkN nm op tok ins outs (dict_of [] attrs) None]) (hg h) (ht h), nid).

(* ---- Graph.__init__ *)
Definition owner_ok (x : value) (gid : nat) : bool :=
  match v_owner x with None => true | Some g => Nat.eqb g gid end.
Fixpoint set_inputs (l : list value) (gid : nat) (vs : list nat) : res (list value) :=
  match vs with
  | [] => Ok l
  | v :: r =>
    match nth_error l v with
    | None => Raise AssertionError
    | Some x =>
      if owner_ok x gid && match v_prod x with None => true | Some _ => false end
      then set_inputs (upd l v (fun x => with_own (Some gid) true (v_out x) (v_init x) x)) gid r
      else Raise ValueError
    end
  end.
Fixpoint set_outputs (l : list value) (gid : nat) (vs : list nat) : res (list value) :=
  match vs with
  | [] => Ok l
  | v :: r =>
    match nth_error l v with
    | None => Raise AssertionError
    | Some x =>
      if owner_ok x gid
      then set_outputs (upd l v (fun x => with_own (Some gid) (v_in x) true (v_init x) x)) gid r
      else Raise ValueError
    end
  end.
Fixpoint set_inits (l : list value) (gid : nat) (vs : list (name * nat)) : res (list value) :=
  match vs with
  | [] => Ok l
  | (_, v) :: r =>
    match nth_error l v with
    | None => Raise AssertionError
    | Some x =>
      if owner_ok x gid
      then set_inits (upd l v (fun x => with_own (Some gid) (v_in x) (v_out x) true x)) gid r
      else Raise ValueError
    end
  end.
Fixpoint set_ngraphs (l : list node) (gid : nat) (ns : list nat) : res (list node) :=
  match ns with
  | [] => Ok l
  | n :: r =>
    match nth_error l n with
    | None => Raise AssertionError
    | Some y =>
      if match n_graph y with None => true | Some g => Nat.eqb g gid end
      then set_ngraphs (upd l n (with_ngraph (Some gid))) gid r
      else Raise ValueError
    end
  end.
(* {initializer.name: initializer for initializer in initializers}; a None name cannot be produced by
   the deserializer (modelled as AssertionError, the failure the name authority would cause) *)
Fixpoint keyed (l : list value) (vs : list nat) : res (list (name * nat)) :=
  match vs with
  | [] => Ok []
  | v :: r =>
    match nth_error l v with
    | Some x => match v_name x with
                | Some k => match keyed l r with Ok t => Ok ((k, v) :: t) | Raise e => Raise e end
                | None => Raise AssertionError
                end
    | None => Raise AssertionError
    end
  end.
Definition new_graph (h : heap) (gname gtok : N) (ins outs inits : list nat) (nodes : list nat)
  : res (heap * nat) :=
  let gid := length (hg h) in
  match set_inputs (hv h) gid ins with
  | Raise e => Raise e
  | Ok l1 =>
    match set_outputs l1 gid outs with
    | Raise e => Raise e
    | Ok l2 =>
      match keyed l2 inits with
      | Raise e => Raise e
      | Ok kv =>
        let d := dict_of [] kv in
        match set_inits l2 gid d with
        | Raise e => Raise e
        | Ok l3 =>
          match set_ngraphs (hn h) gid nodes with
          | Raise e => Raise e
          | Ok ln => Ok (mkH l3 ln (hg h ++ [mkG gname gtok ins outs d nodes]) (ht h), gid)
          end
        end
      end
    end
  end.

(* ------------------------------------------------------------------ deserialization *)

Definition table := list (name * nat).       (* newest binding first; lookup = first match *)
Definition in_table (k : name) (t : table) : bool := match lookup k t with Some _ => true | None => false end.
Fixpoint lookup_scopes (k : name) (sc : list table) : option nat :=
  match sc with [] => None | t :: r => match lookup k t with Some v => Some v | None => lookup_scopes k r end end.
(* {info.name: info for info in proto.value_info}: the last entry of a name wins *)
Fixpoint vi_lookup (k : name) (vis : list vinfo) : option vinfo :=
  match vis with
  | [] => None
  | i :: r => match vi_lookup k r with Some j => Some j | None => if N.eqb k (vi_name i) then Some i else None end
  end.

(* deserialize_value_info_proto(info, value): shape/type/doc overwritten *)
Definition apply_info (h : heap) (i : vinfo) (v : nat) : res heap :=
  if vi_bad i then Raise ValueError else Ok (updv h v (with_info (vi_pay i))).
Definition apply_info_opt (h : heap) (k : name) (vis : list vinfo) (v : nat) : res heap :=
  match vi_lookup k vis with Some i => apply_info h i v | None => Ok h end.

(* value_info applied to a (non-input) initializer: a type / shape the entry does not provide is taken
   from the tensor (serde._deserialize_graph, initializer branch).  An entry with no type and no shape
   (payload 0 or doc/metadata only) is looked up in the tensor's fill table like any other; the default
   covers the two frequent cases: nothing in the entry -> the tensor's payload; otherwise the entry's. *)
Definition fill_pay (t : tproto) (vpay : payload) : payload :=
  match lookup vpay (tp_fill t) with
  | Some r => r
  | None => if N.eqb vpay 0 then tp_pay t else vpay
  end.
Definition apply_info_init (h : heap) (t : tproto) (vis : list vinfo) (v : nat) : res heap :=
  match vi_lookup (tp_name t) vis with
  | Some i => if vi_bad i then Raise ValueError else Ok (updv h v (with_info (fill_pay t (vi_pay i))))
  | None => Ok h
  end.

(* inputs = [Value(name=info.name) ...]; then deserialize_value_info_proto for each *)
Fixpoint alloc_inputs (h : heap) (ins : list vinfo) : heap * list nat :=
  match ins with
  | [] => (h, [])
  | i :: r => let '(h1, v) := alloc_value h (Some (vi_name i)) None 0%N in
              let '(h2, vs) := alloc_inputs h1 r in (h2, v :: vs)
  end.
Fixpoint apply_infos (h : heap) (ins : list vinfo) (vs : list nat) : res heap :=
  match ins, vs with
  | i :: r, v :: vr => match apply_info h i v with Ok h1 => apply_infos h1 r vr | Raise e => Raise e end
  | _, _ => Ok h
  end.
Fixpoint table_of (t : table) (ins : list vinfo) (vs : list nat) : table :=
  match ins, vs with
  | i :: r, v :: vr => table_of ((vi_name i, v) :: t) r vr
  | _, _ => t
  end.

(* initializer_tensors = [deserialize_tensor(t) ...] *)
Fixpoint alloc_tensors (h : heap) (ts : list tproto) : res (heap * list nat) :=
  match ts with
  | [] => Ok (h, [])
  | t :: r =>
    if tp_bad_ctor t then Raise ValueError
    else let '(h1, c) := alloc_tensor h (Some (tp_name t)) (tp_tok t) (tp_pay t) (tp_bad_info t) (tp_fill t) in
         match alloc_tensors h1 r with Ok (h2, cs) => Ok (h2, c :: cs) | Raise e => Raise e end
  end.
Fixpoint deser_inits (h : heap) (tbl : table) (vis : list vinfo) (ts : list tproto) (cs : list nat)
  : res (heap * table * list nat) :=
  match ts, cs with
  | t :: r, c :: cr =>
    let k := tp_name t in
    if N.eqb k 0 then deser_inits h tbl vis r cr
    (* a repeated initializer name: only the LAST tensor of the name is used (as a whole) *)
    else if existsb (fun t' => N.eqb (tp_name t') k) r then deser_inits h tbl vis r cr
    else match lookup k tbl with
         | Some v =>
           match deser_inits (updv h v (with_const (Some c))) tbl vis r cr with
           | Ok (h2, t2, vs) => Ok (h2, t2, v :: vs) | Raise e => Raise e end
         | None =>
           if tp_bad_info t then Raise ValueError
           else let '(h1, v) := alloc_value h (Some k) (Some c) (tp_pay t) in
                match apply_info_init h1 t vis v with
                | Raise e => Raise e
                | Ok h2 =>
                  match deser_inits h2 ((k, v) :: tbl) vis r cr with
                  | Ok (h3, t3, vs) => Ok (h3, t3, v :: vs) | Raise e => Raise e end
                end
         end
  | _, _ => Ok (h, tbl, [])
  end.

(* _declare_node_outputs for one node, then for all nodes of the scope *)
Fixpoint declare_outs (h : heap) (tbl : table) (vis : list vinfo) (outs : list name) : res (heap * table) :=
  match outs with
  | [] => Ok (h, tbl)
  | k :: r =>
    if N.eqb k 0 then declare_outs h tbl vis r
    else if in_table k tbl then Raise ValueError
    else let '(h1, v) := alloc_value h (Some k) None 0%N in
         match apply_info_opt h1 k vis v with
         | Raise e => Raise e
         | Ok h2 => declare_outs h2 ((k, v) :: tbl) vis r
         end
  end.
Fixpoint declare_nodes (h : heap) (tbl : table) (vis : list vinfo) (ns : nprotos) : res (heap * table) :=
  match ns with
  | NNil => Ok (h, tbl)
  | NCons (Np _ _ _ _ outs _) r =>
    match declare_outs h tbl vis outs with
    | Raise e => Raise e
    | Ok (h1, t1) => declare_nodes h1 t1 vis r
    end
  end.

(* input resolution of _deserialize_node: innermost scope first; unknown -> placeholder in the current scope *)
Fixpoint resolve_inputs (h : heap) (cur : table) (sc : list table) (vis : list vinfo) (ins : list name)
  : res (heap * table * list (option nat)) :=
  match ins with
  | [] => Ok (h, cur, [])
  | k :: r =>
    if N.eqb k 0 then
      match resolve_inputs h cur sc vis r with Ok (h1, c1, l) => Ok (h1, c1, None :: l) | Raise e => Raise e end
    else match lookup_scopes k (cur :: sc) with
         | Some v =>
           match resolve_inputs h cur sc vis r with Ok (h1, c1, l) => Ok (h1, c1, Some v :: l) | Raise e => Raise e end
         | None =>
           let '(h1, v) := alloc_value h (Some k) None 0%N in
           match apply_info_opt h1 k vis v with
           | Raise e => Raise e
           | Ok h2 =>
             match resolve_inputs h2 ((k, v) :: cur) sc vis r with
             | Ok (h3, c3, l) => Ok (h3, c3, Some v :: l) | Raise e => Raise e end
           end
         end
  end.
Fixpoint resolve_outputs (h : heap) (cur : table) (outs : list name) : res (heap * list nat) :=
  match outs with
  | [] => Ok (h, [])
  | k :: r =>
    if N.eqb k 0 then
      let '(h1, v) := alloc_value h (Some 0%N) None 0%N in
      match resolve_outputs h1 cur r with Ok (h2, l) => Ok (h2, v :: l) | Raise e => Raise e end
    else match lookup k cur with
         | None => Raise AssertionError
         | Some v => match resolve_outputs h cur r with Ok (h2, l) => Ok (h2, v :: l) | Raise e => Raise e end
         end
  end.

Fixpoint graph_outputs (h : heap) (tbl : table) (outs : list vinfo) : res (heap * list nat) :=
  match outs with
  | [] => Ok (h, [])
  | i :: r =>
    let '(h1, v) := match lookup (vi_name i) tbl with
                    | Some v => (h, v)
                    | None => alloc_value h (Some (vi_name i)) None 0%N
                    end in
    match apply_info h1 i v with
    | Raise e => Raise e
    | Ok h2 => match graph_outputs h2 tbl r with Ok (h3, l) => Ok (h3, v :: l) | Raise e => Raise e end
    end
  end.

(* names of the attributes of a list (a repeated attribute name: only the LAST attribute is deserialized) *)
Definition aproto_name (a : aproto) : N :=
  match a with APlain k _ _ _ => k | AGraph k _ => k | AGraphs k _ => k end.
Fixpoint aproto_names (al : aprotos) : list N :=
  match al with ANil => [] | ACons a r => aproto_name a :: aproto_names r end.

(* The recursion is structural on the proto: this is the termination argument of C17.
   `sc` = enclosing scopes (innermost first), `cur` = table of the scope being built. *)
Fixpoint deser_graph (gp : gproto) (sc : list table) (h : heap) {struct gp} : res (heap * nat) :=
  match gp with
  | Gp gname gtok ins outs inits vis nodes =>
    let '(h1, invs) := alloc_inputs h ins in
    match apply_infos h1 ins invs with
    | Raise e => Raise e
    | Ok h2 =>
      let tbl0 := table_of [] ins invs in
      match alloc_tensors h2 inits with
      | Raise e => Raise e
      | Ok (h3, cs) =>
        match deser_inits h3 tbl0 vis inits cs with
        | Raise e => Raise e
        | Ok (h4, tbl1, initvs) =>
          match declare_nodes h4 tbl1 vis nodes with
          | Raise e => Raise e
          | Ok (h5, tbl2) =>
            match deser_nodes nodes tbl2 sc vis h5 with
            | Raise e => Raise e
            | Ok (h6, tbl3, nids) =>
              match graph_outputs h6 tbl3 outs with
              | Raise e => Raise e
              | Ok (h7, outvs) => new_graph h7 gname gtok invs outvs initvs nids
              end
            end
          end
        end
      end
    end
  end
with deser_nodes (ns : nprotos) (cur : table) (sc : list table) (vis : list vinfo) (h : heap) {struct ns}
  : res (heap * table * list nat) :=
  match ns with
  | NNil => Ok (h, cur, [])
  | NCons n r =>
    match deser_node n cur sc vis h with
    | Raise e => Raise e
    | Ok (h1, c1, nid) =>
      match deser_nodes r c1 sc vis h1 with
      | Raise e => Raise e
      | Ok (h2, c2, l) => Ok (h2, c2, nid :: l)
      end
    end
  end
with deser_node (n : nproto) (cur : table) (sc : list table) (vis : list vinfo) (h : heap) {struct n}
  : res (heap * table * nat) :=
  match n with
  | Np nname op ntok ins outs attrs =>
    match resolve_inputs h cur sc vis ins with
    | Raise e => Raise e
    | Ok (h1, c1, invs) =>
      match resolve_outputs h1 c1 outs with
      | Raise e => Raise e
      | Ok (h2, outvs) =>
        match deser_attrs attrs (c1 :: sc) h2 with
        | Raise e => Raise e
        | Ok (h3, al) =>
          match new_node h3 (Some nname) op ntok invs outvs al with
          | Raise e => Raise e
          | Ok (h4, nid) => Ok (h4, c1, nid)
          end
        end
      end
    end
  end
with deser_attrs (al : aprotos) (scs : list table) (h : heap) {struct al} : res (heap * list (name * attr)) :=
  match al with
  | ANil => Ok (h, [])
  | ACons a r =>
    if existsb (N.eqb (aproto_name a)) (aproto_names r) then deser_attrs r scs h   (* a later attribute repeats the name *)
    else
    match deser_attr a scs h with
    | Raise e => Raise e
    | Ok (h1, x) =>
      match deser_attrs r scs h1 with
      | Raise e => Raise e
      | Ok (h2, l) => Ok (h2, x :: l)
      end
    end
  end
with deser_attr (a : aproto) (scs : list table) (h : heap) {struct a} : res (heap * (name * attr)) :=
  match a with
  | APlain k tok bad sbad => if bad then Raise ValueError else Ok (h, (k, AtPlain tok sbad))
  | AGraph k g =>
    match deser_graph g scs h with
    | Raise e => Raise e
    | Ok (h1, gid) => Ok (h1, (k, AtGraph gid))
    end
  | AGraphs k gs =>
    match deser_graphs gs scs h with
    | Raise e => Raise e
    | Ok (h1, l) => Ok (h1, (k, AtGraphs l))
    end
  end
with deser_graphs (gs : gprotos) (scs : list table) (h : heap) {struct gs} : res (heap * list nat) :=
  match gs with
  | GNil => Ok (h, [])
  | GCons g r =>
    match deser_graph g scs h with
    | Raise e => Raise e
    | Ok (h1, gid) =>
      match deser_graphs r scs h1 with
      | Raise e => Raise e
      | Ok (h2, l) => Ok (h2, gid :: l)
      end
    end
  end.

(* deserialize_function: inputs by name, declare, nodes, outputs = [values[name] ...] (KeyError) *)
Fixpoint alloc_named (h : heap) (ks : list name) : heap * list nat :=
  match ks with
  | [] => (h, [])
  | k :: r => let '(h1, v) := alloc_value h (Some k) None 0%N in
              let '(h2, vs) := alloc_named h1 r in (h2, v :: vs)
  end.
Fixpoint table_of_names (t : table) (ks : list name) (vs : list nat) : table :=
  match ks, vs with
  | k :: r, v :: vr => table_of_names ((k, v) :: t) r vr
  | _, _ => t
  end.
Fixpoint lookup_all (t : table) (ks : list name) : res (list nat) :=
  match ks with
  | [] => Ok []
  | k :: r => match lookup k t with
              | None => Raise KeyError
              | Some v => match lookup_all t r with Ok l => Ok (v :: l) | Raise e => Raise e end
              end
  end.
(* for input_value in inputs: if input_value.name in value_info: deserialize_value_info_proto(...) *)
Fixpoint apply_infos_named (h : heap) (vis : list vinfo) (ks : list name) (vs : list nat) : res heap :=
  match ks, vs with
  | k :: r, v :: vr => match apply_info_opt h k vis v with
                       | Ok h1 => apply_infos_named h1 vis r vr
                       | Raise e => Raise e
                       end
  | _, _ => Ok h
  end.
Definition deser_function (f : fproto) (h : heap) : res (heap * func) :=
  let '(h0, invs) := alloc_named h (fp_ins f) in
  let tbl0 := table_of_names [] (fp_ins f) invs in
  match apply_infos_named h0 (fp_vis f) (fp_ins f) invs with
  | Raise e => Raise e
  | Ok h1 =>
  match declare_nodes h1 tbl0 (fp_vis f) (fp_nodes f) with
  | Raise e => Raise e
  | Ok (h2, tbl1) =>
    match deser_nodes (fp_nodes f) tbl1 [] (fp_vis f) h2 with
    | Raise e => Raise e
    | Ok (h3, tbl2, nids) =>
      match lookup_all tbl2 (fp_outs f) with
      | Raise e => Raise e
      | Ok outvs =>
        match new_graph h3 0%N 0%N invs outvs [] nids with
        | Raise e => Raise e
        | Ok (h4, gid) => if fp_bad f then Raise ValueError else Ok (h4, mkF (fp_id f) (fp_tok f) gid)
        end
      end
    end
  end
  end.
Fixpoint deser_functions (fs : list fproto) (h : heap) : res (heap * list func) :=
  match fs with
  | [] => Ok (h, [])
  | f :: r =>
    match deser_function f h with
    | Raise e => Raise e
    | Ok (h1, x) =>
      match deser_functions r h1 with Ok (h2, l) => Ok (h2, x :: l) | Raise e => Raise e end
    end
  end.
(* Model(functions=[...]) keeps a dict keyed by identifier: a later function of the same id replaces *)
Fixpoint funcs_dict (acc : list func) (l : list func) : list func :=
  match l with
  | [] => acc
  | f :: r =>
    funcs_dict ((fix put (a : list func) : list func :=
                   match a with
                   | [] => [f]
                   | x :: t => if N.eqb (f_id x) (f_id f) then f :: t else x :: put t
                   end) acc) r
  end.
Definition deser_model (p : mproto) : res (heap * model) :=
  match deser_graph (mp_graph p) [] empty_heap with
  | Raise e => Raise e
  | Ok (h1, gid) =>
    match deser_functions (mp_funcs p) h1 with
    | Raise e => Raise e
    | Ok (h2, fs) => Ok (h2, mkM (mp_tok p) gid (funcs_dict [] fs))
    end
  end.

(* ------------------------------------------------------------------ serialization *)
(* The serializer reads the heap; its only write is `value.const_value.name = value.name` for the
   initializers it emits, so it is modelled as heap -> res (heap * proto).  The IR object graph could be
   cyclic (a graph attribute containing its own graph): Python then dies with RecursionError; the model
   uses fuel = number of graphs + 1, enough for every acyclic nesting, and raises when it runs out. *)

Definition falsy (k : option name) : bool := match k with None => true | Some k => N.eqb k 0 end.
Definition should_vi (x : value) : bool := negb (N.eqb (v_info x) 0) && negb (falsy (v_name x)).

Section Ser.
(* leaf level: the payload a value's type/shape/doc/metadata has after serialize_value_into and back
   (e.g. a shape without a type is not written).  Supplied per case by the harness; identity when absent. *)
Variable np : list (N * N).
Definition norm_pay (p : payload) : payload := match lookup p np with Some q => q | None => p end.

(* serialize_value_into: value_info_proto.name = from_.name  (None -> TypeError) *)
Definition ser_value (h : heap) (v : nat) : res vinfo :=
  match getv h v with
  | None => Raise AssertionError
  | Some x => match v_name x with None => Raise TypeError | Some k => Ok (mkVI k (norm_pay (v_info x)) false) end
  end.
Fixpoint ser_values (h : heap) (vs : list nat) : res (list vinfo) :=
  match vs with
  | [] => Ok []
  | v :: r => match ser_value h v with
              | Raise e => Raise e
              | Ok i => match ser_values h r with Ok l => Ok (i :: l) | Raise e => Raise e end
              end
  end.
Fixpoint ser_node_inputs (h : heap) (ins : list (option nat)) : res (list name) :=
  match ins with
  | [] => Ok []
  | None :: r => match ser_node_inputs h r with Ok l => Ok (0%N :: l) | Raise e => Raise e end
  | Some v :: r =>
    match getv h v with
    | None => Raise AssertionError
    | Some x => match v_name x with
                | None => Raise TypeError
                | Some k => match ser_node_inputs h r with Ok l => Ok (k :: l) | Raise e => Raise e end
                end
    end
  end.
(* _remove_trailing_outputs, then node_proto.output.append(output.name) *)
Fixpoint trim_outputs (h : heap) (outs : list nat) : list nat :=
  match outs with
  | [] => []
  | v :: r => match trim_outputs h r with
              | [] => match getv h v with
                      | Some x => if falsy (v_name x) then [] else [v]
                      | None => [v]
                      end
              | l => v :: l
              end
  end.
Fixpoint ser_node_outputs (h : heap) (outs : list nat) : res (list name) :=
  match outs with
  | [] => Ok []
  | v :: r =>
    match getv h v with
    | None => Raise AssertionError
    | Some x => match v_name x with
                | None => Raise TypeError
                | Some k => match ser_node_outputs h r with Ok l => Ok (k :: l) | Raise e => Raise e end
                end
    end
  end.
(* value_info entries for the outputs of one node inside a graph *)
Fixpoint out_vis (h : heap) (outs : list nat) : list vinfo :=
  match outs with
  | [] => []
  | v :: r => match getv h v with
              | Some x => if negb (v_out x) && should_vi x
                          then mkVI (match v_name x with Some k => k | None => 0%N end) (norm_pay (v_info x)) false :: out_vis h r
                          else out_vis h r
              | None => out_vis h r
              end
  end.
Fixpoint fn_out_vis (h : heap) (outs : list nat) : list vinfo :=
  match outs with
  | [] => []
  | v :: r => match getv h v with
              | Some x => if should_vi x
                          then mkVI (match v_name x with Some k => k | None => 0%N end) (norm_pay (v_info x)) false :: fn_out_vis h r
                          else fn_out_vis h r
              | None => fn_out_vis h r
              end
  end.
Definition set_tname (h : heap) (c : nat) (k : option name) : heap :=
  mkH (hv h) (hn h) (hg h) (upd (ht h) c (fun t => mkT k (t_tok t) (t_pay t) (t_bad_info t) (t_fill t))).
(* initializers: value_info (unless also an input), skip if no const_value, rename tensor, emit *)
Fixpoint ser_inits (h : heap) (in_names : list (option name)) (l : list (name * nat))
  : res (heap * list tproto * list vinfo) :=
  match l with
  | [] => Ok (h, [], [])
  | (_, v) :: r =>
    match getv h v with
    | None => Raise AssertionError
    | Some x =>
      let vi := if should_vi x && negb (existsb (fun k => option_eqb N.eqb k (v_name x)) in_names)
                then [mkVI (match v_name x with Some k => k | None => 0%N end) (norm_pay (v_info x)) false] else [] in
      match v_const x with
      | None => match ser_inits h in_names r with
                | Ok (h1, ts, vs) => Ok (h1, ts, vi ++ vs) | Raise e => Raise e end
      | Some c =>
        match gett h c with
        | None => Raise AssertionError
        | Some t =>
          let h1 := set_tname h c (v_name x) in
          let tp := mkTP (match v_name x with Some k => k | None => 0%N end) (t_tok t) (t_pay t) false (t_bad_info t) (t_fill t) in
          match ser_inits h1 in_names r with
          | Ok (h2, ts, vs) => Ok (h2, tp :: ts, vi ++ vs) | Raise e => Raise e end
        end
      end
    end
  end.

Fixpoint gs_of_list (l : list gproto) : gprotos := match l with [] => GNil | g :: r => GCons g (gs_of_list r) end.

Section SerBody.
  (* serializer of nested graphs (one level less fuel) *)
  Variable rec : heap -> nat -> res (heap * gproto).

  Fixpoint ser_gs (h : heap) (l : list nat) : res (heap * list gproto) :=
    match l with
    | [] => Ok (h, [])
    | sg :: t =>
      match rec h sg with
      | Raise e => Raise e
      | Ok (h1, gp) => match ser_gs h1 t with Ok (h2, l) => Ok (h2, gp :: l) | Raise e => Raise e end
      end
    end.
  Fixpoint ser_attrs (h : heap) (al : list (name * attr)) : res (heap * aprotos) :=
    match al with
    | [] => Ok (h, ANil)
    | (k, AtPlain tok sbad) :: t =>
      if sbad then Raise TypeError else
      match ser_attrs h t with Ok (h1, l) => Ok (h1, ACons (APlain k tok false false) l) | Raise e => Raise e end
    | (k, AtGraph sg) :: t =>
      match rec h sg with
      | Raise e => Raise e
      | Ok (h1, gp) =>
        match ser_attrs h1 t with Ok (h2, l) => Ok (h2, ACons (AGraph k gp) l) | Raise e => Raise e end
      end
    | (k, AtGraphs sgs) :: t =>
      match ser_gs h sgs with
      | Raise e => Raise e
      | Ok (h1, gl) =>
        match ser_attrs h1 t with Ok (h2, l) => Ok (h2, ACons (AGraphs k (gs_of_list gl)) l) | Raise e => Raise e end
      end
    end.
  (* serialize_node_into *)
  Definition ser_node (h : heap) (n : nat) : res (heap * nproto) :=
    match getn h n with
    | None => Raise AssertionError
    | Some y =>
      match ser_node_inputs h (n_inputs y) with
      | Raise e => Raise e
      | Ok ins =>
        match ser_node_outputs h (trim_outputs h (n_outputs y)) with
        | Raise e => Raise e
        | Ok outs =>
          match ser_attrs h (n_attrs y) with
          | Raise e => Raise e
          | Ok (h1, al) =>
            Ok (h1, Np (match n_name y with Some k => k | None => 0%N end) (n_op y) (n_tok y) ins outs al)
          end
        end
      end
    end.
  (* nodes of a graph (infn = false) or of a function (infn = true), with the value_info of their outputs *)
  Fixpoint ser_nodes (infn : bool) (h : heap) (ns : list nat) : res (heap * nprotos * list vinfo) :=
    match ns with
    | [] => Ok (h, NNil, [])
    | n :: r =>
      match ser_node h n with
      | Raise e => Raise e
      | Ok (h1, np) =>
        let outs := match getn h1 n with Some y => n_outputs y | None => [] end in
        let ovis := if infn then fn_out_vis h1 outs else out_vis h1 outs in
        match ser_nodes infn h1 r with
        | Ok (h2, l, vs) => Ok (h2, NCons np l, ovis ++ vs)
        | Raise e => Raise e
        end
      end
    end.
  (* serialize_graph_into *)
  Definition ser_graph_body (h : heap) (g : nat) : res (heap * gproto) :=
    match getg h g with
    | None => Raise AssertionError
    | Some z =>
      match ser_values h (g_inputs z) with
      | Raise e => Raise e
      | Ok ins =>
        let in_names := map (fun v => match getv h v with Some x => v_name x | None => None end) (g_inputs z) in
        match ser_inits h in_names (g_inits z) with
        | Raise e => Raise e
        | Ok (h1, ts, ivis) =>
          match ser_nodes false h1 (g_nodes z) with
          | Raise e => Raise e
          | Ok (h2, nps, nvis) =>
            match ser_values h2 (g_outputs z) with
            | Raise e => Raise e
            | Ok outs => Ok (h2, Gp (g_name z) (g_tok z) ins outs ts (ivis ++ nvis) nps)
            end
          end
        end
      end
    end.
End SerBody.

Fixpoint ser_graph (fuel : nat) (h : heap) (g : nat) {struct fuel} : res (heap * gproto) :=
  match fuel with
  | O => Raise RuntimeError
  | S f => ser_graph_body (ser_graph f) h g
  end.

Definition ser_fuel (h : heap) : nat := S (length (hg h)).

(* serialize_function_into (create_value_info = True, i.e. IR version >= 10) *)
Fixpoint ser_names (h : heap) (vs : list nat) : res (list name) :=
  match vs with
  | [] => Ok []
  | v :: r =>
    match getv h v with
    | None => Raise AssertionError
    | Some x => match v_name x with
                | None => Raise TypeError
                | Some k => match ser_names h r with Ok l => Ok (k :: l) | Raise e => Raise e end
                end
    end
  end.
Definition ser_function (h : heap) (f : func) : res (heap * fproto) :=
  match getg h (f_graph f) with
  | None => Raise AssertionError
  | Some z =>
    match ser_names h (g_inputs z) with
    | Raise e => Raise e
    | Ok ins =>
      match ser_names h (g_outputs z) with
      | Raise e => Raise e
      | Ok outs =>
        match ser_nodes (ser_graph (ser_fuel h)) true h (g_nodes z) with
        | Raise e => Raise e
        | Ok (h1, nps, nvis) =>
          Ok (h1, mkFP (f_id f) (f_tok f) ins outs (fn_out_vis h (g_inputs z) ++ nvis) nps false)
        end
      end
    end
  end.
Fixpoint ser_functions (h : heap) (fs : list func) : res (heap * list fproto) :=
  match fs with
  | [] => Ok (h, [])
  | f :: r =>
    match ser_function h f with
    | Raise e => Raise e
    | Ok (h1, fp) => match ser_functions h1 r with Ok (h2, l) => Ok (h2, fp :: l) | Raise e => Raise e end
    end
  end.
Definition ser_model (h : heap) (m : model) : res (heap * mproto) :=
  match ser_graph (ser_fuel h) h (m_graph m) with
  | Raise e => Raise e
  | Ok (h1, gp) =>
    match ser_functions h1 (m_funcs m) with
    | Raise e => Raise e
    | Ok (h2, fps) => Ok (h2, mkMP (m_tok m) gp fps)
    end
  end.
End Ser.

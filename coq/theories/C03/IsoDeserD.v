(* C03/IsoDeserD.v — node-level step relation, the pre-realisation of nodes (final once the enclosing
   graph is complete), well-formedness extraction lemmas. *)
From Coq Require Import NArith List Bool Arith Lia.
From IRV Require Import Base.Exn C03.Model C03.Canon C03.Inv C03.Tree C03.IsoSpecs C17.Basics C17.Specs C17.Steps C17.Phases C17.OpNode C17.OpGraph C17.Deser C03.IsoDeserA C03.IsoDeserB C03.IsoDeserC.
Import ListNotations.

(* ------------------------------------------------------------------ enclosing scopes *)
Definition SC (h : heap) (sc : list table) : Prop :=
  forall t k v, In t sc -> In (k, v) t -> exists x, getv h v = Some x /\ v_name x = Some k.

Lemma SC_ext h h' sc : ext h h' -> SC h sc -> SC h' sc.
Proof.
  intros E H t k v Ht Hin. destruct (H t k v Ht Hin) as (x & Hx & Hn).
  destruct (getv_ext _ _ _ _ E Hx) as (x' & Hx' & En). exists x'. split; auto. congruence.
Qed.

(* table facts without the producer *)
Definition tq (b : nat) (I : N -> N -> Prop) (h : heap) (k : N) (v : nat) : Prop :=
  b <= v /\ exists x, getv h v = Some x /\ v_name x = Some k /\ v_owner x = None /\
                      v_in x = false /\ v_out x = false /\ v_init x = false /\ I k (v_info x).
Definition TQ (b : nat) (I : N -> N -> Prop) (h : heap) (t : table) : Prop :=
  forall k v, In (k, v) t -> tq b I h k v.

Lemma TB_TQ b I h t : TB b I h t -> TQ b I h t.
Proof.
  intros H k v Hin. destruct (H k v Hin) as (Hb & x & Hx & A1 & A2 & A3 & A4 & A5 & A6 & A7).
  split; auto. exists x. csplit; auto.
Qed.
Lemma TQ_SC b I h t sc : TQ b I h t -> SC h sc -> SC h (t :: sc).
Proof.
  intros HT HS t' k v [<-|Ht] Hin; [|eauto]. destruct (HT k v Hin) as (_ & x & Hx & Hn & _). eauto.
Qed.
Lemma TQ_lt b I h t k v : TQ b I h t -> In (k, v) t -> b <= v < nv h.
Proof. intros H Hin. destruct (H _ _ Hin) as (Hb & x & Hx & _). split; auto. eapply getv_lt; eauto. Qed.
Lemma TQ_inj b I h t k k' v : TQ b I h t -> In (k, v) t -> In (k', v) t -> k = k'.
Proof.
  intros H H1 H2. destruct (H _ _ H1) as (_ & x & Hx & Hn & _). destruct (H _ _ H2) as (_ & x' & Hx' & Hn' & _).
  congruence.
Qed.

(* ------------------------------------------------------------------ node-level steps *)
Definition nstep (names : list N) (tbl : table) (h h' : heap) : Prop :=
  ext h h' /\
  (forall v x, getv h v = Some x -> exists x', getv h' v = Some x' /\ vmid x' = vmid x /\
       (v_prod x' = v_prod x \/ exists k, In k names /\ In (k, v) tbl)) /\
  (forall n y, getn h n = Some y -> getn h' n = Some y).

Lemma nstep_refl names tbl h : nstep names tbl h h.
Proof. split; [apply ext_refl|]. split; eauto. Qed.
Lemma nstep_trans names tbl h1 h2 h3 : nstep names tbl h1 h2 -> nstep names tbl h2 h3 -> nstep names tbl h1 h3.
Proof.
  intros (A & A' & A'') (B & B' & B''). split; [eapply ext_trans; eauto|]. split; auto.
  intros v x H. destruct (A' _ _ H) as (x' & H' & E & P). destruct (B' _ _ H') as (x'' & H'' & E' & P').
  exists x''. split; auto. split; [congruence|]. destruct P as [P|P]; auto. destruct P' as [P'|P']; auto.
  left; congruence.
Qed.
Lemma nstep_mono names names' tbl h h' :
  (forall k, In k names -> In k names') -> nstep names tbl h h' -> nstep names' tbl h h'.
Proof.
  intros Hs (A & A' & A''). split; auto. split; auto. intros v x H. destruct (A' _ _ H) as (x' & H' & E & P).
  exists x'. split; auto. split; auto. destruct P as [P|(k & Hk & Hin)]; auto. right. exists k; auto.
Qed.
Lemma vfix_vmid x x' : vfix x' = vfix x -> vmid x' = vmid x /\ v_prod x' = v_prod x.
Proof. intros H. apply vfix_inv in H. destruct H as (A1 & A2 & A3 & A4 & A5 & A6 & A7 & A8). unfold vmid. split; congruence. Qed.
Lemma nested_nstep names tbl h h' : nested h h' -> nstep names tbl h h'.
Proof.
  intros (A & B & C). split; auto. split; auto. intros v x H. destruct (B _ _ H) as (x' & H' & E).
  apply vfix_vmid in E. destruct E. exists x'. auto.
Qed.
Lemma nstep_keeps lo names tbl h h' : nstep names tbl h h' -> keeps lo h h'.
Proof.
  intros (A & B & C). split; auto. intros v x _ H. destruct (B _ _ H) as (x' & H' & E & _). exists x'. split; auto.
  apply vmid_vview; auto.
Qed.
Lemma TQ_nstep b I names tbl h h' t : nstep names tbl h h' -> TQ b I h t -> TQ b I h' t.
Proof.
  intros (_ & B & _) H k v Hin. destruct (H k v Hin) as (Hb & x & Hx & A1 & A2 & A3 & A4 & A5 & A6).
  destruct (B _ _ Hx) as (x' & Hx' & E & _). apply vmid_inv in E. destruct E as (E1 & E2 & E3 & E4 & E5 & E6 & E7).
  split; auto. exists x'. rewrite E1, E2, E3, E4, E5, E7. csplit; auto.
Qed.

(* ------------------------------------------------------------------ pre-realisation of nodes *)
Definition empty_vd : vdesc := mkVD 0 true 0 false.
Definition out_rel (lo : nat) (h : heap) (tbl : table) (v : nat) (d : vdesc) : Prop :=
  if N.eqb (vd_name d) 0 then lo <= v < nv h /\ vdesc_of [] h v = d /\ d = empty_vd
  else In (vd_name d, v) tbl.

Definition pre_n (lo : nat) (h : heap) (chain : list (list nat)) (tbl : table) (n : nat) (t : ntree) : Prop :=
  match t with
  | NBad => False
  | NT nname op ntok ins outs attrs =>
    exists y, getn h n = Some y /\ n_name y = Some nname /\ n_op y = op /\ n_tok y = ntok /\ n_graph y = None /\
      map (in_desc h chain) (n_inputs y) = ins /\
      Forall2 (out_rel lo h tbl) (n_outputs y) outs /\
      (forall v, In (Some v) (n_inputs y) -> v < nv h) /\
      real_as lo h chain (n_attrs y) attrs
  end.
Fixpoint pre_ns (lo : nat) (h : heap) (chain : list (list nat)) (tbl : table) (ns : list nat) (Ts : ntrees) {struct Ts} : Prop :=
  match Ts with
  | TNil => ns = []
  | TCons t r => match ns with [] => False | n :: ns' => pre_n lo h chain tbl n t /\ pre_ns lo h chain tbl ns' r end
  end.

Lemma out_rel_keeps lo h h' tbl v d : keeps lo h h' -> out_rel lo h tbl v d -> out_rel lo h' tbl v d.
Proof.
  intros K. unfold out_rel. destruct (N.eqb (vd_name d) 0); auto. intros (A & B & C).
  assert (nv h <= nv h') by (destruct K as (E & _); destruct E as (E & _); auto). csplit; auto; [lia|].
  rewrite (vdesc_keep lo h h' v K); auto.
Qed.

Lemma pre_n_nstep lo names tbl h h' chain n t : nstep names tbl h h' -> pre_n lo h chain tbl n t -> pre_n lo h' chain tbl n t.
Proof.
  intros S H. destruct t as [|nname op ntok ins outs attrs]; simpl in *; auto.
  destruct H as (y & Hy & H1 & H2 & H3 & H4 & H5 & H6 & H7 & H8).
  pose proof (nstep_keeps lo _ _ _ _ S) as K. pose proof S as (E & _ & C).
  assert (Hnv : nv h <= nv h') by (destruct E; auto).
  exists y. csplit; auto.
  - rewrite <- H5. apply map_ext_in. intros [v|] Hin; simpl; auto.
    destruct (vname_ext h h' v E (H7 _ Hin)) as (A & B & _). rewrite A, B. auto.
  - eapply Forall2_impl; [|exact H6]. intros v d. apply out_rel_keeps; auto.
  - intros v Hv. specialize (H7 _ Hv). lia.
  - destruct real_stable as (_ & _ & _ & Sa & _). eapply Sa; eauto.
Qed.
Lemma pre_ns_nstep lo names tbl h h' chain : nstep names tbl h h' ->
  forall Ts ns, pre_ns lo h chain tbl ns Ts -> pre_ns lo h' chain tbl ns Ts.
Proof.
  intros S. induction Ts as [|t r IH]; intros ns H; [exact H|].
  destruct ns as [|n ns']; [exact H|]. destruct H as (H1 & H2). split; [eapply pre_n_nstep; eauto | apply IH; auto].
Qed.

(* ---- trimming *)
Lemma trim_last h v : (exists x, getv h v = Some x /\ falsy (v_name x) = false) ->
  forall l, trim_outputs h (l ++ [v]) = l ++ [v].
Proof.
  intros (x & Hx & Hf). induction l as [|a l IH]; simpl.
  - rewrite Hx, Hf. auto.
  - rewrite IH. destruct (l ++ [v]) eqn:E; auto. destruct l; discriminate.
Qed.

Lemma Forall2_map_eq {A B} (f : A -> B) l1 l2 : Forall2 (fun a b => f a = b) l1 l2 -> map f l1 = l2.
Proof. induction 1; simpl; congruence. Qed.
Lemma Forall2_in_r {A B} (P : A -> B -> Prop) l1 l2 b : Forall2 P l1 l2 -> In b l2 -> exists a, In a l1 /\ P a b.
Proof.
  induction 1 as [|x y l l' Hxy F IH]; intros Hin; [destruct Hin|]. destruct Hin as [<-|Hin].
  - exists x. split; auto. left; auto.
  - destruct (IH Hin) as (a & Ha & Hp). exists a. split; auto. right; auto.
Qed.
Lemma Forall2_in_l {A B} (P : A -> B -> Prop) l1 l2 a : Forall2 P l1 l2 -> In a l1 -> exists b, In b l2 /\ P a b.
Proof.
  induction 1 as [|x y l l' Hxy F IH]; intros Hin; [destruct Hin|]. destruct Hin as [<-|Hin].
  - exists y. split; auto. left; auto.
  - destruct (IH Hin) as (b & Hb & Hp). exists b. split; auto. right; auto.
Qed.

(* from the pre-realisation to the realisation, once the values of the table are final *)
Lemma pre_real_n b lo h h' chain tbl n t :
  b <= lo -> keeps lo h h' -> pre_n lo h chain tbl n t ->
  (forall k v, In (k, v) tbl -> k <> 0%N -> b <= v < nv h' /\ exists x, getv h' v = Some x /\ v_name x = Some k) ->
  (match t with
   | NBad => True
   | NT _ _ _ _ outs _ => no_trailing_empty outs = true /\
       forall d v, In d outs -> vd_name d <> 0%N -> In (vd_name d, v) tbl -> vdesc_of [] h' v = d
   end) ->
  real_n b h' chain n t.
Proof.
  intros Hb K H HT Hd. destruct t as [|nname op ntok ins outs attrs]; simpl in *; auto.
  destruct H as (y & Hy & H1 & H2 & H3 & H4 & H5 & H6 & H7 & H8). destruct Hd as (Hnt & Hd).
  pose proof K as (E & K').
  assert (Hnv : nv h <= nv h') by (destruct E; auto).
  pose proof E as (_ & _ & _ & _ & E5 & _). destruct (E5 _ _ Hy) as (y' & Hy' & Ef).
  apply nfix_inv in Ef. destruct Ef as (F1 & F2 & F3 & F4 & F5 & F6).
  assert (O' : Forall2 (out_rel lo h' tbl) (n_outputs y) outs).
  { eapply Forall2_impl; [|exact H6]. intros v d. apply out_rel_keeps; auto. }
  assert (Ob : forall v, In v (n_outputs y) -> b <= v < nv h').
  { intros v Hv. destruct (Forall2_in_l _ _ _ _ O' Hv) as (d & Hdin & Hr). unfold out_rel in Hr.
    destruct (N.eqb_spec (vd_name d) 0) as [Hz|Hz].
    - destruct Hr as (A & _). lia.
    - destruct (HT _ _ Hr Hz) as (A & _). auto. }
  assert (Od : Forall2 (fun v d => vdesc_of [] h' v = d) (n_outputs y) outs).
  { eapply Forall2_impl_In; [|exact O']. intros v d Hv Hdin Hr. unfold out_rel in Hr.
    destruct (N.eqb_spec (vd_name d) 0) as [Hz|Hz].
    - destruct Hr as (_ & A & _). auto.
    - apply Hd; auto. }
  assert (Tr : trim_outputs h' (n_outputs y) = n_outputs y).
  { unfold no_trailing_empty in Hnt. destruct (rev outs) as [|d ro] eqn:Er.
    - assert (outs = []) by (rewrite <- (rev_involutive outs), Er; auto). subst outs.
      inversion O'. reflexivity.
    - assert (Eo : outs = rev ro ++ [d]) by (rewrite <- (rev_involutive outs), Er; auto).
      rewrite Eo in O'. apply Forall2_app_inv_r in O'. destruct O' as (l1 & l2 & _ & F2' & El).
      inversion F2' as [|v ? ? l2' Hvd F2'']; subst. inversion F2''; subst. rewrite El.
      apply trim_last. unfold out_rel in Hvd. apply negb_true_iff in Hnt.
      rewrite Hnt in Hvd. destruct (N.eqb_spec (vd_name d) 0) as [|Hz]; [discriminate|].
      destruct (HT _ _ Hvd Hz) as (_ & x & Hx & Hn). exists x. split; auto. rewrite Hn. simpl.
      destruct (N.eqb_spec (vd_name d) 0); congruence. }
  exists y'. rewrite F1, F2, F3, F4, F5, F6, H1. csplit; auto.
  - rewrite <- H5. apply map_ext_in. intros [v|] Hin; simpl; auto.
    destruct (vname_ext h h' v E (H7 _ Hin)) as (A & B & _). rewrite A, B. auto.
  - rewrite Tr. apply Forall2_map_eq; auto.
  - intros v Hv. specialize (H7 _ Hv). lia.
  - destruct real_stable as (_ & _ & _ & Sa & _). destruct real_mono as (_ & _ & _ & Ma & _).
    eapply Ma; [exact Hb|]. eapply Sa; eauto.
Qed.

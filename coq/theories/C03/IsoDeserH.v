(* C03/IsoDeserH.v — functions: phase lemmas for deserialize_function (inputs by name, lookup_all), the
   relational unfolding real_f of a function body, its stability and the bridge to unfold_function. *)
From Coq Require Import NArith List Bool Arith Lia.
From IRV Require Import Base.Exn C03.Model C03.Canon C03.Inv C03.Tree C03.TreeF C03.IsoSpecs C03.IsoSpecsF C17.Basics C17.Specs C17.Steps C17.Phases C17.OpNode C17.OpGraph C17.Deser C03.IsoDeserA C03.IsoDeserB C03.IsoDeserC C03.IsoDeserD C03.IsoDeserE C03.IsoDeserF C03.IsoDeserG.
Import ListNotations.

Arguments alloc_value : simpl never.
Arguments apply_info : simpl never.
Arguments apply_info_opt : simpl never.
Arguments lookup : simpl never.

(* ------------------------------------------------------------------ inputs by name *)
Lemma alloc_named_spec : forall ks h h1 invs, alloc_named h ks = (h1, invs) ->
  hn h1 = hn h /\ hg h1 = hg h /\ ht h1 = ht h /\ nv h1 = nv h + length ks /\
  (forall u, u < nv h -> getv h1 u = getv h u) /\
  Forall2 (fun k v => getv h1 v = Some (fresh_value (Some k) None 0%N)) ks invs /\
  invs = seq (nv h) (length ks).
Proof.
  induction ks as [|k r IH]; cbn; intros h h1 invs H.
  - inversion H; subst. csplit; auto; lia.
  - destruct (alloc_value h (Some k) None 0%N) as [h0 v] eqn:Ea. destruct (alloc_named h0 r) as [h2 vs] eqn:Er. inversion H; subst; clear H.
    destruct (alloc_spec _ _ _ _ _ _ Ea) as (Hv & Hnv & Hn & Hg & Ht & Hnew & Hold).
    destruct (IH _ _ _ Er) as (A1 & A2 & A3 & A4 & A5 & A6 & A7).
    csplit; try congruence.
    + lia.
    + intros u Hu. rewrite A5 by lia. auto.
    + constructor; auto. rewrite A5 by lia. auto.
Qed.

Lemma apply_infos_named_spec vis : forall ks vs h,
  length vs = length ks -> NoDup vs -> (forall v, In v vs -> v < nv h) ->
  (forall k i, In k ks -> vi_lookup k vis = Some i -> vi_bad i = false) ->
  exists h', apply_infos_named h vis ks vs = Ok h' /\ hn h' = hn h /\ hg h' = hg h /\ ht h' = ht h /\ nv h' = nv h /\
    (forall u, ~ In u vs -> getv h' u = getv h u) /\
    Forall2 (fun k v => getv h' v = match vi_lookup k vis with
                                   | Some i => option_map (with_info (vi_pay i)) (getv h v)
                                   | None => getv h v
                                   end) ks vs.
Proof.
  induction ks as [|k r IH]; intros [|v vs] h Hl Hnd Hlt Hb; simpl in Hl; try discriminate.
  - exists h. cbn. csplit; auto.
  - cbn [apply_infos_named]. inversion Hnd; subst.
    assert (G : exists h1, apply_info_opt h k vis v = Ok h1 /\ hn h1 = hn h /\ hg h1 = hg h /\ ht h1 = ht h /\ nv h1 = nv h /\
               (forall u, u <> v -> getv h1 u = getv h u) /\
               getv h1 v = match vi_lookup k vis with
                           | Some i => option_map (with_info (vi_pay i)) (getv h v) | None => getv h v end).
    { unfold apply_info_opt. destruct (vi_lookup k vis) as [i|] eqn:Ei.
      - unfold apply_info. rewrite (Hb k i (or_introl eq_refl) Ei). eexists. split; [reflexivity|]. csplit; auto.
        + apply updv_nv.
        + intros u Hu. apply updv_getv_neq; auto.
        + rewrite updv_getv, Nat.eqb_refl. auto.
      - exists h. csplit; auto. }
    destruct G as (h1 & E1 & B1 & B2 & B3 & B4 & B5 & B6). rewrite E1.
    destruct (IH vs h1) as (h' & E & A1 & A2 & A3 & A4 & A5 & A6); auto.
    { intros u Hu. rewrite B4. apply Hlt; right; auto. }
    { intros k' i Hk'. apply Hb; right; auto. }
    exists h'. rewrite E. csplit; try congruence.
    + intros u Hu. rewrite A5 by (intros Hin; apply Hu; right; auto). apply B5. intros ->. apply Hu; left; auto.
    + constructor.
      * rewrite A5 by auto. exact B6.
      * eapply Forall2_impl_In; [|exact A6]. intros k' u _ Hin Hu. cbn beta in Hu. rewrite Hu.
        rewrite B5; auto. intros ->. auto.
Qed.

Lemma table_of_names_spec : forall ks vs t, length vs = length ks ->
  nms (table_of_names t ks vs) = nms t ++ ks /\
  (forall kv, In kv (table_of_names t ks vs) <-> In kv t \/ In kv (combine ks vs)).
Proof.
  induction ks as [|k r IH]; intros [|v vs] t Hl; simpl in Hl; try discriminate; simpl.
  - rewrite app_nil_r. split; auto. intros kv; tauto.
  - destruct (IH vs ((k, v) :: t)) as (A & B); [lia|]. rewrite A, nms_cons, <- app_assoc. split; auto.
    intros kv. rewrite B. simpl. tauto.
Qed.

Lemma Forall2_combine_inv' {A B} (P : A -> B -> Prop) l1 l2 k v :
  Forall2 P l1 l2 -> In (k, v) (combine l1 l2) -> In k l1 /\ In v l2 /\ P k v.
Proof.
  induction 1 as [|x y l l' Hxy F IH]; simpl; intros H0; [contradiction|]. destruct H0 as [H0|H0].
  - inversion H0; subst. auto.
  - destruct (IH H0) as (A1 & A2 & A3). auto.
Qed.
Lemma Forall2_combine_in' {A B} (P : A -> B -> Prop) l1 l2 :
  Forall2 P l1 l2 -> Forall2 (fun a v => In (a, v) (combine l1 l2)) l1 l2.
Proof.
  induction 1 as [|x y l l' Hxy F IH]; simpl; constructor; auto.
  eapply Forall2_impl; [|exact IH]. intros a b Hab; right; auto.
Qed.

Lemma phase1n b (I : N -> N -> Prop) vis (ks : list name) h :
  b = nv h ->
  (forall k, In k ks -> match vi_lookup k vis with Some i => vi_bad i = false /\ I k (vi_pay i) | None => I k 0%N end) ->
  exists h0 invs h1, alloc_named h ks = (h0, invs) /\ apply_infos_named h0 vis ks invs = Ok h1 /\
    hn h1 = hn h /\ hg h1 = hg h /\ ht h1 = ht h /\ nv h <= nv h1 /\
    (forall u, u < nv h -> getv h1 u = getv h u) /\
    TB b I h1 (table_of_names [] ks invs) /\
    nms (table_of_names [] ks invs) = ks /\
    Forall2 (fun k v => In (k, v) (table_of_names [] ks invs)) ks invs.
Proof.
  intros Hb Hv. destruct (alloc_named h ks) as [h0 invs] eqn:E1.
  destruct (alloc_named_spec _ _ _ _ E1) as (A1 & A2 & A3 & A4 & A5 & A6 & A7).
  assert (Hlen : length invs = length ks) by (rewrite A7; apply seq_length).
  assert (Hnd : NoDup invs) by (rewrite A7; apply seq_NoDup).
  assert (Hlt : forall v, In v invs -> nv h <= v < nv h0).
  { intros v Hin. rewrite A7 in Hin. apply in_seq in Hin. lia. }
  destruct (apply_infos_named_spec vis ks invs h0) as (h1 & E2 & B1 & B2 & B3 & B4 & B5 & B6); auto.
  { intros v Hin. apply Hlt in Hin. lia. }
  { intros k i Hk Hi. specialize (Hv k Hk). rewrite Hi in Hv. destruct Hv; auto. }
  destruct (table_of_names_spec ks invs [] Hlen) as (T1 & T2).
  exists h0, invs, h1. csplit; auto; try congruence.
  - lia.
  - intros u Hu. rewrite B5, A5; auto. intros Hin. apply Hlt in Hin. lia.
  - intros k v Hin. apply T2 in Hin. destruct Hin as [[]|Hin].
    destruct (Forall2_combine_inv' _ _ _ _ _ (Forall2_and _ _ _ _ A6 B6) Hin) as (Hk & Hvin & G1 & G2).
    rewrite G1 in G2. specialize (Hv k Hk). apply Hlt in Hvin.
    destruct (vi_lookup k vis) as [i|]; simpl in G2.
    + eapply tent_fresh; [| exact G2 |]; [lia | destruct Hv; auto].
    + eapply tent_fresh; [| exact G2 |]; [lia | auto].
  - eapply Forall2_impl; [|apply (Forall2_combine_in' _ _ _ A6)]. intros k v Hin. apply T2. right; auto.
Qed.

Lemma lookup_all_spec (t : table) : forall ks, (forall k, In k ks -> lookup k t <> None) ->
  lookup_all t ks = Ok (map (look t) ks).
Proof.
  induction ks as [|k r IH]; intros H; cbn [lookup_all map]; auto.
  rewrite IH by (intros; apply H; right; auto). unfold look.
  destruct (lookup k t) eqn:E; auto. exfalso. apply (H k); auto. left; auto.
Qed.

(* ------------------------------------------------------------------ functions: relational unfolding *)
Definition depth_f (F : ftree) : nat := match F with FBad => 0 | FT _ _ _ nodes _ => depth_ns nodes end.

Definition real_f (lo : nat) (h : heap) (f : func) (F : ftree) : Prop :=
  match F with
  | FBad => False
  | FT fid ftok ins nodes outs =>
    exists z, getg h (f_graph f) = Some z /\ g_inits z = [] /\ f_id f = fid /\ f_tok f = ftok /\
      map (vdesc_of [] h) (g_inputs z) = ins /\
      map (fun v => (find_ref v [gdefs h z] 0, vd_name (vdesc_of [] h v), vd_named (vdesc_of [] h v))) (g_outputs z) = outs /\
      (forall v, In v (g_inputs z) -> lo <= v < nv h) /\
      (forall v, In v (g_outputs z) -> lo <= v < nv h) /\
      real_ns lo h [gdefs h z] (g_nodes z) nodes
  end.

Lemma real_f_keeps lo h h' f F : keeps lo h h' -> real_f lo h f F -> real_f lo h' f F.
Proof.
  intros K H. destruct F as [|fid ftok ins nodes outs]; [destruct H|]. cbn [real_f] in *.
  destruct H as (z & Hz & H1 & H2 & H3 & H4 & H5 & H6 & H7 & H8).
  pose proof K as (E & K').
  assert (Hgd : gdefs h' z = gdefs h z).
  { apply gdefs_ext; auto. eapply real_ns_nodes; eauto. }
  assert (Hnv : nv h <= nv h') by (destruct E; auto).
  exists z. csplit; auto.
  - destruct E as (_ & _ & _ & _ & _ & E6 & _). auto.
  - rewrite <- H4. apply map_ext_in. intros v Hv. eapply vdesc_keep; eauto.
  - rewrite <- H5, Hgd. apply map_ext_in. intros v Hv. erewrite vdesc_keep; eauto.
  - intros v Hv. specialize (H6 _ Hv). lia.
  - intros v Hv. specialize (H7 _ Hv). lia.
  - rewrite Hgd. destruct real_stable as (_ & Sns' & _). eapply Sns'; eauto.
Qed.
Lemma real_f_nested lo h h' f F : nested h h' -> real_f lo h f F -> real_f lo h' f F.
Proof. intros N. apply real_f_keeps. apply nested_keeps; auto. Qed.
Lemma real_f_mono lo lo' h f F : lo' <= lo -> real_f lo h f F -> real_f lo' h f F.
Proof.
  intros Hl H. destruct F as [|fid ftok ins nodes outs]; [destruct H|]. cbn [real_f] in *.
  destruct H as (z & Hz & H1 & H2 & H3 & H4 & H5 & H6 & H7 & H8). exists z. csplit; auto.
  - intros v Hv. specialize (H6 _ Hv). lia.
  - intros v Hv. specialize (H7 _ Hv). lia.
  - destruct real_mono as (_ & Mns' & _). eapply Mns'; eauto.
Qed.

Lemma real_f_unfold lo h f F : real_f lo h f F -> depth_f F < ser_fuel h -> unfold_function [] h f = F.
Proof.
  intros H Hd. destruct F as [|fid ftok ins nodes outs]; [destruct H|]. cbn [real_f depth_f] in *.
  destruct H as (z & Hz & H1 & H2 & H3 & H4 & H5 & H6 & H7 & H8).
  unfold unfold_function. rewrite Hz, H1, H2, H3, H4, H5. f_equal.
  destruct real_unfold as (_ & Bns' & _). eapply Bns'; eauto.
Qed.

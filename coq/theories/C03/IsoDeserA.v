(* C03/IsoDeserA.v — pure list / table lemmas used by the proof of deser_tree (IsoDeser.v):
   association lists vs. name lists, index_N / index_nat / resolve / find_ref correspondence,
   vi_lookup, dict_of on duplicate-free keys. *)
From Coq Require Import NArith List Bool Arith Lia.
From IRV Require Import Base.Exn C03.Model C03.Canon C03.Inv C03.Tree C03.IsoSpecs C17.Basics C17.Specs C17.Steps C17.Phases C17.OpNode C17.OpGraph C17.Deser.
Import ListNotations.

(* split boolean conjunctions in hypotheses *)
Ltac bsplit :=
  repeat match goal with
         | H : _ && _ = true |- _ => apply andb_prop in H; destruct H
         | H : negb _ = true |- _ => apply negb_true_iff in H
         end.

(* ------------------------------------------------------------------ N membership / nodup *)
Lemma memN_In k l : memN k l = true <-> In k l.
Proof.
  unfold memN. rewrite existsb_exists. split.
  - intros (x & Hx & E). apply N.eqb_eq in E. subst; auto.
  - intros H. exists k. split; auto. apply N.eqb_refl.
Qed.
Lemma memN_notIn k l : memN k l = false <-> ~ In k l.
Proof.
  rewrite <- memN_In. destruct (memN k l); split; intros H; auto; try discriminate. exfalso; apply H; auto.
Qed.
Lemma existsb_eqb_In k l : existsb (N.eqb k) l = true <-> In k l.
Proof. apply memN_In. Qed.

Lemma nodup_N_NoDup l : nodup_N l = true -> NoDup l.
Proof.
  induction l as [|x l IH]; simpl; intros H; [constructor|]. bsplit.
  constructor; auto. apply memN_notIn. exact H.
Qed.

Lemma NoDup_app_intro {A} (l1 l2 : list A) :
  NoDup l1 -> NoDup l2 -> (forall x, In x l1 -> ~ In x l2) -> NoDup (l1 ++ l2).
Proof.
  induction l1 as [|a l1 IH]; simpl; intros H1 H2 Hd; auto.
  inversion H1; subst. constructor.
  - intros Hin. apply in_app_or in Hin. destruct Hin as [Hin|Hin]; auto. eapply Hd; eauto.
  - apply IH; auto.
Qed.
Lemma NoDup_app_l {A} (l1 l2 : list A) : NoDup (l1 ++ l2) -> NoDup l1.
Proof.
  induction l1 as [|a l1 IH]; simpl; intros H; [constructor|]. inversion H; subst.
  constructor; auto. intros Hin. apply H2. apply in_or_app; auto.
Qed.
Lemma NoDup_app_r {A} (l1 l2 : list A) : NoDup (l1 ++ l2) -> NoDup l2.
Proof. induction l1 as [|a l1 IH]; simpl; intros H; auto. inversion H; auto. Qed.
Lemma NoDup_app_disj {A} (l1 l2 : list A) x : NoDup (l1 ++ l2) -> In x l1 -> ~ In x l2.
Proof.
  induction l1 as [|a l1 IH]; simpl; intros H Hin; [contradiction|]. inversion H; subst.
  destruct Hin as [->|Hin]; auto. intros H2'. apply H2. apply in_or_app; auto.
Qed.
Lemma NoDup_rev' {A} (l : list A) : NoDup l -> NoDup (rev l).
Proof.
  induction l as [|a l IH]; simpl; intros H; [constructor|]. inversion H; subst.
  apply NoDup_app_intro; auto.
  - constructor; [intros []|constructor].
  - intros x Hx [E|[]]. subst. apply H2. apply in_rev; auto.
Qed.

(* ------------------------------------------------------------------ tables *)
Definition nms (t : table) : list N := map fst (rev t).
Definition ids (t : table) : list nat := map snd (rev t).
Definition look (t : table) (k : N) : nat := match lookup k t with Some v => v | None => 0 end.

Lemma nms_cons k v t : nms ((k, v) :: t) = nms t ++ [k].
Proof. unfold nms; simpl. rewrite map_app; auto. Qed.
Lemma ids_cons k v t : ids ((k, v) :: t) = ids t ++ [v].
Proof. unfold ids; simpl. rewrite map_app; auto. Qed.
Lemma nms_nil : nms [] = [].
Proof. reflexivity. Qed.
Lemma In_nms k t : In k (nms t) <-> exists v, In (k, v) t.
Proof.
  unfold nms. rewrite in_map_iff. split.
  - intros ([k' v] & E & H). simpl in E; subst. exists v. apply in_rev; auto.
  - intros (v & H). exists (k, v). split; auto. apply in_rev in H; auto.
Qed.
Lemma In_ids v t : In v (ids t) <-> exists k, In (k, v) t.
Proof.
  unfold ids. rewrite in_map_iff. split.
  - intros ([k v'] & E & H). simpl in E; subst. exists k. apply in_rev; auto.
  - intros (k & H). exists (k, v). split; auto. apply in_rev in H; auto.
Qed.
Lemma nms_map_fst t : nms t = rev (map fst t).
Proof. unfold nms. apply map_rev. Qed.
Lemma ids_map_snd t : ids t = rev (map snd t).
Proof. unfold ids. apply map_rev. Qed.
Lemma NoDup_nms_fst t : NoDup (nms t) -> NoDup (map fst t).
Proof. rewrite nms_map_fst. intros H. apply NoDup_rev' in H. rewrite rev_involutive in H; auto. Qed.

Lemma lookup_nil {A} k : @lookup A k [] = None.
Proof. reflexivity. Qed.

Lemma lookup_None {A} k (t : list (N * A)) : lookup k t = None <-> ~ In k (map fst t).
Proof.
  induction t as [|[k' a] t IH]; simpl.
  - rewrite lookup_nil. split; auto.
  - rewrite lookup_cons. destruct (N.eqb_spec k k') as [->|Hn].
    + split; [discriminate | intros H; exfalso; apply H; auto].
    + rewrite IH. split; intros H; [intros [E|E]; [congruence|auto] | auto].
Qed.
Lemma lookup_Some_in {A} k (t : list (N * A)) : In k (map fst t) -> exists a, lookup k t = Some a.
Proof.
  intros H. destruct (lookup k t) eqn:E; eauto. apply lookup_None in E. contradiction.
Qed.
Lemma In_lookup {A} k (a : A) (t : list (N * A)) : NoDup (map fst t) -> In (k, a) t -> lookup k t = Some a.
Proof.
  induction t as [|[k' a'] t IH]; simpl; intros Hnd Hin; [contradiction|]. inversion Hnd; subst.
  rewrite lookup_cons. destruct Hin as [E|Hin].
  - inversion E; subst. rewrite N.eqb_refl; auto.
  - destruct (N.eqb_spec k k') as [->|Hn]; auto.
    exfalso. apply H1. apply in_map_iff. exists (k', a). auto.
Qed.
Lemma in_table_nms k t : in_table k t = true <-> In k (nms t).
Proof.
  unfold in_table. rewrite In_nms. destruct (lookup k t) as [v|] eqn:E.
  - split; auto. intros _. exists v. apply lookup_In; auto.
  - split; [discriminate|]. intros (v & H). apply lookup_None in E. exfalso. apply E.
    apply in_map_iff. exists (k, v); auto.
Qed.
Lemma in_table_false k t : in_table k t = false <-> ~ In k (nms t).
Proof.
  rewrite <- in_table_nms. destruct (in_table k t); split; intros H; auto; try discriminate. exfalso; apply H; auto.
Qed.

(* map look over the names gives back the ids *)
Lemma map_look_fst t : NoDup (map fst t) -> map (look t) (map fst t) = map snd t.
Proof.
  intros Hnd. assert (G : forall l, (forall kv, In kv l -> In kv t) -> map (look t) (map fst l) = map snd l).
  { induction l as [|[k v] l IH]; simpl; intros Hs; auto. f_equal; [|apply IH; intros; apply Hs; auto].
    unfold look. rewrite (In_lookup k v t); auto. }
  apply G; auto.
Qed.
Lemma map_look_nms t : NoDup (nms t) -> map (look t) (nms t) = ids t.
Proof.
  intros H. rewrite nms_map_fst, ids_map_snd, map_rev. f_equal. apply map_look_fst. apply NoDup_nms_fst; auto.
Qed.

(* ------------------------------------------------------------------ index_N / index_nat *)
Lemma index_N_None k l i : index_N k l i = None <-> ~ In k l.
Proof.
  revert i; induction l as [|y l IH]; intros i; simpl.
  - split; auto.
  - destruct (N.eqb_spec k y) as [->|Hn].
    + split; [discriminate | intros H; exfalso; apply H; auto].
    + rewrite IH. split; intros H; [intros [E|E]; [congruence|auto] | auto].
Qed.
Lemma index_nat_None v l i : index_nat v l i = None <-> ~ In v l.
Proof.
  revert i; induction l as [|y l IH]; intros i; simpl.
  - split; auto.
  - destruct (Nat.eqb_spec v y) as [->|Hn].
    + split; [discriminate | intros H; exfalso; apply H; auto].
    + rewrite IH. split; intros H; [intros [E|E]; [congruence|auto] | auto].
Qed.

Lemma index_pair (l : list (N * nat)) k v i :
  NoDup (map fst l) -> NoDup (map snd l) -> In (k, v) l ->
  index_N k (map fst l) i = index_nat v (map snd l) i /\ index_N k (map fst l) i <> None.
Proof.
  revert i; induction l as [|[k0 v0] l IH]; simpl; intros i H1 H2 Hin; [contradiction|].
  inversion H1; subst. inversion H2; subst. destruct Hin as [E|Hin].
  - inversion E; subst. rewrite N.eqb_refl, Nat.eqb_refl. split; [auto|discriminate].
  - destruct (N.eqb_spec k k0) as [->|Hk].
    { exfalso. apply H3. apply in_map_iff. exists (k0, v); auto. }
    destruct (Nat.eqb_spec v v0) as [->|Hv].
    { exfalso. apply H5. apply in_map_iff. exists (k, v0); auto. }
    apply IH; auto.
Qed.

(* ------------------------------------------------------------------ scope chains *)
Fixpoint chain_ok (sc : list table) : Prop :=
  match sc with
  | [] => True
  | t :: r => NoDup (nms t) /\ NoDup (ids t) /\
              (forall k v, In (k, v) t -> forall t' k', In t' r -> ~ In (k', v) t') /\ chain_ok r
  end.

Lemma lookup_index t k v d :
  NoDup (nms t) -> NoDup (ids t) -> lookup k t = Some v ->
  exists j, index_N k (nms t) d = Some j /\ index_nat v (ids t) d = Some j.
Proof.
  intros H1 H2 Hl. apply lookup_In in Hl. apply in_rev in Hl.
  destruct (index_pair (rev t) k v d H1 H2 Hl) as (E & Hn). unfold nms, ids.
  destruct (index_N k (map fst (rev t)) d) as [j|] eqn:Ej; [|exfalso; apply Hn; exact Ej]. exists j. split; auto. transitivity (index_N k (map fst (rev t)) d); [symmetry; exact E | exact Ej].
Qed.

Lemma lookup_none_index t k d : lookup k t = None -> index_N k (nms t) d = None.
Proof.
  intros H. apply index_N_None. rewrite In_nms. intros (v & Hv). apply lookup_None in H. apply H.
  apply in_map_iff. exists (k, v); auto.
Qed.

Lemma find_resolve : forall sc k v d,
  chain_ok sc -> lookup_scopes k sc = Some v ->
  find_ref v (map ids sc) d = resolve k (map nms sc) d /\ resolve k (map nms sc) d <> None.
Proof.
  induction sc as [|t r IH]; intros k v d Hc Hl; cbn in Hl; [discriminate|].
  destruct Hc as (H1 & H2 & H3 & H4). simpl.
  unfold lookup_scopes in Hl; fold lookup_scopes in Hl.
  destruct (lookup k t) as [v0|] eqn:El.
  - inversion Hl; subst v0. destruct (lookup_index t k v 0 H1 H2 El) as (j & Ea & Eb).
    rewrite Ea, Eb. split; [auto|discriminate].
  - rewrite (lookup_none_index _ _ _ El).
    assert (Hv : index_nat v (ids t) 0 = None).
    { apply index_nat_None. rewrite In_ids. intros (k' & Hk').
      destruct (lookup_scopes_In _ _ _ Hl) as (t' & Ht' & Hin'). eapply (H3 _ _ Hk'); eauto. }
    rewrite Hv. apply IH; auto.
Qed.

Lemma resolve_lookup : forall sc k d,
  resolve k (map nms sc) d <> None -> exists v, lookup_scopes k sc = Some v.
Proof.
  induction sc as [|t r IH]; intros k d H; simpl in H; [congruence|].
  unfold lookup_scopes; fold lookup_scopes.
  destruct (lookup k t) as [v|] eqn:El; [eauto|].
  rewrite (lookup_none_index _ _ _ El) in H. eapply IH; eauto.
Qed.

Lemma ref_eqb_eq a b : ref_eqb a b = true -> a = b.
Proof.
  unfold ref_eqb. destruct a as [[a1 a2]|], b as [[b1 b2]|]; simpl; intros H; try discriminate; auto.
  bsplit. apply Nat.eqb_eq in H, H0. subst; auto.
Qed.

(* ------------------------------------------------------------------ vi_lookup *)
Lemma vi_lookup_In k vis i : vi_lookup k vis = Some i -> In i vis /\ vi_name i = k.
Proof.
  induction vis as [|j r IH]; simpl; intros H; [discriminate|].
  destruct (vi_lookup k r) as [i'|] eqn:E.
  - inversion H; subst. destruct (IH eq_refl); auto.
  - destruct (N.eqb_spec k (vi_name j)); [|discriminate]. inversion H; subst. auto.
Qed.
Lemma vi_lookup_some i vis : In i vis -> vi_lookup (vi_name i) vis <> None.
Proof.
  induction vis as [|j r IH]; simpl; intros H; [contradiction|].
  destruct (vi_lookup (vi_name i) r) eqn:E; [discriminate|].
  destruct H as [->|H]; [rewrite N.eqb_refl; discriminate|]. exfalso. apply IH; auto.
Qed.

(* ------------------------------------------------------------------ dict_of *)
Lemma dict_set_new {A} k (a : A) l : ~ In k (map fst l) -> dict_set k a l = l ++ [(k, a)].
Proof.
  induction l as [|[k' a'] l IH]; simpl; intros H; auto.
  destruct (N.eqb_spec k k') as [->|Hn]; [exfalso; apply H; auto|]. rewrite IH; auto.
Qed.
Lemma dict_of_app {A} (l acc : list (N * A)) : NoDup (map fst (acc ++ l)) -> dict_of acc l = acc ++ l.
Proof.
  revert acc; induction l as [|[k a] l IH]; intros acc H; simpl.
  - rewrite app_nil_r; auto.
  - rewrite dict_set_new.
    + rewrite IH; rewrite <- app_assoc; auto.
    + rewrite map_app in H. intros Hin. eapply NoDup_app_disj; eauto. simpl; auto.
Qed.
Lemma dict_of_id {A} (l : list (N * A)) : NoDup (map fst l) -> dict_of [] l = l.
Proof. intros H. apply (dict_of_app l []). auto. Qed.

(* ------------------------------------------------------------------ misc *)
Lemma filter_map_comm {A B} (f : A -> B) (p : B -> bool) l :
  filter p (map f l) = map f (filter (fun x => p (f x)) l).
Proof. induction l as [|x l IH]; simpl; auto. destruct (p (f x)); simpl; rewrite IH; auto. Qed.

Lemma nz_app l1 l2 : nz (l1 ++ l2) = nz l1 ++ nz l2.
Proof. unfold nz. apply filter_app. Qed.
Lemma In_nz k l : In k (nz l) <-> In k l /\ k <> 0%N.
Proof.
  unfold nz. rewrite filter_In. split; intros (A & B); split; auto.
  - intros ->. discriminate.
  - destruct (N.eqb_spec k 0); auto.
Qed.

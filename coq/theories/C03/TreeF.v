(* C03/TreeF.v — unfolding of functions and of whole models (extends C03/Tree.v).  Definitions only. *)
From Coq Require Import NArith ZArith List Bool Arith.
From IRV Require Import Base.Exn C03.Model C03.Canon C03.Inv C03.Tree.
Import ListNotations.

(* a function: identifier, header token, inputs, nodes, outputs (references into the function's own scope) *)
Inductive ftree := FBad | FT (fid ftok : N) (ins : list vdesc) (nodes : ntrees) (outs : list (ref * N * bool)).
Record mtree := MT { mt_tok : N; mt_graph : gtree; mt_funcs : list ftree }.

Section UnfoldF.
  Variable np : list (N * N).
  Variable h : heap.
  Definition unfold_function (f : func) : ftree :=
    match getg h (f_graph f) with
    | None => FBad
    | Some z =>
      match g_inits z with
      | _ :: _ => FBad                      (* a function body has no initializers *)
      | [] =>
        let D := gdefs h z in
        FT (f_id f) (f_tok f)
           (map (vdesc_of np h) (g_inputs z))
           (ntrees_of (map (unfold_node np h (unfold_graph np (ser_fuel h) h) [D]) (g_nodes z)))
           (map (fun v => (find_ref v [D] 0, vd_name (vdesc_of np h v), vd_named (vdesc_of np h v))) (g_outputs z))
      end
    end.
  Definition unfold_model (m : model) : mtree :=
    MT (m_tok m) (unfold_root np h (m_graph m)) (map unfold_function (m_funcs m)).
End UnfoldF.

(* value_info of a function: inputs and ALL node outputs that carry something (no is_graph_output test) *)
Definition fn_vi (d : vdesc) : list vinfo :=
  if negb (N.eqb (vd_pay d) 0) && negb (N.eqb (vd_name d) 0) then [vi_of d] else [].
Fixpoint t2p_fnvis (ns : ntrees) : list vinfo :=
  match ns with
  | TNil => []
  | TCons n r => match n with
                 | NBad => t2p_fnvis r
                 | NT _ _ _ _ outs _ => flat_map fn_vi outs ++ t2p_fnvis r
                 end
  end.
Definition t2p_f (F : ftree) : fproto :=
  match F with
  | FBad => mkFP 0 0 [] [] [] NNil true
  | FT fid ftok ins nodes outs =>
    mkFP fid ftok (map vd_name ins) (map (fun o => snd (fst o)) outs)
         (flat_map fn_vi ins ++ t2p_fnvis nodes) (t2p_ns nodes) false
  end.
Definition t2p_m (M : mtree) : mproto := mkMP (mt_tok M) (t2p_g (mt_graph M)) (map t2p_f (mt_funcs M)).

Definition fid_of (F : ftree) : N := match F with FBad => 0%N | FT fid _ _ _ _ => fid end.
Definition wf_f (F : ftree) : bool :=
  match F with
  | FBad => false
  | FT fid ftok ins nodes outs =>
    let defs := tdefs ins [] nodes in
    let D := map fst defs in
    let outn := map (fun o => snd (fst o)) outs in
    forallb (wf_in outn) ins
    && nodup_N D
    && wf_ns [D] outn nodes
    && forallb (fun o => let '(r, k, named) := o in
                         named && negb (N.eqb k 0) && is_some r && ref_eqb r (resolve k [D] 0)) outs
  end.
Definition wf_m (M : mtree) : bool :=
  wf_g [] (mt_graph M) && forallb wf_f (mt_funcs M) && nodup_N (map fid_of (mt_funcs M)).

Definition serializable_tm (np : list (N * N)) (h : heap) (m : model) : bool :=
  np_ok np && wf_m (unfold_model np h m).

(* ---- observations / per-case evaluation *)
Definition obs_ft (F : ftree) : obs :=
  match F with
  | FBad => L (-9)
  | FT fid ftok ins nodes outs =>
    T [LN fid; LN ftok; T (map obs_vd ins); T (obs_nts nodes);
       T (map (fun o => T [obs_ref (fst (fst o)); LN (snd (fst o)); Lb (snd o)]) outs)]
  end.
Definition obs_mt (M : mtree) : obs := T [LN (mt_tok M); obs_gt (mt_graph M); T (map obs_ft (mt_funcs M))].

Definition tree_roundtrip_m_b (np : list (N * N)) (h : heap) (m : model) : bool :=
  match ser_model np h m with
  | Raise _ => false
  | Ok (_, q) =>
    match deser_model q with
    | Raise _ => false
    | Ok (h2, m2) =>
      obs_eqb (obs_mt (unfold_model np h m)) (obs_mt (unfold_model [] h2 m2))
      && obs_eqb (obs_m (t2p_m (unfold_model np h m))) (obs_m q)
    end
  end.
Definition iso_tm_statement_b (np : list (N * N)) (h : heap) (m : model) : bool :=
  implb (serializable_tm np h m) (tree_roundtrip_m_b np h m).

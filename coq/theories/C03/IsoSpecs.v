(* C03/IsoSpecs.v — statements of the two halves of C03_iso (proved in IsoSer.v / IsoDeser.v, assembled in
   IsoThm.v).  Definitions only. *)
From Coq Require Import NArith List Bool Arith.
From IRV Require Import Base.Exn C03.Model C03.Canon C03.Inv C03.Tree.
Import ListNotations.

Fixpoint depth_g (T : gtree) : nat :=
  match T with
  | GBad => 0
  | GT _ _ _ _ nodes _ => S (depth_ns nodes)
  end
with depth_ns (ns : ntrees) : nat :=
  match ns with TNil => 0 | TCons n r => Nat.max (depth_n n) (depth_ns r) end
with depth_n (n : ntree) : nat :=
  match n with NBad => 0 | NT _ _ _ _ _ attrs => depth_as attrs end
with depth_as (al : atrees) : nat :=
  match al with TANil => 0 | TACons a r => Nat.max (depth_a a) (depth_as r) end
with depth_a (a : atree) : nat :=
  match a with TPlain _ _ _ => 0 | TGraph _ g => depth_g g | TGraphs _ gs => depth_gs gs end
with depth_gs (gs : gtrees) : nat :=
  match gs with TGNil => 0 | TGCons g r => Nat.max (depth_g g) (depth_gs r) end.

(* (A) the serializer writes exactly the proto of the unfolding, and succeeds, on every state whose
   unfolding is well formed *)
Definition ser_tree_spec : Prop :=
  forall np h g,
    np_ok np = true -> wf_g [] (unfold_root np h g) = true ->
    exists h1, ser_graph np (ser_fuel h) h g = Ok (h1, t2p_g (unfold_root np h g)).

(* (B) the deserializer accepts the proto of every well-formed tree and builds a state whose unfolding is
   that tree *)
Definition deser_tree_spec : Prop :=
  forall T,
    wf_g [] T = true ->
    exists h2 g2, deser_graph (t2p_g T) [] empty_heap = Ok (h2, g2) /\
                  forall fuel, depth_g T < fuel -> unfold_graph [] fuel h2 [] g2 = T.

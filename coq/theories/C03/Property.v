(* C03/Property.v — ONLY the property theorems of C03 ("IR -> proto -> IR preserves the model; serialization
   has no side effects"), over the executable model of serde.serialize_* / deserialize_* in C03/Model.v.

   Full statement and what is proved here:
   (1) C03_iso (NOT PROVED; stated here in full, evaluated by vm_compute on every generated case through
       Iso.iso_statement_b and compared with the implementation's round trip):
         forall np h m, Inv h -> serializable_b h m = true ->
           exists h1 q h2 m2, ser_model np h m = Ok (h1, q) /\ deser_model q = Ok (h2, m2) /\
                              canon_s np h1 m = canon_s np h2 m2
       (canon_s = canonical observation with first-visit labels: equality of canonical observations is
       isomorphism of the rooted ordered object graphs — bijection on graphs/nodes/values preserving node
       order, op ids, connectivity incl. optional inputs and captured outer-scope values, names, payloads,
       initializers — modulo the order of uses(), leaf payload normalisation and trailing empty-named
       outputs).  What IS proved towards it: the round-tripped state always satisfies the invariant
       (C03_roundtrip_consistent_partial), for every h, without any hypothesis.
   (2) serializing twice gives equal protos: C03_ser_twice_equal (FULL: the second serialization starts from
       the state the first one left behind) and C03_ser_deterministic (ser is a function of the state).
   (3) serialization changes nothing except aligning each initializer tensor's own name with the name of its
       value: C03_ser_readonly (FULL). *)
From Coq Require Import NArith List Bool Arith.
From IRV Require Import Base.Exn C03.Model C03.Canon C03.Inv C03.Iso C03.Readonly C03.Twice C03.Tree C03.TreeF C03.PayFixDefs C03.IsoThm C03.IsoThmF C17.Top C03.ModelOld C17.OldFormat.
Import ListNotations.
Open Scope N_scope.

(* Serialization is a function of the IR state: serializing twice from the same state gives equal protos. *)
Theorem C03_ser_deterministic :
  forall np h m r1 r2, ser_model np h m = r1 -> ser_model np h m = r2 -> r1 = r2.
Proof. intros; congruence. Qed.
Print Assumptions C03_ser_deterministic.

(* Serializing twice gives equal protos: the second to_proto, run on the state the first one left behind
   (initializer tensor names aligned), succeeds and returns the same proto. *)
Theorem C03_ser_twice_equal :
  forall np h m h1 q, ser_model np h m = Ok (h1, q) -> exists h2, ser_model np h1 m = Ok (h2, q).
Proof. exact ser_twice. Qed.
Print Assumptions C03_ser_twice_equal.

(* Serialization leaves every value, node and graph untouched; a tensor keeps its content, and its name
   either stays or becomes the name of an initializer value that holds it. *)
Theorem C03_ser_readonly :
  forall np h m h' q, ser_model np h m = Ok (h', q) ->
    hv h' = hv h /\ hn h' = hn h /\ hg h' = hg h /\ length (ht h') = length (ht h) /\
    forall c t, gett h c = Some t ->
      exists t', gett h' c = Some t' /\ tsame t t' /\
                 (t_name t' = t_name t \/
                  exists g z k v x, getg h g = Some z /\ In (k, v) (g_inits z) /\ getv h v = Some x /\
                                    v_const x = Some c /\ t_name t' = v_name x).
Proof. intros np h m h' q H. exact (ser_model_readonly np h m h' q H). Qed.
Print Assumptions C03_ser_readonly.

(* C03_iso, models whose function list is empty (nested graphs, captured outer-scope values, unsorted node
   order, optional inputs, empty-named middle outputs, initializers included): if the unfolding of the
   state is well formed (serializable_t: names present and unique per scope, every reference is what name
   resolution through the scope chain gives — boolean), serialization succeeds, the proto deserializes, and
   the new state unfolds to the SAME tree (Tree.v: every value occurrence replaced by (scope depth, index
   among the values the scope defines), computed from object identity; names, payloads, operator ids,
   tensors, order kept) and satisfies the invariant (so the derived links correspond as well). *)
Theorem C03_iso_graphs :
  forall np h m, serializable_t np h m = true ->
    exists h1 q h2 m2,
      ser_model np h m = Ok (h1, q) /\ deser_model q = Ok (h2, m2) /\
      (forall f, (ser_fuel h < f)%nat -> unfold_graph [] f h2 [] (m_graph m2) = unfold_root np h (m_graph m)) /\
      m_tok m2 = m_tok m /\ m_funcs m2 = [] /\ Inv h2.
Proof. exact iso_graphs. Qed.
Print Assumptions C03_iso_graphs.

(* C03_iso, whole models (main graph, nested graphs, model-local functions): same statement with the unfolding
   of the model (TreeF.v).  serializable_tm = the leaf normalisation table is sane (np_ok) and the unfolding is
   well formed (wf_m). *)
Theorem C03_iso :
  forall np h m, serializable_tm np h m = true ->
    exists h1 q h2 m2,
      ser_model np h m = Ok (h1, q) /\ deser_model q = Ok (h2, m2) /\
      unfold_model [] h2 m2 = unfold_model np h m /\ Inv h2.
Proof. exact iso_model. Qed.
Print Assumptions C03_iso.

(* serialize, deserialize, serialize again: the same proto (np_idem: the leaf normalisation is idempotent) *)
Theorem C03_ser_deser_ser :
  forall np h m, serializable_tm np h m = true -> np_idem np = true ->
    exists h1 q h2 m2 h3,
      ser_model np h m = Ok (h1, q) /\ deser_model q = Ok (h2, m2) /\ ser_model np h2 m2 = Ok (h3, q).
Proof. exact ser_deser_ser. Qed.
Print Assumptions C03_ser_deser_ser.

(* The serializer of the IR < 10 format (function value info written into the main graph, C03/ModelOld.v) is
   read-only up to initializer tensor names as well. *)
Theorem C03_ser_readonly_old :
  forall np Y h m h' q, ser_model_old np Y h m = Ok (h', q) -> readonly h h'.
Proof. exact ser_model_old_readonly. Qed.
Print Assumptions C03_ser_readonly_old.

(* Whatever the state serialized, if the proto deserializes, the result satisfies the invariant. *)
Theorem C03_roundtrip_consistent_partial :
  forall np h m h1 q h2 m2, ser_model np h m = Ok (h1, q) -> deser_model q = Ok (h2, m2) -> Inv h2.
Proof. intros np h m h1 q h2 m2 _ H. exact (deser_model_inv q h2 m2 H). Qed.
Print Assumptions C03_roundtrip_consistent_partial.

(* ---- non-vacuity of the hypotheses of C03_iso and of the readonly theorem: a state with unsorted node
   order (n0 reads b, produced by the later n1), an optional (None) input, a trailing empty-named output,
   an initializer, a subgraph capturing outer values a and c.  Names: a=1 b=2 c=3 d=4 w=5 x=6. *)
Definition ex_sub : gproto :=
  Gp 21 0 [mkVI 6 9 false] [mkVI 4 0 false] [] [] (NCons (Np 33 13 0 [6; 1; 3] [4] ANil) NNil).
Definition ex_proto : mproto :=
  mkMP 1 (Gp 20 0 [mkVI 1 9 false] [mkVI 3 7 false] [mkTP 5 41 8 false false []] [mkVI 3 7 false]
             (NCons (Np 31 10 0 [2; 0; 5] [3; 0] ANil)
             (NCons (Np 32 11 0 [1] [2] (ACons (AGraph 12 ex_sub) ANil)) NNil))) [].
Example C03_iso_hypotheses_nonvacuous :
  exists h m, deser_model ex_proto = Ok (h, m) /\ inv_b h = true /\ serializable_b h m = true /\
              iso_b [] h m = true /\ iso_statement_b [] h m = true.
Proof. vm_compute. eexists _, _. repeat split. Qed.

(* C03/Property.v — (being extended) *)
From Coq Require Import NArith List Bool.
From IRV Require Import Base.Exn C03.Model C03.Canon C03.Inv C03.Iso.
Import ListNotations.

(* Serialization is a function of the IR state: serializing twice from the same state gives equal protos. *)
Theorem C03_ser_deterministic :
  forall np h m r1 r2, ser_model np h m = r1 -> ser_model np h m = r2 -> r1 = r2.
Proof. intros; congruence. Qed.
Print Assumptions C03_ser_deterministic.

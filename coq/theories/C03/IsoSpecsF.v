(* C03/IsoSpecsF.v — the two halves of C03_iso for whole models (main graph + functions).  Definitions only. *)
From Coq Require Import NArith List Bool Arith.
From IRV Require Import Base.Exn C03.Model C03.Canon C03.Inv C03.Tree C03.TreeF.
Import ListNotations.

Definition ser_model_tree_spec : Prop :=
  forall np h m,
    np_ok np = true -> wf_m (unfold_model np h m) = true ->
    exists h1, ser_model np h m = Ok (h1, t2p_m (unfold_model np h m)).

Definition deser_model_tree_spec : Prop :=
  forall M,
    wf_m M = true ->
    exists h2 m2, deser_model (t2p_m M) = Ok (h2, m2) /\ unfold_model [] h2 m2 = M.

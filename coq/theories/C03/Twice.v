(* C03/Twice.v — the serializer never reads a tensor's own name, so serializing again from the state the
   first serialization left behind (tensor names aligned) yields the same proto. *)
From Coq Require Import NArith List Bool Arith Lia.
From IRV Require Import Base.Exn C03.Model C03.Readonly.
Import ListNotations.

(* heaps equal up to tensor names *)
Definition tn_equiv (h a : heap) : Prop :=
  hv a = hv h /\ hn a = hn h /\ hg a = hg h /\
  forall c, match gett h c, gett a c with
            | Some t, Some t' => tsame t t'
            | None, None => True
            | _, _ => False
            end.

Lemma tn_getv h a v : tn_equiv h a -> getv a v = getv h v.
Proof. intros (A & _). unfold getv. rewrite A. auto. Qed.
Lemma tn_getn h a n : tn_equiv h a -> getn a n = getn h n.
Proof. intros (_ & A & _). unfold getn. rewrite A. auto. Qed.
Lemma tn_getg h a g : tn_equiv h a -> getg a g = getg h g.
Proof. intros (_ & _ & A & _). unfold getg. rewrite A. auto. Qed.

Lemma readonly_tn h h' : readonly h h' -> tn_equiv h h'.
Proof.
  intros (A1 & A2 & A3 & A4 & A5). split; [|split; [|split]]; auto. intros c.
  destruct (gett h c) as [t|] eqn:E.
  - destruct (A5 c t E) as (t' & E' & S & _). rewrite E'. auto.
  - destruct (gett h' c) as [t'|] eqn:E'; auto. unfold gett in *.
    apply nth_error_None in E. assert (c < length (ht h')) by (apply nth_error_Some; congruence). lia.
Qed.

Lemma set_tname_tn h a c k : tn_equiv h a -> tn_equiv (set_tname h c k) (set_tname a c k).
Proof.
  intros (A1 & A2 & A3 & A4). unfold tn_equiv, set_tname, gett in *; simpl.
  split; [|split; [|split]]; auto.
  intros c'. rewrite !upd_nth. specialize (A4 c'). destruct (Nat.eqb c c'); auto.
  destruct (nth_error (ht h) c') as [t|], (nth_error (ht a) c') as [t'|]; simpl; auto.
Qed.

Section WithNp.
Variable np : list (N * N).

(* pure readers of values *)
Lemma ser_values_tn h a vs : tn_equiv h a -> ser_values np a vs = ser_values np h vs.
Proof.
  intros E. induction vs as [|v r IH]; simpl; auto. unfold ser_value. rewrite (tn_getv _ _ v E), IH. auto.
Qed.
Lemma ser_node_inputs_tn h a ins : tn_equiv h a -> ser_node_inputs a ins = ser_node_inputs h ins.
Proof.
  intros E. induction ins as [|[v|] r IH]; simpl; auto; rewrite IH; auto. rewrite (tn_getv _ _ v E). auto.
Qed.
Lemma trim_outputs_tn h a outs : tn_equiv h a -> trim_outputs a outs = trim_outputs h outs.
Proof.
  intros E. induction outs as [|v r IH]; simpl; auto. rewrite IH, (tn_getv _ _ v E). auto.
Qed.
Lemma ser_node_outputs_tn h a outs : tn_equiv h a -> ser_node_outputs a outs = ser_node_outputs h outs.
Proof.
  intros E. induction outs as [|v r IH]; simpl; auto. rewrite IH, (tn_getv _ _ v E). auto.
Qed.
Lemma out_vis_tn h a outs : tn_equiv h a -> out_vis np a outs = out_vis np h outs.
Proof.
  intros E. induction outs as [|v r IH]; simpl; auto. rewrite IH, (tn_getv _ _ v E). auto.
Qed.
Lemma fn_out_vis_tn h a outs : tn_equiv h a -> fn_out_vis np a outs = fn_out_vis np h outs.
Proof.
  intros E. induction outs as [|v r IH]; simpl; auto. rewrite IH, (tn_getv _ _ v E). auto.
Qed.
Lemma ser_names_tn h a vs : tn_equiv h a -> ser_names a vs = ser_names h vs.
Proof.
  intros E. induction vs as [|v r IH]; simpl; auto. rewrite IH, (tn_getv _ _ v E). auto.
Qed.

Lemma ser_inits_tn in_names : forall l h a h' ts vs,
  tn_equiv h a -> ser_inits np h in_names l = Ok (h', ts, vs) ->
  exists a', ser_inits np a in_names l = Ok (a', ts, vs) /\ tn_equiv h' a'.
Proof.
  induction l as [|[k v] r IH]; simpl; intros h a h' ts vs E H.
  - inversion H; subst. eauto.
  - rewrite (tn_getv _ _ v E). destruct (getv h v) as [x|]; [|discriminate].
    destruct (v_const x) as [c|].
    + pose proof E as (_ & _ & _ & E4). specialize (E4 c).
      destruct (gett h c) as [t|]; [|discriminate]. destruct (gett a c) as [t'|]; [|contradiction].
      destruct E4 as (B1 & B2 & B3 & B4).
      destruct (ser_inits np (set_tname h c (v_name x)) in_names r) as [[[h2 ts2] vs2]|e] eqn:Er; [|discriminate].
      inversion H; subst; clear H.
      destruct (IH _ _ _ _ _ (set_tname_tn _ _ c (v_name x) E) Er) as (a' & Ea & E').
      exists a'. rewrite Ea. rewrite B1, B2, B3, B4. auto.
    + destruct (ser_inits np h in_names r) as [[[h2 ts2] vs2]|e] eqn:Er; [|discriminate].
      inversion H; subst; clear H. destruct (IH _ _ _ _ _ E Er) as (a' & Ea & E'). exists a'. rewrite Ea. auto.
Qed.

Section Body.
Variable rec : heap -> nat -> res (heap * gproto).
Hypothesis rec_tn : forall h a g h' q, tn_equiv h a -> rec h g = Ok (h', q) ->
  exists a', rec a g = Ok (a', q) /\ tn_equiv h' a'.

Lemma ser_gs_tn : forall l h a h' gl, tn_equiv h a -> ser_gs rec h l = Ok (h', gl) ->
  exists a', ser_gs rec a l = Ok (a', gl) /\ tn_equiv h' a'.
Proof.
  induction l as [|g r IH]; simpl; intros h a h' gl E H.
  - inversion H; subst. eauto.
  - destruct (rec h g) as [[h1 gp]|e] eqn:E1; [|discriminate].
    destruct (ser_gs rec h1 r) as [[h2 l2]|e] eqn:E2; [|discriminate]. inversion H; subst.
    destruct (rec_tn _ _ _ _ _ E E1) as (a1 & Ea1 & T1). destruct (IH _ _ _ _ T1 E2) as (a2 & Ea2 & T2).
    exists a2. rewrite Ea1, Ea2. auto.
Qed.

Lemma ser_attrs_tn : forall al h a h' ap, tn_equiv h a -> ser_attrs rec h al = Ok (h', ap) ->
  exists a', ser_attrs rec a al = Ok (a', ap) /\ tn_equiv h' a'.
Proof.
  induction al as [|[k at_] r IH]; simpl; intros h a h' ap E H.
  - inversion H; subst. eauto.
  - destruct at_ as [tok sbad|sg|sgs].
    + destruct sbad; [discriminate|].
      destruct (ser_attrs rec h r) as [[h1 l]|e] eqn:E1; [|discriminate]. inversion H; subst.
      destruct (IH _ _ _ _ E E1) as (a1 & Ea1 & T1). exists a1. rewrite Ea1. auto.
    + destruct (rec h sg) as [[h1 gp]|e] eqn:E1; [|discriminate].
      destruct (ser_attrs rec h1 r) as [[h2 l]|e] eqn:E2; [|discriminate]. inversion H; subst.
      destruct (rec_tn _ _ _ _ _ E E1) as (a1 & Ea1 & T1). destruct (IH _ _ _ _ T1 E2) as (a2 & Ea2 & T2).
      exists a2. rewrite Ea1, Ea2. auto.
    + destruct (ser_gs rec h sgs) as [[h1 gl]|e] eqn:E1; [|discriminate].
      destruct (ser_attrs rec h1 r) as [[h2 l]|e] eqn:E2; [|discriminate]. inversion H; subst.
      destruct (ser_gs_tn _ _ _ _ _ E E1) as (a1 & Ea1 & T1). destruct (IH _ _ _ _ T1 E2) as (a2 & Ea2 & T2).
      exists a2. rewrite Ea1, Ea2. auto.
Qed.

Lemma ser_node_tn h a n h' q : tn_equiv h a -> ser_node rec h n = Ok (h', q) ->
  exists a', ser_node rec a n = Ok (a', q) /\ tn_equiv h' a'.
Proof.
  unfold ser_node. intros E H. rewrite (tn_getn _ _ n E).
  destruct (getn h n) as [y|]; [|discriminate].
  rewrite (ser_node_inputs_tn _ _ _ E), (trim_outputs_tn _ _ _ E), (ser_node_outputs_tn _ _ _ E).
  destruct (ser_node_inputs h (n_inputs y)) as [ins|e]; [|discriminate].
  destruct (ser_node_outputs h (trim_outputs h (n_outputs y))) as [outs|e]; [|discriminate].
  destruct (ser_attrs rec h (n_attrs y)) as [[h1 al]|e] eqn:E1; [|discriminate]. inversion H; subst.
  destruct (ser_attrs_tn _ _ _ _ _ E E1) as (a1 & Ea1 & T1). exists a1. rewrite Ea1. auto.
Qed.

Lemma ser_nodes_tn infn : forall ns h a h' l vs, tn_equiv h a -> ser_nodes np rec infn h ns = Ok (h', l, vs) ->
  exists a', ser_nodes np rec infn a ns = Ok (a', l, vs) /\ tn_equiv h' a'.
Proof.
  induction ns as [|n r IH]; simpl; intros h a h' l vs E H.
  - inversion H; subst. eauto.
  - destruct (ser_node rec h n) as [[h1 q]|e] eqn:E1; [|discriminate].
    destruct (ser_nodes np rec infn h1 r) as [[[h2 l2] vs2]|e] eqn:E2; [|discriminate]. inversion H; subst.
    destruct (ser_node_tn _ _ _ _ _ E E1) as (a1 & Ea1 & T1). destruct (IH _ _ _ _ _ T1 E2) as (a2 & Ea2 & T2).
    exists a2. rewrite Ea1, Ea2. rewrite (tn_getn _ _ n T1), (out_vis_tn _ _ _ T1), (fn_out_vis_tn _ _ _ T1). auto.
Qed.

Lemma ser_graph_body_tn h a g h' q : tn_equiv h a -> ser_graph_body np rec h g = Ok (h', q) ->
  exists a', ser_graph_body np rec a g = Ok (a', q) /\ tn_equiv h' a'.
Proof.
  unfold ser_graph_body. intros E H. rewrite (tn_getg _ _ g E).
  destruct (getg h g) as [z|]; [|discriminate].
  rewrite (ser_values_tn _ _ _ E).
  destruct (ser_values np h (g_inputs z)) as [ins|e]; [|discriminate].
  assert (Hin : map (fun v => match getv a v with Some x => v_name x | None => None end) (g_inputs z)
              = map (fun v => match getv h v with Some x => v_name x | None => None end) (g_inputs z)).
  { apply map_ext. intros v. rewrite (tn_getv _ _ v E). auto. }
  rewrite Hin.
  match type of H with context [ser_inits np h ?inn (g_inits z)] =>
    destruct (ser_inits np h inn (g_inits z)) as [[[h1 ts] ivis]|e] eqn:E1; [|discriminate] end.
  destruct (ser_inits_tn _ _ _ _ _ _ _ E E1) as (a1 & Ea1 & T1). rewrite Ea1.
  destruct (ser_nodes np rec false h1 (g_nodes z)) as [[[h2 nps] nvis]|e] eqn:E2; [|discriminate].
  destruct (ser_nodes_tn _ _ _ _ _ _ _ T1 E2) as (a2 & Ea2 & T2). rewrite Ea2.
  rewrite (ser_values_tn _ _ _ T2).
  destruct (ser_values np h2 (g_outputs z)) as [outs|e]; [|discriminate]. inversion H; subst. eauto.
Qed.
End Body.

Lemma ser_graph_tn : forall fuel h a g h' q, tn_equiv h a -> ser_graph np fuel h g = Ok (h', q) ->
  exists a', ser_graph np fuel a g = Ok (a', q) /\ tn_equiv h' a'.
Proof.
  induction fuel as [|f IH]; simpl; intros h a g h' q E H; [discriminate|].
  eapply ser_graph_body_tn; eauto.
Qed.

Lemma tn_fuel h a : tn_equiv h a -> ser_fuel a = ser_fuel h.
Proof. intros (_ & _ & A & _). unfold ser_fuel. rewrite A. auto. Qed.

Lemma ser_function_tn h a f h' q : tn_equiv h a -> ser_function np h f = Ok (h', q) ->
  exists a', ser_function np a f = Ok (a', q) /\ tn_equiv h' a'.
Proof.
  unfold ser_function. intros E H. rewrite (tn_getg _ _ _ E).
  destruct (getg h (f_graph f)) as [z|]; [|discriminate].
  rewrite !(ser_names_tn _ _ _ E).
  destruct (ser_names h (g_inputs z)) as [ins|e]; [|discriminate].
  destruct (ser_names h (g_outputs z)) as [outs|e]; [|discriminate].
  rewrite (tn_fuel _ _ E), (fn_out_vis_tn _ _ _ E).
  destruct (ser_nodes np (ser_graph np (ser_fuel h)) true h (g_nodes z)) as [[[h1 nps] nvis]|e] eqn:E1; [|discriminate].
  inversion H; subst.
  destruct (ser_nodes_tn (ser_graph np (ser_fuel h)) (ser_graph_tn (ser_fuel h)) true _ _ _ _ _ _ E E1) as (a1 & Ea1 & T1).
  exists a1. rewrite Ea1. auto.
Qed.

Lemma ser_functions_tn : forall fs h a h' l, tn_equiv h a -> ser_functions np h fs = Ok (h', l) ->
  exists a', ser_functions np a fs = Ok (a', l) /\ tn_equiv h' a'.
Proof.
  induction fs as [|f r IH]; simpl; intros h a h' l E H.
  - inversion H; subst. eauto.
  - destruct (ser_function np h f) as [[h1 fp]|e] eqn:E1; [|discriminate].
    destruct (ser_functions np h1 r) as [[h2 l2]|e] eqn:E2; [|discriminate]. inversion H; subst.
    destruct (ser_function_tn _ _ _ _ _ E E1) as (a1 & Ea1 & T1). destruct (IH _ _ _ _ T1 E2) as (a2 & Ea2 & T2).
    exists a2. rewrite Ea1, Ea2. auto.
Qed.

Lemma ser_model_tn h a m h' q : tn_equiv h a -> ser_model np h m = Ok (h', q) ->
  exists a', ser_model np a m = Ok (a', q) /\ tn_equiv h' a'.
Proof.
  unfold ser_model. intros E H. rewrite (tn_fuel _ _ E).
  destruct (ser_graph np (ser_fuel h) h (m_graph m)) as [[h1 gp]|e] eqn:E1; [|discriminate].
  destruct (ser_functions np h1 (m_funcs m)) as [[h2 fps]|e] eqn:E2; [|discriminate]. inversion H; subst.
  destruct (ser_graph_tn _ _ _ _ _ _ E E1) as (a1 & Ea1 & T1). destruct (ser_functions_tn _ _ _ _ _ T1 E2) as (a2 & Ea2 & T2).
  exists a2. rewrite Ea1, Ea2. auto.
Qed.

(* to_proto(m) twice: the second call, on the state left by the first, returns the same proto *)
Theorem ser_twice h m h1 q : ser_model np h m = Ok (h1, q) -> exists h2, ser_model np h1 m = Ok (h2, q).
Proof.
  intros H. pose proof (readonly_tn _ _ (ser_model_readonly np h m h1 q H)) as E.
  destruct (ser_model_tn _ _ _ _ _ E H) as (a' & Ha & _). eauto.
Qed.
End WithNp.

(* C03/Canon.v — canonical observations used by the correspondence checks of C03 and C17 (definitions only).

   `canon h m` relabels the graphs / nodes / values reachable from the model in first-visit order of a
   fixed traversal (graph: inputs, initializers, then per node: the node, its inputs, its outputs, the
   graphs of its attributes recursively; then the graph outputs; then the function graphs) and prints
   every public fact about them with those labels.  The harness performs the same traversal over the
   Python objects through public accessors; two object graphs are isomorphic (as rooted, ordered
   structures) iff their canonical observations are equal. *)
From Coq Require Import NArith ZArith List Bool Arith.
From IRV Require Import Base.Exn C03.Model.
Import ListNotations.

Inductive obs := L (z : Z) | T (l : list obs).

Fixpoint obs_eqb (a b : obs) {struct a} : bool :=
  match a, b with
  | L x, L y => Z.eqb x y
  | T l, T m =>
    (fix go (l m : list obs) {struct l} : bool :=
       match l, m with
       | [], [] => true
       | x :: l', y :: m' => obs_eqb x y && go l' m'
       | _, _ => false
       end) l m
  | _, _ => false
  end.

Definition LN (n : N) := L (Z.of_N n).
Definition Lnat (n : nat) := L (Z.of_nat n).
Definition Lb (b : bool) := L (if b then 1 else 0)%Z.

(* ---- protos as observations *)
Definition obs_vi (i : vinfo) := T [LN (vi_name i); LN (vi_pay i)].
Definition obs_tp (t : tproto) := T [LN (tp_name t); LN (tp_tok t)].
Fixpoint obs_g (g : gproto) : obs :=
  match g with
  | Gp gname gtok ins outs inits vis nodes =>
    T [LN gname; LN gtok; T (map obs_vi ins); T (map obs_vi outs); T (map obs_tp inits); T (map obs_vi vis);
       T (obs_ns nodes)]
  end
with obs_ns (ns : nprotos) : list obs :=
  match ns with NNil => [] | NCons n r => obs_n n :: obs_ns r end
with obs_n (n : nproto) : obs :=
  match n with
  | Np nname op ntok ins outs attrs => T [LN nname; LN op; LN ntok; T (map LN ins); T (map LN outs); T (obs_as attrs)]
  end
with obs_as (al : aprotos) : list obs :=
  match al with ANil => [] | ACons a r => obs_a a :: obs_as r end
with obs_a (a : aproto) : obs :=
  match a with
  | APlain k tok _ _ => T [LN k; L 0; LN tok]
  | AGraph k g => T [LN k; L 1; obs_g g]
  | AGraphs k gs => T [LN k; L 2; T (obs_gs gs)]
  end
with obs_gs (gs : gprotos) : list obs :=
  match gs with GNil => [] | GCons g r => obs_g g :: obs_gs r end.
Definition obs_f (f : fproto) :=
  T [LN (fp_id f); LN (fp_tok f); T (map LN (fp_ins f)); T (map LN (fp_outs f)); T (map obs_vi (fp_vis f));
     T (obs_ns (fp_nodes f))].
Definition obs_m (m : mproto) := T [LN (mp_tok m); obs_g (mp_graph m); T (map obs_f (mp_funcs m))].

(* ---- first-visit traversal *)
Record seen := mkS { s_v : list nat; s_n : list nat; s_g : list nat }.
Definition mem (x : nat) (l : list nat) : bool := existsb (Nat.eqb x) l.
Definition see_v (v : nat) (s : seen) : seen := if mem v (s_v s) then s else mkS (s_v s ++ [v]) (s_n s) (s_g s).
Definition see_n (n : nat) (s : seen) : seen := if mem n (s_n s) then s else mkS (s_v s) (s_n s ++ [n]) (s_g s).
Definition see_vs (vs : list nat) (s : seen) : seen := fold_left (fun s v => see_v v s) vs s.
Definition see_ovs (vs : list (option nat)) (s : seen) : seen :=
  fold_left (fun s v => match v with Some v => see_v v s | None => s end) vs s.

Section Visit.
  Variable h : heap.
  Variable rec : nat -> seen -> seen.
  Definition visit_attr (a : name * attr) (s : seen) : seen :=
    match snd a with
    | AtPlain _ _ => s
    | AtGraph g => rec g s
    | AtGraphs gs => fold_left (fun s g => rec g s) gs s
    end.
  Definition visit_node (n : nat) (s : seen) : seen :=
    match getn h n with
    | None => s
    | Some y =>
      let s1 := see_n n s in
      let s2 := see_ovs (n_inputs y) s1 in
      let s3 := see_vs (n_outputs y) s2 in
      fold_left (fun s a => visit_attr a s) (n_attrs y) s3
    end.
  Definition visit_graph_body (g : nat) (s : seen) : seen :=
    if mem g (s_g s) then s
    else match getg h g with
         | None => s
         | Some z =>
           let s0 := mkS (s_v s) (s_n s) (s_g s ++ [g]) in
           let s1 := see_vs (g_inputs z) s0 in
           let s2 := see_vs (map snd (g_inits z)) s1 in
           let s3 := fold_left (fun s n => visit_node n s) (g_nodes z) s2 in
           see_vs (g_outputs z) s3
         end.
End Visit.
Fixpoint visit_graph (fuel : nat) (h : heap) (g : nat) (s : seen) : seen :=
  match fuel with
  | O => s
  | S f => visit_graph_body h (visit_graph f h) g s
  end.

Fixpoint index_of (x : nat) (l : list nat) (i : nat) : option nat :=
  match l with [] => None | y :: r => if Nat.eqb x y then Some i else index_of x r (S i) end.
(* label of an object, -2 when it was not reached by the traversal *)
Definition lab (x : nat) (l : list nat) : obs :=
  match index_of x l 0 with Some i => Lnat i | None => L (-2) end.
Definition olab (x : option nat) (l : list nat) : obs :=
  match x with None => L (-1) | Some x => lab x l end.
Definition Lname (k : option name) : obs := match k with None => L (-1) | Some k => LN k end.

Definition obs_value (h : heap) (s : seen) (v : nat) : obs :=
  match getv h v with
  | None => T []
  | Some x =>
    T [Lname (v_name x);
       match v_prod x with None => T [] | Some (n, i) => T [lab n (s_n s); Lnat i] end;
       T (map (fun u => T [lab (fst u) (s_n s); Lnat (snd u)]) (v_uses x));
       (* Value.graph: the owning graph, else the producer's graph *)
       olab (match v_owner x with
             | Some g => Some g
             | None => match v_prod x with
                       | Some (n, _) => match getn h n with Some y => n_graph y | None => None end
                       | None => None
                       end
             end) (s_g s);
       Lb (v_in x); Lb (v_out x); Lb (v_init x);
       match v_const x with
       | None => T []
       | Some c => match gett h c with Some t => T [Lname (t_name t); LN (t_tok t)] | None => T [L (-3)] end
       end;
       LN (v_info x)]
  end.
Definition obs_attr (s : seen) (a : name * attr) : obs :=
  match snd a with
  | AtPlain tok _ => T [LN (fst a); L 0; LN tok]
  | AtGraph g => T [LN (fst a); L 1; lab g (s_g s)]
  | AtGraphs gs => T [LN (fst a); L 2; T (map (fun g => lab g (s_g s)) gs)]
  end.
Definition obs_node (h : heap) (s : seen) (n : nat) : obs :=
  match getn h n with
  | None => T []
  | Some y =>
    T [Lname (n_name y); LN (n_op y); LN (n_tok y);
       T (map (fun v => olab v (s_v s)) (n_inputs y));
       T (map (fun v => lab v (s_v s)) (n_outputs y));
       T (map (obs_attr s) (n_attrs y));
       olab (n_graph y) (s_g s)]
  end.
Definition obs_graph (h : heap) (s : seen) (g : nat) : obs :=
  match getg h g with
  | None => T []
  | Some z =>
    T [LN (g_name z); LN (g_tok z);
       T (map (fun v => lab v (s_v s)) (g_inputs z));
       T (map (fun v => lab v (s_v s)) (g_outputs z));
       T (map (fun kv => T [LN (fst kv); lab (snd kv) (s_v s)]) (g_inits z));
       T (map (fun n => lab n (s_n s)) (g_nodes z))]
  end.

Definition reach (h : heap) (m : model) : seen :=
  fold_left (fun s f => visit_graph (ser_fuel h) h (f_graph f) s) (m_funcs m)
            (visit_graph (ser_fuel h) h (m_graph m) (mkS [] [] [])).
Definition canon (h : heap) (m : model) : obs :=
  let s := reach h m in
  T [LN (m_tok m); lab (m_graph m) (s_g s);
     T (map (fun f => T [LN (f_id f); LN (f_tok f); lab (f_graph f) (s_g s)]) (m_funcs m));
     T (map (obs_value h s) (s_v s));
     T (map (obs_node h s) (s_n s));
     T (map (obs_graph h s) (s_g s))].

(* Outcome of the implementation as seen by the harness:  None = raised,  Some o = returned an IR with
   canonical observation o. *)
Definition agree_deser (p : mproto) (impl : option obs) : bool :=
  match deser_model p, impl with
  | Raise _, None => true
  | Ok (h, m), Some o => obs_eqb (canon h m) o
  | _, _ => false
  end.
(* re-serialization of the deserialized model: None = raised, Some q = proto *)
Definition agree_reser (np : list (N * N)) (p : mproto) (impl : option (option mproto)) : bool :=
  match impl with
  | None => true                      (* comparison not applicable (names that are not valid strings) *)
  | Some impl =>
    match deser_model p with
    | Raise _ => true
    | Ok (h, m) =>
      match ser_model np h m, impl with
      | Raise _, None => true
      | Ok (_, q), Some qi => obs_eqb (obs_m q) (obs_m qi)
      | _, _ => false
      end
    end
  end.

(* the model's own re-serialization fixpoint on a concrete proto (evaluated on every case) *)
Definition model_fixpoint (np : list (N * N)) (p : mproto) : bool :=
  match deser_model p with
  | Raise _ => true
  | Ok (h, m) =>
    match ser_model np h m with
    | Raise _ => true
    | Ok (_, q) =>
      match deser_model q with
      | Raise _ => false
      | Ok (h', m') =>
        match ser_model np h' m' with
        | Ok (_, q') => obs_eqb (obs_m q') (obs_m q)
        | Raise _ => false
        end
      end
    end
  end.

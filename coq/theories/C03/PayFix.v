(* C03/PayFix.v — payloads of the unfolding and the leaf normalisation.
   (1) with an idempotent table np every payload of the unfolding computed WITH np is a fixed point of norm_pay np;
   (2) if every payload of the unfolding computed WITHOUT normalisation is a fixed point of norm_pay np,
       normalising changes nothing. *)
From Coq Require Import NArith List Bool Arith Lia.
From IRV Require Import Base.Exn C03.Model C03.Canon C03.Inv C03.Tree C03.TreeF C03.PayFixDefs C03.IsoSer.
Import ListNotations.

(* ------------------------------------------------------------------ list helpers *)
Lemma forallb_map_all {A B} (P : B -> bool) (F : A -> B) l :
  (forall x, In x l -> P (F x) = true) -> forallb P (map F l) = true.
Proof.
  induction l as [|a r IH]; simpl; intros H; auto.
  rewrite H by auto. simpl. apply IH. intros; apply H; auto.
Qed.
Lemma forallb_map_inv {A B} (P : B -> bool) (F : A -> B) l :
  forallb P (map F l) = true -> forall x, In x l -> P (F x) = true.
Proof.
  induction l as [|a r IH]; simpl; intros H x Hin; [tauto|].
  apply andb_prop in H. destruct H as [H1 H2]. destruct Hin as [E|Hin]; [subst; auto|auto].
Qed.

Lemma pf_ns_of np l : (forall x, In x l -> pf_n np x = true) -> pf_ns np (ntrees_of l) = true.
Proof.
  induction l as [|a r IH]; simpl; intros H; auto.
  rewrite H by auto. simpl. apply IH. intros; apply H; auto.
Qed.
Lemma pf_as_of np l : (forall x, In x l -> pf_a np x = true) -> pf_as np (atrees_of l) = true.
Proof.
  induction l as [|a r IH]; simpl; intros H; auto.
  rewrite H by auto. simpl. apply IH. intros; apply H; auto.
Qed.
Lemma pf_gs_of np l : (forall x, In x l -> pf_g np x = true) -> pf_gs np (gtrees_of l) = true.
Proof.
  induction l as [|a r IH]; simpl; intros H; auto.
  rewrite H by auto. simpl. apply IH. intros; apply H; auto.
Qed.
Lemma pf_ns_inv np l : pf_ns np (ntrees_of l) = true -> forall x, In x l -> pf_n np x = true.
Proof.
  induction l as [|a r IH]; simpl; intros H x Hin; [tauto|].
  apply andb_prop in H. destruct H as [H1 H2]. destruct Hin as [E|Hin]; [subst; auto|auto].
Qed.
Lemma pf_as_inv np l : pf_as np (atrees_of l) = true -> forall x, In x l -> pf_a np x = true.
Proof.
  induction l as [|a r IH]; simpl; intros H x Hin; [tauto|].
  apply andb_prop in H. destruct H as [H1 H2]. destruct Hin as [E|Hin]; [subst; auto|auto].
Qed.
Lemma pf_gs_inv np l : pf_gs np (gtrees_of l) = true -> forall x, In x l -> pf_g np x = true.
Proof.
  induction l as [|a r IH]; simpl; intros H x Hin; [tauto|].
  apply andb_prop in H. destruct H as [H1 H2]. destruct Hin as [E|Hin]; [subst; auto|auto].
Qed.

(* ------------------------------------------------------------------ idempotence *)
Lemma lookup_In {A} (k : N) (l : list (N * A)) a : lookup k l = Some a -> In (k, a) l.
Proof.
  induction l as [|[k' a'] r IH]; simpl; intros H; [discriminate|].
  destruct (N.eqb_spec k k') as [E|E]; [inversion H; subst; auto|auto].
Qed.
Lemma norm_idem np : np_idem np = true -> forall p, norm_pay np (norm_pay np p) = norm_pay np p.
Proof.
  intros H p. unfold norm_pay at 2 3. destruct (lookup p np) as [q|] eqn:L.
  - apply lookup_In in L. unfold np_idem in H. rewrite forallb_forall in H.
    specialize (H _ L). simpl in H. apply N.eqb_eq in H. exact H.
  - unfold norm_pay. rewrite L. reflexivity.
Qed.
Lemma pfix0 np : np_ok np = true -> pfix np 0%N = true.
Proof. intros H. unfold pfix. rewrite norm_pay0 by auto. reflexivity. Qed.
Lemma pfix_tpay np x : np_ok np = true -> np_idem np = true -> pfix np (tpay np x) = true.
Proof.
  intros H Hi. rewrite tpay_eq by auto. unfold pfix. rewrite norm_idem by auto. apply N.eqb_refl.
Qed.

(* ------------------------------------------------------------------ (1) every payload is a fixed point *)
Section Fix1.
Variable np : list (N * N).
Hypothesis Hok : np_ok np = true.
Hypothesis Hid : np_idem np = true.
Variable h : heap.

Lemma pf_vdesc_of v : pf_vd np (vdesc_of np h v) = true.
Proof.
  unfold pf_vd, vdesc_of. destruct (getv h v) as [x|]; simpl; [apply pfix_tpay; auto|apply pfix0; auto].
Qed.
Lemma pf_idesc_of z kv : pfix np (id_pay (idesc_of np h z kv)) = true.
Proof.
  unfold idesc_of. destruct (getv h (snd kv)) as [x|]; simpl; [apply pfix_tpay; auto|apply pfix0; auto].
Qed.

Section Rec1.
Variable rec : list (list nat) -> nat -> gtree.
Hypothesis Hrec : forall chain g, pf_g np (rec chain g) = true.

Lemma pf_unfold_attr chain a : pf_a np (unfold_attr rec chain a) = true.
Proof.
  unfold unfold_attr. destruct (snd a) as [tok sbad|g|gs]; simpl; auto.
  apply pf_gs_of. intros x Hin. apply in_map_iff in Hin. destruct Hin as [g [E _]]. subst. auto.
Qed.
Lemma pf_unfold_node chain n : pf_n np (unfold_node np h rec chain n) = true.
Proof.
  unfold unfold_node. destruct (getn h n) as [y|]; simpl; auto.
  apply andb_true_intro; split.
  - apply forallb_map_all. intros; apply pf_vdesc_of.
  - apply pf_as_of. intros x Hin. apply in_map_iff in Hin. destruct Hin as [a [E _]]. subst.
    apply pf_unfold_attr.
Qed.
Lemma pf_unfold_nodes chain l : pf_ns np (ntrees_of (map (unfold_node np h rec chain) l)) = true.
Proof.
  apply pf_ns_of. intros x Hin. apply in_map_iff in Hin. destruct Hin as [a [E _]]. subst.
  apply pf_unfold_node.
Qed.
Lemma pf_unfold_graph_body chain g : pf_g np (unfold_graph_body np h rec chain g) = true.
Proof.
  unfold unfold_graph_body. destruct (getg h g) as [z|]; simpl; auto.
  repeat (apply andb_true_intro; split).
  - apply forallb_map_all. intros; apply pf_vdesc_of.
  - apply forallb_map_all. intros; apply pf_idesc_of.
  - apply pf_unfold_nodes.
  - apply forallb_map_all. intros; simpl; apply pf_vdesc_of.
Qed.
End Rec1.

(* graph level *)
Lemma pf_unfold_graph fuel : forall chain g, pf_g np (unfold_graph np fuel h chain g) = true.
Proof.
  induction fuel as [|f IH]; intros chain g; simpl; auto.
  apply pf_unfold_graph_body. exact IH.
Qed.
Lemma pf_unfold_root g : pf_g np (unfold_root np h g) = true.
Proof. apply pf_unfold_graph. Qed.
Lemma pf_unfold_function f : pf_f np (unfold_function np h f) = true.
Proof.
  unfold unfold_function. destruct (getg h (f_graph f)) as [z|]; simpl; auto.
  destruct (g_inits z); simpl; auto.
  apply andb_true_intro; split.
  - apply forallb_map_all. intros; apply pf_vdesc_of.
  - apply pf_unfold_nodes. exact (pf_unfold_graph (ser_fuel h)).
Qed.
Lemma pf_unfold_model m : pf_m np (unfold_model np h m) = true.
Proof.
  unfold pf_m, unfold_model. simpl. rewrite pf_unfold_root. simpl.
  apply forallb_map_all. intros; apply pf_unfold_function.
Qed.
End Fix1.

(* ------------------------------------------------------------------ (2) normalising fixed points changes nothing *)
Lemma norm_pay_nil p : norm_pay [] p = p.
Proof. reflexivity. Qed.
Lemma tpay_fix np x : pfix np (tpay [] x) = true -> tpay np x = tpay [] x.
Proof.
  unfold tpay, pfix. rewrite norm_pay_nil. destruct (N.eqb (v_info x) 0); auto.
  intros H. apply N.eqb_eq in H. exact H.
Qed.

Lemma map_fix {A B} (P : B -> bool) (G F : A -> B) l :
  (forall x, In x l -> P (F x) = true -> G x = F x) ->
  forallb P (map F l) = true -> map G l = map F l.
Proof.
  intros H Hf. apply map_ext_in. intros a Hin. apply H; auto.
  eapply forallb_map_inv in Hf; eauto.
Qed.

Section Fix2.
Variable np : list (N * N).
Variable h : heap.

Lemma vdesc_name v : vd_name (vdesc_of np h v) = vd_name (vdesc_of [] h v).
Proof. unfold vdesc_of. destruct (getv h v); reflexivity. Qed.
Lemma vdesc_named v : vd_named (vdesc_of np h v) = vd_named (vdesc_of [] h v).
Proof. unfold vdesc_of. destruct (getv h v); reflexivity. Qed.
Lemma vdesc_fix v : pf_vd np (vdesc_of [] h v) = true -> vdesc_of np h v = vdesc_of [] h v.
Proof.
  unfold pf_vd, vdesc_of. destruct (getv h v) as [x|]; simpl; auto.
  intros H. rewrite tpay_fix by auto. reflexivity.
Qed.
Lemma idesc_fix z kv : pfix np (id_pay (idesc_of [] h z kv)) = true -> idesc_of np h z kv = idesc_of [] h z kv.
Proof.
  unfold idesc_of. destruct (getv h (snd kv)) as [x|]; simpl; auto.
  intros H. rewrite tpay_fix by auto. reflexivity.
Qed.
Lemma vdescs_fix l : forallb (pf_vd np) (map (vdesc_of [] h) l) = true -> map (vdesc_of np h) l = map (vdesc_of [] h) l.
Proof. apply map_fix. intros; apply vdesc_fix; auto. Qed.

Section Rec2.
Variable rec1 rec2 : list (list nat) -> nat -> gtree.
Hypothesis Hrec : forall chain g, pf_g np (rec2 chain g) = true -> rec1 chain g = rec2 chain g.

Lemma unfold_attr_fix chain a :
  pf_a np (unfold_attr rec2 chain a) = true -> unfold_attr rec1 chain a = unfold_attr rec2 chain a.
Proof.
  unfold unfold_attr. destruct (snd a) as [tok sbad|g|gs]; simpl; auto.
  - intros H. rewrite Hrec by auto. reflexivity.
  - intros H. f_equal. f_equal. apply map_ext_in. intros g Hin. apply Hrec.
    eapply pf_gs_inv in H; eauto. apply in_map; auto.
Qed.
Lemma unfold_node_fix chain n :
  pf_n np (unfold_node [] h rec2 chain n) = true ->
  unfold_node np h rec1 chain n = unfold_node [] h rec2 chain n.
Proof.
  unfold unfold_node. destruct (getn h n) as [y|]; simpl; auto.
  intros H. apply andb_prop in H. destruct H as [H1 H2]. f_equal.
  - apply map_ext. intros [v|]; auto. rewrite vdesc_name, vdesc_named. reflexivity.
  - apply vdescs_fix; auto.
  - f_equal. apply map_ext_in. intros a Hin. apply unfold_attr_fix.
    eapply pf_as_inv in H2; eauto. apply in_map; auto.
Qed.
Lemma unfold_nodes_fix chain l :
  pf_ns np (ntrees_of (map (unfold_node [] h rec2 chain) l)) = true ->
  ntrees_of (map (unfold_node np h rec1 chain) l) = ntrees_of (map (unfold_node [] h rec2 chain) l).
Proof.
  intros H. f_equal. apply map_ext_in. intros n Hin. apply unfold_node_fix.
  eapply pf_ns_inv in H; eauto. apply in_map; auto.
Qed.
Lemma unfold_graph_body_fix chain g :
  pf_g np (unfold_graph_body [] h rec2 chain g) = true ->
  unfold_graph_body np h rec1 chain g = unfold_graph_body [] h rec2 chain g.
Proof.
  unfold unfold_graph_body. destruct (getg h g) as [z|]; simpl; auto.
  intros H. apply andb_prop in H. destruct H as [H H4].
  apply andb_prop in H. destruct H as [H H3]. apply andb_prop in H. destruct H as [H1 H2].
  f_equal.
  - apply vdescs_fix; auto.
  - revert H2. apply map_fix. intros; apply idesc_fix; auto.
  - apply unfold_nodes_fix; auto.
  - revert H4. apply (map_fix (fun o => pf_vd np (snd o))). intros v _ Hv. simpl in Hv.
    rewrite vdesc_fix by auto. reflexivity.
Qed.
End Rec2.

(* graph level *)
Lemma unfold_graph_fix fuel : forall chain g,
  pf_g np (unfold_graph [] fuel h chain g) = true ->
  unfold_graph np fuel h chain g = unfold_graph [] fuel h chain g.
Proof.
  induction fuel as [|f IH]; intros chain g; simpl; auto.
  apply unfold_graph_body_fix. exact IH.
Qed.
Lemma unfold_root_fix g : pf_g np (unfold_root [] h g) = true -> unfold_root np h g = unfold_root [] h g.
Proof. apply unfold_graph_fix. Qed.
Lemma unfold_function_fix f :
  pf_f np (unfold_function [] h f) = true -> unfold_function np h f = unfold_function [] h f.
Proof.
  unfold unfold_function. destruct (getg h (f_graph f)) as [z|]; simpl; auto.
  destruct (g_inits z); simpl; auto.
  intros H. apply andb_prop in H. destruct H as [H1 H2]. f_equal.
  - apply vdescs_fix; auto.
  - apply unfold_nodes_fix with (rec2 := unfold_graph [] (ser_fuel h) h); auto.
    exact (unfold_graph_fix (ser_fuel h)).
  - apply map_ext. intros v. rewrite vdesc_name, vdesc_named. reflexivity.
Qed.
Lemma unfold_model_fix m :
  pf_m np (unfold_model [] h m) = true -> unfold_model np h m = unfold_model [] h m.
Proof.
  unfold pf_m, unfold_model. simpl. intros H. apply andb_prop in H. destruct H as [H1 H2].
  f_equal.
  - apply unfold_root_fix; auto.
  - revert H2. apply map_fix. intros; apply unfold_function_fix; auto.
Qed.
End Fix2.

Lemma payfix : payfix_spec.
Proof.
  split.
  - intros np h m Hok Hid. apply pf_unfold_model; auto.
  - intros np h m _ H. apply unfold_model_fix; auto.
Qed.

(* C03/IsoDeserI.v — deserialize_function on the proto of a well-formed function tree. *)
From Coq Require Import NArith List Bool Arith Lia.
From IRV Require Import Base.Exn C03.Model C03.Canon C03.Inv C03.Tree C03.TreeF C03.IsoSpecs C03.IsoSpecsF C17.Basics C17.Specs C17.Steps C17.Phases C17.OpNode C17.OpGraph C17.Deser C03.IsoDeserA C03.IsoDeserB C03.IsoDeserC C03.IsoDeserD C03.IsoDeserE C03.IsoDeserF C03.IsoDeserG C03.IsoDeser C03.IsoDeserH.
Import ListNotations.

Arguments alloc_value : simpl never.
Arguments new_node : simpl never.
Arguments new_graph : simpl never.
Arguments lookup_scopes : simpl never.
Arguments lookup : simpl never.
Arguments alloc_named : simpl never.
Arguments apply_infos_named : simpl never.
Arguments declare_nodes : simpl never.
Arguments table_of_names : simpl never.
Arguments lookup_all : simpl never.

Lemma in_fn_vi j d : In j (fn_vi d) <-> vd_pay d <> 0%N /\ vd_name d <> 0%N /\ j = vi_of d.
Proof.
  unfold fn_vi. destruct (N.eqb_spec (vd_pay d) 0) as [Hp|Hp]; simpl.
  - split; [intros [] | intros (A & _); contradiction].
  - destruct (N.eqb_spec (vd_name d) 0) as [Hk|Hk]; simpl.
    + split; [intros [] | intros (_ & A & _); contradiction].
    + split; [intros [<-|[]]; auto | intros (_ & _ & ->); auto].
Qed.
Lemma in_fnvis j : forall ns, In j (t2p_fnvis ns) <-> exists d, In d (node_out_descs ns) /\ In j (fn_vi d).
Proof.
  induction ns as [|n r IH]; cbn [t2p_fnvis node_out_descs].
  - split; [intros [] | intros (d & [] & _)].
  - destruct n as [|nname op ntok ins outs attrs]; [exact IH|].
    rewrite in_app_iff, IH, in_flat_map. split.
    + intros [(d & Hd & Hj)|(d & Hd & Hj)]; exists d; (split; [apply in_or_app; auto | auto]).
    + intros (d & Hd & Hj). apply in_app_or in Hd. destruct Hd as [Hd|Hd]; [left|right]; eauto.
Qed.

Definition PF (F : ftree) : Prop := forall h, wf_f F = true ->
  exists h' f, deser_function (t2p_f F) h = Ok (h', f) /\ nested h h' /\ real_f (nv h) h' f F /\
               depth_f F + ngr h < ngr h' /\ f_id f = fid_of F.

Lemma PF_case fid ftok ins nodes outs : PF (FT fid ftok ins nodes outs).
Proof.
  intros h Hwf. cbn [wf_f] in Hwf.
  set (defs := tdefs ins [] nodes) in *. set (outn := map (fun o : ref * N * bool => snd (fst o)) outs) in *.
  apply andb_prop in Hwf. destruct Hwf as (Hwf & W6).
  apply andb_prop in Hwf. destruct Hwf as (Hwf & W5).
  apply andb_prop in Hwf. destruct Hwf as (W1 & W4).
  rewrite forallb_forall in W1, W6.
  set (Dn := map fst defs) in *.
  assert (NDn : NoDup Dn) by (apply nodup_N_NoDup; auto).
  assert (EDn : Dn = map vd_name ins ++ tout_names nodes).
  { unfold Dn, defs. rewrite tdefs_names. reflexivity. }
  set (pay_of := fun k => match lookup k defs with Some p => p | None => 0%N end).
  assert (F1 : forall k p, In (k, p) defs -> pay_of k = p).
  { intros k p Hin. unfold pay_of. rewrite (In_lookup k p defs); auto. }
  set (I := fun (k p : N) => p = pay_of k).
  set (b := nv h). set (inn := map vd_name ins).
  set (vis := flat_map fn_vi ins ++ t2p_fnvis nodes).
  assert (Din : forall d, In d ins -> In (vd_name d, vd_pay d) defs).
  { intros d Hd. unfold defs, tdefs. apply in_or_app. left. apply in_map_iff. exists d; auto. }
  assert (Dout : forall d, In d (node_out_descs nodes) -> vd_name d <> 0%N -> In (vd_name d, vd_pay d) defs).
  { intros d Hd Hz. unfold defs, tdefs. apply in_or_app. right. apply in_or_app. right.
    apply in_map_iff. exists d. split; auto. apply filter_In. split; auto. destruct (N.eqb_spec (vd_name d) 0); auto. }
  assert (WIn : forall d, In d ins -> vd_named d = true /\ vd_name d <> 0%N /\ vd_out d = memN (vd_name d) outn).
  { intros d Hd. specialize (W1 d Hd). unfold wf_in in W1. apply andb_prop in W1. destruct W1 as (W1 & Wc).
    apply andb_prop in W1. destruct W1 as (Wa & Wb). apply negb_true_iff in Wb. apply N.eqb_neq in Wb.
    apply eqb_prop in Wc. csplit; auto. }
  assert (WN : forall d, In d (node_out_descs nodes) -> wf_node_out outn d = true).
  { eapply wf_ns_descs; eauto. }
  assert (F2 : forall k j, vi_lookup k vis = Some j -> vi_bad j = false /\ vi_pay j = pay_of k).
  { intros k j Hj. apply vi_lookup_In in Hj. destruct Hj as (Hj & Hk). unfold vis in Hj. apply in_app_or in Hj.
    destruct Hj as [Hj|Hj].
    - apply in_flat_map in Hj. destruct Hj as (d & Hd & Hj). apply in_fn_vi in Hj. destruct Hj as (A1 & A2 & ->).
      cbn in *. subst k. split; auto. symmetry. apply F1. apply Din; auto.
    - apply in_fnvis in Hj. destruct Hj as (d & Hd & Hj). apply in_fn_vi in Hj. destruct Hj as (A1 & A2 & ->).
      cbn in *. subst k. split; auto. symmetry. apply F1. apply Dout; auto. }
  assert (F3 : forall k, match vi_lookup k vis with Some i => vi_bad i = false /\ I k (vi_pay i) | None => True end).
  { intros k. destruct (vi_lookup k vis) as [j|] eqn:Ej; auto. destruct (F2 _ _ Ej). split; auto. }
  (* ---- inputs *)
  destruct (phase1n b I vis inn h eq_refl) as (h0 & invs & h1 & E1 & E1' & P1a & P1b & P1c & P1d & P1e & P1f & P1g & P1h).
  { intros k Hk. pose proof (F3 k) as H3. destruct (vi_lookup k vis) as [j|] eqn:Ej; auto.
    unfold inn in Hk. apply in_map_iff in Hk. destruct Hk as (d & <- & Hd). unfold I. rewrite (F1 _ _ (Din d Hd)).
    destruct (N.eqb_spec (vd_pay d) 0) as [Hp|Hp]; auto. exfalso.
    destruct (WIn d Hd) as (_ & Hz & _).
    assert (Hin : In (vi_of d) vis).
    { unfold vis. apply in_or_app. left. apply in_flat_map. exists d. split; auto. apply in_fn_vi. csplit; auto. }
    apply vi_lookup_some in Hin. cbn in Hin. congruence. }
  set (tbl0 := table_of_names [] inn invs) in *.
  (* ---- declare *)
  assert (NDo : NoDup (tout_names nodes)).
  { rewrite EDn in NDn. apply NoDup_app_r in NDn. auto. }
  destruct (declare_nodes_spec b I vis nodes h1 tbl0) as (h5 & tbl2 & E4 & P4a & P4b & P4c & P4d & P4e & P4f & P4g & P4h); auto.
  { intros k Hk Hc'. rewrite P1g in Hc'. rewrite EDn in NDn. eapply NoDup_app_disj; eauto. }
  { intros k Hk. pose proof (F3 k) as H3. destruct (vi_lookup k vis) as [j|] eqn:Ej; auto.
    rewrite tout_names_descs in Hk. apply In_nz in Hk. destruct Hk as (Hk & Hz).
    apply in_map_iff in Hk. destruct Hk as (d & <- & Hd). unfold I. rewrite (F1 _ _ (Dout d Hd Hz)).
    destruct (N.eqb_spec (vd_pay d) 0) as [Hp|Hp]; auto. exfalso.
    assert (Hin : In (vi_of d) vis).
    { unfold vis. apply in_or_app. right. apply in_fnvis. exists d. split; auto. apply in_fn_vi. csplit; auto. }
    apply vi_lookup_some in Hin. cbn in Hin. congruence. }
  assert (N2 : nms tbl2 = Dn) by (rewrite P4g, P1g, EDn; auto).
  assert (O5 : forall u, u < nv h -> getv h5 u = getv h u).
  { intros u Hu. rewrite P4e by lia. auto. }
  assert (HN5 : hn h5 = hn h) by congruence.
  assert (HG5 : hg h5 = hg h) by congruence.
  assert (HT5 : ht h5 = ht h) by congruence.
  assert (X05 : ext h h5).
  { unfold ext, nn, ngr, getn, getg, gett. rewrite HN5, HG5, HT5. csplit; auto; try lia; eauto.
    intros v x Hx. exists x. split; auto. rewrite O5; auto. eapply getv_lt; eauto. }
  (* ---- nodes *)
  assert (NDt : NoDup (map fst tbl2)) by (apply NoDup_nms_fst; rewrite N2; auto).
  assert (Hc2 : chain_ok [tbl2]).
  { cbn [chain_ok]. csplit; auto.
    - rewrite N2; auto.
    - eapply NoDup_ids; eauto. rewrite N2; auto. }
  assert (Hdecl : forall k, In k (tout_names nodes) -> In k (nms tbl2)).
  { intros k Hk. rewrite N2, EDn. apply in_or_app. auto. }
  destruct deser_all_iso as (_ & IHn & _).
  destruct (IHn nodes b I [Dn] outn [] tbl2 vis h5 (nv h5)) as (h6 & nids & E5 & S5 & P5 & R5 & D5); auto.
  { intros t k v []. }
  { cbn [map]. rewrite N2. auto. }
  { apply TB_TQ; auto. }
  { intros k v x _ Hin Hx. destruct (P4f k v Hin) as (_ & x' & Hx' & _ & Hp & _). congruence. }
  pose proof S5 as (X56 & V56 & G56).
  assert (T6 : TQ b I h6 tbl2) by (eapply TQ_nstep; eauto; apply TB_TQ; auto).
  (* ---- outputs *)
  assert (WO : forall o, In o outs -> snd o = true /\ snd (fst o) <> 0%N /\
             fst (fst o) = resolve (snd (fst o)) [Dn] 0 /\ fst (fst o) <> None).
  { intros o Ho. specialize (W6 o Ho). destruct o as [[r k] nm]. cbn [fst snd].
    apply andb_prop in W6. destruct W6 as (W6 & Wd). apply andb_prop in W6. destruct W6 as (W6 & Wc).
    apply andb_prop in W6. destruct W6 as (Wa & Wb).
    apply negb_true_iff in Wb. apply N.eqb_neq in Wb. apply ref_eqb_eq in Wd. csplit; auto.
    destruct r; [discriminate|discriminate]. }
  assert (LO : forall o, In o outs -> exists v, lookup (snd (fst o)) tbl2 = Some v /\ In (snd (fst o), v) tbl2).
  { intros o Ho. destruct (WO o Ho) as (_ & _ & Er & Hr). rewrite Er in Hr. cbn [resolve] in Hr.
    assert (Hk : In (snd (fst o)) Dn).
    { destruct (index_N (snd (fst o)) Dn 0) eqn:Ei; [|congruence].
      destruct (in_dec N.eq_dec (snd (fst o)) Dn) as [Hi|Hi]; auto. apply index_N_None with (i := 0) in Hi. congruence. }
    rewrite <- N2 in Hk. apply In_nms in Hk. destruct Hk as (v & Hv). exists v. split; auto. apply In_lookup; auto. }
  assert (E6 : lookup_all tbl2 outn = Ok (map (look tbl2) outn)).
  { apply lookup_all_spec. intros k Hk. unfold outn in Hk. apply in_map_iff in Hk. destruct Hk as (o & <- & Ho).
    destruct (LO o Ho) as (v & Hl & _). congruence. }
  set (outvs := map (look tbl2) outn) in *.
  assert (T7 : forall k v, In (k, v) tbl2 -> exists x7, getv h6 v = Some x7 /\
             v_name x7 = Some k /\ v_owner x7 = None /\ v_in x7 = false /\ v_out x7 = false /\ v_init x7 = false /\
             v_info x7 = pay_of k /\ (~ In k (tout_names nodes) -> v_prod x7 = None)).
  { intros k v Hin. destruct (P4f k v Hin) as (_ & x5 & Hx5 & A1 & A2 & A3 & A4 & A5 & A6 & A7).
    destruct (V56 _ _ Hx5) as (x6 & Hx6 & Em & Hp). apply vmid_inv in Em. destruct Em as (M1 & M2 & M3 & M4 & M5 & M6 & M7).
    exists x6. split; auto. rewrite M1, M2, M3, M4, M5, M7. csplit; auto.
    intros Hnk. destruct Hp as [Hp|(k' & Hk' & Hin')]; [congruence|].
    assert (k' = k) by (eapply TQ_inj; eauto). subst k'. contradiction. }
  assert (FV2 : Forall2 (fun d v => In (vd_name d, v) tbl2) ins invs).
  { unfold inn in P1h. apply Forall2_map_l in P1h. eapply Forall2_impl; [|exact P1h]. intros d v Hin. apply P4h. auto. }
  destruct (new_graph_ok h6 0%N 0%N invs outvs [] nids) as (l3 & ln & E7 & L3 & LN & Len3 & Lenn).
  { intros v Hv. destruct (Forall2_in_r _ _ _ _ FV2 Hv) as (d & Hd & Hin).
    destruct (T7 _ _ Hin) as (x7 & Hx7 & B1 & B2 & B3 & B4 & B5 & B7 & B8). exists x7. csplit; auto.
    apply B8. intros Hk. rewrite EDn in NDn. eapply NoDup_app_disj; [exact NDn| |exact Hk]. apply in_map; auto. }
  { intros v Hv. unfold outvs, outn in Hv. rewrite map_map in Hv. apply in_map_iff in Hv. destruct Hv as (o & <- & Ho).
    destruct (LO o Ho) as (v & Hl & Hin). unfold look. rewrite Hl.
    destruct (T7 _ _ Hin) as (x7 & Hx7 & B1 & B2 & _). exists x7. auto. }
  { intros k v []. }
  { constructor. }
  { intros n Hn'. eapply pre_ns_nodes; eauto. }
  cbn [map] in E7, L3.
  set (z := mkG 0%N 0%N invs outvs [] nids) in *. set (gid := ngr h6) in *.
  set (h8 := mkH l3 ln (hg h6 ++ [z]) (ht h6)) in *.
  assert (GV8 : forall v, getv h8 v = option_map (gval gid invs outvs [] v) (getv h6 v)).
  { intros v. unfold getv at 1. unfold h8; cbn [hv]. rewrite L3. reflexivity. }
  assert (GN8 : forall n, getn h8 n = option_map (nnode gid nids n) (getn h6 n)).
  { intros n. unfold getn at 1. unfold h8; cbn [hn]. rewrite LN. reflexivity. }
  assert (NV8 : nv h8 = nv h6) by (unfold nv, h8; cbn [hv]; auto).
  assert (GG8 : getg h8 gid = Some z).
  { unfold getg, h8, gid, ngr; cbn [hg]. apply nth_error_app_new. }
  assert (Hrole : forall v, In v invs \/ In v outvs -> exists k, In (k, v) tbl2).
  { intros v [Hv|Hv].
    - destruct (Forall2_in_r _ _ _ _ FV2 Hv) as (d & _ & Hin). eauto.
    - unfold outvs, outn in Hv. rewrite map_map in Hv. apply in_map_iff in Hv. destruct Hv as (o & <- & Ho).
      destruct (LO o Ho) as (v & Hl & Hin). unfold look. rewrite Hl. eauto. }
  assert (Tout : forall k v, In (k, v) tbl2 -> memb v outvs = memN k outn).
  { intros k v Hin. destruct (memN k outn) eqn:Em.
    - apply memb_In. apply memN_In in Em. unfold outvs. apply in_map_iff. exists k. split; auto. apply look_In; auto.
    - apply memb_notIn. intros Hv. apply memN_notIn in Em. apply Em. unfold outvs in Hv. apply in_map_iff in Hv.
      destruct Hv as (k' & Ev & Hk'). pose proof Hk' as Hk''. unfold outn in Hk''. apply in_map_iff in Hk''.
      destruct Hk'' as (o & <- & Ho). destruct (LO o Ho) as (v' & Hl & Hin'). unfold look in Ev. rewrite Hl in Ev. subst v'.
      assert (snd (fst o) = k) by (eapply TQ_inj; eauto). subst k. auto. }
  assert (F8 : forall k v, In (k, v) tbl2 -> b <= v < nv h8 /\ exists x8, getv h8 v = Some x8 /\ v_name x8 = Some k /\
             vdesc_of [] h8 v = mkVD k true (pay_of k) (memN k outn)).
  { intros k v Hin. destruct (T7 _ _ Hin) as (x7 & Hx7 & B1 & B2 & B3 & B4 & B5 & B7 & B8).
    assert (Hx8 : getv h8 v = Some (gval gid invs outvs [] v x7)) by (rewrite GV8, Hx7; auto).
    split. { split; [destruct (TB_lt _ _ _ _ _ _ P4f Hin); auto | eapply getv_lt; eauto]. }
    eexists. split; [exact Hx8|]. split; [exact B1|].
    unfold vdesc_of. rewrite Hx8, tpay_nil. cbn. rewrite B1, B4, B7, (Tout _ _ Hin). rewrite orb_false_r. auto. }
  assert (NN5 : nn h5 = nn h) by (unfold nn; rewrite HN5; auto).
  assert (N08 : nested h h8).
  { assert (VF : forall v x, getv h v = Some x -> exists x', getv h8 v = Some x' /\ vfix x' = vfix x).
    { intros v x Hx. assert (Hv : v < nv h) by (eapply getv_lt; eauto).
      assert (Hnt : forall k, ~ In (k, v) tbl2).
      { intros k Hin. destruct (TB_lt _ _ _ _ _ _ P4f Hin). unfold b in *. lia. }
      assert (Hx5 : getv h5 v = Some x) by (rewrite O5; auto).
      destruct (V56 _ _ Hx5) as (x6 & Hx6 & Em & Hp).
      destruct Hp as [Hp|(k & _ & Hin)]; [|exfalso; eapply Hnt; eauto].
      exists x6. split.
      - rewrite GV8, Hx6. cbn [option_map]. f_equal. apply gval_untouched.
        assert (G : forall l, (In v l -> exists k, In (k, v) tbl2) -> memb v l = false).
        { intros l Hl. apply memb_notIn. intros Hin. destruct (Hl Hin) as (k & Hk). eapply Hnt; eauto. }
        rewrite !G; auto. intros [].
      - apply vmid_inv in Em. destruct Em as (M1 & M2 & M3 & M4 & M5 & M6 & M7). unfold vfix. congruence. }
    assert (NF : forall n y, getn h n = Some y -> getn h8 n = Some y).
    { intros n y Hy. assert (Hn' : n < nn h) by (eapply getn_lt; eauto).
      assert (Hy5 : getn h5 n = Some y) by (unfold getn in *; rewrite HN5; auto).
      rewrite GN8, (G56 _ _ Hy5). cbn [option_map]. f_equal. unfold nnode.
      assert (Hm : memb n nids = false) by (apply memb_notIn; intros Hin; apply R5 in Hin; lia).
      rewrite Hm. auto. }
    split; [|split; auto].
    pose proof X05 as (A1 & A2 & A3 & A4 & A5 & A6 & A7). pose proof X56 as (B1 & B2 & B3 & B4 & B5 & B6 & B7).
    unfold ext. csplit.
    - rewrite NV8. lia.
    - unfold nn at 2. unfold h8; cbn [hn]. rewrite Lenn. fold (nn h6). lia.
    - unfold ngr at 2. unfold h8; cbn [hg]. rewrite app_length. fold (ngr h6). cbn. lia.
    - intros v x Hx. destruct (VF _ _ Hx) as (x' & Hx' & E). exists x'. split; auto.
      apply vfix_inv in E. destruct E as (E & _). auto.
    - intros n y Hy. exists y. split; auto.
    - intros g z0 Hz. apply A6, B6 in Hz. unfold getg in *. unfold h8; cbn [hg].
      rewrite nth_error_app1; auto. apply nth_error_Some. congruence.
    - intros t c Hc'. apply A7, B7 in Hc'. unfold gett in *. unfold h8; cbn [ht]. auto. }
  assert (K68 : keeps (nv h5) h6 h8).
  { assert (VK : forall v x, nv h5 <= v -> getv h6 v = Some x -> exists x', getv h8 v = Some x' /\ vview x' = vview x).
    { intros v x Hv Hx.
      assert (Hnt : forall k, ~ In (k, v) tbl2).
      { intros k Hin. destruct (TB_lt _ _ _ _ _ _ P4f Hin). lia. }
      eexists. split; [rewrite GV8, Hx; reflexivity|].
      unfold vview. cbn. assert (Hm : memb v outvs = false).
      { apply memb_notIn. intros Hin. destruct (Hrole v (or_intror Hin)) as (k & Hk). eapply Hnt; eauto. }
      rewrite Hm. auto. }
    split; auto. unfold ext. csplit.
    - rewrite NV8. lia.
    - unfold nn at 2. unfold h8; cbn [hn]. rewrite Lenn. unfold nn. lia.
    - unfold ngr at 2. unfold h8; cbn [hg]. rewrite app_length. unfold ngr. cbn. lia.
    - intros v x Hx. eexists. split; [rewrite GV8, Hx; reflexivity|]. reflexivity.
    - intros n y Hy. rewrite GN8, Hy. eexists. split; [reflexivity|]. unfold nnode. destruct (memb n nids); reflexivity.
    - intros g z0 Hz. unfold getg in *. unfold h8; cbn [hg].
      rewrite nth_error_app1; auto. apply nth_error_Some. congruence.
    - intros t c Hc'. unfold gett in *. unfold h8; cbn [ht]. auto. }
  assert (GD : gdefs h8 z = ids tbl2).
  { rewrite <- (map_look_nms tbl2) by (rewrite N2; auto). rewrite N2, EDn, !map_app.
    unfold gdefs. cbn [g_inputs g_inits g_nodes z map filter app]. f_equal.
    - symmetry. apply map_look_Forall2; auto.
    - eapply gdefs_nodes with (h := h6); eauto.
      + intros n y Hy. rewrite GN8, Hy. eexists. split; [reflexivity|]. apply nnode_outputs.
      + intros k v Hin _. destruct (F8 _ _ Hin) as (_ & x8 & Hx8 & Hn8 & _). eauto. }
  (* ---- conclusion *)
  exists h8, (mkF fid ftok gid). split.
  { unfold deser_function. cbn [t2p_f fp_ins fp_outs fp_vis fp_nodes fp_bad fp_id fp_tok].
    pose proof E1' as E1''. pose proof E4 as E4'. pose proof E5 as E5'. pose proof E6 as E6'. pose proof E7 as E7'.
    unfold tbl0, vis, inn in E1'', E4', E5'. unfold outn in E6'. unfold outvs, outn in E7'.
    unfold inn in E1. rewrite E1, E1'', E4', E5', E6'. rewrite E7. reflexivity. }
  split; [exact N08|].
  assert (NG8 : ngr h8 = S gid).
  { unfold ngr at 1. unfold h8; cbn [hg]. rewrite app_length. cbn. unfold gid, ngr. lia. }
  split; [|split; [|reflexivity]].
  2:{ cbn [depth_f]. rewrite NG8. unfold gid, ngr in *. rewrite HG5 in D5. lia. }
  cbn [real_f f_graph f_id f_tok]. exists z. split; [exact GG8|]. rewrite GD. unfold z at 1 2 3 4 5 6.
  cbn [g_inputs g_inits g_outputs g_nodes].
  split; [reflexivity|]. split; [reflexivity|]. split; [reflexivity|]. split.
  { apply Forall2_map_eq. apply Forall2_flip. eapply Forall2_impl_In; [|exact FV2]. intros d v Hd Hv Hin. cbn beta.
    destruct (F8 _ _ Hin) as (_ & x8 & _ & _ & Ev). rewrite Ev.
    destruct (WIn d Hd) as (Wa & _ & Wc). rewrite (F1 _ _ (Din d Hd)), <- Wc, <- Wa. destruct d; reflexivity. }
  split.
  { unfold outvs, outn. rewrite !map_map. rewrite <- (map_id outs) at 2. apply map_ext_in. intros o Ho.
    destruct (LO o Ho) as (v & Hl & Hin). unfold look. rewrite Hl.
    destruct (WO o Ho) as (A1 & A2 & A3 & A4).
    destruct (F8 _ _ Hin) as (_ & x8 & _ & _ & Ev). rewrite Ev.
    destruct o as [[r k] nm]. cbn [fst snd vd_name vd_named] in *. subst nm. f_equal. f_equal.
    assert (Hls : lookup_scopes k [tbl2] = Some v).
    { unfold lookup_scopes. rewrite Hl. auto. }
    destruct (find_resolve [tbl2] k v 0 Hc2 Hls) as (Ef & _). cbn [map] in Ef. rewrite Ef, N2. auto. }
  split.
  { intros v Hv. destruct (Hrole v (or_introl Hv)) as (k & Hk). destruct (F8 _ _ Hk); auto. }
  split.
  { intros v Hv. destruct (Hrole v (or_intror Hv)) as (k & Hk). destruct (F8 _ _ Hk); auto. }
  change [ids tbl2] with (map ids [tbl2]) .
  eapply pre_real_ns with (lo := nv h5) (h := h6) (tbl := tbl2) (nsc := [Dn]) (outn := outn); eauto.
  - destruct X05; auto.
  - intros k v Hin _. destruct (F8 _ _ Hin) as (A & x8 & Hx8 & Hn8 & _). split; eauto.
  - intros d v Hd Hz Hin. destruct (F8 _ _ Hin) as (_ & x8 & _ & _ & Ev). rewrite Ev.
    destruct (wf_node_out_named _ _ (WN d Hd) Hz) as (A1 & A2). rewrite (F1 _ _ (Dout d Hd Hz)), <- A2.
    rewrite <- A1. destruct d; reflexivity.
Qed.

Lemma PF_all : forall F, PF F.
Proof. intros [|fid ftok ins nodes outs]; [intros h Hwf; discriminate | apply PF_case]. Qed.

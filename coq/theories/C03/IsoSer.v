(* C03/IsoSer.v — half (A) of C03_iso: on every state whose unfolding is well formed the serializer
   succeeds and writes exactly the proto t2p_g computes from the unfolding. *)
From Coq Require Import NArith List Bool Arith Lia.
From IRV Require Import Base.Exn C03.Model C03.Canon C03.Inv C03.Tree C03.IsoSpecs C03.Readonly C03.Twice.
Import ListNotations.

(* split every boolean conjunction among the hypotheses *)
Ltac splitb :=
  repeat match goal with
  | H : _ && _ = true |- _ =>
    let H1 := fresh H in let H2 := fresh H in
    apply andb_prop in H; destruct H as [H1 H2]
  end.

(* H : a && b = true  becomes  H : a = true, H2 : b = true *)
Ltac spl H H2 := apply andb_prop in H; destruct H as [H H2].

(* ------------------------------------------------------------------ tn_equiv is a preorder *)
Lemma tn_refl h : tn_equiv h h.
Proof.
  split; [|split; [|split]]; auto. intros c. destruct (gett h c); auto. repeat split; auto.
Qed.

Lemma tn_trans h a b : tn_equiv h a -> tn_equiv a b -> tn_equiv h b.
Proof.
  intros (A1 & A2 & A3 & A4) (B1 & B2 & B3 & B4). split; [|split; [|split]]; try congruence.
  intros c. specialize (A4 c). specialize (B4 c).
  destruct (gett h c), (gett a c), (gett b c); auto; try contradiction.
  destruct A4 as (? & ? & ? & ?), B4 as (? & ? & ? & ?). repeat split; congruence.
Qed.

Lemma set_tname_tn_r h a c k : tn_equiv h a -> tn_equiv h (set_tname a c k).
Proof.
  intros (A1 & A2 & A3 & A4). unfold tn_equiv, set_tname, gett in *; simpl.
  split; [|split; [|split]]; auto.
  intros c'. rewrite upd_nth. specialize (A4 c'). destruct (Nat.eqb c c'); auto.
  destruct (nth_error (ht h) c') as [t|], (nth_error (ht a) c') as [t'|]; simpl; auto.
Qed.

(* ------------------------------------------------------------------ the leaf normalisation *)
Lemma np_lookup0 np : np_ok np = true -> lookup 0%N np = None.
Proof.
  induction np as [|[p q] r IH]; simpl; intros H; auto. splitb. simpl in *.
  destruct p; [discriminate|]. auto.
Qed.
Lemma norm_pay0 np : np_ok np = true -> norm_pay np 0%N = 0%N.
Proof. intros H. unfold norm_pay. rewrite np_lookup0; auto. Qed.
Lemma np_lookup_nz np p q : np_ok np = true -> lookup p np = Some q -> q <> 0%N.
Proof.
  induction np as [|[p' q'] r IH]; simpl; intros H L; [discriminate|]. splitb. simpl in *.
  destruct (N.eqb p p').
  - inversion L; subst. destruct (N.eqb_spec q 0%N); [discriminate|auto].
  - auto.
Qed.
Lemma norm_pay_nz np p : np_ok np = true -> p <> 0%N -> norm_pay np p <> 0%N.
Proof.
  intros H Hp. unfold norm_pay. destruct (lookup p np) as [q|] eqn:L; auto. eapply np_lookup_nz; eauto.
Qed.
Lemma tpay_eq np x : np_ok np = true -> tpay np x = norm_pay np (v_info x).
Proof.
  intros H. unfold tpay. destruct (N.eqb_spec (v_info x) 0%N) as [E|E]; auto. rewrite E, norm_pay0; auto.
Qed.
Lemma tpay_z np x : np_ok np = true -> N.eqb (tpay np x) 0%N = N.eqb (v_info x) 0%N.
Proof.
  intros H. unfold tpay. destruct (N.eqb_spec (v_info x) 0%N) as [E|E]; auto.
  apply N.eqb_neq. apply norm_pay_nz; auto.
Qed.

(* ------------------------------------------------------------------ pure readers, on the original heap *)
Section Comp.
Variable np : list (N * N).
Hypothesis Hnp : np_ok np = true.
Variable h : heap.

Lemma ser_values_tree vs :
  (forall v, In v vs -> vd_named (vdesc_of np h v) = true) ->
  ser_values np h vs = Ok (map vi_of (map (vdesc_of np h) vs)).
Proof.
  induction vs as [|v r IH]; simpl; intros Hn; auto.
  pose proof (Hn v (or_introl eq_refl)) as Hv.
  rewrite IH by (intros; apply Hn; right; auto).
  unfold ser_value, vi_of, vdesc_of in *. destruct (getv h v) as [x|]; [|discriminate].
  destruct (v_name x) as [k|]; [|discriminate]. simpl. rewrite tpay_eq; auto.
Qed.

Definition nin (chain : list (list nat)) (ov : option nat) : option (ref * N * bool) :=
  match ov with
  | None => None
  | Some v => Some (find_ref v chain 0, vd_name (vdesc_of np h v), vd_named (vdesc_of np h v))
  end.

Lemma ser_node_inputs_tree nsc chain ins :
  forallb (wf_node_in nsc) (map (nin chain) ins) = true ->
  ser_node_inputs h ins
  = Ok (map (fun o : option (ref * N * bool) => match o with None => 0%N | Some rd => snd (fst rd) end)
            (map (nin chain) ins)).
Proof.
  induction ins as [|[v|] r IH]; simpl; intros Hw; auto.
  - splitb. rewrite IH; auto. unfold vdesc_of in *. destruct (getv h v) as [x|]; [|discriminate].
    destruct (v_name x) as [k|]; [|discriminate]. reflexivity.
  - rewrite IH; auto.
Qed.

Lemma ser_node_outputs_tree outs :
  (forall v, In v outs -> vd_named (vdesc_of np h v) = true) ->
  ser_node_outputs h outs = Ok (map vd_name (map (vdesc_of np h) outs)).
Proof.
  induction outs as [|v r IH]; simpl; intros Hn; auto.
  pose proof (Hn v (or_introl eq_refl)) as Hv.
  rewrite IH by (intros; apply Hn; right; auto).
  unfold vdesc_of in *. destruct (getv h v) as [x|]; [|discriminate].
  destruct (v_name x) as [k|]; [|discriminate]. reflexivity.
Qed.

Lemma out_vis_tree outs : out_vis np h outs = flat_map out_vi (map (vdesc_of np h) outs).
Proof.
  induction outs as [|v r IH]; simpl; auto. rewrite IH. unfold out_vi, vi_of, vdesc_of.
  destruct (getv h v) as [x|]; simpl; auto.
  rewrite tpay_z by auto. unfold should_vi, falsy.
  destruct (v_out x); simpl; auto.
  destruct (N.eqb (v_info x) 0); simpl; auto.
  destruct (v_name x) as [k|]; simpl; auto.
  destruct (N.eqb k 0); simpl; auto. rewrite tpay_eq; auto.
Qed.

Lemma out_vis_trim outs : out_vis np h (trim_outputs h outs) = out_vis np h outs.
Proof.
  induction outs as [|v r IH]; simpl; auto.
  destruct (trim_outputs h r) as [|w l] eqn:Et.
  - simpl in IH. rewrite <- IH.
    destruct (getv h v) as [x|] eqn:Ev; simpl; rewrite ?Ev; auto.
    destruct (falsy (v_name x)) eqn:Ef; simpl; rewrite ?Ev; auto.
    unfold should_vi. rewrite Ef. simpl. rewrite !andb_false_r. auto.
  - change (out_vis np h (v :: w :: l)) with
      (match getv h v with
       | Some x => if negb (v_out x) && should_vi x
                   then mkVI (match v_name x with Some k => k | None => 0%N end) (norm_pay np (v_info x)) false :: out_vis np h (w :: l)
                   else out_vis np h (w :: l)
       | None => out_vis np h (w :: l)
       end).
    rewrite IH. auto.
Qed.

Lemma in_names_mem ins k :
  (forall v, In v ins -> vd_named (vdesc_of np h v) = true) ->
  existsb (fun k' => option_eqb N.eqb k' (Some k))
          (map (fun v => match getv h v with Some x => v_name x | None => None end) ins)
  = memN k (map vd_name (map (vdesc_of np h) ins)).
Proof.
  unfold memN. induction ins as [|v r IH]; simpl; intros Hn; auto.
  pose proof (Hn v (or_introl eq_refl)) as Hv.
  rewrite IH by (intros; apply Hn; right; auto).
  unfold vdesc_of in *. destruct (getv h v) as [x|]; [|discriminate].
  destruct (v_name x) as [k'|]; [|discriminate]. simpl. rewrite (N.eqb_sym k' k). auto.
Qed.

(* initializers: the heap is threaded (tensor renaming), the tree reads the original heap *)
Lemma ser_inits_tree z ins :
  (forall v, In v ins -> vd_named (vdesc_of np h v) = true) ->
  forall l a, tn_equiv h a ->
    forallb (wf_init (map (vdesc_of np h) ins)) (map (idesc_of np h z) l) = true ->
    exists a',
      ser_inits np a (map (fun v => match getv h v with Some x => v_name x | None => None end) ins) l
      = Ok (a', flat_map init_tps (map (idesc_of np h z) l),
            flat_map (init_vis (map vd_name (map (vdesc_of np h) ins))) (map (idesc_of np h z) l))
      /\ tn_equiv h a'.
Proof.
  intros Hins. induction l as [|[k0 v] r IH]; intros a E Hw.
  - simpl. eauto.
  - cbn [map forallb] in Hw. apply andb_prop in Hw. destruct Hw as [Hw1 Hw2].
    cbn [map flat_map ser_inits]. rewrite (tn_getv _ _ v E).
    set (R := map (idesc_of np h z) r) in *.
    unfold idesc_of in Hw1 |- *. cbn [snd] in *.
    destruct (getv h v) as [x|] eqn:Ev; [|discriminate].
    unfold wf_init in Hw1. cbn [id_named id_name id_tensor id_input id_pay] in Hw1.
    destruct (v_name x) as [k|] eqn:Ek; [|discriminate].
    destruct (v_const x) as [c|] eqn:Ec; [|rewrite andb_false_r in Hw1; discriminate].
    pose proof E as (_ & _ & _ & E4). specialize (E4 c).
    destruct (gett h c) as [t|] eqn:Et; [|rewrite andb_false_r in Hw1; discriminate].
    destruct (gett a c) as [t'|] eqn:Et'; [|contradiction].
    destruct E4 as (B1 & B2 & B3 & B4).
    destruct (IH (set_tname a c (Some k)) (set_tname_tn_r _ _ c (Some k) E) Hw2) as (a' & Ea & T').
    exists a'. split; auto. rewrite Ea.
    unfold init_tps, init_vis. cbn [id_named id_name id_tensor id_input id_pay td_tok td_pay td_bad td_fill].
    rewrite B1, B2, B3, B4. rewrite in_names_mem by auto. rewrite tpay_z by auto.
    apply andb_prop in Hw1. destruct Hw1 as [Hw1 _]. simpl in Hw1.
    unfold should_vi, falsy. rewrite Ek, andb_true_r.
    cbn [app]. rewrite tpay_eq by auto. reflexivity.
Qed.
End Comp.

(* ------------------------------------------------------------------ one level of the recursion *)
Lemma t2p_gs_list l : gs_of_list (map t2p_g l) = t2p_gs (gtrees_of l).
Proof. induction l as [|g r IH]; simpl; auto. rewrite IH. auto. Qed.

Section Body.
Variable np : list (N * N).
Hypothesis Hnp : np_ok np = true.
Variable h : heap.
Variable rec_ser : heap -> nat -> res (heap * gproto).
Variable rec_unf : list (list nat) -> nat -> gtree.
Hypothesis Hrec : forall a nsc chain g,
  tn_equiv h a -> wf_g nsc (rec_unf chain g) = true ->
  exists a', rec_ser a g = Ok (a', t2p_g (rec_unf chain g)) /\ tn_equiv h a'.

Lemma ser_gs_tree nsc chain : forall l a,
  tn_equiv h a -> wf_gs nsc (gtrees_of (map (rec_unf chain) l)) = true ->
  exists a', ser_gs rec_ser a l = Ok (a', map t2p_g (map (rec_unf chain) l)) /\ tn_equiv h a'.
Proof.
  induction l as [|g r IH]; intros a E Hw.
  - simpl. eauto.
  - cbn [map gtrees_of wf_gs] in Hw. apply andb_prop in Hw. destruct Hw as [Hw1 Hw2].
    destruct (Hrec a nsc chain g E Hw1) as (a1 & Ea1 & T1).
    destruct (IH a1 T1 Hw2) as (a2 & Ea2 & T2).
    exists a2. split; auto. cbn [ser_gs map]. rewrite Ea1, Ea2. reflexivity.
Qed.

Lemma ser_attrs_tree nsc chain : forall al a,
  tn_equiv h a -> wf_as nsc (atrees_of (map (unfold_attr rec_unf chain) al)) = true ->
  exists a', ser_attrs rec_ser a al = Ok (a', t2p_as (atrees_of (map (unfold_attr rec_unf chain) al)))
             /\ tn_equiv h a'.
Proof.
  induction al as [|[k at_] r IH]; intros a E Hw.
  - simpl. eauto.
  - cbn [map atrees_of wf_as] in Hw. apply andb_prop in Hw. destruct Hw as [Hw1 Hw2].
    cbn [map atrees_of t2p_as ser_attrs].
    unfold unfold_attr at 1 in Hw1. unfold unfold_attr at 1. cbn [fst snd] in *.
    destruct at_ as [tok sbad|sg|sgs].
    + cbn [wf_a t2p_a] in *. destruct sbad; [discriminate|].
      destruct (IH a E Hw2) as (a1 & Ea1 & T1). exists a1. split; auto. rewrite Ea1. reflexivity.
    + cbn [wf_a t2p_a] in *.
      destruct (Hrec a nsc chain sg E Hw1) as (a1 & Ea1 & T1).
      destruct (IH a1 T1 Hw2) as (a2 & Ea2 & T2).
      exists a2. split; auto. rewrite Ea1, Ea2. reflexivity.
    + cbn [wf_a t2p_a] in *.
      destruct (ser_gs_tree nsc chain sgs a E Hw1) as (a1 & Ea1 & T1).
      destruct (IH a1 T1 Hw2) as (a2 & Ea2 & T2).
      exists a2. split; auto. rewrite Ea1, Ea2. rewrite t2p_gs_list. reflexivity.
Qed.

Lemma ser_node_tree nsc outn chain n a :
  tn_equiv h a -> wf_n nsc outn (unfold_node np h rec_unf chain n) = true ->
  exists a', ser_node rec_ser a n = Ok (a', t2p_n (unfold_node np h rec_unf chain n)) /\ tn_equiv h a'.
Proof.
  intros E Hw. unfold ser_node, unfold_node in *. rewrite (tn_getn _ _ n E).
  destruct (getn h n) as [y|]; [|discriminate].
  cbn [wf_n] in Hw. spl Hw Has. spl Hw Hnd. spl Hw Hnt. spl Hw Hout.
  rewrite (ser_node_inputs_tn _ _ _ E), (trim_outputs_tn _ _ _ E), (ser_node_outputs_tn _ _ _ E).
  rewrite (ser_node_inputs_tree np h nsc chain (n_inputs y)) by exact Hw.
  rewrite (ser_node_outputs_tree np h).
  2:{ intros v Hin. rewrite forallb_forall in Hout. specialize (Hout _ (in_map (vdesc_of np h) _ _ Hin)).
      unfold wf_node_out in Hout. spl Hout Hx. exact Hout. }
  destruct (ser_attrs_tree nsc chain (n_attrs y) a E Has) as (a1 & Ea1 & T1).
  exists a1. split; auto. rewrite Ea1. reflexivity.
Qed.

Lemma ser_nodes_tree nsc outn chain : forall ns a,
  tn_equiv h a -> wf_ns nsc outn (ntrees_of (map (unfold_node np h rec_unf chain) ns)) = true ->
  exists a', ser_nodes np rec_ser false a ns
             = Ok (a', t2p_ns (ntrees_of (map (unfold_node np h rec_unf chain) ns)),
                   t2p_nvis (ntrees_of (map (unfold_node np h rec_unf chain) ns)))
             /\ tn_equiv h a'.
Proof.
  induction ns as [|n r IH]; intros a E Hw.
  - simpl. eauto.
  - cbn [map ntrees_of wf_ns] in Hw. apply andb_prop in Hw. destruct Hw as [Hw1 Hw2].
    destruct (ser_node_tree nsc outn chain n a E Hw1) as (a1 & Ea1 & T1).
    destruct (IH a1 T1 Hw2) as (a2 & Ea2 & T2).
    exists a2. split; auto. cbn [ser_nodes map ntrees_of t2p_ns t2p_nvis]. rewrite Ea1, Ea2.
    rewrite (tn_getn _ _ n T1), (out_vis_tn _ _ _ _ T1).
    assert (Hn : exists y, getn h n = Some y).
    { unfold unfold_node in Hw1. destruct (getn h n) as [y|]; [eauto|discriminate]. }
    destruct Hn as (y & En). rewrite En.
    pose proof (eq_refl (unfold_node np h rec_unf chain n)) as HT.
    unfold unfold_node at 2 in HT. rewrite En in HT. rewrite HT. cbn [t2p_n].
    rewrite <- (out_vis_trim np h), (out_vis_tree np Hnp h). reflexivity.
Qed.

Lemma ser_graph_body_tree nsc chain g a :
  tn_equiv h a -> wf_g nsc (unfold_graph_body np h rec_unf chain g) = true ->
  exists a', ser_graph_body np rec_ser a g = Ok (a', t2p_g (unfold_graph_body np h rec_unf chain g))
             /\ tn_equiv h a'.
Proof.
  intros E Hw. unfold ser_graph_body, unfold_graph_body in *. rewrite (tn_getg _ _ g E).
  destruct (getg h g) as [z|]; [|discriminate].
  cbn [wf_g] in Hw. cbv zeta in Hw. spl Hw Hwo. spl Hw Hwn. spl Hw Hnd. spl Hw Hnd2. spl Hw Hwi.
  assert (Hins : forall v, In v (g_inputs z) -> vd_named (vdesc_of np h v) = true).
  { intros v Hin. rewrite forallb_forall in Hw. specialize (Hw _ (in_map (vdesc_of np h) _ _ Hin)).
    unfold wf_in in Hw. spl Hw Hx. spl Hw Hy. exact Hw. }
  assert (Houts : forall v, In v (g_outputs z) -> vd_named (vdesc_of np h v) = true).
  { intros v Hin. rewrite forallb_forall in Hwo.
    specialize (Hwo _ (in_map (fun v => (find_ref v [gdefs h z] 0, vdesc_of np h v)) _ _ Hin)).
    cbv beta iota in Hwo. spl Hwo H1. spl Hwo H2. spl Hwo H3. spl Hwo H4. spl Hwo H5. exact Hwo. }
  rewrite (ser_values_tn _ _ _ _ E), (ser_values_tree np Hnp h _ Hins).
  assert (Hinn : map (fun v => match getv a v with Some x => v_name x | None => None end) (g_inputs z)
               = map (fun v => match getv h v with Some x => v_name x | None => None end) (g_inputs z)).
  { apply map_ext. intros v. rewrite (tn_getv _ _ v E). auto. }
  rewrite Hinn.
  destruct (ser_inits_tree np Hnp h z (g_inputs z) Hins (g_inits z) a E Hwi) as (a1 & Ea1 & T1).
  rewrite Ea1.
  destruct (ser_nodes_tree _ _ _ (g_nodes z) a1 T1 Hwn) as (a2 & Ea2 & T2).
  rewrite Ea2.
  rewrite (ser_values_tn _ _ _ _ T2), (ser_values_tree np Hnp h _ Houts).
  exists a2. split; auto. cbn [t2p_g]. cbv zeta. rewrite !map_map. reflexivity.
Qed.
End Body.

(* ------------------------------------------------------------------ induction on the fuel *)
Lemma ser_graph_tree np : np_ok np = true ->
  forall fuel h a nsc chain g,
    tn_equiv h a -> wf_g nsc (unfold_graph np fuel h chain g) = true ->
    exists a', ser_graph np fuel a g = Ok (a', t2p_g (unfold_graph np fuel h chain g)) /\ tn_equiv h a'.
Proof.
  intros Hnp. induction fuel as [|f IH]; intros h a nsc chain g E Hw.
  - simpl in Hw. discriminate.
  - cbn [ser_graph unfold_graph] in *.
    eapply ser_graph_body_tree; eauto.
Qed.

Lemma ser_tree : ser_tree_spec.
Proof.
  intros np h g Hnp Hw. unfold unfold_root in *.
  destruct (ser_graph_tree np Hnp (ser_fuel h) h h [] [] g (tn_refl h) Hw) as (a' & Ea & _).
  exists a'. exact Ea.
Qed.

(* C03/IsoSerF.v — half (A) of C03_iso for whole models: on every model whose unfolding is well formed the
   serializer succeeds and writes exactly the proto t2p_m computes from the unfolding (main graph and
   model-local functions).  Extends C03/IsoSer.v. *)
From Coq Require Import NArith List Bool Arith Lia.
From IRV Require Import Base.Exn C03.Model C03.Canon C03.Inv C03.Tree C03.TreeF C03.IsoSpecs C03.IsoSpecsF C03.Readonly C03.Twice C03.IsoSer.
Import ListNotations.

(* ------------------------------------------------------------------ pure readers, on the original heap *)
Section CompF.
Variable np : list (N * N).
Hypothesis Hnp : np_ok np = true.
Variable h : heap.

Lemma fn_out_vis_tree outs : fn_out_vis np h outs = flat_map fn_vi (map (vdesc_of np h) outs).
Proof.
  induction outs as [|v r IH]; simpl; auto. rewrite IH. unfold fn_vi, vi_of, vdesc_of.
  destruct (getv h v) as [x|]; simpl; auto.
  rewrite tpay_z by auto. unfold should_vi, falsy.
  destruct (N.eqb (v_info x) 0); simpl; auto.
  destruct (v_name x) as [k|]; simpl; auto.
  destruct (N.eqb k 0); simpl; auto. rewrite tpay_eq; auto.
Qed.

Lemma fn_out_vis_trim outs : fn_out_vis np h (trim_outputs h outs) = fn_out_vis np h outs.
Proof.
  induction outs as [|v r IH]; simpl; auto.
  destruct (trim_outputs h r) as [|w l] eqn:Et.
  - simpl in IH. rewrite <- IH.
    destruct (getv h v) as [x|] eqn:Ev; simpl; rewrite ?Ev; auto.
    destruct (falsy (v_name x)) eqn:Ef; simpl; rewrite ?Ev; auto.
    unfold should_vi. rewrite Ef. simpl. rewrite !andb_false_r. auto.
  - change (fn_out_vis np h (v :: w :: l)) with
      (match getv h v with
       | Some x => if should_vi x
                   then mkVI (match v_name x with Some k => k | None => 0%N end) (norm_pay np (v_info x)) false :: fn_out_vis np h (w :: l)
                   else fn_out_vis np h (w :: l)
       | None => fn_out_vis np h (w :: l)
       end).
    rewrite IH. auto.
Qed.

Lemma ser_names_tree vs :
  (forall v, In v vs -> vd_named (vdesc_of np h v) = true) ->
  ser_names h vs = Ok (map vd_name (map (vdesc_of np h) vs)).
Proof.
  induction vs as [|v r IH]; simpl; intros Hn; auto.
  pose proof (Hn v (or_introl eq_refl)) as Hv.
  rewrite IH by (intros; apply Hn; right; auto).
  unfold vdesc_of in *. destruct (getv h v) as [x|]; [|discriminate].
  destruct (v_name x) as [k|]; [|discriminate]. reflexivity.
Qed.
End CompF.

(* ------------------------------------------------------------------ the nodes of a function body *)
Section BodyF.
Variable np : list (N * N).
Hypothesis Hnp : np_ok np = true.
Variable h : heap.
Variable rec_ser : heap -> nat -> res (heap * gproto).
Variable rec_unf : list (list nat) -> nat -> gtree.
Hypothesis Hrec : forall a nsc chain g,
  tn_equiv h a -> wf_g nsc (rec_unf chain g) = true ->
  exists a', rec_ser a g = Ok (a', t2p_g (rec_unf chain g)) /\ tn_equiv h a'.

Lemma ser_nodes_tree_fn nsc outn chain : forall ns a,
  tn_equiv h a -> wf_ns nsc outn (ntrees_of (map (unfold_node np h rec_unf chain) ns)) = true ->
  exists a', ser_nodes np rec_ser true a ns
             = Ok (a', t2p_ns (ntrees_of (map (unfold_node np h rec_unf chain) ns)),
                   t2p_fnvis (ntrees_of (map (unfold_node np h rec_unf chain) ns)))
             /\ tn_equiv h a'.
Proof.
  induction ns as [|n r IH]; intros a E Hw.
  - simpl. eauto.
  - cbn [map ntrees_of wf_ns] in Hw. apply andb_prop in Hw. destruct Hw as [Hw1 Hw2].
    destruct (ser_node_tree np h rec_ser rec_unf Hrec nsc outn chain n a E Hw1) as (a1 & Ea1 & T1).
    destruct (IH a1 T1 Hw2) as (a2 & Ea2 & T2).
    exists a2. split; auto. cbn [ser_nodes map ntrees_of t2p_ns t2p_fnvis]. rewrite Ea1, Ea2.
    rewrite (tn_getn _ _ n T1), (fn_out_vis_tn _ _ _ _ T1).
    assert (Hn : exists y, getn h n = Some y).
    { unfold unfold_node in Hw1. destruct (getn h n) as [y|]; [eauto|discriminate]. }
    destruct Hn as (y & En). rewrite En.
    pose proof (eq_refl (unfold_node np h rec_unf chain n)) as HT.
    unfold unfold_node at 2 in HT. rewrite En in HT. rewrite HT. cbn [t2p_n].
    rewrite <- (fn_out_vis_trim np h), (fn_out_vis_tree np Hnp h). reflexivity.
Qed.
End BodyF.

(* ------------------------------------------------------------------ one function *)
Lemma ser_function_tree np : np_ok np = true ->
  forall h a f,
    tn_equiv h a -> wf_f (unfold_function np h f) = true ->
    exists a', ser_function np a f = Ok (a', t2p_f (unfold_function np h f)) /\ tn_equiv h a'.
Proof.
  intros Hnp h a f E Hw. unfold ser_function, unfold_function in *. rewrite (tn_getg _ _ _ E).
  destruct (getg h (f_graph f)) as [z|]; [|discriminate].
  destruct (g_inits z) as [|i0 il] eqn:Ei; [|discriminate].
  cbv zeta in Hw. cbn [wf_f] in Hw. cbv zeta in Hw. spl Hw Hwo. spl Hw Hwn. spl Hw Hnd.
  assert (Hins : forall v, In v (g_inputs z) -> vd_named (vdesc_of np h v) = true).
  { intros v Hin. rewrite forallb_forall in Hw. specialize (Hw _ (in_map (vdesc_of np h) _ _ Hin)).
    unfold wf_in in Hw. spl Hw Hx. spl Hw Hy. exact Hw. }
  assert (Houts : forall v, In v (g_outputs z) -> vd_named (vdesc_of np h v) = true).
  { intros v Hin. rewrite forallb_forall in Hwo.
    specialize (Hwo _ (in_map (fun v => (find_ref v [gdefs h z] 0, vd_name (vdesc_of np h v), vd_named (vdesc_of np h v))) _ _ Hin)).
    cbv beta iota in Hwo. spl Hwo H1. spl Hwo H2. spl Hwo H3. exact Hwo. }
  rewrite !(ser_names_tn _ _ _ E).
  rewrite (ser_names_tree np h _ Hins), (ser_names_tree np h _ Houts).
  rewrite (tn_fuel _ _ E), (fn_out_vis_tn _ _ _ _ E).
  destruct (ser_nodes_tree_fn np Hnp h (ser_graph np (ser_fuel h)) (unfold_graph np (ser_fuel h) h)
              (ser_graph_tree np Hnp (ser_fuel h) h) _ _ _ (g_nodes z) a E Hwn) as (a1 & Ea1 & T1).
  rewrite Ea1. exists a1. split; auto.
  cbv zeta. cbn [t2p_f]. rewrite (fn_out_vis_tree np Hnp h), !map_map. reflexivity.
Qed.

(* ------------------------------------------------------------------ the function list, heap threaded *)
Lemma ser_functions_tree np : np_ok np = true ->
  forall h fs a,
    tn_equiv h a -> forallb wf_f (map (unfold_function np h) fs) = true ->
    exists a', ser_functions np a fs = Ok (a', map t2p_f (map (unfold_function np h) fs)) /\ tn_equiv h a'.
Proof.
  intros Hnp h. induction fs as [|f r IH]; intros a E Hw.
  - simpl. eauto.
  - cbn [map forallb] in Hw. apply andb_prop in Hw. destruct Hw as [Hw1 Hw2].
    destruct (ser_function_tree np Hnp h a f E Hw1) as (a1 & Ea1 & T1).
    destruct (IH a1 T1 Hw2) as (a2 & Ea2 & T2).
    exists a2. split; auto. cbn [ser_functions map]. rewrite Ea1, Ea2. reflexivity.
Qed.

(* general form: threaded heap *)
Lemma ser_model_tree_tn np : np_ok np = true ->
  forall h a m,
    tn_equiv h a -> wf_m (unfold_model np h m) = true ->
    exists a', ser_model np a m = Ok (a', t2p_m (unfold_model np h m)) /\ tn_equiv h a'.
Proof.
  intros Hnp h a m E Hw. unfold wf_m, unfold_model in Hw. cbn [mt_graph mt_funcs] in Hw.
  spl Hw Hnd. spl Hw Hwf. unfold unfold_root in Hw.
  unfold ser_model. rewrite (tn_fuel _ _ E).
  destruct (ser_graph_tree np Hnp (ser_fuel h) h a [] [] (m_graph m) E Hw) as (a1 & Ea1 & T1).
  rewrite Ea1.
  destruct (ser_functions_tree np Hnp h (m_funcs m) a1 T1 Hwf) as (a2 & Ea2 & T2).
  rewrite Ea2. exists a2. split; auto.
Qed.

Lemma ser_model_tree : ser_model_tree_spec.
Proof.
  intros np h m Hnp Hw.
  destruct (ser_model_tree_tn np Hnp h h m (tn_refl h) Hw) as (a' & Ea & _).
  exists a'. exact Ea.
Qed.

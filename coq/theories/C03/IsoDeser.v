(* C03/IsoDeser.v — half (B) of C03_iso: the deserializer accepts the proto of every well-formed tree and
   builds a heap whose unfolding is that tree (IsoSpecs.deser_tree_spec).

   Structure of the proof (IsoDeserA .. IsoDeserG):
   A  pure list / table lemmas (lookup vs. index_N / index_nat, resolve vs. find_ref, vi_lookup, dict_of);
   B  frame relations ext / keeps / nested, the relational unfolding real_g (stable under keeps, monotone
      in its lower bound) and the bridge real_g -> unfold_graph = T;
   C  success + exact-result lemmas for the non-recursive phases and for Node() / Graph();
   D  node-level step relation nstep and the pre-realisation of nodes (final once the graph is complete);
   E  statements PG .. PGs of the mutual induction; node / attribute / list cases;
   F  facts extracted from wf_g and t2p_g;
   G  the graph case. *)
From Coq Require Import NArith List Bool Arith Lia.
From IRV Require Import Base.Exn C03.Model C03.Canon C03.Inv C03.Tree C03.IsoSpecs C17.Basics C17.Specs C17.Steps C17.Phases C17.OpNode C17.OpGraph C17.Deser C03.IsoDeserA C03.IsoDeserB C03.IsoDeserC C03.IsoDeserD C03.IsoDeserE C03.IsoDeserF C03.IsoDeserG.
Import ListNotations.

Theorem deser_all_iso :
  (forall T, PG T) /\ (forall ns, PNs ns) /\ (forall n, PN n) /\ (forall al, PAs al) /\ (forall a, PA a) /\
  (forall gs, PGs gs).
Proof.
  apply tree_mutind.
  - exact PG_bad.
  - intros; apply PG_case; auto.
  - exact PNs_nil.
  - intros; apply PNs_cons; auto.
  - exact PN_bad.
  - intros; apply PN_case; auto.
  - exact PAs_nil.
  - intros; apply PAs_cons; auto.
  - intros; apply PA_plain.
  - intros; apply PA_graph; auto.
  - intros; apply PA_graphs; auto.
  - exact PGs_nil.
  - intros; apply PGs_cons; auto.
Qed.

(* the general form: any starting heap (no enclosing scopes) *)
Lemma deser_tree_real : forall T h, wf_g [] T = true ->
  exists h2 g2, deser_graph (t2p_g T) [] h = Ok (h2, g2) /\ nested h h2 /\ ngr h2 = S g2 /\
                real_g (nv h) h2 [] g2 T /\ depth_g T + ngr h <= ngr h2.
Proof.
  intros T h Hwf. destruct deser_all_iso as (Hg & _).
  destruct (Hg T [] [] h) as (h2 & g2 & E & N & L & R & D); auto.
  - exact I.
  - intros t k v [].
  - exists h2, g2. auto.
Qed.

Lemma real_g_unfold lo h chain g T :
  real_g lo h chain g T -> forall fuel, depth_g T < fuel -> unfold_graph [] fuel h chain g = T.
Proof. destruct real_unfold as (Bg' & _). apply Bg'. Qed.

Lemma deser_tree : deser_tree_spec.
Proof.
  intros T Hwf. destruct (deser_tree_real T empty_heap Hwf) as (h2 & g2 & E & N & L & R & D).
  exists h2, g2. split; auto. eapply real_g_unfold; eauto.
Qed.

(* ------------------------------------------------------------------ extras used by the assembly (IsoThm) *)

(* a realised graph stays realised, hence keeps its unfolding, across every later nested construction *)
Lemma real_g_nested lo h h' chain g T : real_g lo h chain g T -> nested h h' -> real_g lo h' chain g T.
Proof. intros R N. destruct real_stable as (Sg' & _). eapply Sg'; eauto. apply nested_keeps; auto. Qed.

Lemma unfold_nested_stable lo h h' chain g T :
  real_g lo h chain g T -> nested h h' ->
  forall fuel, depth_g T < fuel -> unfold_graph [] fuel h' chain g = unfold_graph [] fuel h chain g.
Proof.
  intros R N fuel Hf. rewrite (real_g_unfold _ _ _ _ _ R fuel Hf).
  eapply real_g_unfold; eauto. eapply real_g_nested; eauto.
Qed.

(* deser_tree at an arbitrary heap satisfying Inv.  NB: the graph id is the LAST graph allocated
   (nested graphs are constructed before their enclosing graph): ngr h2 = S g2, not g2 = ngr h. *)
Lemma deser_tree_gen : forall T h, Inv h -> wf_g [] T = true ->
  exists h2 g2, deser_graph (t2p_g T) [] h = Ok (h2, g2) /\ Inv h2 /\
    length (hg h2) = S g2 /\ length (hg h) <= g2 /\ depth_g T <= length (hg h2) - length (hg h) /\
    (forall fuel, depth_g T < fuel -> unfold_graph [] fuel h2 [] g2 = T) /\
    real_g (nv h) h2 [] g2 T /\ nested h h2.
Proof.
  intros T h HI Hwf. destruct (deser_tree_real T h Hwf) as (h2 & g2 & E & N & L & R & D).
  exists h2, g2. split; auto.
  destruct deser_all as (Hg & _).
  destruct (Hg (t2p_g T) [] h h2 g2 HI) as (I2 & _); auto.
  { intros t k v []. }
  assert (Hd1 : 1 <= depth_g T) by (destruct T; [discriminate | cbn; lia]).
  unfold ngr in *. csplit; auto; try lia.
  eapply real_g_unfold; eauto.
Qed.

Lemma deser_tree_depth : forall T, wf_g [] T = true ->
  exists h2 g2, deser_graph (t2p_g T) [] empty_heap = Ok (h2, g2) /\ depth_g T <= length (hg h2) /\
                forall fuel, depth_g T < fuel -> unfold_graph [] fuel h2 [] g2 = T.
Proof.
  intros T Hwf. destruct (deser_tree_real T empty_heap Hwf) as (h2 & g2 & E & N & L & R & D).
  exists h2, g2. split; auto. split; [unfold ngr in *; cbn in D; lia|]. eapply real_g_unfold; eauto.
Qed.

(* C03/Iso.v — `serializable` (boolean, the hypothesis of C03_iso), the isomorphism check used for the
   round trip (canonical observation modulo what the serializer documents it normalises) and the
   agreement predicates evaluated by the C03 case files.  Definitions only.

   Isomorphism is decided through canonical observations (Canon.v): two rooted, ordered object graphs are
   isomorphic iff first-visit relabelling yields equal observations.  For the round trip the observation
   is taken modulo: (a) the order of Value.uses() (a "set of uses": compared sorted), (b) the leaf
   normalisation of value payloads (norm_pay), (c) trailing empty-named node outputs, which
   serde._remove_trailing_outputs drops by design. *)
From Coq Require Import NArith ZArith List Bool Arith.
From IRV Require Import Base.Exn C03.Model C03.Canon C03.Inv.
Import ListNotations.

(* ---- observation modulo the documented normalisations *)
Definition trim_heap (h : heap) : heap :=
  mkH (hv h)
      (map (fun y => mkN (n_name y) (n_op y) (n_tok y) (n_inputs y) (trim_outputs h (n_outputs y)) (n_attrs y) (n_graph y)) (hn h))
      (hg h) (ht h).

Fixpoint insert_zz (p : Z * Z) (l : list (Z * Z)) : list (Z * Z) :=
  match l with
  | [] => [p]
  | q :: r => if (Z.ltb (fst p) (fst q) || (Z.eqb (fst p) (fst q) && Z.leb (snd p) (snd q)))%bool
              then p :: q :: r else q :: insert_zz p r
  end.
Definition sort_zz (l : list (Z * Z)) : list (Z * Z) := fold_right insert_zz [] l.
Definition labz (x : nat) (l : list nat) : Z :=
  match index_of x l 0 with Some i => Z.of_nat i | None => (-2)%Z end.

Definition obs_value_s (np : list (N * N)) (h : heap) (s : seen) (v : nat) : obs :=
  match getv h v with
  | None => T []
  | Some x =>
    T [Lname (v_name x);
       match v_prod x with None => T [] | Some (n, i) => T [lab n (s_n s); Lnat i] end;
       T (map (fun u => T [L (fst u); L (snd u)])
              (sort_zz (map (fun u => (labz (fst u) (s_n s), Z.of_nat (snd u))) (v_uses x))));
       olab (match v_owner x with
             | Some g => Some g
             | None => match v_prod x with
                       | Some (n, _) => match getn h n with Some y => n_graph y | None => None end
                       | None => None
                       end
             end) (s_g s);
       Lb (v_in x); Lb (v_out x); Lb (v_init x);
       match v_const x with
       | None => T []
       | Some c => match gett h c with Some t => T [Lname (t_name t); LN (t_tok t)] | None => T [L (-3)] end
       end;
       LN (norm_pay np (v_info x))]
  end.
Definition canon_s (np : list (N * N)) (h0 : heap) (m : model) : obs :=
  let h := trim_heap h0 in
  let s := reach h m in
  T [LN (m_tok m); lab (m_graph m) (s_g s);
     T (map (fun f => T [LN (f_id f); LN (f_tok f); lab (f_graph f) (s_g s)]) (m_funcs m));
     T (map (obs_value_s np h s) (s_v s));
     T (map (obs_node h s) (s_n s));
     T (map (obs_graph h s) (s_g s))].

(* ---- serializable: names present and unique per scope, every reference resolves by name *)
Definition vname (h : heap) (v : nat) : option name := match getv h v with Some x => v_name x | None => None end.
Definition nonzero (k : option name) : bool := match k with Some k => negb (N.eqb k 0) | None => false end.

(* the name table of a graph as the deserializer will rebuild it *)
Definition named (h : heap) (vs : list nat) : list (name * nat) :=
  flat_map (fun v => match vname h v with Some k => if N.eqb k 0 then [] else [(k, v)] | None => [] end) vs.
Definition node_outs (h : heap) (ns : list nat) : list nat :=
  flat_map (fun n => match getn h n with Some y => n_outputs y | None => [] end) ns.
Definition gtable (h : heap) (z : graph) : list (name * nat) :=
  named h (g_inputs z)
  ++ named h (filter (fun v => negb (mem v (g_inputs z))) (map snd (g_inits z)))
  ++ named h (node_outs h (g_nodes z)).

Section Scope.
  Variable h : heap.
  Variable rec : list (list (name * nat)) -> nat -> bool.
  Definition input_ok (sc : list (list (name * nat))) (ov : option nat) : bool :=
    match ov with
    | None => true
    | Some v => match vname h v with
                | Some k => negb (N.eqb k 0) && opt_nat_eqb (lookup_scopes k sc) (Some v)
                | None => false
                end
    end.
  Definition attr_ok (sc : list (list (name * nat))) (a : name * attr) : bool :=
    match snd a with
    | AtPlain _ sbad => negb sbad
    | AtGraph g => rec sc g
    | AtGraphs gs => forallb (rec sc) gs
    end.
  Definition node_ok (sc : list (list (name * nat))) (n : nat) : bool :=
    match getn h n with
    | None => false
    | Some y =>
      match n_name y with Some _ => true | None => false end
      && forallb (input_ok sc) (n_inputs y)
      && forallb (fun v => match getv h v with
                           | Some x => match v_name x with
                                       | None => false
                                       | Some k => if N.eqb k 0
                                                   then match v_uses x with [] => true | _ => false end
                                                        && negb (v_out x) && N.eqb (v_info x) 0
                                                   else true
                                       end
                           | None => false
                           end) (n_outputs y)
      && forallb (attr_ok sc) (n_attrs y)
    end.
  Definition scope_ok_body (infn : bool) (sc : list (list (name * nat))) (g : nat) : bool :=
    match getg h g with
    | None => false
    | Some z =>
      let tbl := gtable h z in
      nodup_nat (g_inputs z)
      && forallb (fun v => nonzero (vname h v)) (g_inputs z)
      && forallb (fun kv => match getv h (snd kv) with
                            | Some x => option_eqb N.eqb (v_name x) (Some (fst kv)) && negb (N.eqb (fst kv) 0)
                                        && match v_const x with Some _ => true | None => false end
                                        && (mem (snd kv) (g_inputs z) || negb (N.eqb (v_info x) 0))
                                        (* an initializer that is not a graph input comes back with a missing type /
                                           shape filled in from its tensor (serde._deserialize_graph, "Users expect
                                           initialized values to have shape and type information"): it must have both *)
                                        && (mem (snd kv) (g_inputs z)
                                            || match v_const x with
                                               | Some c => match gett h c with
                                                           | Some t => N.eqb (match lookup (v_info x) (t_fill t) with
                                                                              | Some r => r
                                                                              | None => if N.eqb (v_info x) 0 then t_pay t else v_info x
                                                                              end) (v_info x)
                                                           | None => false
                                                           end
                                               | None => false
                                               end)
                            | None => false
                            end) (g_inits z)
      && nodup_N (map fst tbl)
      && forallb (node_ok (tbl :: sc)) (g_nodes z)
      && forallb (fun v => match vname h v with
                           | Some k => negb (N.eqb k 0) && opt_nat_eqb (lookup k tbl) (Some v)
                           | None => false
                           end) (g_outputs z)
      && (negb infn || match g_inits z with [] => true | _ => false end)
    end.
End Scope.
Fixpoint scope_ok (fuel : nat) (h : heap) (sc : list (list (name * nat))) (g : nat) : bool :=
  match fuel with
  | O => false
  | S f => scope_ok_body h (scope_ok f h) false sc g
  end.

(* every graph is referenced once (root, function bodies, graph attributes) *)
Section Refs.
  Variable h : heap.
  Variable rec : nat -> list nat.
  Definition grefs_body (g : nat) : list nat :=
    g :: match getg h g with
         | None => []
         | Some z => flat_map (fun n => match getn h n with
                                        | Some y => flat_map (fun a => match snd a with
                                                                       | AtPlain _ _ => []
                                                                       | AtGraph sg => rec sg
                                                                       | AtGraphs sgs => flat_map rec sgs
                                                                       end) (n_attrs y)
                                        | None => []
                                        end) (g_nodes z)
         end.
End Refs.
Fixpoint grefs (fuel : nat) (h : heap) (g : nat) : list nat :=
  match fuel with O => [g; g] | S f => grefs_body h (grefs f h) g end.

Definition serializable_b (h : heap) (m : model) : bool :=
  let fuel := ser_fuel h in
  let refs := grefs fuel h (m_graph m) ++ flat_map (fun f => grefs fuel h (f_graph f)) (m_funcs m) in
  let s := reach h m in
  nodup_nat refs
  && nodup_N (map f_id (m_funcs m))
  && scope_ok fuel h [] (m_graph m)
  && forallb (fun f => match fuel with
                       | O => false
                       | S f' => scope_ok_body h (scope_ok f' h) true [] (f_graph f)
                       end) (m_funcs m)
  (* every consumer of a reachable value is a node of the model; only initializers carry a const_value
     (Value.const_value docstring: "If the Value is not part of a graph initializers dictionary, the
     const_value field will be ignored during serialization") *)
  && forallb (fun v => match getv h v with
                       | Some x => forallb (fun u => mem (fst u) (s_n s)) (v_uses x)
                                   && match v_const x with Some _ => v_init x | None => true end
                       | None => false
                       end) (s_v s)
  (* no tensor object is the const_value of two values: the serializer renames the tensor for each value in
     turn, so a shared tensor ends with the name of the last one, while the round trip yields one tensor per
     initializer, each with its own name *)
  && nodup_nat (flat_map (fun v => match getv h v with
                                   | Some x => match v_const x with Some c => [c] | None => [] end
                                   | None => []
                                   end) (s_v s)).

(* ---- the round trip *)
Definition iso_b (np : list (N * N)) (h : heap) (m : model) : bool :=
  match ser_model np h m with
  | Raise _ => false
  | Ok (h1, q) =>
    match deser_model q with
    | Raise _ => false
    | Ok (h2, m2) => obs_eqb (canon_s np h1 m) (canon_s np h2 m2)
    end
  end.

(* agreement predicates of the C03 case files.  h/m: the Python model converted to a heap;
   impl_q: to_proto(model) (None = raised); impl_o2: observation of from_proto(to_proto(model)). *)
Definition agree_heap (h : heap) (m : model) (o : obs) : bool := obs_eqb (canon h m) o.
Definition agree_ser (np : list (N * N)) (h : heap) (m : model) (impl : option mproto) : bool :=
  match ser_model np h m, impl with
  | Raise _, None => true
  | Ok (_, q), Some qi => obs_eqb (obs_m q) (obs_m qi)
  | _, _ => false
  end.
Definition agree_roundtrip (np : list (N * N)) (h : heap) (m : model) (impl_o2 : option obs) : bool :=
  match ser_model np h m with
  | Raise _ => true
  | Ok (_, q) =>
    match deser_model q, impl_o2 with
    | Ok (h2, m2), Some o => obs_eqb (canon h2 m2) o
    | Raise _, None => true
    | _, _ => false
    end
  end.
(* observation of the heap after serialization (tensor names aligned), to compare with the Python model
   observed after to_proto *)
Definition agree_after_ser (np : list (N * N)) (h : heap) (m : model) (o : obs) : bool :=
  match ser_model np h m with
  | Raise _ => true
  | Ok (h1, _) => obs_eqb (canon h1 m) o
  end.
(* the statement of C03_iso on one concrete heap *)
Definition iso_statement_b (np : list (N * N)) (h : heap) (m : model) : bool :=
  implb (inv_b h && serializable_b h m) (iso_b np h m).

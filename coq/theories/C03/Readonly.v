(* C03/Readonly.v — serialization writes nothing except `tensor.name := value.name` for the tensors of
   initializers. *)
From Coq Require Import NArith List Bool Arith Lia.
From IRV Require Import Base.Exn C03.Model.
Import ListNotations.

Definition tsame (t t' : tensor) : Prop :=
  t_tok t' = t_tok t /\ t_pay t' = t_pay t /\ t_bad_info t' = t_bad_info t /\ t_fill t' = t_fill t.
(* c is the const_value of an initializer value whose name is nm *)
Definition init_tensor (h : heap) (c : nat) (nm : option name) : Prop :=
  exists g z k v x, getg h g = Some z /\ In (k, v) (g_inits z) /\ getv h v = Some x /\ v_const x = Some c /\ nm = v_name x.
Definition readonly (h h' : heap) : Prop :=
  hv h' = hv h /\ hn h' = hn h /\ hg h' = hg h /\ length (ht h') = length (ht h) /\
  forall c t, gett h c = Some t ->
    exists t', gett h' c = Some t' /\ tsame t t' /\ (t_name t' = t_name t \/ init_tensor h c (t_name t')).

Lemma readonly_refl h : readonly h h.
Proof. repeat split; auto. intros c t H. exists t. repeat split; auto. Qed.

Lemma init_tensor_ext h h' c nm : hv h' = hv h -> hg h' = hg h -> init_tensor h' c nm -> init_tensor h c nm.
Proof.
  intros Hv Hg (g & z & k & v & x & A & B & C & D & E). exists g, z, k, v, x.
  unfold getg, getv in *. rewrite Hg in A. rewrite Hv in C. auto.
Qed.

Lemma readonly_trans h1 h2 h3 : readonly h1 h2 -> readonly h2 h3 -> readonly h1 h3.
Proof.
  intros (A1 & A2 & A3 & A4 & A5) (B1 & B2 & B3 & B4 & B5). repeat split; try congruence.
  intros c t H. destruct (A5 c t H) as (t2 & H2 & (S1 & S2 & S3 & S4) & N2). destruct (B5 c t2 H2) as (t3 & H3 & (T1 & T2 & T3 & T4) & N3).
  exists t3. split; auto. split; [repeat split; congruence|].
  destruct N3 as [N3|N3].
  - rewrite N3. auto.
  - right. eapply init_tensor_ext; eauto.
Qed.

Lemma upd_nth {A} (l : list A) i j f :
  nth_error (upd l i f) j = if Nat.eqb i j then option_map f (nth_error l j) else nth_error l j.
Proof.
  revert i j. induction l as [|x l IH]; intros [|i] [|j]; simpl; auto;
    try (destruct (Nat.eqb i j); reflexivity).
Qed.
Lemma upd_len {A} (l : list A) i f : length (upd l i f) = length l.
Proof. revert i; induction l as [|x l IH]; intros [|i]; simpl; auto. Qed.

Lemma set_tname_readonly h c nm : init_tensor h c nm -> readonly h (set_tname h c nm).
Proof.
  intros Hi. unfold readonly, set_tname; simpl. repeat split; auto using upd_len.
  intros c' t H. unfold gett in *; simpl. rewrite upd_nth. destruct (Nat.eqb_spec c c') as [->|Hn].
  - rewrite H; simpl. eexists. split; [reflexivity|]. simpl. split; [repeat split; auto|]. right. auto.
  - exists t. repeat split; auto.
Qed.

Section WithNp.
Variable np : list (N * N).

Lemma ser_inits_readonly h0 in_names : forall l h h' ts vs,
  readonly h0 h ->
  (forall k v, In (k, v) l -> exists g z, getg h0 g = Some z /\ In (k, v) (g_inits z)) ->
  ser_inits np h in_names l = Ok (h', ts, vs) -> readonly h0 h'.
Proof.
  induction l as [|[k v] r IH]; simpl; intros h h' ts vs Hr Hl H.
  - inversion H; subst; auto.
  - destruct (getv h v) as [x|] eqn:Ex; [|discriminate].
    destruct (v_const x) as [c|] eqn:Ec.
    + destruct (gett h c) as [t|] eqn:Et; [|discriminate].
      destruct (ser_inits np (set_tname h c (v_name x)) in_names r) as [[[h2 ts2] vs2]|e] eqn:Er; [|discriminate].
      inversion H; subst; clear H.
      eapply IH; [| |exact Er].
      * eapply readonly_trans; [exact Hr|]. apply set_tname_readonly.
        destruct Hr as (A1 & A2 & A3 & _). destruct (Hl k v (or_introl eq_refl)) as (g & z & Hg & Hin).
        exists g, z, k, v, x. unfold getg, getv in *. rewrite A3, Ex. rewrite A1 in Ex. auto.
      * intros k' v' Hin. apply Hl. right; auto.
    + destruct (ser_inits np h in_names r) as [[[h2 ts2] vs2]|e] eqn:Er; [|discriminate].
      inversion H; subst; clear H. eapply IH; [exact Hr| |exact Er]. intros k' v' Hin. apply Hl. right; auto.
Qed.

Section Body.
Variable rec : heap -> nat -> res (heap * gproto).
Hypothesis rec_ro : forall h g h' q, rec h g = Ok (h', q) -> readonly h h'.

Lemma ser_gs_readonly : forall l h h' gl, ser_gs rec h l = Ok (h', gl) -> readonly h h'.
Proof.
  induction l as [|g r IH]; simpl; intros h h' gl H.
  - inversion H; subst. apply readonly_refl.
  - destruct (rec h g) as [[h1 gp]|e] eqn:E1; [|discriminate].
    destruct (ser_gs rec h1 r) as [[h2 l2]|e] eqn:E2; [|discriminate]. inversion H; subst.
    eapply readonly_trans; eauto.
Qed.

Lemma ser_attrs_readonly : forall al h h' ap, ser_attrs rec h al = Ok (h', ap) -> readonly h h'.
Proof.
  induction al as [|[k a] r IH]; simpl; intros h h' ap H.
  - inversion H; subst. apply readonly_refl.
  - destruct a as [tok sbad|sg|sgs].
    + destruct sbad; [discriminate|].
      destruct (ser_attrs rec h r) as [[h1 l]|e] eqn:E1; [|discriminate]. inversion H; subst. eauto.
    + destruct (rec h sg) as [[h1 gp]|e] eqn:E1; [|discriminate].
      destruct (ser_attrs rec h1 r) as [[h2 l]|e] eqn:E2; [|discriminate]. inversion H; subst.
      eapply readonly_trans; eauto.
    + destruct (ser_gs rec h sgs) as [[h1 gl]|e] eqn:E1; [|discriminate].
      destruct (ser_attrs rec h1 r) as [[h2 l]|e] eqn:E2; [|discriminate]. inversion H; subst.
      eapply readonly_trans; [eapply ser_gs_readonly; eauto | eauto].
Qed.

Lemma ser_node_readonly h n h' q : ser_node rec h n = Ok (h', q) -> readonly h h'.
Proof.
  unfold ser_node. intros H.
  destruct (getn h n) as [y|]; [|discriminate].
  destruct (ser_node_inputs h (n_inputs y)) as [ins|e]; [|discriminate].
  destruct (ser_node_outputs h (trim_outputs h (n_outputs y))) as [outs|e]; [|discriminate].
  destruct (ser_attrs rec h (n_attrs y)) as [[h1 al]|e] eqn:E1; [|discriminate]. inversion H; subst.
  eapply ser_attrs_readonly; eauto.
Qed.

Lemma ser_nodes_readonly infn : forall ns h h' l vs, ser_nodes np rec infn h ns = Ok (h', l, vs) -> readonly h h'.
Proof.
  induction ns as [|n r IH]; simpl; intros h h' l vs H.
  - inversion H; subst. apply readonly_refl.
  - destruct (ser_node rec h n) as [[h1 q]|e] eqn:E1; [|discriminate].
    destruct (ser_nodes np rec infn h1 r) as [[[h2 l2] vs2]|e] eqn:E2; [|discriminate]. inversion H; subst.
    eapply readonly_trans; [eapply ser_node_readonly; eauto | eauto].
Qed.

Lemma ser_graph_body_readonly h g h' q : ser_graph_body np rec h g = Ok (h', q) -> readonly h h'.
Proof.
  unfold ser_graph_body. intros H.
  destruct (getg h g) as [z|] eqn:Eg; [|discriminate].
  destruct (ser_values np h (g_inputs z)) as [ins|e]; [|discriminate].
  match type of H with context [ser_inits np h ?inn (g_inits z)] =>
    destruct (ser_inits np h inn (g_inits z)) as [[[h1 ts] ivis]|e] eqn:E1; [|discriminate] end.
  destruct (ser_nodes np rec false h1 (g_nodes z)) as [[[h2 nps] nvis]|e] eqn:E2; [|discriminate].
  destruct (ser_values np h2 (g_outputs z)) as [outs|e]; [|discriminate]. inversion H; subst.
  eapply readonly_trans; [|eapply ser_nodes_readonly; eauto].
  eapply ser_inits_readonly; [apply readonly_refl| |exact E1]. intros k v Hin. eauto.
Qed.
End Body.

Lemma ser_graph_readonly : forall fuel h g h' q, ser_graph np fuel h g = Ok (h', q) -> readonly h h'.
Proof.
  induction fuel as [|f IH]; simpl; intros h g h' q H; [discriminate|].
  eapply ser_graph_body_readonly; [|exact H]. exact IH.
Qed.

Lemma ser_function_readonly h f h' q : ser_function np h f = Ok (h', q) -> readonly h h'.
Proof.
  unfold ser_function. intros H.
  destruct (getg h (f_graph f)) as [z|]; [|discriminate].
  destruct (ser_names h (g_inputs z)) as [ins|e]; [|discriminate].
  destruct (ser_names h (g_outputs z)) as [outs|e]; [|discriminate].
  destruct (ser_nodes np (ser_graph np (ser_fuel h)) true h (g_nodes z)) as [[[h1 nps] nvis]|e] eqn:E1; [|discriminate].
  inversion H; subst. eapply ser_nodes_readonly; [|exact E1]. intros. eapply ser_graph_readonly; eauto.
Qed.

Lemma ser_functions_readonly : forall fs h h' l, ser_functions np h fs = Ok (h', l) -> readonly h h'.
Proof.
  induction fs as [|f r IH]; simpl; intros h h' l H.
  - inversion H; subst. apply readonly_refl.
  - destruct (ser_function np h f) as [[h1 fp]|e] eqn:E1; [|discriminate].
    destruct (ser_functions np h1 r) as [[h2 l2]|e] eqn:E2; [|discriminate]. inversion H; subst.
    eapply readonly_trans; [eapply ser_function_readonly; eauto | eauto].
Qed.

Theorem ser_model_readonly h m h' q : ser_model np h m = Ok (h', q) -> readonly h h'.
Proof.
  unfold ser_model. intros H.
  destruct (ser_graph np (ser_fuel h) h (m_graph m)) as [[h1 gp]|e] eqn:E1; [|discriminate].
  destruct (ser_functions np h1 (m_funcs m)) as [[h2 fps]|e] eqn:E2; [|discriminate]. inversion H; subst.
  eapply readonly_trans; [eapply ser_graph_readonly; eauto | eapply ser_functions_readonly; eauto].
Qed.
End WithNp.

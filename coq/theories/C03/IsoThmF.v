From Coq Require Import NArith List Bool Arith Lia.
(* C03/IsoThmF.v — C03_iso for whole models (main graph + functions) and the serialize/deserialize/serialize
   theorem, assembled from IsoSerF.v, IsoDeserM.v and PayFix.v. *)
From IRV Require Import Base.Exn C03.Model C03.Canon C03.Inv C03.Tree C03.TreeF C03.IsoSpecsF C03.PayFixDefs
  C03.IsoSerF C03.IsoDeserM C03.PayFix C17.Top.
Import ListNotations.

Section Assemble.
  Let HA : ser_model_tree_spec := ser_model_tree.
  Let HB : deser_model_tree_spec := deser_model_tree.
  Let HP : payfix_spec := payfix.

  Theorem iso_model np h m :
    serializable_tm np h m = true ->
    exists h1 q h2 m2,
      ser_model np h m = Ok (h1, q) /\ deser_model q = Ok (h2, m2) /\
      unfold_model [] h2 m2 = unfold_model np h m /\ Inv h2.
  Proof.
    unfold serializable_tm. intros Hs. apply andb_prop in Hs. destruct Hs as [Hnp Hw].
    destruct (HA np h m Hnp Hw) as (h1 & Hser). destruct (HB _ Hw) as (h2 & m2 & Hd & Hu).
    exists h1, (t2p_m (unfold_model np h m)), h2, m2. split; [exact Hser|]. split; [exact Hd|]. split; [exact Hu|]. eapply deser_model_inv; eauto.
  Qed.

  (* serialize, deserialize, serialize again: the same proto *)
  Theorem ser_deser_ser np h m :
    serializable_tm np h m = true -> np_idem np = true ->
    exists h1 q h2 m2 h3,
      ser_model np h m = Ok (h1, q) /\ deser_model q = Ok (h2, m2) /\ ser_model np h2 m2 = Ok (h3, q).
  Proof.
    intros Hs Hi. pose proof Hs as Hs0. unfold serializable_tm in Hs. apply andb_prop in Hs. destruct Hs as [Hnp Hw].
    destruct (HA np h m Hnp Hw) as (h1 & Hser). destruct (HB _ Hw) as (h2 & m2 & Hd & Hu).
    destruct HP as (P1 & P2).
    assert (E : unfold_model np h2 m2 = unfold_model np h m).
    { transitivity (unfold_model [] h2 m2); [|exact Hu]. apply P2; auto. rewrite Hu. apply P1; auto. }
    assert (Hw2 : wf_m (unfold_model np h2 m2) = true) by (rewrite E; exact Hw).
    destruct (HA np h2 m2 Hnp Hw2) as (h3 & Hser2). rewrite E in Hser2.
    exists h1, (t2p_m (unfold_model np h m)), h2, m2, h3. auto.
  Qed.
End Assemble.

(* C03/Inv.v — the use-def / ownership invariant of the IR heap (C01's I1-I7 at the level of C03/Model.v),
   as a Prop (used by the theorems) and as a boolean (evaluated on concrete heaps).  Definitions only. *)
From Coq Require Import NArith List Bool Arith.
From IRV Require Import Base.Exn C03.Model.
Import ListNotations.

Definition nv (h : heap) := length (hv h).
Definition nn (h : heap) := length (hn h).
Definition ngr (h : heap) := length (hg h).

Record Inv (h : heap) : Prop := mkInv {
  (* C0: every reference is allocated *)
  c0_nin : forall n y v, getn h n = Some y -> In (Some v) (n_inputs y) -> v < nv h;
  c0_nout : forall n y v, getn h n = Some y -> In v (n_outputs y) -> v < nv h;
  c0_ngraph : forall n y g, getn h n = Some y -> n_graph y = Some g -> g < ngr h;
  c0_gin : forall g z v, getg h g = Some z -> In v (g_inputs z) -> v < nv h;
  c0_gout : forall g z v, getg h g = Some z -> In v (g_outputs z) -> v < nv h;
  c0_ginit : forall g z k v, getg h g = Some z -> In (k, v) (g_inits z) -> v < nv h;
  c0_gnodes : forall g z n, getg h g = Some z -> In n (g_nodes z) -> n < nn h;
  c0_uses : forall v x n i, getv h v = Some x -> In (n, i) (v_uses x) -> n < nn h;
  c0_prod : forall v x n i, getv h v = Some x -> v_prod x = Some (n, i) -> n < nn h;
  c0_owner : forall v x g, getv h v = Some x -> v_owner x = Some g -> g < ngr h;
  (* I1: uses <-> node inputs *)
  i1_uses : forall v x n i, getv h v = Some x ->
              (In (n, i) (v_uses x) <-> exists y, getn h n = Some y /\ nth_error (n_inputs y) i = Some (Some v));
  i1_nodup : forall v x, getv h v = Some x -> NoDup (v_uses x);
  (* I2: node outputs <-> producer/index *)
  i2_out : forall n y i v, getn h n = Some y -> nth_error (n_outputs y) i = Some v ->
              exists x, getv h v = Some x /\ v_prod x = Some (n, i);
  i2_prod : forall v x n i, getv h v = Some x -> v_prod x = Some (n, i) ->
              exists y, getn h n = Some y /\ nth_error (n_outputs y) i = Some v;
  (* I3: node.graph <-> membership in the graph's node list *)
  i3_graph : forall n y g, getn h n = Some y ->
              (n_graph y = Some g <-> exists z, getg h g = Some z /\ In n (g_nodes z));
  i3_nodup : forall g z, getg h g = Some z -> NoDup (g_nodes z);
  (* I4: role flags + owner <-> membership in the graph's inputs / outputs *)
  i4_in : forall v x g, getv h v = Some x ->
              ((v_in x = true /\ v_owner x = Some g) <-> exists z, getg h g = Some z /\ In v (g_inputs z));
  i4_out : forall v x g, getv h v = Some x ->
              ((v_out x = true /\ v_owner x = Some g) <-> exists z, getg h g = Some z /\ In v (g_outputs z));
  (* I5: initializers are keyed by the value's name *)
  i5_key : forall g z k v, getg h g = Some z -> In (k, v) (g_inits z) ->
              exists x, getv h v = Some x /\ v_name x = Some k /\ v_init x = true /\ v_owner x = Some g;
  i5_nodup : forall g z, getg h g = Some z -> NoDup (map fst (g_inits z));
  i5_flag : forall v x g, getv h v = Some x -> v_init x = true -> v_owner x = Some g ->
              exists z k, getg h g = Some z /\ In (k, v) (g_inits z);
  (* I6: graph inputs and initializers have no producer *)
  i6_in : forall g z v x, getg h g = Some z -> In v (g_inputs z) -> getv h v = Some x -> v_prod x = None;
  i6_init : forall g z k v x, getg h g = Some z -> In (k, v) (g_inits z) -> getv h v = Some x -> v_prod x = None;
  (* I7: a value has an owning graph exactly when it has a role *)
  i7_owner : forall v x, getv h v = Some x ->
              (v_owner x = None <-> (v_in x = false /\ v_out x = false /\ v_init x = false))
}.

(* ---- boolean version (for evaluation on concrete heaps; not used by the proofs) *)
Definition ltb_all (l : list nat) (b : nat) : bool := forallb (fun v => Nat.ltb v b) l.
Fixpoint nodup_nat (l : list nat) : bool :=
  match l with [] => true | x :: r => negb (existsb (Nat.eqb x) r) && nodup_nat r end.
Fixpoint nodup_N (l : list N) : bool :=
  match l with [] => true | x :: r => negb (existsb (N.eqb x) r) && nodup_N r end.
Fixpoint nodup_pairs (l : list (nat * nat)) : bool :=
  match l with
  | [] => true
  | (a, b) :: r => negb (existsb (fun p => Nat.eqb a (fst p) && Nat.eqb b (snd p)) r) && nodup_pairs r
  end.
Fixpoint forallb_i {A} (f : nat -> A -> bool) (l : list A) (i : nat) : bool :=
  match l with [] => true | x :: r => f i x && forallb_i f r (S i) end.
Definition opt_nat_eqb (a b : option nat) : bool := option_eqb Nat.eqb a b.

Definition inv_b (h : heap) : bool :=
  (* nodes *)
  forallb_i (fun n y =>
     forallb (fun ov => match ov with Some v => Nat.ltb v (nv h) | None => true end) (n_inputs y)
     && ltb_all (n_outputs y) (nv h)
     && match n_graph y with
        | None => negb (existsb (fun z => existsb (Nat.eqb n) (g_nodes z)) (hg h))
        | Some g => match getg h g with
                    | Some z => existsb (Nat.eqb n) (g_nodes z)
                                && forallb_i (fun g' z' => Nat.eqb g' g || negb (existsb (Nat.eqb n) (g_nodes z'))) (hg h) 0
                    | None => false
                    end
        end
     (* I1 <- : every input slot is recorded in the value's uses *)
     && forallb_i (fun i ov => match ov with
                               | None => true
                               | Some v => match getv h v with
                                           | Some x => existsb (fun u => Nat.eqb (fst u) n && Nat.eqb (snd u) i) (v_uses x)
                                           | None => false
                                           end
                               end) (n_inputs y) 0
     (* I2 -> *)
     && forallb_i (fun i v => match getv h v with
                              | Some x => match v_prod x with
                                          | Some (n', i') => Nat.eqb n' n && Nat.eqb i' i
                                          | None => false
                                          end
                              | None => false
                              end) (n_outputs y) 0) (hn h) 0
  (* values *)
  && forallb_i (fun v x =>
     nodup_pairs (v_uses x)
     && forallb (fun u => match getn h (fst u) with
                          | Some y => match nth_error (n_inputs y) (snd u) with
                                      | Some (Some v') => Nat.eqb v' v
                                      | _ => false
                                      end
                          | None => false
                          end) (v_uses x)
     && match v_prod x with
        | None => true
        | Some (n, i) => match getn h n with
                         | Some y => match nth_error (n_outputs y) i with Some v' => Nat.eqb v' v | None => false end
                         | None => false
                         end
        end
     && match v_owner x with
        | None => negb (v_in x) && negb (v_out x) && negb (v_init x)
        | Some g => (v_in x || v_out x || v_init x)
                    && match getg h g with
                       | Some z => Bool.eqb (v_in x) (existsb (Nat.eqb v) (g_inputs z))
                                   && Bool.eqb (v_out x) (existsb (Nat.eqb v) (g_outputs z))
                                   && Bool.eqb (v_init x) (existsb (fun kv => Nat.eqb v (snd kv)) (g_inits z))
                       | None => false
                       end
        end
     (* not listed by any graph other than the owner *)
     && forallb_i (fun g z => opt_nat_eqb (v_owner x) (Some g)
                              || negb (existsb (Nat.eqb v) (g_inputs z) || existsb (Nat.eqb v) (g_outputs z)
                                       || existsb (fun kv => Nat.eqb v (snd kv)) (g_inits z))) (hg h) 0) (hv h) 0
  (* graphs *)
  && forallb (fun z =>
     ltb_all (g_inputs z) (nv h) && ltb_all (g_outputs z) (nv h) && ltb_all (map snd (g_inits z)) (nv h)
     && ltb_all (g_nodes z) (nn h) && nodup_nat (g_nodes z) && nodup_N (map fst (g_inits z))
     && forallb (fun kv => match getv h (snd kv) with
                           | Some x => option_eqb N.eqb (v_name x) (Some (fst kv))
                                       && match v_prod x with None => true | Some _ => false end
                           | None => false
                           end) (g_inits z)
     && forallb (fun v => match getv h v with
                          | Some x => match v_prod x with None => true | Some _ => false end
                          | None => false
                          end) (g_inputs z)) (hg h).

(* C03/IsoDeserF.v — facts extracted from wf_g / t2p_g used by the graph case of deser_tree. *)
From Coq Require Import NArith List Bool Arith Lia.
From IRV Require Import Base.Exn C03.Model C03.Canon C03.Inv C03.Tree C03.IsoSpecs C17.Basics C17.Specs C17.Steps C17.Phases C17.OpNode C17.OpGraph C17.Deser C03.IsoDeserA C03.IsoDeserB C03.IsoDeserC C03.IsoDeserD C03.IsoDeserE.
Import ListNotations.

Lemma wf_ns_descs nsc outn : forall ns, wf_ns nsc outn ns = true ->
  forall d, In d (node_out_descs ns) -> wf_node_out outn d = true.
Proof.
  induction ns as [|n r IH]; cbn [wf_ns node_out_descs]; intros H d Hd; [destruct Hd|].
  apply andb_prop in H. destruct H as (Hn & Hr). destruct n as [|nname op ntok ins outs attrs]; [discriminate|].
  apply in_app_or in Hd. destruct Hd as [Hd|Hd]; [|eauto].
  cbn [wf_n] in Hn.
  apply andb_prop in Hn. destruct Hn as (Hn & _). apply andb_prop in Hn. destruct Hn as (Hn & _).
  apply andb_prop in Hn. destruct Hn as (Hn & _). apply andb_prop in Hn. destruct Hn as (_ & Hn).
  rewrite forallb_forall in Hn. auto.
Qed.

Lemma in_nvis j : forall ns, In j (t2p_nvis ns) <-> exists d, In d (node_out_descs ns) /\ In j (out_vi d).
Proof.
  induction ns as [|n r IH]; cbn [t2p_nvis node_out_descs].
  - split; [intros [] | intros (d & [] & _)].
  - destruct n as [|nname op ntok ins outs attrs]; [exact IH|].
    rewrite in_app_iff, IH, in_flat_map. split.
    + intros [(d & Hd & Hj)|(d & Hd & Hj)]; exists d; (split; [apply in_or_app; auto | auto]).
    + intros (d & Hd & Hj). apply in_app_or in Hd. destruct Hd as [Hd|Hd]; [left|right]; eauto.
Qed.

Lemma in_out_vi j d : In j (out_vi d) <->
  vd_out d = false /\ vd_pay d <> 0%N /\ vd_name d <> 0%N /\ j = vi_of d.
Proof.
  unfold out_vi. destruct (vd_out d); simpl.
  - split; [intros [] | intros (A & _); discriminate].
  - destruct (N.eqb_spec (vd_pay d) 0) as [Hp|Hp]; simpl.
    + split; [intros [] | intros (_ & A & _); contradiction].
    + destruct (N.eqb_spec (vd_name d) 0) as [Hk|Hk]; simpl.
      * split; [intros [] | intros (_ & _ & A & _); contradiction].
      * split; [intros [<-|[]]; auto | intros (_ & _ & _ & ->); auto].
Qed.

Lemma in_init_vi inn j i : In j (init_vis inn i) <->
  id_pay i <> 0%N /\ id_name i <> 0%N /\ id_named i = true /\ ~ In (id_name i) inn /\ j = mkVI (id_name i) (id_pay i) false.
Proof.
  unfold init_vis.
  destruct (N.eqb_spec (id_pay i) 0) as [Hp|Hp]; simpl.
  { split; [intros [] | intros (A & _); contradiction]. }
  destruct (N.eqb_spec (id_name i) 0) as [Hk|Hk]; simpl.
  { split; [intros [] | intros (_ & A & _); contradiction]. }
  destruct (id_named i); simpl.
  2:{ split; [intros [] | intros (_ & _ & A & _); discriminate]. }
  destruct (memN (id_name i) inn) eqn:Em; simpl.
  - apply memN_In in Em. split; [intros [] | intros (_ & _ & _ & A & _); contradiction].
  - apply memN_notIn in Em. split; [intros [<-|[]]; auto | intros (_ & _ & _ & _ & ->); auto].
Qed.

Lemma tdefs_names ins inits nodes :
  map fst (tdefs ins inits nodes)
  = map vd_name ins ++ map id_name (filter (fun i => negb (id_input i)) inits) ++ tout_names nodes.
Proof.
  unfold tdefs. rewrite !map_app, !map_map. cbn [fst]. f_equal. f_equal.
  rewrite tout_names_descs. unfold nz. rewrite filter_map_comm. reflexivity.
Qed.

Lemma wf_node_out_named outn d : wf_node_out outn d = true -> vd_name d <> 0%N ->
  vd_named d = true /\ vd_out d = memN (vd_name d) outn.
Proof.
  unfold wf_node_out. intros H Hz. apply andb_prop in H. destruct H as (A & B). split; auto.
  destruct (N.eqb_spec (vd_name d) 0); [contradiction|]. apply eqb_prop in B. auto.
Qed.

(* realisation of the node list once the table values are final *)
Lemma pre_real_ns b lo h h' chain tbl nsc outn :
  b <= lo -> keeps lo h h' ->
  (forall k v, In (k, v) tbl -> k <> 0%N -> b <= v < nv h' /\ exists x, getv h' v = Some x /\ v_name x = Some k) ->
  forall Ts ns, wf_ns nsc outn Ts = true -> pre_ns lo h chain tbl ns Ts ->
  (forall d v, In d (node_out_descs Ts) -> vd_name d <> 0%N -> In (vd_name d, v) tbl -> vdesc_of [] h' v = d) ->
  real_ns b h' chain ns Ts.
Proof.
  intros Hb K HT. induction Ts as [|t r IH]; intros ns Hwf Hp Hd; [exact Hp|].
  destruct ns as [|n ns']; [exact Hp|]. destruct Hp as (Hp1 & Hp2).
  cbn [wf_ns] in Hwf. apply andb_prop in Hwf. destruct Hwf as (W1 & W2).
  destruct t as [|nname op ntok ins outs attrs]; [discriminate|]. cbn [node_out_descs] in Hd.
  split.
  - eapply pre_real_n; eauto. split.
    + cbn [wf_n] in W1. apply andb_prop in W1. destruct W1 as (W1 & _). apply andb_prop in W1. destruct W1 as (W1 & _).
      apply andb_prop in W1. destruct W1 as (_ & W1). exact W1.
    + intros d v Hin. apply Hd. apply in_or_app; auto.
  - apply IH; auto. intros d v Hin. apply Hd. apply in_or_app; auto.
Qed.

Lemma existsb_In_ins (ins : list vdesc) k p :
  existsb (fun d => N.eqb (vd_name d) k && N.eqb (vd_pay d) p) ins = true ->
  exists d, In d ins /\ vd_name d = k /\ vd_pay d = p.
Proof.
  intros H. apply existsb_exists in H. destruct H as (d & Hd & E). apply andb_prop in E. destruct E as (E1 & E2).
  apply N.eqb_eq in E1, E2. eauto.
Qed.

(* C03/IsoDeserG.v — the graph case of the mutual induction for deser_tree. *)
From Coq Require Import NArith List Bool Arith Lia.
From IRV Require Import Base.Exn C03.Model C03.Canon C03.Inv C03.Tree C03.IsoSpecs C17.Basics C17.Specs C17.Steps C17.Phases C17.OpNode C17.OpGraph C17.Deser C03.IsoDeserA C03.IsoDeserB C03.IsoDeserC C03.IsoDeserD C03.IsoDeserE C03.IsoDeserF.
Import ListNotations.

Arguments alloc_value : simpl never.
Arguments new_node : simpl never.
Arguments new_graph : simpl never.
Arguments lookup_scopes : simpl never.
Arguments lookup : simpl never.
Arguments alloc_inputs : simpl never.
Arguments apply_infos : simpl never.
Arguments alloc_tensors : simpl never.
Arguments deser_inits : simpl never.
Arguments declare_nodes : simpl never.
Arguments graph_outputs : simpl never.
Arguments table_of : simpl never.


(* ---- list helpers *)
Lemma map_snd_combine {A B} (l1 : list A) (l2 : list B) : length l1 = length l2 -> map snd (combine l1 l2) = l2.
Proof. revert l2; induction l1 as [|a l1 IH]; intros [|b l2] H; simpl in *; try discriminate; auto. f_equal; auto. Qed.
Lemma map_fst_combine {A B} (l1 : list A) (l2 : list B) : length l1 = length l2 -> map fst (combine l1 l2) = l1.
Proof. revert l2; induction l1 as [|a l1 IH]; intros [|b l2] H; simpl in *; try discriminate; auto. f_equal; auto. Qed.

Lemma Forall2_zip3 {A B C} (Q : A -> C -> Prop) (P : A * C -> B -> Prop) l1 l1' :
  Forall2 Q l1 l1' -> forall l2, Forall2 P (combine l1 l1') l2 -> Forall2 (fun a b => exists c, Q a c /\ P (a, c) b) l1 l2.
Proof.
  induction 1 as [|a c l l' Hac F IH]; intros l2 G; simpl in G; inversion G; subst; constructor; eauto.
Qed.

Lemma map_combine_id {A B} (g : A -> N) (f : N * B -> A) l1 l2 :
  Forall2 (fun a b => f (g a, b) = a) l1 l2 -> map f (combine (map g l1) l2) = l1.
Proof. induction 1; simpl; congruence. Qed.

Lemma in_combine_map {A B} (g : A -> N) (P : A -> B -> Prop) l1 l2 k v :
  Forall2 P l1 l2 -> In (k, v) (combine (map g l1) l2) -> exists a, In a l1 /\ In v l2 /\ k = g a /\ P a v.
Proof.
  induction 1 as [|a b l l' Hab F IH]; simpl; intros H; [contradiction|]. destruct H as [H|H].
  - inversion H; subst. exists a. auto.
  - destruct (IH H) as (a' & A1 & A2 & A3 & A4). exists a'. auto.
Qed.

Lemma look_In t k v : NoDup (map fst t) -> In (k, v) t -> look t k = v.
Proof. intros Hnd Hin. unfold look. rewrite (In_lookup k v t); auto. Qed.

Lemma map_look_Forall2 {A} (g : A -> N) t l vs :
  NoDup (map fst t) -> Forall2 (fun a v => In (g a, v) t) l vs -> map (look t) (map g l) = vs.
Proof. intros Hnd. induction 1; simpl; auto. f_equal; auto. apply look_In; auto. Qed.

Lemma filter_look_Forall2 {A} (g : A -> N) (pin : A -> bool) t (invs : list nat) l vs :
  NoDup (map fst t) -> Forall2 (fun a v => In (g a, v) t /\ mem v invs = pin a) l vs ->
  filter (fun v => negb (mem v invs)) vs = map (look t) (map g (filter (fun a => negb (pin a)) l)).
Proof.
  intros Hnd. induction 1 as [|a v l l' (H1 & H2) F IH]; simpl; auto. rewrite H2.
  destruct (pin a); simpl; auto. f_equal; auto. symmetry. apply look_In; auto.
Qed.

Lemma mem_In v l : mem v l = true <-> In v l.
Proof. apply memb_In. Qed.
Lemma mem_notIn v l : mem v l = false <-> ~ In v l.
Proof. apply memb_notIn. Qed.

Lemma pre_ns_nodes lo h chain tbl : forall Ts ns, pre_ns lo h chain tbl ns Ts ->
  forall n, In n ns -> exists y, getn h n = Some y /\ n_graph y = None.
Proof.
  induction Ts as [|t r IH]; intros ns H n Hin.
  - cbn in H. subst. destruct Hin.
  - destruct ns as [|m ns']; [destruct H|]. destruct H as (Hn & Hr). destruct Hin as [<-|Hin]; [|eauto].
    destruct t; [destruct Hn|]. destruct Hn as (y & Hy & _ & _ & _ & Hg & _). eauto.
Qed.

(* the node outputs part of gdefs *)
Lemma gdefs_nodes lo h h' tbl chain :
  (forall n y, getn h n = Some y -> exists y', getn h' n = Some y' /\ n_outputs y' = n_outputs y) ->
  keeps lo h h' ->
  (forall k v, In (k, v) tbl -> k <> 0%N -> exists x, getv h' v = Some x /\ v_name x = Some k) ->
  NoDup (map fst tbl) ->
  forall Ts ns, pre_ns lo h chain tbl ns Ts ->
  flat_map (fun n => match getn h' n with Some y => filter (named_ne h') (n_outputs y) | None => [] end) ns
  = map (look tbl) (tout_names Ts).
Proof.
  intros Hn K HT Hnd. induction Ts as [|t r IH]; intros ns H.
  - cbn in H. subst. reflexivity.
  - destruct ns as [|n ns']; [destruct H|]. destruct H as (H1 & H2). cbn [flat_map tout_names].
    rewrite map_app, (IH _ H2). f_equal.
    destruct t as [|nname op ntok ins outs attrs]; [destruct H1|].
    destruct H1 as (y & Hy & _ & _ & _ & _ & _ & Ho & _). destruct (Hn _ _ Hy) as (y' & Hy' & Eo). rewrite Hy', Eo.
    clear - Ho K HT Hnd. induction Ho as [|v d l l' Hvd F IH]; [reflexivity|]. cbn [filter map]. rewrite nz_cons.
    unfold out_rel in Hvd. destruct (N.eqb_spec (vd_name d) 0) as [Hz|Hz].
    + destruct Hvd as (Hr & Hv & Hd). rewrite <- (vdesc_keep lo h h' v K Hr) in Hv. rewrite Hd in Hv.
      assert (Hne : named_ne h' v = false).
      { pose proof (f_equal vd_name Hv) as E1. unfold vdesc_of in E1. unfold named_ne.
        destruct (getv h' v) as [x|]; auto. cbn in E1. destruct (v_name x) as [k|]; auto. subst k. reflexivity. }
      rewrite Hne. auto.
    + destruct (HT _ _ Hvd Hz) as (x & Hx & Hnm).
      assert (Hne : named_ne h' v = true).
      { unfold named_ne. rewrite Hx, Hnm. destruct (N.eqb_spec (vd_name d) 0); auto; contradiction. }
      rewrite Hne. cbn [map]. f_equal; auto. symmetry. apply look_In; auto.
Qed.

Lemma tpay_nil x : tpay [] x = v_info x.
Proof. unfold tpay, norm_pay. rewrite lookup_nil. destruct (N.eqb_spec (v_info x) 0); congruence. Qed.

Lemma PG_bad : PG GBad.
Proof. intros nsc sc h Hc HS Hn Hwf. discriminate. Qed.

Lemma fill_pay_itp i t p : id_tensor i = Some t -> fill_pay (itp i) p = fill_pay' t p.
Proof. intros E. unfold itp, fill_pay, fill_pay'. rewrite E. reflexivity. Qed.

Lemma PG_case gname gtok ins inits nodes outs : PNs nodes -> PG (GT gname gtok ins inits nodes outs).
Proof.
  intros IHn nsc sc h Hc HS Hn Hwf. cbn [wf_g] in Hwf.
  set (defs := tdefs ins inits nodes) in *. set (outn := map (fun o => vd_name (snd o)) outs) in *.
  apply andb_prop in Hwf. destruct Hwf as (Hwf & W6).
  apply andb_prop in Hwf. destruct Hwf as (Hwf & W5).
  apply andb_prop in Hwf. destruct Hwf as (Hwf & W4).
  apply andb_prop in Hwf. destruct Hwf as (Hwf & W3).
  apply andb_prop in Hwf. destruct Hwf as (W1 & W2).
  rewrite forallb_forall in W1, W2, W6.
  set (Dn := map fst defs) in *.
  assert (NDn : NoDup Dn) by (apply nodup_N_NoDup; auto).
  assert (EDn : Dn = map vd_name ins ++ map id_name (filter (fun i => negb (id_input i)) inits) ++ tout_names nodes)
    by apply tdefs_names.
  set (pay_of := fun k => match lookup k defs with Some p => p | None => 0%N end).
  assert (F1 : forall k p, In (k, p) defs -> pay_of k = p).
  { intros k p Hin. unfold pay_of. rewrite (In_lookup k p defs); auto. }
  set (I := fun (k p : N) => memN k outn = false -> p = pay_of k).
  set (b := nv h). set (inn := map vd_name ins).
  set (vis := flat_map (init_vis inn) inits ++ t2p_nvis nodes).
  assert (Din : forall d, In d ins -> In (vd_name d, vd_pay d) defs).
  { intros d Hd. unfold defs, tdefs. apply in_or_app. left. apply in_map_iff. exists d; auto. }
  assert (Dinit : forall i, In i inits -> id_input i = false -> In (id_name i, id_pay i) defs).
  { intros i Hi Ei. unfold defs, tdefs. apply in_or_app. right. apply in_or_app. left.
    apply in_map_iff. exists i. split; auto. apply filter_In. rewrite Ei. auto. }
  assert (Dout : forall d, In d (node_out_descs nodes) -> vd_name d <> 0%N -> In (vd_name d, vd_pay d) defs).
  { intros d Hd Hz. unfold defs, tdefs. apply in_or_app. right. apply in_or_app. right.
    apply in_map_iff. exists d. split; auto. apply filter_In. split; auto. destruct (N.eqb_spec (vd_name d) 0); auto. }
  assert (WI : forall i, In i inits -> id_named i = true /\ id_name i <> 0%N /\ exists t, id_tensor i = Some t /\
            (id_input i = true -> exists d, In d ins /\ vd_name d = id_name i /\ vd_pay d = id_pay i) /\
            (id_input i = false -> ~ In (id_name i) inn /\ td_bad t = false /\ id_pay i <> 0%N /\
                                   fill_pay' t (id_pay i) = id_pay i)).
  { intros i Hi. specialize (W2 i Hi). unfold wf_init in W2.
    apply andb_prop in W2. destruct W2 as (W2 & Wt). apply andb_prop in W2. destruct W2 as (Wa & Wb).
    apply negb_true_iff in Wb. apply N.eqb_neq in Wb. split; auto. split; auto.
    destruct (id_tensor i) as [t|]; [|discriminate]. exists t. split; auto. split; intros Ei; rewrite Ei in Wt.
    - apply existsb_In_ins; auto.
    - apply andb_prop in Wt. destruct Wt as (Wt & W4'). apply andb_prop in Wt. destruct Wt as (Wt & W3').
      apply andb_prop in Wt. destruct Wt as (W1' & W2').
      apply negb_true_iff in W1', W2', W3'. apply memN_notIn in W1'. apply N.eqb_neq in W3'. apply N.eqb_eq in W4'.
      csplit; auto. }
  assert (WN : forall d, In d (node_out_descs nodes) -> wf_node_out outn d = true).
  { eapply wf_ns_descs; eauto. }
  assert (F2 : forall k j, vi_lookup k vis = Some j -> vi_bad j = false /\ vi_pay j = pay_of k).
  { intros k j Hj. apply vi_lookup_In in Hj. destruct Hj as (Hj & Hk). unfold vis in Hj. apply in_app_or in Hj.
    destruct Hj as [Hj|Hj].
    - apply in_flat_map in Hj. destruct Hj as (i & Hi & Hj). apply in_init_vi in Hj.
      destruct Hj as (A1 & A2 & A3 & A4 & ->). cbn in *. subst k. split; auto. symmetry. apply F1.
      apply Dinit; auto. destruct (id_input i) eqn:Ei; auto. exfalso.
      destruct (WI i Hi) as (_ & _ & t & _ & B & _). destruct (B Ei) as (d & Hd & En & _). apply A4.
      rewrite <- En. apply in_map; auto.
    - apply in_nvis in Hj. destruct Hj as (d & Hd & Hj). apply in_out_vi in Hj. destruct Hj as (A1 & A2 & A3 & ->).
      cbn in *. subst k. split; auto. symmetry. apply F1. apply Dout; auto. }
  (* ---- P1 *)
  destruct (phase1 b I (map vi_of ins) h eq_refl) as (h1 & invs & h2 & E1 & E1' & P1a & P1b & P1c & P1d & P1e & P1f & P1g & P1h).
  { intros j Hj. apply in_map_iff in Hj. destruct Hj as (d & <- & Hd). cbn. split; auto. intros _. symmetry. apply F1; auto. }
  set (tbl0 := table_of [] (map vi_of ins) invs) in *.
  rewrite map_map in P1g. cbn [vi_of vi_name] in P1g. fold inn in P1g.
  apply Forall2_map_l in P1h. cbn [vi_of vi_name] in P1h.
  (* ---- P2 *)
  assert (Etp : flat_map init_tps inits = map itp inits).
  { apply init_tps_itp. intros i Hi. destruct (WI i Hi) as (_ & _ & t & Et & _). congruence. }
  destruct (alloc_tensors_spec (map itp inits) h2) as (h3 & cs & E2 & P2a & P2b & P2c & P2d & P2e & P2f).
  { intros t Ht. apply in_map_iff in Ht. destruct Ht as (i & <- & Hi). unfold itp. destruct (id_tensor i); auto. }
  rewrite map_length in P2d. apply Forall2_map_l in P2f.
  assert (GV3 : forall v, getv h3 v = getv h2 v) by (intros; unfold getv; rewrite P2a; auto).
  assert (NV3 : nv h3 = nv h2) by (unfold nv; rewrite P2a; auto).
  assert (T3 : TB b I h3 tbl0).
  { eapply TB_same; eauto. }
  (* ---- P3 *)
  destruct (deser_inits_spec b I vis inits cs h3 tbl0) as (h4 & tbl1 & initvs & E3 & P3a & P3b & P3c & P3d & P3e & P3f & P3g & P3h & P3i); auto.
  { apply nodup_N_NoDup; auto. }
  { intros i Hi. destruct (WI i Hi) as (_ & A & _). auto. }
  { unfold b. lia. }
  { intros i Hi Ei. rewrite P1g. destruct (WI i Hi) as (_ & _ & t & _ & B & _). destruct (B Ei) as (d & Hd & En & _).
    rewrite <- En. apply in_map; auto. }
  { intros i Hi Ei. rewrite P1g. destruct (WI i Hi) as (A1 & A2 & t & Et & _ & B).
    destruct (B Ei) as (B1 & B2 & B3 & B4). split; auto. split; [unfold itp; rewrite Et; auto|].
    assert (Hin : In (mkVI (id_name i) (id_pay i) false) vis).
    { unfold vis. apply in_or_app. left. apply in_flat_map. exists i. split; auto. apply in_init_vi. csplit; auto. }
    pose proof (vi_lookup_some _ _ Hin) as Hl. cbn [vi_name] in Hl.
    destruct (vi_lookup (id_name i) vis) as [j|] eqn:Ej; [|congruence]. exists j. split; auto.
    destruct (F2 _ _ Ej) as (C1 & C2). split; auto. rewrite C2. rewrite (F1 _ _ (Dinit i Hi Ei)).
    rewrite (fill_pay_itp i t _ Et), B4. intros _. symmetry. apply F1. apply Dinit; auto. }
  (* ---- P4 *)
  assert (NDo : NoDup (tout_names nodes)).
  { rewrite EDn in NDn. apply NoDup_app_r in NDn. apply NoDup_app_r in NDn. auto. }
  assert (N1 : nms tbl1 = inn ++ map id_name (filter (fun i => negb (id_input i)) inits)).
  { rewrite P3f, P1g. auto. }
  destruct (declare_nodes_spec b I vis nodes h4 tbl1) as (h5 & tbl2 & E4 & P4a & P4b & P4c & P4d & P4e & P4f & P4g & P4h); auto.
  { unfold b. lia. }
  { intros k Hk Hc'. rewrite N1 in Hc'. rewrite EDn, app_assoc in NDn. eapply NoDup_app_disj; eauto. }
  { intros k Hk. destruct (vi_lookup k vis) as [j|] eqn:Ej.
    - destruct (F2 _ _ Ej) as (C1 & C2). split; auto. intros _. auto.
    - intros Hm. rewrite tout_names_descs in Hk. apply In_nz in Hk. destruct Hk as (Hk & Hz).
      apply in_map_iff in Hk. destruct Hk as (d & <- & Hd).
      destruct (wf_node_out_named _ _ (WN d Hd) Hz) as (_ & Ho). rewrite Hm in Ho.
      rewrite (F1 _ _ (Dout d Hd Hz)).
      destruct (N.eqb_spec (vd_pay d) 0) as [Hp|Hp]; auto. exfalso.
      assert (Hin : In (vi_of d) vis).
      { unfold vis. apply in_or_app. right. apply in_nvis. exists d. split; auto. apply in_out_vi. csplit; auto. }
      apply vi_lookup_some in Hin. cbn in Hin. congruence. }
  assert (N2 : nms tbl2 = Dn) by (rewrite P4g, N1, EDn, app_assoc; auto).
  (* old values / nodes are untouched so far *)
  assert (Tb0 : forall k v, In (k, v) tbl0 -> b <= v) by (intros k v Hin; destruct (P1f k v Hin); auto).
  assert (O4 : forall u, u < nv h -> getv h4 u = getv h u).
  { intros u Hu. destruct (getv_some h u Hu) as (x & Hx). rewrite Hx.
    assert (Hx3 : getv h3 u = Some x) by (rewrite GV3, P1e; auto).
    destruct (P3i _ _ Hx3) as (c' & Hc' & [Ec|(i & Hi & Li)]).
    - rewrite Hc', Ec, with_const_id. auto.
    - apply lookup_In in Li. apply Tb0 in Li. unfold b in Li. lia. }
  assert (O5 : forall u, u < nv h -> getv h5 u = getv h u).
  { intros u Hu. rewrite P4e by lia. auto. }
  assert (HN5 : hn h5 = hn h) by congruence.
  assert (HG5 : hg h5 = hg h) by congruence.
  assert (X05 : ext h h5).
  { unfold ext, nn, ngr, getn, getg. rewrite HN5, HG5. csplit; auto; try lia; eauto.
    - intros v x Hx. exists x. split; auto. rewrite O5; auto. eapply getv_lt; eauto.
    - intros t c Hc'. unfold gett in *. rewrite P4c, P3c. apply P2e. unfold gett. rewrite P1c. auto. }
  (* ---- P5 *)
  assert (NDt : NoDup (map fst tbl2)) by (apply NoDup_nms_fst; rewrite N2; auto).
  assert (Hc2 : chain_ok (tbl2 :: sc)).
  { cbn [chain_ok]. csplit; auto.
    - rewrite N2; auto.
    - eapply NoDup_ids; eauto. rewrite N2; auto.
    - intros k v Hin t' k' Ht' Hin'. destruct (HS t' k' v Ht' Hin') as (x & Hx & _). apply getv_lt in Hx.
      destruct (TB_lt _ _ _ _ _ _ P4f Hin). unfold b in *. lia. }
  assert (Hdecl : forall k, In k (tout_names nodes) -> In k (nms tbl2)).
  { intros k Hk. rewrite N2, EDn. apply in_or_app. right. apply in_or_app. auto. }
  destruct (IHn b I (Dn :: nsc) outn sc tbl2 vis h5 (nv h5)) as (h6 & nids & E5 & S5 & P5 & R5 & D5); auto.
  { eapply SC_ext; eauto. }
  { cbn [map]. rewrite N2, Hn. auto. }
  { apply TB_TQ; auto. }
  { intros k v x _ Hin Hx. destruct (P4f k v Hin) as (_ & x' & Hx' & _ & Hp & _). congruence. }
  pose proof S5 as (X56 & V56 & G56).
  assert (T6 : TQ b I h6 tbl2) by (eapply TQ_nstep; eauto; apply TB_TQ; auto).
  (* ---- P6 *)
  assert (WO : forall o, In o outs -> vd_named (snd o) = true /\ vd_name (snd o) <> 0%N /\ vd_out (snd o) = true /\
             fst o = resolve (vd_name (snd o)) [Dn] 0 /\ fst o <> None /\ pay_of (vd_name (snd o)) = vd_pay (snd o)).
  { intros o Ho. specialize (W6 o Ho). destruct o as [r d]. cbn [fst snd].
    apply andb_prop in W6. destruct W6 as (W6 & Wf). apply andb_prop in W6. destruct W6 as (W6 & We).
    apply andb_prop in W6. destruct W6 as (W6 & Wd). apply andb_prop in W6. destruct W6 as (W6 & Wc).
    apply andb_prop in W6. destruct W6 as (Wa & Wb).
    apply negb_true_iff in Wb. apply N.eqb_neq in Wb. apply ref_eqb_eq in We. csplit; auto.
    - destruct r; [discriminate|discriminate].
    - unfold pay_of. fold defs in Wf. destruct (lookup (vd_name d) defs); [|discriminate]. apply N.eqb_eq in Wf. auto. }
  assert (LO : forall o, In o outs -> exists v, lookup (vd_name (snd o)) tbl2 = Some v /\ In (vd_name (snd o), v) tbl2).
  { intros o Ho. destruct (WO o Ho) as (_ & _ & _ & Er & Hr & _). rewrite Er in Hr. cbn [resolve] in Hr.
    assert (Hk : In (vd_name (snd o)) Dn).
    { destruct (index_N (vd_name (snd o)) Dn 0) eqn:Ei; [|congruence].
      destruct (in_dec N.eq_dec (vd_name (snd o)) Dn) as [Hi|Hi]; auto. apply index_N_None with (i := 0) in Hi. congruence. }
    rewrite <- N2 in Hk. apply In_nms in Hk. destruct Hk as (v & Hv). exists v. split; auto. apply In_lookup; auto. }
  destruct (graph_outputs_spec tbl2 outs h6) as (h7 & E6 & P6a & P6b & P6c & P6d & P6e & P6f).
  { intros o Ho. destruct (LO o Ho) as (v & Hl & Hin). exists v. split; auto. destruct (TQ_lt _ _ _ _ _ _ T6 Hin). auto. }
  set (outvs := map (fun o => look tbl2 (vd_name (snd o))) outs) in *.
  (* the values of the table after P6 *)
  assert (T7 : forall k v, In (k, v) tbl2 -> exists x5 x7, getv h5 v = Some x5 /\ getv h7 v = Some x7 /\
             v_name x7 = Some k /\ v_owner x7 = None /\ v_in x7 = false /\ v_out x7 = false /\ v_init x7 = false /\
             v_const x7 = v_const x5 /\ v_info x7 = pay_of k /\ (~ In k (tout_names nodes) -> v_prod x7 = None)).
  { intros k v Hin. destruct (P4f k v Hin) as (_ & x5 & Hx5 & A1 & A2 & A3 & A4 & A5 & A6 & A7).
    destruct (V56 _ _ Hx5) as (x6 & Hx6 & Em & Hp). apply vmid_inv in Em. destruct Em as (M1 & M2 & M3 & M4 & M5 & M6 & M7).
    destruct (P6e _ _ Hx6) as (p & Hx7 & Hpd).
    exists x5, (with_info p x6). split; auto. split; auto. cbn. rewrite M1, M2, M3, M4, M5, M6. csplit; auto.
    - destruct (memN k outn) eqn:Em.
      + apply memN_In in Em. unfold outn in Em. apply in_map_iff in Em. destruct Em as (o & Ek & Ho).
        destruct (LO o Ho) as (v' & Hl & Hin'). rewrite Ek in Hl, Hin'.
        assert (v' = v) by (rewrite (In_lookup k v tbl2 NDt Hin) in Hl; congruence). subst v'. rewrite <- Ek in Hl.
        destruct (P6f o v Ho Hl) as (x7 & o' & Hx7' & Ho' & Lo' & Io'). rewrite Hx7 in Hx7'. inversion Hx7'; subst x7.
        cbn in Io'. rewrite Io'. destruct (WO o' Ho') as (_ & _ & _ & _ & _ & Ep). rewrite <- Ep. f_equal.
        apply lookup_In in Lo'. eapply TQ_inj; eauto.
      + destruct Hpd as [->|(o & Ho & Lo & ->)].
        * rewrite M7. apply A7; auto.
        * destruct (WO o Ho) as (_ & _ & _ & _ & _ & Ep). rewrite <- Ep. f_equal.
          apply lookup_In in Lo. eapply TQ_inj; eauto.
    - intros Hnk. destruct Hp as [Hp|(k' & Hk' & Hin')]; [congruence|].
      assert (k' = k) by (eapply TQ_inj; eauto). subst k'. contradiction. }
  (* ---- P7 *)
  assert (Hlen : length inits = length initvs).
  { apply Forall2_length' in P3h. rewrite combine_length, P2d, Nat.min_id in P3h. auto. }
  set (kv := (combine (map id_name inits) initvs : list (name * nat))).
  assert (Ekv1 : map snd kv = initvs) by (apply map_snd_combine; rewrite map_length; auto).
  assert (Ekv2 : map fst kv = map id_name inits) by (apply map_fst_combine; rewrite map_length; auto).
  pose proof (Forall2_zip3 _ _ _ _ P2f _ P3h) as FI. cbn [fst snd] in FI.
  assert (FI2 : Forall2 (fun i v => In (id_name i, v) tbl2) inits initvs).
  { eapply Forall2_impl; [|exact FI]. intros i v (c & _ & Hin & _). apply P4h. auto. }
  assert (FV2 : Forall2 (fun d v => In (vd_name d, v) tbl2) ins invs).
  { eapply Forall2_impl; [|exact P1h]. intros d v Hin. apply P4h, P3g. auto. }
  assert (GN7 : forall n, getn h7 n = getn h6 n) by (intros; unfold getn; rewrite P6a; auto).
  destruct (new_graph_ok h7 gname gtok invs outvs kv nids) as (l3 & ln & E7 & L3 & LN & Len3 & Lenn).
  { intros v Hv. destruct (Forall2_in_r _ _ _ _ FV2 Hv) as (d & Hd & Hin).
    destruct (T7 _ _ Hin) as (x5 & x7 & _ & Hx7 & B1 & B2 & B3 & B4 & B5 & B6 & B7 & B8). exists x7. csplit; auto.
    apply B8. intros Hk. rewrite EDn in NDn. eapply NoDup_app_disj; [exact NDn| |apply in_or_app; right; exact Hk].
    apply in_map; auto. }
  { intros v Hv. unfold outvs in Hv. apply in_map_iff in Hv. destruct Hv as (o & <- & Ho).
    destruct (LO o Ho) as (v & Hl & Hin). unfold look. rewrite Hl.
    destruct (T7 _ _ Hin) as (x5 & x7 & _ & Hx7 & B1 & B2 & _). exists x7. auto. }
  { intros k v Hin. unfold kv in Hin. destruct (in_combine_map id_name _ _ _ _ _ FI2 Hin) as (i & Hi & Hv & -> & Hin2).
    destruct (T7 _ _ Hin2) as (x5 & x7 & _ & Hx7 & B1 & B2 & _). exists x7. auto. }
  { pose proof (nodup_N_NoDup _ W3) as Hd. rewrite <- Ekv2 in Hd. exact Hd. }
  { intros n Hn'. rewrite GN7. eapply pre_ns_nodes; eauto. }
  rewrite Ekv1 in E7.
  set (z := mkG gname gtok invs outvs kv nids) in *. set (gid := ngr h7) in *.
  set (h8 := mkH l3 ln (hg h7 ++ [z]) (ht h7)) in *.
  assert (GV8 : forall v, getv h8 v = option_map (gval gid invs outvs initvs v) (getv h7 v)).
  { intros v. unfold getv at 1. unfold h8; cbn [hv]. rewrite L3, Ekv1. reflexivity. }
  assert (GN8 : forall n, getn h8 n = option_map (nnode gid nids n) (getn h7 n)).
  { intros n. unfold getn at 1. unfold h8; cbn [hn]. rewrite LN. reflexivity. }
  assert (NV8 : nv h8 = nv h7) by (unfold nv, h8; cbn [hv]; auto).
  assert (GG8 : getg h8 gid = Some z).
  { unfold getg, h8, gid, ngr; cbn [hg]. apply nth_error_app_new. }
  (* ---- the values of the scope in the final heap *)
  assert (Hrole : forall v, In v invs \/ In v outvs \/ In v initvs -> exists k, In (k, v) tbl2).
  { intros v [Hv|[Hv|Hv]].
    - destruct (Forall2_in_r _ _ _ _ FV2 Hv) as (d & _ & Hin). eauto.
    - unfold outvs in Hv. apply in_map_iff in Hv. destruct Hv as (o & <- & Ho).
      destruct (LO o Ho) as (v & Hl & Hin). unfold look. rewrite Hl. eauto.
    - destruct (Forall2_in_r _ _ _ _ FI2 Hv) as (i & _ & Hin). eauto. }
  assert (Tout : forall k v, In (k, v) tbl2 -> memb v outvs = memN k outn).
  { intros k v Hin. destruct (memN k outn) eqn:Em.
    - apply memb_In. apply memN_In in Em. unfold outn in Em. apply in_map_iff in Em. destruct Em as (o & Ek & Ho).
      unfold outvs. apply in_map_iff. exists o. split; auto. rewrite Ek. apply look_In; auto.
    - apply memb_notIn. intros Hv. apply memN_notIn in Em. apply Em. unfold outvs in Hv. apply in_map_iff in Hv.
      destruct Hv as (o & Ev & Ho). destruct (LO o Ho) as (v' & Hl & Hin'). unfold look in Ev. rewrite Hl in Ev. subst v'.
      assert (vd_name (snd o) = k) by (eapply TQ_inj; eauto). subst k. unfold outn. apply in_map_iff. exists o. auto. }
  assert (F8 : forall k v, In (k, v) tbl2 -> b <= v < nv h8 /\ exists x8, getv h8 v = Some x8 /\ v_name x8 = Some k /\
             vdesc_of [] h8 v = mkVD k true (pay_of k) (memN k outn) /\ v_info x8 = pay_of k /\
             exists x5, getv h5 v = Some x5 /\ v_const x8 = v_const x5).
  { intros k v Hin. destruct (T7 _ _ Hin) as (x5 & x7 & Hx5 & Hx7 & B1 & B2 & B3 & B4 & B5 & B6 & B7 & B8).
    assert (Hx8 : getv h8 v = Some (gval gid invs outvs initvs v x7)) by (rewrite GV8, Hx7; auto).
    split. { split; [destruct (TB_lt _ _ _ _ _ _ P4f Hin); auto | eapply getv_lt; eauto]. }
    eexists. split; [exact Hx8|]. split; [exact B1|]. split; [|split; [exact B7 | exists x5; split; auto]].
    unfold vdesc_of. rewrite Hx8, tpay_nil. cbn. rewrite B1, B4, B7, (Tout _ _ Hin). rewrite orb_false_r. auto. }
  (* ---- the frame *)
  assert (NN5 : nn h5 = nn h) by (unfold nn; rewrite HN5; auto).
  assert (N08 : nested h h8).
  { assert (VF : forall v x, getv h v = Some x -> exists x', getv h8 v = Some x' /\ vfix x' = vfix x).
    { intros v x Hx. assert (Hv : v < nv h) by (eapply getv_lt; eauto).
      assert (Hnt : forall k, ~ In (k, v) tbl2).
      { intros k Hin. destruct (TB_lt _ _ _ _ _ _ P4f Hin). unfold b in *. lia. }
      assert (Hx5 : getv h5 v = Some x) by (rewrite O5; auto).
      destruct (V56 _ _ Hx5) as (x6 & Hx6 & Em & Hp).
      destruct Hp as [Hp|(k & _ & Hin)]; [|exfalso; eapply Hnt; eauto].
      destruct (P6e _ _ Hx6) as (p & Hx7 & [->|(o & Ho & Lo & _)]); [|exfalso; eapply Hnt; apply lookup_In; eauto].
      rewrite with_info_id in Hx7.
      exists x6. split.
      - rewrite GV8, Hx7. cbn [option_map]. f_equal. apply gval_untouched.
        assert (G : forall l, (In v l -> exists k, In (k, v) tbl2) -> memb v l = false).
        { intros l Hl. apply memb_notIn. intros Hin. destruct (Hl Hin) as (k & Hk). eapply Hnt; eauto. }
        rewrite !G; auto.
      - apply vmid_inv in Em. destruct Em as (M1 & M2 & M3 & M4 & M5 & M6 & M7). unfold vfix. congruence. }
    assert (NF : forall n y, getn h n = Some y -> getn h8 n = Some y).
    { intros n y Hy. assert (Hn' : n < nn h) by (eapply getn_lt; eauto).
      assert (Hy5 : getn h5 n = Some y) by (unfold getn in *; rewrite HN5; auto).
      rewrite GN8, GN7, (G56 _ _ Hy5). cbn [option_map]. f_equal. unfold nnode.
      assert (Hm : memb n nids = false) by (apply memb_notIn; intros Hin; apply R5 in Hin; lia).
      rewrite Hm. auto. }
    split; [|split; auto].
    pose proof X05 as (A1 & A2 & A3 & A4 & A5 & A6 & A7). pose proof X56 as (B1 & B2 & B3 & B4 & B5 & B6 & B7).
    unfold ext. csplit.
    - rewrite NV8, P6d. lia.
    - unfold nn at 2. unfold h8; cbn [hn]. rewrite Lenn. fold (nn h7). unfold nn in *. rewrite P6a. lia.
    - unfold ngr at 2. unfold h8; cbn [hg]. rewrite app_length. fold (ngr h7). unfold ngr in *. rewrite P6b. cbn. lia.
    - intros v x Hx. destruct (VF _ _ Hx) as (x' & Hx' & E). exists x'. split; auto.
      apply vfix_inv in E. destruct E as (E & _). auto.
    - intros n y Hy. exists y. split; auto.
    - intros g z0 Hz. apply A6, B6 in Hz. unfold getg in *. unfold h8; cbn [hg]. rewrite P6b.
      rewrite nth_error_app1; auto. apply nth_error_Some. congruence.
    - intros t c Hc'. apply A7, B7 in Hc'. unfold gett in *. unfold h8; cbn [ht]. rewrite P6c. auto. }
  (* ---- gdefs *)
  assert (K68 : keeps (nv h5) h6 h8).
  { assert (VK : forall v x, nv h5 <= v -> getv h6 v = Some x -> exists x', getv h8 v = Some x' /\ vview x' = vview x).
    { intros v x Hv Hx.
      assert (Hnt : forall k, ~ In (k, v) tbl2).
      { intros k Hin. destruct (TB_lt _ _ _ _ _ _ P4f Hin). lia. }
      destruct (P6e _ _ Hx) as (p & Hx7 & [->|(o & Ho & Lo & _)]); [|exfalso; eapply Hnt; apply lookup_In; eauto].
      rewrite with_info_id in Hx7. eexists. split; [rewrite GV8, Hx7; reflexivity|].
      unfold vview. cbn. assert (Hm : memb v outvs = false).
      { apply memb_notIn. intros Hin. destruct (Hrole v (or_intror (or_introl Hin))) as (k & Hk). eapply Hnt; eauto. }
      rewrite Hm. auto. }
    split; auto. pose proof X56 as (B1 & B2 & B3 & B4 & B5 & B6 & B7). unfold ext. csplit.
    - rewrite NV8, P6d. lia.
    - unfold nn at 2. unfold h8; cbn [hn]. rewrite Lenn. unfold nn. rewrite P6a. lia.
    - unfold ngr at 2. unfold h8; cbn [hg]. rewrite app_length. unfold ngr. rewrite P6b. cbn. lia.
    - intros v x Hx. destruct (P6e _ _ Hx) as (p & Hx7 & _). eexists. split; [rewrite GV8, Hx7; reflexivity|]. reflexivity.
    - intros n y Hy. rewrite GN8, GN7, Hy. eexists. split; [reflexivity|]. unfold nnode. destruct (memb n nids); reflexivity.
    - intros g z0 Hz. unfold getg in *. unfold h8; cbn [hg]. rewrite P6b.
      rewrite nth_error_app1; auto. apply nth_error_Some. congruence.
    - intros t c Hc'. unfold gett in *. unfold h8; cbn [ht]. rewrite P6c. auto. }
  assert (FVI : Forall2 (fun i v => In (id_name i, v) tbl2 /\ mem v invs = id_input i) inits initvs).
  { eapply Forall2_impl_In; [|exact FI2]. intros i v Hi Hv Hin. split; auto.
    destruct (WI i Hi) as (_ & _ & t & _ & B1 & B2). destruct (id_input i) eqn:Ei.
    - destruct (B1 eq_refl) as (d & Hd & En & _). apply mem_In.
      destruct (Forall2_in_l _ _ _ _ FV2 Hd) as (v' & Hv' & Hin'). rewrite En in Hin'.
      assert (v' = v).
      { pose proof (In_lookup _ _ _ NDt Hin) as L1. pose proof (In_lookup _ _ _ NDt Hin') as L2. congruence. }
      subst v'. auto.
    - destruct (B2 eq_refl) as (Hni & _). apply mem_notIn. intros Hvin.
      destruct (Forall2_in_r _ _ _ _ FV2 Hvin) as (d & Hd & Hin'). apply Hni.
      assert (vd_name d = id_name i) by (eapply TQ_inj; eauto). unfold inn. rewrite <- H. apply in_map; auto. }
  assert (GD : gdefs h8 z = ids tbl2).
  { rewrite <- (map_look_nms tbl2) by (rewrite N2; auto). rewrite N2, EDn, !map_app.
    unfold gdefs. cbn [g_inputs g_inits g_nodes z]. f_equal; [|f_equal].
    - symmetry. unfold inn. apply map_look_Forall2; auto.
    - rewrite Ekv1. eapply filter_look_Forall2; eauto.
    - eapply gdefs_nodes with (h := h6); eauto.
      + intros n y Hy. rewrite GN8, GN7, Hy. eexists. split; [reflexivity|]. apply nnode_outputs.
      + intros k v Hin _. destruct (F8 _ _ Hin) as (_ & x8 & Hx8 & Hn8 & _). eauto. }
  (* ---- initializers in the final heap *)
  assert (FID : Forall2 (fun i v => idesc_of [] h8 z (id_name i, v) = i) inits initvs).
  { eapply Forall2_impl_In; [|exact (Forall2_and _ _ _ _ FI FVI)]. intros i v Hi Hv ((c & Hc1 & Hin1 & x4 & Hx4 & Hc4) & Hin & Hmem).
    destruct (F8 _ _ Hin) as (_ & x8 & Hx8 & Hn8 & _ & Hi8 & x5 & Hx5 & Hc8).
    assert (Hx5' : getv h5 v = Some x4) by (rewrite P4e; auto; eapply getv_lt; eauto).
    assert (x5 = x4) by congruence. subst x5.
    assert (Ht8 : gett h8 c = gett h3 c).
    { destruct X56 as (_ & _ & _ & _ & _ & _ & B7).
      assert (G5 : gett h5 c = gett h3 c) by (unfold gett; rewrite P4c, P3c; auto).
      rewrite Hc1 in G5 |- *. apply B7 in G5. unfold gett in *. unfold h8; cbn [ht]. rewrite P6c. auto. }
    unfold idesc_of. cbn [snd]. rewrite Hx8, Hn8, Hc8, Hc4, Ht8, Hc1, tpay_nil, Hi8. cbn [t_tok t_pay t_bad_info t_fill z g_inputs].
    rewrite Hmem.
    destruct (WI i Hi) as (A1 & A2 & t & Et & B1 & B2).
    assert (Ep : pay_of (id_name i) = id_pay i).
    { destruct (id_input i) eqn:Ei.
      - destruct (B1 eq_refl) as (d & Hd & En & Ep). rewrite <- En, <- Ep. apply F1. apply Din; auto.
      - apply F1. apply Dinit; auto. }
    rewrite Ep. unfold itp. rewrite Et. cbn. destruct i as [iname inamed iten iinp ipay]. cbn in *. subst inamed iten.
    destruct t; reflexivity. }
  (* ---- conclusion *)
  exists h8, gid. split.
  { cbn [t2p_g deser_graph]. pose proof E3 as E3'. pose proof E4 as E4'. pose proof E5 as E5'. pose proof E6 as E6'.
    unfold tbl0, vis, inn in E3', E4', E5'. unfold outvs in E6'.
    rewrite E1, E1', Etp, E2, E3', E4', E5', E6'. exact E7. }
  split; [exact N08|].
  assert (NG8 : ngr h8 = S gid).
  { unfold ngr at 1. unfold h8; cbn [hg]. rewrite app_length. cbn. unfold gid, ngr. lia. }
  split; [exact NG8|].
  apply and_comm. split.
  { cbn [depth_g]. rewrite NG8. unfold gid, ngr in *. rewrite P6b. rewrite HG5 in D5. lia. }
  cbn [real_g]. exists z. split; [exact GG8|]. rewrite GD. unfold z at 1 2 3 4 5 6 7 8 9.
  cbn [g_name g_tok g_inputs g_inits g_outputs g_nodes].
  split; [reflexivity|]. split; [reflexivity|]. split.
  { apply Forall2_map_eq. apply Forall2_flip. eapply Forall2_impl_In; [|exact FV2]. intros d v Hd Hv Hin. cbn beta.
    destruct (F8 _ _ Hin) as (_ & x8 & _ & _ & Ev & _). rewrite Ev.
    specialize (W1 d Hd). unfold wf_in in W1. apply andb_prop in W1. destruct W1 as (W1 & Wc).
    apply andb_prop in W1. destruct W1 as (Wa & _). apply eqb_prop in Wc.
    rewrite (F1 _ _ (Din d Hd)). unfold memN. rewrite <- Wc. rewrite <- Wa. destruct d; reflexivity. }
  split.
  { unfold kv. apply map_combine_id. exact FID. }
  split.
  { unfold outvs. rewrite map_map. rewrite <- (map_id outs) at 2. apply map_ext_in. intros o Ho.
    destruct (LO o Ho) as (v & Hl & Hin). unfold look. rewrite Hl.
    destruct (WO o Ho) as (A1 & A2 & A3 & A4 & A5 & A6).
    destruct (F8 _ _ Hin) as (_ & x8 & _ & _ & Ev & _). rewrite Ev.
    destruct o as [r d]. cbn [fst snd] in *. f_equal.
    - assert (Hc1 : chain_ok [tbl2]).
      { destruct Hc2 as (C1 & C2 & _). cbn [chain_ok]. csplit; auto; intros k v0 _ t' k' []. }
      assert (Hls : lookup_scopes (vd_name d) [tbl2] = Some v).
      { unfold lookup_scopes. rewrite Hl. auto. }
      destruct (find_resolve [tbl2] (vd_name d) v 0 Hc1 Hls) as (Ef & _). cbn [map] in Ef. rewrite Ef, N2. auto.
    - assert (Hm : memN (vd_name d) outn = true).
      { apply memN_In. unfold outn. apply in_map_iff. exists (r, d). auto. }
      rewrite Hm, A6. destruct d as [dn dm dp dout]; cbn in A1, A3 |- *. rewrite A1, A3. reflexivity. }
  split.
  { intros v Hv. destruct (Hrole v (or_introl Hv)) as (k & Hk). destruct (F8 _ _ Hk); auto. }
  split.
  { intros [k v] Hin. unfold kv in Hin. destruct (in_combine_map id_name _ _ _ _ _ FID Hin) as (i & Hi & Hv & -> & Ei).
    cbn [snd]. split.
    - destruct (Hrole v (or_intror (or_intror Hv))) as (k & Hk). destruct (F8 _ _ Hk); auto.
    - change (id_tensor (idesc_of [] h8 z (id_name i, v)) <> None). rewrite Ei. destruct (WI i Hi) as (_ & _ & t & Et & _). congruence. }
  split.
  { intros v Hv. destruct (Hrole v (or_intror (or_introl Hv))) as (k & Hk). destruct (F8 _ _ Hk); auto. }
  eapply pre_real_ns with (lo := nv h5) (h := h6) (tbl := tbl2) (nsc := Dn :: nsc) (outn := outn); eauto.
  - destruct X05; auto.
  - intros k v Hin _. destruct (F8 _ _ Hin) as (A & x8 & Hx8 & Hn8 & _). split; eauto.
  - intros d v Hd Hz Hin. destruct (F8 _ _ Hin) as (_ & x8 & _ & _ & Ev & _). rewrite Ev.
    destruct (wf_node_out_named _ _ (WN d Hd) Hz) as (A1 & A2). rewrite (F1 _ _ (Dout d Hd Hz)), <- A2.
    rewrite <- A1. destruct d; reflexivity.
Qed.

(* C03/IsoDeserM.v — half (B) of C03_iso for whole models: deserialize_model accepts the proto of every
   well-formed model tree and builds a state whose unfolding is that tree (IsoSpecsF.deser_model_tree_spec). *)
From Coq Require Import NArith List Bool Arith Lia.
From IRV Require Import Base.Exn C03.Model C03.Canon C03.Inv C03.Tree C03.TreeF C03.IsoSpecs C03.IsoSpecsF C17.Basics C17.Specs C17.Steps C17.Phases C17.OpNode C17.OpGraph C17.Deser C03.IsoDeserA C03.IsoDeserB C03.IsoDeserC C03.IsoDeserD C03.IsoDeserE C03.IsoDeserF C03.IsoDeserG C03.IsoDeser C03.IsoDeserH C03.IsoDeserI.
Import ListNotations.

Arguments deser_function : simpl never.

(* ------------------------------------------------------------------ the list of functions *)
Lemma deser_functions_tree : forall Fs h, forallb wf_f Fs = true ->
  exists h' fs, deser_functions (map t2p_f Fs) h = Ok (h', fs) /\ nested h h' /\
    Forall2 (real_f (nv h) h') fs Fs /\ (forall F, In F Fs -> depth_f F < ngr h') /\
    map f_id fs = map fid_of Fs.
Proof.
  induction Fs as [|F r IH]; intros h Hwf.
  - exists h, []. cbn. csplit; auto. + apply nested_refl. + intros F [].
  - cbn [forallb] in Hwf. apply andb_prop in Hwf. destruct Hwf as (W1 & W2).
    destruct (PF_all F h W1) as (h1 & f & E1 & N1 & R1 & D1 & I1).
    destruct (IH h1 W2) as (h2 & fs & E2 & N2 & R2 & D2 & I2).
    exists h2, (f :: fs). cbn [map deser_functions]. rewrite E1, E2. csplit; auto.
    + eapply nested_trans'; eauto.
    + constructor.
      * eapply real_f_nested; eauto.
      * eapply Forall2_impl; [|exact R2]. intros f' F'. apply real_f_mono. apply nested_nv; auto.
    + intros F' [<-|Hin]; auto. pose proof (nested_ngr _ _ N2). lia.
    + cbn. congruence.
Qed.

(* Model(functions=[...]): no replacement when the identifiers are pairwise different *)
Lemma funcs_dict_app : forall l acc, NoDup (map f_id (acc ++ l)) -> funcs_dict acc l = acc ++ l.
Proof.
  induction l as [|f r IH]; intros acc H; cbn [funcs_dict].
  - rewrite app_nil_r; auto.
  - assert (Hput : forall a, ~ In (f_id f) (map f_id a) ->
      (fix put (a : list func) : list func :=
         match a with
         | [] => [f]
         | x :: t => if N.eqb (f_id x) (f_id f) then f :: t else x :: put t
         end) a = a ++ [f]).
    { induction a as [|x t IHa]; intros Hn; auto. simpl in Hn |- *.
      destruct (N.eqb_spec (f_id x) (f_id f)) as [E|E]; [exfalso; apply Hn; auto|].
      rewrite IHa; auto. }
    rewrite Hput.
    + rewrite IH; rewrite <- app_assoc; auto.
    + rewrite map_app in H. intros Hin. eapply NoDup_app_disj; eauto. simpl; auto.
Qed.

Lemma deser_model_tree : deser_model_tree_spec.
Proof.
  intros [tok G Fs] Hwf. unfold wf_m in Hwf. cbn [mt_tok mt_graph mt_funcs] in Hwf.
  apply andb_prop in Hwf. destruct Hwf as (Hwf & W3). apply andb_prop in Hwf. destruct Hwf as (W1 & W2).
  destruct (deser_tree_real G empty_heap W1) as (h1 & gid & E1 & N1 & L1 & R1 & D1).
  destruct (deser_functions_tree Fs h1 W2) as (h2 & fs & E2 & N2 & R2 & D2 & I2).
  assert (Hd : funcs_dict [] fs = fs).
  { apply (funcs_dict_app fs []). cbn [app]. rewrite I2. apply nodup_N_NoDup; auto. }
  exists h2, (mkM tok gid fs). split.
  { unfold deser_model, t2p_m. cbn [mp_graph mp_funcs mp_tok mt_tok mt_graph mt_funcs]. rewrite E1, E2, Hd. reflexivity. }
  pose proof (nested_ngr _ _ N2) as Hg12.
  unfold unfold_model. cbn [m_tok m_graph m_funcs]. f_equal.
  - unfold unfold_root. eapply real_g_unfold.
    + eapply real_g_nested; eauto.
    + unfold ser_fuel. fold (ngr h2). cbn in D1. lia.
  - apply Forall2_map_eq. eapply Forall2_impl_In; [|exact R2]. intros f F _ HF Hr. cbn beta.
    eapply real_f_unfold; eauto. unfold ser_fuel. fold (ngr h2). specialize (D2 F HF). lia.
Qed.

(* C03/IsoDeserC.v — success + exact-result lemmas for the non-recursive phases of the deserializer
   (inputs, tensors, initializers, _declare_node_outputs, node inputs / outputs, graph outputs) and for
   the constructors Node() / Graph(). *)
From Coq Require Import NArith List Bool Arith Lia.
From IRV Require Import Base.Exn C03.Model C03.Canon C03.Inv C03.Tree C03.IsoSpecs C17.Basics C17.Specs C17.Steps C17.Phases C17.OpNode C17.OpGraph C17.Deser C03.IsoDeserA C03.IsoDeserB.
Import ListNotations.

Arguments alloc_value : simpl never.
Arguments alloc_tensor : simpl never.
Arguments apply_info : simpl never.
Arguments apply_info_opt : simpl never.
Arguments apply_info_init : simpl never.
Arguments lookup_scopes : simpl never.
Arguments in_table : simpl never.
Arguments lookup : simpl never.
Arguments new_node : simpl never.
Arguments new_graph : simpl never.

Lemma Forall2_impl_In {A B} (P Q : A -> B -> Prop) l1 l2 :
  (forall a b, In a l1 -> In b l2 -> P a b -> Q a b) -> Forall2 P l1 l2 -> Forall2 Q l1 l2.
Proof.
  intros H F. induction F; constructor.
  - apply H; auto; left; auto.
  - apply IHF. intros a b Ha Hb. apply H; right; auto.
Qed.
Lemma Forall2_impl {A B} (P Q : A -> B -> Prop) l1 l2 :
  (forall a b, P a b -> Q a b) -> Forall2 P l1 l2 -> Forall2 Q l1 l2.
Proof. intros H. apply Forall2_impl_In. auto. Qed.
Lemma Forall2_length' {A B} (P : A -> B -> Prop) l1 l2 : Forall2 P l1 l2 -> length l1 = length l2.
Proof. induction 1; simpl; auto. Qed.

(* destruct the allocation occurring in the goal (whatever the spelling of its implicit types) *)
Ltac dalloc h0 v Ea :=
  match goal with
  | |- context [alloc_value ?a ?b ?c ?d] => destruct (alloc_value a b c d) as [h0 v] eqn:Ea
  end.

(* ------------------------------------------------------------------ primitive steps *)
Lemma updv_getv h v f u : getv (updv h v f) u = if Nat.eqb v u then option_map f (getv h u) else getv h u.
Proof. unfold getv, updv, set_hv; simpl. apply nth_error_upd. Qed.
Lemma updv_nv h v f : nv (updv h v f) = nv h.
Proof. unfold nv, updv, set_hv; simpl. apply upd_length. Qed.
Lemma updv_getv_eq h v f x : getv h v = Some x -> getv (updv h v f) v = Some (f x).
Proof. intros H. rewrite updv_getv, Nat.eqb_refl, H. auto. Qed.
Lemma updv_getv_neq h v f u : v <> u -> getv (updv h v f) u = getv h u.
Proof. intros H. rewrite updv_getv. destruct (Nat.eqb_spec v u); congruence. Qed.

Lemma alloc_spec h nm c p h' v : alloc_value h nm c p = (h', v) ->
  v = nv h /\ nv h' = S (nv h) /\ hn h' = hn h /\ hg h' = hg h /\ ht h' = ht h /\
  getv h' v = Some (fresh_value nm c p) /\ (forall u, u < nv h -> getv h' u = getv h u).
Proof.
  intros Ha. destruct (alloc_getv _ _ _ _ _ _ Ha) as (Hv & Hnv & Hn & Hg & Ht & Hnew & Hold & Hinv).
  csplit; auto. intros u Hu. destruct (getv_some h u Hu) as (x & Hx). rewrite Hx. auto.
Qed.

(* ------------------------------------------------------------------ the table of the scope being built *)
(* tent b I h k v: v is the (still unowned, producer-less) value bound to k; I k info holds *)
Definition tent (b : nat) (I : N -> N -> Prop) (h : heap) (k : N) (v : nat) : Prop :=
  b <= v /\ exists x, getv h v = Some x /\ v_name x = Some k /\ v_prod x = None /\ v_owner x = None /\
                      v_in x = false /\ v_out x = false /\ v_init x = false /\ I k (v_info x).
Definition TB (b : nat) (I : N -> N -> Prop) (h : heap) (t : table) : Prop :=
  forall k v, In (k, v) t -> tent b I h k v.

Lemma tent_fresh b (I : N -> N -> Prop) h k v c p :
  b <= v -> getv h v = Some (fresh_value (Some k) c p) -> I k p -> tent b I h k v.
Proof. intros Hb Hg Hi. split; auto. eexists. split; [exact Hg|]. simpl. csplit; auto. Qed.

Lemma TB_lt b I h t k v : TB b I h t -> In (k, v) t -> b <= v < nv h.
Proof. intros H Hin. destruct (H _ _ Hin) as (Hb & x & Hx & _). split; auto. eapply getv_lt; eauto. Qed.

Lemma TB_inj b I h t k k' v : TB b I h t -> In (k, v) t -> In (k', v) t -> k = k'.
Proof.
  intros H H1 H2. destruct (H _ _ H1) as (_ & x & Hx & Hn & _). destruct (H _ _ H2) as (_ & x' & Hx' & Hn' & _).
  congruence.
Qed.

(* every step that leaves the values of the table alone (or changes only const) preserves TB *)
Lemma TB_same b I h h' t : TB b I h t -> (forall v, v < nv h -> getv h' v = getv h v) -> TB b I h' t.
Proof.
  intros H Hs k v Hin. destruct (H _ _ Hin) as (Hb & x & Hx & R). split; auto. exists x. split; auto.
  rewrite Hs; auto. eapply getv_lt; eauto.
Qed.

Lemma TB_nil b I h : TB b I h [].
Proof. intros k v []. Qed.

Lemma NoDup_ids b I h t : TB b I h t -> NoDup (nms t) -> NoDup (ids t).
Proof.
  intros HT Hn. apply NoDup_nms_fst in Hn. rewrite ids_map_snd. apply NoDup_rev'.
  induction t as [|[k v] t IH]; simpl in *; [constructor|]. inversion Hn; subst.
  constructor.
  - intros Hin. apply in_map_iff in Hin. destruct Hin as ([k' v'] & E & Hin). simpl in E; subst v'.
    assert (k = k') by (eapply TB_inj; eauto; [left; auto | right; auto]). subst k'.
    apply H1. apply in_map_iff. exists (k, v); auto.
  - apply IH; auto. intros k' v' Hin. apply HT. right; auto.
Qed.

(* ------------------------------------------------------------------ P1: inputs *)
Lemma alloc_inputs_spec : forall vis h h1 invs, alloc_inputs h vis = (h1, invs) ->
  hn h1 = hn h /\ hg h1 = hg h /\ ht h1 = ht h /\ nv h1 = nv h + length vis /\
  (forall u, u < nv h -> getv h1 u = getv h u) /\
  Forall2 (fun i v => getv h1 v = Some (fresh_value (Some (vi_name i)) None 0%N)) vis invs /\
  invs = seq (nv h) (length vis).
Proof.
  induction vis as [|i r IH]; cbn; intros h h1 invs H.
  - inversion H; subst. csplit; auto; lia.
  - destruct (alloc_value h (Some (vi_name i)) None 0%N) as [h0 v] eqn:Ea.
    destruct (alloc_inputs h0 r) as [h2 vs] eqn:Er. inversion H; subst; clear H.
    destruct (alloc_spec _ _ _ _ _ _ Ea) as (Hv & Hnv & Hn & Hg & Ht & Hnew & Hold).
    destruct (IH _ _ _ Er) as (A1 & A2 & A3 & A4 & A5 & A6 & A7).
    csplit; try congruence.
    + lia.
    + intros u Hu. rewrite A5 by lia. auto.
    + constructor; auto. rewrite A5 by lia. auto.
Qed.

Lemma apply_infos_spec : forall vis vs h,
  length vs = length vis -> NoDup vs -> (forall v, In v vs -> v < nv h) -> (forall i, In i vis -> vi_bad i = false) ->
  exists h', apply_infos h vis vs = Ok h' /\ hn h' = hn h /\ hg h' = hg h /\ ht h' = ht h /\ nv h' = nv h /\
    (forall u, ~ In u vs -> getv h' u = getv h u) /\
    Forall2 (fun i v => getv h' v = option_map (with_info (vi_pay i)) (getv h v)) vis vs.
Proof.
  induction vis as [|i r IH]; intros [|v vs] h Hl Hnd Hlt Hb; simpl in Hl; try discriminate.
  - exists h. cbn. csplit; auto.
  - cbn. unfold apply_info. rewrite (Hb i) by (left; auto). inversion Hnd; subst.
    set (h1 := updv h v (with_info (vi_pay i))).
    destruct (IH vs h1) as (h' & E & A1 & A2 & A3 & A4 & A5 & A6); auto.
    { intros u Hu. unfold h1. rewrite updv_nv. apply Hlt; right; auto. }
    { intros j Hj. apply Hb; right; auto. }
    exists h'. rewrite E. csplit; auto.
    + unfold h1 in A4. rewrite updv_nv in A4. auto.
    + intros u Hu. rewrite A5 by (intros Hin; apply Hu; right; auto). unfold h1. apply updv_getv_neq.
      intros ->. apply Hu; left; auto.
    + constructor.
      * rewrite A5 by auto. unfold h1. rewrite updv_getv, Nat.eqb_refl. auto.
      * eapply Forall2_impl_In; [|exact A6]. intros j u _ Hin Hu. simpl in Hu. rewrite Hu. unfold h1.
        rewrite updv_getv_neq; auto. intros ->. auto.
Qed.

(* ---- Forall2 helpers *)
Lemma Forall2_and {A B} (P Q : A -> B -> Prop) l1 l2 :
  Forall2 P l1 l2 -> Forall2 Q l1 l2 -> Forall2 (fun a b => P a b /\ Q a b) l1 l2.
Proof. intros F. induction F; intros G; inversion G; subst; constructor; auto. Qed.
Lemma Forall2_map_l {A A' B} (f : A -> A') (P : A' -> B -> Prop) l1 l2 :
  Forall2 P (map f l1) l2 <-> Forall2 (fun a b => P (f a) b) l1 l2.
Proof.
  split.
  - revert l2; induction l1 as [|a l1 IH]; intros l2 H; inversion H; subst; constructor; auto.
  - intros F; induction F; simpl; constructor; auto.
Qed.
Lemma Forall2_combine_inv {A B} (f : A -> N) (P : A -> B -> Prop) l1 l2 k v :
  Forall2 P l1 l2 -> In (k, v) (combine (map f l1) l2) -> exists a, In a l1 /\ k = f a /\ P a v.
Proof.
  intros F; induction F as [|x y l l' Hxy F IHF]; simpl; intros H0; [contradiction|]. destruct H0 as [H0|H0].
  - inversion H0; subst. exists x. auto.
  - destruct (IHF H0) as (a & Ha & E & Hp). exists a. auto.
Qed.
Lemma Forall2_combine_in {A B} (f : A -> N) (P : A -> B -> Prop) l1 l2 :
  Forall2 P l1 l2 -> Forall2 (fun a v => In (f a, v) (combine (map f l1) l2)) l1 l2.
Proof.
  intros F; induction F; simpl; constructor; auto.
  eapply Forall2_impl; [|exact IHF]. intros a b Hab; right; auto.
Qed.

Lemma table_of_spec : forall vis vs t, length vs = length vis ->
  nms (table_of t vis vs) = nms t ++ map vi_name vis /\
  (forall kv, In kv (table_of t vis vs) <-> In kv t \/ In kv (combine (map vi_name vis) vs)).
Proof.
  induction vis as [|i r IH]; intros [|v vs] t Hl; simpl in Hl; try discriminate; simpl.
  - rewrite app_nil_r. split; auto. intros kv; tauto.
  - destruct (IH vs ((vi_name i, v) :: t)) as (A & B); [lia|]. rewrite A, nms_cons, <- app_assoc. split; auto.
    intros kv. rewrite B. simpl. tauto.
Qed.

Lemma phase1 b I (vis : list vinfo) h :
  b = nv h -> (forall i, In i vis -> vi_bad i = false /\ I (vi_name i) (vi_pay i)) ->
  exists h1 invs h2, alloc_inputs h vis = (h1, invs) /\ apply_infos h1 vis invs = Ok h2 /\
    hn h2 = hn h /\ hg h2 = hg h /\ ht h2 = ht h /\ nv h <= nv h2 /\
    (forall u, u < nv h -> getv h2 u = getv h u) /\
    TB b I h2 (table_of [] vis invs) /\
    nms (table_of [] vis invs) = map vi_name vis /\
    Forall2 (fun i v => In (vi_name i, v) (table_of [] vis invs)) vis invs.
Proof.
  intros Hb Hv. destruct (alloc_inputs h vis) as [h1 invs] eqn:E1.
  destruct (alloc_inputs_spec _ _ _ _ E1) as (A1 & A2 & A3 & A4 & A5 & A6 & A7).
  assert (Hlen : length invs = length vis) by (rewrite A7; apply seq_length).
  assert (Hnd : NoDup invs) by (rewrite A7; apply seq_NoDup).
  assert (Hlt : forall v, In v invs -> nv h <= v < nv h1).
  { intros v Hin. rewrite A7 in Hin. apply in_seq in Hin. lia. }
  destruct (apply_infos_spec vis invs h1) as (h2 & E2 & B1 & B2 & B3 & B4 & B5 & B6); auto.
  { intros v Hin. apply Hlt in Hin. lia. }
  { intros i Hi. apply Hv; auto. }
  destruct (table_of_spec vis invs [] Hlen) as (T1 & T2).
  exists h1, invs, h2. csplit; auto; try congruence.
  - lia.
  - intros u Hu. rewrite B5, A5; auto. intros Hin. apply Hlt in Hin. lia.
  - intros k v Hin. apply T2 in Hin. destruct Hin as [[]|Hin].
    destruct (Forall2_combine_inv vi_name _ _ _ _ _ (Forall2_and _ _ _ _ A6 B6) Hin) as (i & Hi & -> & G1 & G2).
    assert (Hvin : In v invs) by (eapply in_combine_r; eauto).
    rewrite G1 in G2. simpl in G2. eapply tent_fresh; [| exact G2 |]; simpl.
    + apply Hlt in Hvin. lia.
    + apply Hv; auto.
  - eapply Forall2_impl; [|apply (Forall2_combine_in vi_name _ _ _ A6)]. intros i v Hin. apply T2. right; auto.
Qed.

(* ------------------------------------------------------------------ P2: tensors *)
Lemma alloc_tensors_spec : forall ts h, (forall t, In t ts -> tp_bad_ctor t = false) ->
  exists h' cs, alloc_tensors h ts = Ok (h', cs) /\ hv h' = hv h /\ hn h' = hn h /\ hg h' = hg h /\
    length cs = length ts /\ (forall c t, gett h c = Some t -> gett h' c = Some t) /\
    Forall2 (fun t c => gett h' c = Some (mkT (Some (tp_name t)) (tp_tok t) (tp_pay t) (tp_bad_info t) (tp_fill t))) ts cs.
Proof.
  induction ts as [|t r IH]; intros h Hb; cbn.
  - exists h, []. csplit; auto.
  - rewrite (Hb t) by (left; auto).
    destruct (alloc_tensor h (Some (tp_name t)) (tp_tok t) (tp_pay t) (tp_bad_info t) (tp_fill t)) as [h1 c] eqn:Ea.
    unfold alloc_tensor in Ea. inversion Ea; subst h1 c; clear Ea.
    match goal with |- context [alloc_tensors ?hh r] => set (h1 := hh) end.
    destruct (IH h1) as (h' & cs & E & A1 & A2 & A3 & A4 & A5 & A6); [intros; apply Hb; right; auto|].
    rewrite E. exists h', (length (ht h) :: cs). csplit; auto; try (simpl; congruence).
    + intros c t' Hc. apply A5. unfold gett, h1 in *; simpl. rewrite nth_error_app1; auto.
      apply nth_error_Some. congruence.
    + constructor; auto. apply A5. unfold gett, h1; simpl. apply nth_error_app_new.
Qed.

(* ------------------------------------------------------------------ P3: initializers *)
Definition itp (i : idesc) : tproto :=
  match id_tensor i with
  | Some t => mkTP (id_name i) (td_tok t) (td_pay t) false (td_bad t) (td_fill t)
  | None => mkTP (id_name i) 0%N 0%N false false []
  end.
Lemma tp_name_itp i : tp_name (itp i) = id_name i.
Proof. unfold itp. destruct (id_tensor i); auto. Qed.
Lemma init_tps_itp inits : (forall i, In i inits -> id_tensor i <> None) -> flat_map init_tps inits = map itp inits.
Proof.
  induction inits as [|i r IH]; simpl; intros H; auto. rewrite IH by (intros; apply H; auto).
  unfold init_tps, itp. destruct (id_tensor i) eqn:E; auto. exfalso. apply (H i); auto.
Qed.

Lemma with_const_twice c c' x : with_const c' (with_const c x) = with_const c' x.
Proof. destruct x; reflexivity. Qed.
Lemma with_const_id x : with_const (v_const x) x = x.
Proof. destruct x; reflexivity. Qed.

Lemma TB_const b I h h' t :
  TB b I h t -> (forall u x, getv h u = Some x -> exists c', getv h' u = Some (with_const c' x)) -> TB b I h' t.
Proof.
  intros H Hs k v Hin. destruct (H _ _ Hin) as (Hb & x & Hx & R). split; auto.
  destruct (Hs _ _ Hx) as (c' & Hx'). exists (with_const c' x). split; auto.
Qed.

Lemma deser_inits_spec b I vis : forall inits cs h tbl,
  length cs = length inits -> NoDup (map id_name inits) -> (forall i, In i inits -> id_name i <> 0%N) ->
  TB b I h tbl -> b <= nv h ->
  (forall i, In i inits -> id_input i = true -> In (id_name i) (nms tbl)) ->
  (forall i, In i inits -> id_input i = false -> ~ In (id_name i) (nms tbl) /\ tp_bad_info (itp i) = false /\
      exists j, vi_lookup (id_name i) vis = Some j /\ vi_bad j = false /\ I (id_name i) (fill_pay (itp i) (vi_pay j))) ->
  exists h' tbl' vs, deser_inits h tbl vis (map itp inits) cs = Ok (h', tbl', vs) /\
    hn h' = hn h /\ hg h' = hg h /\ ht h' = ht h /\ nv h <= nv h' /\
    TB b I h' tbl' /\
    nms tbl' = nms tbl ++ map id_name (filter (fun i => negb (id_input i)) inits) /\
    (forall kv, In kv tbl -> In kv tbl') /\
    Forall2 (fun ic v => In (id_name (fst ic), v) tbl' /\ exists x, getv h' v = Some x /\ v_const x = Some (snd ic))
            (combine inits cs) vs /\
    (forall u x, getv h u = Some x -> exists c', getv h' u = Some (with_const c' x) /\
         (c' = v_const x \/ exists i, In i inits /\ lookup (id_name i) tbl = Some u)).
Proof.
  induction inits as [|i r IH]; intros [|c cr] h tbl Hl Hnd Hnz HT Hb Hin Hni; simpl in Hl; try discriminate.
  - exists h, tbl, []. cbn. csplit; auto. rewrite app_nil_r; auto.
    intros u x Hx. exists (v_const x). rewrite with_const_id. auto.
  - cbn [map deser_inits]. cbv zeta. rewrite tp_name_itp.
    destruct (N.eqb_spec (id_name i) 0) as [Hz|_]; [exfalso; apply (Hnz i); auto; left; auto|].
    simpl in Hnd. inversion Hnd as [|? ? Hnot Hnd']; subst.
    assert (Hrest : forall i', In i' r -> id_name i' <> id_name i).
    { intros i' Hi' E. apply Hnot. rewrite <- E. apply in_map; auto. }
    assert (Hex : existsb (fun t' => N.eqb (tp_name t') (id_name i)) (map itp r) = false).
    { apply Bool.not_true_is_false. intros Hc. apply existsb_exists in Hc. destruct Hc as (t' & Ht' & He).
      apply in_map_iff in Ht'. destruct Ht' as (i' & Ei' & Hi'). subst t'. rewrite tp_name_itp in He.
      apply N.eqb_eq in He. apply (Hrest i' Hi'); auto. }
    rewrite Hex.
    destruct (lookup (id_name i) tbl) as [v|] eqn:El.
    + (* an input *)
      assert (Hinp : id_input i = true).
      { destruct (id_input i) eqn:Ei; auto. destruct (Hni i (or_introl eq_refl) Ei) as (Hn & _).
        exfalso. apply Hn. apply In_nms. exists v. apply lookup_In; auto. }
      pose proof (lookup_In _ _ _ El) as Hkv.
      destruct (HT _ _ Hkv) as (Hbv & x & Hx & Hxr).
      set (h1 := updv h v (with_const (Some c))).
      assert (F1 : forall u y, getv h u = Some y -> exists c', getv h1 u = Some (with_const c' y)).
      { intros u y Hu. unfold h1. rewrite updv_getv. destruct (Nat.eqb_spec v u) as [->|Hn].
        - rewrite Hu. simpl. eauto.
        - exists (v_const y). rewrite with_const_id. auto. }
      destruct (IH cr h1 tbl) as (h' & tbl' & vs & E & A1 & A2 & A3 & A4 & A5 & A6 & A7 & A8 & A9);
        [ lia | exact Hnd' | intros i' Hi'; apply Hnz; right; auto | eapply TB_const; eauto
        | unfold h1; rewrite updv_nv; auto | intros i' Hi'; apply Hin; right; auto
        | intros i' Hi'; apply Hni; right; auto | ].
      rewrite E. exists h', tbl', (v :: vs). unfold h1 in A4. rewrite updv_nv in A4.
      csplit; auto.
      * simpl. rewrite Hinp. simpl. auto.
      * simpl. constructor; auto. simpl. split; [apply A7; auto|].
        assert (G : getv h1 v = Some (with_const (Some c) x)) by (unfold h1; apply updv_getv_eq; auto).
        destruct (A9 _ _ G) as (c' & Hc' & [Ec|(i' & Hi' & Li')]).
        -- exists (with_const c' (with_const (Some c) x)). split; auto.
        -- exfalso. apply (Hrest i' Hi'). exact (TB_inj _ _ _ _ _ _ _ HT (lookup_In _ _ _ Li') Hkv).
      * intros u y Hu. unfold h1 in A9. destruct (Nat.eq_dec v u) as [->|Hn].
        -- assert (G : getv (updv h u (with_const (Some c))) u = Some (with_const (Some c) y)) by (apply updv_getv_eq; auto).
           destruct (A9 _ _ G) as (c' & Hc' & _). exists c'. rewrite with_const_twice in Hc'. split; auto.
           right. exists i. split; [left; auto|]. auto.
        -- assert (G : getv (updv h v (with_const (Some c))) u = Some y) by (rewrite updv_getv_neq; auto).
           destruct (A9 _ _ G) as (c' & Hc' & [Ec|(i' & Hi' & Li')]); exists c'; split; auto.
           right. exists i'. split; [right; auto|auto].
    + (* a new value *)
      assert (Hinp : id_input i = false).
      { destruct (id_input i) eqn:Ei; auto. pose proof (Hin i (or_introl eq_refl) Ei) as Hn.
        apply In_nms in Hn. destruct Hn as (v & Hv). apply lookup_None in El. exfalso. apply El.
        apply in_map_iff. exists (id_name i, v). auto. }
      destruct (Hni i (or_introl eq_refl) Hinp) as (Hnin & Hbad & j & Hj & Hjb & HI).
      rewrite Hbad.
      dalloc h0 v Ea.
      destruct (alloc_spec _ _ _ _ _ _ Ea) as (Hv & Hnv & Hn0 & Hg0 & Ht0 & Hnew & Hold).
      unfold apply_info_init. rewrite tp_name_itp, Hj, Hjb.
      set (h2 := updv h0 v (with_info (fill_pay (itp i) (vi_pay j)))).
      assert (G2 : getv h2 v = Some (fresh_value (Some (id_name i)) (Some c) (fill_pay (itp i) (vi_pay j)))).
      { unfold h2. rewrite (updv_getv_eq _ _ _ _ Hnew). reflexivity. }
      assert (O2 : forall u, u < nv h -> getv h2 u = getv h u).
      { intros u Hu. unfold h2. rewrite updv_getv_neq by lia. auto. }
      destruct (IH cr h2 ((id_name i : name, v) :: tbl)) as (h' & tbl' & vs & E & A1 & A2 & A3 & A4 & A5 & A6 & A7 & A8 & A9);
        [ lia | exact Hnd' | intros i' Hi'; apply Hnz; right; auto | | | | | ].
      { intros k u [Eq|Hk].
        - inversion Eq; subst k u. eapply tent_fresh; eauto. lia.
        - eapply TB_same; eauto. }
      { unfold h2. rewrite updv_nv. lia. }
      { intros i' Hi' Ei'. rewrite nms_cons. apply in_or_app. left. apply Hin; auto. right; auto. }
      { intros i' Hi' Ei'. destruct (Hni i' (or_intror Hi') Ei') as (B1 & B2). split; auto.
        rewrite nms_cons. intros Hc. apply in_app_or in Hc. destruct Hc as [Hc|[Hc|[]]]; auto.
        apply (Hrest i' Hi'). auto. }
      fold h2. rewrite E. exists h', tbl', (v :: vs). unfold h2 in A1, A2, A3, A4. rewrite updv_nv in A4. simpl in A1, A2, A3.
      csplit; auto; try congruence.
      * lia.
      * rewrite A6, nms_cons, <- app_assoc. simpl. rewrite Hinp. simpl. auto.
      * intros kv Hkv. apply A7. right; auto.
      * simpl. constructor; auto. simpl. split; [apply A7; left; auto|].
        destruct (A9 _ _ G2) as (c' & Hc' & [Ec|(i' & Hi' & Li')]).
        -- eexists. split; [exact Hc'|]. subst c'. reflexivity.
        -- exfalso. apply lookup_In in Li'. destruct Li' as [Eq|Li'].
           ++ inversion Eq. apply (Hrest i' Hi'). auto.
           ++ destruct (TB_lt _ _ _ _ _ _ HT Li'). lia.
      * intros u y Hu. assert (Hul : u < nv h) by (eapply getv_lt; eauto).
        assert (G : getv h2 u = Some y) by (rewrite O2; auto).
        destruct (A9 _ _ G) as (c' & Hc' & [Ec|(i' & Hi' & Li')]); exists c'; split; auto.
        right. exists i'. split; [right; auto|]. rewrite lookup_cons in Li'.
        destruct (N.eqb_spec (id_name i') (id_name i)) as [Eq|_]; [exfalso; apply (Hrest i' Hi'); auto | auto].
Qed.

(* ------------------------------------------------------------------ P4: _declare_node_outputs *)
Lemma nz_cons k r : nz (k :: r) = if N.eqb k 0 then nz r else k :: nz r.
Proof. unfold nz; simpl. destruct (N.eqb k 0); auto. Qed.

Lemma declare_outs_spec b I vis : forall outs h tbl,
  TB b I h tbl -> b <= nv h -> NoDup (nz outs) -> (forall k, In k (nz outs) -> ~ In k (nms tbl)) ->
  (forall k, In k (nz outs) ->
     match vi_lookup k vis with Some i => vi_bad i = false /\ I k (vi_pay i) | None => I k 0%N end) ->
  exists h' tbl', declare_outs h tbl vis outs = Ok (h', tbl') /\
    hn h' = hn h /\ hg h' = hg h /\ ht h' = ht h /\ nv h <= nv h' /\
    (forall u, u < nv h -> getv h' u = getv h u) /\
    TB b I h' tbl' /\ nms tbl' = nms tbl ++ nz outs /\ (forall kv, In kv tbl -> In kv tbl').
Proof.
  induction outs as [|k r IH]; intros h tbl HT Hb Hnd Hnin Hvis; cbn [declare_outs].
  - exists h, tbl. csplit; auto. rewrite app_nil_r; auto.
  - rewrite nz_cons in *. destruct (N.eqb_spec k 0) as [Hz|Hz]; [apply IH; auto|].
    inversion Hnd as [|? ? Hnot Hnd']; subst.
    assert (Et : in_table k tbl = false) by (apply in_table_false; apply Hnin; left; auto).
    rewrite Et. dalloc h0 v Ea.
    destruct (alloc_spec _ _ _ _ _ _ Ea) as (Hv & Hnv & Hn0 & Hg0 & Ht0 & Hnew & Hold).
    assert (G : exists h2 p, apply_info_opt h0 k vis v = Ok h2 /\ I k p /\
                  getv h2 v = Some (fresh_value (Some k) None p) /\ hn h2 = hn h0 /\ hg h2 = hg h0 /\ ht h2 = ht h0 /\
                  nv h2 = nv h0 /\ (forall u, u <> v -> getv h2 u = getv h0 u)).
    { unfold apply_info_opt. pose proof (Hvis k (or_introl eq_refl)) as Hk.
      destruct (vi_lookup k vis) as [i|].
      - destruct Hk as (Hk1 & Hk2). unfold apply_info. rewrite Hk1.
        exists (updv h0 v (with_info (vi_pay i))), (vi_pay i). csplit; auto.
        + rewrite (updv_getv_eq _ _ _ _ Hnew). reflexivity.
        + apply updv_nv.
        + intros u Hu. apply updv_getv_neq; auto.
      - exists h0, 0%N. csplit; auto. }
    destruct G as (h2 & p & E2 & Hp & G2 & Hn2 & Hg2 & Ht2 & Hnv2 & Hold2). rewrite E2.
    destruct (IH h2 ((k : name, v) :: tbl)) as (h' & tbl' & E & A1 & A2 & A3 & A4 & A5 & A6 & A7 & A8).
    { intros k' u [Eq|Hk].
      - inversion Eq; subst k' u. eapply tent_fresh; eauto. lia.
      - eapply TB_same; eauto. intros u' Hu'. rewrite Hold2 by lia. auto. }
    { lia. }
    { exact Hnd'. }
    { intros k' Hk'. rewrite nms_cons. intros Hc. apply in_app_or in Hc. destruct Hc as [Hc|[Hc|[]]].
      - apply (Hnin k'); auto. right; auto.
      - subst k'. auto. }
    { intros k' Hk'. apply Hvis. right; auto. }
    rewrite E. exists h', tbl'. csplit; auto; try congruence.
    + lia.
    + intros u Hu. rewrite A5 by lia. rewrite Hold2 by lia. auto.
    + rewrite A7, nms_cons, <- app_assoc. auto.
    + intros kv Hkv. apply A8. right; auto.
Qed.

Fixpoint tout_names (ns : ntrees) : list N :=
  match ns with
  | TNil => []
  | TCons n r => (match n with NBad => [] | NT _ _ _ _ outs _ => nz (map vd_name outs) end) ++ tout_names r
  end.

Lemma tout_names_descs ns : tout_names ns = nz (map vd_name (node_out_descs ns)).
Proof.
  induction ns as [|n r IH]; simpl; auto. destruct n; simpl; auto.
  rewrite map_app, nz_app, IH. auto.
Qed.

Lemma declare_nodes_spec b I vis : forall ns h tbl,
  TB b I h tbl -> b <= nv h -> NoDup (tout_names ns) -> (forall k, In k (tout_names ns) -> ~ In k (nms tbl)) ->
  (forall k, In k (tout_names ns) ->
     match vi_lookup k vis with Some i => vi_bad i = false /\ I k (vi_pay i) | None => I k 0%N end) ->
  exists h' tbl', declare_nodes h tbl vis (t2p_ns ns) = Ok (h', tbl') /\
    hn h' = hn h /\ hg h' = hg h /\ ht h' = ht h /\ nv h <= nv h' /\
    (forall u, u < nv h -> getv h' u = getv h u) /\
    TB b I h' tbl' /\ nms tbl' = nms tbl ++ tout_names ns /\ (forall kv, In kv tbl -> In kv tbl').
Proof.
  induction ns as [|n r IH]; intros h tbl HT Hb Hnd Hnin Hvis.
  - exists h, tbl. cbn. csplit; auto. rewrite app_nil_r; auto.
  - cbn [t2p_ns declare_nodes tout_names] in *.
    set (on := match n with NBad => [] | NT _ _ _ _ outs _ => map vd_name outs end).
    assert (En : exists a b c d e, t2p_n n = Np a b c d on e).
    { destruct n; cbn; repeat eexists. }
    destruct En as (a1 & a2 & a3 & a4 & a5 & En). rewrite En.
    assert (Enz : match n with NBad => [] | NT _ _ _ _ outs _ => nz (map vd_name outs) end = nz on).
    { destruct n; auto. }
    rewrite Enz in *.
    destruct (declare_outs_spec b I vis on h tbl) as (h1 & t1 & E1 & A1 & A2 & A3 & A4 & A5 & A6 & A7 & A8); auto.
    { eapply NoDup_app_l; eauto. }
    { intros k Hk. apply Hnin. apply in_or_app; auto. }
    { intros k Hk. apply Hvis. apply in_or_app; auto. }
    rewrite E1.
    destruct (IH h1 t1) as (h' & tbl' & E & B1 & B2 & B3 & B4 & B5 & B6 & B7 & B8); auto.
    { lia. }
    { eapply NoDup_app_r; eauto. }
    { intros k Hk. rewrite A7. intros Hc. apply in_app_or in Hc. destruct Hc as [Hc|Hc].
      - apply (Hnin k); auto. apply in_or_app; auto.
      - eapply NoDup_app_disj; eauto. }
    { intros k Hk. apply Hvis. apply in_or_app; auto. }
    rewrite E. exists h', tbl'. csplit; auto; try congruence.
    + lia.
    + intros u Hu. rewrite B5 by lia. auto.
    + rewrite B7, A7, <- app_assoc. auto.
Qed.

(* ------------------------------------------------------------------ node inputs / outputs *)
Definition in_name (o : option (ref * N * bool)) : N := match o with None => 0%N | Some rd => snd (fst rd) end.
Definition in_val (scs : list table) (o : option (ref * N * bool)) : option nat :=
  match o with None => None | Some rd => lookup_scopes (snd (fst rd)) scs end.

Lemma resolve_inputs_spec h cur sc vis : forall (ins : list (option (ref * N * bool))),
  (forall o, In o ins -> match o with
                         | None => True
                         | Some rd => snd (fst rd) <> 0%N /\ lookup_scopes (snd (fst rd)) (cur :: sc) <> None
                         end) ->
  resolve_inputs h cur sc vis (map in_name ins) = Ok (h, cur, map (in_val (cur :: sc)) ins).
Proof.
  induction ins as [|o r IH]; intros H; cbn [map resolve_inputs]; auto.
  rewrite IH by (intros; apply H; right; auto).
  pose proof (H o (or_introl eq_refl)) as Ho. destruct o as [[[rf k] nm]|]; simpl in *.
  - destruct Ho as (Hk & Hl). destruct (N.eqb_spec k 0); [contradiction|].
    destruct (lookup_scopes k (cur :: sc)); [auto|congruence].
  - reflexivity.
Qed.

Lemma resolve_outputs_spec : forall outs h cur,
  (forall k, In k (nz outs) -> lookup k cur <> None) ->
  exists h' l, resolve_outputs h cur outs = Ok (h', l) /\
    hn h' = hn h /\ hg h' = hg h /\ ht h' = ht h /\ nv h <= nv h' /\
    (forall u, u < nv h -> getv h' u = getv h u) /\
    Forall2 (fun k v => if N.eqb k 0 then nv h <= v /\ getv h' v = Some (fresh_value (Some 0%N) None 0%N)
                        else lookup k cur = Some v) outs l.
Proof.
  induction outs as [|k r IH]; intros h cur Hl; cbn [resolve_outputs].
  - exists h, []. csplit; auto.
  - rewrite nz_cons in Hl. destruct (N.eqb_spec k 0) as [Hz|Hz].
    + dalloc h0 v Ea. destruct (alloc_spec _ _ _ _ _ _ Ea) as (Hv & Hnv & Hn0 & Hg0 & Ht0 & Hnew & Hold).
      destruct (IH h0 cur Hl) as (h' & l & E & A1 & A2 & A3 & A4 & A5 & A6). rewrite E.
      exists h', (v :: l). csplit; try congruence.
      * lia.
      * intros u Hu. rewrite A5 by lia. auto.
      * constructor.
        -- subst k. simpl. split; [lia|]. rewrite A5 by lia. auto.
        -- eapply Forall2_impl; [|exact A6]. intros k' v' Hk'. simpl in Hk'. destruct (N.eqb k' 0); auto.
           destruct Hk'. split; auto. lia.
    + destruct (lookup k cur) as [v|] eqn:El; [|exfalso; apply (Hl k); auto; left; auto].
      destruct (IH h cur) as (h' & l & E & A1 & A2 & A3 & A4 & A5 & A6); [intros; apply Hl; right; auto|].
      rewrite E. exists h', (v :: l). csplit; auto. constructor; auto.
      destruct (N.eqb_spec k 0); [contradiction|auto].
Qed.

(* ------------------------------------------------------------------ P6: graph outputs *)
Lemma with_info_twice p p' x : with_info p' (with_info p x) = with_info p' x.
Proof. destruct x; reflexivity. Qed.
Lemma with_info_id x : with_info (v_info x) x = x.
Proof. destruct x; reflexivity. Qed.

Lemma graph_outputs_spec tbl : forall (outs : list (ref * vdesc)) h,
  (forall o, In o outs -> exists v, lookup (vd_name (snd o)) tbl = Some v /\ v < nv h) ->
  exists h', graph_outputs h tbl (map (fun o => vi_of (snd o)) outs)
             = Ok (h', map (fun o => look tbl (vd_name (snd o))) outs) /\
    hn h' = hn h /\ hg h' = hg h /\ ht h' = ht h /\ nv h' = nv h /\
    (forall u x, getv h u = Some x -> exists p, getv h' u = Some (with_info p x) /\
        (p = v_info x \/ exists o, In o outs /\ lookup (vd_name (snd o)) tbl = Some u /\ p = vd_pay (snd o))) /\
    (forall o u, In o outs -> lookup (vd_name (snd o)) tbl = Some u ->
        exists x o', getv h' u = Some x /\ In o' outs /\ lookup (vd_name (snd o')) tbl = Some u /\ v_info x = vd_pay (snd o')).
Proof.
  induction outs as [|o r IH]; intros h Hl; cbn [map graph_outputs].
  - exists h. csplit; auto.
    + intros u x Hx. exists (v_info x). rewrite with_info_id. auto.
    + intros o u [].
  - destruct (Hl o (or_introl eq_refl)) as (v & Ev & Hv). cbn [vi_of vi_name]. rewrite Ev.
    unfold apply_info. cbn [vi_of vi_name vi_bad vi_pay].
    set (h1 := updv h v (with_info (vd_pay (snd o)))).
    destruct (IH h1) as (h' & E & A1 & A2 & A3 & A4 & A5 & A6).
    { intros o' Ho'. destruct (Hl o' (or_intror Ho')) as (v' & Ev' & Hv'). exists v'. split; auto.
      unfold h1. rewrite updv_nv. auto. }
    rewrite E. exists h'. unfold h1 in A4. rewrite updv_nv in A4.
    assert (F : forall u x, getv h u = Some x -> exists p, getv h' u = Some (with_info p x) /\
        (p = v_info x \/ exists o', In o' (o :: r) /\ lookup (vd_name (snd o')) tbl = Some u /\ p = vd_pay (snd o'))).
    { intros u x Hx. destruct (Nat.eq_dec v u) as [->|Hn].
      - assert (G : getv h1 u = Some (with_info (vd_pay (snd o)) x)) by (unfold h1; apply updv_getv_eq; auto).
        destruct (A5 _ _ G) as (p & Hp & Hd). exists p. rewrite with_info_twice in Hp. split; auto.
        right. destruct Hd as [Hd|(o' & Ho' & Lo' & Po')].
        + exists o. split; [left; auto|]. split; auto.
        + exists o'. split; [right; auto|auto].
      - assert (G : getv h1 u = Some x) by (unfold h1; rewrite updv_getv_neq; auto).
        destruct (A5 _ _ G) as (p & Hp & Hd). exists p. split; auto.
        destruct Hd as [Hd|(o' & Ho' & Lo' & Po')]; auto. right. exists o'. split; [right; auto|auto]. }
    csplit; auto.
    + assert (Elook : look tbl (vd_name (snd o)) = v) by (unfold look; rewrite Ev; auto).
      rewrite Elook. auto.
    + intros o0 u Ho0 Lu. destruct (in_dec Nat.eq_dec u (map (fun o => look tbl (vd_name (snd o))) r)) as [Hin|Hnin].
      * apply in_map_iff in Hin. destruct Hin as (o1 & E1 & Ho1).
        assert (L1 : lookup (vd_name (snd o1)) tbl = Some u).
        { destruct (Hl o1 (or_intror Ho1)) as (v1 & Ev1 & _). unfold look in E1. rewrite Ev1 in E1. congruence. }
        destruct (A6 o1 u Ho1 L1) as (x & o' & Hx & Ho' & Lo' & Po'). exists x, o'. csplit; auto. right; auto.
      * assert (Hu : u < nv h).
        { destruct (Hl o0 Ho0) as (v0 & Ev0 & Hv0). congruence. }
        destruct (getv_some h u Hu) as (x & Hx). destruct (F u x Hx) as (p & Hp & Hd).
        assert (Huv : u = v).
        { destruct Ho0 as [->|Ho0]; [congruence|]. exfalso. apply Hnin. apply in_map_iff. exists o0. split; auto.
          unfold look. rewrite Lu. auto. }
        subst u.
        assert (G : getv h1 v = Some (with_info (vd_pay (snd o)) x)) by (unfold h1; apply updv_getv_eq; auto).
        destruct (A5 _ _ G) as (p' & Hp' & Hd').
        destruct Hd' as [Hd'|(o' & Ho' & Lo' & Po')].
        -- exists (with_info p' (with_info (vd_pay (snd o)) x)), o. csplit; auto. left; auto.
        -- exfalso. apply Hnin. apply in_map_iff. exists o'. split; auto. unfold look. rewrite Lo'. auto.
Qed.

(* ------------------------------------------------------------------ Node() *)
Lemma new_node_ok h nm op tok ins outs attrs :
  (forall v, In v outs -> exists x, getv h v = Some x /\ v_prod x = None) ->
  new_node h nm op tok ins outs attrs =
  Ok (mkH (add_uses (set_prods (hv h) (nn h) outs 0) (nn h) ins 0)
          (hn h ++ [mkN nm op tok ins outs (dict_of [] attrs) None]) (hg h) (ht h), nn h).
Proof.
  intros H. unfold new_node. destruct (existsb (has_prod h) outs) eqn:E; [|reflexivity].
  apply existsb_exists in E. destruct E as (v & Hv & Hp). destruct (H v Hv) as (x & Hx & Hn).
  unfold has_prod in Hp. rewrite Hx, Hn in Hp. discriminate.
Qed.

(* ------------------------------------------------------------------ Graph() *)
Lemma owner_ok_refl x gid : v_owner x = Some gid -> owner_ok x gid = true.
Proof. unfold owner_ok. intros ->. apply Nat.eqb_refl. Qed.
Lemma owner_ok_none x gid : v_owner x = None -> owner_ok x gid = true.
Proof. unfold owner_ok. intros ->. auto. Qed.

Lemma set_inputs_ok gid : forall vs l,
  (forall v, In v vs -> exists x, nth_error l v = Some x /\ owner_ok x gid = true /\ v_prod x = None) ->
  exists l', set_inputs l gid vs = Ok l'.
Proof.
  induction vs as [|v r IH]; intros l H; simpl; [eauto|].
  destruct (H v (or_introl eq_refl)) as (x & Hx & Ho & Hp). rewrite Hx, Ho, Hp. simpl.
  apply IH. intros u Hu. destruct (H u (or_intror Hu)) as (y & Hy & Hoy & Hpy).
  rewrite nth_error_upd. destruct (Nat.eqb_spec v u) as [->|Hn].
  - rewrite Hy. simpl. eexists. split; [reflexivity|]. split; [apply owner_ok_refl; reflexivity | exact Hpy].
  - eauto.
Qed.
Lemma set_outputs_ok gid : forall vs l,
  (forall v, In v vs -> exists x, nth_error l v = Some x /\ owner_ok x gid = true) ->
  exists l', set_outputs l gid vs = Ok l'.
Proof.
  induction vs as [|v r IH]; intros l H; simpl; [eauto|].
  destruct (H v (or_introl eq_refl)) as (x & Hx & Ho). rewrite Hx, Ho.
  apply IH. intros u Hu. destruct (H u (or_intror Hu)) as (y & Hy & Hoy).
  rewrite nth_error_upd. destruct (Nat.eqb_spec v u) as [->|Hn].
  - rewrite Hy. simpl. eexists. split; [reflexivity|]. apply owner_ok_refl; reflexivity.
  - eauto.
Qed.
Lemma set_inits_ok gid : forall (d : list (name * nat)) l,
  (forall v, In v (map snd d) -> exists x, nth_error l v = Some x /\ owner_ok x gid = true) ->
  exists l', set_inits l gid d = Ok l'.
Proof.
  induction d as [|[k v] r IH]; intros l H; simpl; [eauto|].
  destruct (H v (or_introl eq_refl)) as (x & Hx & Ho). rewrite Hx, Ho.
  apply IH. intros u Hu. destruct (H u (or_intror Hu)) as (y & Hy & Hoy).
  rewrite nth_error_upd. destruct (Nat.eqb_spec v u) as [->|Hn].
  - rewrite Hy. simpl. eexists. split; [reflexivity|]. apply owner_ok_refl; reflexivity.
  - eauto.
Qed.
Lemma set_ngraphs_ok gid : forall ns l,
  (forall n, In n ns -> exists y, nth_error l n = Some y /\ (n_graph y = None \/ n_graph y = Some gid)) ->
  exists l', set_ngraphs l gid ns = Ok l'.
Proof.
  induction ns as [|n r IH]; intros l H; simpl; [eauto|].
  destruct (H n (or_introl eq_refl)) as (y & Hy & Hg). rewrite Hy.
  assert (Hc : match n_graph y with None => true | Some g => Nat.eqb g gid end = true).
  { destruct Hg as [->| ->]; auto. apply Nat.eqb_refl. }
  rewrite Hc. apply IH. intros m Hm. destruct (H m (or_intror Hm)) as (y' & Hy' & Hg').
  rewrite nth_error_upd. destruct (Nat.eqb_spec n m) as [->|Hn].
  - rewrite Hy'. simpl. eexists. split; [reflexivity|]. right. reflexivity.
  - eauto.
Qed.
Lemma keyed_ok l : forall (kv : list (name * nat)),
  (forall k v, In (k, v) kv -> exists x, nth_error l v = Some x /\ v_name x = Some k) ->
  keyed l (map snd kv) = Ok kv.
Proof.
  induction kv as [|[k v] r IH]; intros H; simpl; auto.
  destruct (H k v (or_introl eq_refl)) as (x & Hx & Hn). rewrite Hx, Hn, IH; auto.
  intros k' v' Hin. apply H. right; auto.
Qed.

Lemma new_graph_ok h gname gtok ins outs (kv : list (name * nat)) nodes :
  (forall v, In v ins -> exists x, getv h v = Some x /\ v_owner x = None /\ v_prod x = None) ->
  (forall v, In v outs -> exists x, getv h v = Some x /\ v_owner x = None) ->
  (forall k v, In (k, v) kv -> exists x, getv h v = Some x /\ v_owner x = None /\ v_name x = Some k) ->
  NoDup (map fst kv) ->
  (forall n, In n nodes -> exists y, getn h n = Some y /\ n_graph y = None) ->
  exists l3 ln,
    new_graph h gname gtok ins outs (map snd kv) nodes
    = Ok (mkH l3 ln (hg h ++ [mkG gname gtok ins outs kv nodes]) (ht h), ngr h) /\
    (forall v, nth_error l3 v = option_map (gval (ngr h) ins outs (map snd kv) v) (nth_error (hv h) v)) /\
    (forall n, nth_error ln n = option_map (nnode (ngr h) nodes n) (nth_error (hn h) n)) /\
    length l3 = length (hv h) /\ length ln = length (hn h).
Proof.
  intros Hins Houts Hkv Hnd Hnodes. unfold new_graph. fold (ngr h). set (gid := ngr h).
  destruct (set_inputs_ok gid ins (hv h)) as (l1 & E1).
  { intros v Hv. destruct (Hins v Hv) as (x & Hx & Ho & Hp). exists x. split; auto. split; auto.
    apply owner_ok_none; auto. }
  rewrite E1.
  assert (O1 : forall v x, getv h v = Some x -> v_owner x = None -> exists x1, nth_error l1 v = Some x1 /\
                owner_ok x1 gid = true /\ v_name x1 = v_name x).
  { intros v x Hx Ho. rewrite (set_inputs_nth _ _ _ _ v E1). unfold getv in Hx. rewrite Hx. simpl.
    eexists. split; [reflexivity|].
    destruct (memb v ins); simpl;
      (split; [ first [apply owner_ok_none; assumption | apply owner_ok_refl; reflexivity] | reflexivity ]). }
  destruct (set_outputs_ok gid outs l1) as (l2 & E2).
  { intros v Hv. destruct (Houts v Hv) as (x & Hx & Ho). destruct (O1 v x Hx Ho) as (x1 & A & B & _). eauto. }
  rewrite E2.
  assert (O2 : forall v x, getv h v = Some x -> v_owner x = None -> exists x2, nth_error l2 v = Some x2 /\
                owner_ok x2 gid = true /\ v_name x2 = v_name x).
  { intros v x Hx Ho. destruct (O1 v x Hx Ho) as (x1 & A & B & C).
    rewrite (set_outputs_nth _ _ _ _ v E2), A. simpl.
    eexists. split; [reflexivity|].
    destruct (memb v outs); simpl;
      (split; [ first [assumption | apply owner_ok_refl; reflexivity] | assumption ]). }
  rewrite (keyed_ok l2 kv).
  2:{ intros k v Hin. destruct (Hkv k v Hin) as (x & Hx & Ho & Hn). destruct (O2 v x Hx Ho) as (x2 & A & B & C).
      exists x2. split; auto. congruence. }
  rewrite (dict_of_id kv Hnd).
  destruct (set_inits_ok gid kv l2) as (l3 & E3).
  { intros v Hv. apply in_map_iff in Hv. destruct Hv as ([k v'] & Ev & Hin). simpl in Ev; subst v'.
    destruct (Hkv k v Hin) as (x & Hx & Ho & Hn). destruct (O2 v x Hx Ho) as (x2 & A & B & C). eauto. }
  rewrite E3.
  destruct (set_ngraphs_ok gid nodes (hn h)) as (ln & En).
  { intros n Hn. destruct (Hnodes n Hn) as (y & Hy & Hg). exists y. split; auto. }
  rewrite En. exists l3, ln. csplit; auto.
  - intros v. eapply new_graph_values; eauto.
  - intros n. eapply set_ngraphs_nth; eauto.
  - rewrite (set_inits_length _ _ _ _ E3), (set_outputs_length _ _ _ _ E2), (set_inputs_length _ _ _ _ E1). auto.
  - eapply set_ngraphs_length; eauto.
Qed.

(* C03/ModelOld.v — the IR-version < 10 "experimental" format for the value info of model-local functions
   (serde._serialize_experimental_value_info_for_function_ir9_into, serde.serialize_function_into with
   create_value_info = False, serde._deserialized_experimental_value_info_for_function_ir9), on top of
   C03/Model.v.  Definitions only.

   Below IR 10 a FunctionProto cannot carry value_info: the type/shape/doc of a function's inputs and node
   outputs travel in the MAIN graph's value_info under the name "{domain}::{function}/{value}" and are applied to
   the function's values after the whole model has been built.  Names are tokens in this model, so the two
   string operations are tables supplied per case by the harness (leaf level, like the payload tables):
     xparse : composite-name token -> (identifier token of the function (domain, name, overload ""), value name token)
              (what serde._parse_experimental_function_value_info_name returns; absent = not of that form)
     xcomp  : (function identifier token, value name token) -> composite-name token   (format_name; ignores overload) *)
From Coq Require Import NArith ZArith List Bool Arith.
From IRV Require Import Base.Exn C03.Model C03.Canon C03.Inv.
Import ListNotations.

Definition xparse := list (N * (N * N)).
Definition xcomp := list (N * N * N).

Fixpoint comp_lookup (f k : N) (Y : xcomp) : option N :=
  match Y with
  | [] => None
  | (f', k', c) :: r => if N.eqb f f' && N.eqb k k' then Some c else comp_lookup f k r
  end.

(* ------------------------------------------------------------------ deserialization: the post-pass *)
(* function_value_value_info_mapping[fid][vname]: the LAST main-graph value_info entry whose name parses to it *)
(* X is a relation (a name may be listed for several functions: the table says which (function, value) pairs the
   reader associates with a composite name; with serde._parse_experimental_function_value_info_name it has at most
   one entry per name, always for the overload "") *)
Definition x_has (X : xparse) (c fid vname : N) : bool :=
  existsb (fun e => N.eqb (fst e) c && N.eqb (fst (snd e)) fid && N.eqb (snd (snd e)) vname) X.
Definition exp_lookup (X : xparse) (fid vname : N) (vis : list vinfo) : option vinfo :=
  fold_left (fun acc i => if x_has X (vi_name i) fid vname then Some i else acc) vis None.
Definition exp_apply (X : xparse) (vis : list vinfo) (fid : N) (h : heap) (v : nat) : res heap :=
  match getv h v with
  | None => Ok h
  | Some x => match v_name x with
              | None => Ok h
              | Some k => match exp_lookup X fid k vis with
                          | Some i => apply_info h i v
                          | None => Ok h
                          end
              end
  end.
Fixpoint exp_apply_all (X : xparse) (vis : list vinfo) (fid : N) (h : heap) (vs : list nat) : res heap :=
  match vs with
  | [] => Ok h
  | v :: r => match exp_apply X vis fid h v with Ok h1 => exp_apply_all X vis fid h1 r | Raise e => Raise e end
  end.
Fixpoint exp_apply_nodes (X : xparse) (vis : list vinfo) (fid : N) (h : heap) (ns : list nat) : res heap :=
  match ns with
  | [] => Ok h
  | n :: r => match exp_apply_all X vis fid h (match getn h n with Some y => n_outputs y | None => [] end) with
              | Ok h1 => exp_apply_nodes X vis fid h1 r
              | Raise e => Raise e
              end
  end.
Definition exp_apply_function (X : xparse) (vis : list vinfo) (h : heap) (f : func) : res heap :=
  match getg h (f_graph f) with
  | None => Ok h
  | Some z => match exp_apply_all X vis (f_id f) h (g_inputs z) with
              | Ok h1 => exp_apply_nodes X vis (f_id f) h1 (g_nodes z)
              | Raise e => Raise e
              end
  end.
Fixpoint exp_apply_functions (X : xparse) (vis : list vinfo) (h : heap) (fs : list func) : res heap :=
  match fs with
  | [] => Ok h
  | f :: r => match exp_apply_function X vis h f with Ok h1 => exp_apply_functions X vis h1 r | Raise e => Raise e end
  end.
Definition graph_vis (g : gproto) : list vinfo := match g with Gp _ _ _ _ _ vis _ => vis end.

Definition deser_model_old (X : xparse) (p : mproto) : res (heap * model) :=
  match deser_model p with
  | Raise e => Raise e
  | Ok (h, m) => match exp_apply_functions X (graph_vis (mp_graph p)) h (m_funcs m) with
                 | Ok h1 => Ok (h1, m)
                 | Raise e => Raise e
                 end
  end.

(* ------------------------------------------------------------------ serialization *)
Section SerOld.
  Variable np : list (N * N).
  Variable Y : xcomp.

  Definition exp_entry (h : heap) (fid : N) (v : nat) : list vinfo :=
    match getv h v with
    | Some x => if should_vi x
                then match v_name x with
                     | Some k => [mkVI (match comp_lookup fid k Y with Some c => c | None => 0%N end) (norm_pay np (v_info x)) false]
                     | None => []
                     end
                else []
    | None => []
    end.
  Definition exp_entries (h : heap) (f : func) : list vinfo :=
    match getg h (f_graph f) with
    | None => []
    | Some z => flat_map (exp_entry h (f_id f)) (g_inputs z)
                ++ flat_map (fun n => match getn h n with
                                      | Some y => flat_map (exp_entry h (f_id f)) (n_outputs y)
                                      | None => []
                                      end) (g_nodes z)
    end.
  (* serialize_function_into(create_value_info = False) *)
  Definition ser_function_old (h : heap) (f : func) : res (heap * fproto) :=
    match ser_function np h f with
    | Ok (h1, fp) => Ok (h1, mkFP (fp_id fp) (fp_tok fp) (fp_ins fp) (fp_outs fp) [] (fp_nodes fp) (fp_bad fp))
    | Raise e => Raise e
    end.
  Fixpoint ser_functions_old (h : heap) (fs : list func) : res (heap * list fproto * list vinfo) :=
    match fs with
    | [] => Ok (h, [], [])
    | f :: r =>
      match ser_function_old h f with
      | Raise e => Raise e
      | Ok (h1, fp) =>
        let es := exp_entries h1 f in
        match ser_functions_old h1 r with
        | Ok (h2, l, vs) => Ok (h2, fp :: l, es ++ vs)
        | Raise e => Raise e
        end
      end
    end.
  Definition add_vis (g : gproto) (l : list vinfo) : gproto :=
    match g with Gp a b c d e vis n => Gp a b c d e (vis ++ l) n end.
  Definition ser_model_old (h : heap) (m : model) : res (heap * mproto) :=
    match ser_graph np (ser_fuel h) h (m_graph m) with
    | Raise e => Raise e
    | Ok (h1, gp) =>
      match ser_functions_old h1 (m_funcs m) with
      | Raise e => Raise e
      | Ok (h2, fps, es) => Ok (h2, mkMP (m_tok m) (add_vis gp es) fps)
      end
    end.
End SerOld.

(* ------------------------------------------------------------------ both formats behind one flag *)
Definition deser_model_x (old : bool) (X : xparse) (p : mproto) : res (heap * model) :=
  if old then deser_model_old X p else deser_model p.
Definition ser_model_x (old : bool) (np : list (N * N)) (Y : xcomp) (h : heap) (m : model) : res (heap * mproto) :=
  if old then ser_model_old np Y h m else ser_model np h m.

(* agreement predicates of the case files (C17) *)
Definition agree_deser_x (old : bool) (X : xparse) (p : mproto) (impl : option obs) : bool :=
  match deser_model_x old X p, impl with
  | Raise _, None => true
  | Ok (h, m), Some o => obs_eqb (canon h m) o
  | _, _ => false
  end.
Definition agree_reser_x (old : bool) (X : xparse) (Y : xcomp) (np : list (N * N)) (p : mproto)
           (impl : option (option mproto)) : bool :=
  match impl with
  | None => true
  | Some impl =>
    match deser_model_x old X p with
    | Raise _ => true
    | Ok (h, m) =>
      match ser_model_x old np Y h m, impl with
      | Raise _, None => true
      | Ok (_, q), Some qi => obs_eqb (obs_m q) (obs_m qi)
      | _, _ => false
      end
    end
  end.
Definition model_fixpoint_x (old : bool) (X : xparse) (Y : xcomp) (np : list (N * N)) (p : mproto) : bool :=
  match deser_model_x old X p with
  | Raise _ => true
  | Ok (h, m) =>
    match ser_model_x old np Y h m with
    | Raise _ => true
    | Ok (_, q) =>
      match deser_model_x old X q with
      | Raise _ => false
      | Ok (h', m') =>
        match ser_model_x old np Y h' m' with
        | Ok (_, q') => obs_eqb (obs_m q') (obs_m q)
        | Raise _ => false
        end
      end
    end
  end.

(* agreement predicates of the case files (C03) *)
Definition agree_ser_x (old : bool) (Y : xcomp) (np : list (N * N)) (h : heap) (m : model) (impl : option mproto) : bool :=
  match ser_model_x old np Y h m, impl with
  | Raise _, None => true
  | Ok (_, q), Some qi => obs_eqb (obs_m q) (obs_m qi)
  | _, _ => false
  end.
Definition agree_after_ser_x (old : bool) (Y : xcomp) (np : list (N * N)) (h : heap) (m : model) (o : obs) : bool :=
  match ser_model_x old np Y h m with
  | Raise _ => true
  | Ok (h1, _) => obs_eqb (canon h1 m) o
  end.
Definition agree_roundtrip_x (old : bool) (X : xparse) (Y : xcomp) (np : list (N * N)) (h : heap) (m : model)
           (impl_o2 : option obs) : bool :=
  match ser_model_x old np Y h m with
  | Raise _ => true
  | Ok (_, q) =>
    match deser_model_x old X q, impl_o2 with
    | Ok (h2, m2), Some o => obs_eqb (canon h2 m2) o
    | Raise _, None => true
    | _, _ => false
    end
  end.

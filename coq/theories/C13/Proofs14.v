(* C13/Proofs14.v — what is NOT independent: the tensor object shared by clone and original has a mutable name that
   the Value.name setter writes, and non-graph Attr objects are shared cells.  Witness: a model whose Constant node
   carries the tensor t both as its "value" attribute and as the const_value of its output v. *)
From Coq Require Import List ZArith NArith PArith Bool Lia.
From IRV Require Import Base.Exn C13.Model C13.Proofs1 C13.Proofs3 C13.Proofs9 C13.Proofs10 C13.Proofs11.
Import ListNotations.
Local Open Scope positive_scope.

Definition w2_cells : list (id * cell) :=
  [ (1, CTensor (Some 1%N)); (2, CAttr (Att 2%N (ATensor 1) None));
    (3, CDict []); (4, CMeta meta_empty); (5, CValue (Val (Some 3%N) None None None (Some 1) 3 4));
    (6, CDict []); (7, CMeta meta_empty);
    (8, CNode (Nod (Some 4%N) 0%N 5%N 0%N None [] [5] [(2%N, 2)] None 6 7 []));
    (9, CDict [(0%N, 20%N)]); (10, CDict []); (11, CMeta meta_empty);
    (12, CGraph (Gra (Some 6%N) [] [5] [] [8] None 9 10 11 false));
    (13, CDict []); (14, CMeta meta_empty); (15, CModel (Mod 12 [] 7%N 13 14)) ].
Definition w2 : heap := heap_of w2_cells 16.
Notation w2_run := (model_clone 3 false 15 w2).

Lemma w2_closed : closed w2.
Proof. apply closedb_sound. vm_compute. reflexivity. Qed.
Lemma w2_result : snd w2_run = Ok 28.
Proof. vm_compute. reflexivity. Qed.

(* the clone's value is the new cell 20; it shares the tensor 1 and its node (21) shares the Attr cell 2 *)
Lemma w2_clone_cells :
  cells (hp (fst w2_run)) 20 = Some (CValue (Val (Some 3%N) None None None (Some 1) 18 19)) /\
  (exists n, cells (hp (fst w2_run)) 21 = Some (CNode n) /\ n_attrs n = [(2%N, 2)] /\ n_outputs n = [20]).
Proof. split; [vm_compute; reflexivity|]. eexists. vm_compute. repeat split. Qed.

(* renaming the CLONE's value: a clone-sided operation ... *)
Lemma w2_rename_sided :
  ops_sided (col_clone (next w2)) true (hp (fst w2_run)) [VSetName 20 (Some 9%N)].
Proof.
  cbn [ops_sided]. split; [|exact I]. split.
  - intros x [<-|[]]. split; vm_compute; reflexivity.
  - intros x [].
Qed.
Lemma w2_rename_is_tensor_rename : renames_tensor (hp (fst w2_run)) (VSetName 20 (Some 9%N)) = true.
Proof. vm_compute. reflexivity. Qed.

(* ... that changes a pre-existing cell (the tensor) and with it the canonical serialization of the ORIGINAL model *)
Lemma w2_rename_changes_original :
  cells (apply_ops (hp (fst w2_run)) [VSetName 20 (Some 9%N)]) 1 <> cells w2 1 /\
  mcanon (cells (apply_ops (hp (fst w2_run)) [VSetName 20 (Some 9%N)])) 3 15 <> mcanon (cells w2) 3 15.
Proof. split; intros H; vm_compute in H; discriminate H. Qed.

(* in-place edit of the Attr object that the clone's node shares with the original's node *)
Lemma w2_attr_edit_changes_original :
  mcanon (cells (apply_ops (hp (fst w2_run)) [ASetDoc 2 (Some 8%N)])) 3 15 <> mcanon (cells w2) 3 15.
Proof. intros H; vm_compute in H; discriminate H. Qed.

(* whereas replacing the attribute in the clone's node (attribute SET edit) leaves the original as it was *)
Lemma w2_attr_set_keeps_original :
  mcanon (cells (apply_ops (hp (fst w2_run)) [NSetAttr 21 2%N 2%N 5%N; NDelAttr 21 2%N])) 3 15 = mcanon (cells w2) 3 15.
Proof. vm_compute. reflexivity. Qed.

(* the hypotheses of the rename-free theorems are satisfiable by a non-trivial history: after const_value = None
   the same rename no longer touches a tensor *)
Lemma w2_no_trename_history :
  ops_sided (col_clone (next w2)) true (hp (fst w2_run)) [VSetDoc 20 (Some 9%N); VSetConst 20 None; VSetName 20 (Some 9%N)] /\
  ops_no_trename (hp (fst w2_run)) [VSetDoc 20 (Some 9%N); VSetConst 20 None; VSetName 20 (Some 9%N)] /\
  mcanon (cells (apply_ops (hp (fst w2_run)) [VSetDoc 20 (Some 9%N); VSetConst 20 None; VSetName 20 (Some 9%N)])) 3 15
  = mcanon (cells w2) 3 15.
Proof.
  split; [|split].
  - cbn [ops_sided].
    split; [split; [intros y [<-|[]]; split; vm_compute; reflexivity|intros y []]|].
    split; [split; [intros y [<-|[]]; split; vm_compute; reflexivity|intros y []]|].
    split; [split; [intros y [<-|[]]; split; vm_compute; reflexivity|intros y []]|exact I].
  - cbn [ops_no_trename]. repeat split; vm_compute; reflexivity.
  - vm_compute. reflexivity.
Qed.

(* the canonical serialization that C13_faithful speaks about observes the type denotation (at every level of the
   element-type chain), the set of invalid metadata keys and the node's overload: two graphs that differ in one of
   them have different canonical serializations *)
Definition w3_cells (den : option name) (inv : list name) (ov : name) : list (id * cell) :=
  [ (1, CType (TWrap 2%N (TBase 0%N 1%N den) None)); (2, CDict []); (3, CMeta (Met [(5%N, MAtom 1%Z)] inv));
    (4, CValue (Val (Some 1%N) (Some 1) None None None 2 3));
    (5, CDict []); (6, CMeta meta_empty); (7, CNode (Nod (Some 2%N) 0%N 3%N ov None [Some 4] [] [] None 5 6 []));
    (8, CDict []); (9, CDict []); (10, CMeta meta_empty);
    (11, CGraph (Gra (Some 4%N) [4] [] [] [7] None 8 9 10 false)) ].
Lemma canon_observes_fields den inv ov den' inv' ov' :
  gcanon (fun x => assoc x (w3_cells den inv ov)) 1 11 = gcanon (fun x => assoc x (w3_cells den' inv' ov')) 1 11 ->
  den = den' /\ inv = inv' /\ ov = ov'.
Proof. intros H. cbv in H. injection H as H1 H2 H3. repeat split; assumption. Qed.

(* C13/Proofs12.v — the statements of Property.v, assembled. *)
From Coq Require Import List ZArith NArith PArith Bool Lia.
From IRV Require Import Base.Exn C13.Model C13.Proofs1 C13.Proofs2 C13.Proofs3 C13.Proofs4 C13.Proofs5
     C13.Proofs6 C13.Proofs7 C13.Proofs8 C13.Proofs9 C13.Proofs10 C13.Proofs11.
Import ListNotations.
Local Open Scope positive_scope.

(* what a cell reachable from a clone may be, if it is not newly allocated *)
Definition shared_ok (allow deep : bool) (h0 : heap) (st : cst) (x : id) : Prop :=
  x < next h0 /\
  ((exists a, cells h0 x = Some (CAttr a) /\ shared_attr a) \/
   (deep = false /\ exists m md k, cells h0 m = Some (CMeta md) /\ In (k, MObj x) (m_data md)) \/
   (allow = true /\ In x (passed st)) \/
   (~ wf_dev h0 /\ In x (kept st)) \/
   (exists o v0, cells h0 o = Some (CValue v0) /\ v_const v0 = Some x)).

Lemma good_reach allow deep h0 st r x :
  (wf_dev h0 \/ ~ wf_dev h0) ->
  good allow deep h0 st -> FR h0 st r -> reach (cells (hp st)) (next h0) r x ->
  next h0 <= x \/ shared_ok allow deep h0 st x.
Proof.
  intros Hdec G F Hx.
  assert (K : next h0 <= x \/ allowed deep h0 st x).
  { induction Hx as [|r' y c x Hy IH Hny Hc Hin]; [left; apply F|].
    apply (g_links _ _ _ _ G y c Hny Hc x Hin). }
  destruct K as [K|[K1 K2]]; [left; exact K|right]. split; [exact K1|].
  destruct K2 as [K2|[K2|[K2|[K2|K2]]]]; auto 6.
  - right. right. left. split; [apply (g_passed _ _ _ _ G x K2)|exact K2].
  - destruct Hdec as [Wd|Wd].
    + right. right. left. pose proof (g_kept _ _ _ _ G Wd x K2) as K3.
      split; [apply (g_passed _ _ _ _ G x K3)|exact K3].
    + right. right. right. left. split; assumption.
Qed.

Section Graph.
  Variables (allow deep : bool) (h0 : heap) (fuel : nat) (g : id) (st : cst) (g' : id).
  Hypothesis Hcl0 : closed h0.
  Hypothesis Hg : g < next h0.
  Hypothesis Hrun : graph_clone fuel allow deep g h0 = (st, Ok g').

  Lemma P_graph_fresh x :
    (wf_dev h0 \/ ~ wf_dev h0) -> reach (cells (hp st)) (next h0) g' x ->
    next h0 <= x \/ shared_ok allow deep h0 st x.
  Proof.
    intros Hdec Hx. destruct (graph_clone_good allow deep h0 Hcl0 fuel g st (Ok g') Hg Hrun g' eq_refl) as [G [F _]].
    apply (good_reach allow deep h0 st g' x Hdec G F Hx).
  Qed.

  Lemma P_graph_no_capture x :
    wf_dev h0 -> allow = false -> reach (cells (hp st)) (next h0) g' x -> x < next h0 ->
    (exists a, cells h0 x = Some (CAttr a) /\ shared_attr a) \/
    (deep = false /\ exists m md k, cells h0 m = Some (CMeta md) /\ In (k, MObj x) (m_data md)) \/
    (exists o v0, cells h0 o = Some (CValue v0) /\ v_const v0 = Some x).
  Proof.
    intros Wd Ha Hx Hlt. destruct (P_graph_fresh x (or_introl Wd) Hx) as [K|[_ K]]; [lia|].
    destruct K as [K|[K|[[K _]|[[K _]|K]]]]; auto.
    - rewrite Ha in K. discriminate.
    - contradiction.
  Qed.

  Lemma P_graph_closed x :
    (forall v, In v (passed st) \/ In v (kept st) -> assoc v (vmap st) = None) ->
    reach (cells (hp st)) (next h0) g' x -> x < next h0 ->
    (exists a, cells h0 x = Some (CAttr a) /\ shared_attr a) \/
    (deep = false /\ exists m md k, cells h0 m = Some (CMeta md) /\ In (k, MObj x) (m_data md)) \/
    (exists o v0, cells h0 o = Some (CValue v0) /\ v_const v0 = Some x) \/
    ((In x (passed st) \/ In x (kept st)) /\ forall k, ~ In x (owned (cells h0) k g)).
  Proof. apply (graph_clone_closed allow deep h0 Hcl0 fuel g st (Ok g') Hg Hrun g' x eq_refl). Qed.

  Lemma P_graph_faithful : dicts_wf h0 -> forall k, gcanon (cells (hp st)) k g' = gcanon (cells h0) k g.
  Proof. apply (graph_clone_faithful allow deep h0 Hcl0 fuel g st (Ok g') Hg Hrun g' eq_refl). Qed.

  Lemma P_graph_is_graph : exists x, cells (hp st) g' = Some (CGraph x) /\ g_view x = false.
  Proof.
    apply (clone_graph_is_graph allow deep h0 Hcl0 fuel g _ _ _ (good_init allow deep h0 Hcl0) Hg Hrun).
  Qed.

  Lemma P_graph_clone_edits ops x :
    ops_sided (col_clone (next h0)) true (hp st) ops -> ops_no_trename (hp st) ops -> x < next h0 ->
    cells (apply_ops (hp st) ops) x = cells h0 x.
  Proof.
    destruct (graph_clone_good allow deep h0 Hcl0 fuel g st (Ok g') Hg Hrun g' eq_refl) as [G _].
    intros Hs Hn Hx. apply (clone_edits_frame allow deep h0 Hcl0 st G ops Hs Hn x Hx).
  Qed.

  Lemma P_graph_clone_edits_nt ops x :
    ops_sided (col_clone (next h0)) true (hp st) ops -> x < next h0 -> is_tensor (cells h0 x) = false ->
    cells (apply_ops (hp st) ops) x = cells h0 x.
  Proof.
    destruct (graph_clone_good allow deep h0 Hcl0 fuel g st (Ok g') Hg Hrun g' eq_refl) as [G _].
    intros Hs Hx Hnt. apply (clone_edits_frame_nt allow deep h0 Hcl0 st G ops Hs x Hx Hnt).
  Qed.

  Lemma P_graph_orig_edits_nt ops x :
    ops_sided (col_orig (next h0) (next (hp st))) true (hp st) ops -> next h0 <= x -> x < next (hp st) ->
    is_tensor (cells (hp st) x) = false -> cells (apply_ops (hp st) ops) x = cells (hp st) x.
  Proof.
    destruct (graph_clone_good allow deep h0 Hcl0 fuel g st (Ok g') Hg Hrun g' eq_refl) as [G _].
    intros Hs H1 H2 H3. apply (orig_edits_frame_nt allow deep h0 Hcl0 st G ops Hs x H1 H2 H3).
  Qed.

  Lemma P_graph_clone_edits_canon ops k :
    ops_sided (col_clone (next h0)) true (hp st) ops -> ops_no_trename (hp st) ops ->
    gcanon (cells (apply_ops (hp st) ops)) k g = gcanon (cells h0) k g.
  Proof.
    destruct (graph_clone_good allow deep h0 Hcl0 fuel g st (Ok g') Hg Hrun g' eq_refl) as [G _].
    intros Hs Hn. apply (clone_edits_canon allow deep h0 Hcl0 st G ops k g Hs Hn Hg).
  Qed.

  Lemma P_graph_orig_edits ops x :
    ops_sided (col_orig (next h0) (next (hp st))) true (hp st) ops -> ops_no_trename (hp st) ops ->
    next h0 <= x -> x < next (hp st) -> cells (apply_ops (hp st) ops) x = cells (hp st) x.
  Proof.
    destruct (graph_clone_good allow deep h0 Hcl0 fuel g st (Ok g') Hg Hrun g' eq_refl) as [G _].
    intros Hs Hn H1 H2. apply (orig_edits_frame allow deep h0 Hcl0 st G ops Hs Hn x H1 H2).
  Qed.
End Graph.

Section ModelFn.
  Variables (deep : bool) (h0 : heap) (fuel : nat).
  Hypothesis Hcl0 : closed h0.

  Lemma P_model_good m st m' :
    m < next h0 -> model_clone fuel deep m h0 = (st, Ok m') ->
    good false deep h0 st /\ MdR h0 (hp st) m m'.
  Proof.
    intros Hm H. apply (model_clone_ok deep h0 Hcl0 fuel _ _ _ _ (good_init false deep h0 Hcl0) Hm H).
  Qed.

  Lemma P_model_fresh m st m' x :
    (wf_dev h0 \/ ~ wf_dev h0) -> m < next h0 -> model_clone fuel deep m h0 = (st, Ok m') ->
    reach (cells (hp st)) (next h0) m' x -> next h0 <= x \/ shared_ok false deep h0 st x.
  Proof.
    intros Hdec Hm H Hx. destruct (P_model_good m st m' Hm H) as [G (K1 & K2 & _)].
    apply (good_reach false deep h0 st m' x Hdec G (conj K1 K2) Hx).
  Qed.

  Lemma P_model_faithful m st m' :
    m < next h0 -> model_clone fuel deep m h0 = (st, Ok m') -> dicts_wf h0 ->
    forall k, mcanon (cells (hp st)) k m' = mcanon (cells h0) k m.
  Proof. intros Hm H. destruct (P_model_good m st m' Hm H) as [_ (_ & _ & K)]. exact K. Qed.

  Lemma P_function_good f st f' :
    f < next h0 -> function_clone fuel deep f h0 = (st, Ok f') ->
    good false deep h0 st /\ FnR h0 st f f'.
  Proof.
    intros Hf H. apply (function_clone_ok deep h0 Hcl0 fuel _ _ _ _ (good_init false deep h0 Hcl0) Hf H).
  Qed.

  Lemma P_function_fresh f st f' x :
    (wf_dev h0 \/ ~ wf_dev h0) -> f < next h0 -> function_clone fuel deep f h0 = (st, Ok f') ->
    reach (cells (hp st)) (next h0) f' x -> next h0 <= x \/ shared_ok false deep h0 st x.
  Proof.
    intros Hdec Hf H Hx. destruct (P_function_good f st f' Hf H) as [G [K _]].
    apply (good_reach false deep h0 st f' x Hdec G K Hx).
  Qed.

  Lemma P_function_faithful f st f' :
    f < next h0 -> function_clone fuel deep f h0 = (st, Ok f') -> dicts_wf h0 ->
    forall k, fcanon (cells (hp st)) k f' = fcanon (cells h0) k f.
  Proof. intros Hf H. destruct (P_function_good f st f' Hf H) as [_ [_ K]]. exact K. Qed.

  Lemma P_model_clone_edits m st m' ops x :
    m < next h0 -> model_clone fuel deep m h0 = (st, Ok m') ->
    ops_sided (col_clone (next h0)) true (hp st) ops -> ops_no_trename (hp st) ops -> x < next h0 ->
    cells (apply_ops (hp st) ops) x = cells h0 x.
  Proof.
    intros Hm H Hs Hn Hx. destruct (P_model_good m st m' Hm H) as [G _].
    apply (clone_edits_frame false deep h0 Hcl0 st G ops Hs Hn x Hx).
  Qed.
End ModelFn.

Lemma P_functional_pass_pure fuel prog m h0 h' r :
  closed h0 -> m < next h0 ->
  (forall st m', model_clone fuel false m h0 = (st, Ok m') ->
                 ops_sided (col_clone (next h0)) true (hp st) (prog m') /\ ops_no_trename (hp st) (prog m')) ->
  functional_pass fuel prog m h0 = (h', r) ->
  (forall x, x < next h0 -> cells h' x = cells h0 x) /\
  (forall k, mcanon (cells h') k m = mcanon (cells h0) k m).
Proof.
  intros Hcl Hm Hp H.
  assert (F := functional_pass_frame fuel prog m h0 h' r Hcl Hm Hp H). split; [exact F|].
  intros k. apply (mcanon_st _ _ (fun x => x < next h0)).
  - intros x c _ Hc y Hy. apply (proj2 (Hcl _ _ Hc)), Hy.
  - exact F.
  - exact Hm.
Qed.

(* the frame property needs no hypothesis at all, and holds for failed clones too *)
Lemma P_frame_graph fuel allow deep g h0 st r :
  graph_clone fuel allow deep g h0 = (st, r) -> forall x, x < next h0 -> cells (hp st) x = cells h0 x.
Proof.
  intros H x Hx. unfold graph_clone in H. apply (mono_clone_graph allow deep fuel g) in H.
  destruct H as [[_ K] _]. apply K, Hx.
Qed.
Lemma P_frame_model fuel deep m h0 st r :
  model_clone fuel deep m h0 = (st, r) -> forall x, x < next h0 -> cells (hp st) x = cells h0 x.
Proof.
  intros H x Hx. unfold model_clone in H. apply (mono_model_clone_m fuel deep m) in H.
  destruct H as [[_ K] _]. apply K, Hx.
Qed.
Lemma P_frame_function fuel deep f h0 st r :
  function_clone fuel deep f h0 = (st, r) -> forall x, x < next h0 -> cells (hp st) x = cells h0 x.
Proof.
  intros H x Hx. unfold function_clone in H. apply (mono_function_clone_m fuel deep f) in H.
  destruct H as [[_ K] _]. apply K, Hx.
Qed.



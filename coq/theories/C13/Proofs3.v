(* C13/Proofs3.v — the cloner's invariant: the heap only grows from the initial one, stays closed, the value map
   relates original values to freshly allocated faithful copies, and the links of every new cell go to new
   cells or to one of the allowed shared objects.  Part 1: the invariant, primitives and leaf functions. *)
From Coq Require Import List ZArith NArith PArith Bool Lia.
From IRV Require Import Base.Exn C13.Model C13.Proofs1 C13.Proofs2.
Import ListNotations.
Local Open Scope positive_scope.

Definition closed (h : heap) : Prop :=
  forall x c, cells h x = Some c -> x < next h /\ forall y, In y (links c) -> y < next h.

(* the links to sub-objects an object owns (never legitimately shared with another object) *)
Definition own_links (c : cell) : list id :=
  match c with
  | CValue v => oid (v_type v) ++ oid (v_shape v) ++ [v_mp v; v_meta v]
  | CNode n => [n_mp n; n_meta n]
  | CGraph g => [g_opset g; g_mp g; g_meta g]
  | CModel m => [md_mp m; md_meta m]
  | _ => []
  end.

Lemma own_links_links c y : In y (own_links c) -> In y (links c).
Proof.
  destruct c; intros H; try (simpl in H; contradiction).
  - unfold links. unfold own_links in H. rewrite !app_assoc. apply in_or_app. left. rewrite <- !app_assoc. exact H.
  - simpl in H. destruct H as [<-|[<-|[]]]; [apply lk_n_mp|apply lk_n_meta].
  - simpl in H. destruct H as [<-|[<-|[<-|[]]]]; [apply lk_g_opset|apply lk_g_mp|apply lk_g_meta].
  - unfold links. right. apply in_or_app. right. exact H.
Qed.

Definition shared_attr (a : attr) : Prop :=
  match a_val a with AVal _ _ | ARef _ _ | ATensor _ => True | _ => False end.

(* dictionaries of the initial heap are dictionaries: unique keys, and the keys under which attributes and
   initializers are filed are their names (needed only for the faithfulness statements) *)
Definition cell_wf (h : id -> option cell) (c : cell) : Prop :=
  match c with
  | CMeta m => NoDup (map fst (m_data m)) /\ NoDup (m_inv m)
  | CNode n => NoDup (map fst (n_attrs n)) /\
               forall ka, In ka (n_attrs n) -> exists a, h (snd ka) = Some (CAttr a) /\ a_name a = fst ka
  | CFunc f => NoDup (map fst (f_attrs f)) /\
               forall ka, In ka (f_attrs f) -> exists a, h (snd ka) = Some (CAttr a) /\ a_name a = fst ka
  | CGraph g => NoDup (map fst (g_inits g)) /\
                forall kv, In kv (g_inits g) -> exists v, h (snd kv) = Some (CValue v) /\ v_name v = fst kv
  | _ => True
  end.
Definition dicts_wf (h : heap) : Prop := forall x c, cells h x = Some c -> cell_wf (cells h) c.

(* C19's invariant: a sharding spec is about one of the node's own inputs or outputs *)
Definition wf_dev (h : heap) : Prop :=
  forall x n, cells h x = Some (CNode n) ->
  forall d sp y, In d (n_dev n) -> In sp (dc_specs d) -> sp_value sp = Some y ->
                 In (Some y) (n_inputs n) \/ In y (n_outputs n).

Lemma vref_of_vcanon h h' c o : vcanon h c = vcanon h' o -> vref h c = vref h' o.
Proof.
  unfold vcanon, vref. destruct (h c) as [[]|]; destruct (h' o) as [[]|]; intros H; try discriminate;
    try reflexivity. inversion H. reflexivity.
Qed.

Section Good.
  Variables allow deep : bool.
  Variable h0 : heap.
  Hypothesis Hcl0 : closed h0.
  Notation n0 := (next h0).
  Notation WF := (dicts_wf h0).

  Definition allowed (st : cst) (y : id) : Prop :=
    y < n0 /\
    ((exists a, cells h0 y = Some (CAttr a) /\ shared_attr a) \/
     (deep = false /\ exists m md k, cells h0 m = Some (CMeta md) /\ In (k, MObj y) (m_data md)) \/
     In y (passed st) \/ In y (kept st) \/
     (* the tensor object of a value's const_value: shared by design *)
     (exists o v0, cells h0 o = Some (CValue v0) /\ v_const v0 = Some y)).

  Definition FR (st : cst) (x : id) : Prop := n0 <= x /\ x < next (hp st).

  Definition VR (st : cst) (o c : id) : Prop :=
    FR st c /\ (exists v, cells (hp st) c = Some (CValue v)) /\
    (WF -> vcanon (cells (hp st)) c = vcanon (cells h0) o).

  Record good (st : cst) : Prop := {
    g_ext : hle h0 (hp st);
    g_closed : closed (hp st);
    g_vmap : forall o c, assoc o (vmap st) = Some c -> VR st o c;
    g_own : forall x c, n0 <= x -> cells (hp st) x = Some c -> forall y, In y (own_links c) -> n0 <= y;
    g_links : forall x c, n0 <= x -> cells (hp st) x = Some c ->
                          forall y, In y (links c) -> n0 <= y \/ allowed st y;
    g_passed : forall v, In v (passed st) -> allow = true;
    g_kept : wf_dev h0 -> forall y, In y (kept st) -> In y (passed st)
  }.

  Lemma good_init : good (init_st h0).
  Proof.
    constructor; simpl.
    - apply hle_refl.
    - exact Hcl0.
    - intros o c H. discriminate.
    - intros x c Hx Hc. apply Hcl0 in Hc. lia.
    - intros x c Hx Hc. apply Hcl0 in Hc. lia.
    - intros v [].
    - intros _ y [].
  Qed.

  Lemma old_cell st x : good st -> x < n0 -> cells (hp st) x = cells h0 x.
  Proof. intros G Hx. apply (g_ext _ G). exact Hx. Qed.

  Lemma old_links x c y : x < n0 -> cells h0 x = Some c -> In y (links c) -> y < n0.
  Proof. intros _ Hc Hy. apply (Hcl0 _ _ Hc). exact Hy. Qed.

  Lemma allowed_le st st' y : le st st' -> allowed st y -> allowed st' y.
  Proof.
    intros (_ & _ & Hp & Hk) [Hy H]. split; [exact Hy|].
    destruct H as [H|[H|[H|[H|H]]]]; auto 6.
  Qed.

  (* agreement below next + closedness: canonical forms of existing cells are stable *)
  Section Stab.
    Variables st st' : cst.
    Hypothesis G : good st.
    Hypothesis L : le st st'.
    Let S := fun x => x < next (hp st).
    Lemma S_cl : forall x c, S x -> cells (hp st) x = Some c -> forall y, In y (links c) -> S y.
    Proof. intros x c _ Hc y Hy. apply (g_closed _ G _ _ Hc). exact Hy. Qed.
    Lemma S_ag : forall x, S x -> cells (hp st') x = cells (hp st) x.
    Proof. intros x Hx. destruct L as [[_ H] _]. apply H. exact Hx. Qed.

    Lemma FR_le x : FR st x -> FR st' x.
    Proof. intros [H1 H2]. split; [exact H1|]. destruct L as [[H _] _]. lia. Qed.
    Lemma VR_le o c : VR st o c -> VR st' o c.
    Proof.
      intros (HF & [v Hv] & Hc). split; [apply FR_le, HF|]. split.
      - exists v. rewrite S_ag; [exact Hv|apply HF].
      - intros W. rewrite <- (Hc W). apply (vcanon_st _ _ S S_cl S_ag). apply HF.
    Qed.
    Lemma vcanon_le c : c < next (hp st) -> vcanon (cells (hp st')) c = vcanon (cells (hp st)) c.
    Proof. intros H. apply (vcanon_st _ _ S S_cl S_ag). exact H. Qed.
    Lemma vref_le c : c < next (hp st) -> vref (cells (hp st')) c = vref (cells (hp st)) c.
    Proof. intros H. apply (vref_st _ _ S S_ag). exact H. Qed.
    Lemma dict_canon_le c : c < next (hp st) -> dict_canon (cells (hp st')) c = dict_canon (cells (hp st)) c.
    Proof. intros H. apply (dict_canon_st _ _ S S_ag). exact H. Qed.
    Lemma meta_canon_le c : c < next (hp st) -> meta_canon (cells (hp st')) c = meta_canon (cells (hp st)) c.
    Proof. intros H. apply (meta_canon_st _ _ S S_cl S_ag). exact H. Qed.
    Lemma gcanon_le f c : c < next (hp st) -> gcanon (cells (hp st')) f c = gcanon (cells (hp st)) f c.
    Proof. intros H. apply (gcanon_st _ _ S S_cl S_ag). exact H. Qed.
    Lemma acanon_le f c : c < next (hp st) ->
      acanon (cells (hp st')) (gcanon (cells (hp st')) f) c = acanon (cells (hp st)) (gcanon (cells (hp st)) f) c.
    Proof. intros H. apply (acanon_st _ _ S S_cl S_ag); [exact H|]. intros g Hg. apply gcanon_le, Hg. Qed.
    Lemma ncanon_le f c : c < next (hp st) ->
      ncanon (cells (hp st')) (gcanon (cells (hp st')) f) c = ncanon (cells (hp st)) (gcanon (cells (hp st)) f) c.
    Proof. intros H. apply (ncanon_st _ _ S S_cl S_ag); [exact H|]. intros g Hg. apply gcanon_le, Hg. Qed.
    Lemma cell_le c : c < next (hp st) -> cells (hp st') c = cells (hp st) c.
    Proof. apply S_ag. Qed.
    Lemma type_canon_le t : (forall x, t = Some x -> x < next (hp st)) ->
      type_canon (cells (hp st')) t = type_canon (cells (hp st)) t.
    Proof. intros H. apply (type_canon_st _ _ S S_ag). exact H. Qed.
    Lemma shape_canon_le t : (forall x, t = Some x -> x < next (hp st)) ->
      shape_canon (cells (hp st')) t = shape_canon (cells (hp st)) t.
    Proof. intros H. apply (shape_canon_st _ _ S S_ag). exact H. Qed.
    Lemma allowed_le' y : allowed st y -> allowed st' y.
    Proof. apply allowed_le. exact L. Qed.
  End Stab.

  (* canonical forms of old objects are those of the initial heap *)
  Section Old.
    Variable st : cst.
    Hypothesis G : good st.
    Let S := fun x => x < n0.
    Lemma O_cl : forall x c, S x -> cells h0 x = Some c -> forall y, In y (links c) -> S y.
    Proof. intros x c _ Hc y Hy. apply (Hcl0 _ _ Hc). exact Hy. Qed.
    Lemma O_ag : forall x, S x -> cells (hp st) x = cells h0 x.
    Proof. intros x Hx. apply old_cell; assumption. Qed.
    Lemma vcanon_old c : c < n0 -> vcanon (cells (hp st)) c = vcanon (cells h0) c.
    Proof. intros H. apply (vcanon_st _ _ S O_cl O_ag). exact H. Qed.
    Lemma vref_old c : c < n0 -> vref (cells (hp st)) c = vref (cells h0) c.
    Proof. intros H. apply (vref_st _ _ S O_ag). exact H. Qed.
    Lemma acanon_old f c : c < n0 ->
      acanon (cells (hp st)) (gcanon (cells (hp st)) f) c = acanon (cells h0) (gcanon (cells h0) f) c.
    Proof.
      intros H. apply (acanon_st _ _ S O_cl O_ag); [exact H|]. intros g Hg.
      apply (gcanon_st _ _ S O_cl O_ag). exact Hg.
    Qed.
  End Old.

  (* ---------- primitives *)
  Lemma good_alloc st st' c x :
    good st -> alloc c st = (st', Ok x) ->
    (forall y, In y (links c) -> y < next (hp st)) ->
    (forall y, In y (own_links c) -> n0 <= y) ->
    (forall y, In y (links c) -> n0 <= y \/ allowed st y) ->
    good st' /\ FR st' x /\ x = next (hp st) /\ cells (hp st') x = Some c.
  Proof.
    intros G H Hlt Hown Hlk. unfold alloc in H. simpl in H. inversion H; subst; clear H.
    assert (L : le st (St (Hp (upd (cells (hp st)) (next (hp st)) c) (Pos.succ (next (hp st))))
                          (vmap st) (passed st) (kept st))).
    { apply (mono_alloc c st _ (Ok (next (hp st)))). reflexivity. }
    assert (Hn0 : n0 <= next (hp st)) by apply (g_ext _ G).
    split; [|split; [|split]].
    - constructor; simpl.
      + eapply hle_trans; [apply (g_ext _ G)|apply L].
      + intros x c' Hc. simpl in Hc. unfold upd in Hc. destruct (Pos.eqb_spec x (next (hp st))) as [->|Hne].
        * cbv iota in Hc; injection Hc as Hc; subst c'. simpl. split; [lia|]. intros y Hy. apply Hlt in Hy. lia.
        * apply (g_closed _ G) in Hc. destruct Hc as [H1 H2]. simpl. split; [lia|]. intros y Hy. apply H2 in Hy. lia.
      + intros o c' Hc. apply (VR_le st _ G L). apply (g_vmap _ G). exact Hc.
      + intros x c' Hx Hc y Hy. simpl in Hc. unfold upd in Hc. destruct (Pos.eqb_spec x (next (hp st))) as [->|Hne].
        * cbv iota in Hc; injection Hc as Hc; subst c'. apply Hown, Hy.
        * apply (g_own _ G x c' Hx Hc y Hy).
      + intros x c' Hx Hc y Hy. simpl in Hc. unfold upd in Hc. destruct (Pos.eqb_spec x (next (hp st))) as [->|Hne].
        * cbv iota in Hc; injection Hc as Hc; subst c'. destruct (Hlk y Hy) as [K|K]; [left; exact K|right].
          eapply allowed_le; [exact L|exact K].
        * destruct (g_links _ G x c' Hx Hc y Hy) as [K|K]; [left; exact K|right].
          eapply allowed_le; [exact L|exact K].
      + apply (g_passed _ G).
      + apply (g_kept _ G).
    - unfold FR; simpl. lia.
    - reflexivity.
    - simpl. apply upd_same.
  Qed.

  Lemma get_ok st st' x c : get x st = (st', Ok c) -> st' = st /\ cells (hp st) x = Some c.
  Proof. unfold get. destruct (cells (hp st) x); intros H; inversion H; subst. split; reflexivity. Qed.

  Ltac inv_bind H :=
    let st1 := fresh "st" in let a := fresh "a" in let H1 := fresh "H" in
    apply bind_ok in H; destruct H as (st1 & a & H1 & H).

  Lemma get_value_ok st st' x v : get_value x st = (st', Ok v) -> st' = st /\ cells (hp st) x = Some (CValue v).
  Proof.
    unfold get_value. intros H. inv_bind H. apply get_ok in H0. destruct H0 as [-> Hc].
    destruct a; inversion H; subst. split; [reflexivity|exact Hc].
  Qed.
  Lemma get_node_ok st st' x v : get_node x st = (st', Ok v) -> st' = st /\ cells (hp st) x = Some (CNode v).
  Proof.
    unfold get_node. intros H. inv_bind H. apply get_ok in H0. destruct H0 as [-> Hc].
    destruct a; inversion H; subst. split; [reflexivity|exact Hc].
  Qed.
  Lemma get_graph_ok st st' x v : get_graph x st = (st', Ok v) -> st' = st /\ cells (hp st) x = Some (CGraph v).
  Proof.
    unfold get_graph. intros H. inv_bind H. apply get_ok in H0. destruct H0 as [-> Hc].
    destruct a; inversion H; subst. split; [reflexivity|exact Hc].
  Qed.
  Lemma get_attr_ok st st' x v : get_attr x st = (st', Ok v) -> st' = st /\ cells (hp st) x = Some (CAttr v).
  Proof.
    unfold get_attr. intros H. inv_bind H. apply get_ok in H0. destruct H0 as [-> Hc].
    destruct a; inversion H; subst. split; [reflexivity|exact Hc].
  Qed.
  Lemma get_func_ok st st' x v : get_func x st = (st', Ok v) -> st' = st /\ cells (hp st) x = Some (CFunc v).
  Proof.
    unfold get_func. intros H. inv_bind H. apply get_ok in H0. destruct H0 as [-> Hc].
    destruct a; inversion H; subst. split; [reflexivity|exact Hc].
  Qed.
  Lemma get_model_ok st st' x v : get_model x st = (st', Ok v) -> st' = st /\ cells (hp st) x = Some (CModel v).
  Proof.
    unfold get_model. intros H. inv_bind H. apply get_ok in H0. destruct H0 as [-> Hc].
    destruct a; inversion H; subst. split; [reflexivity|exact Hc].
  Qed.

  Lemma good_vmap_set st o c : good st -> VR st o c -> good (St (hp st) ((o, c) :: vmap st) (passed st) (kept st)).
  Proof.
    intros G HV. constructor; simpl.
    - apply G.
    - apply G.
    - intros o' c' H. destruct (Pos.eqb o' o) eqn:E.
      + inversion H; subst. apply Pos.eqb_eq in E. subst. exact HV.
      + apply (g_vmap _ G) in H. exact H.
    - exact (g_own _ G).
    - exact (g_links _ G).
    - exact (g_passed _ G).
    - exact (g_kept _ G).
  Qed.

  Lemma good_ghost st p k :
    good st -> incl (passed st) p -> incl (kept st) k -> (forall v, In v p -> allow = true) ->
    (wf_dev h0 -> forall y, In y k -> In y p) ->
    good (St (hp st) (vmap st) p k).
  Proof.
    intros G Hp Hk Ha Hkp. constructor; simpl.
    - apply G.
    - apply G.
    - exact (g_vmap _ G).
    - exact (g_own _ G).
    - intros x c' Hx Hc y Hy. destruct (g_links _ G x c' Hx Hc y Hy) as [K|K]; [left; exact K|right].
      destruct K as [K1 K2]. split; [exact K1|]. simpl. destruct K2 as [K2|[K2|[K2|[K2|K2]]]]; auto 6.
    - exact Ha.
    - exact Hkp.
  Qed.

  (* ---------- leaf functions *)
  Lemma clone_dict_ok st st' d d' :
    good st -> d < n0 -> clone_dict d st = (st', Ok d') ->
    good st' /\ FR st' d' /\ dict_canon (cells (hp st')) d' = dict_canon (cells h0) d.
  Proof.
    intros G Hd H. unfold clone_dict in H. inv_bind H. apply get_ok in H0. destruct H0 as [-> Hc].
    destruct a; try discriminate.
    destruct (good_alloc _ _ _ _ G H) as (G' & HF & Hx & Hcell); simpl; try contradiction.
    split; [exact G'|]. split; [exact HF|]. unfold dict_canon. rewrite Hcell.
    rewrite <- (old_cell _ _ G Hd), Hc. reflexivity.
  Qed.

  Lemma clone_shape_ok st st' s s' :
    good st -> (forall x, s = Some x -> x < n0) -> clone_shape s st = (st', Ok s') ->
    good st' /\ (forall y, s' = Some y -> FR st' y) /\
    shape_canon (cells (hp st')) s' = shape_canon (cells h0) s.
  Proof.
    intros G Hs H. unfold clone_shape in H. destruct s as [x|].
    - inv_bind H. apply get_ok in H0. destruct H0 as [-> Hc]. destruct a; try discriminate.
      inv_bind H. inversion H; subst.
      destruct (good_alloc _ _ _ _ G H0) as (G' & HF & Hx & Hcell); simpl; try contradiction.
      split; [exact G'|]. split.
      + intros y Hy. inversion Hy; subst. exact HF.
      + simpl. rewrite Hcell. rewrite <- (old_cell _ _ G (Hs x eq_refl)), Hc. reflexivity.
    - inversion H; subst. split; [exact G|]. split; [discriminate|reflexivity].
  Qed.

  Lemma clone_type_ok st st' s s' :
    good st -> (forall x, s = Some x -> x < n0) -> clone_type s st = (st', Ok s') ->
    good st' /\ (forall y, s' = Some y -> FR st' y) /\
    type_canon (cells (hp st')) s' = type_canon (cells h0) s.
  Proof.
    intros G Hs H. unfold clone_type in H. destruct s as [x|].
    - inv_bind H. apply get_ok in H0. destruct H0 as [-> Hc]. destruct a; try discriminate.
      inv_bind H. inversion H; subst.
      destruct (good_alloc _ _ _ _ G H0) as (G' & HF & Hx & Hcell); simpl; try contradiction.
      split; [exact G'|]. split.
      + intros y Hy. inversion Hy; subst. exact HF.
      + simpl. rewrite Hcell. rewrite <- (old_cell _ _ G (Hs x eq_refl)), Hc. reflexivity.
    - inversion H; subst. split; [exact G|]. split; [discriminate|reflexivity].
  Qed.

  (* what is known about a copied metadata entry *)
  Definition MR (m : id) (st : cst) (kv kv' : name * mval) : Prop :=
    fst kv' = fst kv /\ mval_canon (cells (hp st)) kv' = mval_canon (cells h0) kv /\
    (forall o, snd kv' = MObj o -> o < next (hp st) /\ (n0 <= o \/ allowed st o)).

  Lemma clone_mval_ok st st' m md kv kv' :
    good st -> cells h0 m = Some (CMeta md) -> In kv (m_data md) ->
    clone_mval deep kv st = (st', Ok kv') -> good st' /\ MR m st' kv kv'.
  Proof.
    intros G Hm Hin H. unfold clone_mval in H. destruct kv as [k v]. simpl in H.
    assert (Hold : forall o, v = MObj o -> o < n0).
    { intros o ->. apply (proj2 (Hcl0 _ _ Hm)). eapply lk_m_obj. exact Hin. }
    destruct v as [z|o].
    - inversion H; subst. split; [exact G|]. unfold MR. simpl. repeat split; discriminate.
    - specialize (Hold o eq_refl). destruct deep eqn:Ed.
      + inv_bind H. apply get_ok in H0. destruct H0 as [-> Hc]. destruct a; try discriminate.
        inv_bind H. inversion H; subst.
        destruct (good_alloc _ _ _ _ G H0) as (G' & HF & Hx & Hcell); simpl; try contradiction.
        split; [exact G'|]. unfold MR. simpl. split; [reflexivity|]. split.
        * unfold mval_canon. simpl. rewrite Hcell. rewrite <- (old_cell _ _ G Hold), Hc. reflexivity.
        * intros o' Ho'. inversion Ho'; subst. split; [apply HF|left; apply HF].
      + inversion H; subst. split; [exact G|]. unfold MR. simpl. split; [reflexivity|]. split.
        * unfold mval_canon. simpl. rewrite (old_cell _ _ G Hold). reflexivity.
        * intros o' Ho'. inversion Ho'; subst. split.
          -- pose proof (g_ext _ G) as [E _]. lia.
          -- right. split; [exact Hold|]. right. left. split; [first [exact Ed|reflexivity]|]. exists m, md, k. split; assumption.
  Qed.
End Good.

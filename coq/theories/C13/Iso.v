(* C13/Iso.v — support for the generated case files (definitions only): comparison of the model heap with the
   object graph observed on the implementation, up to a bijection of the identities of newly created objects.
   Pre-existing objects (id < n0) must correspond to themselves. *)
From Coq Require Import List ZArith NArith PArith Bool.
From IRV Require Import Base.Exn C13.Model.
Import ListNotations.

(* ---------- decidable equality of cells *)
Definition oname_dec : forall a b : option name, {a = b} + {a <> b}.
Proof. decide equality; apply N.eq_dec. Defined.
Definition oid_dec : forall a b : option id, {a = b} + {a <> b}.
Proof. decide equality; apply Pos.eq_dec. Defined.
Definition oN_dec : forall a b : option N, {a = b} + {a <> b}.
Proof. decide equality; apply N.eq_dec. Defined.
Definition ooname_dec : forall a b : option (option name), {a = b} + {a <> b}.
Proof. decide equality; apply oname_dec. Defined.
Definition oZ_dec : forall a b : option Z, {a = b} + {a <> b}.
Proof. decide equality; apply Z.eq_dec. Defined.
Definition dim_dec : forall a b : dim, {a = b} + {a <> b}.
Proof. decide equality; [apply Z.eq_dec | apply oname_dec]. Defined.
Definition ty_dec : forall a b : ty, {a = b} + {a <> b}.
Proof. decide equality; try apply N.eq_dec; apply oname_dec. Defined.
Definition shape_dec : forall a b : shape, {a = b} + {a <> b}.
Proof. decide equality; [apply bool_dec | apply list_eq_dec, oname_dec | apply list_eq_dec, dim_dec]. Defined.
Definition mval_dec : forall a b : mval, {a = b} + {a <> b}.
Proof. decide equality; [apply Z.eq_dec | apply Pos.eq_dec]. Defined.
Definition meta_dec : forall a b : meta, {a = b} + {a <> b}.
Proof.
  decide equality; [apply list_eq_dec, N.eq_dec |].
  apply list_eq_dec. decide equality; [apply mval_dec | apply N.eq_dec].
Defined.
Definition spec_dec : forall a b : spec, {a = b} + {a <> b}.
Proof. decide equality; [apply N.eq_dec | apply oid_dec]. Defined.
Definition devcfg_dec : forall a b : devcfg, {a = b} + {a <> b}.
Proof. decide equality; [apply list_eq_dec, spec_dec | apply oZ_dec | apply N.eq_dec]. Defined.
Definition attrv_dec : forall a b : attrv, {a = b} + {a <> b}.
Proof. decide equality; try apply N.eq_dec; try apply Pos.eq_dec. apply list_eq_dec, Pos.eq_dec. Defined.
Definition attr_dec : forall a b : attr, {a = b} + {a <> b}.
Proof. decide equality; [apply oname_dec | apply attrv_dec | apply N.eq_dec]. Defined.
Definition nid_dec : forall a b : name * id, {a = b} + {a <> b}.
Proof. decide equality; [apply Pos.eq_dec | apply N.eq_dec]. Defined.
Definition onid_dec : forall a b : option name * id, {a = b} + {a <> b}.
Proof. decide equality; [apply Pos.eq_dec | apply oname_dec]. Defined.
Definition value_dec : forall a b : value, {a = b} + {a <> b}.
Proof. decide equality; try apply Pos.eq_dec; try apply oname_dec; try apply oid_dec. Defined.
Definition node_dec : forall a b : node, {a = b} + {a <> b}.
Proof.
  decide equality; try apply Pos.eq_dec; try apply oname_dec; try apply N.eq_dec; try apply oZ_dec.
  - apply list_eq_dec, devcfg_dec.
  - apply list_eq_dec, nid_dec.
  - apply list_eq_dec, Pos.eq_dec.
  - apply list_eq_dec, oid_dec.
Defined.
Definition graph_dec : forall a b : graph, {a = b} + {a <> b}.
Proof.
  decide equality; try apply Pos.eq_dec; try apply oname_dec; try apply bool_dec;
    try (apply list_eq_dec, Pos.eq_dec).
  apply list_eq_dec, onid_dec.
Defined.
Definition func_dec : forall a b : func, {a = b} + {a <> b}.
Proof. decide equality; try apply Pos.eq_dec; try apply N.eq_dec. apply list_eq_dec, nid_dec. Defined.
Definition model_dec : forall a b : model, {a = b} + {a <> b}.
Proof. decide equality; try apply Pos.eq_dec; try apply N.eq_dec. apply list_eq_dec, Pos.eq_dec. Defined.
Definition nn_dec : forall a b : name * name, {a = b} + {a <> b}.
Proof. decide equality; apply N.eq_dec. Defined.
Definition cell_dec : forall a b : cell, {a = b} + {a <> b}.
Proof.
  decide equality.
  - apply value_dec. - apply node_dec. - apply graph_dec. - apply shape_dec. - apply ty_dec.
  - apply list_eq_dec, nn_dec. - apply meta_dec. - apply attr_dec. - apply list_eq_dec, Z.eq_dec.
  - apply func_dec. - apply model_dec. - apply oname_dec.
Defined.
Definition cell_eqb (a b : cell) : bool := if cell_dec a b then true else false.

(* ---------- renaming of identities *)
Section Rename.
  Variable f : id -> id.
  Definition ro (o : option id) := option_map f o.
  Definition r_mval (kv : name * mval) : name * mval :=
    (fst kv, match snd kv with MObj o => MObj (f o) | MAtom z => MAtom z end).
  Definition r_spec (s : spec) := Spc (ro (sp_value s)) (sp_rest s).
  Definition r_dev (d : devcfg) := Dev (dc_cfg d) (dc_stage d) (map r_spec (dc_specs d)).
  Definition r_kv {K} (kv : K * id) : K * id := (fst kv, f (snd kv)).
  Definition r_attrv (a : attrv) : attrv :=
    match a with AGraph g => AGraph (f g) | AGraphs gs => AGraphs (map f gs) | ATensor t => ATensor (f t) | x => x end.
  Definition rename_cell (c : cell) : cell :=
    match c with
    | CValue v => CValue (Val (v_name v) (ro (v_type v)) (ro (v_shape v)) (v_doc v) (ro (v_const v))
                              (f (v_mp v)) (f (v_meta v)))
    | CNode n => CNode (Nod (n_name n) (n_domain n) (n_op n) (n_overload n) (n_version n)
                            (map ro (n_inputs n)) (map f (n_outputs n)) (map r_kv (n_attrs n)) (n_doc n)
                            (f (n_mp n)) (f (n_meta n)) (map r_dev (n_dev n)))
    | CGraph g => CGraph (Gra (g_name g) (map f (g_inputs g)) (map f (g_outputs g)) (map r_kv (g_inits g))
                              (map f (g_nodes g)) (g_doc g) (f (g_opset g)) (f (g_mp g)) (f (g_meta g))
                              (g_view g))
    | CMeta m => CMeta (Met (map r_mval (m_data m)) (m_inv m))
    | CAttr a => CAttr (Att (a_name a) (r_attrv (a_val a)) (a_doc a))
    | CFunc x => CFunc (Fun (f_domain x) (f_name x) (f_overload x) (f (f_graph x)) (map r_kv (f_attrs x)))
    | CModel m => CModel (Mod (f (md_graph m)) (map f (md_funcs m)) (md_info m) (f (md_mp m)) (f (md_meta m)))
    | CShape _ | CType _ | CDict _ | CObj _ | CTensor _ => c
    end.
  Definition rename_op (o : op) : op :=
    match o with
    | VSetName v n => VSetName (f v) n
    | VSetDoc v n => VSetDoc (f v) n
    | VSetConst v t => VSetConst (f v) (ro t)
    | VSetDtype v d => VSetDtype (f v) d
    | VSetType v t => VSetType (f v) t
    | VSetShapeDim v i d => VSetShapeDim (f v) i d
    | VSetShape v s => VSetShape (f v) s
    | MpSet x k s => MpSet (f x) k s
    | MpDel x k => MpDel (f x) k
    | MetaSet x k z => MetaSet (f x) k z
    | MetaInvalidate x k => MetaInvalidate (f x) k
    | NSetName n s => NSetName (f n) s
    | NReplaceInput n i v => NReplaceInput (f n) i (ro v)
    | NSetAttr n k t tok => NSetAttr (f n) k t tok
    | NDelAttr n k => NDelAttr (f n) k
    | GSetName g s => GSetName (f g) s
    | GAppendNode g opn ins outs nm => GAppendNode (f g) opn (map ro ins) outs nm
    | GRemoveNode g n => GRemoveNode (f g) (f n)
    | GOpsetSet g k s => GOpsetSet (f g) k s
    | ASetDoc a d => ASetDoc (f a) d
    | ASetName a n => ASetName (f a) n
    end.
End Rename.

(* ---------- simultaneous traversal building the bijection model-id <-> implementation-id *)
Definition pairs := list (id * id).

Section Walk.
  Variable n0 : id.                       (* ids below n0 are pre-existing objects *)
  Variable hm hi : id -> option cell.     (* model heap, implementation dump *)

  Fixpoint walk (fuel : nat) (a b : id) (ps : option pairs) {struct fuel} : option pairs :=
    match fuel with
    | O => None
    | S f =>
        match ps with
        | None => None
        | Some l =>
            match assoc a l with
            | Some b' => if Pos.eqb b' b then Some l else None
            | None =>
                if existsb (fun p => Pos.eqb (snd p) b) l then None
                else if (Pos.ltb a n0 || Pos.ltb b n0) && negb (Pos.eqb a b) then None
                else
                  let l' := (a, b) :: l in
                  match hm a, hi b with
                  | Some ca, Some cb =>
                      (fix go (la lb : list id) (acc : option pairs) : option pairs :=
                         match la, lb with
                         | [], [] => acc
                         | x :: ra, y :: rb => go ra rb (walk f x y acc)
                         | _, _ => None
                         end) (links ca) (links cb) (Some l')
                  | None, None => Some l'
                  | _, _ => None
                  end
            end
        end
    end.

  Definition fwd (l : pairs) (a : id) : id := match assoc a l with Some b => b | None => a end.
  Definition bwd (l : pairs) (b : id) : id :=
    match find (fun p => Pos.eqb (snd p) b) l with Some p => fst p | None => b end.

  (* the invalid keys of a MetadataStore are a Python set: compared as sorted lists *)
  Fixpoint ins_sorted (k : name) (l : list name) : list name :=
    match l with [] => [k] | x :: r => if N.leb k x then k :: l else x :: ins_sorted k r end.
  Definition norm_cell (c : cell) : cell :=
    match c with
    | CMeta m => CMeta (Met (m_data m) (fold_right ins_sorted [] (m_inv m)))
    | _ => c
    end.

  Definition cells_match (l : pairs) : bool :=
    forallb (fun p => match hm (fst p), hi (snd p) with
                      | Some ca, Some cb => cell_eqb (norm_cell (rename_cell (fwd l) ca)) (norm_cell cb)
                      | None, None => true
                      | _, _ => false
                      end) l.

  (* the two heaps are isomorphic from the given pairs of roots *)
  Definition iso (fuel : nat) (roots : list (id * id)) : option pairs :=
    match fold_left (fun acc r => walk fuel (fst r) (snd r) acc) roots (Some []) with
    | Some l => if cells_match l then Some l else None
    | None => None
    end.
End Walk.

(* ---------- projection of the canonical serialization onto what ir.to_proto emits about structure: names,
   op identifiers, connectivity by name, attribute names with nested graphs, initializer names, doc strings and
   metadata_props.  The harness computes the same list from the ONNX proto produced by the implementation. *)
Definition eo (o : option name) : N := match o with Some n => (n + 1)%N | None => 1%N end.  (* None and "" coincide *)
Definition MK (k : N) : N := (1000000 + k)%N.
Definition BADTOK : N := 999999%N.
Definition proj_vname (v : option cvalue) : N := match v with Some c => eo (cv_name c) | None => BADTOK end.
Definition proj_ref (r : option (option name)) : N := match r with Some o => eo o | None => BADTOK end.
Definition proj_in (i : option (option (option name))) : N :=
  match i with None => 1%N | Some r => proj_ref r end.
(* serde sorts metadata_props by key; the key order is not part of the serialization: compared sorted by token *)
Fixpoint ins_kv (kv : name * name) (l : list (name * name)) : list (name * name) :=
  match l with [] => [kv] | x :: r => if N.leb (fst kv) (fst x) then kv :: l else x :: ins_kv kv r end.
Definition proj_mp (m : option (list (name * name))) : list N :=
  match m with
  | Some l => flat_map (fun kv => [(fst kv + 1)%N; (snd kv + 1)%N]) (fold_right ins_kv [] l)
  | None => [BADTOK]
  end.
Definition init_names (l : list (option cvalue)) : list N :=
  flat_map (fun v => match v with
                     | Some c => match cv_const c with Some _ => [eo (cv_name c)] | None => [] end
                     | None => [BADTOK]
                     end) l.

Fixpoint proj_g (g : cgraph) : list N :=
  match g with
  | CGr nm ins outs inits nodes doc opset mp me =>
      [MK 1; eo nm] ++ MK 2 :: map proj_vname ins ++ MK 3 :: map proj_ref outs ++ MK 4 :: init_names inits
      ++ MK 5 :: flat_map proj_n nodes ++ [MK 6; eo doc] ++ MK 7 :: proj_mp mp ++ [MK 8]
  | CGrBad => [BADTOK]
  end
with proj_n (n : cnode) : list N :=
  match n with
  | CNo nm dom op ov ver ins outs attrs doc mp me dev =>
      [MK 10; eo nm; (op + 1)%N; (dom + 1)%N; (ov + 1)%N] ++ MK 11 :: map proj_in ins
      ++ MK 12 :: map proj_vname outs ++ MK 13 :: flat_map proj_a attrs ++ [MK 14; eo doc] ++ MK 15 :: proj_mp mp
      ++ [MK 16]
  | CNoBad => [BADTOK]
  end
with proj_a (a : cattr) : list N :=
  match a with
  | CAV nm _ _ _ => [MK 20; (nm + 1)%N]
  | CAT nm _ tn _ => [MK 26; (nm + 1)%N; match tn with Some o => eo o | None => BADTOK end]
  | CAR nm _ r _ => [MK 21; (nm + 1)%N; (r + 1)%N]
  | CAG nm g _ => [MK 22; (nm + 1)%N] ++ proj_g g ++ [MK 23]
  | CAGs nm gs _ => [MK 24; (nm + 1)%N] ++ flat_map proj_g gs ++ [MK 25]
  | CABad => [BADTOK]
  end.

Definition proj_f (f : option (name * name * name * cgraph * list cattr)) : list N :=
  match f with
  | Some (dom, nm, ov, g, _) => [MK 30; (dom + 1)%N; (nm + 1)%N; (ov + 1)%N] ++ proj_g g ++ [MK 31]
  | None => [BADTOK]
  end.

Definition proj_root (kind : nat) (h : id -> option cell) (fuel : nat) (r : id) : list N :=
  match kind with
  | 2%nat => proj_f (fcanon h fuel r)
  | 3%nat => match mcanon h fuel r with
             | Some (g, fs, _, _) => proj_g g ++ flat_map proj_f fs
             | None => [BADTOK]
             end
  | _ => proj_g (gcanon h fuel r)
  end.

(* ---------- a case: heap before, what to clone, what the implementation did *)
Record case := Case {
  c_cells : list (id * cell); c_next : id;
  c_kind : nat;                (* 0 Graph.clone, 1 GraphView.clone, 2 Function.clone, 3 Model.clone *)
  c_root : id;                 (* the object cloned *)
  c_univ : list id;            (* roots of the pre-existing universe *)
  c_allow : bool; c_deep : bool;
  c_res : res id;              (* implementation: clone root (implementation numbering) or the exception *)
  c_after : list (id * cell);  (* implementation: dump of everything reachable from c_univ and the clone *)
  c_sorted : bool;             (* implementation-side check: no value of the cloned graph is used before it is defined *)
  c_ops : list (op * res unit);(* operations applied afterwards (implementation ids) with their outcome *)
  c_final : list (id * cell);  (* implementation: dump after the operations *)
  c_proto : list N;            (* implementation: projection of to_proto(original) *)
  c_proto_clone : list N       (* implementation: projection of to_proto(clone) (empty if the clone raised) *)
}.

Definition run_clone (c : case) : cst * res id :=
  let h := heap_of (c_cells c) (c_next c) in
  let fuel := Pos.to_nat (c_next c) in
  match c_kind c with
  | 0%nat => graph_clone fuel (c_allow c) (c_deep c) (c_root c) h
  | 1%nat => view_clone fuel (c_deep c) (c_root c) h
  | 2%nat => function_clone fuel (c_deep c) (c_root c) h
  | _ => model_clone fuel (c_deep c) (c_root c) h
  end.

Fixpoint run_ops (h : heap) (tr : id -> id) (l : list (op * res unit)) : option heap :=
  match l with
  | [] => Some h
  | (o, r) :: rest =>
      let '(h', r') := apply_op h (rename_op tr o) in
      if res_eqb (fun _ _ => true) r r' then run_ops h' tr rest else None
  end.

(* the graph the cloner walks (for Function.clone the function's graph, for Model.clone the main graph) *)
Definition cloned_graph (c : case) : option id :=
  match c_kind c with
  | 2%nat => match assoc (c_root c) (c_cells c) with Some (CFunc f) => Some (f_graph f) | _ => None end
  | 3%nat => match assoc (c_root c) (c_cells c) with Some (CModel m) => Some (md_graph m) | _ => None end
  | _ => Some (c_root c)
  end.

Definition no_use_before_def (st : cst) : bool :=
  forallb (fun v => match assoc v (vmap st) with None => true | Some _ => false end) (passed st).

(* 0 = agreement; otherwise the stage that disagrees *)
Definition code (c : case) : nat :=
  let n0 := c_next c in
  let '(st, r) := run_clone c in
  (* c_proto = [0]: the implementation could not serialize the original; the proto tie is skipped *)
  if negb (list_eqb N.eqb (c_proto c) [0%N]) &&
     negb (list_eqb N.eqb (proj_root (c_kind c) (fun x => assoc x (c_cells c)) (Pos.to_nat n0) (c_root c))
                    (c_proto c)) then 7 else
  match r, c_res c with
  | Raise e, Raise e' => if exn_eqb e e' then 0 else 1
  | Ok _, Raise _ | Raise _, Ok _ => 2
  | Ok g', Ok gi =>
      let big := (Pos.to_nat (next (hp st)) + length (c_after c) + 8)%nat in
      let roots := map (fun u => (u, u)) (c_univ c) ++ [(g', gi)] in
      match iso n0 (cells (hp st)) (fun x => assoc x (c_after c)) big roots with
      | None => 3
      | Some l =>
          (* sortedness as seen by the run of the model = sortedness computed on the implementation
             (only Graph.clone keeps its own passed list; sub-cloners of Model.clone restart the map) *)
          if (match c_kind c with
              | 0%nat | 1%nat => negb (Bool.eqb (no_use_before_def st) (c_sorted c))
              | _ => false end) then 4
          else if negb (list_eqb N.eqb (c_proto c) [0%N]) &&
                  negb (list_eqb N.eqb (proj_root (match c_kind c with 1%nat => 0%nat | k => k end)
                                                   (cells (hp st)) (Pos.to_nat (next (hp st))) g')
                                 (c_proto_clone c)) then 8
          else
            match run_ops (hp st) (bwd l) (c_ops c) with
            | None => 5
            | Some hf =>
                let big2 := (Pos.to_nat (next hf) + length (c_final c) + 8)%nat in
                match iso n0 (cells hf) (fun x => assoc x (c_final c)) big2 roots with
                | None => 6
                | Some _ => 0
                end
            end
      end
  end.

Fixpoint codes_from (l : list case) (i : nat) : list nat :=
  match l with
  | [] => []
  | c :: r => match code c with
              | O => codes_from r (S i)
              | k => (i * 10 + k)%nat :: codes_from r (S i)
              end
  end.
Definition codes (l : list case) : list nat := codes_from l 0.

(* C13/Proofs8.v — consequences for the clone() entry points: frame, freshness, closure, faithfulness. *)
From Coq Require Import List ZArith NArith PArith Bool Lia.
From IRV Require Import Base.Exn C13.Model C13.Proofs1 C13.Proofs2 C13.Proofs3 C13.Proofs4 C13.Proofs5
     C13.Proofs6 C13.Proofs7.
Import ListNotations.
Local Open Scope positive_scope.

(* reachable from r through cells allocated at or after n0 (the walk does not continue below n0) *)
Inductive reach (h : id -> option cell) (n0 : id) : id -> id -> Prop :=
| reach_refl r : reach h n0 r r
| reach_step r y c x : reach h n0 r y -> n0 <= y -> h y = Some c -> In x (links c) -> reach h n0 r x.

Definition in_dom (v : id) (st : cst) : Prop := assoc v (vmap st) <> None.

Lemma in_dom_le v st st' : le st st' -> in_dom v st -> in_dom v st'.
Proof. intros (_ & H & _) Hv. apply H, Hv. Qed.

Section Top.
  Variables allow deep : bool.
  Variable h0 : heap.
  Hypothesis Hcl0 : closed h0.
  Notation n0 := (next h0).
  Notation WF := (dicts_wf h0).
  Notation good := (good allow deep h0).

  (* ---------- the value map ends up defined on every value the graph owns *)
  Lemma mapM_dom {A B} (f : A -> M B) (D : A -> list id) (P : A -> Prop) :
    (forall x, mono (f x)) ->
    (forall x st st' b, P x -> good st -> f x st = (st', Ok b) ->
                        good st' /\ forall v, In v (D x) -> in_dom v st') ->
    forall l st st' bs, Forall P l -> good st -> mapM f l st = (st', Ok bs) ->
                        good st' /\ forall v, In v (flat_map D l) -> in_dom v st'.
  Proof.
    intros Hm Hs. induction l as [|x l IH]; intros st st' bs HP G H.
    - apply mapM_ok_nil in H. destruct H; subst. split; [exact G|intros v []].
    - apply mapM_ok_cons in H. destruct H as (st1 & b & bs' & H1 & H2 & ->).
      inversion HP; subst. destruct (Hs _ _ _ _ H3 G H1) as [G1 D1].
      destruct (IH _ _ _ H4 G1 H2) as [G' D']. split; [exact G'|]. intros v Hv. simpl in Hv.
      apply in_app_or in Hv. destruct Hv as [Hv|Hv]; [|apply D', Hv].
      eapply in_dom_le; [|apply D1, Hv]. eapply mono_mapM; [exact Hm|exact H2].
  Qed.

  Lemma clone_or_get_value_dom st st' v c :
    good st -> v < n0 -> clone_or_get_value deep v st = (st', Ok c) ->
    good st' /\ forall w, In w [v] -> in_dom w st'.
  Proof.
    intros G Hv H. split; [apply (clone_or_get_value_ok allow deep h0 Hcl0 _ _ _ _ G Hv H)|].
    intros w [<-|[]]. unfold clone_or_get_value in H. bind_as H s k E. unfold vmap_get in E. injection E as <- <-.
    unfold in_dom. destruct (assoc v (vmap st)) as [k|] eqn:Ea.
    - unfold ret in H. injection H as <- _. rewrite Ea. discriminate.
    - bind_as H s1 c1 E1. bind_as H s2 u E2. unfold vmap_set in E2. injection E2 as <- _.
      unfold ret in H. injection H as <- _. simpl. rewrite Pos.eqb_refl. discriminate.
  Qed.

  Lemma clone_output_dom st st' v c :
    good st -> v < n0 -> clone_output deep v st = (st', Ok c) ->
    good st' /\ forall w, In w [v] -> in_dom w st'.
  Proof.
    intros G Hv H. split; [apply (clone_output_ok allow deep h0 Hcl0 _ _ _ _ G Hv H)|].
    intros w [<-|[]]. unfold clone_output in H.
    bind_as H s1 c1 E1. bind_as H s2 u E2. unfold vmap_set in E2. injection E2 as <- _.
    unfold ret in H. injection H as <- _. unfold in_dom. simpl. rewrite Pos.eqb_refl. discriminate.
  Qed.

  Lemma flat_map_single (l : list id) : flat_map (fun v => [v]) l = l.
  Proof. induction l; simpl; [reflexivity|]. f_equal. assumption. Qed.

  Definition RecDom (rec : id -> M id) (k : nat) : Prop :=
    forall g st st' g', g < n0 -> good st -> rec g st = (st', Ok g') ->
                        forall v, In v (owned (cells h0) k g) -> in_dom v st'.

  Section WithRec.
    Variable rec : id -> M id.
    Variable k : nat.
    Hypothesis HR : RecSpec allow deep h0 rec.
    Hypothesis HD : RecDom rec k.

    Lemma clone_attr_dom st st' ka a' :
      good st -> attr_pre h0 ka -> clone_attr rec ka st = (st', Ok a') ->
      good st' /\ forall v, In v (attr_owned (cells h0) (owned (cells h0) k) (snd ka)) -> in_dom v st'.
    Proof.
      intros G Hp H. split; [apply (clone_attr_ok allow deep h0 Hcl0 rec HR _ _ _ _ G Hp H)|].
      destruct Hp as [Hold _]. unfold clone_attr in H. bind_as H s a E. apply get_attr_ok in E.
      destruct E as [-> E]. rewrite (old_cell _ _ _ _ _ G Hold) in E.
      assert (HL : forall y, In y (links (CAttr a)) -> y < n0) by (intros y; apply (proj2 (Hcl0 _ _ E))).
      unfold attr_owned. rewrite E. intros v Hv.
      destruct (a_val a) as [t tok|t r|g|gs|tt0] eqn:Ev; simpl in Hv; try contradiction.
      - rewrite app_nil_r in Hv. bind_as H s1 g' E1.
        assert (Hg : g < n0). { apply HL. simpl. rewrite Ev. simpl. auto. }
        eapply in_dom_le; [eapply mono_alloc; exact H|]. eapply HD; eassumption.
      - bind_as H s1 gs' E1.
        assert (Hgs : Forall (fun g => g < n0) gs).
        { apply Forall_forall. intros g Hg. apply HL. simpl. rewrite Ev. simpl. rewrite app_nil_r. exact Hg. }
        destruct (mapM_dom rec (owned (cells h0) k) (fun g => g < n0) (proj1 HR)
                    (fun x s s' b Hx Gs Hs => conj (proj1 (proj2 HR x s s' b Hx Gs Hs)) (HD x s s' b Hx Gs Hs))
                    _ _ _ _ Hgs G E1) as [_ D].
        eapply in_dom_le; [eapply mono_alloc; exact H|]. apply D, Hv.
    Qed.

    Lemma clone_node_dom st st' n n' :
      good st -> n < n0 -> clone_node allow deep rec n st = (st', Ok n') ->
      good st' /\ forall v, In v (node_owned (cells h0) (owned (cells h0) k) n) -> in_dom v st'.
    Proof.
      intros G Hn H. split; [apply (clone_node_ok allow deep h0 Hcl0 rec HR _ _ _ _ G Hn H)|].
      unfold clone_node in H. bind_as H s x E. apply get_node_ok in E. destruct E as [-> E].
      rewrite (old_cell _ _ _ _ _ G Hn) in E.
      assert (HL : forall y, In y (links (CNode x)) -> y < n0) by (intros y; apply (proj2 (Hcl0 _ _ E))).
      bind_as H s1 ins E1. bind_as H s2 ats E2. bind_as H s3 atn E3. bind_as H s4 mp E4.
      bind_as H s5 me E5. bind_as H s6 outs E6.
      destruct (mapM_good allow deep h0 (clone_input allow) (IR deep h0) (fun i => forall v, i = Some v -> v < n0)
                  (mono_clone_input allow)
                  (fun i s s' b Hi Gs Hs => clone_input_ok allow deep h0 s s' i b Gs Hi Hs)
                  (fun i b s s' Gs Ls HR' => IR_le allow deep h0 s s' i b Gs Ls HR')
                  _ _ _ _
                  (proj2 (Forall_forall _ _) (fun i Hi v Hv => HL v (lk_n_input x i v Hi Hv))) G E1)
        as [G1 _].
      assert (Hpre : Forall (attr_pre h0) (n_attrs x)).
      { apply Forall_forall. intros ka Hka. split; [apply HL, lk_n_attr, Hka|].
        intros W. apply (proj2 (W _ _ E)). exact Hka. }
      destruct (mapM_dom (clone_attr rec) (fun ka => attr_owned (cells h0) (owned (cells h0) k) (snd ka))
                  (attr_pre h0) (mono_clone_attr rec (proj1 HR))
                  (fun ka s s' b Hk Gs Hs => clone_attr_dom s s' ka b Gs Hk Hs)
                  _ _ _ _ Hpre G1 E2) as [G2 D2].
      apply mapM_attr_name_of in E3. destruct E3 as [-> _].
      destruct (clone_dict_ok _ _ _ _ _ _ _ G2 (HL _ (lk_n_mp x)) E4) as (G4 & _).
      destruct (clone_meta_ok allow deep h0 Hcl0 _ _ _ _ G4 (HL _ (lk_n_meta x)) E5) as (G5 & _).
      destruct (mapM_dom (clone_output deep) (fun v => [v]) (fun o => o < n0) (mono_clone_output deep)
                  (fun o s s' b Ho Gs Hs => clone_output_dom s s' o b Gs Ho Hs)
                  _ _ _ _ (proj2 (Forall_forall _ _) (fun o Ho => HL o (lk_n_output x o Ho))) G5 E6) as [G6 D6].
      rewrite flat_map_single in D6.
      assert (L24 : le s2 s4) by (eapply mono_clone_dict; exact E4).
      assert (L45 : le s4 s5) by (eapply mono_clone_meta; exact E5).
      assert (L56 : le s5 s6) by (eapply mono_mapM; [intros; apply mono_clone_output|exact E6]).
      assert (L6 : le s6 st') by (eapply mono_finish_node; exact H).
      intros v Hv. unfold node_owned in Hv. rewrite E in Hv. apply in_app_or in Hv. destruct Hv as [Hv|Hv].
      - eapply in_dom_le; [|apply D2, Hv]. eapply le_trans; [exact L24|]. eapply le_trans; [exact L45|].
        eapply le_trans; eassumption.
      - eapply in_dom_le; [exact L6|]. apply D6, Hv.
    Qed.

    Lemma clone_graph_body_dom st st' g g' :
      good st -> g < n0 -> clone_graph_body allow deep rec g st = (st', Ok g') ->
      forall v, In v (owned_body (cells h0) (owned (cells h0) k) g) -> in_dom v st'.
    Proof.
      intros G Hg H. unfold clone_graph_body in H.
      bind_as H s x E. apply get_graph_ok in E. destruct E as [-> E].
      rewrite (old_cell _ _ _ _ _ G Hg) in E.
      assert (HL : forall y, In y (links (CGraph x)) -> y < n0) by (intros y; apply (proj2 (Hcl0 _ _ E))).
      bind_as H s1 ins E1. bind_as H s2 inits E2. bind_as H s3 nodes E3.
      destruct (mapM_dom (clone_or_get_value deep) (fun v => [v]) (fun o => o < n0)
                  (mono_clone_or_get_value deep)
                  (fun o s s' b Ho Gs Hs => clone_or_get_value_dom s s' o b Gs Ho Hs)
                  _ _ _ _ (proj2 (Forall_forall _ _) (fun o Ho => HL o (lk_g_input x o Ho))) G E1) as [G1 D1].
      assert (Hinits : Forall (fun o => o < n0) (map snd (g_inits x))).
      { apply Forall_forall. intros o Ho. apply in_map_iff in Ho. destruct Ho as (kv & <- & Hkv).
        apply HL, lk_g_init, Hkv. }
      destruct (mapM_dom (clone_or_get_value deep) (fun v => [v]) (fun o => o < n0)
                  (mono_clone_or_get_value deep)
                  (fun o s s' b Ho Gs Hs => clone_or_get_value_dom s s' o b Gs Ho Hs)
                  _ _ _ _ Hinits G1 E2) as [G2 D2].
      destruct (mapM_dom (clone_node allow deep rec) (node_owned (cells h0) (owned (cells h0) k)) (fun n => n < n0)
                  (mono_clone_node allow deep rec (proj1 HR))
                  (fun n s s' b Hn Gs Hs => clone_node_dom s s' n b Gs Hn Hs)
                  _ _ _ _ (proj2 (Forall_forall _ _) (fun n Hn => HL n (lk_g_node x n Hn))) G2 E3) as [G3 D3].
      rewrite flat_map_single in D1, D2.
      assert (L12 : le s1 s2) by (eapply mono_mapM; [intros; apply mono_clone_or_get_value|exact E2]).
      assert (L23 : le s2 s3) by (eapply mono_mapM; [intros; apply mono_clone_node, (proj1 HR)|exact E3]).
      assert (L3 : le s3 st').
      { revert H. apply mono_bind; [apply mono_mapM; intros; apply mono_get_mapped|intros outs].
        apply mono_bind; [apply mono_check_passed|intros u0].
        apply mono_bind; [apply mono_mapM; intros; apply mono_value_name_of|intros keys].
        apply mono_bind; [apply mono_clone_dict|intros ops]. apply mono_bind; [apply mono_clone_dict|intros mp].
        apply mono_bind; [apply mono_clone_meta|intros me]. apply mono_alloc. }
      intros v Hv. unfold owned_body in Hv. rewrite E in Hv.
      apply in_app_or in Hv. destruct Hv as [Hv|Hv].
      - eapply in_dom_le; [|apply D1, Hv]. eapply le_trans; [exact L12|]. eapply le_trans; eassumption.
      - apply in_app_or in Hv. destruct Hv as [Hv|Hv].
        + eapply in_dom_le; [|apply D2, Hv]. eapply le_trans; eassumption.
        + eapply in_dom_le; [exact L3|]. apply D3, Hv.
    Qed.
  End WithRec.

  Lemma clone_graph_dom fuel : forall k, RecDom (clone_graph allow deep fuel) k.
  Proof.
    induction fuel as [|f IH]; intros k g st st' g' Hg G H v Hv; simpl in H; [discriminate|].
    destruct k as [|k]; simpl in Hv; [destruct Hv|].
    eapply (clone_graph_body_dom (clone_graph allow deep f) k (clone_graph_spec allow deep h0 Hcl0 f) (IH k));
      eassumption.
  Qed.

  (* ---------- Graph.clone / GraphView.clone *)
  Section GraphClone.
    Variables (fuel : nat) (g : id) (st : cst) (r : res id).
    Hypothesis Hg : g < n0.
    Hypothesis Hrun : clone_graph allow deep fuel g (init_st h0) = (st, r).

    Lemma graph_clone_frame : forall x, x < n0 -> cells (hp st) x = cells h0 x.
    Proof.
      intros x Hx. apply mono_clone_graph in Hrun. destruct Hrun as [[_ H] _]. apply H. exact Hx.
    Qed.

    Lemma graph_clone_good g' : r = Ok g' -> good st /\ GR h0 st g g'.
    Proof.
      intros ->. apply (proj2 (clone_graph_spec allow deep h0 Hcl0 fuel) g _ _ _ Hg (good_init allow deep h0 Hcl0) Hrun).
    Qed.

    Lemma graph_clone_fresh g' x :
      r = Ok g' -> reach (cells (hp st)) n0 g' x -> n0 <= x \/ allowed deep h0 st x.
    Proof.
      intros Hr Hx. destruct (graph_clone_good g' Hr) as [G [F _]].
      induction Hx as [|r' y c x Hy IH Hny Hc Hin].
      - left. apply F.
      - apply (g_links _ _ _ _ G y c Hny Hc x Hin).
    Qed.

    Lemma graph_clone_passed_flag g' v : r = Ok g' -> In v (passed st) -> allow = true.
    Proof. intros Hr. destruct (graph_clone_good g' Hr) as [G _]. apply (g_passed _ _ _ _ G). Qed.

    Lemma graph_clone_faithful g' :
      r = Ok g' -> WF -> forall k, gcanon (cells (hp st)) k g' = gcanon (cells h0) k g.
    Proof. intros Hr W. destruct (graph_clone_good g' Hr) as [_ [_ C]]. apply C, W. Qed.

    Lemma graph_clone_owned_mapped g' k v :
      r = Ok g' -> In v (owned (cells h0) k g) -> assoc v (vmap st) <> None.
    Proof.
      intros -> Hv. apply (clone_graph_dom fuel k g _ _ _ Hg (good_init allow deep h0 Hcl0) Hrun v Hv).
    Qed.

    Lemma graph_clone_closed g' x :
      r = Ok g' ->
      (forall v, In v (passed st) \/ In v (kept st) -> assoc v (vmap st) = None) ->
      reach (cells (hp st)) n0 g' x -> x < n0 ->
      (exists a, cells h0 x = Some (CAttr a) /\ shared_attr a) \/
      (deep = false /\ exists m md k, cells h0 m = Some (CMeta md) /\ In (k, MObj x) (m_data md)) \/
      (exists o v0, cells h0 o = Some (CValue v0) /\ v_const v0 = Some x) \/
      ((In x (passed st) \/ In x (kept st)) /\ forall k, ~ In x (owned (cells h0) k g)).
    Proof.
      intros Hr Hs Hx Hlt. destruct (graph_clone_fresh g' x Hr Hx) as [K|[_ K]]; [lia|].
      destruct K as [K|[K|[K|[K|K]]]]; [left; exact K|right; left; exact K| | |right; right; left; exact K].
      - do 3 right. split; [left; exact K|]. intros k Hin. apply (graph_clone_owned_mapped g' k x Hr Hin). apply Hs. left. exact K.
      - do 3 right. split; [right; exact K|]. intros k Hin. apply (graph_clone_owned_mapped g' k x Hr Hin). apply Hs. right. exact K.
    Qed.
  End GraphClone.
End Top.

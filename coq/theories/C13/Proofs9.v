(* C13/Proofs9.v — footprint of the public setters and separation: an operation applied to objects of one side
   writes only cells of that side, and keeps the two sides separated. *)
From Coq Require Import List ZArith NArith PArith Bool Lia.
From IRV Require Import Base.Exn C13.Model C13.Proofs1 C13.Proofs2 C13.Proofs3.
Import ListNotations.
Local Open Scope positive_scope.

(* every sub-object an object owns lies on the object's own side *)
Definition sep (col : id -> bool) (h : heap) : Prop :=
  forall x c, cells h x = Some c -> forall y, In y (own_links c) -> col y = col x.

Section Step.
  Variable col : id -> bool.
  Variable s : bool.

  Definition inv (h : heap) : Prop := closed h /\ sep col h /\ forall x, next h <= x -> col x = s.
  Definition frame (h h' : heap) : Prop :=
    next h <= next h' /\ forall x, col x <> s -> cells h' x = cells h x.

  Lemma frame_refl h : frame h h.
  Proof. split; [lia|reflexivity]. Qed.
  Lemma frame_trans a b c : frame a b -> frame b c -> frame a c.
  Proof. intros [H1 H2] [H3 H4]. split; [lia|]. intros x Hx. rewrite H4, H2; auto. Qed.

  Lemma write_step h x c c' :
    inv h -> cells h x = Some c -> col x = s ->
    (forall y, In y (links c') -> y < next h) -> (forall y, In y (own_links c') -> col y = s) ->
    inv (hwrite h x c') /\ frame h (hwrite h x c').
  Proof.
    intros (Hc & Hs & Hn) Hx Hcol Hl Ho. split; [split; [|split]|split].
    - intros z cz Hz. unfold hwrite in *. simpl in *. unfold upd in Hz.
      destruct (Pos.eqb_spec z x) as [->|Hne].
      + injection Hz as <-. split; [apply (proj1 (Hc _ _ Hx))|exact Hl].
      + apply (Hc _ _ Hz).
    - intros z cz Hz y Hy. unfold hwrite in Hz. simpl in Hz. unfold upd in Hz.
      destruct (Pos.eqb_spec z x) as [->|Hne].
      + injection Hz as <-. rewrite Hcol. apply Ho, Hy.
      + apply (Hs _ _ Hz y Hy).
    - exact Hn.
    - simpl. lia.
    - intros z Hz. unfold hwrite. simpl. apply upd_other. intros ->. contradiction.
  Qed.

  Lemma alloc_step h c :
    inv h -> (forall y, In y (links c) -> y < next h) -> (forall y, In y (own_links c) -> col y = s) ->
    inv (fst (halloc h c)) /\ frame h (fst (halloc h c)) /\ col (next h) = s /\
    cells (fst (halloc h c)) (next h) = Some c /\ next (fst (halloc h c)) = Pos.succ (next h) /\
    (forall x, x < next h -> cells (fst (halloc h c)) x = cells h x).
  Proof.
    intros (Hc & Hs & Hn) Hl Ho. unfold halloc. simpl.
    assert (Hcol : col (next h) = s) by (apply Hn; lia).
    split; [split; [|split]|split; [split|split; [|split; [|split]]]].
    - intros z cz Hz. simpl in *. unfold upd in Hz. destruct (Pos.eqb_spec z (next h)) as [->|Hne].
      + injection Hz as <-. split; [lia|]. intros y Hy. apply Hl in Hy. lia.
      + destruct (Hc _ _ Hz) as [H1 H2]. split; [lia|]. intros y Hy. apply H2 in Hy. lia.
    - intros z cz Hz y Hy. simpl in Hz. unfold upd in Hz. destruct (Pos.eqb_spec z (next h)) as [->|Hne].
      + injection Hz as <-. rewrite Hcol. apply Ho, Hy.
      + apply (Hs _ _ Hz y Hy).
    - simpl. intros x Hx. apply Hn. lia.
    - simpl. lia.
    - intros z Hz. simpl. apply upd_other. intros ->. contradiction.
    - exact Hcol.
    - apply upd_same.
    - reflexivity.
    - intros x Hx. apply upd_other. lia.
  Qed.

  (* the named output values of an appended node *)
  Lemma alloc_values_cons h nm r :
    alloc_values h (nm :: r) =
    (fst (alloc_values (fst (halloc (fst (halloc (fst (halloc h (CDict []))) (CMeta meta_empty)))
                                   (CValue (Val (Some nm) None None None None (next h) (Pos.succ (next h)))))) r),
     Pos.succ (Pos.succ (next h)) ::
     snd (alloc_values (fst (halloc (fst (halloc (fst (halloc h (CDict []))) (CMeta meta_empty)))
                                   (CValue (Val (Some nm) None None None None (next h) (Pos.succ (next h)))))) r)).
  Proof.
    simpl. destruct (alloc_values _ r). reflexivity.
  Qed.

  Lemma alloc_values_step names : forall h,
    inv h ->
    inv (fst (alloc_values h names)) /\ frame h (fst (alloc_values h names)) /\
    (forall y, In y (snd (alloc_values h names)) -> y < next (fst (alloc_values h names))) /\
    (forall x, x < next h -> cells (fst (alloc_values h names)) x = cells h x).
  Proof.
    induction names as [|nm r IH]; intros h I.
    - simpl. split; [exact I|]. split; [apply frame_refl|]. split; [intros y []|reflexivity].
    - rewrite alloc_values_cons.
      destruct (alloc_step h (CDict []) I) as (I1 & F1 & C1 & _ & N1 & A1); try (intros y []).
      set (h1 := fst (halloc h (CDict []))) in *.
      destruct (alloc_step h1 (CMeta meta_empty) I1) as (I2 & F2 & C2 & _ & N2 & A2); try (intros y []).
      set (h2 := fst (halloc h1 (CMeta meta_empty))) in *.
      set (cv := CValue (Val (Some nm) None None None None (next h) (Pos.succ (next h)))).
      destruct (alloc_step h2 cv I2) as (I3 & F3 & C3 & _ & N3 & A3).
      + intros y Hy. simpl in Hy. destruct Hy as [<-|[<-|[]]]; lia.
      + intros y Hy. simpl in Hy. destruct Hy as [<-|[<-|[]]]; [exact C1|]. rewrite <- N1. exact C2.
      + set (h3 := fst (halloc h2 cv)) in *.
        destruct (IH h3 I3) as (I4 & F4 & L4 & A4). cbn [fst snd].
        split; [exact I4|]. split; [|split].
        * eapply frame_trans; [exact F1|]. eapply frame_trans; [exact F2|]. eapply frame_trans; [exact F3|exact F4].
        * intros y [<-|Hy]; [|apply L4, Hy]. destruct F4 as [F4 _]. lia.
        * intros x Hx. rewrite A4 by lia. rewrite A3 by lia. rewrite A2 by lia. apply A1. exact Hx.
  Qed.
End Step.

(* C13/Proofs2.v — observations read only what is reachable: if two heaps agree on a set of ids that is closed
   under links, the canonical serialization of every object in the set is the same in both. *)
From Coq Require Import List ZArith NArith PArith Bool Lia.
From IRV Require Import Base.Exn C13.Model C13.Proofs1.
Import ListNotations.
Local Open Scope positive_scope.

Lemma in_oid x o : In x (oid o) <-> o = Some x.
Proof.
  destruct o as [y|]; simpl; split; intros H.
  - destruct H as [H|[]]. subst. reflexivity.
  - inversion H. left. reflexivity.
  - destruct H.
  - discriminate.
Qed.

(* membership in [links] *)
Lemma lk_v_type v x : v_type v = Some x -> In x (links (CValue v)).
Proof. intros H. unfold links. apply in_or_app. left. apply in_oid. exact H. Qed.
Lemma lk_v_shape v x : v_shape v = Some x -> In x (links (CValue v)).
Proof. intros H. unfold links. apply in_or_app. right. apply in_or_app. left. apply in_oid. exact H. Qed.
Lemma lk_v_mp v : In (v_mp v) (links (CValue v)).
Proof. unfold links. apply in_or_app. right. apply in_or_app. right. apply in_or_app. left. simpl. auto. Qed.
Lemma lk_v_meta v : In (v_meta v) (links (CValue v)).
Proof. unfold links. apply in_or_app. right. apply in_or_app. right. apply in_or_app. left. simpl. auto. Qed.
Lemma lk_v_const v x : v_const v = Some x -> In x (links (CValue v)).
Proof. intros H. unfold links. do 3 (apply in_or_app; right). apply in_oid. exact H. Qed.
Lemma lk_a_graph a g : In g (attrv_ids (a_val a)) -> In g (links (CAttr a)).
Proof. intros H. unfold links. apply in_or_app. left. exact H. Qed.
Lemma lk_a_tensor a t : a_val a = ATensor t -> In t (links (CAttr a)).
Proof. intros H. unfold links. rewrite H. simpl. auto. Qed.
Lemma lk_n_input n i x : In i (n_inputs n) -> i = Some x -> In x (links (CNode n)).
Proof.
  intros H E. unfold links. apply in_or_app. left. apply in_flat_map. exists i. split; [exact H|].
  apply in_oid. exact E.
Qed.
Lemma lk_n_output n x : In x (n_outputs n) -> In x (links (CNode n)).
Proof. intros H. unfold links. apply in_or_app. right. apply in_or_app. left. exact H. Qed.
Lemma lk_n_attr n ka : In ka (n_attrs n) -> In (snd ka) (links (CNode n)).
Proof.
  intros H. unfold links. apply in_or_app. right. apply in_or_app. right. apply in_or_app. left.
  apply in_map. exact H.
Qed.
Lemma lk_n_mp n : In (n_mp n) (links (CNode n)).
Proof. unfold links. do 3 (apply in_or_app; right). apply in_or_app. left. simpl. auto. Qed.
Lemma lk_n_meta n : In (n_meta n) (links (CNode n)).
Proof. unfold links. do 3 (apply in_or_app; right). apply in_or_app. left. simpl. auto. Qed.
Lemma lk_n_dev n d y : In d (n_dev n) -> In y (dev_ids d) -> In y (links (CNode n)).
Proof.
  intros H Hy. unfold links. do 4 (apply in_or_app; right). apply in_flat_map. exists d. split; assumption.
Qed.
Lemma lk_g_input g x : In x (g_inputs g) -> In x (links (CGraph g)).
Proof. intros H. unfold links. apply in_or_app. left. exact H. Qed.
Lemma lk_g_output g x : In x (g_outputs g) -> In x (links (CGraph g)).
Proof. intros H. unfold links. apply in_or_app. right. apply in_or_app. left. exact H. Qed.
Lemma lk_g_init g kv : In kv (g_inits g) -> In (snd kv) (links (CGraph g)).
Proof.
  intros H. unfold links. do 2 (apply in_or_app; right). apply in_or_app. left. apply in_map. exact H.
Qed.
Lemma lk_g_node g x : In x (g_nodes g) -> In x (links (CGraph g)).
Proof. intros H. unfold links. do 3 (apply in_or_app; right). apply in_or_app. left. exact H. Qed.
Lemma lk_g_opset g : In (g_opset g) (links (CGraph g)).
Proof. unfold links. do 4 (apply in_or_app; right). simpl. auto. Qed.
Lemma lk_g_mp g : In (g_mp g) (links (CGraph g)).
Proof. unfold links. do 4 (apply in_or_app; right). simpl. auto. Qed.
Lemma lk_g_meta g : In (g_meta g) (links (CGraph g)).
Proof. unfold links. do 4 (apply in_or_app; right). simpl. auto. Qed.
Lemma lk_m_obj m k o : In (k, MObj o) (m_data m) -> In o (links (CMeta m)).
Proof.
  intros H. unfold links. apply in_flat_map. exists (k, MObj o). split; [exact H|]. simpl. auto.
Qed.

Section Stable.
  Variables h h' : id -> option cell.
  Variable S : id -> Prop.
  Hypothesis Hcl : forall x c, S x -> h x = Some c -> forall y, In y (links c) -> S y.
  Hypothesis Hag : forall x, S x -> h' x = h x.

  Lemma dict_canon_st d : S d -> dict_canon h' d = dict_canon h d.
  Proof. intros H. unfold dict_canon. rewrite Hag by exact H. reflexivity. Qed.

  Lemma meta_canon_st m : S m -> meta_canon h' m = meta_canon h m.
  Proof.
    intros H. unfold meta_canon. rewrite Hag by exact H.
    destruct (h m) as [[]|] eqn:E; try reflexivity.
    f_equal. f_equal. apply map_ext_in. intros [k v] Hin. unfold mval_canon. simpl.
    destruct v as [z|o]; [reflexivity|].
    rewrite Hag; [reflexivity|]. apply (Hcl m _ H E). eapply lk_m_obj. exact Hin.
  Qed.

  Lemma type_canon_st t : (forall x, t = Some x -> S x) -> type_canon h' t = type_canon h t.
  Proof. intros H. destruct t as [x|]; simpl; [|reflexivity]. rewrite Hag by (apply H; reflexivity). reflexivity. Qed.

  Lemma shape_canon_st t : (forall x, t = Some x -> S x) -> shape_canon h' t = shape_canon h t.
  Proof. intros H. destruct t as [x|]; simpl; [|reflexivity]. rewrite Hag by (apply H; reflexivity). reflexivity. Qed.

  Lemma vcanon_st v : S v -> vcanon h' v = vcanon h v.
  Proof.
    intros H. unfold vcanon. rewrite Hag by exact H.
    destruct (h v) as [[x| | | | | | | | | | |]|] eqn:E; try reflexivity.
    assert (HL := Hcl v _ H E).
    rewrite type_canon_st, shape_canon_st, dict_canon_st, meta_canon_st; try reflexivity.
    - apply HL, lk_v_meta.
    - apply HL, lk_v_mp.
    - intros y Hy. apply HL, lk_v_shape, Hy.
    - intros y Hy. apply HL, lk_v_type, Hy.
  Qed.

  Lemma vref_st v : S v -> vref h' v = vref h v.
  Proof. intros H. unfold vref. rewrite Hag by exact H. reflexivity. Qed.

  Lemma iref_st i : (forall x, i = Some x -> S x) -> iref h' i = iref h i.
  Proof. intros H. destruct i as [x|]; simpl; [|reflexivity]. rewrite vref_st by (apply H; reflexivity). reflexivity. Qed.

  Lemma acanon_st rec rec' a :
    S a -> (forall g, S g -> rec' g = rec g) -> acanon h' rec' a = acanon h rec a.
  Proof.
    intros H Hr. unfold acanon. rewrite Hag by exact H.
    destruct (h a) as [[| | | | | | |x| | | |]|] eqn:E; try reflexivity.
    assert (HL := Hcl a _ H E). simpl in HL.
    destruct (a_val x) as [t tok|t r|g|gs|t] eqn:Ev; try reflexivity.
    - rewrite Hr; [reflexivity|]. apply HL. simpl. auto.
    - f_equal. apply map_ext_in. intros g Hg. apply Hr. apply HL. simpl. rewrite app_nil_r. exact Hg.
    - rewrite Hag; [reflexivity|]. apply HL. simpl. auto.
  Qed.

  Lemma dev_canon_st d : (forall y, In y (dev_ids d) -> S y) -> dev_canon h' d = dev_canon h d.
  Proof.
    intros H. unfold dev_canon. f_equal. apply map_ext_in. intros s Hs. f_equal.
    apply iref_st. intros y Hy. apply H. unfold dev_ids. apply in_flat_map. exists s. split; [exact Hs|].
    apply in_oid. exact Hy.
  Qed.

  Lemma ncanon_st rec rec' n :
    S n -> (forall g, S g -> rec' g = rec g) -> ncanon h' rec' n = ncanon h rec n.
  Proof.
    intros H Hr. unfold ncanon. rewrite Hag by exact H.
    destruct (h n) as [[|x| | | | | | | | | |]|] eqn:E; try reflexivity.
    assert (HL := Hcl n _ H E).
    assert (Hin : forall i, In i (n_inputs x) -> iref h' i = iref h i).
    { intros i Hi. apply iref_st. intros y Hy. apply HL. eapply lk_n_input; eassumption. }
    assert (Hout : forall o, In o (n_outputs x) -> vcanon h' o = vcanon h o).
    { intros o Ho. apply vcanon_st. apply HL, lk_n_output, Ho. }
    assert (Hat : forall ka, In ka (n_attrs x) -> acanon h' rec' (snd ka) = acanon h rec (snd ka)).
    { intros ka Hka. apply acanon_st; [|exact Hr]. apply HL, lk_n_attr, Hka. }
    assert (Hdv : forall d, In d (n_dev x) -> dev_canon h' d = dev_canon h d).
    { intros d Hd. apply dev_canon_st. intros y Hy. apply HL. eapply lk_n_dev; eassumption. }
    rewrite (map_ext_in _ _ _ Hin), (map_ext_in _ _ _ Hout), (map_ext_in _ _ _ Hat), (map_ext_in _ _ _ Hdv).
    rewrite dict_canon_st, meta_canon_st; try reflexivity.
    - apply HL, lk_n_meta.
    - apply HL, lk_n_mp.
  Qed.

  Lemma gcanon_body_st rec rec' g :
    S g -> (forall x, S x -> rec' x = rec x) -> gcanon_body h' rec' g = gcanon_body h rec g.
  Proof.
    intros H Hr. unfold gcanon_body. rewrite Hag by exact H.
    destruct (h g) as [[| |x| | | | | | | | |]|] eqn:E; try reflexivity.
    assert (HL := Hcl g _ H E).
    assert (H1 : forall v, In v (g_inputs x) -> vcanon h' v = vcanon h v).
    { intros v Hv. apply vcanon_st, HL, lk_g_input, Hv. }
    assert (H2 : forall v, In v (g_outputs x) -> vref h' v = vref h v).
    { intros v Hv. apply vref_st, HL, lk_g_output, Hv. }
    assert (H3 : forall kv, In kv (g_inits x) -> vcanon h' (snd kv) = vcanon h (snd kv)).
    { intros kv Hv. apply vcanon_st, HL, lk_g_init, Hv. }
    assert (H4 : forall n, In n (g_nodes x) -> ncanon h' rec' n = ncanon h rec n).
    { intros n Hn. apply ncanon_st; [|exact Hr]. apply HL, lk_g_node, Hn. }
    rewrite (map_ext_in _ _ _ H1), (map_ext_in _ _ _ H2), (map_ext_in _ _ _ H3), (map_ext_in _ _ _ H4).
    rewrite !dict_canon_st, meta_canon_st; try reflexivity; apply HL;
      [apply lk_g_meta | apply lk_g_mp | apply lk_g_opset].
  Qed.

  Lemma gcanon_st fuel : forall g, S g -> gcanon h' fuel g = gcanon h fuel g.
  Proof.
    induction fuel as [|f IH]; intros g H; simpl; [reflexivity|].
    apply gcanon_body_st; [exact H|]. exact IH.
  Qed.

  Lemma fcanon_st fuel f : S f -> fcanon h' fuel f = fcanon h fuel f.
  Proof.
    intros H. unfold fcanon. rewrite Hag by exact H.
    destruct (h f) as [[| | | | | | | | |x| |]|] eqn:E; try reflexivity.
    assert (HL := Hcl f _ H E). simpl in HL.
    rewrite gcanon_st by (apply HL; auto).
    assert (Hat : forall ka, In ka (f_attrs x) ->
                             acanon h' (gcanon h' fuel) (snd ka) = acanon h (gcanon h fuel) (snd ka)).
    { intros ka Hka. apply acanon_st; [|apply gcanon_st]. apply HL. right. apply in_map. exact Hka. }
    rewrite (map_ext_in _ _ _ Hat). reflexivity.
  Qed.

  Lemma mcanon_st fuel m : S m -> mcanon h' fuel m = mcanon h fuel m.
  Proof.
    intros H. unfold mcanon. rewrite Hag by exact H.
    destruct (h m) as [[| | | | | | | | | |x |]|] eqn:E; try reflexivity.
    assert (HL := Hcl m _ H E). simpl in HL.
    rewrite gcanon_st by (apply HL; auto).
    assert (Hf : forall f, In f (md_funcs x) -> fcanon h' fuel f = fcanon h fuel f).
    { intros f Hf. apply fcanon_st. apply HL. right. rewrite in_app_iff. left. exact Hf. }
    rewrite (map_ext_in _ _ _ Hf). rewrite dict_canon_st; [reflexivity|].
    apply HL. right. rewrite in_app_iff. right. simpl. auto.
  Qed.
End Stable.

(* C13/Proofs13.v — (model switch for proposed_fixes/C13-unsorted-use-before-def-raises.diff) an accepted clone has
   no passed-through value that also has a clone: the "defined before use" hypothesis of C13_closed is checked by
   the code itself. *)
From Coq Require Import List ZArith NArith PArith Bool Lia.
From IRV Require Import Base.Exn C13.Model C13.Proofs1 C13.Proofs2 C13.Proofs3 C13.Proofs4 C13.Proofs5
     C13.Proofs6 C13.Proofs7 C13.Proofs8 C13.Proofs9 C13.Proofs10 C13.Proofs11.
Import ListNotations.
Local Open Scope positive_scope.

Definition keeps {A} (m : M A) : Prop :=
  forall st st' r, m st = (st', r) -> vmap st' = vmap st /\ passed st' = passed st.

Lemma keeps_ret {A} (a : A) : keeps (ret a).
Proof. intros st st' r H. inversion H; subst. split; reflexivity. Qed.
Lemma keeps_raise {A} e : keeps (@raise A e).
Proof. intros st st' r H. inversion H; subst. split; reflexivity. Qed.
Lemma keeps_bind {A B} (m : M A) (f : A -> M B) : keeps m -> (forall a, keeps (f a)) -> keeps (bind m f).
Proof.
  intros Hm Hf st st' r H. apply bind_inv in H. destruct H as [(st1 & a & H1 & H2)|(e & H1 & _)].
  - destruct (Hm _ _ _ H1) as [A1 A2]. destruct (Hf a _ _ _ H2) as [B1 B2]. split; congruence.
  - apply (Hm _ _ _ H1).
Qed.
Lemma keeps_mapM {A B} (f : A -> M B) l : (forall x, keeps (f x)) -> keeps (mapM f l).
Proof.
  intros Hf. induction l as [|x l IH]; simpl; [apply keeps_ret|].
  apply keeps_bind; [apply Hf|]. intros y. apply keeps_bind; [apply IH|]. intros ys. apply keeps_ret.
Qed.
Lemma keeps_alloc c : keeps (alloc c).
Proof. intros st st' r H. unfold alloc in H. simpl in H. inversion H; subst. split; reflexivity. Qed.
Lemma keeps_get x : keeps (get x).
Proof. intros st st' r H. unfold get in H. destruct (cells (hp st) x); inversion H; subst; split; reflexivity. Qed.

Ltac keeps_tac :=
  repeat first [ apply keeps_ret | apply keeps_raise | apply keeps_alloc | apply keeps_get
               | apply keeps_bind; [|intros ?] | apply keeps_mapM; intros ?
               | match goal with |- keeps (match ?x with _ => _ end) => destruct x end ].

Lemma keeps_clone_dict d : keeps (clone_dict d). Proof. unfold clone_dict. keeps_tac. Qed.
Lemma keeps_clone_mval deep kv : keeps (clone_mval deep kv). Proof. unfold clone_mval. keeps_tac. Qed.
Lemma keeps_clone_meta deep m : keeps (clone_meta deep m).
Proof. unfold clone_meta. keeps_tac. apply keeps_clone_mval. Qed.
Lemma keeps_value_name_of a : keeps (value_name_of a).
Proof. unfold value_name_of, get_value. keeps_tac. Qed.

Lemma clone_graph_checked allow deep fuel g st st' g' :
  clone_graph allow deep fuel g st = (st', Ok g') ->
  forall v, In v (passed st') -> assoc v (vmap st') = None.
Proof.
  destruct fuel as [|f]; simpl; [discriminate|]. intros H. unfold clone_graph_body in H.
  bind_as H s x E. bind_as H s1 ins E1. bind_as H s2 inits E2. bind_as H s3 nodes E3. bind_as H s4 outs E4.
  bind_as H s4' u0 E4c. apply check_passed_ok in E4c. destruct E4c as [-> K].
  assert (Hk : vmap st' = vmap s4 /\ passed st' = passed s4).
  { revert H. apply keeps_bind; [apply keeps_mapM; intros; apply keeps_value_name_of|intros keys].
    apply keeps_bind; [apply keeps_clone_dict|intros ops]. apply keeps_bind; [apply keeps_clone_dict|intros mp].
    apply keeps_bind; [apply keeps_clone_meta|intros me]. apply keeps_alloc. }
  destruct Hk as [-> ->]. exact K.
Qed.

(* C13_closed without the "defined before use" hypothesis: for every ACCEPTED clone of a graph satisfying C19's
   invariant, every pre-existing cell reachable from the clone is a shared Attr, a shallow meta object, or a
   passed-through value that the cloned graph does not own *)
Theorem C13_closed_accepted :
  forall allow deep h fuel g st g',
    closed h -> g < next h -> wf_dev h -> graph_clone fuel allow deep g h = (st, Ok g') ->
    forall x, reach (cells (hp st)) (next h) g' x -> x < next h ->
      (exists a, cells h x = Some (CAttr a) /\ shared_attr a) \/
      (deep = false /\ exists m md k, cells h m = Some (CMeta md) /\ In (k, MObj x) (m_data md)) \/
      (exists o v0, cells h o = Some (CValue v0) /\ v_const v0 = Some x) \/
      (In x (passed st) /\ forall k, ~ In x (owned (cells h) k g)).
Proof.
  intros allow deep h fuel g st g' Hc Hg Hd Hr x Hx Hlt. unfold graph_clone in Hr.
  destruct (graph_clone_good allow deep h Hc fuel g st (Ok g') Hg Hr g' eq_refl) as [G _].
  assert (Hs : forall v, In v (passed st) \/ In v (kept st) -> assoc v (vmap st) = None).
  { intros v [Hv|Hv]; [|apply (g_kept _ _ _ _ G Hd) in Hv]; apply (clone_graph_checked _ _ _ _ _ _ _ Hr v Hv). }
  destruct (graph_clone_closed allow deep h Hc fuel g st (Ok g') Hg Hr g' x eq_refl Hs Hx Hlt) as [K|[K|[K|[K1 K2]]]];
    [left; exact K|right; left; exact K|right; right; left; exact K|right; right; right].
  split; [|exact K2]. destruct K1 as [K1|K1]; [exact K1|apply (g_kept _ _ _ _ G Hd), K1].
Qed.
Print Assumptions C13_closed_accepted.

(* the former witness of the defect is now rejected with and without the flag *)
Lemma C13_unsorted_rejected :
  snd (graph_clone 3 true false 19 wit_heap) = Raise RuntimeError /\
  snd (graph_clone 3 false false 19 wit_heap) = Raise RuntimeError.
Proof. split; vm_compute; reflexivity. Qed.

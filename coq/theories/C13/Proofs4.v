(* C13/Proofs4.v — the cloner's invariant, part 2: dictionaries, mapM, values, inputs. *)
From Coq Require Import List ZArith NArith PArith Bool Lia.
From IRV Require Import Base.Exn C13.Model C13.Proofs1 C13.Proofs2 C13.Proofs3.
Import ListNotations.
Local Open Scope positive_scope.

Ltac inv_bind H :=
  let st1 := fresh "st" in let a := fresh "a" in let H1 := fresh "H" in
  apply bind_ok in H; destruct H as (st1 & a & H1 & H).
Ltac bind_as H s a E := apply bind_ok in H; destruct H as (s & a & E & H).

(* ---------- python dicts *)
Section DictLemmas.
  Context {K V : Type} (eqb : K -> K -> bool).
  Hypothesis eqb_spec : forall a b, eqb a b = true <-> a = b.

  Lemma dict_set_in (k : K) (v : V) (d : list (K * V)) kv : In kv (dict_set eqb k v d) -> kv = (k, v) \/ In kv d.
  Proof.
    induction d as [|[k' v'] r IH]; simpl.
    - intros [H|[]]. left. symmetry. exact H.
    - destruct (eqb k k') eqn:E; simpl.
      + intros [H|H]; [left; symmetry; exact H|right; right; exact H].
      + intros [H|H]; [right; left; exact H|]. destruct (IH H) as [K1|K1]; [left; exact K1|right; right; exact K1].
  Qed.

  Lemma dict_set_fresh (k : K) (v : V) (d : list (K * V)) : ~ In k (map fst d) -> dict_set eqb k v d = d ++ [(k, v)].
  Proof.
    induction d as [|[k' v'] r IH]; simpl; intros H; [reflexivity|].
    destruct (eqb k k') eqn:E.
    - apply eqb_spec in E. subst. exfalso. apply H. left. reflexivity.
    - rewrite IH; [reflexivity|]. intros Hin. apply H. right. exact Hin.
  Qed.

  Lemma dict_of_in_gen (l : list (K * V)) : forall acc kv,
    In kv (fold_left (fun d kv => dict_set eqb (fst kv) (snd kv) d) l acc) -> In kv acc \/ In kv l.
  Proof.
    induction l as [|[k v] r IH]; simpl; intros acc kv H; [left; exact H|].
    apply IH in H. destruct H as [H|H]; [|right; right; exact H].
    apply dict_set_in in H. simpl in H. destruct H as [H|H]; [right; left; symmetry; exact H|left; exact H].
  Qed.
  Lemma dict_of_in (l : list (K * V)) kv : In kv (dict_of eqb l) -> In kv l.
  Proof. intros H. apply dict_of_in_gen in H. destruct H as [[]|H]. exact H. Qed.

  Lemma dict_of_nodup_gen (l : list (K * V)) : forall acc,
    NoDup (map fst (acc ++ l)) ->
    fold_left (fun d kv => dict_set eqb (fst kv) (snd kv) d) l acc = acc ++ l.
  Proof.
    induction l as [|[k v] r IH]; simpl; intros acc H; [rewrite app_nil_r; reflexivity|].
    rewrite dict_set_fresh.
    - rewrite IH; rewrite <- app_assoc; simpl; [reflexivity|exact H].
    - rewrite map_app in H. simpl in H. apply NoDup_remove_2 in H. intros Hin. apply H.
      apply in_or_app. left. exact Hin.
  Qed.
  Lemma dict_of_nodup (l : list (K * V)) : NoDup (map fst l) -> dict_of eqb l = l.
  Proof. intros H. unfold dict_of. rewrite dict_of_nodup_gen; [reflexivity|exact H]. Qed.
End DictLemmas.

Lemma N_eqb_spec' a b : N.eqb a b = true <-> a = b.
Proof. apply N.eqb_eq. Qed.
Lemma oname_eqb_spec a b : oname_eqb a b = true <-> a = b.
Proof.
  unfold oname_eqb. destruct a, b; simpl; split; intros H; try discriminate; try reflexivity.
  - apply N.eqb_eq in H. subst. reflexivity.
  - inversion H. apply N.eqb_refl.
Qed.

Lemma map_fst_combine {A B} (l : list A) (l' : list B) : length l = length l' -> map fst (combine l l') = l.
Proof.
  revert l'. induction l as [|x l IH]; intros [|y l'] H; simpl in *; try reflexivity; try discriminate.
  f_equal. apply IH. lia.
Qed.
Lemma map_snd_combine {A B C} (f : B -> C) (l : list A) (l' : list B) :
  length l = length l' -> map (fun p => f (snd p)) (combine l l') = map f l'.
Proof.
  revert l'. induction l as [|x l IH]; intros [|y l'] H; simpl in *; try reflexivity; try discriminate.
  f_equal. apply IH. lia.
Qed.
Lemma Forall2_length' {A B} (R : A -> B -> Prop) l l' : Forall2 R l l' -> length l = length l'.
Proof. induction 1; simpl; congruence. Qed.
Lemma Forall2_map_eq {A B C} (f : A -> C) (g : B -> C) l l' :
  Forall2 (fun a b => g b = f a) l l' -> map g l' = map f l.
Proof. induction 1; simpl; [reflexivity|]. f_equal; assumption. Qed.
Lemma Forall2_impl' {A B} (R R' : A -> B -> Prop) l l' :
  (forall a b, In a l -> In b l' -> R a b -> R' a b) -> Forall2 R l l' -> Forall2 R' l l'.
Proof.
  intros H F. induction F; constructor.
  - apply H; simpl; auto.
  - apply IHF. intros a b Ha Hb. apply H; simpl; auto.
Qed.
Lemma Forall2_in_r {A B} (R : A -> B -> Prop) l l' b : Forall2 R l l' -> In b l' -> exists a, In a l /\ R a b.
Proof.
  induction 1; intros Hin; [destruct Hin|]. destruct Hin as [<-|Hin].
  - exists x. split; [left; reflexivity|assumption].
  - destruct (IHForall2 Hin) as (a & Ha & HR). exists a. split; [right; exact Ha|exact HR].
Qed.
Lemma Forall2_in_l {A B} (R : A -> B -> Prop) l l' a : Forall2 R l l' -> In a l -> exists b, In b l' /\ R a b.
Proof.
  induction 1; intros Hin; [destruct Hin|]. destruct Hin as [<-|Hin].
  - exists y. split; [left; reflexivity|assumption].
  - destruct (IHForall2 Hin) as (b & Hb & HR). exists b. split; [right; exact Hb|exact HR].
Qed.
Lemma Forall2_map_l {A B C} (R : C -> B -> Prop) (f : A -> C) l l' :
  Forall2 R (map f l) l' <-> Forall2 (fun a b => R (f a) b) l l'.
Proof.
  split.
  - revert l'. induction l as [|x l IH]; intros l' H; inversion H; subst; constructor; auto.
  - induction 1; simpl; constructor; auto.
Qed.

(* MetadataStore: copying item by item into an empty store reproduces the items *)
Lemma fold_setitem_data l : forall pre,
  NoDup (map fst (pre ++ l)) ->
  fold_left (fun acc kv => meta_setitem (fst kv) (snd kv) acc) l (Met pre []) = Met (pre ++ l) [].
Proof.
  induction l as [|[k v] r IH]; simpl; intros pre H; [rewrite app_nil_r; reflexivity|].
  unfold meta_setitem at 2. simpl. rewrite (dict_set_fresh N.eqb N_eqb_spec').
  - rewrite IH; rewrite <- app_assoc; simpl; [reflexivity|exact H].
  - rewrite map_app in H. simpl in H. apply NoDup_remove_2 in H. intros Hin. apply H.
    apply in_or_app. left. exact Hin.
Qed.
Lemma fold_invalidate d l : forall pre,
  NoDup (pre ++ l) -> fold_left (fun acc k => meta_invalidate k acc) l (Met d pre) = Met d (pre ++ l).
Proof.
  induction l as [|k r IH]; simpl; intros pre H; [rewrite app_nil_r; reflexivity|].
  unfold meta_invalidate at 2. simpl.
  assert (E : existsb (N.eqb k) pre = false).
  { apply NoDup_remove_2 in H. destruct (existsb (N.eqb k) pre) eqn:E; [|reflexivity].
    apply existsb_exists in E. destruct E as (x & Hx & E). apply N.eqb_eq in E. subst.
    exfalso. apply H. apply in_or_app. left. exact Hx. }
  rewrite E. rewrite IH; rewrite <- app_assoc; simpl; [reflexivity|exact H].
Qed.
Lemma fold_invalidate_data l : forall m, m_data (fold_left (fun acc k => meta_invalidate k acc) l m) = m_data m.
Proof. induction l as [|k r IH]; simpl; intros m; [reflexivity|]. rewrite IH. reflexivity. Qed.
Lemma fold_setitem_in l : forall m kv,
  In kv (m_data (fold_left (fun acc kv => meta_setitem (fst kv) (snd kv) acc) l m)) -> In kv (m_data m) \/ In kv l.
Proof.
  induction l as [|[k v] r IH]; simpl; intros m kv H; [left; exact H|].
  apply IH in H. destruct H as [H|H]; [|right; right; exact H]. simpl in H.
  apply dict_set_in in H. destruct H as [H|H]; [right; left; symmetry; exact H|left; exact H].
Qed.

Section Good2.
  Variables allow deep : bool.
  Variable h0 : heap.
  Hypothesis Hcl0 : closed h0.
  Notation n0 := (next h0).
  Notation WF := (dicts_wf h0).
  Notation good := (good allow deep h0).
  Notation VR := (VR h0).
  Notation FR := (FR h0).
  Notation allowed := (allowed deep h0).
  Notation MR := (MR deep h0).

  Lemma mapM_good {A B} (f : A -> M B) (R : cst -> A -> B -> Prop) (P : A -> Prop) :
    (forall x, mono (f x)) ->
    (forall x st st' b, P x -> good st -> f x st = (st', Ok b) -> good st' /\ R st' x b) ->
    (forall x b st st', good st -> le st st' -> R st x b -> R st' x b) ->
    forall l st st' bs, Forall P l -> good st -> mapM f l st = (st', Ok bs) ->
                        good st' /\ Forall2 (R st') l bs.
  Proof.
    intros Hm Hs Hst. induction l as [|x l IH]; intros st st' bs HP G H.
    - apply mapM_ok_nil in H. destruct H; subst. split; [exact G|constructor].
    - apply mapM_ok_cons in H. destruct H as (st1 & b & bs' & H1 & H2 & ->).
      inversion HP; subst. destruct (Hs _ _ _ _ H3 G H1) as [G1 R1].
      destruct (IH _ _ _ H4 G1 H2) as [G' F']. split; [exact G'|]. constructor; [|exact F'].
      eapply Hst; [exact G1| |exact R1]. eapply mono_mapM; [exact Hm|exact H2].
  Qed.

  Lemma MR_le m st st' kv kv' : good st -> le st st' -> MR m st kv kv' -> MR m st' kv kv'.
  Proof.
    intros G L (H1 & H2 & H3). split; [exact H1|]. split.
    - rewrite <- H2. unfold mval_canon. destruct (snd kv') as [z|o] eqn:E; [reflexivity|].
      rewrite (cell_le _ _ L); [reflexivity|]. apply (H3 o eq_refl).
    - intros o Ho. destruct (H3 o Ho) as [K1 K2]. split.
      + destruct L as [[L1 _] _]. lia.
      + destruct K2 as [K2|K2]; [left; exact K2|right]. eapply allowed_le; eassumption.
  Qed.

  Lemma clone_meta_ok st st' m m' :
    good st -> m < n0 -> clone_meta deep m st = (st', Ok m') ->
    good st' /\ FR st' m' /\ (WF -> meta_canon (cells (hp st')) m' = meta_canon (cells h0) m).
  Proof.
    intros G Hm H. unfold clone_meta in H. inv_bind H. apply get_ok in H0. destruct H0 as [-> Hc].
    destruct a as [| | | | | |old| | | | |]; try discriminate.
    rewrite (old_cell _ _ _ _ _ G Hm) in Hc.
    inv_bind H. rename a into data.
    destruct (mapM_good (clone_mval deep) (MR m) (fun kv => In kv (m_data old))
                (mono_clone_mval deep)
                (fun x s s' b Hx Gs Hs => clone_mval_ok allow deep h0 Hcl0 s s' m old x b Gs Hc Hx Hs)
                (fun x b s s' Gs Ls HR => MR_le m s s' x b Gs Ls HR)
                _ _ _ _ (proj2 (Forall_forall _ _) (fun x Hx => Hx)) G H0) as [G1 F].
    set (m1 := fold_left (fun acc kv => meta_setitem (fst kv) (snd kv) acc) data meta_empty) in H.
    set (m2 := fold_left (fun acc k => meta_invalidate k acc) (m_inv old) m1) in H.
    assert (Hdata : forall kv, In kv (m_data m2) -> In kv data).
    { intros kv Hkv. unfold m2 in Hkv. rewrite fold_invalidate_data in Hkv. unfold m1 in Hkv.
      apply fold_setitem_in in Hkv. destruct Hkv as [[]|Hkv]. exact Hkv. }
    assert (Hobj : forall y, In y (links (CMeta m2)) -> y < next (hp st0) /\ (n0 <= y \/ allowed st0 y)).
    { intros y Hy. simpl in Hy. apply in_flat_map in Hy. destruct Hy as ([k v] & Hkv & Hy).
      unfold mval_ids in Hy. simpl in Hy. destruct v as [z|o]; [destruct Hy|]. destruct Hy as [<-|[]].
      apply Hdata in Hkv. destruct (Forall2_in_r _ _ _ _ F Hkv) as (kv0 & _ & (_ & _ & K)).
      apply (K o). reflexivity. }
    destruct (good_alloc _ _ _ _ _ _ _ G1 H) as (G' & HF & Hx & Hcell).
    - intros y Hy. apply Hobj, Hy.
    - intros y [].
    - intros y Hy. apply Hobj, Hy.
    - split; [exact G'|]. split; [exact HF|]. intros W.
      destruct (W _ _ Hc) as [ND1 ND2].
      assert (Hkeys : map fst data = map fst (m_data old)).
      { apply Forall2_map_eq. eapply Forall2_impl'; [|exact F]. intros a b _ _ (K & _). exact K. }
      assert (E1 : m1 = Met data []).
      { unfold m1, meta_empty. rewrite fold_setitem_data; [reflexivity|]. simpl. rewrite Hkeys. exact ND1. }
      assert (E2 : m2 = Met data (m_inv old)).
      { unfold m2. rewrite E1. rewrite fold_invalidate; [reflexivity|exact ND2]. }
      unfold meta_canon. rewrite Hcell, Hc, E2. simpl. f_equal. f_equal.
      apply Forall2_map_eq. eapply Forall2_impl'; [|exact F]. intros a b _ _ HR.
      assert (L : le st0 st') by (eapply mono_alloc; exact H).
      destruct (MR_le m _ _ _ _ G1 L HR) as (_ & K & _). exact K.
  Qed.

  Lemma copy_value_ok st st' v c :
    good st -> v < n0 -> copy_value deep v st = (st', Ok c) -> good st' /\ VR st' v c.
  Proof.
    intros G Hv H. unfold copy_value in H.
    inv_bind H. apply get_value_ok in H0. destruct H0 as [-> Hc]. rename a into old.
    rewrite (old_cell _ _ _ _ _ G Hv) in Hc.
    assert (HL : forall y, In y (links (CValue old)) -> y < n0) by (intros y; apply (proj2 (Hcl0 _ _ Hc))).
    bind_as H s1 t E1. bind_as H s2 s E2. bind_as H s3 mp E3. bind_as H s4 me E4.
    destruct (clone_type_ok _ _ _ _ _ _ _ G (fun x Hx => HL x (lk_v_type _ _ Hx)) E1) as (G1 & F1 & C1).
    destruct (clone_shape_ok _ _ _ _ _ _ _ G1 (fun x Hx => HL x (lk_v_shape _ _ Hx)) E2) as (G2 & F2 & C2).
    destruct (clone_dict_ok _ _ _ _ _ _ _ G2 (HL _ (lk_v_mp _)) E3) as (G3 & F3 & C3).
    destruct (clone_meta_ok _ _ _ _ G3 (HL _ (lk_v_meta _)) E4) as (G4 & F4 & C4).
    assert (L12 : le s1 s2) by (eapply mono_clone_shape; exact E2).
    assert (L23 : le s2 s3) by (eapply mono_clone_dict; exact E3).
    assert (L34 : le s3 s4) by (eapply mono_clone_meta; exact E4).
    assert (L4 : le s4 st') by (eapply mono_alloc; exact H).
    assert (L24 : le s2 s4) by (eapply le_trans; eassumption).
    assert (L14 : le s1 s4) by (eapply le_trans; eassumption).
    assert (F1' : forall y, t = Some y -> FR s4 y) by (intros y Hy; eapply FR_le; [exact L14|apply F1, Hy]).
    assert (F2' : forall y, s = Some y -> FR s4 y) by (intros y Hy; eapply FR_le; [exact L24|apply F2, Hy]).
    assert (F3' : FR s4 mp) by (eapply FR_le; [exact L34|exact F3]).
    assert (Hlk : forall y, In y (links (CValue (Val (v_name old) t s (v_doc old) (v_const old) mp me))) ->
                            FR s4 y \/ (y < n0 /\ v_const old = Some y)).
    { intros y Hy. unfold links in Hy. simpl in Hy. rewrite !in_app_iff in Hy. simpl in Hy.
      destruct Hy as [Hy|[Hy|[<-|[<-|Hy]]]].
      - left. apply F1', in_oid, Hy.
      - left. apply F2', in_oid, Hy.
      - left. exact F3'.
      - left. exact F4.
      - right. apply in_oid in Hy. split; [apply HL, lk_v_const, Hy|exact Hy]. }
    assert (Hn4 : n0 <= next (hp s4)) by apply (g_ext _ _ _ _ G4).
    destruct (good_alloc _ _ _ _ _ _ _ G4 H) as (G' & HF & Hx & Hcell).
    - intros y Hy. destruct (Hlk y Hy) as [K|[K _]]; [apply K|lia].
    - intros y Hy. unfold own_links in Hy. simpl in Hy. rewrite !in_app_iff in Hy. simpl in Hy.
      destruct Hy as [Hy|[Hy|[<-|[<-|[]]]]].
      + apply F1', in_oid, Hy.
      + apply F2', in_oid, Hy.
      + apply F3'.
      + apply F4.
    - intros y Hy. destruct (Hlk y Hy) as [K|[K1 K2]]; [left; apply K|right].
      split; [exact K1|]. do 4 right. exists v, old. split; [exact Hc|exact K2].
    - split; [exact G'|]. split; [exact HF|]. split; [eexists; exact Hcell|].
      intros W. unfold vcanon. rewrite Hcell, Hc. simpl. f_equal.
      assert (L1' : le s1 st') by (eapply le_trans; eassumption).
      assert (L2' : le s2 st') by (eapply le_trans; eassumption).
      assert (L3' : le s3 st') by (eapply le_trans; eassumption).
      rewrite (type_canon_le _ _ L1') by (intros x' Hx'; apply F1, Hx').
      rewrite (shape_canon_le _ _ L2') by (intros x' Hx'; apply F2, Hx').
      rewrite (dict_canon_le _ _ L3') by apply F3.
      rewrite (meta_canon_le _ _ _ _ _ G4 L4) by apply F4.
      rewrite C1, C2, C3, (C4 W). reflexivity.
  Qed.

  Lemma clone_or_get_value_ok st st' v c :
    good st -> v < n0 -> clone_or_get_value deep v st = (st', Ok c) -> good st' /\ VR st' v c.
  Proof.
    intros G Hv H. unfold clone_or_get_value in H. inv_bind H. unfold vmap_get in H0. inversion H0; subst; clear H0.
    destruct (assoc v (vmap st0)) as [k|] eqn:E.
    - inversion H; subst. split; [exact G|]. apply (g_vmap _ _ _ _ G). exact E.
    - inv_bind H. destruct (copy_value_ok _ _ _ _ G Hv H0) as [G1 V1].
      inv_bind H. unfold vmap_set in H1. inversion H1; subst; clear H1. inversion H; subst; clear H.
      split; [apply good_vmap_set; assumption|].
      destruct V1 as (K1 & K2 & K3). split; [exact K1|]. split; [exact K2|exact K3].
  Qed.

  Lemma clone_output_ok st st' v c :
    good st -> v < n0 -> clone_output deep v st = (st', Ok c) ->
    good st' /\ (VR st' v c /\ assoc v (vmap st') <> None).
  Proof.
    intros G Hv H. unfold clone_output in H.
    inv_bind H. destruct (copy_value_ok _ _ _ _ G Hv H0) as [G1 V1].
    inv_bind H. unfold vmap_set in H1. inversion H1; subst; clear H1. inversion H; subst; clear H.
    split; [apply good_vmap_set; assumption|]. split.
    - destruct V1 as (K1 & K2 & K3). split; [exact K1|]. split; [exact K2|exact K3].
    - simpl. rewrite Pos.eqb_refl. discriminate.
  Qed.

  Lemma get_mapped_ok st st' v c : good st -> get_mapped v st = (st', Ok c) -> st' = st /\ VR st v c.
  Proof.
    intros G H. unfold get_mapped in H. inv_bind H. unfold vmap_get in H0. inversion H0; subst; clear H0.
    destruct (assoc v (vmap st0)) as [k|] eqn:E; [|discriminate]. inversion H; subst.
    split; [reflexivity|]. apply (g_vmap _ _ _ _ G). exact E.
  Qed.

  (* a cloned node input *)
  Definition IR (st : cst) (i i' : option id) : Prop :=
    match i, i' with
    | None, None => True
    | Some v, Some c => c < next (hp st) /\ (n0 <= c \/ allowed st c) /\
                        (WF -> vref (cells (hp st)) c = vref (cells h0) v) /\
                        (assoc v (vmap st) <> None \/ In v (passed st))
    | _, _ => False
    end.

  Lemma IR_le st st' i i' : good st -> le st st' -> IR st i i' -> IR st' i i'.
  Proof.
    intros G L H. unfold IR in *. destruct i as [v|], i' as [c|]; try exact H.
    destruct H as (H1 & H2 & H3 & H4). split; [|split; [|split]].
    - destruct L as [[L1 _] _]. lia.
    - destruct H2 as [H2|H2]; [left; exact H2|right; eapply allowed_le; eassumption].
    - intros W. rewrite <- (H3 W). apply (vref_le _ _ L). exact H1.
    - destruct L as (_ & L2 & L3 & _). destruct H4 as [H4|H4]; [left; apply L2, H4|right; apply L3, H4].
  Qed.

  Lemma clone_input_ok st st' i i' :
    good st -> (forall v, i = Some v -> v < n0) -> clone_input allow i st = (st', Ok i') ->
    good st' /\ IR st' i i'.
  Proof.
    intros G Hi H. unfold clone_input in H. destruct i as [v|].
    - specialize (Hi v eq_refl). inv_bind H. unfold vmap_get in H0. inversion H0; subst; clear H0.
      destruct (assoc v (vmap st0)) as [k|] eqn:E.
      + inversion H; subst. split; [exact G|]. destruct (g_vmap _ _ _ _ G _ _ E) as (K1 & K2 & K3).
        simpl. split; [apply K1|]. split; [left; apply K1|]. split; [intros W; apply vref_of_vcanon; apply K3, W|].
        left. rewrite E. discriminate.
      + assert (Ea : allow = true) by (clear G; destruct allow; [reflexivity|discriminate H]).
        rewrite Ea in H. bind_as H sx ax Epa. unfold pass_add in Epa.
        injection Epa as Hsx _. subst sx. unfold ret in H. injection H as Hs Hi'. subst st' i'.
        assert (G' : good (St (hp st0) (vmap st0) (v :: passed st0) (kept st0))).
        { apply good_ghost; [exact G|apply incl_tl, incl_refl|apply incl_refl|intros; exact Ea|].
          intros Wd y Hy. right. apply (g_kept _ _ _ _ G Wd y Hy). }
        split; [exact G'|]. simpl. split; [|split; [|split]].
        * pose proof (g_ext _ _ _ _ G) as [K _]. lia.
        * right. split; [exact Hi|]. right. right. left. simpl. left. reflexivity.
        * intros _. apply (vref_old _ _ _ _ G'). exact Hi.
        * right. left. reflexivity.
    - inversion H; subst. split; [exact G|exact I].
  Qed.
End Good2.

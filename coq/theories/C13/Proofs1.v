(* C13/Proofs1.v — the cloner only allocates: every function of the cloner extends the heap and never
   writes an existing cell (whatever its outcome), the value map's domain and the ghost lists only grow. *)
From Coq Require Import List ZArith NArith PArith Bool Lia.
From IRV Require Import Base.Exn C13.Model.
Import ListNotations.
Local Open Scope positive_scope.

(* ---------- monad inversion *)
Lemma bind_ok {A B} (m : M A) (f : A -> M B) st st' b :
  bind m f st = (st', Ok b) -> exists st1 a, m st = (st1, Ok a) /\ f a st1 = (st', Ok b).
Proof.
  unfold bind. destruct (m st) as [st1 [a|e]] eqn:E; intros H.
  - exists st1, a. split; [reflexivity|exact H].
  - discriminate.
Qed.

Lemma bind_inv {A B} (m : M A) (f : A -> M B) st st' r :
  bind m f st = (st', r) ->
  (exists st1 a, m st = (st1, Ok a) /\ f a st1 = (st', r)) \/ (exists e, m st = (st', Raise e) /\ r = Raise e).
Proof.
  unfold bind. destruct (m st) as [st1 [a|e]] eqn:E; intros H.
  - left. exists st1, a. split; [reflexivity|exact H].
  - right. inversion H; subst. exists e. split; reflexivity.
Qed.

Lemma mapM_ok_nil {A B} (f : A -> M B) st st' bs :
  mapM f [] st = (st', Ok bs) -> st' = st /\ bs = [].
Proof. simpl. unfold ret. intros H. inversion H. split; reflexivity. Qed.

Lemma mapM_ok_cons {A B} (f : A -> M B) x l st st' bs :
  mapM f (x :: l) st = (st', Ok bs) ->
  exists st1 b bs', f x st = (st1, Ok b) /\ mapM f l st1 = (st', Ok bs') /\ bs = b :: bs'.
Proof.
  simpl. intros H. apply bind_ok in H. destruct H as (st1 & b & Hf & H).
  apply bind_ok in H. destruct H as (st2 & bs' & Hm & H). unfold ret in H. inversion H; subst.
  exists st1, b, bs'. repeat split; assumption.
Qed.

(* ---------- extension order *)
Definition hle (h h' : heap) : Prop :=
  next h <= next h' /\ forall x, x < next h -> cells h' x = cells h x.
Definition domle (m m' : list (id * id)) : Prop := forall o, assoc o m <> None -> assoc o m' <> None.
Definition le (st st' : cst) : Prop :=
  hle (hp st) (hp st') /\ domle (vmap st) (vmap st') /\ incl (passed st) (passed st') /\
  incl (kept st) (kept st').

Lemma hle_refl h : hle h h.
Proof. split; [lia|reflexivity]. Qed.
Lemma hle_trans a b c : hle a b -> hle b c -> hle a c.
Proof.
  intros [H1 H2] [H3 H4]. split; [lia|]. intros x Hx. rewrite H4 by lia. apply H2. exact Hx.
Qed.
Lemma le_refl st : le st st.
Proof. repeat split; try apply hle_refl; try apply incl_refl. intros o H; exact H. Qed.
Lemma le_trans a b c : le a b -> le b c -> le a c.
Proof.
  intros (H1 & H2 & H3 & H4) (K1 & K2 & K3 & K4). repeat split.
  - apply (hle_trans _ _ _ H1 K1).
  - apply (hle_trans _ _ _ H1 K1).
  - intros o Ho. apply K2, H2, Ho.
  - eapply incl_tran; eassumption.
  - eapply incl_tran; eassumption.
Qed.

Lemma upd_same f x c : upd f x c x = Some c.
Proof. unfold upd. rewrite Pos.eqb_refl. reflexivity. Qed.
Lemma upd_other f x c y : y <> x -> upd f x c y = f y.
Proof. unfold upd. intros H. destruct (Pos.eqb_spec y x); [contradiction|reflexivity]. Qed.

Lemma halloc_hle h c : hle h (fst (halloc h c)).
Proof.
  unfold hle, halloc; simpl. split; [lia|]. intros x Hx. apply upd_other. lia.
Qed.

Definition mono {A} (m : M A) : Prop := forall st st' r, m st = (st', r) -> le st st'.

Lemma mono_ret {A} (a : A) : mono (ret a).
Proof. intros st st' r H. inversion H; subst. apply le_refl. Qed.
Lemma mono_raise {A} e : mono (@raise A e).
Proof. intros st st' r H. inversion H; subst. apply le_refl. Qed.
Lemma mono_bind {A B} (m : M A) (f : A -> M B) : mono m -> (forall a, mono (f a)) -> mono (bind m f).
Proof.
  intros Hm Hf st st' r H. apply bind_inv in H. destruct H as [(st1 & a & H1 & H2)|(e & H1 & _)].
  - eapply le_trans; [eapply Hm, H1 | eapply Hf, H2].
  - eapply Hm, H1.
Qed.
Lemma mono_mapM {A B} (f : A -> M B) l : (forall x, mono (f x)) -> mono (mapM f l).
Proof.
  intros Hf. induction l as [|x l IH]; simpl.
  - apply mono_ret.
  - apply mono_bind; [apply Hf|]. intros y. apply mono_bind; [apply IH|]. intros ys. apply mono_ret.
Qed.
Lemma mono_alloc c : mono (alloc c).
Proof.
  intros st st' r H. unfold alloc in H. simpl in H. inversion H; subst. unfold le, hle; simpl.
  repeat split; try apply incl_refl; try (intros o Ho; exact Ho).
  - lia.
  - intros x Hx. apply upd_other. lia.
Qed.
Lemma mono_get x : mono (get x).
Proof.
  intros st st' r H. unfold get in H. destruct (cells (hp st) x); inversion H; subst; apply le_refl.
Qed.
Lemma mono_vmap_get v : mono (vmap_get v).
Proof. intros st st' r H. inversion H; subst. apply le_refl. Qed.
Lemma mono_vmap_set v c : mono (vmap_set v c).
Proof.
  intros st st' r H. inversion H; subst. unfold le; simpl.
  repeat split; try apply hle_refl; try apply incl_refl.
  intros o Ho. simpl. destruct (Pos.eqb o v); [discriminate|exact Ho].
Qed.
Lemma mono_pass_add v : mono (pass_add v).
Proof.
  intros st st' r H. inversion H; subst. unfold le; simpl.
  repeat split; try apply hle_refl; try apply incl_refl; try (intros o Ho; exact Ho).
  apply incl_tl, incl_refl.
Qed.
Lemma mono_keep_add l : mono (keep_add l).
Proof.
  intros st st' r H. inversion H; subst. unfold le; simpl.
  repeat split; try apply hle_refl; try apply incl_refl; try (intros o Ho; exact Ho).
  apply incl_appr, incl_refl.
Qed.

Ltac mono_step :=
  first
    [ apply mono_ret | apply mono_raise | apply mono_alloc | apply mono_get | apply mono_vmap_get
    | apply mono_vmap_set | apply mono_pass_add | apply mono_keep_add
    | apply mono_bind; [|intros ?]
    | apply mono_mapM; intros ?
    | match goal with |- mono (match ?x with _ => _ end) => destruct x end ].
Ltac mono_tac := repeat mono_step.

Lemma mono_get_value x : mono (get_value x). Proof. unfold get_value. mono_tac. Qed.
Lemma mono_get_node x : mono (get_node x). Proof. unfold get_node. mono_tac. Qed.
Lemma mono_get_graph x : mono (get_graph x). Proof. unfold get_graph. mono_tac. Qed.
Lemma mono_get_attr x : mono (get_attr x). Proof. unfold get_attr. mono_tac. Qed.
Lemma mono_get_func x : mono (get_func x). Proof. unfold get_func. mono_tac. Qed.
Lemma mono_get_model x : mono (get_model x). Proof. unfold get_model. mono_tac. Qed.
Lemma mono_clone_dict d : mono (clone_dict d). Proof. unfold clone_dict. mono_tac. Qed.
Lemma mono_clone_shape s : mono (clone_shape s). Proof. unfold clone_shape. mono_tac. Qed.
Lemma mono_clone_type s : mono (clone_type s). Proof. unfold clone_type. mono_tac. Qed.
Lemma mono_clone_mval deep kv : mono (clone_mval deep kv). Proof. unfold clone_mval. mono_tac. Qed.
Lemma mono_clone_meta deep m : mono (clone_meta deep m).
Proof. unfold clone_meta. mono_tac. apply mono_clone_mval. Qed.
Lemma mono_copy_value deep v : mono (copy_value deep v).
Proof.
  unfold copy_value. apply mono_bind; [apply mono_get_value|intros old].
  apply mono_bind; [apply mono_clone_type|intros t]. apply mono_bind; [apply mono_clone_shape|intros s].
  apply mono_bind; [apply mono_clone_dict|intros mp]. apply mono_bind; [apply mono_clone_meta|intros me].
  apply mono_alloc.
Qed.
Lemma mono_clone_or_get_value deep v : mono (clone_or_get_value deep v).
Proof.
  unfold clone_or_get_value. apply mono_bind; [apply mono_vmap_get|intros k]. destruct k.
  - apply mono_ret.
  - apply mono_bind; [apply mono_copy_value|intros c]. mono_tac.
Qed.
Lemma mono_get_mapped v : mono (get_mapped v). Proof. unfold get_mapped. mono_tac. Qed.
Lemma mono_check_passed : mono check_passed.
Proof.
  intros st st' r H. unfold check_passed in H.
  destruct (forallb (unmapped (vmap st)) (passed st)); inversion H; subst; apply le_refl.
Qed.
Lemma mono_clone_input allow i : mono (clone_input allow i).
Proof. unfold clone_input. destruct i; mono_tac. Qed.
Lemma mono_attr_name_of a : mono (attr_name_of a).
Proof. unfold attr_name_of. apply mono_bind; [apply mono_get_attr|intros x; apply mono_ret]. Qed.
Lemma mono_value_name_of a : mono (value_name_of a).
Proof. unfold value_name_of. apply mono_bind; [apply mono_get_value|intros x; apply mono_ret]. Qed.
Lemma mono_clone_output deep o : mono (clone_output deep o).
Proof. unfold clone_output. apply mono_bind; [apply mono_copy_value|intros c]. mono_tac. Qed.
Lemma mono_finish_node n ins outs ats atn mp me : mono (finish_node n ins outs ats atn mp me).
Proof.
  intros st st' r H. unfold finish_node in H.
  exact (mono_bind _ _ (mono_keep_add _) (fun _ => mono_alloc _) st st' r H).
Qed.

Section Rec.
  Variable allow deep : bool.
  Variable rec_graph : id -> M id.
  Hypothesis Hrec : forall g, mono (rec_graph g).

  Lemma mono_clone_attr ka : mono (clone_attr rec_graph ka).
  Proof.
    unfold clone_attr. apply mono_bind; [apply mono_get_attr|intros a].
    destruct (a_val a); mono_tac; apply Hrec.
  Qed.
  Lemma mono_clone_node n : mono (clone_node allow deep rec_graph n).
  Proof.
    unfold clone_node. apply mono_bind; [apply mono_get_node|intros x].
    apply mono_bind; [apply mono_mapM; intros; apply mono_clone_input|intros ins].
    apply mono_bind; [apply mono_mapM; intros; apply mono_clone_attr|intros ats].
    apply mono_bind; [apply mono_mapM; intros; apply mono_attr_name_of|intros atn].
    apply mono_bind; [apply mono_clone_dict|intros mp].
    apply mono_bind; [apply mono_clone_meta|intros me].
    apply mono_bind; [apply mono_mapM; intros; apply mono_clone_output|intros outs].
    apply mono_finish_node.
  Qed.
  Lemma mono_clone_graph_body g : mono (clone_graph_body allow deep rec_graph g).
  Proof.
    unfold clone_graph_body. apply mono_bind; [apply mono_get_graph|intros x].
    apply mono_bind; [apply mono_mapM; intros; apply mono_clone_or_get_value|intros ins].
    apply mono_bind; [apply mono_mapM; intros; apply mono_clone_or_get_value|intros inits].
    apply mono_bind; [apply mono_mapM; intros; apply mono_clone_node|intros nodes].
    apply mono_bind; [apply mono_mapM; intros; apply mono_get_mapped|intros outs].
    apply mono_bind; [apply mono_check_passed|intros u0].
    apply mono_bind; [apply mono_mapM; intros; apply mono_value_name_of|intros keys].
    apply mono_bind; [apply mono_clone_dict|intros ops].
    apply mono_bind; [apply mono_clone_dict|intros mp].
    apply mono_bind; [apply mono_clone_meta|intros me].
    apply mono_alloc.
  Qed.
End Rec.

Lemma mono_clone_graph allow deep fuel : forall g, mono (clone_graph allow deep fuel g).
Proof.
  induction fuel as [|f IH]; intros g; simpl.
  - apply mono_raise.
  - apply mono_clone_graph_body. exact IH.
Qed.

Lemma mono_function_clone_m fuel deep fid : mono (function_clone_m fuel deep fid).
Proof.
  unfold function_clone_m. apply mono_bind; [apply mono_get_func|intros f].
  apply mono_bind; [apply mono_clone_graph|intros g'].
  apply mono_bind; [apply mono_mapM; intros; apply mono_clone_attr; intros; apply mono_clone_graph|intros ats].
  apply mono_bind; [apply mono_mapM; intros; apply mono_attr_name_of|intros atn].
  apply mono_alloc.
Qed.

Lemma mono_fresh_cloner {A} (m : M A) : mono m -> mono (fresh_cloner m).
Proof.
  intros Hm st st' r H. unfold fresh_cloner in H.
  destruct (m (St (hp st) [] (passed st) (kept st))) as [st1 r1] eqn:E. inversion H; subst.
  apply Hm in E. destruct E as (E1 & _ & E3 & E4). unfold le; simpl in *.
  repeat split; try apply E1; try assumption. intros o Ho; exact Ho.
Qed.

Lemma mono_model_clone_m fuel deep mid : mono (model_clone_m fuel deep mid).
Proof.
  unfold model_clone_m. apply mono_bind; [apply mono_get_model|intros m].
  apply mono_bind; [apply mono_fresh_cloner, mono_clone_graph|intros g'].
  apply mono_bind; [apply mono_mapM; intros; apply mono_fresh_cloner, mono_function_clone_m|intros fs].
  apply mono_bind; [apply mono_clone_dict|intros mp].
  apply mono_bind; [apply mono_alloc|intros me]. apply mono_alloc.
Qed.

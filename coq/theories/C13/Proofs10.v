(* C13/Proofs10.v — every operation of the edit alphabet, applied to objects of one side, writes only that side. *)
From Coq Require Import List ZArith NArith PArith Bool Lia.
From IRV Require Import Base.Exn C13.Model C13.Proofs1 C13.Proofs2 C13.Proofs3 C13.Proofs4 C13.Proofs9.
Import ListNotations.
Local Open Scope positive_scope.

Lemma set_nth_in {A} (l : list A) i x l' y : set_nth l i x = Some l' -> In y l' -> y = x \/ In y l.
Proof.
  revert i l'. induction l as [|a l IH]; intros i l' H Hy; simpl in H; [destruct i; discriminate|].
  destruct i as [|j].
  - injection H as <-. destruct Hy as [<-|Hy]; [left; reflexivity|right; right; exact Hy].
  - destruct (set_nth l j x) as [r'|] eqn:E; [|discriminate]. injection H as <-.
    destruct Hy as [<-|Hy]; [right; left; reflexivity|]. destruct (IH _ _ E Hy) as [K|K]; [left; exact K|right; right; exact K].
Qed.

Lemma dict_del_in {K V} (eqb : K -> K -> bool) (k : K) (d : list (K * V)) kv : In kv (dict_del eqb k d) -> In kv d.
Proof.
  induction d as [|[k' v'] r IH]; simpl; [intros []|]. destruct (eqb k k').
  - intros H. right. exact H.
  - intros [H|H]; [left; exact H|right; apply IH, H].
Qed.

Section OpStep.
  Variable col : id -> bool.
  Variable s : bool.
  Notation inv := (inv col s).
  Notation frame := (frame col s).

  Definition op_sided (h : heap) (o : op) : Prop := forall x, In x (op_ids o) -> col x = s /\ x < next h.

  Lemma write_incl h x c c' :
    inv h -> cells h x = Some c -> col x = s ->
    (forall y, In y (links c') -> In y (links c) \/ y < next h) ->
    (forall y, In y (own_links c') -> In y (own_links c) \/ col y = s) ->
    inv (hwrite h x c') /\ frame h (hwrite h x c').
  Proof.
    intros I Hx Hc Hl Ho. apply (write_step col s h x c c' I Hx Hc).
    - intros y Hy. destruct (Hl y Hy) as [K|K]; [|exact K]. destruct I as (Hcl & _). apply (proj2 (Hcl _ _ Hx)), K.
    - intros y Hy. destruct (Ho y Hy) as [K|K]; [|exact K]. destruct I as (_ & Hs & _). rewrite <- Hc. apply (Hs _ _ Hx y K).
  Qed.

  Lemma own_col h x c y : inv h -> cells h x = Some c -> col x = s -> In y (own_links c) -> col y = s.
  Proof. intros (_ & Hs & _) Hx Hc Hy. rewrite <- Hc. apply (Hs _ _ Hx y Hy). Qed.

  Ltac same H I := injection H as <- <-; split; [exact I|apply frame_refl].

  (* the objects an operation only refers to (a tensor given to const_value) exist *)
  Definition op_refs_ok (h : heap) (o : op) : Prop := forall x, In x (op_refs o) -> x < next h.

  (* Value.name = n on a value whose const_value is a tensor object renames that (shared) tensor *)
  Definition renames_tensor (h : heap) (o : op) : bool :=
    match o with
    | VSetName v n =>
        match cells h v with
        | Some (CValue x) =>
            if option_eqb N.eqb (v_name x) n then false
            else match v_const x with
                 | Some t => match cells h t with Some (CTensor _) => true | _ => false end
                 | None => false
                 end
        | _ => false
        end
    | _ => false
    end.

  Theorem apply_op_step h o h' r :
    inv h -> op_sided h o -> op_refs_ok h o -> renames_tensor h o = false ->
    apply_op h o = (h', r) -> inv h' /\ frame h h'.
  Proof.
    intros I Hs Hrf Hrt H. destruct o; unfold apply_op in H.
    - (* VSetName, not renaming a tensor *)
      unfold renames_tensor in Hrt.
      unfold with_value in H. destruct (cells h v) as [[x| | | | | | | | | | |]|] eqn:E; try (same H I).
      destruct (option_eqb N.eqb (v_name x) n); [same H I|].
      destruct (Hs v (or_introl eq_refl)) as [Hc _].
      assert (W : inv (hwrite h v (CValue (set_v_name x n))) /\ frame h (hwrite h v (CValue (set_v_name x n)))).
      { apply (write_incl h v _ _ I E Hc); intros y Hy; left; exact Hy. }
      destruct (v_const x) as [t|]; [|injection H as <- <-; exact W].
      destruct (cells h t) as [[| | | | | | | | | | |nm]|]; try (injection H as <- <-; exact W). discriminate.
    - unfold with_value in H. destruct (cells h v) as [[x| | | | | | | | | | |]|] eqn:E; try (same H I).
      injection H as <- <-. destruct (Hs v (or_introl eq_refl)) as [Hc _].
      apply (write_incl h v _ _ I E Hc); intros y Hy; left; exact Hy.
    - (* VSetConst *)
      unfold with_value in H. destruct (cells h v) as [[x| | | | | | | | | | |]|] eqn:E; try (same H I).
      injection H as <- <-. destruct (Hs v (or_introl eq_refl)) as [Hc _].
      apply (write_incl h v _ _ I E Hc).
      + intros y Hy. unfold set_v_const, links in Hy. cbn [v_type v_shape v_mp v_meta v_const] in Hy. unfold links.
        apply in_app_or in Hy. destruct Hy as [Hy|Hy]; [left; apply in_or_app; left; exact Hy|].
        apply in_app_or in Hy. destruct Hy as [Hy|Hy]; [left; apply in_or_app; right; apply in_or_app; left; exact Hy|].
        apply in_app_or in Hy. destruct Hy as [Hy|Hy];
          [left; do 2 (apply in_or_app; right); apply in_or_app; left; exact Hy|].
        right. apply Hrf. simpl. exact Hy.
      + intros y Hy. left. exact Hy.
    - (* VSetDtype *)
      unfold with_value in H. destruct (cells h v) as [[x| | | | | | | | | | |]|] eqn:E; try (same H I).
      destruct (Hs v (or_introl eq_refl)) as [Hc Hlt].
      destruct (v_type x) as [t|] eqn:Et.
      + destruct (cells h t) as [[| | | |t0| | | | | | |]|] eqn:E2; try (same H I).
        injection H as <- <-.
        assert (Hct : col t = s). { apply (own_col h v _ t I E Hc). simpl. rewrite Et. simpl. auto. }
        apply (write_incl h t _ _ I E2 Hct); intros y [].
      + destruct (alloc_step col s h (CType (TBase 0%N dt None)) I) as (I1 & F1 & C1 & _ & N1 & A1); try (intros y []).
        unfold halloc in H. simpl in H. injection H as <- <-.
        change (Hp (upd (cells h) (next h) (CType (TBase 0%N dt None))) (Pos.succ (next h)))
          with (fst (halloc h (CType (TBase 0%N dt None)))).
        set (h1 := fst (halloc h (CType (TBase 0%N dt None)))) in *.
        assert (E1 : cells h1 v = Some (CValue x)) by (rewrite A1; assumption).
        destruct (write_incl h1 v _ (CValue (set_v_type x (Some (next h)))) I1 E1 Hc) as [I2 F2].
        * intros y Hy. unfold set_v_type, links in Hy. simpl in Hy. destruct Hy as [<-|Hy].
          -- right. rewrite N1. lia.
          -- left. unfold links. rewrite Et. simpl. exact Hy.
        * intros y Hy. unfold set_v_type, own_links in Hy. simpl in Hy. destruct Hy as [<-|Hy].
          -- right. exact C1.
          -- left. unfold own_links. rewrite Et. simpl. exact Hy.
        * split; [exact I2|eapply frame_trans; eassumption].
    - (* VSetType *)
      unfold with_value in H. destruct (cells h v) as [[x| | | | | | | | | | |]|] eqn:E; try (same H I).
      destruct (Hs v (or_introl eq_refl)) as [Hc Hlt]. destruct t as [t0|].
      + destruct (alloc_step col s h (CType t0) I) as (I1 & F1 & C1 & _ & N1 & A1); try (intros y []).
        unfold halloc in H. simpl in H. injection H as <- <-.
        change (Hp (upd (cells h) (next h) (CType t0)) (Pos.succ (next h))) with (fst (halloc h (CType t0))).
        set (h1 := fst (halloc h (CType t0))) in *.
        assert (E1 : cells h1 v = Some (CValue x)) by (rewrite A1; assumption).
        destruct (write_incl h1 v _ (CValue (set_v_type x (Some (next h)))) I1 E1 Hc) as [I2 F2].
        * intros y Hy. unfold set_v_type, links in Hy. simpl in Hy. destruct Hy as [<-|Hy].
          -- right. rewrite N1. lia.
          -- left. unfold links. apply in_or_app. right. exact Hy.
        * intros y Hy. unfold set_v_type, own_links in Hy. simpl in Hy. destruct Hy as [<-|Hy].
          -- right. exact C1.
          -- left. unfold own_links. apply in_or_app. right. exact Hy.
        * split; [exact I2|eapply frame_trans; eassumption].
      + injection H as <- <-. apply (write_incl h v _ _ I E Hc); intros y Hy; left.
        * unfold set_v_type, links in Hy. simpl in Hy. unfold links. apply in_or_app. right. exact Hy.
        * unfold set_v_type, own_links in Hy. simpl in Hy. unfold own_links. apply in_or_app. right. exact Hy.
    - (* VSetShapeDim *)
      unfold with_value in H. destruct (cells h v) as [[x| | | | | | | | | | |]|] eqn:E; try (same H I).
      destruct (Hs v (or_introl eq_refl)) as [Hc Hlt].
      destruct (v_shape x) as [t|] eqn:Et; [|same H I].
      destruct (cells h t) as [[| | |sh| | | | | | | |]|] eqn:E2; try (same H I).
      destruct (sh_frozen sh); [same H I|]. destruct (set_nth (sh_dims sh) i d) as [ds|]; [|same H I].
      injection H as <- <-.
      assert (Hct : col t = s).
      { apply (own_col h v _ t I E Hc). unfold own_links. apply in_or_app. right. rewrite Et. simpl. auto. }
      apply (write_incl h t _ _ I E2 Hct); intros y [].
    - (* VSetShape *)
      unfold with_value in H. destruct (cells h v) as [[x| | | | | | | | | | |]|] eqn:E; try (same H I).
      destruct (Hs v (or_introl eq_refl)) as [Hc Hlt]. destruct s0 as [ds|].
      + set (c0 := CShape (Shp ds (map (fun _ => None) ds) false)) in *.
        destruct (alloc_step col s h c0 I) as (I1 & F1 & C1 & _ & N1 & A1); try (intros y []).
        unfold halloc in H. simpl in H. injection H as <- <-.
        change (Hp (upd (cells h) (next h) c0) (Pos.succ (next h))) with (fst (halloc h c0)).
        set (h1 := fst (halloc h c0)) in *.
        assert (E1 : cells h1 v = Some (CValue x)) by (rewrite A1; assumption).
        destruct (write_incl h1 v _ (CValue (set_v_shape x (Some (next h)))) I1 E1 Hc) as [I2 F2].
        * intros y Hy. unfold set_v_shape, links in Hy. simpl in Hy. apply in_app_or in Hy.
          destruct Hy as [Hy|[<-|Hy]].
          -- left. unfold links. apply in_or_app. left. exact Hy.
          -- right. rewrite N1. lia.
          -- left. unfold links. apply in_or_app. right. apply in_or_app. right. exact Hy.
        * intros y Hy. unfold set_v_shape, own_links in Hy. simpl in Hy. apply in_app_or in Hy.
          destruct Hy as [Hy|[<-|Hy]].
          -- left. unfold own_links. apply in_or_app. left. exact Hy.
          -- right. exact C1.
          -- left. unfold own_links. apply in_or_app. right. apply in_or_app. right. exact Hy.
        * split; [exact I2|eapply frame_trans; eassumption].
      + injection H as <- <-. apply (write_incl h v _ _ I E Hc); intros y Hy; left.
        * unfold set_v_shape, links in Hy. simpl in Hy. apply in_app_or in Hy. unfold links.
          apply in_or_app. destruct Hy as [Hy|Hy]; [left; exact Hy|right; apply in_or_app; right; exact Hy].
        * unfold set_v_shape, own_links in Hy. simpl in Hy. apply in_app_or in Hy. unfold own_links.
          apply in_or_app. destruct Hy as [Hy|Hy]; [left; exact Hy|right; apply in_or_app; right; exact Hy].
    - (* MpSet *)
      destruct (Hs x (or_introl eq_refl)) as [Hc Hlt].
      destruct (cells h x) as [c|] eqn:E; [|same H I].
      destruct (mp_of c) as [d|] eqn:Em; [|same H I].
      destruct (cells h d) as [[| | | | |l| | | | | |]|] eqn:E2; try (same H I).
      injection H as <- <-.
      assert (Hct : col d = s).
      { apply (own_col h x c d I E Hc). destruct c; simpl in Em; try discriminate; injection Em as <-; simpl; auto.
        apply in_or_app. right. apply in_or_app. right. simpl. auto. }
      apply (write_incl h d _ _ I E2 Hct); intros y [].
    - (* MpDel *)
      destruct (Hs x (or_introl eq_refl)) as [Hc Hlt].
      destruct (cells h x) as [c|] eqn:E; [|same H I].
      destruct (mp_of c) as [d|] eqn:Em; [|same H I].
      destruct (cells h d) as [[| | | | |l| | | | | |]|] eqn:E2; try (same H I).
      injection H as <- <-.
      assert (Hct : col d = s).
      { apply (own_col h x c d I E Hc). destruct c; simpl in Em; try discriminate; injection Em as <-; simpl; auto.
        apply in_or_app. right. apply in_or_app. right. simpl. auto. }
      apply (write_incl h d _ _ I E2 Hct); intros y [].
    - (* MetaSet *)
      destruct (Hs x (or_introl eq_refl)) as [Hc Hlt].
      destruct (cells h x) as [c|] eqn:E; [|same H I].
      destruct (meta_of c) as [d|] eqn:Em; [|same H I].
      destruct (cells h d) as [[| | | | | |m| | | | |]|] eqn:E2; try (same H I).
      injection H as <- <-.
      assert (Hct : col d = s).
      { apply (own_col h x c d I E Hc). destruct c; simpl in Em; try discriminate; injection Em as <-; simpl; auto.
        apply in_or_app. right. apply in_or_app. right. simpl. auto. }
      apply (write_incl h d _ _ I E2 Hct).
      + intros y Hy. left. unfold links in *. apply in_flat_map in Hy. destruct Hy as (kv & Hkv & Hy).
        simpl in Hkv. apply (dict_set_in N.eqb) in Hkv. destruct Hkv as [->|Hkv]; [destruct Hy|].
        apply in_flat_map. exists kv. split; assumption.
      + intros y [].
    - (* MetaInvalidate *)
      destruct (Hs x (or_introl eq_refl)) as [Hc Hlt].
      destruct (cells h x) as [c|] eqn:E; [|same H I].
      destruct (meta_of c) as [d|] eqn:Em; [|same H I].
      destruct (cells h d) as [[| | | | | |m| | | | |]|] eqn:E2; try (same H I).
      injection H as <- <-.
      assert (Hct : col d = s).
      { apply (own_col h x c d I E Hc). destruct c; simpl in Em; try discriminate; injection Em as <-; simpl; auto.
        apply in_or_app. right. apply in_or_app. right. simpl. auto. }
      apply (write_incl h d _ _ I E2 Hct).
      + intros y Hy. left. exact Hy.
      + intros y [].
    - (* NSetName *)
      unfold with_node in H. destruct (cells h n) as [[|x| | | | | | | | | |]|] eqn:E; try (same H I).
      injection H as <- <-. destruct (Hs n (or_introl eq_refl)) as [Hc _].
      apply (write_incl h n _ _ I E Hc); intros y Hy; left; exact Hy.
    - (* NReplaceInput *)
      unfold with_node in H. destruct (cells h n) as [[|x| | | | | | | | | |]|] eqn:E; try (same H I).
      destruct (Hs n (or_introl eq_refl)) as [Hc _].
      destruct (set_nth (n_inputs x) i v) as [l|] eqn:El; [|same H I]. injection H as <- <-.
      assert (Hin : forall y, In y (flat_map oid l) -> In y (flat_map oid (n_inputs x)) \/ y < next h).
      { intros y Hy. apply in_flat_map in Hy. destruct Hy as (o & Ho & Hy).
        destruct (set_nth_in _ _ _ _ _ El Ho) as [->|K].
        - right. apply Hs. simpl. right. exact Hy.
        - left. apply in_flat_map. exists o. split; assumption. }
      apply (write_incl h n _ _ I E Hc).
      + intros y Hy. unfold replace_input in Hy.
        assert (Hgen : forall dv, (forall z, In z (flat_map dev_ids dv) -> In z (flat_map dev_ids (n_dev x))) ->
                  In y (links (CNode (set_n_inputs_dev x l dv))) -> In y (links (CNode x)) \/ y < next h).
        { intros dv Hdv Hy'. unfold set_n_inputs_dev, links in Hy'. simpl in Hy'. unfold links.
          apply in_app_or in Hy'. destruct Hy' as [Hy'|Hy'].
          - destruct (Hin y Hy') as [K|K]; [left; apply in_or_app; left; exact K|right; exact K].
          - left. apply in_or_app. right.
            apply in_app_or in Hy'. destruct Hy' as [Hy'|Hy']; [apply in_or_app; left; exact Hy'|apply in_or_app; right].
            apply in_app_or in Hy'. destruct Hy' as [Hy'|Hy']; [apply in_or_app; left; exact Hy'|apply in_or_app; right].
            simpl in Hy'. destruct Hy' as [<-|[<-|Hy']].
            + apply in_or_app. left. simpl. auto.
            + apply in_or_app. left. simpl. auto.
            + apply in_or_app. right. apply Hdv, Hy'. }
        assert (Hplain : In y (links (CNode (set_n_inputs x l))) -> In y (links (CNode x)) \/ y < next h).
        { intros Hy'. apply (Hgen (n_dev x)); [intros z Hz; exact Hz|exact Hy']. }
        destruct (nth_error (n_inputs x) i) as [[o|]|]; try (apply Hplain, Hy).
        destruct (option_eqb Pos.eqb v (Some o) || existsb (Pos.eqb o) (flat_map oid l ++ n_outputs x));
          [apply Hplain, Hy|].
        apply (Hgen (map (drop_sharding o) (n_dev x))); [|exact Hy]. intros z Hz.
        apply in_flat_map in Hz. destruct Hz as (d' & Hd' & Hz). apply in_map_iff in Hd'.
        destruct Hd' as (d & <- & Hd). apply in_flat_map. exists d. split; [exact Hd|].
        unfold dev_ids, drop_sharding in *. simpl in Hz. apply in_flat_map in Hz. destruct Hz as (sp & Hsp & Hz).
        apply filter_In in Hsp. apply in_flat_map. exists sp. split; [apply Hsp|exact Hz].
      + intros y Hy. left. unfold replace_input in Hy.
        destruct (nth_error (n_inputs x) i) as [[o|]|]; try exact Hy.
        destruct (option_eqb Pos.eqb v (Some o) || existsb (Pos.eqb o) (flat_map oid l ++ n_outputs x)); exact Hy.
    - (* NSetAttr *)
      unfold with_node in H. destruct (cells h n) as [[|x| | | | | | | | | |]|] eqn:E; try (same H I).
      destruct (Hs n (or_introl eq_refl)) as [Hc _].
      set (c0 := CAttr (Att k (AVal t tok) None)) in *.
      destruct (alloc_step col s h c0 I) as (I1 & F1 & C1 & _ & N1 & A1); try (intros y []).
      unfold halloc in H. simpl in H. injection H as <- <-.
      change (Hp (upd (cells h) (next h) c0) (Pos.succ (next h))) with (fst (halloc h c0)).
      set (h1 := fst (halloc h c0)) in *.
      assert (E1 : cells h1 n = Some (CNode x)).
      { rewrite A1; [exact E|]. destruct I as (Hcl & _). apply (proj1 (Hcl _ _ E)). }
      destruct (write_incl h1 n _ (CNode (set_n_attrs x (dict_set N.eqb k (next h) (n_attrs x)))) I1 E1 Hc) as [I2 F2].
      + intros y Hy. unfold set_n_attrs, links in Hy. simpl in Hy. unfold links.
        apply in_app_or in Hy. destruct Hy as [Hy|Hy]; [left; apply in_or_app; left; exact Hy|].
        apply in_app_or in Hy. destruct Hy as [Hy|Hy]; [left; apply in_or_app; right; apply in_or_app; left; exact Hy|].
        apply in_app_or in Hy. destruct Hy as [Hy|Hy].
        * apply in_map_iff in Hy. destruct Hy as (kv & <- & Hkv). apply (dict_set_in N.eqb) in Hkv.
          destruct Hkv as [->|Hkv]; [right; cbn [snd]; rewrite N1; lia|].
          left. apply in_or_app. right. apply in_or_app. right. apply in_or_app. left. apply in_map. exact Hkv.
        * left. apply in_or_app. right. apply in_or_app. right. apply in_or_app. right. exact Hy.
      + intros y Hy. left. exact Hy.
      + split; [exact I2|eapply frame_trans; eassumption].
    - (* NDelAttr *)
      unfold with_node in H. destruct (cells h n) as [[|x| | | | | | | | | |]|] eqn:E; try (same H I).
      injection H as <- <-. destruct (Hs n (or_introl eq_refl)) as [Hc _].
      apply (write_incl h n _ _ I E Hc).
      + intros y Hy. left. unfold set_n_attrs, links in Hy. simpl in Hy. unfold links.
        apply in_app_or in Hy. destruct Hy as [Hy|Hy]; [apply in_or_app; left; exact Hy|].
        apply in_app_or in Hy. destruct Hy as [Hy|Hy]; [apply in_or_app; right; apply in_or_app; left; exact Hy|].
        apply in_app_or in Hy. destruct Hy as [Hy|Hy].
        * apply in_map_iff in Hy. destruct Hy as (kv & <- & Hkv). apply dict_del_in in Hkv.
          apply in_or_app. right. apply in_or_app. right. apply in_or_app. left. apply in_map. exact Hkv.
        * apply in_or_app. right. apply in_or_app. right. apply in_or_app. right. exact Hy.
      + intros y Hy. left. exact Hy.
    - (* GSetName *)
      unfold with_graph in H. destruct (cells h g) as [[| |x| | | | | | | | |]|] eqn:E; try (same H I).
      injection H as <- <-. destruct (Hs g (or_introl eq_refl)) as [Hc _].
      apply (write_incl h g _ _ I E Hc); intros y Hy; left; exact Hy.
    - (* GAppendNode *)
      unfold with_graph in H. destruct (cells h g) as [[| |x| | | | | | | | |]|] eqn:E; try (same H I).
      destruct (Hs g (or_introl eq_refl)) as [Hc Hglt].
      destruct (alloc_values_step col s outs h I) as (I1 & F1 & L1 & A1).
      destruct (alloc_values h outs) as [h1 vs] eqn:Ev. simpl in I1, F1, L1, A1.
      destruct (alloc_step col s h1 (CDict []) I1) as (I2 & F2 & C2 & _ & N2 & A2); try (intros y []).
      set (h2 := fst (halloc h1 (CDict []))) in *.
      destruct (alloc_step col s h2 (CMeta meta_empty) I2) as (I3 & F3 & C3 & _ & N3 & A3); try (intros y []).
      set (h3 := fst (halloc h2 (CMeta meta_empty))) in *.
      set (cn := CNode (Nod (Some nm) 0%N opn 0%N None ins vs [] None (next h1) (next h2) [])) in *.
      assert (Hle1 : next h <= next h1) by apply F1.
      destruct (alloc_step col s h3 cn I3) as (I4 & F4 & C4 & _ & N4 & A4).
      { intros y Hy. unfold cn, links in Hy. simpl in Hy. apply in_app_or in Hy. destruct Hy as [Hy|Hy].
        - assert (y < next h) by (apply Hs; simpl; right; exact Hy). lia.
        - apply in_app_or in Hy. destruct Hy as [Hy|Hy]; [apply L1 in Hy; lia|].
          simpl in Hy. destruct Hy as [<-|[<-|[]]]; lia. }
      { intros y Hy. unfold cn in Hy. simpl in Hy. destruct Hy as [<-|[<-|[]]]; [exact C2|exact C3]. }
      set (h4 := fst (halloc h3 cn)) in *.
      unfold halloc in H. simpl in H. injection H as <- <-.
      change (Hp (upd (cells h1) (next h1) (CDict [])) (Pos.succ (next h1))) with h2.
      change (Hp (upd (cells h2) (next h2) (CMeta meta_empty)) (Pos.succ (next h2))) with h3.
      change (Hp (upd (cells h3) (next h3) cn) (Pos.succ (next h3))) with h4.
      assert (E4 : cells h4 g = Some (CGraph x)).
      { rewrite A4 by lia. rewrite A3 by lia. rewrite A2 by lia. rewrite A1 by lia. exact E. }
      destruct (write_incl h4 g _ (CGraph (set_g_nodes x (g_nodes x ++ [next h3]))) I4 E4 Hc) as [I5 F5].
      + intros y Hy. unfold set_g_nodes, links in Hy. simpl in Hy. unfold links.
        apply in_app_or in Hy. destruct Hy as [Hy|Hy]; [left; apply in_or_app; left; exact Hy|].
        apply in_app_or in Hy. destruct Hy as [Hy|Hy]; [left; apply in_or_app; right; apply in_or_app; left; exact Hy|].
        apply in_app_or in Hy. destruct Hy as [Hy|Hy];
          [left; apply in_or_app; right; apply in_or_app; right; apply in_or_app; left; exact Hy|].
        apply in_app_or in Hy. destruct Hy as [Hy|Hy].
        * apply in_app_or in Hy. destruct Hy as [Hy|[<-|[]]].
          -- left. do 3 (apply in_or_app; right). apply in_or_app. left. exact Hy.
          -- right. rewrite N4. lia.
        * left. do 4 (apply in_or_app; right). exact Hy.
      + intros y Hy. left. exact Hy.
      + split; [exact I5|]. eapply frame_trans; [exact F1|]. eapply frame_trans; [exact F2|].
        eapply frame_trans; [exact F3|]. eapply frame_trans; eassumption.
    - (* GRemoveNode *)
      unfold with_graph in H. destruct (cells h g) as [[| |x| | | | | | | | |]|] eqn:E; try (same H I).
      destruct (Hs g (or_introl eq_refl)) as [Hc _].
      destruct (existsb (Pos.eqb n) (g_nodes x)); [|same H I]. injection H as <- <-.
      apply (write_incl h g _ _ I E Hc).
      + intros y Hy. left. unfold set_g_nodes, links in Hy. simpl in Hy. unfold links.
        apply in_app_or in Hy. destruct Hy as [Hy|Hy]; [apply in_or_app; left; exact Hy|].
        apply in_app_or in Hy. destruct Hy as [Hy|Hy]; [apply in_or_app; right; apply in_or_app; left; exact Hy|].
        apply in_app_or in Hy. destruct Hy as [Hy|Hy];
          [apply in_or_app; right; apply in_or_app; right; apply in_or_app; left; exact Hy|].
        apply in_app_or in Hy. destruct Hy as [Hy|Hy].
        * apply filter_In in Hy. do 3 (apply in_or_app; right). apply in_or_app. left. apply Hy.
        * do 4 (apply in_or_app; right). exact Hy.
      + intros y Hy. left. exact Hy.
    - (* GOpsetSet *)
      unfold with_graph in H. destruct (cells h g) as [[| |x| | | | | | | | |]|] eqn:E; try (same H I).
      destruct (Hs g (or_introl eq_refl)) as [Hc _].
      destruct (cells h (g_opset x)) as [[| | | | |l| | | | | |]|] eqn:E2; try (same H I).
      injection H as <- <-.
      assert (Hct : col (g_opset x) = s). { apply (own_col h g _ _ I E Hc). simpl. auto. }
      apply (write_incl h (g_opset x) _ _ I E2 Hct); intros y [].
    - (* ASetDoc *)
      destruct (cells h a) as [[| | | | | | |x| | | |]|] eqn:E; try (same H I).
      injection H as <- <-. destruct (Hs a (or_introl eq_refl)) as [Hc _].
      apply (write_incl h a _ _ I E Hc); intros y Hy; left; exact Hy.
    - (* ASetName *)
      destruct (cells h a) as [[| | | | | | |x| | | |]|] eqn:E; try (same H I).
      injection H as <- <-. destruct (Hs a (or_introl eq_refl)) as [Hc _].
      apply (write_incl h a _ _ I E Hc); intros y Hy; left; exact Hy.
  Qed.

  (* ---- with tensor renames: every cell of the other side that is not a tensor object is unchanged *)
  Definition is_tensor (c : option cell) : bool := match c with Some (CTensor _) => true | _ => false end.
  Definition frame_nt (h h' : heap) : Prop :=
    next h <= next h' /\ forall x, col x <> s -> is_tensor (cells h x) = false -> cells h' x = cells h x.

  Lemma frame_frame_nt h h' : frame h h' -> frame_nt h h'.
  Proof. intros [H1 H2]. split; [exact H1|]. intros x Hx _. apply H2, Hx. Qed.

  Lemma write_tensor h t nm nm' :
    inv h -> cells h t = Some (CTensor nm) ->
    inv (hwrite h t (CTensor nm')) /\
    (forall x, x <> t -> cells (hwrite h t (CTensor nm')) x = cells h x).
  Proof.
    intros (Hc & Hsp & Hn) Ht. split; [split; [|split]|].
    - intros z cz Hz. unfold hwrite in Hz. simpl in Hz. unfold upd in Hz.
      destruct (Pos.eqb_spec z t) as [->|Hne].
      + injection Hz as <-. simpl. split; [apply (proj1 (Hc _ _ Ht))|intros y []].
      + apply (Hc _ _ Hz).
    - intros z cz Hz y Hy. unfold hwrite in Hz. simpl in Hz. unfold upd in Hz.
      destruct (Pos.eqb_spec z t) as [->|Hne].
      + injection Hz as <-. destruct Hy.
      + apply (Hsp _ _ Hz y Hy).
    - exact Hn.
    - intros x Hx. unfold hwrite. simpl. apply upd_other. exact Hx.
  Qed.

  Theorem apply_op_step_nt h o h' r :
    inv h -> op_sided h o -> op_refs_ok h o -> apply_op h o = (h', r) -> inv h' /\ frame_nt h h'.
  Proof.
    intros I Hs Hrf H. destruct (renames_tensor h o) eqn:Hrt.
    - destruct o; try discriminate. unfold renames_tensor in Hrt. unfold apply_op, with_value in H.
      destruct (cells h v) as [[x| | | | | | | | | | |]|] eqn:E; try discriminate.
      destruct (option_eqb N.eqb (v_name x) n); [discriminate|].
      destruct (v_const x) as [t|]; [|discriminate].
      destruct (cells h t) as [[| | | | | | | | | | |nm]|] eqn:Et; try discriminate.
      injection H as <- <-. destruct (Hs v (or_introl eq_refl)) as [Hc _].
      destruct (write_incl h v _ (CValue (set_v_name x n)) I E Hc) as [I1 [F1 F2]];
        try (intros y Hy; left; exact Hy).
      assert (Et1 : cells (hwrite h v (CValue (set_v_name x n))) t = Some (CTensor nm)).
      { unfold hwrite. simpl. rewrite upd_other; [exact Et|]. intros ->. rewrite E in Et. discriminate. }
      destruct (write_tensor _ t nm n I1 Et1) as [I2 K]. split; [exact I2|]. split; [simpl; lia|].
      intros z Hz Hnt. rewrite K.
      + apply F2, Hz.
      + intros ->. rewrite Et in Hnt. discriminate.
    - destruct (apply_op_step h o h' r I Hs Hrf Hrt H) as [I1 F1]. split; [exact I1|apply frame_frame_nt, F1].
  Qed.
End OpStep.

(* C13/GenEquiv.v - the per-run translation of Cloner._remap_device_configurations (Gen/C13Gen.v gen_remap: loops with
   the `changed` / `spec_changed` flags, the "mapped to None: drop the spec" branch, the early return) computes what
   the hand model uses (map (remap_dev m)) whenever the value map has no None entry - which is the case for every
   value map the clone() entry points build. *)
From Coq Require Import List ZArith NArith PArith Bool Lia.
From IRV Require Import Base.Exn C13.Model C13.PyRemap Gen.C13Gen.
Import ListNotations.

Definition lift_vmap (m : list (id * id)) : pyvmap := map (fun p => (fst p, Some (snd p))) m.

Lemma assoc_lift m x : assoc x (lift_vmap m) = option_map Some (assoc x m).
Proof.
  induction m as [|[k v] r IH]; simpl; [reflexivity|]. destruct (Pos.eqb x k); [reflexivity|exact IH].
Qed.

Definition spec_mapped (m : list (id * id)) (s : spec) : bool :=
  match sp_value s with Some v => match assoc v m with Some _ => true | None => false end | None => false end.

Lemma remap_spec_unmapped m s : spec_mapped m s = false -> remap_spec m s = s.
Proof.
  unfold spec_mapped, remap_spec. destruct (sp_value s) as [v|]; [|reflexivity].
  destruct (assoc v m); [discriminate|reflexivity].
Qed.

Lemma map_remap_unmapped m l : existsb (spec_mapped m) l = false -> map (remap_spec m) l = l.
Proof.
  induction l as [|s r IH]; simpl; [reflexivity|]. intros H. apply orb_false_iff in H. destruct H as [H1 H2].
  rewrite remap_spec_unmapped by exact H1. rewrite IH by exact H2. reflexivity.
Qed.

(* one iteration of the inner loop *)
Lemma inner_step m (acc : list spec) (flag : bool) (s : spec) :
  (let '(new_specs, spec_changed) := (acc, flag) in
   if is_none (sp_value s) || negb (vm_mem (lift_vmap m) (sp_value s))
   then let new_specs := new_specs ++ [s] in (new_specs, spec_changed)
   else let mapped := vm_get (lift_vmap m) (sp_value s) in
        if is_none mapped then let spec_changed := true in (new_specs, spec_changed)
        else let new_specs := new_specs ++ [upd_spec_value s mapped] in let spec_changed := true in (new_specs, spec_changed))
  = (acc ++ [remap_spec m s], flag || spec_mapped m s).
Proof.
  unfold spec_mapped, remap_spec, vm_mem, vm_get, upd_spec_value. cbv zeta.
  destruct (sp_value s) as [v|] eqn:E; simpl.
  - rewrite assoc_lift. destruct (assoc v m) as [c|]; simpl.
    + rewrite orb_true_r. reflexivity.
    + rewrite orb_false_r. destruct s; simpl in *; subst; reflexivity.
  - rewrite orb_false_r. destruct s; simpl in *; subst; reflexivity.
Qed.

Lemma inner_fold m f :
  (forall acc flag s, f (acc, flag) s = (acc ++ [remap_spec m s], flag || spec_mapped m s)) ->
  forall l acc flag, fold_left f l (acc, flag) = (acc ++ map (remap_spec m) l, flag || existsb (spec_mapped m) l).
Proof.
  intros Hf. induction l as [|s r IH]; intros acc flag; simpl.
  - rewrite app_nil_r, orb_false_r. reflexivity.
  - rewrite Hf, IH. rewrite <- app_assoc, orb_assoc. reflexivity.
Qed.

Definition dev_mapped (m : list (id * id)) (d : devcfg) : bool := existsb (spec_mapped m) (dc_specs d).

Lemma remap_dev_unmapped m d : dev_mapped m d = false -> remap_dev m d = d.
Proof.
  unfold dev_mapped, remap_dev. intros H. rewrite map_remap_unmapped by exact H. destruct d; reflexivity.
Qed.

Lemma outer_fold m f :
  (forall acc ch d, f (acc, ch) d = (acc ++ [remap_dev m d], ch || dev_mapped m d)) ->
  forall l acc ch, fold_left f l (acc, ch) = (acc ++ map (remap_dev m) l, ch || existsb (dev_mapped m) l).
Proof.
  intros Hf. induction l as [|s r IH]; intros acc ch; simpl.
  - rewrite app_nil_r, orb_false_r. reflexivity.
  - rewrite Hf, IH. rewrite <- app_assoc, orb_assoc. reflexivity.
Qed.

Lemma map_remap_dev_unmapped m l : existsb (dev_mapped m) l = false -> map (remap_dev m) l = l.
Proof.
  induction l as [|s r IH]; simpl; [reflexivity|]. intros H. apply orb_false_iff in H. destruct H as [H1 H2].
  rewrite remap_dev_unmapped by exact H1. rewrite IH by exact H2. reflexivity.
Qed.

Theorem gen_remap_model m dcs : gen_remap (lift_vmap m) dcs = map (remap_dev m) dcs.
Proof.
  unfold gen_remap. destruct dcs as [|d0 r0]; [reflexivity|]. cbv beta iota delta [py_not_list].
  set (dcs := d0 :: r0). cbv zeta.
  rewrite (outer_fold m).
  - cbn [app orb]. destruct (existsb (dev_mapped m) dcs) eqn:E; cbv beta iota; [reflexivity|].
    symmetry. apply map_remap_dev_unmapped. exact E.
  - intros acc ch d.
    rewrite (inner_fold m).
    + simpl app. simpl orb. unfold dev_mapped. destruct (existsb (spec_mapped m) (dc_specs d)) eqn:E.
      * rewrite orb_true_r. reflexivity.
      * rewrite orb_false_r. unfold upd_configuration_sharding_specs.
        replace (remap_dev m d) with d; [reflexivity|]. symmetry. apply remap_dev_unmapped. exact E.
    + intros acc' flag s. apply (inner_step m acc' flag s).
Qed.

(* C13/Property.v — ONLY the property theorems of C13 ("clones are faithful and fully independent of their
   originals"), each closed by a lemma of Proofs*.v and followed by Print Assumptions.

   Vocabulary (C13/Model.v): a heap maps object identities to cells; [graph_clone fuel allow deep g h] is
   Graph.clone(allow_outer_scope_values=allow, deep_copy=deep) (GraphView.clone is the same function with
   allow = false), [function_clone], [model_clone] are Function.clone / Model.clone; the result is the final
   cloner state (heap, value map, and the ghost lists [passed] / [kept]) and Ok clone-root | Raise exception.
   Results Raise OtherError (dangling reference in the model heap, recursion fuel exhausted) never arise from
   the implementation; every statement below requires an Ok result, so they are excluded explicitly.
   [reach h n0 r x]: x is reachable from r through cells allocated at or after n0.
   [gcanon]/[fcanon]/[mcanon]: canonical serialization (model of ir.to_proto plus the metadata stores).
   [closed h]: every reference in h points to an allocated id (< next h). *)
From Coq Require Import List ZArith NArith PArith Bool Lia.
From IRV Require Import Base.Exn C13.Model C13.Proofs1 C13.Proofs3 C13.Proofs8 C13.Proofs9 C13.Proofs10
     C13.Proofs11 C13.Proofs12 C13.Proofs13 C13.Proofs14
     C13.PyRemap Gen.C13Gen C13.Pinned C13.GenEquiv.
Import ListNotations.
Local Open Scope positive_scope.

(* ---- cloning only allocates: no existing cell is written, whatever the outcome (also on a rejected clone) *)
Theorem C13_clone_only_allocates :
  forall fuel allow deep g h st r,
    graph_clone fuel allow deep g h = (st, r) -> forall x, x < next h -> cells (hp st) x = cells h x.
Proof. exact P_frame_graph. Qed.
Print Assumptions C13_clone_only_allocates.

Theorem C13_model_clone_only_allocates :
  forall fuel deep m h st r,
    model_clone fuel deep m h = (st, r) -> forall x, x < next h -> cells (hp st) x = cells h x.
Proof. exact P_frame_model. Qed.
Print Assumptions C13_model_clone_only_allocates.

Theorem C13_function_clone_only_allocates :
  forall fuel deep f h st r,
    function_clone fuel deep f h = (st, r) -> forall x, x < next h -> cells (hp st) x = cells h x.
Proof. exact P_frame_function. Qed.
Print Assumptions C13_function_clone_only_allocates.

(* ---- C13_fresh: every cell (graph, node, value, shape, type, metadata dict, metadata store, opset dict,
   attribute, ...) reachable from the clone is newly allocated, except [shared_ok]: a shared non-graph Attr
   cell, an object stored in a meta store when deep_copy is False, a passed-through value — only when
   allow_outer_scope_values is True — and, only if the original violates C19's invariant [wf_dev] (a sharding
   spec about a value that is neither input nor output of its node), such a spec's value, and the tensor OBJECT
   of a value's const_value (a cell with a mutable name; never copied — see C13_independent_tensor_rename_refuted).
   (Statement for Graph.clone and GraphView.clone.) *)
Theorem C13_fresh :
  forall allow deep h fuel g st g',
    closed h -> g < next h -> graph_clone fuel allow deep g h = (st, Ok g') ->
    (wf_dev h \/ ~ wf_dev h) ->
    forall x, reach (cells (hp st)) (next h) g' x -> next h <= x \/ shared_ok allow deep h st x.
Proof. intros allow deep h fuel g st g' Hc Hg Hr Hd x. apply (P_graph_fresh allow deep h fuel g st g' Hc Hg Hr x Hd). Qed.
Print Assumptions C13_fresh.

(* without the flag (and with C19's invariant) nothing but shared Attr cells and shallow meta objects is shared:
   a graph that references an outer-scope value is rejected instead (Raise), see C13_unsorted_outer_refuted *)
Theorem C13_fresh_without_flag :
  forall deep h fuel g st g',
    closed h -> g < next h -> wf_dev h -> graph_clone fuel false deep g h = (st, Ok g') ->
    forall x, reach (cells (hp st)) (next h) g' x -> x < next h ->
      (exists a, cells h x = Some (CAttr a) /\ shared_attr a) \/
      (deep = false /\ exists m md k, cells h m = Some (CMeta md) /\ In (k, MObj x) (m_data md)) \/
      (exists o v0, cells h o = Some (CValue v0) /\ v_const v0 = Some x).
Proof.
  intros deep h fuel g st g' Hc Hg Hd Hr x. apply (P_graph_no_capture false deep h fuel g st g' Hc Hg Hr x Hd eq_refl).
Qed.
Print Assumptions C13_fresh_without_flag.

Theorem C13_fresh_model :
  forall deep h fuel m st m',
    closed h -> m < next h -> model_clone fuel deep m h = (st, Ok m') -> (wf_dev h \/ ~ wf_dev h) ->
    forall x, reach (cells (hp st)) (next h) m' x -> next h <= x \/ shared_ok false deep h st x.
Proof. intros deep h fuel m st m' Hc Hm Hr Hd x. apply (P_model_fresh deep h fuel Hc m st m' x Hd Hm Hr). Qed.
Print Assumptions C13_fresh_model.

Theorem C13_fresh_function :
  forall deep h fuel f st f',
    closed h -> f < next h -> function_clone fuel deep f h = (st, Ok f') -> (wf_dev h \/ ~ wf_dev h) ->
    forall x, reach (cells (hp st)) (next h) f' x -> next h <= x \/ shared_ok false deep h st x.
Proof. intros deep h fuel f st f' Hc Hf Hr Hd x. apply (P_function_fresh deep h fuel Hc f st f' x Hd Hf Hr). Qed.
Print Assumptions C13_fresh_function.

(* GraphView.clone is Graph.clone's cloner with allow_outer_scope_values at its default False: every theorem
   about [graph_clone fuel false deep] is a theorem about GraphView.clone *)
Theorem C13_view_clone_is_graph_clone :
  forall fuel deep g h, view_clone fuel deep g h = graph_clone fuel false deep g h.
Proof. reflexivity. Qed.
Print Assumptions C13_view_clone_is_graph_clone.

(* the clone is always a Graph, never a view *)
Theorem C13_clone_is_graph :
  forall allow deep h fuel g st g',
    closed h -> g < next h -> graph_clone fuel allow deep g h = (st, Ok g') ->
    exists x, cells (hp st) g' = Some (CGraph x) /\ g_view x = false.
Proof. exact P_graph_is_graph. Qed.
Print Assumptions C13_clone_is_graph.

(* ---- C13_closed: if no value is used before the traversal defines it (no passed-through or kept value later
   receives a clone — for a graph whose nodes are topologically sorted), every pre-existing cell reachable
   from the clone is a shared Attr, a shallow meta object, or a value that the cloned graph does NOT own
   (a genuine outer-scope value): every reference inside the clone points into the clone or to the captured set. *)
Theorem C13_closed :
  forall allow deep h fuel g st g',
    closed h -> g < next h -> graph_clone fuel allow deep g h = (st, Ok g') ->
    (forall v, In v (passed st) \/ In v (kept st) -> assoc v (vmap st) = None) ->
    forall x, reach (cells (hp st)) (next h) g' x -> x < next h ->
      (exists a, cells h x = Some (CAttr a) /\ shared_attr a) \/
      (deep = false /\ exists m md k, cells h m = Some (CMeta md) /\ In (k, MObj x) (m_data md)) \/
      (exists o v0, cells h o = Some (CValue v0) /\ v_const v0 = Some x) \/
      ((In x (passed st) \/ In x (kept st)) /\ forall k, ~ In x (owned (cells h) k g)).
Proof.
  intros allow deep h fuel g st g' Hc Hg Hr Hs x. apply (P_graph_closed allow deep h fuel g st g' Hc Hg Hr x Hs).
Qed.
Print Assumptions C13_closed.

(* ---- C13_faithful: the clone serializes exactly like the original ([dicts_wf]: the dictionaries of the
   original are dictionaries — unique keys, attributes/initializers filed under their names) *)
Theorem C13_faithful :
  forall allow deep h fuel g st g',
    closed h -> g < next h -> graph_clone fuel allow deep g h = (st, Ok g') -> dicts_wf h ->
    forall k, gcanon (cells (hp st)) k g' = gcanon (cells h) k g.
Proof. exact P_graph_faithful. Qed.
Print Assumptions C13_faithful.

Theorem C13_faithful_function :
  forall deep h fuel f st f',
    closed h -> f < next h -> function_clone fuel deep f h = (st, Ok f') -> dicts_wf h ->
    forall k, fcanon (cells (hp st)) k f' = fcanon (cells h) k f.
Proof. intros deep h fuel f st f' Hc. apply (P_function_faithful deep h fuel Hc). Qed.
Print Assumptions C13_faithful_function.

Theorem C13_faithful_model :
  forall deep h fuel m st m',
    closed h -> m < next h -> model_clone fuel deep m h = (st, Ok m') -> dicts_wf h ->
    forall k, mcanon (cells (hp st)) k m' = mcanon (cells h) k m.
Proof. intros deep h fuel m st m' Hc. apply (P_model_faithful deep h fuel Hc). Qed.
Print Assumptions C13_faithful_model.

(* ---- C13_independent.  Footprint of every operation of the edit alphabet (set name / doc / const_value /
   dtype / type / shape / shape[i], metadata_props[k]= / pop, meta[k]= / invalidate, node name,
   replace_input_with, attributes[k]= / pop, graph name, append / remove node, opset_imports[k]=, and the in-place
   Attr edits attr.doc_string= / attr.name=): for ANY two-colouring of identities in which every object owns
   sub-objects of its own colour ([sep]), an operation whose arguments have colour s and that does not rename a
   tensor object ([renames_tensor]: Value.name = n on a value whose const_value is a tensor) writes only cells of
   colour s and preserves the invariant ... *)
Theorem C13_independent_step :
  forall col s h o h' r,
    inv col s h -> op_sided col s h o -> op_refs_ok h o -> renames_tensor h o = false ->
    apply_op h o = (h', r) -> inv col s h' /\ frame col s h h'.
Proof. exact apply_op_step. Qed.
Print Assumptions C13_independent_step.

(* ... and EVERY operation, tensor renames included, leaves every cell of the other colour that is not a tensor
   object unchanged (the only cell the Value.name setter writes besides the value is its const_value tensor) *)
Theorem C13_independent_step_any :
  forall col s h o h' r,
    inv col s h -> op_sided col s h o -> op_refs_ok h o ->
    apply_op h o = (h', r) -> inv col s h' /\ frame_nt col s h h'.
Proof. exact apply_op_step_nt. Qed.
Print Assumptions C13_independent_step_any.

(* interleaved histories: before an operation of side s the identities not yet allocated may be given colour s
   (they do not occur in the heap), so the step theorems apply to every operation of any interleaving and the
   cells of the other side, whatever it is at that moment, are unchanged by it *)
Theorem C13_independent_recolor :
  forall col h s, closed h -> sep col h -> inv (fun x => if Pos.leb (next h) x then s else col x) s h.
Proof. exact inv_recolor. Qed.
Print Assumptions C13_independent_recolor.

(* after a clone the invariant holds for both colourings, so: any history of edits of the clone (of objects
   created by the clone or later) leaves every cell of the original that is not a tensor object exactly as it
   was before cloning — for EVERY history over the alphabet ... *)
Theorem C13_independent :
  forall allow deep h fuel g st g' ops,
    closed h -> g < next h -> graph_clone fuel allow deep g h = (st, Ok g') ->
    ops_sided (col_clone (next h)) true (hp st) ops ->
    forall x, x < next h -> is_tensor (cells h x) = false -> cells (apply_ops (hp st) ops) x = cells h x.
Proof.
  intros allow deep h fuel g st g' ops Hc Hg Hr Hs x. apply (P_graph_clone_edits_nt allow deep h fuel g st g' Hc Hg Hr ops x Hs).
Qed.
Print Assumptions C13_independent.

(* ... all cells, tensors included, when the history renames no value that carries a const_value tensor ... *)
Theorem C13_independent_no_tensor_rename :
  forall allow deep h fuel g st g' ops,
    closed h -> g < next h -> graph_clone fuel allow deep g h = (st, Ok g') ->
    ops_sided (col_clone (next h)) true (hp st) ops -> ops_no_trename (hp st) ops ->
    forall x, x < next h -> cells (apply_ops (hp st) ops) x = cells h x.
Proof.
  intros allow deep h fuel g st g' ops Hc Hg Hr Hs Hn x.
  apply (P_graph_clone_edits allow deep h fuel g st g' Hc Hg Hr ops x Hs Hn).
Qed.
Print Assumptions C13_independent_no_tensor_rename.

(* ... hence, for such histories, the original's serialization is unchanged ... *)
Theorem C13_independent_canon :
  forall allow deep h fuel g st g' ops k,
    closed h -> g < next h -> graph_clone fuel allow deep g h = (st, Ok g') ->
    ops_sided (col_clone (next h)) true (hp st) ops -> ops_no_trename (hp st) ops ->
    gcanon (cells (apply_ops (hp st) ops)) k g = gcanon (cells h) k g.
Proof.
  intros allow deep h fuel g st g' ops k Hc Hg Hr. apply (P_graph_clone_edits_canon allow deep h fuel g st g' Hc Hg Hr ops k).
Qed.
Print Assumptions C13_independent_canon.

(* ... and symmetrically any history of edits of the original (objects that existed before the clone, or
   created later) leaves every non-tensor cell created by the clone as the clone made it (all cells without renames) *)
Theorem C13_independent_sym :
  forall allow deep h fuel g st g' ops,
    closed h -> g < next h -> graph_clone fuel allow deep g h = (st, Ok g') ->
    ops_sided (col_orig (next h) (next (hp st))) true (hp st) ops ->
    forall x, next h <= x -> x < next (hp st) -> is_tensor (cells (hp st) x) = false ->
              cells (apply_ops (hp st) ops) x = cells (hp st) x.
Proof.
  intros allow deep h fuel g st g' ops Hc Hg Hr Hs x. apply (P_graph_orig_edits_nt allow deep h fuel g st g' Hc Hg Hr ops x Hs).
Qed.
Print Assumptions C13_independent_sym.

Theorem C13_independent_model :
  forall deep h fuel m st m' ops,
    closed h -> m < next h -> model_clone fuel deep m h = (st, Ok m') ->
    ops_sided (col_clone (next h)) true (hp st) ops -> ops_no_trename (hp st) ops ->
    forall x, x < next h -> cells (apply_ops (hp st) ops) x = cells h x.
Proof.
  intros deep h fuel m st m' ops Hc Hm Hr Hs Hn x. apply (P_model_clone_edits deep h fuel Hc m st m' ops x Hm Hr Hs Hn).
Qed.
Print Assumptions C13_independent_model.

(* ---- the full statement "every clone-sided history leaves the original's serialization unchanged" is REFUTED
   (known finding tensor-rename-alias): for the model  Constant(value = t) -> v  with v.const_value = t, renaming
   the CLONE's value (a clone-sided operation on a newly allocated cell) rewrites the pre-existing tensor cell t
   and changes the canonical serialization of the ORIGINAL model. *)
Theorem C13_independent_tensor_rename_refuted :
  let run := model_clone 3 false 15 w2 in
  closed w2 /\ snd run = Ok 28 /\
  ops_sided (col_clone (next w2)) true (hp (fst run)) [VSetName 20 (Some 9%N)] /\
  renames_tensor (hp (fst run)) (VSetName 20 (Some 9%N)) = true /\
  cells (apply_ops (hp (fst run)) [VSetName 20 (Some 9%N)]) 1 <> cells w2 1 /\
  mcanon (cells (apply_ops (hp (fst run)) [VSetName 20 (Some 9%N)])) 3 15 <> mcanon (cells w2) 3 15.
Proof.
  cbv zeta. split; [exact w2_closed|]. split; [exact w2_result|]. split; [exact w2_rename_sided|].
  split; [exact w2_rename_is_tensor_rename|exact w2_rename_changes_original].
Qed.
Print Assumptions C13_independent_tensor_rename_refuted.

(* ---- non-graph Attr objects are SHARED cells (by design of the cloner): an in-place edit of the Attr object
   reached through the clone's node is an edit of the original's attribute (it is an operation on a pre-existing
   cell, so it is not clone-sided and C13_independent does not apply); replacing / removing the entry in the clone's
   attribute dict is clone-sided and leaves the original as it was. *)
Theorem C13_shared_attr_edit_visible :
  let run := model_clone 3 false 15 w2 in
  (exists n, cells (hp (fst run)) 21 = Some (CNode n) /\ n_attrs n = [(2%N, 2)] /\ n_outputs n = [20]) /\
  mcanon (cells (apply_ops (hp (fst run)) [ASetDoc 2 (Some 8%N)])) 3 15 <> mcanon (cells w2) 3 15 /\
  mcanon (cells (apply_ops (hp (fst run)) [NSetAttr 21 2%N 2%N 5%N; NDelAttr 21 2%N])) 3 15 = mcanon (cells w2) 3 15.
Proof.
  cbv zeta. split; [exact (proj2 w2_clone_cells)|]. split; [exact w2_attr_edit_changes_original|].
  exact w2_attr_set_keeps_original.
Qed.
Print Assumptions C13_shared_attr_edit_visible.

Example C13_no_tensor_rename_satisfiable :
  let run := model_clone 3 false 15 w2 in
  let ops := [VSetDoc 20 (Some 9%N); VSetConst 20 None; VSetName 20 (Some 9%N)] in
  ops_sided (col_clone (next w2)) true (hp (fst run)) ops /\ ops_no_trename (hp (fst run)) ops /\
  mcanon (cells (apply_ops (hp (fst run)) ops)) 3 15 = mcanon (cells w2) 3 15.
Proof. exact w2_no_trename_history. Qed.

(* ---- C13_functional_pass_pure: functionalize(p)(model) = p(model.clone()); whatever program of edits the
   pass runs on the clone it is given (and on what it creates) — not renaming values that carry a const_value
   tensor, see the refutation above — the input model's cells and serialization are unchanged, also when cloning is
   rejected. *)
Theorem C13_functional_pass_pure :
  forall fuel prog m h h' r,
    closed h -> m < next h ->
    (forall st m', model_clone fuel false m h = (st, Ok m') ->
                   ops_sided (col_clone (next h)) true (hp st) (prog m') /\ ops_no_trename (hp st) (prog m')) ->
    functional_pass fuel prog m h = (h', r) ->
    (forall x, x < next h -> cells h' x = cells h x) /\
    (forall k, mcanon (cells h') k m = mcanon (cells h) k m).
Proof. exact P_functional_pass_pure. Qed.
Print Assumptions C13_functional_pass_pure.

(* ---- C13_closed without its "defined before use" hypothesis (code after fix "clone_graph raises on a value used
   before its definition"): the cloner itself rejects a graph in which a passed-through value later receives a
   clone, so for every ACCEPTED clone of a graph satisfying C19's invariant every pre-existing cell reachable from
   the clone is a shared Attr, a shallow meta object, or a passed-through value the cloned graph does not own. *)
Theorem C13_closed_accepted :
  forall allow deep h fuel g st g',
    closed h -> g < next h -> wf_dev h -> graph_clone fuel allow deep g h = (st, Ok g') ->
    forall x, reach (cells (hp st)) (next h) g' x -> x < next h ->
      (exists a, cells h x = Some (CAttr a) /\ shared_attr a) \/
      (deep = false /\ exists m md k, cells h m = Some (CMeta md) /\ In (k, MObj x) (m_data md)) \/
      (exists o v0, cells h o = Some (CValue v0) /\ v_const v0 = Some x) \/
      (In x (passed st) /\ forall k, ~ In x (owned (cells h) k g)).
Proof. exact Proofs13.C13_closed_accepted. Qed.
Print Assumptions C13_closed_accepted.

(* the unsorted graph g(x): [B: b = Neg(a); A: a = Relu(x)] -> b is now rejected with and without the flag *)
Theorem C13_unsorted_rejected :
  snd (graph_clone 3 true false 19 wit_heap) = Raise RuntimeError /\
  snd (graph_clone 3 false false 19 wit_heap) = Raise RuntimeError.
Proof. exact Proofs13.C13_unsorted_rejected. Qed.
Print Assumptions C13_unsorted_rejected.

(* ---- what "faithful" covers: the canonical serialization of C13_faithful observes the type denotation at every
   level of the element-type chain, the set of invalid metadata keys (MetadataStore._invalid_keys) and Node.overload;
   two graphs that differ in one of them have different canonical serializations, so a clone that dropped one of
   them would contradict C13_faithful. *)
Theorem C13_canon_observes_denotation_invalid_keys_overload :
  forall den inv ov den' inv' ov',
    gcanon (fun x => assoc x (w3_cells den inv ov)) 1 11 = gcanon (fun x => assoc x (w3_cells den' inv' ov')) 1 11 ->
    den = den' /\ inv = inv' /\ ov = ov'.
Proof. exact canon_observes_fields. Qed.
Print Assumptions C13_canon_observes_denotation_invalid_keys_overload.

(* ---- the source the model describes.  Gen/C13Gen.v is regenerated from /repo on every run.
   (a) Every statement of Cloner._get_value / _clone_or_get_value / clone_attr / clone_meta / clone_node /
   _remap_device_configurations / clone_graph, of Graph.clone / GraphView.clone / Function.clone / Model.clone and of
   _FunctionalPassWrapper.call is the statement the model was written and proved against (C13/Pinned.v says which
   model definition implements which method): an edit of any of them breaks this obligation (fail closed). *)
Theorem C13_source_pinned : src_all = pinned_all.
Proof. reflexivity. Qed.
Print Assumptions C13_source_pinned.

(* (b) Cloner._remap_device_configurations is translated statement by statement (its two loops with the `changed` /
   `spec_changed` flags, `continue`, the "mapped to None: drop" branch, the early return and the final conditional):
   for every value map without None entries - every map a clone() entry point builds - the translation computes
   exactly what the model's clone_node uses. *)
Theorem C13_remap_translation :
  forall m dcs, gen_remap (lift_vmap m) dcs = map (remap_dev m) dcs.
Proof. exact gen_remap_model. Qed.
Print Assumptions C13_remap_translation.

(* ---- the hypotheses are satisfiable by a non-trivial state *)
Example C13_hypotheses_satisfiable : closed wit_heap /\ dicts_wf wit_heap /\ wf_dev wit_heap /\ 19 < next wit_heap.
Proof. split; [exact wit_closed|]. split; [exact wit_wf|]. split; [exact wit_wfdev|reflexivity]. Qed.

(* C13/PyRemap.v - the Python primitives that the translation of Cloner._remap_device_configurations uses
   (Gen/C13Gen.v, regenerated from the source on every run).  The value map of the implementation may map a value
   to None; the model's value map never does. *)
From Coq Require Import List PArith Bool.
From IRV Require Import Base.Exn C13.Model.
Import ListNotations.

Definition pyvmap := list (id * option id).
(* spec.value in self._value_map   (spec.value is a Value or None; None is never a key) *)
Definition vm_mem (vm : pyvmap) (k : option id) : bool :=
  match k with Some x => match assoc x vm with Some _ => true | None => false end | None => false end.
(* self._value_map[spec.value]     (only evaluated when the key is present) *)
Definition vm_get (vm : pyvmap) (k : option id) : option id :=
  match k with Some x => match assoc x vm with Some o => o | None => None end | None => None end.
Definition is_none {A} (o : option A) : bool := match o with None => true | Some _ => false end.
(* not <tuple> *)
Definition py_not_list {A} (l : list A) : bool := match l with [] => true | _ => false end.
(* dataclasses.replace(spec, value=v) / dataclasses.replace(configuration, sharding_specs=l) *)
Definition upd_spec_value (s : spec) (v : option id) : spec := Spc v (sp_rest s).
Definition upd_configuration_sharding_specs (d : devcfg) (l : list spec) : devcfg := Dev (dc_cfg d) (dc_stage d) l.

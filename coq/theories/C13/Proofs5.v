(* C13/Proofs5.v — the cloner's invariant, part 3: attributes, nodes, graphs (by induction on the recursion depth). *)
From Coq Require Import List ZArith NArith PArith Bool Lia.
From IRV Require Import Base.Exn C13.Model C13.Proofs1 C13.Proofs2 C13.Proofs3 C13.Proofs4.
Import ListNotations.
Local Open Scope positive_scope.

Lemma mapM_attr_name_of l : forall st st' ns,
  mapM attr_name_of l st = (st', Ok ns) ->
  st' = st /\ Forall2 (fun a nm => exists x, cells (hp st) a = Some (CAttr x) /\ a_name x = nm) l ns.
Proof.
  induction l as [|a l IH]; intros st st' ns H.
  - apply mapM_ok_nil in H. destruct H; subst. split; [reflexivity|constructor].
  - apply mapM_ok_cons in H. destruct H as (st1 & b & bs' & H1 & H2 & ->).
    unfold attr_name_of in H1. bind_as H1 s x E. apply get_attr_ok in E. destruct E as [-> E].
    unfold ret in H1. injection H1 as <- <-.
    destruct (IH _ _ _ H2) as [-> F]. split; [reflexivity|]. constructor; [|exact F].
    exists x. split; [exact E|reflexivity].
Qed.

Lemma mapM_value_name_of l : forall st st' ns,
  mapM value_name_of l st = (st', Ok ns) ->
  st' = st /\ Forall2 (fun a nm => exists x, cells (hp st) a = Some (CValue x) /\ v_name x = nm) l ns.
Proof.
  induction l as [|a l IH]; intros st st' ns H.
  - apply mapM_ok_nil in H. destruct H; subst. split; [reflexivity|constructor].
  - apply mapM_ok_cons in H. destruct H as (st1 & b & bs' & H1 & H2 & ->).
    unfold value_name_of in H1. bind_as H1 s x E. apply get_value_ok in E. destruct E as [-> E].
    unfold ret in H1. injection H1 as <- <-.
    destruct (IH _ _ _ H2) as [-> F]. split; [reflexivity|]. constructor; [|exact F].
    exists x. split; [exact E|reflexivity].
Qed.

Lemma mapM_get_mapped_state l : forall st st' ns, mapM get_mapped l st = (st', Ok ns) -> st' = st.
Proof.
  induction l as [|a l IH]; intros st st' ns H.
  - apply mapM_ok_nil in H. destruct H; subst. reflexivity.
  - apply mapM_ok_cons in H. destruct H as (st1 & b & bs' & H1 & H2 & ->).
    unfold get_mapped in H1. bind_as H1 s x E. unfold vmap_get in E. injection E as <- <-.
    destruct (assoc a (vmap st)); [|discriminate]. unfold ret in H1. injection H1 as <- _.
    apply (IH _ _ _ H2).
Qed.

Section Good3.
  Variables allow deep : bool.
  Variable h0 : heap.
  Hypothesis Hcl0 : closed h0.
  Notation n0 := (next h0).
  Notation WF := (dicts_wf h0).
  Notation good := (good allow deep h0).
  Notation VR := (VR h0).
  Notation FR := (FR h0).
  Notation allowed := (allowed deep h0).
  Notation IR := (IR deep h0).

  Definition GR (st : cst) (g g' : id) : Prop :=
    FR st g' /\ (WF -> forall f, gcanon (cells (hp st)) f g' = gcanon (cells h0) f g).

  Lemma GR_le st st' g g' : good st -> le st st' -> GR st g g' -> GR st' g g'.
  Proof.
    intros G L [H1 H2]. split; [eapply FR_le; eassumption|]. intros W f. rewrite <- (H2 W f).
    apply (gcanon_le _ _ _ _ _ G L). apply H1.
  Qed.

  Definition RecSpec (rec : id -> M id) : Prop :=
    (forall g, mono (rec g)) /\
    forall g st st' g', g < n0 -> good st -> rec g st = (st', Ok g') -> good st' /\ GR st' g g'.

  (* a cloned (or shared) attribute *)
  Definition AR (st : cst) (ka : name * id) (a' : id) : Prop :=
    a' < next (hp st) /\ (n0 <= a' \/ allowed st a') /\
    (WF -> (exists x, cells (hp st) a' = Some (CAttr x) /\ a_name x = fst ka) /\
           forall f, acanon (cells (hp st)) (gcanon (cells (hp st)) f) a' =
                     acanon (cells h0) (gcanon (cells h0) f) (snd ka)).

  Lemma AR_le st st' ka a' : good st -> le st st' -> AR st ka a' -> AR st' ka a'.
  Proof.
    intros G L (H1 & H2 & H3). split; [|split].
    - destruct L as [[L1 _] _]. lia.
    - destruct H2 as [H2|H2]; [left; exact H2|right; eapply allowed_le; eassumption].
    - intros W. destruct (H3 W) as [[x [Hx Hn]] Hc]. split.
      + exists x. rewrite (cell_le _ _ L); [split; assumption|exact H1].
      + intros f. rewrite <- (Hc f). apply (acanon_le _ _ _ _ _ G L). exact H1.
  Qed.

  Definition attr_pre (ka : name * id) : Prop :=
    snd ka < n0 /\ (WF -> exists a, cells h0 (snd ka) = Some (CAttr a) /\ a_name a = fst ka).

  Section WithRec.
    Variable rec : id -> M id.
    Hypothesis HR : RecSpec rec.

    Lemma clone_attr_ok st st' ka a' :
      good st -> attr_pre ka -> clone_attr rec ka st = (st', Ok a') -> good st' /\ AR st' ka a'.
    Proof.
      intros G [Hold Hnm] H. unfold clone_attr in H. bind_as H s a E. apply get_attr_ok in E.
      destruct E as [-> E]. rewrite (old_cell _ _ _ _ _ G Hold) in E.
      assert (HL : forall y, In y (links (CAttr a)) -> y < n0) by (intros y; apply (proj2 (Hcl0 _ _ E))).
      assert (Hn0 : n0 <= next (hp st)) by apply (g_ext _ _ _ _ G).
      assert (Hname : WF -> a_name a = fst ka).
      { intros W. destruct (Hnm W) as (a2 & E2 & N2). rewrite E in E2. injection E2 as <-. exact N2. }
      destruct (a_val a) as [t tok|t r|g|gs|tt0] eqn:Ev.
      - (* shared *)
        unfold ret in H. injection H as <- <-. split; [exact G|]. split; [lia|]. split.
        + right. split; [exact Hold|]. left. exists a. split; [exact E|]. unfold shared_attr. rewrite Ev. exact I.
        + intros W. split.
          * exists a. rewrite (old_cell _ _ _ _ _ G Hold). split; [exact E|apply Hname, W].
          * intros f. apply (acanon_old _ _ _ Hcl0 _ G). exact Hold.
      - unfold ret in H. injection H as <- <-. split; [exact G|]. split; [lia|]. split.
        + right. split; [exact Hold|]. left. exists a. split; [exact E|]. unfold shared_attr. rewrite Ev. exact I.
        + intros W. split.
          * exists a. rewrite (old_cell _ _ _ _ _ G Hold). split; [exact E|apply Hname, W].
          * intros f. apply (acanon_old _ _ _ Hcl0 _ G). exact Hold.
      - (* a graph attribute *)
        bind_as H s1 g' E1.
        assert (Hg : g < n0). { apply HL. simpl. rewrite Ev. simpl. auto. }
        destruct (proj2 HR _ _ _ _ Hg G E1) as [G1 [F1 C1]].
        destruct (good_alloc _ _ _ _ _ _ _ G1 H) as (G' & HF & Hx & Hcell).
        + simpl. intros y [<-|[]]. apply F1.
        + simpl. intros y [].
        + simpl. intros y [<-|[]]. left. apply F1.
        + split; [exact G'|]. split; [apply HF|]. split; [left; apply HF|].
          intros W. split; [exists (Att (fst ka) (AGraph g') (a_doc a)); split; [exact Hcell|reflexivity]|].
          intros f. unfold acanon. rewrite Hcell, E, Ev. simpl.
          assert (L : le s1 st') by (eapply mono_alloc; exact H).
          rewrite (gcanon_le _ _ _ _ _ G1 L) by apply F1. rewrite (C1 W f), (Hname W). reflexivity.
      - bind_as H s1 gs' E1.
        assert (Hgs : Forall (fun g => g < n0) gs).
        { apply Forall_forall. intros g Hg. apply HL. simpl. rewrite Ev. simpl. rewrite app_nil_r. exact Hg. }
        destruct (mapM_good allow deep h0 rec GR (fun g => g < n0) (proj1 HR)
                    (fun x s s' b Hx Gs Hs => proj2 HR x s s' b Hx Gs Hs)
                    (fun x b s s' Gs Ls HR' => GR_le s s' x b Gs Ls HR')
                    _ _ _ _ Hgs G E1) as [G1 F].
        destruct (good_alloc _ _ _ _ _ _ _ G1 H) as (G' & HF & Hx & Hcell).
        + simpl. intros y Hy. rewrite app_nil_r in Hy. destruct (Forall2_in_r _ _ _ _ F Hy) as (g0 & _ & [K _]). apply K.
        + simpl. intros y [].
        + simpl. intros y Hy. rewrite app_nil_r in Hy. destruct (Forall2_in_r _ _ _ _ F Hy) as (g0 & _ & [K _]). left. apply K.
        + split; [exact G'|]. split; [apply HF|]. split; [left; apply HF|].
          intros W. split; [exists (Att (fst ka) (AGraphs gs') (a_doc a)); split; [exact Hcell|reflexivity]|].
          intros f. unfold acanon. rewrite Hcell, E, Ev. simpl.
          assert (L : le s1 st') by (eapply mono_alloc; exact H).
          rewrite (Hname W). f_equal. apply Forall2_map_eq. eapply Forall2_impl'; [|exact F].
          intros g0 g1 _ _ [K1 K2]. rewrite (gcanon_le _ _ _ _ _ G1 L) by apply K1. apply (K2 W f).
      - (* a tensor attribute: shared *)
        unfold ret in H. injection H as <- <-. split; [exact G|]. split; [lia|]. split.
        + right. split; [exact Hold|]. left. exists a. split; [exact E|]. unfold shared_attr. rewrite Ev. exact I.
        + intros W. split.
          * exists a. rewrite (old_cell _ _ _ _ _ G Hold). split; [exact E|apply Hname, W].
          * intros f. apply (acanon_old _ _ _ Hcl0 _ G). exact Hold.
    Qed.

    (* the relation established for a cloned node *)
    Definition NR (st : cst) (n n' : id) : Prop :=
      FR st n' /\
      (WF -> forall f, ncanon (cells (hp st)) (gcanon (cells (hp st)) f) n' =
                       ncanon (cells h0) (gcanon (cells h0) f) n).

    Lemma NR_le st st' n n' : good st -> le st st' -> NR st n n' -> NR st' n n'.
    Proof.
      intros G L [H1 H2]. split; [eapply FR_le; eassumption|]. intros W f. rewrite <- (H2 W f).
      apply (ncanon_le _ _ _ _ _ G L). apply H1.
    Qed.

    Lemma clone_node_ok st st' n n' :
      good st -> n < n0 -> clone_node allow deep rec n st = (st', Ok n') -> good st' /\ NR st' n n'.
    Proof.
      intros G Hn H. unfold clone_node in H.
      bind_as H s x E. apply get_node_ok in E. destruct E as [-> E].
      rewrite (old_cell _ _ _ _ _ G Hn) in E.
      assert (HL : forall y, In y (links (CNode x)) -> y < n0) by (intros y; apply (proj2 (Hcl0 _ _ E))).
      bind_as H s1 ins E1. bind_as H s2 ats E2. bind_as H s3 atn E3. bind_as H s4 mp E4.
      bind_as H s5 me E5. bind_as H s6 outs E6.
      (* inputs *)
      destruct (mapM_good allow deep h0 (clone_input allow) IR (fun i => forall v, i = Some v -> v < n0)
                  (mono_clone_input allow)
                  (fun i s s' b Hi Gs Hs => clone_input_ok allow deep h0 s s' i b Gs Hi Hs)
                  (fun i b s s' Gs Ls HR' => IR_le allow deep h0 s s' i b Gs Ls HR')
                  _ _ _ _
                  (proj2 (Forall_forall _ _) (fun i Hi v Hv => HL v (lk_n_input x i v Hi Hv))) G E1)
        as [G1 Fi].
      (* attributes *)
      assert (Hpre : Forall attr_pre (n_attrs x)).
      { apply Forall_forall. intros ka Hka. split; [apply HL, lk_n_attr, Hka|].
        intros W. apply (proj2 (W _ _ E)). exact Hka. }
      destruct (mapM_good allow deep h0 (clone_attr rec) AR attr_pre
                  (mono_clone_attr rec (proj1 HR))
                  (fun ka s s' b Hk Gs Hs => clone_attr_ok s s' ka b Gs Hk Hs)
                  (fun ka b s s' Gs Ls HR' => AR_le s s' ka b Gs Ls HR')
                  _ _ _ _ Hpre G1 E2) as [G2 Fa].
      apply mapM_attr_name_of in E3. destruct E3 as [-> Fn].
      destruct (clone_dict_ok _ _ _ _ _ _ _ G2 (HL _ (lk_n_mp x)) E4) as (G4 & F4 & C4).
      destruct (clone_meta_ok allow deep h0 Hcl0 _ _ _ _ G4 (HL _ (lk_n_meta x)) E5) as (G5 & F5 & C5).
      destruct (mapM_good allow deep h0 (clone_output deep)
                  (fun s o c => VR s o c /\ assoc o (vmap s) <> None) (fun o => o < n0)
                  (mono_clone_output deep)
                  (fun o s s' b Ho Gs Hs => clone_output_ok allow deep h0 Hcl0 s s' o b Gs Ho Hs)
                  (fun o b s s' Gs Ls HR' =>
                     conj (VR_le allow deep h0 s s' Gs Ls o b (proj1 HR')) (proj1 (proj2 Ls) o (proj2 HR')))
                  _ _ _ _
                  (proj2 (Forall_forall _ _) (fun o Ho => HL o (lk_n_output x o Ho))) G5 E6) as [G6 Fo']
      .
      assert (Fo : Forall2 (VR s6) (n_outputs x) outs).
      { eapply Forall2_impl'; [|exact Fo']. intros a b _ _ K1. apply K1. }
      assert (L12 : le s1 s2) by (eapply mono_mapM; [intros; apply mono_clone_attr, (proj1 HR)|exact E2]).
      assert (L24 : le s2 s4) by (eapply mono_clone_dict; exact E4).
      assert (L45 : le s4 s5) by (eapply mono_clone_meta; exact E5).
      assert (L56 : le s5 s6) by (eapply mono_mapM; [intros; apply mono_clone_output|exact E6]).
      assert (L46 : le s4 s6) by (eapply le_trans; eassumption).
      assert (L26 : le s2 s6) by (eapply le_trans; eassumption).
      assert (L16 : le s1 s6) by (eapply le_trans; eassumption).
      (* finish_node *)
      unfold finish_node in H. bind_as H s7 u E7. unfold keep_add in E7. injection E7 as <- _.
      set (K := filter (unmapped (vmap s6)) (flat_map dev_ids (n_dev x))) in *.
      set (s7 := St (hp s6) (vmap s6) (passed s6) (K ++ kept s6)) in *.
      assert (L16' : le s1 s6).
      { eapply le_trans; [eapply mono_mapM; [intros; apply mono_clone_attr, (proj1 HR)|exact E2]|].
        eapply le_trans; [eapply mono_clone_dict; exact E4|]. eapply le_trans; [eapply mono_clone_meta; exact E5|].
        eapply mono_mapM; [intros; apply mono_clone_output|exact E6]. }
      assert (G7 : good s7).
      { apply good_ghost; [exact G6|apply incl_refl|apply incl_appr, incl_refl|apply (g_passed _ _ _ _ G6)|].
        intros Wd y Hy. apply in_app_or in Hy. destruct Hy as [Hy|Hy]; [|apply (g_kept _ _ _ _ G6 Wd y Hy)].
        unfold K in Hy. apply filter_In in Hy. destruct Hy as [Hy Hun]. unfold unmapped in Hun.
        apply in_flat_map in Hy. destruct Hy as (d & Hd & Hy). unfold dev_ids in Hy.
        apply in_flat_map in Hy. destruct Hy as (sp & Hsp & Hy). apply in_oid in Hy.
        destruct (Wd _ _ E d sp y Hd Hsp Hy) as [Hin|Hout].
        - destruct (Forall2_in_l _ _ _ _ Fi Hin) as (i' & _ & K1). unfold Proofs4.IR in K1.
          destruct i' as [c|]; [|contradiction]. destruct K1 as (_ & _ & _ & [K1|K1]).
          + exfalso. destruct L16' as (_ & Ld & _). apply (Ld y) in K1. destruct (assoc y (vmap s6)); [discriminate|].
            apply K1. reflexivity.
          + destruct L16' as (_ & _ & Lp & _). apply Lp, K1.
        - exfalso. destruct (Forall2_in_l _ _ _ _ Fo' Hout) as (c & _ & [_ K1]).
          destruct (assoc y (vmap s6)); [discriminate|]. apply K1. reflexivity. }
      assert (L67 : le s6 s7).
      { unfold s7. repeat split; simpl; try apply hle_refl; try apply incl_refl; try (intros o Ho; exact Ho).
        apply incl_appr, incl_refl. }
      assert (L17 : le s1 s7) by (eapply le_trans; eassumption).
      assert (L27 : le s2 s7) by (eapply le_trans; eassumption).
      assert (L47 : le s4 s7) by (eapply le_trans; eassumption).
      assert (L57 : le s5 s7) by (eapply le_trans; eassumption).
      assert (Fi7 : Forall2 (IR s7) (n_inputs x) ins).
      { eapply Forall2_impl'; [|exact Fi]. intros a b _ _ K1. eapply IR_le; [exact G1|exact L17|exact K1]. }
      assert (Fa7 : Forall2 (AR s7) (n_attrs x) ats).
      { eapply Forall2_impl'; [|exact Fa]. intros a b _ _ K1. eapply AR_le; [exact G2|exact L27|exact K1]. }
      assert (Fo7 : Forall2 (VR s7) (n_outputs x) outs).
      { eapply Forall2_impl'; [|exact Fo]. intros a b _ _ K1. eapply VR_le; [exact G6|exact L67|exact K1]. }
      set (newattrs := dict_of N.eqb (combine atn ats)) in *.
      set (newdev := map (remap_dev (vmap s6)) (n_dev x)) in *.
      set (C := CNode (Nod (n_name x) (n_domain x) (n_op x) (n_overload x) (n_version x) ins outs
                           newattrs (n_doc x) mp me newdev)) in *.
      assert (Hspec : forall d s y, In d (n_dev x) -> In s (dc_specs d) ->
                                    sp_value (remap_spec (vmap s6) s) = Some y ->
                                    y < next (hp s7) /\ (n0 <= y \/ allowed s7 y) /\
                                    (WF -> forall v, sp_value s = Some v -> vref (cells (hp s7)) y = vref (cells h0) v)).
      { intros d s y Hd Hs Hy. unfold remap_spec in Hy. destruct (sp_value s) as [v|] eqn:Esv; [|rewrite Esv in Hy; discriminate].
        assert (Hv : v < n0).
        { apply HL. eapply lk_n_dev; [exact Hd|]. unfold dev_ids. apply in_flat_map. exists s. split; [exact Hs|].
          apply in_oid. exact Esv. }
        destruct (assoc v (vmap s6)) as [c|] eqn:Ea.
        - simpl in Hy. injection Hy as <-. destruct (g_vmap _ _ _ _ G7 v c Ea) as (K1 & K2 & K3).
          split; [apply K1|]. split; [left; apply K1|]. intros W v' Hv'. injection Hv' as <-. apply vref_of_vcanon, K3, W.
        - rewrite Esv in Hy. injection Hy as <-. split; [|split].
          + pose proof (g_ext _ _ _ _ G7) as [K1 _]. lia.
          + right. split; [exact Hv|]. do 3 right. left. simpl. apply in_or_app. left. unfold K.
            apply filter_In. split.
            * apply in_flat_map. exists d. split; [exact Hd|]. unfold dev_ids. apply in_flat_map. exists s.
              split; [exact Hs|]. apply in_oid. exact Esv.
            * unfold unmapped. rewrite Ea. reflexivity.
          + intros _ v' Hv'. injection Hv' as <-. apply (vref_old _ _ _ _ G7). exact Hv. }
      assert (Hlk : forall y, In y (links C) -> y < next (hp s7) /\ (n0 <= y \/ allowed s7 y)).
      { intros y Hy. unfold C, links in Hy. simpl in Hy. rewrite !in_app_iff in Hy.
        destruct Hy as [Hy|[Hy|[Hy|[Hy|[Hy|Hy]]]]].
        - apply in_flat_map in Hy. destruct Hy as (i' & Hi' & Hy). apply in_oid in Hy. subst i'.
          destruct (Forall2_in_r _ _ _ _ Fi7 Hi') as (i0 & _ & K1). unfold Proofs4.IR in K1.
          destruct i0 as [v|]; [|contradiction]. destruct K1 as (K1 & K2 & _). split; assumption.
        - destruct (Forall2_in_r _ _ _ _ Fo7 Hy) as (o & _ & (K1 & _)). split; [apply K1|left; apply K1].
        - apply in_map_iff in Hy. destruct Hy as ([k a] & <- & Hka). simpl.
          apply (dict_of_in N.eqb) in Hka. apply in_combine_r in Hka.
          destruct (Forall2_in_r _ _ _ _ Fa7 Hka) as (ka0 & _ & (K1 & K2 & _)). split; assumption.
        - subst y. assert (K1 : FR s7 mp) by (eapply FR_le; [exact L47|exact F4]). split; [apply K1|left; apply K1].
        - subst y. assert (K1 : FR s7 me) by (eapply FR_le; [exact L57|exact F5]). split; [apply K1|left; apply K1].
        - apply in_flat_map in Hy. destruct Hy as (d' & Hd' & Hy). unfold newdev in Hd'.
          apply in_map_iff in Hd'. destruct Hd' as (d & <- & Hd). unfold dev_ids in Hy. simpl in Hy.
          apply in_flat_map in Hy. destruct Hy as (s' & Hs' & Hy). apply in_map_iff in Hs'.
          destruct Hs' as (s & <- & Hs). apply in_oid in Hy.
          destruct (Hspec d s y Hd Hs Hy) as (K1 & K2 & _). split; assumption. }
      destruct (good_alloc _ _ _ _ _ _ _ G7 H) as (G' & HF & Hx & Hcell).
      - intros y Hy. apply Hlk, Hy.
      - intros y Hy. unfold C in Hy. simpl in Hy. destruct Hy as [<-|[<-|[]]].
        + eapply FR_le; [exact L47|exact F4].
        + eapply FR_le; [exact L57|exact F5].
      - intros y Hy. apply Hlk, Hy.
      - split; [exact G'|]. split; [exact HF|]. intros W f.
        assert (L7 : le s7 st') by (eapply mono_alloc; exact H).
        destruct (W _ _ E) as [ND Hkeys]. simpl in ND.
        unfold ncanon at 1. rewrite Hcell. unfold ncanon. rewrite E. unfold C. simpl.
        (* attribute names collected = the original keys *)
        assert (Hlen : length atn = length ats) by (symmetry; eapply Forall2_length'; exact Fn).
        assert (Hatn : atn = map fst (n_attrs x)).
        { clear - Fa Fn W L12 G2. revert atn Fn. induction Fa as [|ka a' l l' Hh Ht IH]; intros atn Fn.
          - inversion Fn. reflexivity.
          - inversion Fn as [|? nm ? atn' [xa [Hxa Hnm]] Fn']; subst. simpl. f_equal.
            + destruct Hh as (_ & _ & K). destruct (K W) as [[x' [Hx' Hn']] _].
              rewrite Hxa in Hx'. injection Hx' as <-. exact Hn'.
            + apply IH. exact Fn'. }
        assert (Hdict : newattrs = combine atn ats).
        { unfold newattrs. apply (dict_of_nodup N.eqb N_eqb_spec'). rewrite map_fst_combine by exact Hlen.
          rewrite Hatn. exact ND. }
        rewrite Hdict. rewrite (map_snd_combine (acanon (cells (hp st')) (gcanon (cells (hp st')) f)) atn ats Hlen).
        f_equal.
        + (* inputs *)
          apply Forall2_map_eq. eapply Forall2_impl'; [|exact Fi7]. intros i i' _ _ K1.
          unfold Proofs4.IR in K1. destruct i as [v|], i' as [c|]; try contradiction; simpl; [|reflexivity].
          destruct K1 as (K1 & _ & K3 & _). rewrite (vref_le _ _ L7) by exact K1. rewrite (K3 W). reflexivity.
        + (* outputs *)
          apply Forall2_map_eq. eapply Forall2_impl'; [|exact Fo7]. intros o c _ _ (K1 & _ & K3).
          rewrite (vcanon_le _ _ _ _ _ G7 L7) by apply K1. apply K3, W.
        + (* attributes *)
          rewrite <- (map_map snd (fun a => acanon (cells h0) (gcanon (cells h0) f) a)).
          apply Forall2_map_eq. apply Forall2_map_l. eapply Forall2_impl'; [|exact Fa7].
          intros ka a' _ _ (K1 & _ & K3). rewrite (acanon_le _ _ _ _ _ G7 L7) by exact K1. apply (proj2 (K3 W)).
        + assert (F4' : FR s7 mp) by (eapply FR_le; [exact L47|exact F4]).
          rewrite (dict_canon_le _ _ L7) by apply F4'.
          rewrite (dict_canon_le _ _ L47) by apply F4. exact C4.
        + assert (F5' : FR s7 me) by (eapply FR_le; [exact L57|exact F5]).
          rewrite (meta_canon_le _ _ _ _ _ G7 L7) by apply F5'.
          rewrite (meta_canon_le _ _ _ _ _ G5 L57) by apply F5. apply C5, W.
        + (* device configurations *)
          unfold newdev. rewrite map_map. apply map_ext_in. intros d Hd. unfold dev_canon. simpl.
          f_equal. rewrite map_map. apply map_ext_in. intros s Hs. f_equal.
          * unfold iref. destruct (sp_value (remap_spec (vmap s6) s)) as [y|] eqn:Ey.
            -- destruct (Hspec d s y Hd Hs Ey) as (K1 & _ & K3). rewrite (vref_le _ _ L7) by exact K1.
               destruct (sp_value s) as [v|] eqn:Esv.
               ++ rewrite (K3 W v eq_refl). reflexivity.
               ++ unfold remap_spec in Ey. rewrite Esv in Ey. rewrite Esv in Ey. discriminate.
            -- unfold remap_spec in Ey. destruct (sp_value s) as [v|] eqn:Esv; [|reflexivity].
               destruct (assoc v (vmap s6)); simpl in Ey; [discriminate|]. rewrite Esv in Ey. discriminate.
          * unfold remap_spec. destruct (sp_value s) as [v|]; [|reflexivity]. destruct (assoc v (vmap s6)); reflexivity.
    Qed.
  End WithRec.
End Good3.

(* C13/Proofs7.v — the cloner's invariant, part 5: Function.clone and Model.clone. *)
From Coq Require Import List ZArith NArith PArith Bool Lia.
From IRV Require Import Base.Exn C13.Model C13.Proofs1 C13.Proofs2 C13.Proofs3 C13.Proofs4 C13.Proofs5 C13.Proofs6.
Import ListNotations.
Local Open Scope positive_scope.

Section Good5.
  Variable deep : bool.
  Variable h0 : heap.
  Hypothesis Hcl0 : closed h0.
  Notation n0 := (next h0).
  Notation WF := (dicts_wf h0).
  Notation good := (good false deep h0).
  Notation VR := (VR h0).
  Notation FR := (FR h0).
  Notation GR := (GR h0).
  Notation AR := (AR deep h0).

  Definition FnR (st : cst) (f f' : id) : Prop :=
    FR st f' /\ (WF -> forall k, fcanon (cells (hp st)) k f' = fcanon (cells h0) k f).

  Lemma fcanon_le st st' k c : good st -> le st st' -> c < next (hp st) ->
    fcanon (cells (hp st')) k c = fcanon (cells (hp st)) k c.
  Proof.
    intros G L H. apply (fcanon_st _ _ (fun x => x < next (hp st))).
    - intros x c0 _ Hc y Hy. apply (g_closed _ _ _ _ G _ _ Hc). exact Hy.
    - intros x Hx. apply (cell_le _ _ L). exact Hx.
    - exact H.
  Qed.

  Lemma FnR_le st st' f f' : good st -> le st st' -> FnR st f f' -> FnR st' f f'.
  Proof.
    intros G L [H1 H2]. split; [eapply FR_le; eassumption|]. intros W k. rewrite <- (H2 W k).
    apply fcanon_le; [exact G|exact L|apply H1].
  Qed.

  Lemma function_clone_ok fuel st st' f f' :
    good st -> f < n0 -> function_clone_m fuel deep f st = (st', Ok f') -> good st' /\ FnR st' f f'.
  Proof.
    intros G Hf H. unfold function_clone_m in H.
    bind_as H s x E. apply get_func_ok in E. destruct E as [-> E]. rewrite (old_cell _ _ _ _ _ G Hf) in E.
    assert (HL : forall y, In y (links (CFunc x)) -> y < n0) by (intros y; apply (proj2 (Hcl0 _ _ E))).
    bind_as H s1 g' E1. bind_as H s2 ats E2. bind_as H s3 atn E3.
    pose proof (clone_graph_spec false deep h0 Hcl0 fuel) as HR.
    destruct (proj2 HR _ _ _ _ (HL _ (or_introl eq_refl)) G E1) as [G1 [F1 C1]].
    assert (Hpre : Forall (attr_pre h0) (f_attrs x)).
    { apply Forall_forall. intros ka Hka. split; [apply HL; right; apply in_map; exact Hka|].
      intros W. apply (proj2 (W _ _ E)). exact Hka. }
    destruct (mapM_good false deep h0 (clone_attr (clone_graph false deep fuel)) AR (attr_pre h0)
                (mono_clone_attr _ (proj1 HR))
                (fun ka s s' b Hk Gs Hs => clone_attr_ok false deep h0 Hcl0 _ HR s s' ka b Gs Hk Hs)
                (fun ka b s s' Gs Ls HR' => AR_le false deep h0 s s' ka b Gs Ls HR')
                _ _ _ _ Hpre G1 E2) as [G2 Fa].
    apply mapM_attr_name_of in E3. destruct E3 as [-> Fn].
    assert (L12 : le s1 s2) by (eapply mono_mapM; [intros; apply mono_clone_attr, (proj1 HR)|exact E2]).
    assert (F1' : FR s2 g') by (eapply FR_le; [exact L12|exact F1]).
    set (newattrs := dict_of N.eqb (combine atn ats)) in *.
    set (C := CFunc (Fun (f_domain x) (f_name x) (f_overload x) g' newattrs)) in *.
    assert (Hlk : forall y, In y (links C) -> y < next (hp s2) /\ (n0 <= y \/ allowed deep h0 s2 y)).
    { intros y Hy. unfold C in Hy. simpl in Hy. destruct Hy as [<-|Hy].
      - split; [apply F1'|left; apply F1'].
      - apply in_map_iff in Hy. destruct Hy as ([k a] & <- & Hka). simpl.
        apply (dict_of_in N.eqb) in Hka. apply in_combine_r in Hka.
        destruct (Forall2_in_r _ _ _ _ Fa Hka) as (ka0 & _ & (K1 & K2 & _)). split; assumption. }
    destruct (good_alloc _ _ _ _ _ _ _ G2 H) as (G' & HF & Hx & Hcell).
    - intros y Hy. apply Hlk, Hy.
    - intros y [].
    - intros y Hy. apply Hlk, Hy.
    - split; [exact G'|]. split; [exact HF|]. intros W k.
      assert (L2 : le s2 st') by (eapply mono_alloc; exact H).
      destruct (W _ _ E) as [ND Hkeys]. simpl in ND.
      unfold fcanon. rewrite Hcell, E. unfold C. simpl.
      assert (Hlen : length atn = length ats) by (symmetry; eapply Forall2_length'; exact Fn).
      assert (Hatn : atn = map fst (f_attrs x)).
      { clear - Fa Fn W. revert atn Fn. induction Fa as [|ka a' l l' Hh Ht IH]; intros atn Fn.
        - inversion Fn. reflexivity.
        - inversion Fn as [|? nm ? atn' [xa [Hxa Hnm]] Fn']; subst. simpl. f_equal.
          + destruct Hh as (_ & _ & K). destruct (K W) as [[x' [Hx' Hn']] _].
            rewrite Hxa in Hx'. injection Hx' as <-. exact Hn'.
          + apply IH. exact Fn'. }
      assert (Hdict : newattrs = combine atn ats).
      { unfold newattrs. apply (dict_of_nodup N.eqb N_eqb_spec'). rewrite map_fst_combine by exact Hlen.
        rewrite Hatn. exact ND. }
      rewrite Hdict. rewrite (map_snd_combine (acanon (cells (hp st')) (gcanon (cells (hp st')) k)) atn ats Hlen).
      f_equal. f_equal.
      + f_equal. assert (L1 : le s1 st') by (eapply le_trans; eassumption).
        rewrite (gcanon_le _ _ _ _ _ G1 L1) by apply F1. apply C1, W.
      + rewrite <- (map_map snd (fun a => acanon (cells h0) (gcanon (cells h0) k) a)).
        apply Forall2_map_eq. apply Forall2_map_l. eapply Forall2_impl'; [|exact Fa].
        intros ka a' _ _ (K1 & _ & K3). rewrite (acanon_le _ _ _ _ _ G2 L2) by exact K1. apply (proj2 (K3 W)).
  Qed.

  (* a sub-cloner with its own value map *)
  Lemma fresh_cloner_good {A} (m : M A) (Q : heap -> A -> Prop) st st' a :
    (forall s s' b, good s -> m s = (s', Ok b) -> good s' /\ Q (hp s') b) -> mono m ->
    good st -> fresh_cloner m st = (st', Ok a) -> good st' /\ Q (hp st') a.
  Proof.
    intros Hm Hmono G H. unfold fresh_cloner in H.
    destruct (m (St (hp st) [] (passed st) (kept st))) as [s1 r1] eqn:E. injection H as <- ->.
    assert (Gi : good (St (hp st) [] (passed st) (kept st))).
    { constructor; simpl.
      - apply (g_ext _ _ _ _ G).
      - apply (g_closed _ _ _ _ G).
      - intros o c Hc. discriminate.
      - exact (g_own _ _ _ _ G).
      - exact (g_links _ _ _ _ G).
      - exact (g_passed _ _ _ _ G).
      - exact (g_kept _ _ _ _ G). }
    destruct (Hm _ _ _ Gi E) as [G1 Q1]. split; [|exact Q1].
    apply Hmono in E. destruct E as (E1 & _ & E3 & E4). simpl in E1, E3, E4.
    assert (L' : le st (St (hp s1) (vmap st) (passed s1) (kept s1))).
    { repeat split; simpl; try apply E1; try assumption. intros o' Ho'; exact Ho'. }
    constructor; simpl.
    - apply (g_ext _ _ _ _ G1).
    - apply (g_closed _ _ _ _ G1).
    - intros o c Hc. apply (g_vmap _ _ _ _ G) in Hc.
      destruct (VR_le false deep h0 _ _ G L' o c Hc) as (K1 & K2 & K3). split; [exact K1|]. split; [exact K2|exact K3].
    - exact (g_own _ _ _ _ G1).
    - exact (g_links _ _ _ _ G1).
    - exact (g_passed _ _ _ _ G1).
    - exact (g_kept _ _ _ _ G1).
  Qed.

  Definition MdR (h : heap) (m m' : id) : Prop :=
    n0 <= m' /\ m' < next h /\ (WF -> forall k, mcanon (cells h) k m' = mcanon (cells h0) k m).

  Lemma model_clone_ok fuel st st' m m' :
    good st -> m < n0 -> model_clone_m fuel deep m st = (st', Ok m') -> good st' /\ MdR (hp st') m m'.
  Proof.
    intros G Hm H. unfold model_clone_m in H.
    bind_as H s x E. apply get_model_ok in E. destruct E as [-> E]. rewrite (old_cell _ _ _ _ _ G Hm) in E.
    assert (HL : forall y, In y (links (CModel x)) -> y < n0) by (intros y; apply (proj2 (Hcl0 _ _ E))).
    bind_as H s1 g' E1. bind_as H s2 fs E2. bind_as H s3 mp E3. bind_as H s4 me E4.
    pose proof (clone_graph_spec false deep h0 Hcl0 fuel) as HR.
    assert (Hg : md_graph x < n0) by (apply HL; left; reflexivity).
    destruct (fresh_cloner_good (clone_graph false deep fuel (md_graph x))
                (fun h b => (n0 <= b /\ b < next h) /\ (WF -> forall f, gcanon (cells h) f b = gcanon (cells h0) f (md_graph x)))
                _ _ _ (fun s s' b Gs Hs => proj2 HR _ s s' b Hg Gs Hs) (mono_clone_graph _ _ _ _) G E1)
      as [G1 [F1 C1]].
    assert (Hfs : Forall (fun f => f < n0) (md_funcs x)).
    { apply Forall_forall. intros f Hf. apply HL. right. apply in_or_app. left. exact Hf. }
    destruct (mapM_good false deep h0 (fun f => fresh_cloner (function_clone_m fuel deep f))
                (fun s f f' => FnR s f f') (fun f => f < n0)
                (fun f => mono_fresh_cloner _ (mono_function_clone_m fuel deep f))
                (fun f s s' b Hf Gs Hs =>
                   fresh_cloner_good (function_clone_m fuel deep f)
                     (fun h b => (n0 <= b /\ b < next h) /\ (WF -> forall k, fcanon (cells h) k b = fcanon (cells h0) k f))
                     s s' b (fun u u' c Gu Hu => function_clone_ok fuel u u' f c Gu Hf Hu)
                     (mono_function_clone_m fuel deep f) Gs Hs)
                (fun f b s s' Gs Ls HR' => FnR_le s s' f b Gs Ls HR')
                _ _ _ _ Hfs G1 E2) as [G2 Ff].
    assert (Hmp : md_mp x < n0).
    { apply HL. simpl. right. apply in_or_app. right. simpl. auto. }
    destruct (clone_dict_ok _ _ _ _ _ _ _ G2 Hmp E3) as (G3 & F3 & C3).
    destruct (good_alloc _ _ _ _ _ _ _ G3 E4) as (G4 & F4 & _ & Hc4); try (simpl; intros y []).
    assert (L12 : le s1 s2).
    { eapply mono_mapM; [|exact E2]. intros f. apply mono_fresh_cloner, mono_function_clone_m. }
    assert (L23 : le s2 s3) by (eapply mono_clone_dict; exact E3).
    assert (L34 : le s3 s4) by (eapply mono_alloc; exact E4).
    assert (L24 : le s2 s4) by (eapply le_trans; eassumption).
    assert (L14 : le s1 s4) by (eapply le_trans; eassumption).
    assert (F1' : FR s4 g') by (eapply FR_le; [exact L14|exact F1]).
    assert (F3' : FR s4 mp) by (eapply FR_le; [exact L34|exact F3]).
    assert (Ff4 : Forall2 (FnR s4) (md_funcs x) fs).
    { eapply Forall2_impl'; [|exact Ff]. intros a b _ _ K1. eapply FnR_le; [exact G2|exact L24|exact K1]. }
    set (C := CModel (Mod g' fs (md_info x) mp me)) in *.
    assert (Hlk : forall y, In y (links C) -> FR s4 y).
    { intros y Hy. unfold C in Hy. simpl in Hy. destruct Hy as [<-|Hy]; [exact F1'|].
      apply in_app_or in Hy. destruct Hy as [Hy|Hy].
      - destruct (Forall2_in_r _ _ _ _ Ff4 Hy) as (o & _ & (K1 & _)). exact K1.
      - simpl in Hy. destruct Hy as [<-|[<-|[]]]; assumption. }
    destruct (good_alloc _ _ _ _ _ _ _ G4 H) as (G' & HF & Hx & Hcell).
    - intros y Hy. apply Hlk, Hy.
    - intros y Hy. unfold C in Hy. simpl in Hy. destruct Hy as [<-|[<-|[]]]; [apply F3'|apply F4].
    - intros y Hy. left. apply Hlk, Hy.
    - split; [exact G'|]. split; [apply HF|]. split; [apply HF|]. intros W k.
      assert (L4 : le s4 st') by (eapply mono_alloc; exact H).
      unfold mcanon. rewrite Hcell, E. unfold C. simpl.
      assert (Ea : gcanon (cells (hp st')) k g' = gcanon (cells h0) k (md_graph x)).
      { assert (L1 : le s1 st') by (eapply le_trans; eassumption).
        rewrite (gcanon_le _ _ _ _ _ G1 L1) by apply F1. apply C1, W. }
      assert (Eb : map (fcanon (cells (hp st')) k) fs = map (fcanon (cells h0) k) (md_funcs x)).
      { apply Forall2_map_eq. eapply Forall2_impl'; [|exact Ff4]. intros f f' _ _ (K1 & K3).
        rewrite (fcanon_le _ _ _ _ G4 L4) by apply K1. apply K3, W. }
      assert (Ec : dict_canon (cells (hp st')) mp = dict_canon (cells h0) (md_mp x)).
      { assert (L3 : le s3 st') by (eapply le_trans; eassumption).
        rewrite (dict_canon_le _ _ L3) by apply F3. exact C3. }
      rewrite Ea, Eb, Ec. reflexivity.
  Qed.
End Good5.

(* C13/Proofs6.v — the cloner's invariant, part 4: clone_graph at every recursion depth, Function.clone, Model.clone. *)
From Coq Require Import List ZArith NArith PArith Bool Lia.
From IRV Require Import Base.Exn C13.Model C13.Proofs1 C13.Proofs2 C13.Proofs3 C13.Proofs4 C13.Proofs5.
Import ListNotations.
Local Open Scope positive_scope.

Lemma check_passed_ok st st' u :
  check_passed st = (st', Ok u) -> st' = st /\ forall v, In v (passed st) -> assoc v (vmap st) = None.
Proof.
  unfold check_passed. destruct (forallb (unmapped (vmap st)) (passed st)) eqn:E; intros H; [|discriminate].
  injection H as <- _. split; [reflexivity|]. intros v Hv. rewrite forallb_forall in E. specialize (E v Hv).
  unfold unmapped in E. destruct (assoc v (vmap st)); [discriminate|reflexivity].
Qed.

Section Good4.
  Variables allow deep : bool.
  Variable h0 : heap.
  Hypothesis Hcl0 : closed h0.
  Notation n0 := (next h0).
  Notation WF := (dicts_wf h0).
  Notation good := (good allow deep h0).
  Notation VR := (VR h0).
  Notation FR := (FR h0).
  Notation GR := (GR h0).
  Notation NR := (NR h0).
  Notation RecSpec := (RecSpec allow deep h0).

  Lemma init_keys s2 s3 : le s2 s3 -> WF -> forall l inits keys,
    (forall kv, In kv l -> exists v, cells h0 (snd kv) = Some (CValue v) /\ v_name v = fst kv) ->
    Forall2 (VR s2) (map snd l) inits ->
    Forall2 (fun a nm => exists x, cells (hp s3) a = Some (CValue x) /\ v_name x = nm) inits keys ->
    keys = map fst l.
  Proof.
    intros L23 W. induction l as [|kv l IH]; intros inits keys Hall Fw Fk.
    - inversion Fw; subst. inversion Fk. reflexivity.
    - simpl in Fw. inversion Fw as [|? c ? inits' HV Fw']; subst.
      inversion Fk as [|? nm ? keys' [xv [Hxv Hnm]] Fk']; subst. simpl. f_equal.
      + destruct (Hall kv (or_introl eq_refl)) as (v0 & Hv0 & Hn0').
        destruct HV as (K1 & _ & K3). specialize (K3 W).
        assert (K4 := vref_of_vcanon _ _ _ _ K3).
        rewrite <- (vref_le _ _ L23) in K4 by apply K1.
        unfold vref in K4. rewrite Hxv, Hv0 in K4. injection K4 as K4. rewrite K4. exact Hn0'.
      + apply (IH inits'); [|exact Fw'|exact Fk']. intros kv' Hkv'. apply Hall. right. exact Hkv'.
  Qed.

  Lemma clone_graph_body_ok rec st st' g g' :
    RecSpec rec -> good st -> g < n0 -> clone_graph_body allow deep rec g st = (st', Ok g') ->
    good st' /\ FR st' g' /\ (exists x, cells (hp st') g' = Some (CGraph x) /\ g_view x = false) /\
    (WF -> forall f, gcanon_body (cells (hp st')) (gcanon (cells (hp st')) f) g' =
                     gcanon_body (cells h0) (gcanon (cells h0) f) g).
  Proof.
    intros HR G Hg H. unfold clone_graph_body in H.
    bind_as H s x E. apply get_graph_ok in E. destruct E as [-> E].
    rewrite (old_cell _ _ _ _ _ G Hg) in E.
    assert (HL : forall y, In y (links (CGraph x)) -> y < n0) by (intros y; apply (proj2 (Hcl0 _ _ E))).
    bind_as H s1 ins E1. bind_as H s2 inits E2. bind_as H s3 nodes E3. bind_as H s4 outs E4.
    bind_as H s4' u0 E4c. apply check_passed_ok in E4c. destruct E4c as [-> _].
    bind_as H s5 keys E5. bind_as H s6 ops E6. bind_as H s7 mp E7. bind_as H s8 me E8.
    destruct (mapM_good allow deep h0 (clone_or_get_value deep) (fun s o c => VR s o c) (fun o => o < n0)
                (mono_clone_or_get_value deep)
                (fun o s s' b Ho Gs Hs => clone_or_get_value_ok allow deep h0 Hcl0 s s' o b Gs Ho Hs)
                (fun o b s s' Gs Ls HR' => VR_le allow deep h0 s s' Gs Ls o b HR')
                _ _ _ _ (proj2 (Forall_forall _ _) (fun o Ho => HL o (lk_g_input x o Ho))) G E1) as [G1 Fi].
    assert (Hinits : Forall (fun o => o < n0) (map snd (g_inits x))).
    { apply Forall_forall. intros o Ho. apply in_map_iff in Ho. destruct Ho as (kv & <- & Hkv).
      apply HL, lk_g_init, Hkv. }
    destruct (mapM_good allow deep h0 (clone_or_get_value deep) (fun s o c => VR s o c) (fun o => o < n0)
                (mono_clone_or_get_value deep)
                (fun o s s' b Ho Gs Hs => clone_or_get_value_ok allow deep h0 Hcl0 s s' o b Gs Ho Hs)
                (fun o b s s' Gs Ls HR' => VR_le allow deep h0 s s' Gs Ls o b HR')
                _ _ _ _ Hinits G1 E2) as [G2 Fw].
    destruct (mapM_good allow deep h0 (clone_node allow deep rec) (fun s n n' => NR s n n') (fun n => n < n0)
                (mono_clone_node allow deep rec (proj1 HR))
                (fun n s s' b Hn Gs Hs => clone_node_ok allow deep h0 Hcl0 rec HR s s' n b Gs Hn Hs)
                (fun n b s s' Gs Ls HR' => NR_le allow deep h0 s s' n b Gs Ls HR')
                _ _ _ _ (proj2 (Forall_forall _ _) (fun n Hn => HL n (lk_g_node x n Hn))) G2 E3) as [G3 Fn].
    assert (E4' := mapM_get_mapped_state _ _ _ _ E4). subst s4.
    destruct (mapM_good allow deep h0 get_mapped (fun s o c => VR s o c) (fun o => True)
                mono_get_mapped
                (fun o s s' b _ Gs Hs =>
                   match get_mapped_ok allow deep h0 s s' o b Gs Hs with
                   | conj Hst HV => conj (eq_ind_r (fun z => good z) Gs Hst)
                                         (eq_ind_r (fun z => VR z o b) HV Hst)
                   end)
                (fun o b s s' Gs Ls HR' => VR_le allow deep h0 s s' Gs Ls o b HR')
                _ _ _ _ (proj2 (Forall_forall _ _) (fun o _ => I)) G3 E4) as [_ Fo].
    apply mapM_value_name_of in E5. destruct E5 as [-> Fk].
    destruct (clone_dict_ok _ _ _ _ _ _ _ G3 (HL _ (lk_g_opset x)) E6) as (G6 & F6 & C6).
    destruct (clone_dict_ok _ _ _ _ _ _ _ G6 (HL _ (lk_g_mp x)) E7) as (G7 & F7 & C7).
    destruct (clone_meta_ok allow deep h0 Hcl0 _ _ _ _ G7 (HL _ (lk_g_meta x)) E8) as (G8 & F8 & C8).
    assert (L12 : le s1 s2) by (eapply mono_mapM; [intros; apply mono_clone_or_get_value|exact E2]).
    assert (L23 : le s2 s3) by (eapply mono_mapM; [intros; apply mono_clone_node, (proj1 HR)|exact E3]).
    assert (L36 : le s3 s6) by (eapply mono_clone_dict; exact E6).
    assert (L67 : le s6 s7) by (eapply mono_clone_dict; exact E7).
    assert (L78 : le s7 s8) by (eapply mono_clone_meta; exact E8).
    assert (L68 : le s6 s8) by (eapply le_trans; eassumption).
    assert (L38 : le s3 s8) by (eapply le_trans; eassumption).
    assert (L28 : le s2 s8) by (eapply le_trans; eassumption).
    assert (L18 : le s1 s8) by (eapply le_trans; eassumption).
    assert (Fi8 : Forall2 (VR s8) (g_inputs x) ins).
    { eapply Forall2_impl'; [|exact Fi]. intros a b _ _ K1. eapply VR_le; [exact G1|exact L18|exact K1]. }
    assert (Fw8 : Forall2 (VR s8) (map snd (g_inits x)) inits).
    { eapply Forall2_impl'; [|exact Fw]. intros a b _ _ K1. eapply VR_le; [exact G2|exact L28|exact K1]. }
    assert (Fn8 : Forall2 (NR s8) (g_nodes x) nodes).
    { eapply Forall2_impl'; [|exact Fn]. intros a b _ _ K1. eapply NR_le; [exact G3|exact L38|exact K1]. }
    assert (Fo8 : Forall2 (VR s8) (g_outputs x) outs).
    { eapply Forall2_impl'; [|exact Fo]. intros a b _ _ K1. eapply VR_le; [exact G3|exact L38|exact K1]. }
    assert (F6' : FR s8 ops) by (eapply FR_le; [exact L68|exact F6]).
    assert (F7' : FR s8 mp) by (eapply FR_le; [exact L78|exact F7]).
    set (newinits := dict_of oname_eqb (combine keys inits)) in *.
    set (C := CGraph (Gra (g_name x) ins outs newinits nodes (g_doc x) ops mp me false)) in *.
    assert (Hlk : forall y, In y (links C) -> FR s8 y).
    { intros y Hy. unfold C, links in Hy. simpl in Hy. rewrite !in_app_iff in Hy.
      destruct Hy as [Hy|[Hy|[Hy|[Hy|Hy]]]].
      - destruct (Forall2_in_r _ _ _ _ Fi8 Hy) as (o & _ & (K1 & _)). exact K1.
      - destruct (Forall2_in_r _ _ _ _ Fo8 Hy) as (o & _ & (K1 & _)). exact K1.
      - apply in_map_iff in Hy. destruct Hy as ([k a] & <- & Hka). simpl.
        apply (dict_of_in oname_eqb) in Hka. apply in_combine_r in Hka.
        destruct (Forall2_in_r _ _ _ _ Fw8 Hka) as (o & _ & (K1 & _)). exact K1.
      - destruct (Forall2_in_r _ _ _ _ Fn8 Hy) as (o & _ & (K1 & _)). exact K1.
      - simpl in Hy. destruct Hy as [<-|[<-|[<-|[]]]]; assumption. }
    destruct (good_alloc _ _ _ _ _ _ _ G8 H) as (G' & HF & Hx & Hcell).
    - intros y Hy. apply Hlk, Hy.
    - intros y Hy. unfold C in Hy. simpl in Hy. destruct Hy as [<-|[<-|[<-|[]]]]; [apply F6'|apply F7'|apply F8].
    - intros y Hy. left. apply Hlk, Hy.
    - split; [exact G'|]. split; [exact HF|]. split; [eexists; split; [exact Hcell|reflexivity]|]. intros W f.
      assert (L8 : le s8 st') by (eapply mono_alloc; exact H).
      destruct (W _ _ E) as [ND Hkeys]. simpl in ND.
      unfold gcanon_body at 1. rewrite Hcell. unfold gcanon_body. rewrite E. unfold C. simpl.
      assert (Hlen : length keys = length inits) by (symmetry; eapply Forall2_length'; exact Fk).
      (* the names read back from the cloned initializers are the original keys *)
      assert (Hk : keys = map fst (g_inits x)) by (apply (init_keys s2 s3 L23 W _ inits keys Hkeys Fw Fk)).
      assert (Hdict : newinits = combine keys inits).
      { unfold newinits. apply (dict_of_nodup oname_eqb oname_eqb_spec). rewrite map_fst_combine by exact Hlen.
        rewrite Hk. exact ND. }
      rewrite Hdict. rewrite (map_snd_combine (vcanon (cells (hp st'))) keys inits Hlen).
      f_equal.
      + apply Forall2_map_eq. eapply Forall2_impl'; [|exact Fi8]. intros o c _ _ (K1 & _ & K3).
        rewrite (vcanon_le _ _ _ _ _ G8 L8) by apply K1. apply K3, W.
      + apply Forall2_map_eq. eapply Forall2_impl'; [|exact Fo8]. intros o c _ _ (K1 & _ & K3).
        rewrite (vref_le _ _ L8) by apply K1. apply vref_of_vcanon, K3, W.
      + rewrite <- (map_map snd (fun a => vcanon (cells h0) a)).
        apply Forall2_map_eq. eapply Forall2_impl'; [|exact Fw8]. intros o c _ _ (K1 & _ & K3).
        rewrite (vcanon_le _ _ _ _ _ G8 L8) by apply K1. apply K3, W.
      + apply Forall2_map_eq. eapply Forall2_impl'; [|exact Fn8]. intros o c _ _ (K1 & K3).
        rewrite (ncanon_le _ _ _ _ _ G8 L8) by apply K1. apply K3, W.
      + rewrite (dict_canon_le _ _ L8) by apply F6'. rewrite (dict_canon_le _ _ L68) by apply F6. exact C6.
      + rewrite (dict_canon_le _ _ L8) by apply F7'. rewrite (dict_canon_le _ _ L78) by apply F7. exact C7.
      + rewrite (meta_canon_le _ _ _ _ _ G8 L8) by apply F8. apply C8, W.
  Qed.

  Lemma clone_graph_spec fuel : RecSpec (clone_graph allow deep fuel).
  Proof.
    induction fuel as [|f IH].
    - split; [intros g; apply mono_clone_graph|]. intros g st st' g' _ _ H. simpl in H. discriminate.
    - split; [intros g; apply mono_clone_graph|]. intros g st st' g' Hg G H. simpl in H.
      destruct (clone_graph_body_ok _ _ _ _ _ IH G Hg H) as (G' & HF & _ & HC).
      split; [exact G'|]. split; [exact HF|]. intros W [|k]; [reflexivity|]. simpl. apply HC, W.
  Qed.

  (* the clone is a Graph (never a view) *)
  Lemma clone_graph_is_graph fuel g st st' g' :
    good st -> g < n0 -> clone_graph allow deep fuel g st = (st', Ok g') ->
    exists x, cells (hp st') g' = Some (CGraph x) /\ g_view x = false.
  Proof.
    destruct fuel as [|f]; simpl; intros G Hg H; [discriminate|].
    destruct (clone_graph_body_ok _ _ _ _ _ (clone_graph_spec f) G Hg H) as (_ & _ & K & _). exact K.
  Qed.
End Good4.

(* C13/Pinned.v - the statements of the code that Model.v models, as they were when the model was written and
   proved (one string per statement, comments and error messages dropped; produced by harness/props/c13.py
   statement_list).  Gen/C13Gen.v is regenerated from /repo on every run; Property.v proves the two equal, so any edit
   of these methods breaks a proof obligation until the model is re-validated against the new source.
     _get_value                  -> Model.get_mapped           clone_meta   -> Model.clone_meta / clone_mval
     _clone_or_get_value         -> Model.clone_or_get_value / copy_value
     clone_attr                  -> Model.clone_attr (resolve_ref_attrs = False, as set by every clone() entry point)
     clone_node                  -> Model.clone_input / clone_output / clone_node / finish_node
     _remap_device_configurations-> Model.remap_spec / remap_dev  (and translated: Gen.C13Gen.gen_remap, GenEquiv.v)
     clone_graph                 -> Model.clone_graph_body / check_passed
     Graph.clone / GraphView.clone / Function.clone / Model.clone -> Model.graph_clone / view_clone / function_clone_m / model_clone_m
     _FunctionalPassWrapper.call -> Model.functional_pass *)
From Coq Require Import String List.
Import ListNotations.
Local Open Scope string_scope.

Definition pinned_get_value : list string :=
  [ "def _get_value(self, value) defaults  decorators _capture_error_context";
    "return self._value_map[value]" ].

Definition pinned_clone_or_get_value : list string :=
  [ "def _clone_or_get_value(self, value, deep_copy) defaults False decorators _capture_error_context";
    "if value in self._value_map:";
    ". known_value = self._value_map[value]";
    ". assert known_value is not None, '<msg>'";
    ". return known_value";
    "new_value = _core.Value(name=value.name, type=copy.deepcopy(value.type), shape=value.shape.copy() if value.shape is not None else None, doc_string=value.doc_string, const_value=value.const_value)";
    "if value.metadata_props:";
    ". new_value.metadata_props.update(value.metadata_props)";
    "if value.meta:";
    ". self.clone_meta(value.meta, new_value.meta, deep_copy=deep_copy)";
    "self._value_map[value] = new_value";
    "return new_value" ].

Definition pinned_clone_attr : list string :=
  [ "def clone_attr(self, key, attr, deep_copy) defaults False decorators _capture_error_context";
    "if not attr.is_ref():";
    ". if attr.type == _enums.AttributeType.GRAPH:";
    ". . graph = self.clone_graph(attr.as_graph(), deep_copy=deep_copy)";
    ". . return _core.Attr(key, _enums.AttributeType.GRAPH, graph, doc_string=attr.doc_string)";
    ". else:";
    ". . if attr.type == _enums.AttributeType.GRAPHS:";
    ". . . graphs = [self.clone_graph(graph, deep_copy=deep_copy) for graph in attr.as_graphs()]";
    ". . . return _core.Attr(key, _enums.AttributeType.GRAPHS, graphs, doc_string=attr.doc_string)";
    ". return attr";
    "assert attr.is_ref()";
    "if not self._resolve_ref_attrs:";
    ". return attr";
    "ref_attr_name = attr.ref_attr_name";
    "if ref_attr_name is None:";
    ". raise ValueError('<msg>')";
    "if ref_attr_name in self._attr_map:";
    ". ref_attr = self._attr_map[ref_attr_name]";
    ". if not ref_attr.is_ref():";
    ". . return _core.Attr(key, ref_attr.type, ref_attr.value, doc_string=ref_attr.doc_string)";
    ". assert ref_attr.ref_attr_name is not None";
    ". return _core.RefAttr(key, ref_attr.ref_attr_name, ref_attr.type, doc_string=ref_attr.doc_string)";
    "return None" ].

Definition pinned_clone_meta : list string :=
  [ "def clone_meta(self, old_meta, new_meta, deep_copy) defaults False decorators _capture_error_context";
    "for (key, value) in old_meta.items():";
    ". new_meta[key] = copy.deepcopy(value) if deep_copy else value";
    "for key in old_meta._invalid_keys:";
    ". new_meta.invalidate(key)" ].

Definition pinned_clone_node : list string :=
  [ "def clone_node(self, node, deep_copy) defaults False decorators _capture_error_context";
    "new_inputs: list[_core.Value | None] = []";
    "for input in node.inputs:";
    ". if input is None:";
    ". . new_inputs.append(input)";
    ". else:";
    ". . if input not in self._value_map:";
    ". . . if not self._allow_outer_scope_values:";
    ". . . . graph_name = input.graph.name or '<anonymous>' if input.graph else '<unknown>'";
    ". . . . raise ValueError('<msg>')";
    ". . . if input in self._own_outputs:";
    ". . . . raise ValueError('<msg>')";
    ". . . self._passed_through.append(input)";
    ". . . new_inputs.append(input)";
    ". . else:";
    ". . . new_inputs.append(self._get_value(input))";
    "new_attributes = [new_value for key, value in node.attributes.items() if (new_value := self.clone_attr(key, value, deep_copy=deep_copy)) is not None]";
    "new_metadata = {**self._metadata_props, **node.metadata_props}";
    "new_node = _core.Node(node.domain, node.op_type, new_inputs, new_attributes, overload=node.overload, num_outputs=len(node.outputs), version=node.version, name=node.name, doc_string=node.doc_string, metadata_props=new_metadata, device_configurations=node.device_configurations)";
    "if node.meta:";
    ". self.clone_meta(node.meta, new_node.meta, deep_copy=deep_copy)";
    "for (output, new_output) in zip(node.outputs, new_node.outputs):";
    ". self._value_map[output] = new_output";
    ". new_output.name = output.name";
    ". new_output.shape = output.shape.copy() if output.shape is not None else None";
    ". new_output.type = copy.deepcopy(output.type)";
    ". new_output.const_value = output.const_value";
    ". new_output.doc_string = output.doc_string";
    ". if output.metadata_props:";
    ". . new_output.metadata_props.update(output.metadata_props)";
    ". if output.meta:";
    ". . self.clone_meta(output.meta, new_output.meta, deep_copy=deep_copy)";
    "new_node.device_configurations = self._remap_device_configurations(new_node.device_configurations)";
    "self._post_process(new_node)";
    "return new_node" ].

Definition pinned_remap_device_configurations : list string :=
  [ "def _remap_device_configurations(self, device_configurations) defaults  decorators ";
    "if not device_configurations:";
    ". return device_configurations";
    "new_configurations = []";
    "changed = False";
    "for configuration in device_configurations:";
    ". new_specs = []";
    ". spec_changed = False";
    ". for spec in configuration.sharding_specs:";
    ". . if spec.value is None or spec.value not in self._value_map:";
    ". . . new_specs.append(spec)";
    ". . . continue";
    ". . mapped = self._value_map[spec.value]";
    ". . if mapped is None:";
    ". . . spec_changed = True";
    ". . . continue";
    ". . new_specs.append(dataclasses.replace(spec, value=mapped))";
    ". . spec_changed = True";
    ". if spec_changed:";
    ". . new_configurations.append(dataclasses.replace(configuration, sharding_specs=tuple(new_specs)))";
    ". . changed = True";
    ". else:";
    ". . new_configurations.append(configuration)";
    "return tuple(new_configurations) if changed else device_configurations" ].

Definition pinned_clone_graph : list string :=
  [ "def clone_graph(self, graph, deep_copy) defaults False decorators _capture_error_context";
    "input_values = [self._clone_or_get_value(v, deep_copy=deep_copy) for v in graph.inputs]";
    "initializers = [self._clone_or_get_value(v, deep_copy=deep_copy) for v in graph.initializers.values()]";
    "for node in graph:";
    ". self._own_outputs.update(node.outputs)";
    "nodes = [self.clone_node(node, deep_copy=deep_copy) for node in graph]";
    "output_values = typing.cast(list['_core.Value'], [self._get_value(v) for v in graph.outputs])";
    "for value in self._passed_through:";
    ". if value in self._value_map:";
    ". . raise ValueError('<msg>')";
    "new_graph = _core.Graph(input_values, output_values, nodes=nodes, initializers=initializers, doc_string=graph.doc_string, opset_imports=graph.opset_imports.copy(), name=graph.name)";
    "if graph.metadata_props:";
    ". new_graph.metadata_props.update(graph.metadata_props)";
    "if graph.meta:";
    ". self.clone_meta(graph.meta, new_graph.meta, deep_copy=deep_copy)";
    "return new_graph" ].

Definition pinned_graph_clone : list string :=
  [ "def clone(self, allow_outer_scope_values, deep_copy) defaults False, False decorators ";
    "from onnx_ir import _cloner";
    "cloner = _cloner.Cloner(attr_map={}, value_map={}, metadata_props={}, resolve_ref_attrs=False, allow_outer_scope_values=allow_outer_scope_values)";
    "return cloner.clone_graph(self, deep_copy=deep_copy)" ].

Definition pinned_view_clone : list string :=
  [ "def clone(self, deep_copy) defaults False decorators ";
    "from onnx_ir import _cloner";
    "cloner = _cloner.Cloner(attr_map={}, value_map={}, metadata_props={}, resolve_ref_attrs=False)";
    "return cloner.clone_graph(self, deep_copy=deep_copy)" ].

Definition pinned_function_clone : list string :=
  [ "def clone(self, deep_copy) defaults False decorators ";
    "from onnx_ir import _cloner";
    "cloner = _cloner.Cloner(attr_map={}, value_map={}, metadata_props={}, resolve_ref_attrs=False)";
    "new_graph = cloner.clone_graph(self._graph, deep_copy=deep_copy)";
    "new_attributes = [cloner.clone_attr(attr.name, attr, deep_copy=deep_copy) for attr in self._attributes.values()]";
    "return Function(domain=self._domain, name=self._name, overload=self._overload, graph=new_graph, attributes=new_attributes)" ].

Definition pinned_model_clone : list string :=
  [ "def clone(self, deep_copy) defaults False decorators ";
    "new_graph = self.graph.clone(deep_copy=deep_copy)";
    "new_functions = [func.clone(deep_copy=deep_copy) for func in self.functions.values()]";
    "new_model = Model(new_graph, ir_version=self.ir_version, producer_name=self.producer_name, producer_version=self.producer_version, domain=self.domain, model_version=self.model_version, doc_string=self.doc_string, functions=new_functions, metadata_props=dict(self.metadata_props), device_configurations=self.device_configurations)";
    "return new_model" ].

Definition pinned_functional_call : list string :=
  [ "def call(self, model) defaults  decorators ";
    "return self._inner_pass(model.clone())" ].

Definition pinned_all : list (list string) :=
  [ pinned_get_value; pinned_clone_or_get_value; pinned_clone_attr; pinned_clone_meta; pinned_clone_node; pinned_remap_device_configurations; pinned_clone_graph; pinned_graph_clone; pinned_view_clone; pinned_function_clone; pinned_model_clone; pinned_functional_call ].


(* C13/Proofs11.v — edit histories after a clone, functionalized passes, and the use-before-definition witness. *)
From Coq Require Import List ZArith NArith PArith Bool Lia.
From IRV Require Import Base.Exn C13.Model C13.Proofs1 C13.Proofs2 C13.Proofs3 C13.Proofs4 C13.Proofs5
     C13.Proofs6 C13.Proofs7 C13.Proofs8 C13.Proofs9 C13.Proofs10.
Import ListNotations.
Local Open Scope positive_scope.

Fixpoint ops_sided (col : id -> bool) (s : bool) (h : heap) (l : list op) : Prop :=
  match l with
  | [] => True
  | o :: r => (op_sided col s h o /\ op_refs_ok h o) /\ ops_sided col s (fst (apply_op h o)) r
  end.

(* no operation of the history renames a tensor object (Value.name on a value that has a const_value tensor) *)
Fixpoint ops_no_trename (h : heap) (l : list op) : Prop :=
  match l with
  | [] => True
  | o :: r => renames_tensor h o = false /\ ops_no_trename (fst (apply_op h o)) r
  end.

Lemma apply_ops_step col s l : forall h,
  inv col s h -> ops_sided col s h l -> ops_no_trename h l ->
  inv col s (apply_ops h l) /\ frame col s h (apply_ops h l).
Proof.
  induction l as [|o r IH]; intros h I Hs Hn; simpl.
  - split; [exact I|apply frame_refl].
  - destruct Hs as [[H1 H1'] H2]. destruct Hn as [N1 N2]. destruct (apply_op h o) as [h1 r1] eqn:E. simpl in *.
    destruct (apply_op_step col s h o h1 r1 I H1 H1' N1 E) as [I1 F1].
    destruct (IH h1 I1 H2 N2) as [I2 F2]. split; [exact I2|eapply frame_trans; eassumption].
Qed.

Lemma frame_nt_trans col s a b c : frame_nt col s a b -> frame_nt col s b c -> frame_nt col s a c.
Proof.
  intros [H1 H2] [H3 H4]. split; [lia|]. intros x Hx Hnt.
  rewrite H4; [apply H2; assumption|exact Hx|rewrite H2; assumption].
Qed.

Lemma apply_ops_step_nt col s l : forall h,
  inv col s h -> ops_sided col s h l -> inv col s (apply_ops h l) /\ frame_nt col s h (apply_ops h l).
Proof.
  induction l as [|o r IH]; intros h I Hs; simpl.
  - split; [exact I|]. split; [lia|reflexivity].
  - destruct Hs as [[H1 H1'] H2]. destruct (apply_op h o) as [h1 r1] eqn:E. simpl in *.
    destruct (apply_op_step_nt col s h o h1 r1 I H1 H1' E) as [I1 F1].
    destruct (IH h1 I1 H2) as [I2 F2]. split; [exact I2|eapply frame_nt_trans; eassumption].
Qed.

(* the two sides after a clone: everything allocated from n0 on (and later) is the clone's side ... *)
Definition col_clone (n0 : id) : id -> bool := fun x => Pos.leb n0 x.
(* ... or: the objects created by the clone are [n0, n1); everything else (and later) is the original's side *)
Definition col_orig (n0 n1 : id) : id -> bool := fun x => Pos.ltb x n0 || Pos.leb n1 x.

Section AfterClone.
  Variables allow deep : bool.
  Variable h0 : heap.
  Hypothesis Hcl0 : closed h0.
  Notation n0 := (next h0).
  Variable st : cst.
  Hypothesis G : good allow deep h0 st.

  Lemma clone_inv_clone_side : inv (col_clone n0) true (hp st).
  Proof.
    split; [apply (g_closed _ _ _ _ G)|]. split.
    - intros x c Hc y Hy. unfold col_clone. destruct (Pos.leb_spec n0 x) as [Hx|Hx].
      + apply Pos.leb_le. apply (g_own _ _ _ _ G x c Hx Hc y Hy).
      + rewrite (old_cell _ _ _ _ _ G Hx) in Hc. apply Pos.leb_gt.
        apply (proj2 (Hcl0 _ _ Hc)). apply own_links_links, Hy.
    - intros x Hx. unfold col_clone. apply Pos.leb_le. pose proof (g_ext _ _ _ _ G) as [K _]. lia.
  Qed.

  Lemma clone_inv_orig_side : inv (col_orig n0 (next (hp st))) true (hp st).
  Proof.
    split; [apply (g_closed _ _ _ _ G)|]. split.
    - intros x c Hc y Hy. unfold col_orig.
      destruct (g_closed _ _ _ _ G _ _ Hc) as [Hxn Hln].
      assert (Hyn : y < next (hp st)) by (apply Hln, own_links_links, Hy).
      destruct (Pos.ltb_spec x n0) as [Hx|Hx].
      + rewrite (old_cell _ _ _ _ _ G Hx) in Hc.
        assert (y < n0) by (apply (proj2 (Hcl0 _ _ Hc)); apply own_links_links, Hy).
        destruct (Pos.ltb_spec y n0); [reflexivity|lia].
      + assert (n0 <= y) by (apply (g_own _ _ _ _ G x c Hx Hc y Hy)).
        destruct (Pos.ltb_spec y n0); [lia|]. simpl.
        destruct (Pos.leb_spec (next (hp st)) y); [lia|]. destruct (Pos.leb_spec (next (hp st)) x); [lia|reflexivity].
    - intros x Hx. unfold col_orig. apply orb_true_iff. right. apply Pos.leb_le. exact Hx.
  Qed.

  (* edits of the clone leave every cell of the original as it was before the clone *)
  Lemma clone_edits_frame ops :
    ops_sided (col_clone n0) true (hp st) ops -> ops_no_trename (hp st) ops ->
    forall x, x < n0 -> cells (apply_ops (hp st) ops) x = cells h0 x.
  Proof.
    intros Hs Hn x Hx. destruct (apply_ops_step _ _ ops _ clone_inv_clone_side Hs Hn) as [_ [_ F]].
    rewrite F.
    - apply (old_cell _ _ _ _ _ G Hx).
    - unfold col_clone. destruct (Pos.leb_spec n0 x); [lia|discriminate].
  Qed.

  (* edits of the original leave every cell created by the clone as the clone made it *)
  (* with tensor renames allowed: every cell of the original that is not a tensor object is as before the clone *)
  Lemma clone_edits_frame_nt ops :
    ops_sided (col_clone n0) true (hp st) ops ->
    forall x, x < n0 -> is_tensor (cells h0 x) = false -> cells (apply_ops (hp st) ops) x = cells h0 x.
  Proof.
    intros Hs x Hx Hnt. destruct (apply_ops_step_nt _ _ ops _ clone_inv_clone_side Hs) as [_ [_ F]].
    rewrite F.
    - apply (old_cell _ _ _ _ _ G Hx).
    - unfold col_clone. destruct (Pos.leb_spec n0 x); [lia|discriminate].
    - rewrite (old_cell _ _ _ _ _ G Hx). exact Hnt.
  Qed.

  Lemma orig_edits_frame_nt ops :
    ops_sided (col_orig n0 (next (hp st))) true (hp st) ops ->
    forall x, n0 <= x -> x < next (hp st) -> is_tensor (cells (hp st) x) = false ->
              cells (apply_ops (hp st) ops) x = cells (hp st) x.
  Proof.
    intros Hs x Hx1 Hx2 Hnt. destruct (apply_ops_step_nt _ _ ops _ clone_inv_orig_side Hs) as [_ [_ F]].
    apply F; [|exact Hnt]. unfold col_orig. destruct (Pos.ltb_spec x n0); [lia|].
    destruct (Pos.leb_spec (next (hp st)) x); [lia|]. discriminate.
  Qed.

  Lemma orig_edits_frame ops :
    ops_sided (col_orig n0 (next (hp st))) true (hp st) ops -> ops_no_trename (hp st) ops ->
    forall x, n0 <= x -> x < next (hp st) -> cells (apply_ops (hp st) ops) x = cells (hp st) x.
  Proof.
    intros Hs Hn x Hx1 Hx2. destruct (apply_ops_step _ _ ops _ clone_inv_orig_side Hs Hn) as [_ [_ F]].
    apply F. unfold col_orig. destruct (Pos.ltb_spec x n0); [lia|]. destruct (Pos.leb_spec (next (hp st)) x); [lia|].
    discriminate.
  Qed.

  (* hence every observation of the original is unchanged by edits of the clone *)
  Lemma clone_edits_canon ops k g :
    ops_sided (col_clone n0) true (hp st) ops -> ops_no_trename (hp st) ops -> g < n0 ->
    gcanon (cells (apply_ops (hp st) ops)) k g = gcanon (cells h0) k g.
  Proof.
    intros Hs Hn Hg. apply (gcanon_st _ _ (fun x => x < n0)).
    - intros x c _ Hc y Hy. apply (proj2 (Hcl0 _ _ Hc)), Hy.
    - intros x Hx. apply clone_edits_frame; assumption.
    - exact Hg.
  Qed.

  Lemma clone_edits_mcanon ops k m :
    ops_sided (col_clone n0) true (hp st) ops -> ops_no_trename (hp st) ops -> m < n0 ->
    mcanon (cells (apply_ops (hp st) ops)) k m = mcanon (cells h0) k m.
  Proof.
    intros Hs Hn Hg. apply (mcanon_st _ _ (fun x => x < n0)).
    - intros x c _ Hc y Hy. apply (proj2 (Hcl0 _ _ Hc)), Hy.
    - intros x Hx. apply clone_edits_frame; assumption.
    - exact Hg.
  Qed.
End AfterClone.

(* ---------- functionalize *)
Lemma functional_pass_frame fuel prog m h0 h' r :
  closed h0 -> m < next h0 ->
  (forall st m', model_clone fuel false m h0 = (st, Ok m') ->
                 ops_sided (col_clone (next h0)) true (hp st) (prog m') /\ ops_no_trename (hp st) (prog m')) ->
  functional_pass fuel prog m h0 = (h', r) ->
  forall x, x < next h0 -> cells h' x = cells h0 x.
Proof.
  intros Hcl Hm Hp H x Hx. unfold functional_pass in H.
  destruct (model_clone fuel false m h0) as [st [m'|e]] eqn:E.
  - injection H as <- _.
    destruct (model_clone_ok false h0 Hcl fuel _ _ _ _ (good_init false false h0 Hcl) Hm E) as [G _].
    apply (clone_edits_frame false false h0 Hcl st G (prog m') (proj1 (Hp st m' eq_refl)) (proj2 (Hp st m' eq_refl)) x Hx).
  - injection H as <- _. apply mono_model_clone_m in E. destruct E as [[_ K] _]. apply K. exact Hx.
Qed.

(* ---------- concrete heaps: closedness by computation *)
Definition closedb (l : list (id * cell)) (n : id) : bool :=
  forallb (fun p => Pos.ltb (fst p) n && forallb (fun y => Pos.ltb y n) (links (snd p))) l.

Lemma assoc_in {B} x (l : list (id * B)) c : assoc x l = Some c -> In (x, c) l.
Proof.
  induction l as [|[k v] r IH]; simpl; [discriminate|]. destruct (Pos.eqb_spec x k) as [->|Hne].
  - intros H. injection H as <-. left. reflexivity.
  - intros H. right. apply IH, H.
Qed.

Lemma closedb_sound l n : closedb l n = true -> closed (heap_of l n).
Proof.
  intros H x c Hc. simpl in Hc. apply assoc_in in Hc. unfold closedb in H. rewrite forallb_forall in H.
  specialize (H _ Hc). simpl in H. apply andb_true_iff in H. destruct H as [H1 H2]. split.
  - apply Pos.ltb_lt, H1.
  - intros y Hy. rewrite forallb_forall in H2. apply Pos.ltb_lt, H2, Hy.
Qed.

(* the witness: graph g(x) with nodes [B: b = Neg(a); A: a = Relu(x)] — B listed before A — and output b *)
Definition wit_cells : list (id * cell) :=
  [ (1, CDict []); (2, CMeta meta_empty); (3, CValue (Val (Some 1%N) None None None None 1 2));
    (4, CDict []); (5, CMeta meta_empty); (6, CValue (Val (Some 2%N) None None None None 4 5));
    (7, CDict []); (8, CMeta meta_empty); (9, CValue (Val (Some 3%N) None None None None 7 8));
    (10, CDict []); (11, CMeta meta_empty);
    (12, CNode (Nod (Some 4%N) 0%N 10%N 0%N None [Some 3] [6] [] None 10 11 []));
    (13, CDict []); (14, CMeta meta_empty);
    (15, CNode (Nod (Some 5%N) 0%N 11%N 0%N None [Some 6] [9] [] None 13 14 []));
    (16, CDict [(0%N, 20%N)]); (17, CDict []); (18, CMeta meta_empty);
    (19, CGraph (Gra (Some 6%N) [3] [9] [] [15; 12] None 16 17 18 false)) ].
Definition wit_heap : heap := heap_of wit_cells 20.

Lemma wit_closed : closed wit_heap.
Proof. apply closedb_sound. vm_compute. reflexivity. Qed.

(* with allow_outer_scope_values the clone of the unsorted graph keeps the ORIGINAL's value a (id 6) as the
   input of the cloned node B (id 28), although the graph owns a and a clone of it (id 33) exists *)
Notation wit_run := (graph_clone 3 true false 19 wit_heap).

Lemma wit_wf : dicts_wf wit_heap.
Proof.
  intros x c Hc. change (assoc x wit_cells = Some c) in Hc. apply assoc_in in Hc. unfold wit_cells in Hc. cbn [In] in Hc.
  repeat (destruct Hc as [Hc|Hc];
          [injection Hc as <- <-; cbn [cell_wf m_data m_inv n_attrs g_inits map fst meta_empty];
           first [exact I | split; [constructor|first [intros ? []|constructor]]] | ]).
  destruct Hc.
Qed.
Lemma wit_wfdev : wf_dev wit_heap.
Proof.
  intros x n Hc. change (assoc x wit_cells = Some (CNode n)) in Hc. apply assoc_in in Hc. unfold wit_cells in Hc. cbn [In] in Hc.
  repeat (destruct Hc as [Hc|Hc]; [try discriminate; injection Hc as <- <-; intros d sp y []|]).
  destruct Hc.
Qed.

(* interleaving: before an operation of side s, the ids not yet allocated may be given colour s *)
Lemma inv_recolor col h s :
  closed h -> sep col h -> inv (fun x => if Pos.leb (next h) x then s else col x) s h.
Proof.
  intros Hc Hs. split; [exact Hc|]. split.
  - intros x c Hx y Hy. destruct (Hc _ _ Hx) as [H1 H2].
    assert (Hy' : y < next h) by (apply H2, own_links_links, Hy).
    destruct (Pos.leb_spec (next h) x); [lia|]. destruct (Pos.leb_spec (next h) y); [lia|].
    apply (Hs _ _ Hx y Hy).
  - intros x Hx. destruct (Pos.leb_spec (next h) x); [reflexivity|lia].
Qed.

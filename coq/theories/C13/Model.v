(* C13/Model.v — executable model of onnx_ir cloning (src/onnx_ir/_cloner.py, Graph.clone, GraphView.clone,
   Function.clone, Model.clone in _core.py, functionalize in passes/_pass_infra.py) over an object heap in
   which every mutable sub-object that the code shares or copies is a separate cell.

   Object identity is a [positive]; one allocation counter serves all kinds of cells, so "newly allocated by
   the clone" is "id >= next of the heap before the clone".  Tensors are immutable tokens (N), shared.
   The Cloner is modelled as instantiated by the four clone() entry points: attr_map = {}, metadata_props = {},
   post_process = no-op, resolve_ref_attrs = False; value_map starts empty.  Definitions only (no lemmas). *)
From Coq Require Import List ZArith NArith PArith Bool.
From IRV Require Import Base.Exn.
Import ListNotations.

Definition id := positive.
Definition name := N.            (* interned string *)

(* ------------------------------------------------------------------ cells *)
Inductive dim := DInt (z : Z) | DSym (s : option name).
Record shape := Shp { sh_dims : list dim; sh_den : list (option name); sh_frozen : bool }.
(* a type object with its chain of element types (deepcopy copies the whole chain) *)
Inductive ty := TBase (k dt : N) (den : option name) | TWrap (k : N) (e : ty) (den : option name).
Inductive mval := MAtom (z : Z) | MObj (o : id).
Record meta := Met { m_data : list (name * mval); m_inv : list name }.
Record spec := Spc { sp_value : option id; sp_rest : N }.
Record devcfg := Dev { dc_cfg : N; dc_stage : option Z; dc_specs : list spec }.
Inductive attrv := AVal (t tok : N) | ARef (t : N) (r : name) | AGraph (g : id) | AGraphs (gs : list id)
                 | ATensor (t : id).      (* a TENSOR attribute: the tensor object *)
Record attr := Att { a_name : name; a_val : attrv; a_doc : option name }.
Record value := Val { v_name : option name; v_type : option id; v_shape : option id; v_doc : option name;
                      v_const : option id; v_mp : id; v_meta : id }.
Record node := Nod { n_name : option name; n_domain : name; n_op : name; n_overload : name;
                     n_version : option Z; n_inputs : list (option id); n_outputs : list id;
                     n_attrs : list (name * id); n_doc : option name; n_mp : id; n_meta : id;
                     n_dev : list devcfg }.
Record graph := Gra { g_name : option name; g_inputs : list id; g_outputs : list id;
                      g_inits : list (option name * id); g_nodes : list id; g_doc : option name;
                      g_opset : id; g_mp : id; g_meta : id; g_view : bool }.
Record func := Fun { f_domain : name; f_name : name; f_overload : name; f_graph : id;
                     f_attrs : list (name * id) }.
Record model := Mod { md_graph : id; md_funcs : list id; md_info : N; md_mp : id; md_meta : id }.

Inductive cell :=
| CValue (v : value) | CNode (n : node) | CGraph (g : graph) | CShape (s : shape) | CType (t : ty)
| CDict (d : list (name * name))       (* metadata_props dicts and opset_imports dicts *)
| CMeta (m : meta) | CAttr (a : attr) | CObj (o : list Z) | CFunc (f : func) | CModel (m : model)
| CTensor (nm : option name).   (* a tensor object: immutable data (its identity) and a mutable name; never copied *)

Definition oid (o : option id) : list id := match o with Some x => [x] | None => [] end.
Definition mval_ids (kv : name * mval) : list id := match snd kv with MObj o => [o] | MAtom _ => [] end.
Definition dev_ids (d : devcfg) : list id := flat_map (fun s => oid (sp_value s)) (dc_specs d).
Definition attrv_ids (a : attrv) : list id :=
  match a with AGraph g => [g] | AGraphs gs => gs | _ => [] end.
Definition attrv_tensor (a : attrv) : list id := match a with ATensor t => [t] | _ => [] end.

(* every object reference held by a cell *)
Definition links (c : cell) : list id :=
  match c with
  | CValue v => oid (v_type v) ++ oid (v_shape v) ++ [v_mp v; v_meta v] ++ oid (v_const v)
  | CNode n => flat_map oid (n_inputs n) ++ n_outputs n ++ map snd (n_attrs n) ++ [n_mp n; n_meta n]
               ++ flat_map dev_ids (n_dev n)
  | CGraph g => g_inputs g ++ g_outputs g ++ map snd (g_inits g) ++ g_nodes g ++ [g_opset g; g_mp g; g_meta g]
  | CShape _ | CType _ | CDict _ | CObj _ | CTensor _ => []
  | CMeta m => flat_map mval_ids (m_data m)
  | CAttr a => attrv_ids (a_val a) ++ attrv_tensor (a_val a)
  | CFunc f => f_graph f :: map snd (f_attrs f)
  | CModel m => md_graph m :: md_funcs m ++ [md_mp m; md_meta m]
  end.

(* ------------------------------------------------------------------ heap *)
Record heap := Hp { cells : id -> option cell; next : id }.

Definition upd (f : id -> option cell) (x : id) (c : cell) : id -> option cell :=
  fun y => if Pos.eqb y x then Some c else f y.

Fixpoint assoc {B} (x : id) (l : list (id * B)) : option B :=
  match l with [] => None | (k, v) :: r => if Pos.eqb x k then Some v else assoc x r end.

Definition heap_of (l : list (id * cell)) (nx : id) : heap := Hp (fun x => assoc x l) nx.

Definition halloc (h : heap) (c : cell) : heap * id :=
  (Hp (upd (cells h) (next h) c) (Pos.succ (next h)), next h).
Definition hwrite (h : heap) (x : id) (c : cell) : heap := Hp (upd (cells h) x c) (next h).

(* ------------------------------------------------------------------ python dicts as ordered association lists *)
Section Dict.
  Context {K V : Type} (eqb : K -> K -> bool).
  Fixpoint dict_set (k : K) (v : V) (d : list (K * V)) : list (K * V) :=
    match d with
    | [] => [(k, v)]
    | (k', v') :: r => if eqb k k' then (k, v) :: r else (k', v') :: dict_set k v r
    end.
  Fixpoint dict_del (k : K) (d : list (K * V)) : list (K * V) :=
    match d with
    | [] => []
    | (k', v') :: r => if eqb k k' then r else (k', v') :: dict_del k r
    end.
  Fixpoint dict_get (k : K) (d : list (K * V)) : option V :=
    match d with [] => None | (k', v') :: r => if eqb k k' then Some v' else dict_get k r end.
  (* {k: v for k, v in l} *)
  Definition dict_of (l : list (K * V)) : list (K * V) :=
    fold_left (fun d kv => dict_set (fst kv) (snd kv) d) l [].
End Dict.

Definition oname_eqb (a b : option name) : bool := option_eqb N.eqb a b.

(* MetadataStore.__setitem__ / invalidate *)
Definition meta_setitem (k : name) (v : mval) (m : meta) : meta :=
  Met (dict_set N.eqb k v (m_data m)) (filter (fun x => negb (N.eqb x k)) (m_inv m)).
Definition meta_invalidate (k : name) (m : meta) : meta :=
  Met (m_data m) (if existsb (N.eqb k) (m_inv m) then m_inv m else m_inv m ++ [k]).
Definition meta_empty : meta := Met [] [].

(* ------------------------------------------------------------------ the cloner *)
Record cst := St { hp : heap; vmap : list (id * id); passed : list id; kept : list id }.
(* [passed] and [kept] are ghost state: the node inputs that clone_node passed through unchanged (outer-scope
   values), and the sharding-spec values that _remap_device_configurations kept as they were. *)

Definition M (A : Type) := cst -> cst * res A.
Definition ret {A} (a : A) : M A := fun st => (st, Ok a).
Definition raise {A} (e : exn) : M A := fun st => (st, Raise e).
Definition bind {A B} (m : M A) (f : A -> M B) : M B :=
  fun st => match m st with
            | (st', Ok a) => f a st'
            | (st', Raise e) => (st', Raise e)
            end.
Notation "x <- m ;; k" := (bind m (fun x => k)) (at level 61, m at next level, right associativity).

Fixpoint mapM {A B} (f : A -> M B) (l : list A) : M (list B) :=
  match l with
  | [] => ret []
  | x :: r => y <- f x ;; ys <- mapM f r ;; ret (y :: ys)
  end.

Definition alloc (c : cell) : M id :=
  fun st => let '(h, x) := halloc (hp st) c in (St h (vmap st) (passed st) (kept st), Ok x).
(* a dangling reference or a cell of the wrong kind is a model-level error (OtherError), never produced
   by the implementation; every theorem excludes it by requiring an Ok result *)
Definition get (x : id) : M cell :=
  fun st => match cells (hp st) x with Some c => (st, Ok c) | None => (st, Raise OtherError) end.
Definition vmap_get (v : id) : M (option id) := fun st => (st, Ok (assoc v (vmap st))).
Definition vmap_set (v c : id) : M unit :=
  fun st => (St (hp st) ((v, c) :: vmap st) (passed st) (kept st), Ok tt).
Definition pass_add (v : id) : M unit := fun st => (St (hp st) (vmap st) (v :: passed st) (kept st), Ok tt).
Definition keep_add (l : list id) : M unit := fun st => (St (hp st) (vmap st) (passed st) (l ++ kept st), Ok tt).

Definition get_value (x : id) : M value := c <- get x ;; match c with CValue v => ret v | _ => raise OtherError end.
Definition get_node (x : id) : M node := c <- get x ;; match c with CNode v => ret v | _ => raise OtherError end.
Definition get_graph (x : id) : M graph := c <- get x ;; match c with CGraph v => ret v | _ => raise OtherError end.
Definition get_attr (x : id) : M attr := c <- get x ;; match c with CAttr v => ret v | _ => raise OtherError end.
Definition get_func (x : id) : M func := c <- get x ;; match c with CFunc v => ret v | _ => raise OtherError end.
Definition get_model (x : id) : M model := c <- get x ;; match c with CModel v => ret v | _ => raise OtherError end.

Section Cloner.
  Variable allow : bool.     (* allow_outer_scope_values *)
  Variable deep : bool.      (* deep_copy *)

  (* new.metadata_props.update(old.metadata_props) on a new dict / dict.copy() / {**{}, **d} *)
  Definition clone_dict (d : id) : M id :=
    c <- get d ;; match c with CDict l => alloc (CDict l) | _ => raise OtherError end.

  (* value.shape.copy() if value.shape is not None else None : the copy is never frozen *)
  Definition clone_shape (s : option id) : M (option id) :=
    match s with
    | None => ret None
    | Some x => c <- get x ;;
                match c with
                | CShape sh => y <- alloc (CShape (Shp (sh_dims sh) (sh_den sh) false)) ;; ret (Some y)
                | _ => raise OtherError
                end
    end.

  (* copy.deepcopy(value.type) *)
  Definition clone_type (t : option id) : M (option id) :=
    match t with
    | None => ret None
    | Some x => c <- get x ;;
                match c with
                | CType t0 => y <- alloc (CType t0) ;; ret (Some y)
                | _ => raise OtherError
                end
    end.

  (* copy.deepcopy(value) if deep_copy else value *)
  Definition clone_mval (kv : name * mval) : M (name * mval) :=
    match snd kv with
    | MAtom _ => ret kv
    | MObj o => if deep
                then c <- get o ;;
                     match c with
                     | CObj l => y <- alloc (CObj l) ;; ret (fst kv, MObj y)
                     | _ => raise OtherError
                     end
                else ret kv
    end.

  (* Cloner.clone_meta into the (empty) store of a new object *)
  Definition clone_meta (m : id) : M id :=
    c <- get m ;;
    match c with
    | CMeta old =>
        data <- mapM clone_mval (m_data old) ;;
        let m1 := fold_left (fun acc kv => meta_setitem (fst kv) (snd kv) acc) data meta_empty in
        let m2 := fold_left (fun acc k => meta_invalidate k acc) (m_inv old) m1 in
        alloc (CMeta m2)
    | _ => raise OtherError
    end.

  (* a new Value carrying the copied properties of [v] (shared by _clone_or_get_value and the
     "copy output properties" loop of clone_node) *)
  Definition copy_value (v : id) : M id :=
    old <- get_value v ;;
    t <- clone_type (v_type old) ;;
    s <- clone_shape (v_shape old) ;;
    mp <- clone_dict (v_mp old) ;;
    me <- clone_meta (v_meta old) ;;
    alloc (CValue (Val (v_name old) t s (v_doc old) (v_const old) mp me)).

  Definition clone_or_get_value (v : id) : M id :=
    k <- vmap_get v ;;
    match k with
    | Some c => ret c
    | None => c <- copy_value v ;; _ <- vmap_set v c ;; ret c
    end.

  (* Cloner._get_value: KeyError (re-raised as RuntimeError by _capture_error_context) *)
  Definition get_mapped (v : id) : M id :=
    k <- vmap_get v ;; match k with Some c => ret c | None => raise RuntimeError end.

  Definition clone_input (i : option id) : M (option id) :=
    match i with
    | None => ret None
    | Some v =>
        k <- vmap_get v ;;
        match k with
        | Some c => ret (Some c)
        | None => if allow then _ <- pass_add v ;; ret (Some v) else raise RuntimeError
        end
    end.

  Definition remap_spec (m : list (id * id)) (s : spec) : spec :=
    match sp_value s with
    | None => s
    | Some v => match assoc v m with Some c => Spc (Some c) (sp_rest s) | None => s end
    end.
  Definition remap_dev (m : list (id * id)) (d : devcfg) : devcfg :=
    Dev (dc_cfg d) (dc_stage d) (map (remap_spec m) (dc_specs d)).
  Definition unmapped (m : list (id * id)) (y : id) : bool :=
    match assoc y m with None => true | Some _ => false end.
  (* new_node.device_configurations = self._remap_device_configurations(...), then the finished node *)
  Definition finish_node (n : node) (ins : list (option id)) (outs ats : list id) (atn : list name)
             (mp me : id) : M id :=
    fun st =>
      (_ <- keep_add (filter (unmapped (vmap st)) (flat_map dev_ids (n_dev n))) ;;
       alloc (CNode (Nod (n_name n) (n_domain n) (n_op n) (n_overload n) (n_version n) ins outs
                         (dict_of N.eqb (combine atn ats)) (n_doc n) mp me
                         (map (remap_dev (vmap st)) (n_dev n))))) st.

  Definition attr_name_of (a : id) : M name := x <- get_attr a ;; ret (a_name x).
  Definition value_name_of (v : id) : M (option name) := x <- get_value v ;; ret (v_name x).

  (* clone_graph, after the outputs are looked up: a value passed through as an outer-scope value that has a clone
     in the value map was used before its definition -> ValueError (re-raised as RuntimeError) *)
  Definition check_passed : M unit :=
    fun st => if forallb (unmapped (vmap st)) (passed st) then (st, Ok tt) else (st, Raise RuntimeError).

  Section Rec.
    Variable rec_graph : id -> M id.     (* clone_graph at the next recursion depth *)

    Definition clone_attr (ka : name * id) : M id :=
      a <- get_attr (snd ka) ;;
      match a_val a with
      | AGraph g => g' <- rec_graph g ;; alloc (CAttr (Att (fst ka) (AGraph g') (a_doc a)))
      | AGraphs gs => gs' <- mapM rec_graph gs ;; alloc (CAttr (Att (fst ka) (AGraphs gs') (a_doc a)))
      | AVal _ _ | ARef _ _ | ATensor _ => ret (snd ka)       (* shared *)
      end.

    Definition clone_output (o : id) : M id :=
      c <- copy_value o ;; _ <- vmap_set o c ;; ret c.

    Definition clone_node (nid : id) : M id :=
      n <- get_node nid ;;
      ins <- mapM clone_input (n_inputs n) ;;
      ats <- mapM clone_attr (n_attrs n) ;;
      atn <- mapM attr_name_of ats ;;
      mp <- clone_dict (n_mp n) ;;
      me <- clone_meta (n_meta n) ;;
      outs <- mapM clone_output (n_outputs n) ;;
      finish_node n ins outs ats atn mp me.

    Definition clone_graph_body (gid : id) : M id :=
      g <- get_graph gid ;;
      ins <- mapM clone_or_get_value (g_inputs g) ;;
      inits <- mapM clone_or_get_value (map snd (g_inits g)) ;;
      nodes <- mapM clone_node (g_nodes g) ;;
      outs <- mapM get_mapped (g_outputs g) ;;
      _ <- check_passed ;;
      keys <- mapM value_name_of inits ;;
      ops <- clone_dict (g_opset g) ;;
      mp <- clone_dict (g_mp g) ;;
      me <- clone_meta (g_meta g) ;;
      alloc (CGraph (Gra (g_name g) ins outs (dict_of oname_eqb (combine keys inits)) nodes (g_doc g)
                         ops mp me false)).
  End Rec.

  Fixpoint clone_graph (fuel : nat) (gid : id) : M id :=
    match fuel with
    | O => raise OtherError
    | S f => clone_graph_body (clone_graph f) gid
    end.
End Cloner.

Definition init_st (h : heap) : cst := St h [] [] [].

(* Graph.clone(allow_outer_scope_values, deep_copy) *)
Definition graph_clone (fuel : nat) (allow deep : bool) (g : id) (h : heap) : cst * res id :=
  clone_graph allow deep fuel g (init_st h).
(* GraphView.clone(deep_copy): same cloner, allow_outer_scope_values left at its default False *)
Definition view_clone (fuel : nat) (deep : bool) (g : id) (h : heap) : cst * res id :=
  clone_graph false deep fuel g (init_st h).

(* Function.clone(deep_copy) *)
Definition function_clone_m (fuel : nat) (deep : bool) (fid : id) : M id :=
  f <- get_func fid ;;
  g' <- clone_graph false deep fuel (f_graph f) ;;
  ats <- mapM (clone_attr (clone_graph false deep fuel)) (f_attrs f) ;;
  atn <- mapM attr_name_of ats ;;
  alloc (CFunc (Fun (f_domain f) (f_name f) (f_overload f) g' (dict_of N.eqb (combine atn ats)))).
Definition function_clone (fuel : nat) (deep : bool) (fid : id) (h : heap) : cst * res id :=
  function_clone_m fuel deep fid (init_st h).

(* run a sub-cloner with its own (empty) value map on the current heap *)
Definition fresh_cloner {A} (m : M A) : M A :=
  fun st => let '(st', r) := m (St (hp st) [] (passed st) (kept st)) in
            (St (hp st') (vmap st) (passed st') (kept st'), r).

(* Model.clone(deep_copy): graph, then each function with its own cloner, then a new Model with
   dict(metadata_props); model.meta is not copied (the new model starts with an empty store) *)
Definition model_clone_m (fuel : nat) (deep : bool) (mid : id) : M id :=
  m <- get_model mid ;;
  g' <- fresh_cloner (clone_graph false deep fuel (md_graph m)) ;;
  fs <- mapM (fun f => fresh_cloner (function_clone_m fuel deep f)) (md_funcs m) ;;
  mp <- clone_dict (md_mp m) ;;
  me <- alloc (CMeta meta_empty) ;;
  alloc (CModel (Mod g' fs (md_info m) mp me)).
Definition model_clone (fuel : nat) (deep : bool) (mid : id) (h : heap) : cst * res id :=
  model_clone_m fuel deep mid (init_st h).

(* ------------------------------------------------------------------ canonical serialization (model of ir.to_proto,
   extended with the metadata stores): object references are replaced by what the proto stores — value names. *)
Inductive cmval := CMAtom (z : Z) | CMObj (l : option (list Z)).
Record cmeta := CMet { cm_data : list (name * cmval); cm_inv : list name }.
Record cvalue := CVal { cv_name : option name; cv_type : option (option ty);
                        cv_shape : option (option (list dim * list (option name)));
                        cv_doc : option name; cv_const : option id;
                        cv_mp : option (list (name * name)); cv_meta : option cmeta }.
Inductive cgraph :=
| CGr (nm : option name) (ins : list (option cvalue)) (outs : list (option (option name)))
      (inits : list (option cvalue)) (nodes : list cnode) (doc : option name)
      (opset mp : option (list (name * name))) (me : option cmeta)
| CGrBad
with cnode :=
| CNo (nm : option name) (dom op ov : name) (ver : option Z) (ins : list (option (option (option name))))
      (outs : list (option cvalue)) (attrs : list cattr) (doc : option name)
      (mp : option (list (name * name))) (me : option cmeta)
      (dev : list (N * option Z * list (option (option (option name)) * N)))
| CNoBad
with cattr :=
| CAV (nm : name) (t tok : N) (doc : option name)
| CAT (nm : name) (t : id) (tname : option (option name)) (doc : option name)   (* tensor identity and its current name *)
| CAR (nm : name) (t : N) (r : name) (doc : option name)
| CAG (nm : name) (g : cgraph) (doc : option name)
| CAGs (nm : name) (gs : list cgraph) (doc : option name)
| CABad.

Section Canon.
  Variable h : id -> option cell.

  Definition dict_canon (d : id) : option (list (name * name)) :=
    match h d with Some (CDict l) => Some l | _ => None end.
  Definition mval_canon (kv : name * mval) : name * cmval :=
    (fst kv, match snd kv with
             | MAtom z => CMAtom z
             | MObj o => CMObj (match h o with Some (CObj l) => Some l | _ => None end)
             end).
  Definition meta_canon (m : id) : option cmeta :=
    match h m with Some (CMeta x) => Some (CMet (map mval_canon (m_data x)) (m_inv x)) | _ => None end.
  Definition type_canon (t : option id) : option (option ty) :=
    match t with
    | None => Some None
    | Some x => match h x with Some (CType t0) => Some (Some t0) | _ => None end
    end.
  Definition shape_canon (s : option id) : option (option (list dim * list (option name))) :=
    match s with
    | None => Some None
    | Some x => match h x with Some (CShape sh) => Some (Some (sh_dims sh, sh_den sh)) | _ => None end
    end.
  Definition vcanon (v : id) : option cvalue :=
    match h v with
    | Some (CValue x) => Some (CVal (v_name x) (type_canon (v_type x)) (shape_canon (v_shape x)) (v_doc x)
                                    (v_const x) (dict_canon (v_mp x)) (meta_canon (v_meta x)))
    | _ => None
    end.
  (* the name under which a value is referred to *)
  Definition vref (v : id) : option (option name) :=
    match h v with Some (CValue x) => Some (v_name x) | _ => None end.
  Definition iref (i : option id) : option (option (option name)) :=
    match i with None => None | Some v => Some (vref v) end.
  Definition dev_canon (d : devcfg) : N * option Z * list (option (option (option name)) * N) :=
    (dc_cfg d, dc_stage d, map (fun s => (iref (sp_value s), sp_rest s)) (dc_specs d)).

  Section RecC.
    Variable rec_g : id -> cgraph.
    Definition acanon (a : id) : cattr :=
      match h a with
      | Some (CAttr x) =>
          match a_val x with
          | AVal t tok => CAV (a_name x) t tok (a_doc x)
          | ATensor t => CAT (a_name x) t (match h t with Some (CTensor nm) => Some nm | _ => None end) (a_doc x)
          | ARef t r => CAR (a_name x) t r (a_doc x)
          | AGraph g => CAG (a_name x) (rec_g g) (a_doc x)
          | AGraphs gs => CAGs (a_name x) (map rec_g gs) (a_doc x)
          end
      | _ => CABad
      end.
    Definition ncanon (n : id) : cnode :=
      match h n with
      | Some (CNode x) =>
          CNo (n_name x) (n_domain x) (n_op x) (n_overload x) (n_version x) (map iref (n_inputs x))
              (map vcanon (n_outputs x)) (map (fun ka => acanon (snd ka)) (n_attrs x)) (n_doc x)
              (dict_canon (n_mp x)) (meta_canon (n_meta x)) (map dev_canon (n_dev x))
      | _ => CNoBad
      end.
    Definition gcanon_body (g : id) : cgraph :=
      match h g with
      | Some (CGraph x) =>
          CGr (g_name x) (map vcanon (g_inputs x)) (map vref (g_outputs x))
              (map (fun kv => vcanon (snd kv)) (g_inits x)) (map ncanon (g_nodes x)) (g_doc x)
              (dict_canon (g_opset x)) (dict_canon (g_mp x)) (meta_canon (g_meta x))
      | _ => CGrBad
      end.
  End RecC.

  Fixpoint gcanon (fuel : nat) (g : id) : cgraph :=
    match fuel with
    | O => CGrBad
    | S f => gcanon_body (gcanon f) g
    end.

  Definition fcanon (fuel : nat) (f : id) :=
    match h f with
    | Some (CFunc x) => Some (f_domain x, f_name x, f_overload x, gcanon fuel (f_graph x),
                              map (fun ka => acanon (gcanon fuel) (snd ka)) (f_attrs x))
    | _ => None
    end.
  Definition mcanon (fuel : nat) (m : id) :=
    match h m with
    | Some (CModel x) => Some (gcanon fuel (md_graph x), map (fcanon fuel) (md_funcs x), md_info x,
                               dict_canon (md_mp x))
    | _ => None
    end.
End Canon.

(* ------------------------------------------------------------------ the values a graph owns (defines), in the
   order the cloner meets them: inputs, initializers, then per node the values owned by its subgraphs and its outputs *)
Section Owned.
  Variable h : id -> option cell.
  Section RecO.
    Variable rec_o : id -> list id.
    Definition attr_owned (a : id) : list id :=
      match h a with
      | Some (CAttr x) => flat_map rec_o (attrv_ids (a_val x))
      | _ => []
      end.
    Definition node_owned (n : id) : list id :=
      match h n with
      | Some (CNode x) => flat_map (fun ka => attr_owned (snd ka)) (n_attrs x) ++ n_outputs x
      | _ => []
      end.
    Definition owned_body (g : id) : list id :=
      match h g with
      | Some (CGraph x) => g_inputs x ++ map snd (g_inits x) ++ flat_map node_owned (g_nodes x)
      | _ => []
      end.
  End RecO.
  Fixpoint owned (fuel : nat) (g : id) : list id :=
    match fuel with O => [] | S f => owned_body (owned f) g end.
End Owned.

(* ------------------------------------------------------------------ the mutation alphabet applied after cloning
   (public setters; each writes at most one existing cell, found by following at most one link from its target) *)
Inductive owner_kind := OValue | ONode | OGraph.
Inductive op :=
| VSetName (v : id) (n : option name)
| VSetDoc (v : id) (n : option name)
| VSetConst (v : id) (t : option id)
| VSetDtype (v : id) (dt : N)
| VSetType (v : id) (t : option ty)                (* value.type = <new type object> / None *)
| VSetShapeDim (v : id) (i : nat) (d : dim)         (* value.shape[i] = d *)
| VSetShape (v : id) (s : option (list dim))        (* value.shape = Shape(dims) / None *)
| MpSet (x : id) (k s : name)                       (* obj.metadata_props[k] = s   (value, node or graph) *)
| MpDel (x : id) (k : name)                         (* obj.metadata_props.pop(k, None) *)
| MetaSet (x : id) (k : name) (z : Z)               (* obj.meta[k] = z *)
| MetaInvalidate (x : id) (k : name)
| NSetName (n : id) (s : option name)
| NReplaceInput (n : id) (i : nat) (v : option id)  (* node.replace_input_with(i, v) *)
| NSetAttr (n : id) (k : name) (t tok : N)          (* node.attributes[k] = Attr(k, t, tok) *)
| NDelAttr (n : id) (k : name)                      (* node.attributes.pop(k, None) *)
| GSetName (g : id) (s : option name)
| GAppendNode (g : id) (opn : name) (ins : list (option id)) (outs : list name) (nm : name)
                                                     (* graph.append(Node("", opn, ins, num_outputs=len(outs), name=nm)) with named outputs *)
| GRemoveNode (g : id) (n : id)                     (* graph.remove(n) *)
| GOpsetSet (g : id) (k s : name)                   (* graph.opset_imports[k] = s *)
| ASetDoc (a : id) (d : option name)                (* attr.doc_string = d   (in-place edit of an Attr object) *)
| ASetName (a : id) (n : name).                     (* attr.name = n         (the owner's dict key is not updated) *)

Fixpoint set_dtype (t : ty) (dt : N) : ty :=
  match t with
  | TBase k _ den => TBase k dt den
  | TWrap k e den => TWrap k (set_dtype e dt) den
  end.

Fixpoint set_nth {A} (l : list A) (i : nat) (x : A) : option (list A) :=
  match l, i with
  | [], _ => None
  | _ :: r, O => Some (x :: r)
  | y :: r, S j => match set_nth r j x with Some r' => Some (y :: r') | None => None end
  end.

Definition mp_of (c : cell) : option id :=
  match c with CValue v => Some (v_mp v) | CNode n => Some (n_mp n) | CGraph g => Some (g_mp g)
             | CModel m => Some (md_mp m) | _ => None end.
Definition meta_of (c : cell) : option id :=
  match c with CValue v => Some (v_meta v) | CNode n => Some (n_meta n) | CGraph g => Some (g_meta g)
             | CModel m => Some (md_meta m) | _ => None end.

Definition with_value (h : heap) (v : id) (f : value -> heap * res unit) : heap * res unit :=
  match cells h v with Some (CValue x) => f x | _ => (h, Raise OtherError) end.
Definition with_node (h : heap) (v : id) (f : node -> heap * res unit) : heap * res unit :=
  match cells h v with Some (CNode x) => f x | _ => (h, Raise OtherError) end.
Definition with_graph (h : heap) (v : id) (f : graph -> heap * res unit) : heap * res unit :=
  match cells h v with Some (CGraph x) => f x | _ => (h, Raise OtherError) end.

Definition set_v_name (x : value) n := Val n (v_type x) (v_shape x) (v_doc x) (v_const x) (v_mp x) (v_meta x).
Definition set_v_doc (x : value) n := Val (v_name x) (v_type x) (v_shape x) n (v_const x) (v_mp x) (v_meta x).
Definition set_v_const (x : value) t := Val (v_name x) (v_type x) (v_shape x) (v_doc x) t (v_mp x) (v_meta x).
Definition set_v_type (x : value) t := Val (v_name x) t (v_shape x) (v_doc x) (v_const x) (v_mp x) (v_meta x).
Definition set_v_shape (x : value) s := Val (v_name x) (v_type x) s (v_doc x) (v_const x) (v_mp x) (v_meta x).
Definition set_n_name (x : node) s :=
  Nod s (n_domain x) (n_op x) (n_overload x) (n_version x) (n_inputs x) (n_outputs x) (n_attrs x)
      (n_doc x) (n_mp x) (n_meta x) (n_dev x).
Definition set_n_inputs (x : node) l :=
  Nod (n_name x) (n_domain x) (n_op x) (n_overload x) (n_version x) l (n_outputs x) (n_attrs x)
      (n_doc x) (n_mp x) (n_meta x) (n_dev x).
Definition set_n_attrs (x : node) l :=
  Nod (n_name x) (n_domain x) (n_op x) (n_overload x) (n_version x) (n_inputs x) (n_outputs x) l
      (n_doc x) (n_mp x) (n_meta x) (n_dev x).
Definition set_n_inputs_dev (x : node) l d :=
  Nod (n_name x) (n_domain x) (n_op x) (n_overload x) (n_version x) l (n_outputs x) (n_attrs x)
      (n_doc x) (n_mp x) (n_meta x) d.
(* Node._drop_sharding_for_value *)
Definition drop_sharding (o : id) (d : devcfg) : devcfg :=
  Dev (dc_cfg d) (dc_stage d)
      (filter (fun s => negb (option_eqb Pos.eqb (sp_value s) (Some o))) (dc_specs d)).
(* Node.replace_input_with: the new input tuple [l], and the sharding specs of the old input dropped
   when it is no longer an input or output of the node *)
Definition replace_input (x : node) (i : nat) (v : option id) (l : list (option id)) : node :=
  match nth_error (n_inputs x) i with
  | Some (Some o) =>
      if option_eqb Pos.eqb v (Some o) || existsb (Pos.eqb o) (flat_map oid l ++ n_outputs x)
      then set_n_inputs x l
      else set_n_inputs_dev x l (map (drop_sharding o) (n_dev x))
  | _ => set_n_inputs x l
  end.
Definition set_g_name (x : graph) s :=
  Gra s (g_inputs x) (g_outputs x) (g_inits x) (g_nodes x) (g_doc x) (g_opset x) (g_mp x) (g_meta x) (g_view x).
Definition set_g_nodes (x : graph) l :=
  Gra (g_name x) (g_inputs x) (g_outputs x) (g_inits x) l (g_doc x) (g_opset x) (g_mp x) (g_meta x) (g_view x).

Fixpoint alloc_values (h : heap) (k : list name) : heap * list id :=
  match k with
  | [] => (h, [])
  | nm :: j => let '(h1, mp) := halloc h (CDict []) in
               let '(h2, me) := halloc h1 (CMeta meta_empty) in
               let '(h3, v) := halloc h2 (CValue (Val (Some nm) None None None None mp me)) in
               let '(h4, vs) := alloc_values h3 j in (h4, v :: vs)
  end.

Definition apply_op (h : heap) (o : op) : heap * res unit :=
  match o with
  | VSetName v n =>
      (* Value.name setter (for a value that is not an initializer): "rename the backing constant tensor", then self *)
      with_value h v (fun x =>
        let h1 := hwrite h v (CValue (set_v_name x n)) in
        if option_eqb N.eqb (v_name x) n then (h, Ok tt)
        else match v_const x with
             | Some t => match cells h t with
                         | Some (CTensor _) => (hwrite h1 t (CTensor n), Ok tt)
                         | _ => (h1, Ok tt)
                         end
             | None => (h1, Ok tt)
             end)
  | VSetDoc v n => with_value h v (fun x => (hwrite h v (CValue (set_v_doc x n)), Ok tt))
  | VSetConst v t => with_value h v (fun x => (hwrite h v (CValue (set_v_const x t)), Ok tt))
  | VSetDtype v dt =>
      with_value h v (fun x =>
        match v_type x with
        | None => let '(h1, t) := halloc h (CType (TBase 0%N dt None)) in
                  (hwrite h1 v (CValue (set_v_type x (Some t))), Ok tt)
        | Some t => match cells h t with
                    | Some (CType t0) => (hwrite h t (CType (set_dtype t0 dt)), Ok tt)
                    | _ => (h, Raise OtherError)
                    end
        end)
  | VSetType v t =>
      with_value h v (fun x =>
        match t with
        | None => (hwrite h v (CValue (set_v_type x None)), Ok tt)
        | Some t0 => let '(h1, y) := halloc h (CType t0) in
                     (hwrite h1 v (CValue (set_v_type x (Some y))), Ok tt)
        end)
  | VSetShapeDim v i d =>
      with_value h v (fun x =>
        match v_shape x with
        | None => (h, Raise TypeError)               (* None[i] = d *)
        | Some s => match cells h s with
                    | Some (CShape sh) =>
                        if sh_frozen sh then (h, Raise TypeError)
                        else match set_nth (sh_dims sh) i d with
                             | Some ds => (hwrite h s (CShape (Shp ds (sh_den sh) false)), Ok tt)
                             | None => (h, Raise IndexError)
                             end
                    | _ => (h, Raise OtherError)
                    end
        end)
  | VSetShape v s =>
      with_value h v (fun x =>
        match s with
        | None => (hwrite h v (CValue (set_v_shape x None)), Ok tt)
        | Some ds => let '(h1, y) := halloc h (CShape (Shp ds (map (fun _ => None) ds) false)) in
                     (hwrite h1 v (CValue (set_v_shape x (Some y))), Ok tt)
        end)
  | MpSet x k s =>
      match cells h x with
      | Some c => match mp_of c with
                  | Some d => match cells h d with
                              | Some (CDict l) => (hwrite h d (CDict (dict_set N.eqb k s l)), Ok tt)
                              | _ => (h, Raise OtherError)
                              end
                  | None => (h, Raise OtherError)
                  end
      | None => (h, Raise OtherError)
      end
  | MpDel x k =>
      match cells h x with
      | Some c => match mp_of c with
                  | Some d => match cells h d with
                              | Some (CDict l) => (hwrite h d (CDict (dict_del N.eqb k l)), Ok tt)
                              | _ => (h, Raise OtherError)
                              end
                  | None => (h, Raise OtherError)
                  end
      | None => (h, Raise OtherError)
      end
  | MetaSet x k z =>
      match cells h x with
      | Some c => match meta_of c with
                  | Some d => match cells h d with
                              | Some (CMeta m) => (hwrite h d (CMeta (meta_setitem k (MAtom z) m)), Ok tt)
                              | _ => (h, Raise OtherError)
                              end
                  | None => (h, Raise OtherError)
                  end
      | None => (h, Raise OtherError)
      end
  | MetaInvalidate x k =>
      match cells h x with
      | Some c => match meta_of c with
                  | Some d => match cells h d with
                              | Some (CMeta m) => (hwrite h d (CMeta (meta_invalidate k m)), Ok tt)
                              | _ => (h, Raise OtherError)
                              end
                  | None => (h, Raise OtherError)
                  end
      | None => (h, Raise OtherError)
      end
  | NSetName n s => with_node h n (fun x => (hwrite h n (CNode (set_n_name x s)), Ok tt))
  | NReplaceInput n i v =>
      with_node h n (fun x =>
        match set_nth (n_inputs x) i v with
        | Some l => (hwrite h n (CNode (replace_input x i v l)), Ok tt)
        | None => (h, Raise ValueError)
        end)
  | NSetAttr n k t tok =>
      with_node h n (fun x =>
        let '(h1, a) := halloc h (CAttr (Att k (AVal t tok) None)) in
        (hwrite h1 n (CNode (set_n_attrs x (dict_set N.eqb k a (n_attrs x)))), Ok tt))
  | NDelAttr n k => with_node h n (fun x => (hwrite h n (CNode (set_n_attrs x (dict_del N.eqb k (n_attrs x)))), Ok tt))
  | GSetName g s => with_graph h g (fun x => (hwrite h g (CGraph (set_g_name x s)), Ok tt))
  | GAppendNode g opn ins nout nm =>
      with_graph h g (fun x =>
        let '(h1, outs) := alloc_values h nout in
        let '(h2, mp) := halloc h1 (CDict []) in
        let '(h3, me) := halloc h2 (CMeta meta_empty) in
        let '(h4, n) := halloc h3 (CNode (Nod (Some nm) 0%N opn 0%N None ins outs [] None mp me [])) in
        (hwrite h4 g (CGraph (set_g_nodes x (g_nodes x ++ [n]))), Ok tt))
  | GRemoveNode g n =>
      with_graph h g (fun x =>
        if existsb (Pos.eqb n) (g_nodes x)
        then (hwrite h g (CGraph (set_g_nodes x (filter (fun y => negb (Pos.eqb y n)) (g_nodes x)))), Ok tt)
        else (h, Raise ValueError))
  | GOpsetSet g k s =>
      with_graph h g (fun x =>
        match cells h (g_opset x) with
        | Some (CDict l) => (hwrite h (g_opset x) (CDict (dict_set N.eqb k s l)), Ok tt)
        | _ => (h, Raise OtherError)
        end)
  | ASetDoc a d =>
      match cells h a with
      | Some (CAttr x) => (hwrite h a (CAttr (Att (a_name x) (a_val x) d)), Ok tt)
      | _ => (h, Raise OtherError)
      end
  | ASetName a n =>
      match cells h a with
      | Some (CAttr x) => (hwrite h a (CAttr (Att n (a_val x) (a_doc x))), Ok tt)
      | _ => (h, Raise OtherError)
      end
  end.

(* every id an operation mentions (its target and its object arguments) *)
Definition op_ids (o : op) : list id :=
  match o with
  | VSetName v _ | VSetDoc v _ | VSetConst v _ | VSetDtype v _ | VSetType v _ | VSetShapeDim v _ _
  | VSetShape v _ => [v]
  | MpSet x _ _ | MpDel x _ | MetaSet x _ _ | MetaInvalidate x _ => [x]
  | NSetName n _ | NSetAttr n _ _ _ | NDelAttr n _ => [n]
  | NReplaceInput n _ v => n :: oid v
  | GSetName g _ | GOpsetSet g _ _ => [g]
  | GAppendNode g _ ins _ _ => g :: flat_map oid ins
  | GRemoveNode g n => [g; n]
  | ASetDoc a _ | ASetName a _ => [a]
  end.

(* shared immutable objects an operation refers to (they only have to exist; they belong to neither side) *)
Definition op_refs (o : op) : list id := match o with VSetConst _ t => oid t | _ => [] end.

Fixpoint apply_ops (h : heap) (l : list op) : heap :=
  match l with [] => h | o :: r => apply_ops (fst (apply_op h o)) r end.

(* functionalize(p).call(model) = p(model.clone()): a pass is any program of operations over what it is given *)
Definition functional_pass (fuel : nat) (prog : id -> list op) (mid : id) (h : heap) : heap * res id :=
  match model_clone fuel false mid h with
  | (st, Ok m') => (apply_ops (hp st) (prog m'), Ok m')
  | (st, Raise e) => (hp st, Raise e)
  end.

(* C18/Property.v — region extraction and capture analysis are exact.
   Statements only; proofs are in Proofs*.v.  Model: C18/Model.v (tied to /repo by the correspondence
   check of harness/props/c18.py).  `find_bounded` is _find_subgraph_bounded_by_values over ANY producer /
   input / capture functions (so any iteration order of the Python sets); `extract` instantiates them
   with the value table and node universe of a concrete source. *)
From Coq Require Import List Bool Arith Lia.
From IRV Require Import Base.Exn C18.Model C18.Spec C18.Struct C18.Proofs C18.Proofs2 C18.Proofs3 C18.Proofs4 C18.Proofs5 C18.Proofs6 C18.Proofs7 C18.Proofs8 Gen.C18Gen C18.GenEquiv.
Import ListNotations.

(* The walk never runs out of the fuel the model gives it (so `Raise OtherError` in find_bounded is
   dead code): the only outcomes are a result, ValueError (unbounded) or KeyError (a needed node that
   is not a node of the graph-like; possible for a GraphView only). *)
Theorem C18_walk_terminates :
  forall prod isinit nins ncaps inputs outputs isf gnodes univ,
    (forall n, ~ In n univ -> weight nins ncaps n = 0) ->
    (exists ns inis, find_bounded prod isinit nins ncaps isf gnodes univ inputs outputs = Ok (ns, inis))
    \/ find_bounded prod isinit nins ncaps isf gnodes univ inputs outputs = Raise ValueError
    \/ find_bounded prod isinit nins ncaps isf gnodes univ inputs outputs = Raise KeyError.
Proof. intros. apply find_bounded_cases. assumption. Qed.
Print Assumptions C18_walk_terminates.

(* C18_exact: the nodes returned are exactly the needed ones — both inclusions — where `Reach` is the
   least set containing the outputs and closed under "inputs and captured values of the producer of a
   member that is not a boundary input"; they come in the original order (a filter of the node list). *)
Theorem C18_exact :
  forall prod isinit nins ncaps inputs outputs isf gnodes univ ns inis,
    (forall n, ~ In n univ -> weight nins ncaps n = 0) ->
    find_bounded prod isinit nins ncaps isf gnodes univ inputs outputs = Ok (ns, inis) ->
    ns = filter (fun n => mem n ns) gnodes /\
    (forall n, In n ns <-> NeededNode prod nins ncaps inputs outputs n).
Proof.
  intros prod isinit nins ncaps inputs outputs isf gnodes univ ns inis Hw H.
  destruct (find_bounded_exact prod isinit nins ncaps inputs outputs isf gnodes univ Hw ns inis H)
    as (H1 & H2 & _). split; assumption.
Qed.
Print Assumptions C18_exact.

(* `Reach` is the least closed set (so NeededNode is the least node set closed under "producer of a
   needed value", stopping at the inputs). *)
Theorem C18_least :
  forall prod nins ncaps inputs outputs (P : nat -> Prop),
    closed prod nins ncaps inputs outputs P ->
    forall v, Reach prod nins ncaps inputs outputs v -> P v.
Proof.
  intros prod nins ncaps inputs outputs P [H1 H2] v R.
  induction R as [o Ho | v n u R IH Nv Ep Hr]; [apply H1; exact Ho | eapply H2; eauto].
Qed.
Print Assumptions C18_least.

Theorem C18_reach_closed :
  forall prod nins ncaps inputs outputs,
    closed prod nins ncaps inputs outputs (Reach prod nins ncaps inputs outputs).
Proof. intros. split; [apply R_out | intros; eapply R_step; eauto]. Qed.
Print Assumptions C18_reach_closed.

(* C18_inits: exactly the initializers among the needed values that are not boundary inputs (i.e. read
   by a needed node, captured by one of its bodies, or requested as an output) plus — for a Graph or a
   GraphView, not for a Function — the initializers listed in `inputs`. *)
Theorem C18_inits :
  forall prod isinit nins ncaps inputs outputs isf gnodes univ ns inis,
    (forall n, ~ In n univ -> weight nins ncaps n = 0) ->
    find_bounded prod isinit nins ncaps isf gnodes univ inputs outputs = Ok (ns, inis) ->
    forall v, In v inis <->
      (isf = false /\ In v inputs /\ isinit v = true)
      \/ (Reach prod nins ncaps inputs outputs v /\ ~ In v inputs /\ isinit v = true).
Proof.
  intros prod isinit nins ncaps inputs outputs isf gnodes univ ns inis Hw H.
  destruct (find_bounded_exact prod isinit nins ncaps inputs outputs isf gnodes univ Hw ns inis H)
    as (_ & _ & H3 & _). exact H3.
Qed.
Print Assumptions C18_inits.

(* a needed value is an output or is read (directly or through a nested body) by a needed node *)
Theorem C18_reach_read :
  forall prod nins ncaps inputs outputs v,
    Reach prod nins ncaps inputs outputs v ->
    In v outputs \/ exists n, NeededNode prod nins ncaps inputs outputs n /\ reads nins ncaps n v.
Proof.
  intros prod nins ncaps inputs outputs v R. destruct R as [o Ho | v n u R Nv Ep Hr].
  - left. exact Ho.
  - right. exists n. split; [exists v; auto | exact Hr].
Qed.
Print Assumptions C18_reach_read.

(* C18_unbounded_raises (direct inputs): a needed node reads a value that has no producer, is not an
   initializer and is not listed in `inputs` => ValueError.  (For values read only inside nested bodies
   see C18_unbounded_captured_raises.) *)
Theorem C18_unbounded_raises :
  forall prod isinit nins ncaps inputs outputs isf gnodes univ n v,
    (forall n, ~ In n univ -> weight nins ncaps n = 0) ->
    NeededNode prod nins ncaps inputs outputs n -> In (Some v) (nins n) ->
    prod v = None -> ~ In v inputs -> isinit v = false ->
    find_bounded prod isinit nins ncaps isf gnodes univ inputs outputs = Raise ValueError.
Proof. intros. eapply find_bounded_unbounded; eauto. Qed.
Print Assumptions C18_unbounded_raises.

(* conversely a result means the region is bounded on its direct inputs *)
Theorem C18_ok_bounded :
  forall prod isinit nins ncaps inputs outputs isf gnodes univ ns inis,
    (forall n, ~ In n univ -> weight nins ncaps n = 0) ->
    find_bounded prod isinit nins ncaps isf gnodes univ inputs outputs = Ok (ns, inis) ->
    forall n v, NeededNode prod nins ncaps inputs outputs n -> In (Some v) (nins n) ->
      In v inputs \/ isinit v = true
      \/ exists p, prod v = Some p /\ NeededNode prod nins ncaps inputs outputs p.
Proof.
  intros prod isinit nins ncaps inputs outputs isf gnodes univ ns inis Hw H.
  destruct (find_bounded_exact prod isinit nins ncaps inputs outputs isf gnodes univ Hw ns inis H)
    as (_ & _ & _ & H4). exact H4.
Qed.
Print Assumptions C18_ok_bounded.

(* C18_semantics_abstract: the region-level core of C18_semantics (below), over abstract producer/input/
   capture functions: on an SSA, topologically sorted source, if the start environment e1 agrees with the
   source's final environment on the needed values that are boundary inputs or have no producer, running
   the extracted node list gives the source's value on every output (indeed on every needed value,
   Proofs4.sem_extracted).  C18_semantics discharges the agreement hypothesis from "extract returned Ok". *)
Theorem C18_semantics_abstract :
  forall (T : Type) (interp : nat -> list (option T) -> list T -> list T) (dflt : T) (nouts : nat -> list nat)
         prod isinit nins ncaps inputs outputs isf gnodes univ ns inis (e0 e1 : nat -> T),
    (forall n, ~ In n univ -> weight nins ncaps n = 0) ->
    find_bounded prod isinit nins ncaps isf gnodes univ inputs outputs = Ok (ns, inis) ->
    NoDup gnodes ->
    (forall v n, In n gnodes -> (prod v = Some n <-> In v (nouts n))) ->
    (forall l1 n l2, gnodes = l1 ++ n :: l2 ->
       forall u p, reads nins ncaps n u -> prod u = Some p -> In p l1) ->
    (forall u, Reach prod nins ncaps inputs outputs u -> (In u inputs \/ prod u = None) ->
       e1 u = exec T interp nins ncaps nouts dflt e0 gnodes u) ->
    forall o, In o outputs ->
      exec T interp nins ncaps nouts dflt e1 ns o = exec T interp nins ncaps nouts dflt e0 gnodes o.
Proof.
  intros T interp dflt nouts prod isinit nins ncaps inputs outputs isf gnodes univ ns inis e0 e1
         Hw Hf Hnd Hprod Htopo He1 o Ho.
  destruct (find_bounded_exact prod isinit nins ncaps inputs outputs isf gnodes univ Hw ns inis Hf)
    as (H1 & H2 & _).
  rewrite H1.
  apply (sem_extracted T interp nins ncaps nouts dflt prod inputs outputs gnodes (fun n => mem n ns) e0 e1
           Hnd Hprod (fun n Hn => find_bounded_outside prod isinit nins ncaps inputs outputs isf gnodes univ Hw n ns inis Hf Hn)
           Htopo); [|exact He1 | apply R_out; exact Ho].
  intros n Hn. rewrite mem_In. apply H2.
Qed.
Print Assumptions C18_semantics_abstract.

(* C18_semantics (full statement, extract level).  For every tensor type T, every operator semantics
   `interp` and every environment e0 of the source: if extract returns a graph, the source's own nodes are in SSA form
   and topologically sorted (also with respect to values captured by nested bodies), values defined inside
   nested bodies do not belong to the parent graph while the requested outputs do, then running the extracted node list from ANY environment e1 that binds the extracted graph's
   inputs to the source's values at those boundary values and its initializers to the source's initializer
   tensors gives the source's value at every requested output.  No hypothesis relates e1 to the source on
   anything else: that every other needed value is produced inside the region follows from extract = Ok
   (C18_inits, C18_ok_bounded, Proofs5.extract_ok_captures_bound).
   Nodes with subgraphs are covered through `interp n (values of n's inputs) (values of u_ncaps n)`: the
   meaning of a node may depend on its bodies and on the outer environment through exactly the values its
   bodies (any depth) read from the parent graph; C18_semantics_nested (below) instantiates `interp` with a
   recursive evaluation of the bodies. *)
Theorem C18_semantics :
  forall (T : Type) (interp : nat -> list (option T) -> list T -> list T) (dflt : T)
         h univ s inputs outputs e parent (e0 e1 : nat -> T),
    extract h univ s inputs outputs = Ok e ->
    (exists o, hd_error (e_outputs e) = Some o /\ h_owner h o = Some parent) ->
    let gn := map n_id (s_nodes s) in
    let run := exec T interp (u_nins univ) (u_ncaps h univ parent) (u_nouts univ) dflt in
    NoDup gn ->
    (forall m, In m (s_nodes s) -> lookup_node univ (n_id m) = Some m) ->
    (forall v n, In n gn -> (h_prod h v = Some n <-> In v (u_nouts univ n))) ->
    (forall l1 n l2, gn = l1 ++ n :: l2 ->
       forall u p, reads (u_nins univ) (u_ncaps h univ parent) n u -> h_prod h u = Some p -> In p l1) ->
    (forall m S v, In m (s_nodes s) -> In S (n_subs m) -> In v (defs_rec_g S) -> h_owner h v <> Some parent) ->
    (forall o, In o (e_outputs e) -> h_owner h o = Some parent) ->
    (forall v, In v (e_inputs e) -> e1 v = run e0 gn v) ->
    (forall v, In v (e_inits e) -> e1 v = e0 v) ->
    forall o, In o (e_outputs e) -> run e1 (e_nodes e) o = run e0 gn o.
Proof.
  intros T interp dflt h univ s inputs outputs e parent e0 e1 Hex Hpar gn run.
  exact (extract_semantics T interp dflt h univ s inputs outputs e parent e0 e1 Hex Hpar).
Qed.
Print Assumptions C18_semantics.

(* C18_semantics_nested: the same with the nested bodies evaluated, not abstracted.  A node with control
   operator `op` (uninterpreted, only required to respect pointwise equality of the body functions) is
   evaluated by Proofs7.den_n: each body denotes the function "bind the body's inputs, run the body's nodes
   in order in the environment of the enclosing scopes, return the body's outputs", recursively for every
   nesting depth; captured values are read through that environment.  Covered: every node kind
   with GRAPH/GRAPHS attributes whose meaning is a function of its inputs and of its bodies' denotations
   (If, Loop, Scan, ...).  Additional hypotheses w.r.t. C18_semantics: outputs of the source's nodes belong
   to the parent graph; whatever a body reads from the parent graph is read by one of its nodes (a nested
   graph whose *output list* names a parent value directly is not covered — and is not seen by
   _collect_all_external_values either); both runs start from the same environment outside the parent graph
   (nested initializers — cloned with the same tensors — and outer scopes). *)
Theorem C18_semantics_nested :
  forall (T : Type) (dflt : T) (op : nat -> list (option T) -> list (list T -> list T) -> list T),
    (forall i ins bs bs', Forall2 (fun f g : list T -> list T => forall a, f a = g a) bs bs' ->
                          op i ins bs = op i ins bs') ->
  forall h univ s inputs outputs e parent (e0 e1 : nat -> T),
    extract h univ s inputs outputs = Ok e ->
    (exists o, hd_error (e_outputs e) = Some o /\ h_owner h o = Some parent) ->
    let gn := map n_id (s_nodes s) in
    let ncaps := u_ncaps h univ parent in
    let xnodes := filter (fun n => mem (n_id n) (e_nodes e)) (s_nodes s) in
    NoDup gn ->
    (forall m, In m (s_nodes s) -> lookup_node univ (n_id m) = Some m) ->
    (forall v n, In n gn -> (h_prod h v = Some n <-> In v (u_nouts univ n))) ->
    (forall l1 n l2, gn = l1 ++ n :: l2 ->
       forall u p, reads (u_nins univ) ncaps n u -> h_prod h u = Some p -> In p l1) ->
    (forall m S v, In m (s_nodes s) -> In S (n_subs m) -> In v (defs_rec_g S) -> h_owner h v <> Some parent) ->
    (forall o, In o (e_outputs e) -> h_owner h o = Some parent) ->
    (forall m v, In m (s_nodes s) -> In v (n_outs m) -> h_owner h v = Some parent) ->
    (forall m v, In m (s_nodes s) -> In v (flat_map reads_g (n_subs m)) ->
                 h_owner h v = Some parent -> In v (ncaps (n_id m))) ->
    (forall v, In v (e_inputs e) -> e1 v = den_run T dflt op (s_nodes s) e0 v) ->
    (forall v, In v (e_inits e) -> e1 v = e0 v) ->
    (forall v, h_owner h v <> Some parent -> e1 v = e0 v) ->
    forall o, In o (e_outputs e) -> den_run T dflt op xnodes e1 o = den_run T dflt op (s_nodes s) e0 o.
Proof.
  intros T dflt op op_ext h univ s inputs outputs e parent e0 e1 Hex Hpar gn ncaps xnodes.
  exact (extract_semantics_nested T dflt op op_ext h univ s inputs outputs e parent e0 e1 Hex Hpar).
Qed.
Print Assumptions C18_semantics_nested.

(* Source kinds.  Function: initializers listed in `inputs` are NOT recorded (isinstance(graph, ir.Function)
   branch) — only the needed non-input ones are. *)
Theorem C18_function_inits :
  forall prod isinit nins ncaps inputs outputs gnodes univ ns inis,
    (forall n, ~ In n univ -> weight nins ncaps n = 0) ->
    find_bounded prod isinit nins ncaps true gnodes univ inputs outputs = Ok (ns, inis) ->
    forall v, In v inis <-> Reach prod nins ncaps inputs outputs v /\ ~ In v inputs /\ isinit v = true.
Proof.
  intros prod isinit nins ncaps inputs outputs gnodes univ ns inis Hw H v.
  rewrite (C18_inits prod isinit nins ncaps inputs outputs true gnodes univ ns inis Hw H v).
  split; [intros [[Hx _]|Hx]; [discriminate | exact Hx] | intros Hx; right; exact Hx].
Qed.
Print Assumptions C18_function_inits.

(* GraphView: the view's node list is node_index; a needed node that the view does not contain makes
   extract raise (ValueError from the frontier check or KeyError from node_index) — never a wrong graph. *)
Theorem C18_view_needed_node_outside_raises :
  forall prod isinit nins ncaps inputs outputs isf gnodes univ n,
    (forall n, ~ In n univ -> weight nins ncaps n = 0) ->
    NeededNode prod nins ncaps inputs outputs n -> ~ In n gnodes ->
    find_bounded prod isinit nins ncaps isf gnodes univ inputs outputs = Raise ValueError
    \/ find_bounded prod isinit nins ncaps isf gnodes univ inputs outputs = Raise KeyError.
Proof.
  intros prod isinit nins ncaps inputs outputs isf gnodes univ n Hw Hn Hout.
  destruct (find_bounded_cases prod isinit nins ncaps inputs outputs isf gnodes univ Hw) as [[ns [inis H]]|H]; [|exact H].
  exfalso. apply Hout. eapply find_bounded_outside; eauto.
Qed.
Print Assumptions C18_view_needed_node_outside_raises.

(* Graph / Function: every by-object boundary value must belong to the source graph (a GraphView skips the
   check); by-name references must be known to create_value_mapping — for every kind. *)
Theorem C18_refs_checked :
  forall h univ s inputs outputs e,
    extract h univ s inputs outputs = Ok e ->
    (forall v, In (ByObj v) (inputs ++ outputs) -> is_view (s_kind s) = false ->
               h_owner h v = Some (s_gid s)) /\
    (forall nm, In (ByName nm) (inputs ++ outputs) ->
                exists v, assoc nm (value_mapping (h_name h) s) = Some v).
Proof.
  intros h univ s inputs outputs e H.
  destruct (extract_ok_inv h univ s inputs outputs e H) as (all & _ & _ & _ & HR & _).
  revert all HR. generalize (inputs ++ outputs) as rs. clear.
  induction rs as [|r rs IH]; intros all HR; [split; intros ? []|].
  cbn [resolve] in HR. destruct r as [v|nm].
  - destruct (negb (is_view (s_kind s)) && negb (onat_eqb (h_owner h v) (Some (s_gid s)))) eqn:E; [discriminate|].
    destruct (resolve (h_owner h) s (value_mapping (h_name h) s) rs) as [l|x] eqn:ER; [|discriminate].
    destruct (IH l eq_refl) as [I1 I2]. split.
    + intros w [Hw|Hw] Hv; [|apply I1; assumption]. inversion Hw; subst w.
      rewrite Hv in E. simpl in E. apply negb_false_iff in E. apply onat_eqb_eq. exact E.
    + intros nm [Hn|Hn]; [discriminate | apply I2; exact Hn].
  - destruct (assoc nm (value_mapping (h_name h) s)) as [v|] eqn:EA; [|discriminate].
    destruct (resolve (h_owner h) s (value_mapping (h_name h) s) rs) as [l|x] eqn:ER; [|discriminate].
    destruct (IH l eq_refl) as [I1 I2]. split.
    + intros w [Hw|Hw] Hv; [discriminate | apply I1; assumption].
    + intros nm' [Hn|Hn]; [inversion Hn; subst nm'; exists v; exact EA | apply I2; exact Hn].
Qed.
Print Assumptions C18_refs_checked.

(* Non-vacuity: a sorted SSA source (x=1; a=f(x); b=g(a,x); c=h(b)), cut at a: nodes 2 and 3 are kept and
   the hypotheses of C18_semantics_abstract hold. *)
Example C18_semantics_example :
  let prod v := match v with 2 => Some 1 | 3 => Some 2 | 4 => Some 3 | _ => None end in
  let nins n := match n with 1 => [Some 1] | 2 => [Some 2; Some 1] | 3 => [Some 3] | _ => [] end in
  find_bounded prod (fun _ => false) nins (fun _ => []) false [1; 2; 3] [1; 2; 3] [2; 1] [4] = Ok ([2; 3], []).
Proof. vm_compute. reflexivity. Qed.

(* The same for convenience.extract on a concrete source (value table h, node universe univ). *)
Theorem C18_extract_exact :
  forall h univ s inputs outputs e,
    extract h univ s inputs outputs = Ok e ->
    exists o parent,
      hd_error (e_outputs e) = Some o /\ h_owner h o = Some parent /\
      let R := Reach (h_prod h) (u_nins univ) (u_ncaps h univ parent) (e_inputs e) (e_outputs e) in
      let N := NeededNode (h_prod h) (u_nins univ) (u_ncaps h univ parent) (e_inputs e) (e_outputs e) in
      e_nodes e = filter (fun n => mem n (e_nodes e)) (map n_id (s_nodes s)) /\
      (forall n, In n (e_nodes e) <-> N n) /\
      (forall v, In v (e_inits e) <->
         (is_function (s_kind s) = false /\ In v (e_inputs e) /\ h_init h v = true)
         \/ (R v /\ ~ In v (e_inputs e) /\ h_init h v = true)).
Proof.
  intros h univ s inputs outputs e H.
  destruct (extract_ok_inv h univ s inputs outputs e H) as (all & o & parent & av & _ & _ & _ & Ho & Hp & Hf & _).
  exists o, parent. split; [exact Ho|]. split; [exact Hp|].
  destruct (find_bounded_exact _ _ _ _ _ _ _ _ _ (u_weight_univ h univ parent) _ _ Hf) as (H1 & H2 & H3 & _).
  cbv zeta. split; [exact H1|]. split; [exact H2 | exact H3].
Qed.
Print Assumptions C18_extract_exact.

(* C18_unbounded_raises for values read only inside nested bodies (DESIGN probe: the frontier check of
   _find_subgraph_bounded_by_values misses them; the cloner's check rejects them, RuntimeError).
   Stated as: if extract returns a graph and a body (any depth) of an extracted node reads a value that
   nothing in the source region produces and that is not an initializer, then that value is listed in
   `inputs` — i.e. otherwise extract raises.  More generally every captured value and every requested
   output is bound (Proofs5.extract_ok_captures_bound). *)
Theorem C18_unbounded_captured_raises :
  forall h univ s inputs outputs e m S v,
    extract h univ s inputs outputs = Ok e ->
    In m (s_nodes s) -> In (n_id m) (e_nodes e) -> In S (n_subs m) -> In v (uses_rec_g S) ->
    (forall m', In m' (s_nodes s) ->
       ~ In v (n_outs m') /\ forall S', In S' (n_subs m') -> ~ In v (defs_rec_g S')) ->
    h_init h v = false ->
    In v (e_inputs e).
Proof.
  intros h univ s inputs outputs e m S v H Hm Hid HS Hv Hnone Hinit.
  destruct (extract_ok_captures_bound h univ s inputs outputs e H v) as [Hb|[Hb|[Hb|Hb]]].
  - right. exists m, S. split; [|split; assumption]. apply filter_In. split; [exact Hm | apply mem_In; exact Hid].
  - exact Hb.
  - exfalso. destruct (C18_extract_exact h univ s inputs outputs e H) as (o & parent & _ & _ & _ & _ & HI).
    apply HI in Hb. destruct Hb as [(_ & _ & Hx)|(_ & _ & Hx)]; congruence.
  - exfalso. destruct Hb as [m' [Hm' Ho]]. apply filter_In in Hm'. apply (proj1 (Hnone m' (proj1 Hm'))). exact Ho.
  - exfalso. destruct Hb as [m' [S' [Hm' [HS' Hd]]]]. apply filter_In in Hm'.
    apply (proj2 (Hnone m' (proj1 Hm')) S' HS'). exact Hd.
Qed.
Print Assumptions C18_unbounded_captured_raises.

(* what u_ncaps pushes for a node: the values read anywhere inside its bodies that belong to the parent
   graph; for a node of a well-scoped graph these are exactly the values its bodies capture *)
Theorem C18_caps_are_captures :
  forall owner shuffle parent n v,
    (forall l x, In x (shuffle l) <-> In x l) ->
    Forall (scoped_g owner [parent]) (n_subs n) ->
    (In v (node_caps owner shuffle parent n) <-> exists S, In S (n_subs n) /\ captured owner S v).
Proof.
  intros owner shuffle parent n v Hsh Hs. rewrite (node_caps_spec owner shuffle parent n v Hsh).
  rewrite Forall_forall in Hs. split.
  - intros [S [HS H]]. exists S. split; [exact HS|]. apply (node_caps_captured owner parent S v (Hs S HS)). exact H.
  - intros [S [HS H]]. exists S. split; [exact HS|]. apply (node_caps_captured owner parent S v (Hs S HS)). exact H.
Qed.
Print Assumptions C18_caps_are_captures.

(* C18_captures_exact: on a graph whose nested graphs are well scoped (no graph is its own ancestor,
   every value read inside a nested graph belongs to that graph or to an enclosing one — `scoped_n`),
   analyze_implicit_usage returns, for all nesting depths, a dict whose keys are the nested graphs and
   which maps S to exactly { v | v read by a node of S or deeper, value.graph neither S nor nested in S }. *)
Theorem C18_captures_exact :
  forall owner root,
    Forall (scoped_n owner [g_id root]) (g_body root) ->
    exists u, analyze owner root = Ok u /\
      (forall k, has_key k u = true <-> In k (map g_id (rec_graphs_g root))) /\
      (forall k v, In v (get u k) <->
                   exists S, In S (rec_graphs_g root) /\ g_id S = k /\ captured owner S v).
Proof. exact analyze_exact. Qed.
Print Assumptions C18_captures_exact.

(* Outside that domain (DESIGN probe): a nested node reading a value whose graph is None makes the walk
   reach the top graph, which is not a key: KeyError. *)
Example C18_captures_keyerror_outside_scope :
  analyze (fun v => if Nat.eqb v 1 then Some 1 else None)
          (Graph 1 [1] [] [Node 1 [Some 1] [2] [Graph 2 [] [] [Node 2 [Some 9] [3] []] [3]]] [2])
  = Raise KeyError.
Proof. vm_compute. reflexivity. Qed.

(* Non-vacuity: a two-level graph satisfying the hypothesis of C18_captures_exact, and its result. *)
Example C18_captures_example :
  let owner v := match v with 1 | 2 | 3 | 7 => Some 1 | 4 | 6 => Some 2 | 5 => Some 3 | _ => None end in
  let root := Graph 1 [1; 2] []
                [Node 1 [Some 1] [3] [];
                 Node 2 [Some 2] [7]
                   [Graph 2 [] [] [Node 3 [Some 3; None] [4] [Graph 3 [] [] [Node 4 [Some 1; Some 4] [5] []] [5]];
                                   Node 5 [Some 4] [6] []] [6]]] [7] in
  Forall (scoped_n owner [g_id root]) (g_body root) /\
  analyze owner root = Ok [(2, [3; 1]); (3, [1; 4])].
Proof.
  split; [|vm_compute; reflexivity].
  assert (NI : forall a l, forallb (fun x => negb (Nat.eqb x a)) l = true -> ~ In a l).
  { intros a l H Hin. rewrite forallb_forall in H. specialize (H a Hin).
    rewrite Nat.eqb_refl in H. discriminate. }
  constructor; [apply scoped_n_eq; constructor|].
  constructor; [|constructor].
  apply scoped_n_eq. constructor; [|constructor].
  apply scoped_g_eq. split; [apply NI; reflexivity|]. cbn [g_id g_body].
  constructor; [|constructor; [|constructor]].
  - split.
    + intros v Hv. simpl in Hv.
      repeat (destruct Hv as [Hv|Hv]; [subst v; eexists; split; [reflexivity | simpl; tauto]|]). destruct Hv.
    + apply scoped_n_eq. constructor; [|constructor].
      apply scoped_g_eq. split; [apply NI; reflexivity|]. cbn [g_id g_body].
      constructor; [|constructor]. split.
      * intros v Hv. simpl in Hv.
        repeat (destruct Hv as [Hv|Hv]; [subst v; eexists; split; [reflexivity | simpl; tauto]|]). destruct Hv.
      * apply scoped_n_eq. constructor.
  - split.
    + intros v Hv. simpl in Hv.
      repeat (destruct Hv as [Hv|Hv]; [subst v; eexists; split; [reflexivity | simpl; tauto]|]). destruct Hv.
    + apply scoped_n_eq. constructor.
Qed.

(* Non-vacuity of C18_exact / C18_inits / C18_unbounded_raises on the extract of a small source:
   x(1), w(2, initializer) ; n1: a(3) = f(x) ; n2: y(4) = If[body reads a(3) and w(2)] ; n3: z(5) = g(x). *)
Definition ex_h : heap :=
  [(1, VI (Some 1) None false 1); (2, VI (Some 1) None true 2); (3, VI (Some 1) (Some 1) false 3);
   (4, VI (Some 1) (Some 2) false 4); (5, VI (Some 1) (Some 3) false 5); (6, VI (Some 2) (Some 4) false 6)].
Definition ex_g : graph :=
  Graph 1 [1] [2]
    [Node 1 [Some 1] [3] [];
     Node 2 [] [4] [Graph 2 [] [] [Node 4 [Some 3; Some 2] [6] []] [6]];
     Node 3 [Some 1] [5] []] [4; 5].
Definition ex_src : source := SRC KGraph 1 (g_inputs ex_g) (g_inits ex_g) (g_body ex_g).
Example C18_extract_example_ok :
  extract ex_h (rec_nodes_g ex_g) ex_src [ByObj 1] [ByName 4] = Ok (EX [1; 2] [2] [1] [4]).
Proof. vm_compute. reflexivity. Qed.
Example C18_extract_example_cut :
  extract ex_h (rec_nodes_g ex_g) ex_src [ByName 3] [ByObj 4] = Ok (EX [2] [2] [3] [4]).
Proof. vm_compute. reflexivity. Qed.
Example C18_extract_example_unbounded :
  extract ex_h (rec_nodes_g ex_g) ex_src [] [ByObj 5] = Raise ValueError.
Proof. vm_compute. reflexivity. Qed.
(* DESIGN probe: the captured value a(3) is cut away and not listed: the frontier check misses it,
   the cloner rejects it (RuntimeError) — still "raises". *)
Example C18_extract_example_unbounded_capture :
  extract ex_h (rec_nodes_g ex_g) ex_src [] [ByObj 4] = Raise ValueError /\
  extract (map (fun kv => if Nat.eqb (fst kv) 3 then (3, VI (Some 1) None false 3) else kv) ex_h)
          (rec_nodes_g ex_g) ex_src [] [ByObj 4] = Raise RuntimeError.
Proof. split; vm_compute; reflexivity. Qed.

(* Non-vacuity of C18_semantics: its structural hypotheses hold for the example source ex_g / ex_h
   (parent graph 1) and the cut [x] -> [y] extracted above. *)
Example C18_semantics_example_hyps :
  let univ := rec_nodes_g ex_g in
  let e := EX [1; 2] [2] [1] [4] in
  let gn := map n_id (s_nodes ex_src) in
  extract ex_h univ ex_src [ByObj 1] [ByName 4] = Ok e /\
  (exists o, hd_error (e_outputs e) = Some o /\ h_owner ex_h o = Some 1) /\
  NoDup gn /\
  (forall m, In m (s_nodes ex_src) -> lookup_node univ (n_id m) = Some m) /\
  (forall v n, In n gn -> (h_prod ex_h v = Some n <-> In v (u_nouts univ n))) /\
  (forall l1 n l2, gn = l1 ++ n :: l2 ->
     forall u p, reads (u_nins univ) (u_ncaps ex_h univ 1) n u -> h_prod ex_h u = Some p -> In p l1) /\
  (forall m S v, In m (s_nodes ex_src) -> In S (n_subs m) -> In v (defs_rec_g S) -> h_owner ex_h v <> Some 1) /\
  (forall o, In o (e_outputs e) -> h_owner ex_h o = Some 1) /\
  (* the two extra structural hypotheses of C18_semantics_nested *)
  (forall m v, In m (s_nodes ex_src) -> In v (n_outs m) -> h_owner ex_h v = Some 1) /\
  (forall m v, In m (s_nodes ex_src) -> In v (flat_map reads_g (n_subs m)) ->
               h_owner ex_h v = Some 1 -> In v (u_ncaps ex_h univ 1 (n_id m))).
Proof.
  cbv zeta. split; [vm_compute; reflexivity|]. split; [exists 4; split; reflexivity|].
  split; [repeat constructor; simpl; intuition discriminate|].
  split; [intros m [H|[H|[H|[]]]]; subst m; reflexivity|].
  split.
  { intros v n [H|[H|[H|[]]]]; subst n;
      (do 7 (destruct v as [|v];
             [vm_compute; split; [intros H; inversion H; auto | intros H; intuition congruence]|]));
      (vm_compute; split; [intros H; inversion H | intros H; intuition congruence]). }
  split.
  { intros l1 n l2 Hg u p Hr Hp.
    destruct l1 as [|a [|b [|c l1]]]; simpl in Hg; inversion Hg; subst.
    - vm_compute in Hr. destruct Hr as [[H|[]]|[]]. inversion H; subst u. vm_compute in Hp. discriminate.
    - vm_compute in Hr. destruct Hr as [[]|[H|[H|[]]]]; subst u; vm_compute in Hp; inversion Hp; subst. left. reflexivity.
    - vm_compute in Hr. destruct Hr as [[H|[]]|[]]. inversion H; subst u. vm_compute in Hp. discriminate.
    - destruct l1; discriminate. }
  split.
  { intros m S v [H|[H|[H|[]]]] HS Hv; subst m; simpl in HS; try contradiction.
    destruct HS as [HS|[]]. subst S. vm_compute in Hv. destruct Hv as [Hv|[]]. subst v. vm_compute. discriminate. }
  split; [intros o [H|[]]; subst o; reflexivity|].
  split.
  { intros m v [H|[H|[H|[]]]] Hv; subst m; vm_compute in Hv; destruct Hv as [Hv|[]]; subst v; reflexivity. }
  intros m v [H|[H|[H|[]]]] Hv Ho; subst m; vm_compute in Hv; try contradiction.
  destruct Hv as [Hv|[Hv|[Hv|[]]]]; subst v; vm_compute; auto. vm_compute in Ho. discriminate.
Qed.

(* ------------------------------------------------------------------ accessors derived from the structure
   The correspondence runs extract / analyze on Model.d_heap (value.graph, producer(), is_initializer() computed
   from the graph tree) and pins the implementation's accessors against it on every generated graph.  Under the
   decidable structural well-formedness wf_b (distinct node and graph ids; every definition site agrees with the
   derived accessors — evaluated inside Coq on every generated case) the derived accessors are exactly
   "the graph that defines v", "the node that outputs v", "v is in an initializer list". *)
Theorem C18_derived_accessors :
  forall root, wf_b root = true ->
    (forall v g, In g (graphs_of root) -> (d_owner root v = Some (g_id g) <-> In v (defs_g g))) /\
    (forall v, d_owner root v = None <-> forall g, In g (graphs_of root) -> ~ In v (defs_g g)) /\
    (forall v n, In n (rec_nodes_g root) -> (d_prod root v = Some (n_id n) <-> In v (n_outs n))) /\
    (forall v, d_prod root v = None <-> forall n, In n (rec_nodes_g root) -> ~ In v (n_outs n)) /\
    (forall v, d_init root v = true <-> exists g, In g (graphs_of root) /\ In v (g_inits g)).
Proof.
  intros root Hwf. split; [intros v g; apply d_owner_spec; exact Hwf|].
  split; [intros v; apply d_owner_none|]. split; [intros v n; apply d_prod_spec; exact Hwf|].
  split; [intros v; apply d_prod_none | intros v; apply d_init_spec].
Qed.
Print Assumptions C18_derived_accessors.

(* C18_captures_exact stated on the structure alone (the DESIGN's declarative spec): for a structurally
   well-formed graph whose nested graphs only read values defined in themselves or in an enclosing graph
   (sscoped_n), analyze_implicit_usage — run on the derived value.graph — maps every nested graph S, at every
   depth, to exactly { v | v read by a node of S or deeper, v not defined in S or deeper }. *)
Theorem C18_captures_exact_structural :
  forall root, wf_b root = true -> Forall (sscoped_n [root]) (g_body root) ->
    exists u, analyze (d_owner root) root = Ok u /\
      (forall k, has_key k u = true <-> In k (map g_id (rec_graphs_g root))) /\
      (forall S v, In S (rec_graphs_g root) ->
         (In v (get u (g_id S)) <-> In v (uses_rec_g S) /\ ~ In v (defs_rec_g S))).
Proof. exact analyze_exact_structural. Qed.
Print Assumptions C18_captures_exact_structural.

(* Three hypotheses of C18_semantics (distinct source nodes, nodes found under their ids, SSA for the source's
   nodes) are consequences of wf_b for the derived producer. *)
Theorem C18_structure_gives_ssa :
  forall root, wf_b root = true ->
    let univ := rec_nodes_g root in
    let gn := map n_id (g_body root) in
    NoDup gn /\
    (forall m, In m (g_body root) -> lookup_node univ (n_id m) = Some m) /\
    (forall v n, In n gn -> (d_prod root v = Some n <-> In v (u_nouts univ n))).
Proof. exact structure_gives_ssa. Qed.
Print Assumptions C18_structure_gives_ssa.

(* Non-vacuity: the example graph ex_g is wf_b and structurally scoped; its derived table is ex_h. *)
Example C18_structural_example :
  wf_b ex_g = true /\ Forall (sscoped_n [ex_g]) (g_body ex_g) /\
  heap_eqb (d_heap ex_g [(1, 1); (2, 2); (3, 3); (4, 4); (5, 5); (6, 6)] [1; 2; 3; 4; 5; 6]) ex_h = true.
Proof.
  split; [vm_compute; reflexivity|]. split; [|vm_compute; reflexivity].
  constructor; [apply sscoped_n_eq; constructor|].
  constructor; [|constructor; [apply sscoped_n_eq; constructor | constructor]].
  apply sscoped_n_eq. constructor; [|constructor].
  apply sscoped_g_eq. split; [simpl; intros [H|[]]; discriminate|].
  cbn [g_body]. constructor; [|constructor]. split; [|apply sscoped_n_eq; constructor].
  intros v Hv. simpl in Hv. destruct Hv as [Hv|[Hv|[]]]; subst v; exists ex_g; (split; [right; left; reflexivity|]);
    vm_compute; tauto.
Qed.

(* ------------------------------------------------------------------ the model is the translated source
   Gen/C18Gen.v is regenerated on every run from _extractor.py / _implicit_usage.py by the fail-closed
   statement-by-statement translator in harness/props/c18.py (sets as duplicate-free lists, the value stack with its
   top at the head, `continue`/`break`/walrus/`is None` guards as matches).  The theorems below say that the
   translated code IS the hand model all other C18 theorems are about; an edit of the source changes the generated
   definitions and these proofs have to go through again. *)

(* the body of `while value_stack:` = Model.find_step (all_nodes, which the model does not carry, gets the newly
   visited node appended) *)
Theorem C18_translated_walk_body :
  forall prod isinit nins nattrs collect parent value iv an vs vn vv,
    let step := find_step prod isinit nins (ncaps_of nattrs collect parent) value vs (FS vv vn iv) in
    gen_find_body prod isinit nins nattrs collect parent value (iv, an, vs, vn, vv) =
    (f_inits (snd step), all_nodes_after prod value an vn vv, fst step, f_nodes (snd step), f_vals (snd step)).
Proof. intros. apply gen_find_body_is_find_step. Qed.
Print Assumptions C18_translated_walk_body.

(* the whole loop = Model.find_loop: same visited values / nodes / initializers, and all_nodes = visited nodes *)
Theorem C18_translated_walk :
  forall prod isinit nins nattrs collect parent fuel iv an vs vn vv,
    (forall n, In n an <-> In n vn) ->
    match gen_find_loop prod isinit nins nattrs collect parent fuel (iv, an, vs, vn, vv),
          find_loop prod isinit nins (ncaps_of nattrs collect parent) fuel vs (FS vv vn iv) with
    | Some (iv', an', vs', vn', vv'), Some s' =>
        iv' = f_inits s' /\ vn' = f_nodes s' /\ vv' = f_vals s' /\ vs' = [] /\ (forall n, In n an' <-> In n vn')
    | None, None => True
    | _, _ => False
    end.
Proof. intros. apply gen_find_loop_is_find_loop. assumption. Qed.
Print Assumptions C18_translated_walk.

(* captured values: per attribute in the code, per graph in the model; _collect_all_external_values is
   Model.collect_external as a set (any iteration order) *)
Theorem C18_translated_captures :
  (forall nattrs collect parent n,
     ncaps_of nattrs collect parent n = flat_map (collect parent) (flat_map attr_graphs (nattrs n))) /\
  (forall owner parent g,
     NoDup (gen_collect_external owner parent g) /\
     forall shuffle, (forall l x, In x (shuffle l) <-> In x l) ->
       forall w, In w (gen_collect_external owner parent g) <-> In w (collect_external owner shuffle parent g)).
Proof. split; [intros; apply ncaps_of_flat | intros; apply gen_collect_external_is_model]. Qed.
Print Assumptions C18_translated_captures.

(* _collect_implicit_usages = Model.collect_implicit (Python's graph_stack is outermost-first) *)
Theorem C18_translated_implicit_usages :
  forall owner n sub graph_stack u,
    gen_collect_implicit_usages owner (n_ins n) sub graph_stack u
    = collect_implicit owner n sub (rev graph_stack) u.
Proof. intros. apply gen_collect_implicit_is_model. Qed.
Print Assumptions C18_translated_implicit_usages.

(* the frontier validation after the walk (input_frontier / unspecified_graph_inputs) = Model.unspecified as a set;
   the ValueError decision (non-empty list) is the same; sorted(..., key=name) is any permutation *)
Theorem C18_translated_frontier :
  forall prod isinit nins sorted_by_key inputs V,
    (forall l x, In x (sorted_by_key l) <-> In x l) ->
    (forall w, In w (gen_unspecified isinit sorted_by_key (gen_input_frontier prod nins V) inputs)
               <-> In w (unspecified prod isinit nins inputs V)) /\
    (gen_unspecified isinit sorted_by_key (gen_input_frontier prod nins V) inputs = []
     <-> unspecified prod isinit nins inputs V = []).
Proof. intros prod isinit nins sorted_by_key inputs V H. exact (gen_frontier_is_model prod isinit nins (fun _ => []) (fun _ _ => []) 0 sorted_by_key inputs V H). Qed.
Print Assumptions C18_translated_frontier.

(* C18/Proofs8.v — the accessors derived from the structure (Model.d_owner/d_prod/d_init) and the purely
   structural form of C18_captures_exact. *)
From Coq Require Import List Bool Arith Lia.
From IRV Require Import Base.Exn C18.Model C18.Spec C18.Struct C18.Proofs C18.Proofs2 C18.Proofs5.
Import ListNotations.

Lemma nodup_b_NoDup l : nodup_b l = true -> NoDup l.
Proof.
  unfold nodup_b. intros H. apply (list_eqb_eq Nat.eqb Nat.eqb_eq) in H. rewrite <- H. apply NoDup_dedup.
Qed.

Lemma first_graph_Some v gs k :
  first_graph v gs = Some k -> exists g, In g gs /\ g_id g = k /\ In v (defs_g g).
Proof.
  induction gs as [|g r IH]; simpl; [discriminate|].
  destruct (mem v (defs_g g)) eqn:E.
  - intros H. inversion H; subst. exists g. split; [left; reflexivity|]. split; [reflexivity | apply mem_In; exact E].
  - intros H. destruct (IH H) as [g' [H1 H2]]. exists g'. split; [right; exact H1 | exact H2].
Qed.

Lemma first_graph_None v gs : first_graph v gs = None -> forall g, In g gs -> ~ In v (defs_g g).
Proof.
  induction gs as [|g r IH]; simpl; [intros _ g []|].
  destruct (mem v (defs_g g)) eqn:E; [discriminate|].
  intros H g' [Hg|Hg]; [subst g'; apply mem_false; exact E | apply IH; assumption].
Qed.

Lemma first_node_Some v ns k :
  first_node v ns = Some k -> exists n, In n ns /\ n_id n = k /\ In v (n_outs n).
Proof.
  induction ns as [|n r IH]; simpl; [discriminate|].
  destruct (mem v (n_outs n)) eqn:E.
  - intros H. inversion H; subst. exists n. split; [left; reflexivity|]. split; [reflexivity | apply mem_In; exact E].
  - intros H. destruct (IH H) as [n' [H1 H2]]. exists n'. split; [right; exact H1 | exact H2].
Qed.

Lemma first_node_None v ns : first_node v ns = None -> forall n, In n ns -> ~ In v (n_outs n).
Proof.
  induction ns as [|n r IH]; simpl; [intros _ n []|].
  destruct (mem v (n_outs n)) eqn:E; [discriminate|].
  intros H n' [Hn|Hn]; [subst n'; apply mem_false; exact E | apply IH; assumption].
Qed.

Lemma nodup_map_inj {A} (f : A -> nat) (l : list A) x y :
  NoDup (map f l) -> In x l -> In y l -> f x = f y -> x = y.
Proof.
  induction l as [|a l IH]; [intros _ []|]. simpl. intros Hnd Hx Hy E. inversion Hnd as [|? ? Hna Hnd']; subst.
  destruct Hx as [Hx|Hx], Hy as [Hy|Hy]; subst; auto.
  - exfalso. apply Hna. rewrite E. apply in_map. exact Hy.
  - exfalso. apply Hna. rewrite <- E. apply in_map. exact Hx.
Qed.

Section Derived.
  Variable root : graph.
  Hypothesis Hwf : wf_b root = true.

  Lemma wf_parts : NoDup (map n_id (rec_nodes_g root)) /\ NoDup (map g_id (graphs_of root)) /\
                   wf_owner_b root = true /\ wf_prod_b root = true.
  Proof.
    unfold wf_b in Hwf. apply andb_prop in Hwf. destruct Hwf as [H123 H4].
    apply andb_prop in H123. destruct H123 as [H12 H3]. apply andb_prop in H12. destruct H12 as [H1 H2].
    repeat split; auto; apply nodup_b_NoDup; assumption.
  Qed.

  (* value.graph *)
  Theorem d_owner_def g v : In g (graphs_of root) -> In v (defs_g g) -> d_owner root v = Some (g_id g).
  Proof.
    intros Hg Hv. destruct wf_parts as (_ & _ & H & _). unfold wf_owner_b in H.
    rewrite forallb_forall in H. specialize (H g Hg). rewrite forallb_forall in H.
    apply onat_eqb_eq. apply H. exact Hv.
  Qed.

  Theorem d_owner_spec v g :
    In g (graphs_of root) -> (d_owner root v = Some (g_id g) <-> In v (defs_g g)).
  Proof.
    intros Hg. split; [|apply d_owner_def; exact Hg].
    intros H. destruct (first_graph_Some _ _ _ H) as [g' [Hg' [Hid Hv]]].
    destruct wf_parts as (_ & Hnd & _).
    assert (g' = g) by (eapply nodup_map_inj; eauto). subst. exact Hv.
  Qed.

  Theorem d_owner_none v : d_owner root v = None <-> forall g, In g (graphs_of root) -> ~ In v (defs_g g).
  Proof.
    split; [apply first_graph_None|]. intros H.
    destruct (d_owner root v) as [k|] eqn:E; [|reflexivity].
    destruct (first_graph_Some _ _ _ E) as [g [Hg [_ Hv]]]. exfalso. exact (H g Hg Hv).
  Qed.

  (* value.producer() *)
  Theorem d_prod_spec v n :
    In n (rec_nodes_g root) -> (d_prod root v = Some (n_id n) <-> In v (n_outs n)).
  Proof.
    intros Hn. destruct wf_parts as (Hnd & _ & _ & H). split.
    - intros E. destruct (first_node_Some _ _ _ E) as [n' [Hn' [Hid Hv]]].
      assert (n' = n) by (eapply nodup_map_inj; eauto). subst. exact Hv.
    - intros Hv. unfold wf_prod_b in H. rewrite forallb_forall in H. specialize (H n Hn).
      rewrite forallb_forall in H. apply onat_eqb_eq. apply H. exact Hv.
  Qed.

  Theorem d_prod_none v : d_prod root v = None <-> forall n, In n (rec_nodes_g root) -> ~ In v (n_outs n).
  Proof.
    split; [apply first_node_None|]. intros H.
    destruct (d_prod root v) as [k|] eqn:E; [|reflexivity].
    destruct (first_node_Some _ _ _ E) as [n [Hn [_ Hv]]]. exfalso. exact (H n Hn Hv).
  Qed.

  (* value.is_initializer() *)
  Theorem d_init_spec v : d_init root v = true <-> exists g, In g (graphs_of root) /\ In v (g_inits g).
  Proof.
    unfold d_init. rewrite existsb_exists. split; intros [g [Hg Hv]]; exists g; (split; [exact Hg|]);
      apply mem_In; exact Hv.
  Qed.
End Derived.

(* ---- structure lemmas *)
Lemma rec_graphs_trans :
  forall g S T, In S (rec_graphs_g g) -> In T (rec_graphs_g S) -> In T (rec_graphs_g g).
Proof.
  intros g. apply (graph_ind2
    (fun n => forall S T, In S (rec_graphs_n n) -> In T (rec_graphs_g S) -> In T (rec_graphs_n n))
    (fun g => forall S T, In S (rec_graphs_g g) -> In T (rec_graphs_g S) -> In T (rec_graphs_g g))).
  - intros i ins outs subs IH S T HS HT. rewrite rec_graphs_n_eq in *. cbn [n_subs] in *.
    rewrite Forall_forall in IH. apply in_flat_map in HS. destruct HS as [S0 [HS0 HS]].
    apply in_flat_map. exists S0. split; [exact HS0|]. destruct HS as [HS|HS].
    + subst S. right. exact HT.
    + right. apply (IH S0 HS0 S T HS HT).
  - intros i gi gin body go IH S T HS HT. rewrite (rec_graphs_g_eq (Graph i gi gin body go)) in *. cbn [g_body] in HS |- *.
    rewrite Forall_forall in IH. apply in_flat_map in HS. destruct HS as [m [Hm HS]].
    apply in_flat_map. exists m. split; [exact Hm|]. apply (IH m Hm S T HS HT).
Qed.

Lemma defs_rec_spec :
  forall g v, In v (defs_rec_g g) <-> exists T, In T (graphs_incl g) /\ In v (defs_g T).
Proof.
  intros g. apply (graph_ind2
    (fun n => forall v, In v (flat_map defs_rec_g (n_subs n)) <-> exists T, In T (rec_graphs_n n) /\ In v (defs_g T))
    (fun g => forall v, In v (defs_rec_g g) <-> exists T, In T (graphs_incl g) /\ In v (defs_g T))).
  - intros i ins outs subs IH v. rewrite rec_graphs_n_eq. cbn [n_subs]. rewrite Forall_forall in IH. split.
    + intros H. apply in_flat_map in H. destruct H as [S [HS H]]. apply (IH S HS) in H.
      destruct H as [T [HT Hv]]. exists T. split; [|exact Hv]. apply in_flat_map. exists S. split; assumption.
    + intros [T [HT Hv]]. apply in_flat_map in HT. destruct HT as [S [HS HT]].
      apply in_flat_map. exists S. split; [exact HS|]. apply (IH S HS). exists T. split; assumption.
  - intros i gi gin body go IH v. set (g0 := Graph i gi gin body go).
    rewrite defs_rec_g_eq. cbn [g_inits g_inputs g_body g0]. rewrite Forall_forall in IH. split.
    + intros H. apply in_app_or in H. destruct H as [H|H].
      { exists g0. split; [left; reflexivity|]. unfold defs_g. cbn [g_inputs g_inits g0].
        apply in_or_app. right. apply in_or_app. left. exact H. }
      apply in_app_or in H. destruct H as [H|H].
      { exists g0. split; [left; reflexivity|]. unfold defs_g. cbn [g_inputs g0]. apply in_or_app. left. exact H. }
      apply in_flat_map in H. destruct H as [m [Hm H]]. rewrite defs_rec_n_eq in H.
      apply in_app_or in H. destruct H as [H|H].
      { exists g0. split; [left; reflexivity|]. unfold defs_g. cbn [g_body g0].
        apply in_or_app. right. apply in_or_app. right. apply in_flat_map. exists m. split; assumption. }
      apply (IH m Hm) in H. destruct H as [T [HT Hv]]. exists T. split; [|exact Hv].
      right. rewrite rec_graphs_g_eq. cbn [g_body g0]. apply in_flat_map. exists m. split; assumption.
    + intros [T [[HT|HT] Hv]].
      * subst T. unfold defs_g in Hv. cbn [g_inputs g_inits g_body g0] in Hv.
        apply in_app_or in Hv. destruct Hv as [Hv|Hv]; [apply in_or_app; right; apply in_or_app; left; exact Hv|].
        apply in_app_or in Hv. destruct Hv as [Hv|Hv]; [apply in_or_app; left; exact Hv|].
        apply in_flat_map in Hv. destruct Hv as [m [Hm Hv]].
        apply in_or_app. right. apply in_or_app. right. apply in_flat_map. exists m. split; [exact Hm|].
        rewrite defs_rec_n_eq. apply in_or_app. left. exact Hv.
      * rewrite rec_graphs_g_eq in HT. cbn [g_body g0] in HT. apply in_flat_map in HT. destruct HT as [m [Hm HT]].
        apply in_or_app. right. apply in_or_app. right. apply in_flat_map. exists m. split; [exact Hm|].
        rewrite defs_rec_n_eq. apply in_or_app. right. apply (IH m Hm). exists T. split; assumption.
Qed.

(* ---- structural scoping: every value read in a nested graph is defined in it or in an enclosing graph
   (`stk`: the enclosing graphs, innermost first), and a nested graph does not reuse an enclosing graph's id *)
Fixpoint sscoped_n (stk : list graph) (n : node) : Prop :=
  match n with
  | Node _ _ _ subs =>
      (fix go (gs : list graph) : Prop :=
         match gs with [] => True | g :: r => sscoped_g stk g /\ go r end) subs
  end
with sscoped_g (stk : list graph) (g : graph) : Prop :=
  match g with
  | Graph gid gi gin body go =>
      ~ In gid (map g_id stk) /\
      (fix gon (ns : list node) : Prop :=
         match ns with
         | [] => True
         | n :: r => (forall v, In v (uses_n n) -> exists A, In A (Graph gid gi gin body go :: stk) /\ In v (defs_g A))
                     /\ sscoped_n (Graph gid gi gin body go :: stk) n /\ gon r
         end) body
  end.

Lemma sscoped_n_eq stk n : sscoped_n stk n <-> Forall (sscoped_g stk) (n_subs n).
Proof.
  destruct n as [i ins outs subs]. simpl. induction subs as [|g r IH]; simpl.
  - split; [constructor | trivial].
  - rewrite IH. split; [intros [H1 H2]; constructor; assumption | intros H; inversion H; subst; split; assumption].
Qed.

Lemma sscoped_g_eq stk g :
  sscoped_g stk g <->
  ~ In (g_id g) (map g_id stk) /\
  Forall (fun n => (forall v, In v (uses_n n) -> exists A, In A (g :: stk) /\ In v (defs_g A))
                   /\ sscoped_n (g :: stk) n) (g_body g).
Proof.
  destruct g as [i gi gin body go]. simpl. apply and_iff_compat_l.
  generalize (Graph i gi gin body go) as g0. intros g0.
  induction body as [|n r IH]; simpl.
  - split; [constructor | trivial].
  - rewrite IH. split.
    + intros [H1 [H2 H3]]. constructor; [split|]; assumption.
    + intros H. inversion H as [|? ? [H1 H2] H3]; subst. tauto.
Qed.

Lemma sscoped_scoped owner :
  forall g stk,
    (forall T v, In T (graphs_incl g) -> In v (defs_g T) -> owner v = Some (g_id T)) ->
    (forall A v, In A stk -> In v (defs_g A) -> owner v = Some (g_id A)) ->
    sscoped_g stk g -> scoped_g owner (map g_id stk) g.
Proof.
  intros g. apply (graph_ind2
    (fun n => forall stk,
       (forall T v, In T (rec_graphs_n n) -> In v (defs_g T) -> owner v = Some (g_id T)) ->
       (forall A v, In A stk -> In v (defs_g A) -> owner v = Some (g_id A)) ->
       sscoped_n stk n -> scoped_n owner (map g_id stk) n)
    (fun g => forall stk,
       (forall T v, In T (graphs_incl g) -> In v (defs_g T) -> owner v = Some (g_id T)) ->
       (forall A v, In A stk -> In v (defs_g A) -> owner v = Some (g_id A)) ->
       sscoped_g stk g -> scoped_g owner (map g_id stk) g)).
  - intros i ins outs subs IH stk HT HA Hs. apply scoped_n_eq. apply sscoped_n_eq in Hs. cbn [n_subs] in *.
    rewrite Forall_forall in *. intros S HS. apply (IH S HS stk); [|exact HA | apply Hs; exact HS].
    intros T v HTin Hv. apply HT; [|exact Hv]. rewrite rec_graphs_n_eq. cbn [n_subs].
    apply in_flat_map. exists S. split; assumption.
  - intros i gi gin body go IH stk HT HA Hs. set (g0 := Graph i gi gin body go) in *.
    apply scoped_g_eq. apply sscoped_g_eq in Hs. destruct Hs as [Hf Hb]. split; [exact Hf|].
    rewrite Forall_forall in *. intros m Hm. destruct (Hb m Hm) as [Hu Hsm].
    assert (HA' : forall A v, In A (g0 :: stk) -> In v (defs_g A) -> owner v = Some (g_id A)).
    { intros A v [HAin|HAin] Hv; [subst A; apply HT; [left; reflexivity | exact Hv] | apply HA; assumption]. }
    split.
    + intros v Hv. destruct (Hu v Hv) as [A [HAin HvA]]. exists (g_id A). split; [apply HA'; assumption|].
      change (g_id g0 :: map g_id stk) with (map g_id (g0 :: stk)). apply in_map. exact HAin.
    + change (g_id g0 :: map g_id stk) with (map g_id (g0 :: stk)).
      apply (IH m Hm (g0 :: stk)); [|exact HA' | exact Hsm].
      intros T v HTin Hv. apply HT; [|exact Hv]. right. rewrite rec_graphs_g_eq. cbn [g_body g0].
      apply in_flat_map. exists m. split; assumption.
Qed.

(* C18_captures_exact with nothing but the structure: on a structurally well-formed (wf_b) and structurally
   scoped graph, analyze_implicit_usage run on the DERIVED value.graph maps every nested graph S to exactly
   the values read in S or deeper that are not defined in S or deeper. *)
Theorem analyze_exact_structural root :
  wf_b root = true ->
  Forall (sscoped_n [root]) (g_body root) ->
  exists u, analyze (d_owner root) root = Ok u /\
    (forall k, has_key k u = true <-> In k (map g_id (rec_graphs_g root))) /\
    (forall S v, In S (rec_graphs_g root) ->
       (In v (get u (g_id S)) <-> In v (uses_rec_g S) /\ ~ In v (defs_rec_g S))).
Proof.
  intros Hwf Hs.
  assert (Hown : forall T v, In T (graphs_of root) -> In v (defs_g T) -> d_owner root v = Some (g_id T))
    by (intros T v; apply d_owner_def; exact Hwf).
  destruct (wf_parts root Hwf) as (_ & Hnd & _).
  assert (Hsc : Forall (scoped_n (d_owner root) [g_id root]) (g_body root)).
  { rewrite Forall_forall in *. intros m Hm. apply scoped_n_eq. specialize (Hs m Hm). apply sscoped_n_eq in Hs.
    rewrite Forall_forall in *. intros S HS.
    apply (sscoped_scoped (d_owner root) S [root]); [| | apply Hs; exact HS].
    - intros T v HT Hv. apply Hown; [|exact Hv]. right. rewrite rec_graphs_g_eq. apply in_flat_map.
      exists m. split; [exact Hm|]. rewrite rec_graphs_n_eq. apply in_flat_map. exists S. split; assumption.
    - intros A v [HA|[]] Hv. subst A. apply Hown; [left; reflexivity | exact Hv]. }
  destruct (analyze_exact (d_owner root) root Hsc) as [u [E [K G]]].
  exists u. split; [exact E|]. split; [exact K|].
  intros S v HS. rewrite G.
  assert (Hin : forall T, In T (graphs_incl S) -> In T (graphs_of root)).
  { intros T [HT|HT]; [subst T; right; exact HS | right; eapply rec_graphs_trans; eauto]. }
  split.
  - intros [S' [HS' [Hid [Hu Hc]]]].
    assert (S' = S) by (eapply (nodup_map_inj g_id (graphs_of root)); eauto; right; assumption). subst S'.
    split; [exact Hu|]. intros Hd. apply defs_rec_spec in Hd. destruct Hd as [T [HT Hv]].
    apply (Hc T HT). apply Hown; [apply Hin; exact HT | exact Hv].
  - intros [Hu Hnd']. exists S. split; [exact HS|]. split; [reflexivity|]. split; [exact Hu|].
    intros T HT E'. apply Hnd'. apply defs_rec_spec. exists T. split; [exact HT|].
    apply (d_owner_spec root Hwf v T (Hin T HT)). exact E'.
Qed.

(* ---- the SSA / lookup hypotheses of C18_semantics follow from the structure *)
Lemma lookup_node_nodup univ m :
  NoDup (map n_id univ) -> In m univ -> lookup_node univ (n_id m) = Some m.
Proof.
  induction univ as [|x r IH]; [intros _ []|]. simpl. intros Hnd Hin. inversion Hnd as [|? ? Hna Hnd']; subst.
  destruct (Nat.eqb (n_id x) (n_id m)) eqn:E.
  - apply Nat.eqb_eq in E. destruct Hin as [H|H]; [subst; reflexivity|].
    exfalso. apply Hna. rewrite E. apply in_map. exact H.
  - destruct Hin as [H|H]; [subst; rewrite Nat.eqb_refl in E; discriminate | apply IH; assumption].
Qed.

Lemma body_in_rec_nodes g m : In m (g_body g) -> In m (rec_nodes_g g).
Proof.
  intros Hm. rewrite rec_nodes_g_eq. apply in_flat_map. exists m. split; [exact Hm|].
  rewrite rec_nodes_n_eq. left. reflexivity.
Qed.

Lemma nodup_body_ids g : NoDup (map n_id (rec_nodes_g g)) -> NoDup (map n_id (g_body g)).
Proof.
  rewrite rec_nodes_g_eq. induction (g_body g) as [|m r IH]; [constructor|].
  simpl. rewrite map_app, rec_nodes_n_eq. simpl. intros H. inversion H as [|? ? Hna Hnd]; subst.
  constructor.
  - intros Hin. apply Hna. apply in_or_app. right. apply in_map_iff in Hin. destruct Hin as [m' [E Hm']].
    apply in_map_iff. exists m'. split; [exact E|]. apply in_flat_map. exists m'. split; [exact Hm'|].
    rewrite rec_nodes_n_eq. left. reflexivity.
  - apply IH. clear -Hnd. induction (map n_id (flat_map rec_nodes_g (n_subs m))) as [|x l IHl]; [exact Hnd|].
    simpl in Hnd. inversion Hnd; subst. apply IHl. assumption.
Qed.

Theorem structure_gives_ssa root :
  wf_b root = true ->
  let univ := rec_nodes_g root in
  let gn := map n_id (g_body root) in
  NoDup gn /\
  (forall m, In m (g_body root) -> lookup_node univ (n_id m) = Some m) /\
  (forall v n, In n gn ->
     (d_prod root v = Some n <-> In v (match lookup_node univ n with Some x => n_outs x | None => [] end))).
Proof.
  intros Hwf univ gn. destruct (wf_parts root Hwf) as (Hnd & _).
  assert (HL : forall m, In m (g_body root) -> lookup_node univ (n_id m) = Some m).
  { intros m Hm. apply lookup_node_nodup; [exact Hnd | apply body_in_rec_nodes; exact Hm]. }
  split; [apply nodup_body_ids; exact Hnd|]. split; [exact HL|].
  intros v n Hn. apply in_map_iff in Hn. destruct Hn as [m [E Hm]]. subst n. rewrite (HL m Hm).
  apply d_prod_spec; [exact Hwf | apply body_in_rec_nodes; exact Hm].
Qed.

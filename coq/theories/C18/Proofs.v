(* C18/Proofs.v — the backward walk of _find_subgraph_bounded_by_values computes the least closed region. *)
From Coq Require Import List Bool Arith Lia Permutation.
From IRV Require Import Base.Exn C18.Model C18.Spec.
Import ListNotations.

Lemma mem_In x l : mem x l = true <-> In x l.
Proof.
  unfold mem. rewrite existsb_exists. split.
  - intros [y [Hy E]]. apply Nat.eqb_eq in E. subst. exact Hy.
  - intros H. exists x. split; [exact H | apply Nat.eqb_refl].
Qed.

Lemma mem_false x l : mem x l = false <-> ~ In x l.
Proof.
  rewrite <- mem_In. destruct (mem x l); split; intro H; try discriminate; try reflexivity.
  exfalso. apply H. reflexivity.
Qed.

Lemma mem_cons x y l : mem x (y :: l) = Nat.eqb x y || mem x l.
Proof. reflexivity. Qed.

Lemma In_somes v l : In v (somes l) <-> In (Some v) l.
Proof.
  induction l as [|[x|] l IH]; simpl.
  - tauto.
  - rewrite IH. split; intros [H|H]; auto; left; congruence.
  - rewrite IH. split; [auto | intros [H|H]; [discriminate | exact H]].
Qed.

Lemma somes_length l : length (somes l) <= length l.
Proof. induction l as [|[x|] l IH]; simpl; lia. Qed.

Lemma filter_len {A} (f : A -> bool) l : length (filter f l) <= length l.
Proof. induction l as [|x l IH]; simpl; [lia|]. destruct (f x); simpl; lia. Qed.

Lemma In_dedup v l : In v (dedup l) <-> In v l.
Proof.
  induction l as [|x l IH]; simpl; [tauto|].
  destruct (mem x l) eqn:E.
  - rewrite IH. apply mem_In in E. split; [auto | intros [H|H]; [subst; exact E | exact H]].
  - simpl. rewrite IH. tauto.
Qed.

Lemma NoDup_dedup l : NoDup (dedup l).
Proof.
  induction l as [|x l IH]; simpl; [constructor|].
  destruct (mem x l) eqn:E; [exact IH|].
  constructor; [|exact IH]. rewrite In_dedup. apply mem_false. exact E.
Qed.

Section FindProofs.
  Variable prod : nat -> option nat.
  Variable isinit : nat -> bool.
  Variable nins : nat -> list (option nat).
  Variable ncaps : nat -> list nat.
  Variables inputs outputs : list nat.
  Variable ini0 : list nat.

  Notation Reach := (Reach prod nins ncaps inputs outputs).
  Notation NeededNode := (NeededNode prod nins ncaps inputs outputs).
  Notation reads := (reads nins ncaps).
  Notation find_step := (find_step prod isinit nins ncaps).
  Notation find_loop := (find_loop prod isinit nins ncaps).

  Lemma reads_In n u : reads n u <-> In u (somes (nins n) ++ ncaps n).
  Proof. unfold Spec.reads. rewrite in_app_iff, In_somes. tauto. Qed.

  (* Loop invariant *)
  Record Inv (st : list nat) (s : fstate) : Prop := {
    i_stack : forall v, In v st -> Reach v;
    i_vals : forall v, In v (f_vals s) -> In v inputs \/ Reach v;
    i_inputs : forall v, In v inputs -> In v (f_vals s);
    i_nodes : forall n, In n (f_nodes s) -> NeededNode n;
    i_closed : forall v n, In v (f_vals s) -> ~ In v inputs -> prod v = Some n -> In n (f_nodes s);
    i_reads : forall n u, In n (f_nodes s) -> reads n u -> In u (f_vals s) \/ In u st;
    i_outs : forall o, In o outputs -> In o (f_vals s) \/ In o st;
    i_inits : forall v, In v (f_inits s) <->
                        In v ini0 \/ (In v (f_vals s) /\ ~ In v inputs /\ isinit v = true);
    i_nodup : NoDup (f_nodes s);
    i_nodup_i : NoDup (f_inits s);
    i_ini0 : forall v, In v ini0 -> In v inputs
  }.

  Lemma inv_init :
    NoDup ini0 -> (forall v, In v ini0 -> In v inputs) -> Inv (rev outputs) (FS inputs [] ini0).
  Proof.
    intros Hnd Hsub. constructor; simpl; intros.
    - apply R_out. apply in_rev. assumption.
    - left. assumption.
    - assumption.
    - contradiction.
    - contradiction.
    - contradiction.
    - right. apply -> in_rev. assumption.
    - split; [intros H; left; exact H | intros [H|[H1 [H2 _]]]; [exact H | contradiction]].
    - constructor.
    - assumption.
    - apply Hsub. assumption.
  Qed.

  Lemma inv_step v st s :
    Inv (v :: st) s -> Inv (fst (find_step v st s)) (snd (find_step v st s)).
  Proof.
    intros I. unfold Model.find_step.
    destruct (mem v (f_vals s)) eqn:Ev; simpl.
    { (* already visited: just popped *)
      apply mem_In in Ev. destruct I as [I1 I2 I3 I4 I5 I6 I7 I8 I9 I10 I11]. constructor.
      - intros w H. apply I1. right. exact H.
      - exact I2.
      - exact I3.
      - exact I4.
      - exact I5.
      - intros n u H H0. destruct (I6 n u H H0) as [H1|[H1|H1]]; auto. subst. auto.
      - intros o H. destruct (I7 o H) as [H1|[H1|H1]]; auto. subst. auto.
      - exact I8.
      - exact I9.
      - exact I10.
      - exact I11. }
    apply mem_false in Ev.
    assert (Rv : Reach v) by (apply (i_stack _ _ I); left; reflexivity).
    assert (Nv : ~ In v inputs) by (intros H; apply Ev; apply (i_inputs _ _ I); exact H).
    (* the inits component is the same in the three remaining branches *)
    assert (Hsa : forall w l, In w (set_add v l) <-> w = v \/ In w l).
    { intros w l. unfold set_add. destruct (mem v l) eqn:Em; simpl; [|intuition congruence].
      apply mem_In in Em. intuition (subst; auto). }
    assert (Hini : forall w, In w (if isinit v then set_add v (f_inits s) else f_inits s) <->
                             In w ini0 \/ (In w (v :: f_vals s) /\ ~ In w inputs /\ isinit w = true)).
    { intros w. destruct (isinit v) eqn:Ei; [rewrite Hsa|]; simpl; rewrite (i_inits _ _ I);
        intuition (subst; auto; congruence). }
    assert (Hndi : NoDup (if isinit v then set_add v (f_inits s) else f_inits s)).
    { destruct (isinit v); [|apply (i_nodup_i _ _ I)]. unfold set_add.
      destruct (mem v (f_inits s)) eqn:Em; [apply (i_nodup_i _ _ I)|].
      constructor; [apply mem_false; exact Em | apply (i_nodup_i _ _ I)]. }
    destruct I as [I1 I2 I3 I4 I5 I6 I7 I8 I9 I10 I11].
    destruct (prod v) as [n|] eqn:Ep.
    - destruct (mem n (f_nodes s)) eqn:En; simpl.
      + apply mem_In in En. constructor; simpl.
        * intros w H. apply I1. right. exact H.
        * intros w [H|H]; subst; auto.
        * intros w H. right. auto.
        * exact I4.
        * intros w m [H|H] H1 H2; subst; [congruence | eauto].
        * intros m u H H0. destruct (I6 m u H H0) as [H1|[H1|H1]]; auto.
        * intros o H. destruct (I7 o H) as [H1|[H1|H1]]; auto.
        * exact Hini.
        * exact I9.
        * exact Hndi.
        * exact I11.
      + apply mem_false in En.
        assert (NN : NeededNode n) by (exists v; auto).
        constructor; simpl.
        * intros w H. apply in_app_or in H. destruct H as [H|H]; [|apply I1; right; exact H].
          apply in_rev in H. apply filter_In in H. destruct H as [H _].
          apply (R_step _ _ _ _ _ v n); auto. apply reads_In. exact H.
        * intros w [H|H]; subst; auto.
        * intros w H. right. auto.
        * intros m [H|H]; subst; auto.
        * intros w m [H|H] H1 H2; subst; [left; congruence | right; eauto].
        * intros m u [H|H] H0.
          -- subst m. apply reads_In in H0.
             destruct (mem u (v :: f_vals s)) eqn:Eu.
             ++ apply mem_In in Eu. left. exact Eu.
             ++ right. apply in_or_app. left. apply -> in_rev. apply filter_In. split; [exact H0|].
                apply negb_true_iff. exact Eu.
          -- destruct (I6 m u H H0) as [H1|[H1|H1]]; auto.
             right. apply in_or_app. right. exact H1.
        * intros o H. destruct (I7 o H) as [H1|[H1|H1]]; auto.
          right. apply in_or_app. right. exact H1.
        * exact Hini.
        * constructor; assumption.
        * exact Hndi.
        * exact I11.
    - simpl. constructor; simpl.
      + intros w H. apply I1. right. exact H.
      + intros w [H|H]; subst; auto.
      + intros w H. right. auto.
      + exact I4.
      + intros w m [H|H] H1 H2; subst; [congruence | eauto].
      + intros m u H H0. destruct (I6 m u H H0) as [H1|[H1|H1]]; auto.
      + intros o H. destruct (I7 o H) as [H1|[H1|H1]]; auto.
      + exact Hini.
      + exact I9.
      + exact Hndi.
      + exact I11.
  Qed.

  Lemma inv_loop fuel : forall st s s',
    Inv st s -> find_loop fuel st s = Some s' -> Inv [] s'.
  Proof.
    induction fuel as [|f IH]; intros st s s' I E; simpl in E; [discriminate|].
    destruct st as [|v st].
    - inversion E; subst. exact I.
    - eapply IH; [|exact E]. apply inv_step. exact I.
  Qed.

  (* at the fixpoint the visited values contain everything reachable *)
  Lemma inv_final_reach s : Inv [] s -> forall v, Reach v -> In v (f_vals s).
  Proof.
    intros I v R. induction R as [o Ho | v n u R IH Nv Ep Hr].
    - destruct (i_outs _ _ I o Ho) as [H|[]]. exact H.
    - assert (Hn : In n (f_nodes s)) by (eapply (i_closed _ _ I); eauto).
      destruct (i_reads _ _ I n u Hn Hr) as [H|[]]. exact H.
  Qed.

  Theorem find_loop_spec fuel s :
    NoDup ini0 -> (forall v, In v ini0 -> In v inputs) ->
    find_loop fuel (rev outputs) (FS inputs [] ini0) = Some s ->
    (forall v, In v (f_vals s) <-> In v inputs \/ Reach v) /\
    (forall n, In n (f_nodes s) <-> NeededNode n) /\
    (forall v, In v (f_inits s) <-> In v ini0 \/ (Reach v /\ ~ In v inputs /\ isinit v = true)) /\
    NoDup (f_nodes s) /\ NoDup (f_inits s).
  Proof.
    intros Hnd Hsub E.
    assert (I : Inv [] s) by (eapply inv_loop; [apply inv_init; assumption | exact E]).
    assert (HV : forall v, In v (f_vals s) <-> In v inputs \/ Reach v).
    { intros v. split; [apply (i_vals _ _ I)|].
      intros [H|H]; [apply (i_inputs _ _ I); exact H | apply inv_final_reach; assumption]. }
    split; [exact HV|]. split; [|split; [|split]].
    - intros n. split; [apply (i_nodes _ _ I)|].
      intros [v [R [Nv Ep]]]. eapply (i_closed _ _ I); eauto. apply HV. right. exact R.
    - intros v. rewrite (i_inits _ _ I). rewrite HV. split.
      + intros [H|[[H|H] [H2 H3]]]; auto. contradiction.
      + intros [H|[H [H2 H3]]]; auto.
    - apply (i_nodup _ _ I).
    - apply (i_nodup_i _ _ I).
  Qed.

  (* ---------------------------------------------------------------- the fuel given by find_bounded suffices *)
  Variable univ : list nat.
  Hypothesis weight_univ : forall n, ~ In n univ -> weight nins ncaps n = 0.
  Notation weight := (weight nins ncaps).

  Definition pending (vn : list nat) : nat :=
    fold_right (fun n a => (if mem n vn then 0 else weight n) + a) 0 univ.

  Lemma pending_mono_gen (l : list nat) n vn :
    fold_right (fun x a => (if mem x (n :: vn) then 0 else weight x) + a) 0 l
    <= fold_right (fun x a => (if mem x vn then 0 else weight x) + a) 0 l.
  Proof.
    induction l as [|x l IH]; cbn [fold_right]; [lia|].
    rewrite mem_cons. destruct (Nat.eqb x n); cbn [orb]; destruct (mem x vn); lia.
  Qed.

  Lemma pending_visit_gen (l : list nat) n vn :
    mem n vn = false -> In n l ->
    fold_right (fun x a => (if mem x (n :: vn) then 0 else weight x) + a) 0 l + weight n
    <= fold_right (fun x a => (if mem x vn then 0 else weight x) + a) 0 l.
  Proof.
    intros Hn. induction l as [|x l IH]; cbn [fold_right]; [intros []|].
    intros [H|H].
    - subst x. rewrite mem_cons, Nat.eqb_refl. cbn [orb]. rewrite Hn.
      pose proof (pending_mono_gen l n vn). lia.
    - specialize (IH H). rewrite mem_cons. destruct (Nat.eqb x n) eqn:E; cbn [orb].
      + apply Nat.eqb_eq in E. subst x. rewrite Hn. lia.
      + destruct (mem x vn); lia.
  Qed.

  Lemma pending_visit n vn : mem n vn = false -> pending (n :: vn) + weight n <= pending vn.
  Proof.
    intros Hn. destruct (in_dec Nat.eq_dec n univ) as [H|H].
    - apply pending_visit_gen; assumption.
    - rewrite (weight_univ n H). pose proof (pending_mono_gen univ n vn). unfold pending. lia.
  Qed.

  Lemma pending_nil : pending [] = fold_right (fun n a => weight n + a) 0 univ.
  Proof. unfold pending. induction univ as [|x l IH]; simpl; congruence. Qed.

  Lemma step_measure v st s :
    length (fst (find_step v st s)) + pending (f_nodes (snd (find_step v st s)))
    <= length st + pending (f_nodes s).
  Proof.
    unfold Model.find_step. destruct (mem v (f_vals s)); cbn [fst snd f_nodes]; [lia|].
    destruct (prod v) as [n|]; cbn [fst snd f_nodes]; [|lia].
    destruct (mem n (f_nodes s)) eqn:En; cbn [fst snd f_nodes]; [lia|].
    rewrite app_length, rev_length.
    pose proof (pending_visit n (f_nodes s) En) as Hp.
    assert (Hl : length (filter (fun u => negb (mem u (v :: f_vals s))) (somes (nins n) ++ ncaps n)) <= weight n).
    { etransitivity; [apply filter_len|]. rewrite app_length. unfold Model.weight.
      pose proof (somes_length (nins n)). lia. }
    lia.
  Qed.

  Lemma find_loop_fuel fuel : forall st s,
    length st + pending (f_nodes s) < fuel -> find_loop fuel st s <> None.
  Proof.
    induction fuel as [|f IH]; intros st s H; [lia|]. simpl.
    destruct st as [|v st]; [discriminate|].
    apply IH. pose proof (step_measure v st s). simpl in H. lia.
  Qed.

  Theorem find_fuel_suffices :
    find_loop (find_fuel nins ncaps univ outputs) (rev outputs) (FS inputs [] ini0) <> None.
  Proof.
    apply find_loop_fuel. simpl. rewrite rev_length, pending_nil. unfold find_fuel. lia.
  Qed.
End FindProofs.

(* ------------------------------------------------------------------ find_bounded: the four outcomes *)
Section BoundedProofs.
  Variable prod : nat -> option nat.
  Variable isinit : nat -> bool.
  Variable nins : nat -> list (option nat).
  Variable ncaps : nat -> list nat.
  Variables inputs outputs : list nat.
  Variable isf : bool.
  Variables gnodes univ : list nat.
  Hypothesis weight_univ : forall n, ~ In n univ -> weight nins ncaps n = 0.

  Notation Reach := (Reach prod nins ncaps inputs outputs).
  Notation NeededNode := (NeededNode prod nins ncaps inputs outputs).
  Notation find_bounded := (find_bounded prod isinit nins ncaps isf gnodes univ inputs outputs).
  Let ini0 := if isf then [] else dedup (filter isinit inputs).

  Lemma ini0_nodup : NoDup ini0.
  Proof. unfold ini0. destruct isf; [constructor | apply NoDup_dedup]. Qed.
  Lemma ini0_spec v : In v ini0 <-> isf = false /\ In v inputs /\ isinit v = true.
  Proof.
    unfold ini0. destruct isf; simpl.
    - split; [intros [] | intros [H _]; discriminate].
    - rewrite In_dedup, filter_In. tauto.
  Qed.

  (* the state the loop ends in, with its characterisation *)
  Lemma loop_result :
    exists s, find_loop prod isinit nins ncaps (find_fuel nins ncaps univ outputs) (rev outputs)
                        (FS inputs [] ini0) = Some s /\
      (forall n, In n (f_nodes s) <-> NeededNode n) /\
      (forall v, In v (f_inits s) <-> In v ini0 \/ (Reach v /\ ~ In v inputs /\ isinit v = true)).
  Proof.
    destruct (find_loop prod isinit nins ncaps (find_fuel nins ncaps univ outputs) (rev outputs)
                        (FS inputs [] ini0)) as [s|] eqn:E.
    - exists s. split; [reflexivity|].
      destruct (find_loop_spec prod isinit nins ncaps inputs outputs ini0
                  (find_fuel nins ncaps univ outputs) s ini0_nodup) as (_ & H2 & H3 & _).
      + intros v H. apply ini0_spec in H. tauto.
      + exact E.
      + split; assumption.
    - exfalso. revert E. apply find_fuel_suffices. exact weight_univ.
  Qed.

  Lemma unspecified_In vn v :
    In v (unspecified prod isinit nins inputs vn) <->
    (exists n, In n vn /\ In (Some v) (nins n)) /\
    (forall p, prod v = Some p -> ~ In p vn) /\ ~ In v inputs /\ isinit v = false.
  Proof.
    unfold unspecified. rewrite filter_In, in_flat_map.
    rewrite !andb_true_iff, !negb_true_iff, mem_false. unfold in_frontier.
    split.
    - intros [[n [Hn Hv]] [[Hf Hi] Hz]]. split; [|split; [|split]]; auto.
      + exists n. split; [exact Hn | apply In_somes; exact Hv].
      + intros p Hp. rewrite Hp in Hf. apply negb_true_iff, mem_false in Hf. exact Hf.
    - intros [[n [Hn Hv]] [Hp [Hi Hz]]]. split; [|split; [split|]]; auto.
      + exists n. split; [exact Hn | apply In_somes; exact Hv].
      + destruct (prod v) as [p|]; [|reflexivity]. apply negb_true_iff, mem_false. apply Hp. reflexivity.
  Qed.

  (* never out of fuel, and only the three exceptions the code can raise here *)
  Theorem find_bounded_cases :
    (exists ns inis, find_bounded = Ok (ns, inis)) \/ find_bounded = Raise ValueError \/ find_bounded = Raise KeyError.
  Proof.
    destruct loop_result as [s [E _]]. unfold Model.find_bounded. fold ini0. rewrite E.
    destruct (unspecified prod isinit nins inputs (f_nodes s)); [|right; left; reflexivity].
    destruct (forallb _ (f_nodes s)); [left; eauto | right; right; reflexivity].
  Qed.

  Theorem find_bounded_exact ns inis :
    find_bounded = Ok (ns, inis) ->
    ns = filter (fun n => mem n ns) gnodes /\
    (forall n, In n ns <-> NeededNode n) /\
    (forall v, In v inis <-> (isf = false /\ In v inputs /\ isinit v = true)
                              \/ (Reach v /\ ~ In v inputs /\ isinit v = true)) /\
    (forall n v, NeededNode n -> In (Some v) (nins n) ->
                 In v inputs \/ isinit v = true \/ exists p, prod v = Some p /\ NeededNode p).
  Proof.
    destruct loop_result as [s [E [HN HI]]]. unfold Model.find_bounded. fold ini0. rewrite E.
    destruct (unspecified prod isinit nins inputs (f_nodes s)) as [|w l] eqn:EU; [|discriminate].
    destruct (forallb (fun n => mem n gnodes) (f_nodes s)) eqn:EF; [|discriminate].
    intros H. inversion H; subst ns inis. clear H.
    rewrite forallb_forall in EF.
    assert (Hin : forall n, In n (filter (fun n => mem n (f_nodes s)) gnodes) <-> In n (f_nodes s)).
    { intros n. rewrite filter_In, mem_In. split; [tauto|]. intros H. split; [|exact H].
      apply mem_In. apply EF. exact H. }
    split; [|split; [|split]].
    - apply filter_ext_in. intros n Hn. 
      destruct (mem n (f_nodes s)) eqn:E1.
      + symmetry. apply mem_In. apply Hin. apply mem_In. exact E1.
      + symmetry. apply mem_false. rewrite Hin. apply mem_false. exact E1.
    - intros n. rewrite Hin. apply HN.
    - intros v. rewrite HI, ini0_spec. tauto.
    - intros n v Hn Hv.
      destruct (in_dec Nat.eq_dec v inputs) as [Hi|Hi]; [left; exact Hi|].
      destruct (isinit v) eqn:Ez; [right; left; reflexivity|]. right. right.
      destruct (prod v) as [p|] eqn:Ep.
      + exists p. split; [reflexivity|]. apply HN.
        destruct (in_dec Nat.eq_dec p (f_nodes s)) as [Hp|Hp]; [exact Hp|]. exfalso.
        assert (In v (unspecified prod isinit nins inputs (f_nodes s))).
        { apply unspecified_In. split; [|split; [|split]]; auto.
          - exists n. split; [apply HN; exact Hn | exact Hv].
          - intros q Hq. congruence. }
        rewrite EU in H. exact H.
      + exfalso.
        assert (In v (unspecified prod isinit nins inputs (f_nodes s))).
        { apply unspecified_In. split; [|split; [|split]]; auto.
          - exists n. split; [apply HN; exact Hn | exact Hv].
          - intros q Hq. congruence. }
        rewrite EU in H. exact H.
  Qed.

  Theorem find_bounded_unbounded n v :
    NeededNode n -> In (Some v) (nins n) -> prod v = None -> ~ In v inputs -> isinit v = false ->
    find_bounded = Raise ValueError.
  Proof.
    intros Hn Hv Hp Hi Hz.
    destruct loop_result as [s [E [HN HI]]]. unfold Model.find_bounded. fold ini0. rewrite E.
    destruct (unspecified prod isinit nins inputs (f_nodes s)) as [|w l] eqn:EU; [|reflexivity].
    exfalso.
    assert (In v (unspecified prod isinit nins inputs (f_nodes s))).
    { apply unspecified_In. split; [|split; [|split]]; auto.
      - exists n. split; [apply HN; exact Hn | exact Hv].
      - intros q Hq. congruence. }
    rewrite EU in H. exact H.
  Qed.

  (* a needed node that the graph-like does not contain (possible for a GraphView): KeyError from node_index *)
  Theorem find_bounded_outside n ns inis :
    find_bounded = Ok (ns, inis) -> NeededNode n -> In n gnodes.
  Proof.
    intros H Hn. destruct (find_bounded_exact ns inis H) as (Hf & Hin & _).
    apply Hin in Hn. rewrite Hf in Hn. apply filter_In in Hn. tauto.
  Qed.
End BoundedProofs.

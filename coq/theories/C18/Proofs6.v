(* C18/Proofs6.v — C18_semantics at the level of `extract`: the hypothesis "the start environment agrees with
   the source on the needed producer-less values" of Proofs4.sem_extracted is discharged from
   "extract returned Ok" (C18_inits, C18_ok_bounded, extract_ok_captures_bound). *)
From Coq Require Import List Bool Arith Lia.
From IRV Require Import Base.Exn C18.Model C18.Spec C18.Struct C18.Proofs C18.Proofs2 C18.Proofs3
  C18.Proofs4 C18.Proofs5.
Import ListNotations.

(* node.outputs through a node id *)
Definition u_nouts (univ : list node) (i : nat) : list nat :=
  match lookup_node univ i with Some n => n_outs n | None => [] end.

Section ExtractSem.
  Variable T : Type.
  Variable interp : nat -> list (option T) -> list T -> list T.
  Variable dflt : T.
  Variable h : heap.
  Variable univ : list node.
  Variable s : source.
  Variables inputs outputs : list ref.
  Variable e : extracted.
  Variable parent : nat.
  Variables e0 e1 : nat -> T.

  Let gn := map n_id (s_nodes s).
  Let nins := u_nins univ.
  Let ncaps := u_ncaps h univ parent.
  Let nouts := u_nouts univ.
  Notation exec := (exec T interp nins ncaps nouts dflt).
  Notation Reach := (Reach (h_prod h) nins ncaps (e_inputs e) (e_outputs e)).
  Notation NeededNode := (NeededNode (h_prod h) nins ncaps (e_inputs e) (e_outputs e)).

  Hypothesis Hex : extract h univ s inputs outputs = Ok e.
  (* parent_graph: the graph of the first output *)
  Hypothesis Hparent : exists o, hd_error (e_outputs e) = Some o /\ h_owner h o = Some parent.
  (* the source: distinct nodes, found in the universe under their ids *)
  Hypothesis Hnd : NoDup gn.
  Hypothesis Hlookup : forall m, In m (s_nodes s) -> lookup_node univ (n_id m) = Some m.
  (* SSA, for the nodes of the source: value.producer() is n iff n lists the value among its outputs
     (values produced by nodes of nested bodies are not constrained) *)
  Hypothesis Hprod : forall v n, In n gn -> (h_prod h v = Some n <-> In v (nouts n)).
  (* topologically sorted, also with respect to the values captured by nested bodies *)
  Hypothesis Htopo : forall l1 n l2, gn = l1 ++ n :: l2 ->
                       forall u p, reads nins ncaps n u -> h_prod h u = Some p -> In p l1.
  (* values defined inside nested bodies do not belong to the parent graph; requested outputs do *)
  Hypothesis Hinner : forall m S v, In m (s_nodes s) -> In S (n_subs m) -> In v (defs_rec_g S) ->
                                    h_owner h v <> Some parent.
  Hypothesis Houts : forall o, In o (e_outputs e) -> h_owner h o = Some parent.
  (* the extracted graph is run with its inputs bound to the source's values and its initializers to the
     source's initializer tensors *)
  Hypothesis Hin : forall v, In v (e_inputs e) -> e1 v = exec e0 gn v.
  Hypothesis Hini : forall v, In v (e_inits e) -> e1 v = e0 v.

  Lemma nouts_of m : In m (s_nodes s) -> nouts (n_id m) = n_outs m.
  Proof. intros Hm. unfold nouts, u_nouts. rewrite (Hlookup m Hm). reflexivity. Qed.

  Lemma rho_unproduced v : h_prod h v = None -> exec e0 gn v = e0 v.
  Proof.
    intros Hp. apply exec_other. intros n Hn Hv.
    assert (h_prod h v = Some n) by (apply (Hprod v n Hn); exact Hv). congruence.
  Qed.

  Lemma reach_read_local u :
    Reach u -> In u (e_outputs e) \/ exists n, NeededNode n /\ (In (Some u) (nins n) \/ In u (ncaps n)).
  Proof.
    intros R. destruct R as [o Ho | v n u R Nv Ep Hr].
    - left. exact Ho.
    - right. exists n. split; [exists v; auto | exact Hr].
  Qed.

  Theorem extract_semantics : forall o, In o (e_outputs e) -> exec e1 (e_nodes e) o = exec e0 gn o.
  Proof.
    destruct (extract_ok_inv h univ s inputs outputs e Hex)
      as (all & o' & parent' & av & _ & _ & _ & Ho' & Hp' & Hf & HC).
    destruct Hparent as [o1 [Ho1 Hp1]].
    assert (parent' = parent) by congruence. subst parent'.
    fold nins ncaps gn in Hf.
    destruct (find_bounded_exact _ _ _ _ _ _ _ _ _ (u_weight_univ h univ parent) _ _ Hf)
      as (H1 & H2 & H3 & H4).
    intros o Ho. rewrite H1.
    apply (sem_extracted T interp nins ncaps nouts dflt (h_prod h) (e_inputs e) (e_outputs e) gn
             (fun n => mem n (e_nodes e)) e0 e1 Hnd Hprod
             (fun n Hn => find_bounded_outside _ _ _ _ _ _ _ _ _ (u_weight_univ h univ parent) n _ _ Hf Hn) Htopo).
    - intros n Hn. rewrite mem_In. apply H2.
    - (* the start environment agrees with the source on every needed boundary / producer-less value *)
      intros u Ru [Hu|Hu]; [apply Hin; exact Hu|].
      destruct (in_dec Nat.eq_dec u (e_inputs e)) as [Hi|Hi]; [apply Hin; exact Hi|].
      destruct (h_init h u) eqn:Ez.
      { rewrite (rho_unproduced u Hu). apply Hini. apply H3. right. auto. }
      exfalso.
      (* bound facts from the cloner's check *)
      pose proof (extract_ok_captures_bound h univ s inputs outputs e Hex u) as HB. cbv zeta in HB.
      assert (CASES : forall (Hsrc : In u (e_outputs e) \/
                        exists m S, In m (filter (fun n => mem (n_id n) (e_nodes e)) (s_nodes s)) /\
                                    In S (n_subs m) /\ In u (uses_rec_g S)),
                        h_owner h u = Some parent -> False).
      { intros Hsrc Hown. destruct (HB Hsrc) as [Hb|[Hb|[Hb|Hb]]].
        - exact (Hi Hb).
        - apply H3 in Hb. destruct Hb as [(_ & _ & Hx)|(_ & _ & Hx)]; congruence.
        - destruct Hb as [m [Hm Hout]]. apply filter_In in Hm. destruct Hm as [Hm _].
          assert (h_prod h u = Some (n_id m)).
          { apply (Hprod u (n_id m) (in_map n_id _ _ Hm)). rewrite (nouts_of m Hm). exact Hout. }
          congruence.
        - destruct Hb as [m [S [Hm [HS Hd]]]]. apply filter_In in Hm. destruct Hm as [Hm _].
          exact (Hinner m S u Hm HS Hd Hown). }
      destruct (reach_read_local u Ru) as [Hout|[n [Hn [Hr|Hr]]]].
      + apply CASES; [left; exact Hout | apply Houts; exact Hout].
      + destruct (H4 n u Hn Hr) as [Hx|[Hx|[p [Hx _]]]]; congruence.
      + (* captured by a body of the needed node n *)
        apply H2 in Hn. pose proof Hn as Hn'. rewrite H1 in Hn'. apply filter_In in Hn'.
        destruct Hn' as [Hgn _]. apply in_map_iff in Hgn. destruct Hgn as [m [Hid Hm]]. subst n.
        unfold ncaps, u_ncaps in Hr. rewrite (Hlookup m Hm) in Hr.
        apply (node_caps_spec (h_owner h) (fun l => l) parent m u (fun l x => iff_refl _)) in Hr.
        destruct Hr as [S [HS [Hv Hown]]].
        apply CASES; [|exact Hown]. right. exists m, S. split; [|split; assumption].
        apply filter_In. split; [exact Hm | apply mem_In; exact Hn].
    - apply R_out. exact Ho.
  Qed.
End ExtractSem.

(* C18/Proofs3.v — extract: inversion of a successful run, captured values of a node. *)
From Coq Require Import List Bool Arith Lia.
From IRV Require Import Base.Exn C18.Model C18.Spec C18.Struct C18.Proofs C18.Proofs2.
Import ListNotations.

(* a successful extract went through every stage *)
Lemma extract_ok_inv h univ s inputs outputs e :
  extract h univ s inputs outputs = Ok e ->
  exists all o parent av,
    resolve (h_owner h) s (value_mapping (h_name h) s) (inputs ++ outputs) = Ok all /\
    e_inputs e = firstn (length inputs) all /\ e_outputs e = skipn (length inputs) all /\
    hd_error (e_outputs e) = Some o /\ h_owner h o = Some parent /\
    find_bounded (h_prod h) (h_init h) (u_nins univ) (u_ncaps h univ parent) (is_function (s_kind s))
                 (map n_id (s_nodes s)) (map n_id univ) (e_inputs e) (e_outputs e)
      = Ok (e_nodes e, e_inits e) /\
    clone_graph (view_of s (e_inputs e) (e_inits e) (e_nodes e) (e_outputs e)) [] = Ok av.
Proof.
  unfold extract.
  destruct (resolve _ _ _ _) as [all|x] eqn:ER; [|discriminate].
  destruct (skipn (length inputs) all) as [|o ovs] eqn:EO; [discriminate|].
  destruct (h_owner h o) as [parent|] eqn:EP; [|discriminate].
  destruct (find_bounded _ _ _ _ _ _ _ _ _) as [[ns inis]|x] eqn:EF; [|discriminate].
  destruct (clone_graph _ _) as [av|x] eqn:EC; [|discriminate].
  intros H. inversion H; subst e; clear H. cbn [e_inputs e_outputs e_nodes e_inits].
  exists all, o, parent, av. rewrite EO. repeat split; auto.
Qed.

(* lookups in the universe never cost fuel for unknown ids *)
Lemma u_weight_univ h univ parent n :
  ~ In n (map n_id univ) -> weight (u_nins univ) (u_ncaps h univ parent) n = 0.
Proof.
  intros Hn. unfold weight, u_nins, u_ncaps.
  assert (E : lookup_node univ n = None).
  { induction univ as [|m r IH]; [reflexivity|]. simpl.
    destruct (Nat.eqb (n_id m) n) eqn:E.
    - exfalso. apply Hn. left. apply Nat.eqb_eq. exact E.
    - apply IH. intros H. apply Hn. right. exact H. }
  rewrite E. reflexivity.
Qed.

(* the values pushed for the nested bodies of a node: read somewhere inside and belonging to parent *)
Lemma node_caps_spec owner shuffle parent n v :
  (forall l x, In x (shuffle l) <-> In x l) ->
  In v (node_caps owner shuffle parent n) <->
  exists S, In S (n_subs n) /\ In v (uses_rec_g S) /\ owner v = Some parent.
Proof.
  intros Hsh. unfold node_caps, collect_external. rewrite in_flat_map. split.
  - intros [S [HS Hv]]. apply (proj1 (Hsh _ _)) in Hv. apply filter_In in Hv. destruct Hv as [Hv Ho].
    apply onat_eqb_eq in Ho. exists S. auto.
  - intros [S [HS [Hv Ho]]]. exists S. split; [exact HS|]. apply (proj2 (Hsh _ _)). apply filter_In.
    split; [exact Hv | apply onat_eqb_eq; exact Ho].
Qed.

(* for a node of a well-scoped top graph these are exactly the values its bodies capture
   (the `captured` of C18_captures_exact) *)
Lemma node_caps_captured owner parent S v :
  scoped_g owner [parent] S ->
  (In v (uses_rec_g S) /\ owner v = Some parent) <-> captured owner S v.
Proof.
  intros Hs. split.
  - intros [Hu Ho]. split; [exact Hu|].
    eapply owner_in_stack_not_inside; [exact Hs | exact Ho | left; reflexivity].
  - intros HC. split; [apply HC|].
    destruct (captured_owner owner S [parent] v Hs HC) as [o [Ho [Hin|[]]]]. congruence.
Qed.

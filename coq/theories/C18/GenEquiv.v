(* C18/GenEquiv.v — the loop body of _find_subgraph_bounded_by_values translated from the source on every run
   (Gen/C18Gen.v) is the hand-written Model.find_step / find_loop that every C18 theorem is about.  A change to the
   source loop changes the generated definitions; these equalities then have to be re-proved (or fail, and the check
   searches for an input). *)
From Coq Require Import List Bool Arith Lia.
From IRV Require Import Base.Exn C18.Model C18.Spec C18.Proofs Gen.C18Gen.
Import ListNotations.

Lemma onat_eqb_eq_local a b : onat_eqb a b = true -> a = b.
Proof.
  destruct a as [x|], b as [y|]; simpl; intros H; try discriminate; [|reflexivity].
  apply Nat.eqb_eq in H. congruence.
Qed.

Lemma fold_ext {A B} (f g : A -> B -> A) (l : list B) (a : A) :
  (forall a b, f a b = g a b) -> fold_left f l a = fold_left g l a.
Proof. intros H. revert a. induction l as [|x l IH]; intros a; simpl; [reflexivity|]. rewrite H. apply IH. Qed.

(* what a sequence of guarded pushes does to the stack *)
Definition pushes (vv l vs : list nat) : list nat := rev (filter (fun u => negb (mem u vv)) l) ++ vs.

Lemma pushes_app vv l1 l2 vs : pushes vv (l1 ++ l2) vs = pushes vv l2 (pushes vv l1 vs).
Proof. unfold pushes. rewrite filter_app, rev_app_distr, app_assoc. reflexivity. Qed.

Definition push_val (st : fstate5) (x : nat) : fstate5 :=
  let '(iv, an, vs, vn, vv) := st in if negb (mem x vv) then (iv, an, x :: vs, vn, vv) else st.
Definition push_oval (st : fstate5) (x : option nat) : fstate5 :=
  match x with Some v => push_val st v | None => st end.

Lemma fold_push_val l : forall iv an vs vn vv,
  fold_left push_val l (iv, an, vs, vn, vv) = (iv, an, pushes vv l vs, vn, vv).
Proof.
  induction l as [|x l IH]; intros iv an vs vn vv; [reflexivity|].
  cbn [fold_left push_val]. unfold pushes. cbn [filter].
  destruct (negb (mem x vv)); rewrite IH; unfold pushes; [|reflexivity].
  cbn [rev]. rewrite <- app_assoc. reflexivity.
Qed.

Lemma fold_push_oval l : forall iv an vs vn vv,
  fold_left push_oval l (iv, an, vs, vn, vv) = (iv, an, pushes vv (somes l) vs, vn, vv).
Proof.
  induction l as [|[x|] l IH]; intros iv an vs vn vv; [reflexivity | |].
  - cbn [fold_left push_oval push_val somes]. unfold pushes. cbn [filter].
    destruct (negb (mem x vv)); rewrite IH; unfold pushes; [|reflexivity].
    cbn [rev]. rewrite <- app_assoc. reflexivity.
  - cbn [fold_left push_oval somes]. apply IH.
Qed.

Ltac pwval :=
  intros [[[[? ?] ?] ?] ?] ?; cbv beta iota zeta; cbn [push_val];
  match goal with |- context [negb (mem ?x ?v)] => destruct (negb (mem x v)) end; reflexivity.

Section Equiv.
  Variable prod : nat -> option nat.
  Variable isinit : nat -> bool.
  Variable nins : nat -> list (option nat).
  Variable nattrs : nat -> list attr.
  Variable collect : nat -> graph -> list nat.
  Variable parent : nat.

  (* the captured values pushed for one attribute / for a node, in the code's order *)
  Definition caps_attr (a : attr) : list nat :=
    match a with
    | AGraph g => collect parent g
    | AGraphs gs => flat_map (collect parent) gs
    | AOther => []
    end.
  Definition ncaps_of (n : nat) : list nat := flat_map caps_attr (nattrs n).

  Definition push_graph (st : fstate5) (g : graph) : fstate5 := fold_left push_val (collect parent g) st.
  Definition push_attr (st : fstate5) (a : attr) : fstate5 :=
    let '(iv, an, vs, vn, vv) := st in (iv, an, pushes vv (caps_attr a) vs, vn, vv).

  Lemma fold_push_graph gs : forall iv an vs vn vv,
    fold_left push_graph gs (iv, an, vs, vn, vv) = (iv, an, pushes vv (flat_map (collect parent) gs) vs, vn, vv).
  Proof.
    induction gs as [|g r IH]; intros iv an vs vn vv; [reflexivity|].
    cbn [fold_left flat_map]. unfold push_graph at 2. rewrite fold_push_val, IH, pushes_app. reflexivity.
  Qed.

  Lemma fold_push_attr l : forall iv an vs vn vv,
    fold_left push_attr l (iv, an, vs, vn, vv) = (iv, an, pushes vv (flat_map caps_attr l) vs, vn, vv).
  Proof.
    induction l as [|a r IH]; intros iv an vs vn vv; [reflexivity|].
    cbn [fold_left flat_map push_attr]. rewrite IH, pushes_app. reflexivity.
  Qed.

  Notation gen_body := (gen_find_body prod isinit nins nattrs collect parent).
  Notation gen_loop := (gen_find_loop prod isinit nins nattrs collect parent).
  Notation gen_find_input_frontier := (gen_input_frontier prod nins).
  Notation gen_find_unspecified := (gen_unspecified isinit).
  Notation step := (find_step prod isinit nins ncaps_of).

  (* all_nodes, which the model does not carry: the visited node is appended when it is new *)
  Definition all_nodes_after (value : nat) (an vn vv : list nat) : list nat :=
    if mem value vv then an
    else match prod value with
         | Some n => if mem n vn then an else an ++ [n]
         | None => an
         end.

  Theorem gen_find_body_is_find_step value iv an vs vn vv :
    gen_body value (iv, an, vs, vn, vv) =
    (f_inits (snd (step value vs (FS vv vn iv))), all_nodes_after value an vn vv,
     fst (step value vs (FS vv vn iv)), f_nodes (snd (step value vs (FS vv vn iv))),
     f_vals (snd (step value vs (FS vv vn iv)))).
  Proof.
    unfold gen_find_body, find_step, all_nodes_after. cbn [f_vals f_nodes f_inits].
    destruct (mem value vv) eqn:E1; [reflexivity|].
    assert (Hvv : set_add value vv = value :: vv) by (unfold set_add; rewrite E1; reflexivity).
    destruct (isinit value); cbv beta iota zeta; rewrite Hvv;
      (destruct (prod value) as [n|]; [|reflexivity]);
      (destruct (mem n vn) eqn:E2; cbn [negb]; [reflexivity|]);
      replace (set_add n vn) with (n :: vn) by (unfold set_add; rewrite E2; reflexivity).
    all: rewrite (fold_ext _ push_oval);
      [| intros [[[[a1 a2] a3] a4] a5] [x|]; cbn [push_oval push_val]; [destruct (negb (mem x a5))|]; reflexivity ].
    all: rewrite fold_push_oval.
    all: rewrite (fold_ext _ push_attr);
      [| intros [[[[a1 a2] a3] a4] a5] [g|gs|];
         cbn [attr_is_graph attr_is_graphs attr_as_graph attr_as_graphs push_attr caps_attr];
         [ rewrite (fold_ext _ push_val); [rewrite fold_push_val; reflexivity | pwval]
         | rewrite (fold_ext _ push_graph);
           [ rewrite fold_push_graph; reflexivity
           | intros [[[[b1 b2] b3] b4] b5] g; unfold push_graph;
             cbv beta iota zeta; rewrite (fold_ext _ push_val); [rewrite !fold_push_val; reflexivity | pwval] ]
         | reflexivity ] ].
    all: rewrite fold_push_attr; unfold list_append; cbn [fst snd f_nodes f_vals f_inits];
      fold (pushes (value :: vv) (somes (nins n) ++ ncaps_of n) vs); rewrite pushes_app; reflexivity.
  Qed.

  Lemma all_nodes_step value iv an vs vn vv :
    (forall n, In n an <-> In n vn) ->
    forall n, In n (all_nodes_after value an vn vv) <-> In n (f_nodes (snd (step value vs (FS vv vn iv)))).
  Proof.
    intros H n. unfold all_nodes_after, find_step. cbn [f_vals f_nodes f_inits].
    destruct (mem value vv); cbn [snd f_nodes]; [apply H|].
    destruct (prod value) as [m|]; cbn [snd f_nodes]; [|apply H].
    destruct (mem m vn); cbn [snd f_nodes]; [apply H|].
    rewrite in_app_iff. simpl. rewrite (H n). tauto.
  Qed.

  (* the translated while loop is Model.find_loop; all_nodes holds exactly the visited nodes *)
  Theorem gen_find_loop_is_find_loop fuel : forall iv an vs vn vv,
    (forall n, In n an <-> In n vn) ->
    match gen_loop fuel (iv, an, vs, vn, vv),
          find_loop prod isinit nins ncaps_of fuel vs (FS vv vn iv) with
    | Some (iv', an', vs', vn', vv'), Some s' =>
        iv' = f_inits s' /\ vn' = f_nodes s' /\ vv' = f_vals s' /\ vs' = [] /\ (forall n, In n an' <-> In n vn')
    | None, None => True
    | _, _ => False
    end.
  Proof.
    induction fuel as [|f IH]; intros iv an vs vn vv Han; cbn [gen_find_loop find_loop]; [exact I|].
    destruct vs as [|value vs].
    - cbn [f_inits f_nodes f_vals]. repeat split; auto; apply Han.
    - rewrite gen_find_body_is_find_step.
      pose proof (all_nodes_step value iv an vs vn vv Han) as Han'.
      destruct (step value vs (FS vv vn iv)) as [vs1 [vv1 vn1 iv1]]. cbn [fst snd f_inits f_nodes f_vals] in *.
      apply IH. exact Han'.
  Qed.

  (* ---------- the frontier validation after the walk *)
  Definition fr_val (V fr : list nat) (x : option nat) : list nat :=
    match x with None => fr | Some v => if in_frontier prod V v then set_add v fr else fr end.

  Lemma In_set_add' w v l : In w (set_add v l) <-> w = v \/ In w l.
  Proof.
    unfold set_add. destruct (mem v l) eqn:E; simpl; [|intuition congruence].
    apply mem_In in E. intuition (subst; auto).
  Qed.

  Lemma fr_val_fold V l : forall fr w,
    In w (fold_left (fr_val V) l fr) <-> In w fr \/ (In w (somes l) /\ in_frontier prod V w = true).
  Proof.
    induction l as [|[v|] r IH]; intros fr w; cbn [fold_left somes fr_val].
    - simpl. tauto.
    - destruct (in_frontier prod V v) eqn:E; rewrite IH; [rewrite In_set_add'|]; simpl.
      + split; [intros [[H|H]|[H H']]; subst; auto | intros [H|[[H|H] H']]; subst; auto].
      + split; [intros [H|[H H']]; auto | intros [H|[[H|H] H']]; subst; auto; congruence].
    - apply IH.
  Qed.

  Lemma fr_node_fold V ns : forall fr w,
    In w (fold_left (fun fr n => fold_left (fr_val V) (nins n) fr) ns fr) <->
    In w fr \/ (In w (flat_map (fun n => somes (nins n)) ns) /\ in_frontier prod V w = true).
  Proof.
    induction ns as [|n r IH]; intros fr w; cbn [fold_left flat_map]; [simpl; tauto|].
    rewrite IH, fr_val_fold, in_app_iff. tauto.
  Qed.

  Lemma gen_input_frontier_spec V w :
    In w (gen_find_input_frontier V) <->
    In w (flat_map (fun n => somes (nins n)) V) /\ in_frontier prod V w = true.
  Proof.
    unfold gen_find_input_frontier.
    rewrite (fold_ext _ (fun fr n => fold_left (fr_val V) (nins n) fr)).
    - rewrite fr_node_fold. simpl. tauto.
    - intros fr n. apply fold_ext. intros fr' [v|]; [|reflexivity].
      unfold fr_val, in_frontier. destruct (prod v) as [p|]; [destruct (negb (mem p V))|]; reflexivity.
  Qed.

  Lemma unspec_fold (c : nat -> bool) l : forall acc w,
    In w (fold_left (fun acc v => if c v then list_append acc v else acc) l acc) <->
    In w acc \/ (In w l /\ c w = true).
  Proof.
    induction l as [|v r IH]; intros acc w; cbn [fold_left]; [simpl; tauto|].
    rewrite IH. destruct (c v) eqn:E; unfold list_append; [rewrite in_app_iff|]; simpl.
    - split; [intros [[H|[H|[]]]|[H H']]; subst; auto | intros [H|[[H|H] H']]; subst; auto].
    - split; [intros [H|[H H']]; auto | intros [H|[[H|H] H']]; subst; auto; congruence].
  Qed.

  (* the translated frontier validation computes Model.unspecified (as a set: only its emptiness is observed —
     a non-empty list raises ValueError); `sorted(..., key=name)` is any permutation *)
  Theorem gen_frontier_is_model sorted_by_key inputs V :
    (forall l x, In x (sorted_by_key l) <-> In x l) ->
    (forall w, In w (gen_find_unspecified sorted_by_key (gen_find_input_frontier V) inputs)
               <-> In w (unspecified prod isinit nins inputs V)) /\
    (gen_find_unspecified sorted_by_key (gen_find_input_frontier V) inputs = []
     <-> unspecified prod isinit nins inputs V = []).
  Proof.
    intros Hs.
    assert (E : forall w, In w (gen_find_unspecified sorted_by_key (gen_find_input_frontier V) inputs)
                          <-> In w (unspecified prod isinit nins inputs V)).
    { intros w.
      change (gen_find_unspecified sorted_by_key (gen_find_input_frontier V) inputs)
        with (fold_left (fun acc v => if negb (mem v inputs) && negb (isinit v) then list_append acc v else acc)
                        (sorted_by_key (gen_find_input_frontier V)) []).
      rewrite unspec_fold, Hs, gen_input_frontier_spec. unfold unspecified. rewrite filter_In.
      rewrite !andb_true_iff. simpl. tauto. }
    split; [exact E|].
    split; intros H.
    - destruct (unspecified prod isinit nins inputs V) as [|x l] eqn:EU; [reflexivity|].
      exfalso. assert (Hx : In x (x :: l)) by (left; reflexivity). apply E in Hx. rewrite H in Hx. exact Hx.
    - destruct (gen_find_unspecified sorted_by_key (gen_find_input_frontier V) inputs) as [|x l] eqn:EU; [reflexivity|].
      exfalso. assert (Hx : In x (x :: l)) by (left; reflexivity). apply E in Hx. rewrite H in Hx. exact Hx.
  Qed.

  (* the model's flattened view of the attributes: captured values of a node = those of all its graphs in order *)
  Lemma ncaps_of_flat n :
    ncaps_of n = flat_map (collect parent) (flat_map attr_graphs (nattrs n)).
  Proof.
    unfold ncaps_of. induction (nattrs n) as [|a r IH]; [reflexivity|].
    cbn [flat_map]. rewrite flat_map_app, IH. f_equal.
    destruct a as [g|gs|]; cbn [caps_attr attr_graphs flat_map]; [rewrite app_nil_r|..]; reflexivity.
  Qed.
End Equiv.

(* ---------- _collect_implicit_usages = Model.collect_implicit (graph_stack: outermost first in Python, the model
   keeps the innermost graph first) *)
Lemma gen_walk owner v : forall stack u,
  py_for_break (fun (u : usages) (g : nat) =>
                  if onat_eqb (owner v) (Some g) then None else Some (add_usage g v u)) stack u
  = walk owner stack v u.
Proof.
  induction stack as [|g r IH]; intros u; cbn [py_for_break walk]; [reflexivity|].
  destruct (onat_eqb (owner v) (Some g)); [reflexivity|].
  destruct (add_usage g v u) as [u'|e]; cbn [res_bind]; [apply IH | reflexivity].
Qed.

Theorem gen_collect_implicit_is_model owner n sub graph_stack u :
  gen_collect_implicit_usages owner (n_ins n) sub graph_stack u
  = collect_implicit owner n sub (rev graph_stack) u.
Proof.
  unfold gen_collect_implicit_usages, collect_implicit. generalize (rev graph_stack) as stack. intros stack.
  revert u. induction (n_ins n) as [|[v|] r IH]; intros u; cbn [py_for_res somes collect_ins]; [reflexivity | |].
  - destruct (onat_eqb (owner v) (Some sub)); [apply IH|].
    rewrite gen_walk. destruct (walk owner stack v u) as [u'|e]; cbn [res_bind]; [apply IH | reflexivity].
  - apply IH.
Qed.

(* ---------- _collect_all_external_values = Model.collect_external, as a set (the Python function returns a set;
   the model is parameterised by its iteration order `shuffle`) *)
Section CollectExternal.
  Variable owner : nat -> option nat.
  Variable parent : nat.

  Definition ce_val (vals : list nat) (x : option nat) : list nat :=
    match x with
    | None => vals
    | Some v => if onat_eqb (owner v) (Some parent) then set_add v vals else vals
    end.
  Definition ce_node (vals : list nat) (n : node) : list nat := fold_left ce_val (n_ins n) vals.

  Lemma In_set_add w v l : In w (set_add v l) <-> w = v \/ In w l.
  Proof.
    unfold set_add. destruct (mem v l) eqn:E; simpl; [|intuition congruence].
    apply mem_In in E. intuition (subst; auto).
  Qed.
  Lemma NoDup_set_add v l : NoDup l -> NoDup (set_add v l).
  Proof.
    intros H. unfold set_add. destruct (mem v l) eqn:E; [exact H|]. constructor; [apply mem_false; exact E | exact H].
  Qed.

  Lemma ce_val_fold l : forall vals,
    NoDup vals ->
    NoDup (fold_left ce_val l vals) /\
    forall w, In w (fold_left ce_val l vals) <-> In w vals \/ (In w (somes l) /\ owner w = Some parent).
  Proof.
    induction l as [|[v|] r IH]; intros vals Hnd; cbn [fold_left somes].
    - split; [exact Hnd|]. intros w. simpl. tauto.
    - cbn [ce_val]. destruct (onat_eqb (owner v) (Some parent)) eqn:E.
      + destruct (IH (set_add v vals) (NoDup_set_add v vals Hnd)) as [H1 H2]. split; [exact H1|].
        intros w. rewrite H2, In_set_add. simpl. apply onat_eqb_eq_local in E.
        split; [intros [[H|H]|[H H']]; subst; auto | intros [H|[[H|H] H']]; subst; auto].
      + destruct (IH vals Hnd) as [H1 H2]. split; [exact H1|]. intros w. rewrite H2. simpl.
        split; [intros [H|[H H']]; auto | intros [H|[[H|H] H']]; auto].
        subst. exfalso. rewrite H' in E. simpl in E. rewrite Nat.eqb_refl in E. discriminate.
    - cbn [ce_val]. apply IH. exact Hnd.
  Qed.

  Lemma ce_node_fold ns : forall vals,
    NoDup vals ->
    NoDup (fold_left ce_node ns vals) /\
    forall w, In w (fold_left ce_node ns vals) <-> In w vals \/ (In w (flat_map uses_n ns) /\ owner w = Some parent).
  Proof.
    induction ns as [|n r IH]; intros vals Hnd; cbn [fold_left flat_map].
    - split; [exact Hnd|]. intros w. simpl. tauto.
    - unfold ce_node at 2 4. destruct (ce_val_fold (n_ins n) vals Hnd) as [H1 H2].
      destruct (IH _ H1) as [H3 H4]. split; [exact H3|].
      intros w. rewrite H4, H2, in_app_iff. unfold uses_n. tauto.
  Qed.

  Theorem gen_collect_external_is_model g :
    NoDup (gen_collect_external owner parent g) /\
    forall shuffle, (forall l x, In x (shuffle l) <-> In x l) ->
      forall w, In w (gen_collect_external owner parent g) <-> In w (collect_external owner shuffle parent g).
  Proof.
    change (gen_collect_external owner parent g) with (fold_left ce_node (rec_nodes_g g) []).
    destruct (ce_node_fold (rec_nodes_g g) [] (NoDup_nil _)) as [H1 H2]. split; [exact H1|].
    intros shuffle Hsh w. rewrite H2. unfold collect_external.
    rewrite (Hsh _ w), filter_In. unfold uses_rec_g.
    split.
    - intros [[]|[H H']]. split; [exact H|]. rewrite H'. simpl. apply Nat.eqb_refl.
    - intros [H H']. right. split; [exact H|]. apply onat_eqb_eq_local. exact H'.
  Qed.
End CollectExternal.

(* C18/Model.v — executable model of
     onnx_ir/_convenience/_extractor.py  (_collect_all_external_values, _find_subgraph_bounded_by_values, extract)
     onnx_ir/analysis/_implicit_usage.py (analyze_implicit_usage, _process_node, _collect_implicit_usages)
     and of the definedness checks of Cloner.clone_graph/clone_node (_cloner.py) reached through GraphView.clone().

   Objects are identified by small naturals (value ids, node ids, graph ids).  A graph is an ordered
   list of nodes, a node carries its inputs (None = omitted optional input), its outputs and the graphs
   held by its GRAPH/GRAPHS attributes in attribute order (nested inductive).  The pointer-valued
   attributes of a Value that the code reads (`value.graph`, `value.producer()`, `value.is_initializer()`,
   `value.name`) are functions `owner/prod/isinit/name` (in the case files: a table observed on the
   implementation).  Definitions only; everything here runs under vm_compute. *)
From Coq Require Import List Bool Arith.
From IRV Require Import Base.Exn.
Import ListNotations.

Inductive node : Type :=
| Node (nid : nat) (ins : list (option nat)) (outs : list nat) (subs : list graph)
with graph : Type :=
| Graph (gid : nat) (ginputs ginits : list nat) (body : list node) (gouts : list nat).

Definition n_id (n : node) := let 'Node i _ _ _ := n in i.
Definition n_ins (n : node) := let 'Node _ i _ _ := n in i.
Definition n_outs (n : node) := let 'Node _ _ o _ := n in o.
Definition n_subs (n : node) := let 'Node _ _ _ s := n in s.
Definition g_id (g : graph) := let 'Graph i _ _ _ _ := g in i.
Definition g_inputs (g : graph) := let 'Graph _ i _ _ _ := g in i.
Definition g_inits (g : graph) := let 'Graph _ _ i _ _ := g in i.
Definition g_body (g : graph) := let 'Graph _ _ _ b _ := g in b.
Definition g_outs (g : graph) := let 'Graph _ _ _ _ o := g in o.

(* node.attributes.values(): a GRAPH attribute, a GRAPHS attribute, anything else *)
Inductive attr : Type := AGraph (g : graph) | AGraphs (gs : list graph) | AOther.
Definition attr_is_graph (a : attr) : bool := match a with AGraph _ => true | _ => false end.
Definition attr_is_graphs (a : attr) : bool := match a with AGraphs _ => true | _ => false end.
Definition attr_as_graph (a : attr) : graph := match a with AGraph g => g | _ => Graph 0 [] [] [] [] end.
Definition attr_as_graphs (a : attr) : list graph := match a with AGraphs gs => gs | _ => [] end.
Definition attr_graphs (a : attr) : list graph :=
  match a with AGraph g => [g] | AGraphs gs => gs | AOther => [] end.
(* initialized_values, all_nodes, value_stack, visited_nodes, visited_values *)
Definition fstate5 : Type := (list nat * list nat * list nat * list nat * list nat)%type.

Definition mem (x : nat) (l : list nat) : bool := existsb (Nat.eqb x) l.
Definition onat_eqb (a b : option nat) : bool := option_eqb Nat.eqb a b.

Fixpoint somes (l : list (option nat)) : list nat :=
  match l with
  | [] => []
  | Some v :: r => v :: somes r
  | None :: r => somes r
  end.

(* Python containers as the translated code (Gen/C18Gen.v) uses them: a set is a duplicate-free list (set.add),
   a list used as a stack keeps its top at the head (append = push, pop = head), list.append adds at the end *)
Definition set_add (x : nat) (s : list nat) : list nat := if mem x s then s else x :: s.
Definition stack_push (x : nat) (s : list nat) : list nat := x :: s.
Definition list_append (l : list nat) (x : nat) : list nat := l ++ [x].

Fixpoint dedup (l : list nat) : list nat :=
  match l with
  | [] => []
  | x :: r => if mem x r then dedup r else x :: dedup r
  end.

(* traversal.RecursiveGraphIterator: a node, then the nodes of each of its graphs, depth first *)
Fixpoint rec_nodes_n (n : node) : list node :=
  n :: match n with
       | Node _ _ _ subs =>
           (fix go (gs : list graph) : list node :=
              match gs with [] => [] | g :: r => rec_nodes_g g ++ go r end) subs
       end
with rec_nodes_g (g : graph) : list node :=
  match g with
  | Graph _ _ _ body _ =>
      (fix go (ns : list node) : list node :=
         match ns with [] => [] | n :: r => rec_nodes_n n ++ go r end) body
  end.

(* the graphs nested in a node / in a graph (the graph itself excluded), depth first, pre-order *)
Fixpoint rec_graphs_n (n : node) : list graph :=
  match n with
  | Node _ _ _ subs =>
      (fix go (gs : list graph) : list graph :=
         match gs with [] => [] | g :: r => (g :: rec_graphs_g g) ++ go r end) subs
  end
with rec_graphs_g (g : graph) : list graph :=
  match g with
  | Graph _ _ _ body _ =>
      (fix go (ns : list node) : list graph :=
         match ns with [] => [] | n :: r => rec_graphs_n n ++ go r end) body
  end.

Definition uses_n (n : node) : list nat := somes (n_ins n).
(* every value read by a node of g or of a graph nested in g *)
Definition uses_rec_g (g : graph) : list nat := flat_map uses_n (rec_nodes_g g).
(* values defined directly in g *)
Definition defs_g (g : graph) : list nat := g_inputs g ++ g_inits g ++ flat_map n_outs (g_body g).

(* ------------------------------------------------------------------ _collect_all_external_values *)
Section Find.
  Variable owner : nat -> option nat.        (* value.graph, as a graph id *)
  Variable prod : nat -> option nat.         (* value.producer(), as a node id *)
  Variable isinit : nat -> bool.             (* value.is_initializer() *)
  (* iteration order of the Python `set` returned by _collect_all_external_values: any order with the
     same elements (hypothesis in the theorems, identity in the case files) *)
  Variable shuffle : list nat -> list nat.

  Definition collect_external (parent : nat) (g : graph) : list nat :=
    shuffle (filter (fun v => onat_eqb (owner v) (Some parent)) (uses_rec_g g)).

  (* what visiting a node pushes (before the `not in visited_values` filter): its inputs in order,
     then, attribute by attribute, the captured values of every graph it holds *)
  Definition node_caps (parent : nat) (n : node) : list nat :=
    flat_map (collect_external parent) (n_subs n).

  (* ---------------------------------------------------------------- _find_subgraph_bounded_by_values
     over abstract nodes: nins i / ncaps i are the inputs / captured values of the node with id i *)
  Variable nins : nat -> list (option nat).
  Variable ncaps : nat -> list nat.

  Record fstate := FS { f_vals : list nat; f_nodes : list nat; f_inits : list nat }.

  (* one iteration of the `while value_stack:` loop after `value = value_stack.pop()`;
     head of the list = top of the stack *)
  Definition find_step (v : nat) (st : list nat) (s : fstate) : list nat * fstate :=
    if mem v (f_vals s) then (st, s)
    else
      let ini := if isinit v then set_add v (f_inits s) else f_inits s in
      let vv := v :: f_vals s in
      match prod v with
      | Some n =>
          if mem n (f_nodes s) then (st, FS vv (f_nodes s) ini)
          else
            let pushed := filter (fun u => negb (mem u vv)) (somes (nins n) ++ ncaps n) in
            (rev pushed ++ st, FS vv (n :: f_nodes s) ini)
      | None => (st, FS vv (f_nodes s) ini)
      end.

  Fixpoint find_loop (fuel : nat) (st : list nat) (s : fstate) : option fstate :=
    match fuel with
    | 0 => None
    | S f =>
        match st with
        | [] => Some s
        | v :: st' => find_loop f (fst (find_step v st' s)) (snd (find_step v st' s))
        end
    end.

  (* input frontier restricted to what the code complains about *)
  Definition in_frontier (vn : list nat) (v : nat) : bool :=
    match prod v with None => true | Some p => negb (mem p vn) end.
  Definition unspecified (inputs vn : list nat) : list nat :=
    filter (fun v => in_frontier vn v && negb (mem v inputs) && negb (isinit v))
           (flat_map (fun n => somes (nins n)) vn).

  (* an upper bound of the number of loop iterations, see Proofs.find_fuel_suffices *)
  Definition weight (n : nat) : nat := length (nins n) + length (ncaps n).
  Definition find_fuel (univ : list nat) (outputs : list nat) : nat :=
    S (length outputs + fold_right (fun n a => weight n + a) 0 univ).

  (* gnodes: ids of the nodes of the graph-like in order (node_index); univ: ids of every node a
     producer pointer can reach.  Result: node ids in original order, initializers (a set). *)
  Definition find_bounded (is_function : bool) (gnodes univ inputs outputs : list nat)
    : res (list nat * list nat) :=
    let ini0 := if is_function then [] else dedup (filter isinit inputs) in
    match find_loop (find_fuel univ outputs) (rev outputs) (FS inputs [] ini0) with
    | None => Raise OtherError                 (* out of fuel: excluded by find_fuel_suffices *)
    | Some s =>
        match unspecified inputs (f_nodes s) with
        | _ :: _ => Raise ValueError
        | [] =>
            (* all_nodes.sort(key=lambda n: node_index[n]) *)
            if forallb (fun n => mem n gnodes) (f_nodes s)
            then Ok (filter (fun n => mem n (f_nodes s)) gnodes, f_inits s)
            else Raise KeyError
        end
    end.
End Find.

(* ------------------------------------------------------------------ Cloner definedness checks
   value_map only grows; a node input / graph output that is not in it raises ValueError / KeyError,
   re-raised as RuntimeError by _capture_error_context. *)
Fixpoint clone_node (n : node) (av : list nat) : res (list nat) :=
  match n with
  | Node _ ins outs subs =>
      if forallb (fun v => mem v av) (somes ins) then
        res_bind ((fix go (gs : list graph) (av : list nat) : res (list nat) :=
                     match gs with
                     | [] => Ok av
                     | g :: r => res_bind (clone_graph g av) (go r)
                     end) subs av)
                 (fun av' => Ok (outs ++ av'))
      else Raise RuntimeError
  end
with clone_graph (g : graph) (av : list nat) : res (list nat) :=
  match g with
  | Graph _ gi gin body gout =>
      res_bind ((fix go (ns : list node) (av : list nat) : res (list nat) :=
                   match ns with
                   | [] => Ok av
                   | n :: r => res_bind (clone_node n av) (go r)
                   end) body (gin ++ gi ++ av))
               (fun av' => if forallb (fun v => mem v av') gout then Ok av' else Raise RuntimeError)
  end.

(* ------------------------------------------------------------------ extract *)
Record vinfo := VI { v_owner : option nat; v_prod : option nat; v_init : bool; v_name : nat }.
Definition heap := list (nat * vinfo).
Fixpoint hget (h : heap) (v : nat) : vinfo :=
  match h with
  | [] => VI None None false 0
  | (k, i) :: r => if Nat.eqb k v then i else hget r v
  end.

Inductive kind := KGraph | KFunction | KView.
Definition is_function (k : kind) := match k with KFunction => true | _ => false end.
Definition is_view (k : kind) := match k with KView => true | _ => false end.

(* the graph-like handed to extract: for a Graph/Function its own id, inputs, initializers and nodes;
   for a GraphView the tuples the view was built with (s_gid unused) *)
Record source := SRC { s_kind : kind; s_gid : nat; s_inputs : list nat; s_inits : list nat;
                       s_nodes : list node }.

Inductive ref := ByObj (v : nat) | ByName (nm : nat).   (* name 0 = None / "" *)

Fixpoint assoc (k : nat) (m : list (nat * nat)) : option nat :=
  match m with
  | [] => None
  | (k', v) :: r => if Nat.eqb k k' then Some v else assoc k r
  end.

(* convenience.create_value_mapping(graph, include_subgraphs=False): first value with a name wins.
   For a Function the mapping is built from function.graph (a Graph), so its initializers are included. *)
Definition add_name (name : nat -> nat) (m : list (nat * nat)) (v : nat) : list (nat * nat) :=
  if Nat.eqb (name v) 0 then m
  else match assoc (name v) m with Some _ => m | None => m ++ [(name v, v)] end.
Definition value_mapping (name : nat -> nat) (s : source) : list (nat * nat) :=
  fold_left (add_name name)
            (s_inits s ++ s_inputs s
             ++ flat_map (fun n => somes (n_ins n) ++ n_outs n) (s_nodes s)) [].

Fixpoint resolve (owner : nat -> option nat) (s : source) (m : list (nat * nat)) (rs : list ref)
  : res (list nat) :=
  match rs with
  | [] => Ok []
  | ByObj v :: r =>
      if negb (is_view (s_kind s)) && negb (onat_eqb (owner v) (Some (s_gid s))) then Raise ValueError
      else res_bind (resolve owner s m r) (fun l => Ok (v :: l))
  | ByName nm :: r =>
      match assoc nm m with
      | None => Raise ValueError
      | Some v => res_bind (resolve owner s m r) (fun l => Ok (v :: l))
      end
  end.

Fixpoint lookup_node (univ : list node) (i : nat) : option node :=
  match univ with
  | [] => None
  | n :: r => if Nat.eqb (n_id n) i then Some n else lookup_node r i
  end.

Record extracted := EX { e_nodes : list nat; e_inits : list nat; e_inputs : list nat; e_outputs : list nat }.

Definition h_owner (h : heap) (v : nat) := v_owner (hget h v).
Definition h_prod (h : heap) (v : nat) := v_prod (hget h v).
Definition h_init (h : heap) (v : nat) := v_init (hget h v).
Definition h_name (h : heap) (v : nat) := v_name (hget h v).
(* node.inputs / the captured values of node.attributes, through a node id *)
Definition u_nins (univ : list node) (i : nat) : list (option nat) :=
  match lookup_node univ i with Some n => n_ins n | None => [] end.
Definition u_ncaps (h : heap) (univ : list node) (parent i : nat) : list nat :=
  match lookup_node univ i with
  | Some n => node_caps (h_owner h) (fun l => l) parent n
  | None => []
  end.
(* the GraphView handed to the cloner *)
Definition view_of (s : source) (ivals inis ns ovals : list nat) : graph :=
  Graph 0 ivals inis (filter (fun n => mem (n_id n) ns) (s_nodes s)) ovals.

(* univ: every node a producer pointer may lead to (all nodes of the underlying graph, any depth) *)
Definition extract (h : heap) (univ : list node) (s : source) (inputs outputs : list ref) : res extracted :=
  let m := value_mapping (h_name h) s in
  (* the validation loop runs over chain(inputs, outputs) *)
  match resolve (h_owner h) s m (inputs ++ outputs) with
  | Raise e => Raise e
  | Ok all =>
      let ivals := firstn (length inputs) all in
      let ovals := skipn (length inputs) all in
      match ovals with
      | [] => Raise ValueError
      | o :: _ =>
          match h_owner h o with
          | None => Raise AssertionError
          | Some parent =>
              match find_bounded (h_prod h) (h_init h) (u_nins univ) (u_ncaps h univ parent)
                                 (is_function (s_kind s))
                                 (map n_id (s_nodes s)) (map n_id univ) ivals ovals with
              | Raise e => Raise e
              | Ok (ns, inis) =>
                  match clone_graph (view_of s ivals inis ns ovals) [] with
                  | Raise e => Raise e
                  | Ok _ => Ok (EX ns inis ivals ovals)
                  end
              end
          end
      end
  end.

(* ------------------------------------------------------------------ analyze_implicit_usage *)
Definition usages := list (nat * list nat).    (* dict[Graph, set[Value]] in insertion order *)

Fixpoint has_key (g : nat) (u : usages) : bool :=
  match u with [] => false | (k, _) :: r => Nat.eqb k g || has_key g r end.
Definition ensure_key (g : nat) (u : usages) : usages := if has_key g u then u else u ++ [(g, [])].
(* implicit_usages[g].add(v) *)
Fixpoint add_usage (g v : nat) (u : usages) : res usages :=
  match u with
  | [] => Raise KeyError
  | (k, l) :: r =>
      if Nat.eqb k g then Ok ((k, if mem v l then l else l ++ [v]) :: r)
      else res_bind (add_usage g v r) (fun r' => Ok ((k, l) :: r'))
  end.

(* `for x in l: <body>` over the usages dict where the body may raise (res) or `break` (None) *)
Fixpoint py_for_res {A} (f : usages -> A -> res usages) (l : list A) (u : usages) : res usages :=
  match l with
  | [] => Ok u
  | x :: r => match f u x with Ok u' => py_for_res f r u' | Raise e => Raise e end
  end.
Fixpoint py_for_break {A} (f : usages -> A -> option (res usages)) (l : list A) (u : usages) : res usages :=
  match l with
  | [] => Ok u
  | x :: r => match f u x with
              | None => Ok u
              | Some (Ok u') => py_for_break f r u'
              | Some (Raise e) => Raise e
              end
  end.

Section Analyze.
  Variable owner : nat -> option nat.

  (* for g in reversed(graph_stack): if g is inp.graph: break; implicit_usages[g].add(inp)
     (stack: innermost graph first) *)
  Fixpoint walk (stack : list nat) (v : nat) (u : usages) : res usages :=
    match stack with
    | [] => Ok u
    | g :: r => if onat_eqb (owner v) (Some g) then Ok u
                else res_bind (add_usage g v u) (walk r v)
    end.

  Fixpoint collect_ins (vs : list nat) (sub : nat) (stack : list nat) (u : usages) : res usages :=
    match vs with
    | [] => Ok u
    | v :: r => if onat_eqb (owner v) (Some sub) then collect_ins r sub stack u
                else res_bind (walk stack v u) (collect_ins r sub stack)
    end.
  Definition collect_implicit (n : node) (sub : nat) (stack : list nat) (u : usages) : res usages :=
    collect_ins (somes (n_ins n)) sub stack u.

  Fixpoint process_node (n : node) (stack : list nat) (u : usages) : res usages :=
    match n with
    | Node _ _ _ subs =>
        (fix go (gs : list graph) (u : usages) : res usages :=
           match gs with
           | [] => Ok u
           | g :: r => res_bind (process_graph g stack u) (go r)
           end) subs u
    end
  with process_graph (g : graph) (stack : list nat) (u : usages) : res usages :=
    match g with
    | Graph gid _ _ body _ =>
        (fix go (ns : list node) (u : usages) : res usages :=
           match ns with
           | [] => Ok u
           | m :: r =>
               res_bind (collect_implicit m gid (gid :: stack) u)
                        (fun u1 => res_bind (process_node m (gid :: stack) u1) (go r))
           end) body (ensure_key gid u)
    end.

  Fixpoint process_nodes (ns : list node) (stack : list nat) (u : usages) : res usages :=
    match ns with
    | [] => Ok u
    | n :: r => res_bind (process_node n stack u) (process_nodes r stack)
    end.

  Definition analyze (root : graph) : res usages := process_nodes (g_body root) [g_id root] [].
End Analyze.

(* ------------------------------------------------------------------ comparison helpers (case files) *)
Definition set_eqb (a b : list nat) : bool :=
  forallb (fun x => mem x b) a && forallb (fun x => mem x a) b.
Definition extracted_eqb (a b : extracted) : bool :=
  list_eqb Nat.eqb (e_nodes a) (e_nodes b) && set_eqb (e_inits a) (e_inits b)
  && list_eqb Nat.eqb (e_inputs a) (e_inputs b) && list_eqb Nat.eqb (e_outputs a) (e_outputs b).
Definition usages_eqb (a b : usages) : bool :=
  list_eqb (fun x y => Nat.eqb (fst x) (fst y) && set_eqb (snd x) (snd y)) a b.

(* ------------------------------------------------------------------ accessors derived from the structure
   value.graph / value.producer() / value.is_initializer() as functions of the graph tree alone: the graph
   that lists the value among its inputs / initializers / node outputs, the node that lists it among its
   outputs, membership in some initializer list.  The correspondence pins these against the accessors of the
   implementation on every generated graph, and extract / analyze are run on the derived table. *)
Definition graphs_of (root : graph) : list graph := root :: rec_graphs_g root.

Fixpoint first_graph (v : nat) (gs : list graph) : option nat :=
  match gs with
  | [] => None
  | g :: r => if mem v (defs_g g) then Some (g_id g) else first_graph v r
  end.
Fixpoint first_node (v : nat) (ns : list node) : option nat :=
  match ns with
  | [] => None
  | n :: r => if mem v (n_outs n) then Some (n_id n) else first_node v r
  end.
Definition d_owner (root : graph) (v : nat) : option nat := first_graph v (graphs_of root).
Definition d_prod (root : graph) (v : nat) : option nat := first_node v (rec_nodes_g root).
Definition d_init (root : graph) (v : nat) : bool := existsb (fun g => mem v (g_inits g)) (graphs_of root).

(* names: value id -> name code (generator data); vs: the values to tabulate *)
Definition d_heap (root : graph) (names : list (nat * nat)) (vs : list nat) : heap :=
  map (fun v => (v, VI (d_owner root v) (d_prod root v) (d_init root v)
                       (match assoc v names with Some c => c | None => 0 end))) vs.

Definition vinfo_eqb (a b : vinfo) : bool :=
  onat_eqb (v_owner a) (v_owner b) && onat_eqb (v_prod a) (v_prod b)
  && Bool.eqb (v_init a) (v_init b) && Nat.eqb (v_name a) (v_name b).
Definition heap_eqb (a b : heap) : bool :=
  list_eqb (fun x y => Nat.eqb (fst x) (fst y) && vinfo_eqb (snd x) (snd y)) a b.

(* structural well-formedness, decidable (evaluated on every generated case):
   node ids are distinct; every definition site agrees with the derived accessors (so every value is defined
   in one graph and produced by one node) *)
Definition nodup_b (l : list nat) : bool := list_eqb Nat.eqb (dedup l) l.
Definition wf_ids_b (root : graph) : bool := nodup_b (map n_id (rec_nodes_g root)).
Definition wf_owner_b (root : graph) : bool :=
  forallb (fun g => forallb (fun v => onat_eqb (d_owner root v) (Some (g_id g))) (defs_g g)) (graphs_of root).
Definition wf_prod_b (root : graph) : bool :=
  forallb (fun n => forallb (fun v => onat_eqb (d_prod root v) (Some (n_id n))) (n_outs n)) (rec_nodes_g root).
Definition wf_gids_b (root : graph) : bool := nodup_b (map g_id (graphs_of root)).
Definition wf_b (root : graph) : bool := wf_ids_b root && wf_gids_b root && wf_owner_b root && wf_prod_b root.

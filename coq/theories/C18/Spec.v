(* C18/Spec.v — declarative specifications the model is proved against (Props only). *)
From Coq Require Import List Bool Arith.
From IRV Require Import Base.Exn C18.Model.
Import ListNotations.

(* ------------------------------------------------------------------ needed region *)
Section Region.
  Variable prod : nat -> option nat.
  Variable nins : nat -> list (option nat).
  Variable ncaps : nat -> list nat.
  Variables inputs outputs : list nat.

  (* node n reads value u: as a direct input or captured by one of its nested bodies *)
  Definition reads (n u : nat) : Prop := In (Some u) (nins n) \/ In u (ncaps n).

  (* the values needed to compute `outputs`, never looking behind a value listed in `inputs` *)
  Inductive Reach : nat -> Prop :=
  | R_out : forall o, In o outputs -> Reach o
  | R_step : forall v n u, Reach v -> ~ In v inputs -> prod v = Some n -> reads n u -> Reach u.

  (* the nodes needed: producers of needed values that are not boundary inputs *)
  Definition NeededNode (n : nat) : Prop := exists v, Reach v /\ ~ In v inputs /\ prod v = Some n.

  (* Reach is the LEAST set containing the outputs and closed under "inputs/captures of the producer
     of a member that is not a boundary input" *)
  Definition closed (P : nat -> Prop) : Prop :=
    (forall o, In o outputs -> P o) /\
    (forall v n u, P v -> ~ In v inputs -> prod v = Some n -> reads n u -> P u).
End Region.

(* ------------------------------------------------------------------ captures of nested graphs *)
(* the graph itself and every graph nested in it *)
Definition graphs_incl (g : graph) : list graph := g :: rec_graphs_g g.

(* `v` is captured by nested graph S: some node of S or of a graph nested in S reads v, and v's graph
   (value.graph) is neither S nor nested in S *)
Definition captured (owner : nat -> option nat) (S : graph) (v : nat) : Prop :=
  In v (uses_rec_g S) /\ forall T, In T (graphs_incl S) -> owner v <> Some (g_id T).

(* scopes: a nested graph is not one of its own ancestors, and every value read by one of its nodes
   belongs to it or to one of the enclosing graphs (`stk`: ids of the enclosing graphs, innermost first) *)
Fixpoint scoped_n (owner : nat -> option nat) (stk : list nat) (n : node) : Prop :=
  match n with
  | Node _ _ _ subs =>
      (fix go (gs : list graph) : Prop :=
         match gs with [] => True | g :: r => scoped_g owner stk g /\ go r end) subs
  end
with scoped_g (owner : nat -> option nat) (stk : list nat) (g : graph) : Prop :=
  match g with
  | Graph gid _ _ body _ =>
      ~ In gid stk /\
      (fix go (ns : list node) : Prop :=
         match ns with
         | [] => True
         | n :: r => (forall v, In v (uses_n n) -> exists o, owner v = Some o /\ In o (gid :: stk))
                     /\ scoped_n owner (gid :: stk) n /\ go r
         end) body
  end.

(* ------------------------------------------------------------------ semantics over uninterpreted operators *)
Section Sem.
  Variable T : Type.                       (* tensors *)
  (* meaning of node n as a function of the values of its inputs (None = omitted) and of the values its
     nested bodies capture; determined by op type, attributes and bodies, which extraction copies verbatim *)
  Variable interp : nat -> list (option T) -> list T -> list T.
  Variable nins : nat -> list (option nat).
  Variable ncaps : nat -> list nat.
  Variable nouts : nat -> list nat.
  Variable dflt : T.

  Definition env := nat -> T.
  Fixpoint pos (v : nat) (l : list nat) : option nat :=
    match l with
    | [] => None
    | x :: r => if Nat.eqb x v then Some 0 else option_map S (pos v r)
    end.
  (* outputs are bound positionally to the results of the operator; everything else is unchanged *)
  Definition exec_node (e : env) (n : nat) : env :=
    let r := interp n (map (option_map e) (nins n)) (map e (ncaps n)) in
    fun v => match pos v (nouts n) with Some i => nth i r dflt | None => e v end.
  Definition exec (e : env) (ns : list nat) : env := fold_left exec_node ns e.
End Sem.

(* C18/Struct.v — induction principle for the nested node/graph type and list-level forms of the
   nested fixpoints of Model.v / Spec.v. *)
From Coq Require Import List Bool Arith Lia.
From IRV Require Import Base.Exn C18.Model C18.Spec.
Import ListNotations.

Section NodeGraphInd.
  Variable P : node -> Prop.
  Variable Q : graph -> Prop.
  Hypothesis HN : forall i ins outs subs, Forall Q subs -> P (Node i ins outs subs).
  Hypothesis HG : forall i gi gin body go, Forall P body -> Q (Graph i gi gin body go).

  Fixpoint node_ind2 (n : node) : P n :=
    match n with
    | Node i ins outs subs =>
        HN i ins outs subs
           ((fix go (gs : list graph) : Forall Q gs :=
               match gs with
               | [] => Forall_nil Q
               | g :: r => Forall_cons g (graph_ind2 g) (go r)
               end) subs)
    end
  with graph_ind2 (g : graph) : Q g :=
    match g with
    | Graph i gi gin body go =>
        HG i gi gin body go
           ((fix gon (ns : list node) : Forall P ns :=
               match ns with
               | [] => Forall_nil P
               | n :: r => Forall_cons n (node_ind2 n) (gon r)
               end) body)
    end.
End NodeGraphInd.

(* ---- traversal *)
Lemma rec_nodes_n_eq n : rec_nodes_n n = n :: flat_map rec_nodes_g (n_subs n).
Proof.
  destruct n as [i ins outs subs]. reflexivity.
Qed.

Lemma rec_nodes_g_eq g : rec_nodes_g g = flat_map rec_nodes_n (g_body g).
Proof.
  destruct g as [i gi gin body go]. simpl.
  induction body as [|n r IH]; [reflexivity|].
  change (flat_map rec_nodes_n (n :: r)) with (rec_nodes_n n ++ flat_map rec_nodes_n r).
  rewrite <- IH. reflexivity.
Qed.

Lemma rec_graphs_n_eq n : rec_graphs_n n = flat_map graphs_incl (n_subs n).
Proof.
  destruct n as [i ins outs subs]. simpl.
  induction subs as [|g r IH]; simpl; [reflexivity|]. rewrite IH. reflexivity.
Qed.

Lemma rec_graphs_g_eq g : rec_graphs_g g = flat_map rec_graphs_n (g_body g).
Proof.
  destruct g as [i gi gin body go]. simpl.
  induction body as [|n r IH]; [reflexivity|].
  change (flat_map rec_graphs_n (n :: r)) with (rec_graphs_n n ++ flat_map rec_graphs_n r).
  rewrite <- IH. reflexivity.
Qed.

Lemma uses_rec_g_eq g :
  uses_rec_g g = flat_map (fun m => uses_n m ++ flat_map uses_rec_g (n_subs m)) (g_body g).
Proof.
  unfold uses_rec_g at 1. rewrite rec_nodes_g_eq.
  induction (g_body g) as [|m r IH]; [reflexivity|].
  simpl. rewrite flat_map_app, IH. f_equal.
  rewrite rec_nodes_n_eq. simpl. f_equal.
  induction (n_subs m) as [|s l IHs]; [reflexivity|].
  simpl. rewrite flat_map_app, IHs. reflexivity.
Qed.

(* ---- scoped *)
Lemma scoped_n_eq owner stk n :
  scoped_n owner stk n <-> Forall (scoped_g owner stk) (n_subs n).
Proof.
  destruct n as [i ins outs subs]. simpl.
  induction subs as [|g r IH]; simpl.
  - split; [constructor | trivial].
  - rewrite IH. split.
    + intros [H1 H2]. constructor; assumption.
    + intros H. inversion H; subst. split; assumption.
Qed.

Lemma scoped_g_eq owner stk g :
  scoped_g owner stk g <->
  ~ In (g_id g) stk /\
  Forall (fun n => (forall v, In v (uses_n n) -> exists o, owner v = Some o /\ In o (g_id g :: stk))
                   /\ scoped_n owner (g_id g :: stk) n) (g_body g).
Proof.
  destruct g as [i gi gin body go]. simpl.
  apply and_iff_compat_l.
  induction body as [|n r IH]; simpl.
  - split; [constructor | trivial].
  - rewrite IH. split.
    + intros [H1 [H2 H3]]. constructor; [split|]; assumption.
    + intros H. inversion H as [|? ? [H1 H2] H3]; subst. tauto.
Qed.

(* ---- analyze *)
Section AnalyzeEq.
  Variable owner : nat -> option nat.

  Fixpoint process_graphs (gs : list graph) (stack : list nat) (u : usages) : res usages :=
    match gs with
    | [] => Ok u
    | g :: r => res_bind (process_graph owner g stack u) (process_graphs r stack)
    end.

  Fixpoint process_body (ns : list node) (gid : nat) (stk : list nat) (u : usages) : res usages :=
    match ns with
    | [] => Ok u
    | m :: r => res_bind (collect_implicit owner m gid stk u)
                         (fun u1 => res_bind (process_node owner m stk u1) (process_body r gid stk))
    end.

  Lemma process_node_eq n stack u :
    process_node owner n stack u = process_graphs (n_subs n) stack u.
  Proof.
    destruct n as [i ins outs subs]. simpl. revert u.
    induction subs as [|g r IH]; intros u; simpl; [reflexivity|].
    destruct (process_graph owner g stack u); simpl; [apply IH | reflexivity].
  Qed.

  Lemma process_graph_eq g stack u :
    process_graph owner g stack u =
    process_body (g_body g) (g_id g) (g_id g :: stack) (ensure_key (g_id g) u).
  Proof.
    destruct g as [i gi gin body go]. simpl. generalize (ensure_key i u). clear u.
    induction body as [|m r IH]; intros u; [reflexivity|].
    cbn [process_body].
    destruct (collect_implicit owner m i (i :: stack) u) as [u1|e]; cbn [res_bind]; [|reflexivity].
    destruct (process_node owner m (i :: stack) u1) as [u2|e]; cbn [res_bind]; [|reflexivity].
    apply IH.
  Qed.
End AnalyzeEq.

(* ---- cloner *)
Fixpoint clone_graphs (gs : list graph) (av : list nat) : res (list nat) :=
  match gs with
  | [] => Ok av
  | g :: r => res_bind (clone_graph g av) (clone_graphs r)
  end.
Fixpoint clone_nodes (ns : list node) (av : list nat) : res (list nat) :=
  match ns with
  | [] => Ok av
  | n :: r => res_bind (clone_node n av) (clone_nodes r)
  end.

Lemma clone_node_eq n av :
  clone_node n av =
  if forallb (fun v => mem v av) (somes (n_ins n))
  then res_bind (clone_graphs (n_subs n) av) (fun av' => Ok (n_outs n ++ av'))
  else Raise RuntimeError.
Proof.
  destruct n as [i ins outs subs]. cbn [clone_node n_ins n_subs n_outs].
  destruct (forallb _ _); reflexivity.
Qed.

Lemma clone_graph_eq g av :
  clone_graph g av =
  res_bind (clone_nodes (g_body g) (g_inits g ++ g_inputs g ++ av))
           (fun av' => if forallb (fun v => mem v av') (g_outs g) then Ok av' else Raise RuntimeError).
Proof.
  destruct g as [i gi gin body go]. cbn [clone_graph g_body g_inits g_inputs g_outs].
  reflexivity.
Qed.

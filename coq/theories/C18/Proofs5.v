(* C18/Proofs5.v — what a successful Cloner.clone_graph guarantees: every value read anywhere in the cloned
   graph was in the value map before, or is defined inside the cloned graph.  Consequence for extract:
   a value captured by a nested body of an extracted node is a listed input, a recorded initializer or
   an output of an extracted node. *)
From Coq Require Import List Bool Arith Lia.
From IRV Require Import Base.Exn C18.Model C18.Spec C18.Struct C18.Proofs C18.Proofs2 C18.Proofs3.
Import ListNotations.

(* values defined by a node (its outputs and everything defined in its bodies) / in a graph, recursively *)
Fixpoint defs_rec_n (n : node) : list nat :=
  match n with
  | Node _ _ outs subs =>
      outs ++ (fix go (gs : list graph) : list nat :=
                 match gs with [] => [] | g :: r => defs_rec_g g ++ go r end) subs
  end
with defs_rec_g (g : graph) : list nat :=
  match g with
  | Graph _ gi gin body _ =>
      gin ++ gi ++ (fix go (ns : list node) : list nat :=
                      match ns with [] => [] | n :: r => defs_rec_n n ++ go r end) body
  end.

Lemma defs_rec_n_eq n : defs_rec_n n = n_outs n ++ flat_map defs_rec_g (n_subs n).
Proof. destruct n as [i ins outs subs]. reflexivity. Qed.
Lemma defs_rec_g_eq g : defs_rec_g g = g_inits g ++ g_inputs g ++ flat_map defs_rec_n (g_body g).
Proof. destruct g as [i gi gin body go]. reflexivity. Qed.

Definition grows (av av' extra : list nat) : Prop := forall v, In v av' <-> In v av \/ In v extra.

Lemma clone_main :
  forall n, forall av av', clone_node n av = Ok av' ->
    (forall v, In v (uses_n n) -> In v av) /\
    (forall S v, In S (n_subs n) -> In v (uses_rec_g S) -> In v av \/ In v (flat_map defs_rec_g (n_subs n))) /\
    grows av av' (defs_rec_n n).
Proof.
  apply (node_ind2
    (fun n => forall av av', clone_node n av = Ok av' ->
       (forall v, In v (uses_n n) -> In v av) /\
       (forall S v, In S (n_subs n) -> In v (uses_rec_g S) -> In v av \/ In v (flat_map defs_rec_g (n_subs n))) /\
       grows av av' (defs_rec_n n))
    (fun g => forall av av', clone_graph g av = Ok av' ->
       (forall v, In v (uses_rec_g g) -> In v av \/ In v (defs_rec_g g)) /\
       grows av av' (defs_rec_g g) /\ (forall o, In o (g_outs g) -> In o av'))).
  - intros i ins outs subs IH av av' H. rewrite clone_node_eq in H. cbn [n_ins n_subs n_outs] in H.
    destruct (forallb (fun v => mem v av) (somes ins)) eqn:EF; [|discriminate].
    rewrite forallb_forall in EF.
    destruct (clone_graphs subs av) as [av1|x] eqn:EG; [|discriminate].
    cbn [res_bind] in H. inversion H; subst av'. clear H.
    (* the fold over the bodies *)
    assert (FOLD : forall gs, Forall (fun g => forall av av', clone_graph g av = Ok av' ->
                       (forall v, In v (uses_rec_g g) -> In v av \/ In v (defs_rec_g g)) /\
                       grows av av' (defs_rec_g g) /\ (forall o, In o (g_outs g) -> In o av')) gs ->
              forall a a', clone_graphs gs a = Ok a' ->
                (forall S v, In S gs -> In v (uses_rec_g S) -> In v a \/ In v (flat_map defs_rec_g gs)) /\
                grows a a' (flat_map defs_rec_g gs)).
    { induction gs as [|g r IHr]; intros HF a a' E.
      - simpl in E. inversion E; subst. split; [intros S v []|]. intros v. simpl. tauto.
      - inversion HF as [|? ? Hg Hr]; subst. cbn [clone_graphs] in E.
        destruct (clone_graph g a) as [a1|x] eqn:E1; [|discriminate]. cbn [res_bind] in E.
        destruct (Hg a a1 E1) as (U1 & G1 & _). destruct (IHr Hr a1 a' E) as (U2 & G2).
        split.
        + intros S v [HS|HS] Hv.
          * subst S. destruct (U1 v Hv) as [H|H]; [left; exact H | right; simpl; apply in_or_app; left; exact H].
          * destruct (U2 S v HS Hv) as [H|H].
            -- apply G1 in H. destruct H as [H|H]; [left; exact H | right; simpl; apply in_or_app; left; exact H].
            -- right. simpl. apply in_or_app. right. exact H.
        + intros v. rewrite (G2 v), (G1 v). simpl. rewrite in_app_iff. tauto. }
    destruct (FOLD subs IH av av1 EG) as (U & G).
    split; [|split].
    + intros v Hv. apply mem_In. apply EF. exact Hv.
    + exact U.
    + intros v. rewrite defs_rec_n_eq. cbn [n_outs n_subs]. rewrite !in_app_iff, (G v). tauto.
  - intros i gi gin body go IH av av' H. rewrite clone_graph_eq in H. cbn [g_body g_inits g_inputs g_outs] in H.
    destruct (clone_nodes body (gin ++ gi ++ av)) as [av1|x] eqn:EN; [|discriminate].
    cbn [res_bind] in H.
    destruct (forallb (fun v => mem v av1) go) eqn:EO; [|discriminate].
    inversion H; subst av'. clear H. rewrite forallb_forall in EO.
    assert (FOLD : forall ns, Forall (fun n => forall av av', clone_node n av = Ok av' ->
                       (forall v, In v (uses_n n) -> In v av) /\
                       (forall S v, In S (n_subs n) -> In v (uses_rec_g S) ->
                                    In v av \/ In v (flat_map defs_rec_g (n_subs n))) /\
                       grows av av' (defs_rec_n n)) ns ->
              forall a a', clone_nodes ns a = Ok a' ->
                (forall m v, In m ns -> In v (uses_n m ++ flat_map uses_rec_g (n_subs m)) ->
                             In v a \/ In v (flat_map defs_rec_n ns)) /\
                grows a a' (flat_map defs_rec_n ns)).
    { induction ns as [|n r IHr]; intros HF a a' E.
      - simpl in E. inversion E; subst. split; [intros m v []|]. intros v. simpl. tauto.
      - inversion HF as [|? ? Hn Hr]; subst. cbn [clone_nodes] in E.
        destruct (clone_node n a) as [a1|x] eqn:E1; [|discriminate]. cbn [res_bind] in E.
        destruct (Hn a a1 E1) as (U1 & U1' & G1). destruct (IHr Hr a1 a' E) as (U2 & G2).
        split.
        + intros m v [Hm|Hm] Hv.
          * subst m. apply in_app_or in Hv. destruct Hv as [Hv|Hv]; [left; apply U1; exact Hv|].
            apply in_flat_map in Hv. destruct Hv as [S [HS Hv]].
            destruct (U1' S v HS Hv) as [H|H]; [left; exact H|].
            right. simpl. apply in_or_app. left. rewrite defs_rec_n_eq. apply in_or_app. right. exact H.
          * destruct (U2 m v Hm Hv) as [H|H].
            -- apply G1 in H. destruct H as [H|H]; [left; exact H | right; simpl; apply in_or_app; left; exact H].
            -- right. simpl. apply in_or_app. right. exact H.
        + intros v. rewrite (G2 v), (G1 v). simpl. rewrite in_app_iff. tauto. }
    destruct (FOLD body IH (gin ++ gi ++ av) av1 EN) as (U & G).
    set (g := Graph i gi gin body go).
    assert (GR : grows av av1 (defs_rec_g g)).
    { intros v. rewrite (G v), defs_rec_g_eq. cbn [g_inits g_inputs g_body g]. rewrite !in_app_iff. tauto. }
    split; [|split].
    + intros v Hv. rewrite uses_rec_g_eq in Hv. cbn [g_body g] in Hv.
      apply in_flat_map in Hv. destruct Hv as [m [Hm Hv]].
      destruct (U m v Hm Hv) as [H|H].
      * apply in_app_or in H. destruct H as [H|H]; [right; rewrite defs_rec_g_eq; apply in_or_app; left; exact H|].
        apply in_app_or in H. destruct H as [H|H]; [|left; exact H].
        right. rewrite defs_rec_g_eq. apply in_or_app. right. apply in_or_app. left. exact H.
      * right. rewrite defs_rec_g_eq. apply in_or_app. right. apply in_or_app. right. exact H.
    + exact GR.
    + intros o Ho. apply mem_In. apply EO. exact Ho.
Qed.

Lemma clone_graph_uses g av av' :
  clone_graph g av = Ok av' ->
  (forall v, In v (uses_rec_g g) -> In v av \/ In v (defs_rec_g g)) /\
  (forall o, In o (g_outs g) -> In o av \/ In o (defs_rec_g g)).
Proof.
  intros H.
  assert (Hn : clone_node (Node 0 [] [] [g]) av = Ok av').
  { rewrite clone_node_eq. cbn [n_ins somes forallb n_subs clone_graphs n_outs]. rewrite H. reflexivity. }
  destruct (clone_main _ av av' Hn) as (_ & U & G).
  split.
  - intros v Hv. destruct (U g v (or_introl eq_refl) Hv) as [Hx|Hx]; [left; exact Hx|].
    right. cbn [n_subs flat_map] in Hx. rewrite app_nil_r in Hx. exact Hx.
  - intros o Ho.
    (* outputs are checked against the final map, which grew by the definitions of g *)
    rewrite clone_graph_eq in H.
    destruct (clone_nodes (g_body g) (g_inits g ++ g_inputs g ++ av)) as [av1|x] eqn:EN; [|discriminate].
    cbn [res_bind] in H. destruct (forallb (fun v => mem v av1) (g_outs g)) eqn:EO; [|discriminate].
    inversion H; subst av'. rewrite forallb_forall in EO. specialize (EO o Ho). apply mem_In in EO.
    apply (proj1 (G o)) in EO. rewrite defs_rec_n_eq in EO. cbn [n_outs n_subs flat_map app] in EO.
    rewrite app_nil_r in EO. exact EO.
Qed.

(* extract returned a graph: every value captured by a body of an extracted node, and every requested
   output, is a listed input, a recorded initializer, an output of an extracted node, or defined inside a
   nested body of an extracted node *)
Theorem extract_ok_captures_bound h univ s inputs outputs e :
  extract h univ s inputs outputs = Ok e ->
  let body := filter (fun n => mem (n_id n) (e_nodes e)) (s_nodes s) in
  forall v,
    (In v (e_outputs e) \/ exists m S, In m body /\ In S (n_subs m) /\ In v (uses_rec_g S)) ->
    In v (e_inputs e) \/ In v (e_inits e) \/
    (exists m, In m body /\ In v (n_outs m)) \/
    (exists m S, In m body /\ In S (n_subs m) /\ In v (defs_rec_g S)).
Proof.
  intros H body v Hv.
  destruct (extract_ok_inv h univ s inputs outputs e H) as (all & o & parent & av & _ & _ & _ & _ & _ & _ & HC).
  destruct (clone_graph_uses _ _ _ HC) as (U & O).
  assert (D : In v (defs_rec_g (view_of s (e_inputs e) (e_inits e) (e_nodes e) (e_outputs e)))).
  { destruct Hv as [Hv|[m [S [Hm [HS Hv]]]]].
    - destruct (O v Hv) as [[]|Hd]. exact Hd.
    - destruct (U v) as [[]|Hd]; [|exact Hd].
      rewrite uses_rec_g_eq. unfold view_of. cbn [g_body]. apply in_flat_map. exists m. split; [exact Hm|].
      apply in_or_app. right. apply in_flat_map. exists S. split; assumption. }
  rewrite defs_rec_g_eq in D. unfold view_of in D. cbn [g_inits g_inputs g_body] in D.
  apply in_app_or in D. destruct D as [D|D]; [right; left; exact D|].
  apply in_app_or in D. destruct D as [D|D]; [left; exact D|].
  apply in_flat_map in D. destruct D as [m [Hm D]]. rewrite defs_rec_n_eq in D.
  apply in_app_or in D. destruct D as [D|D].
  - right. right. left. exists m. split; assumption.
  - right. right. right. apply in_flat_map in D. destruct D as [S [HS D]]. exists m, S. auto.
Qed.

(* C18/Proofs7.v — nodes with subgraphs: a recursive semantics of nested bodies (uninterpreted control
   operators applied to the functions denoted by the bodies) is an instance of the `interp n inputs captures`
   abstraction used by C18_semantics: a node's result depends on the outer environment only through its own
   inputs and the values its bodies (any depth) read. *)
From Coq Require Import List Bool Arith Lia.
From IRV Require Import Base.Exn C18.Model C18.Spec C18.Struct C18.Proofs C18.Proofs3 C18.Proofs4 C18.Proofs5 C18.Proofs6.
Import ListNotations.

(* every value a graph / node reads from the environment: node inputs and graph outputs, any depth *)
Fixpoint reads_n (n : node) : list nat :=
  match n with
  | Node _ ins _ subs =>
      somes ins ++ (fix go (gs : list graph) : list nat :=
                      match gs with [] => [] | g :: r => reads_g g ++ go r end) subs
  end
with reads_g (g : graph) : list nat :=
  match g with
  | Graph _ _ _ body gout =>
      gout ++ (fix go (ns : list node) : list nat :=
                 match ns with [] => [] | n :: r => reads_n n ++ go r end) body
  end.

Lemma reads_n_eq n : reads_n n = uses_n n ++ flat_map reads_g (n_subs n).
Proof. destruct n as [i ins outs subs]. reflexivity. Qed.
Lemma reads_g_eq g : reads_g g = g_outs g ++ flat_map reads_n (g_body g).
Proof. destruct g as [i gi gin body go]. reflexivity. Qed.

Section Nested.
  Variable T : Type.
  Variable dflt : T.
  (* control operator of node i: input values and, for each body, the function it denotes *)
  Variable op : nat -> list (option T) -> list (list T -> list T) -> list T.
  Hypothesis op_ext : forall i ins bs bs',
    Forall2 (fun f g : list T -> list T => forall a, f a = g a) bs bs' -> op i ins bs = op i ins bs'.

  Definition bindl (e : nat -> T) (vs : list nat) (xs : list T) : nat -> T :=
    fun v => match pos v vs with Some i => nth i xs dflt | None => e v end.

  (* a node binds its outputs; a graph denotes a function of its input values, evaluated in the
     environment of the enclosing scopes (nested initializers are part of that environment) *)
  Fixpoint den_n (n : node) (e : nat -> T) : nat -> T :=
    match n with
    | Node i ins outs subs =>
        bindl e outs
          (op i (map (option_map e) ins)
              ((fix go (gs : list graph) : list (list T -> list T) :=
                  match gs with [] => [] | g :: r => den_g g e :: go r end) subs))
    end
  with den_g (g : graph) (e : nat -> T) : list T -> list T :=
    match g with
    | Graph _ gi _ body gout =>
        fun args =>
          map ((fix run (ns : list node) (e : nat -> T) : nat -> T :=
                  match ns with [] => e | m :: r => run r (den_n m e) end) body (bindl e gi args)) gout
    end.

  Fixpoint den_run (ns : list node) (e : nat -> T) : nat -> T :=
    match ns with [] => e | m :: r => den_run r (den_n m e) end.

  Lemma den_n_eq n e :
    den_n n e = bindl e (n_outs n) (op (n_id n) (map (option_map e) (n_ins n)) (map (fun g => den_g g e) (n_subs n))).
  Proof. destruct n as [i ins outs subs]. reflexivity. Qed.
  Lemma den_g_eq g e args :
    den_g g e args = map (den_run (g_body g) (bindl e (g_inputs g) args)) (g_outs g).
  Proof. destruct g as [i gi gin body go]. reflexivity. Qed.

  Definition agree (R : list nat) (e e' : nat -> T) : Prop := forall v, In v R -> e v = e' v.

  Lemma bindl_agree R e e' vs xs : agree R e e' -> agree R (bindl e vs xs) (bindl e' vs xs).
  Proof. intros H v Hv. unfold bindl. destruct (pos v vs); [reflexivity | apply H; exact Hv]. Qed.

  (* evaluation only looks at the values in reads_* *)
  Definition Pn (n : node) : Prop :=
    forall R e e', incl (reads_n n) R -> agree R e e' -> agree R (den_n n e) (den_n n e').
  Definition Qg (g : graph) : Prop :=
    forall R e e', incl (reads_g g) R -> agree R e e' -> forall a, den_g g e a = den_g g e' a.

  Lemma case_n i ins outs subs : Forall Qg subs -> Pn (Node i ins outs subs).
  Proof.
    intros IH R e e' Hincl Hag. rewrite !den_n_eq. cbn [n_outs n_id n_ins n_subs].
    rewrite reads_n_eq in Hincl. cbn [n_subs] in Hincl. unfold uses_n in Hincl. cbn [n_ins] in Hincl.
    assert (E1 : map (option_map e) ins = map (option_map e') ins).
    { apply map_ext_in. intros [u|] Hu; [|reflexivity]. simpl. f_equal. apply Hag. apply Hincl.
      apply in_or_app. left. apply In_somes. exact Hu. }
    assert (E2 : op i (map (option_map e) ins) (map (fun g => den_g g e) subs)
                 = op i (map (option_map e') ins) (map (fun g => den_g g e') subs)).
    { rewrite E1. apply op_ext.
      assert (Hs : incl (flat_map reads_g subs) R) by (intros x Hx; apply Hincl; apply in_or_app; right; exact Hx).
      clear Hincl E1. induction subs as [|g r IHr]; [constructor|].
      inversion IH as [|? ? Hg Hr]; subst. simpl. constructor.
      - apply (Hg R e e'); [|exact Hag]. intros x Hx. apply Hs. simpl. apply in_or_app. left. exact Hx.
      - apply IHr; [exact Hr|]. intros x Hx. apply Hs. simpl. apply in_or_app. right. exact Hx. }
    rewrite E2. apply bindl_agree. exact Hag.
  Qed.

  Lemma case_g i gi gin body go : Forall Pn body -> Qg (Graph i gi gin body go).
  Proof.
    intros IH R e e' Hincl Hag a. rewrite !den_g_eq. cbn [g_body g_inputs g_outs].
    rewrite reads_g_eq in Hincl. cbn [g_outs g_body] in Hincl.
    assert (Hrun : forall ns, Forall Pn ns -> incl (flat_map reads_n ns) R ->
                     forall x x', agree R x x' -> agree R (den_run ns x) (den_run ns x')).
    { induction ns as [|m r IHr]; intros HF Hs x x' Hx; [exact Hx|].
      inversion HF as [|? ? Hm Hr]; subst. cbn [den_run]. apply IHr; [exact Hr | |].
      - intros y Hy. apply Hs. simpl. apply in_or_app. right. exact Hy.
      - apply Hm; [|exact Hx]. intros y Hy. apply Hs. simpl. apply in_or_app. left. exact Hy. }
    apply map_ext_in. intros o Ho.
    apply (Hrun body IH); [| apply bindl_agree; exact Hag | apply Hincl; apply in_or_app; left; exact Ho].
    intros y Hy. apply Hincl. apply in_or_app. right. exact Hy.
  Qed.

  Lemma den_agree n : Pn n.
  Proof. exact (node_ind2 Pn Qg case_n case_g n). Qed.
  Lemma den_agree_g g : Qg g.
  Proof. exact (graph_ind2 Pn Qg case_n case_g g). Qed.

  (* ---- instance of the abstraction: captures `caps i` listed per node id, everything else read inside
     the bodies taken from a fixed ambient environment `amb` *)
  Variable univ : list node.
  Variable caps : nat -> list nat.
  Variable amb : nat -> T.

  Definition env_of (i : nat) (capvals : list T) : nat -> T :=
    fun v => match pos v (caps i) with Some k => nth k capvals dflt | None => amb v end.

  Definition interp_nested (i : nat) (invals : list (option T)) (capvals : list T) : list T :=
    match lookup_node univ i with
    | Some n => op i invals (map (fun g => den_g g (env_of i capvals)) (n_subs n))
    | None => []
    end.

  Lemma env_of_caps i e v : In v (caps i) -> env_of i (map e (caps i)) v = e v.
  Proof.
    intros Hv. unfold env_of. destruct (pos v (caps i)) as [k|] eqn:Ep.
    - revert k Ep. induction (caps i) as [|x l IH]; intros k Ep; [destruct Hv|].
      simpl in Ep. destruct (Nat.eqb x v) eqn:Ex.
      + inversion Ep; subst. apply Nat.eqb_eq in Ex. subst. reflexivity.
      + destruct (pos v l) as [k'|] eqn:Ep'; [|discriminate]. simpl in Ep. inversion Ep; subst.
        simpl. apply IH; [|reflexivity]. destruct Hv as [Hv|Hv]; [|exact Hv].
        apply Nat.eqb_neq in Ex. congruence.
    - exfalso. apply (proj1 (pos_None v (caps i)) Ep). exact Hv.
  Qed.

  (* one node: the recursive semantics is the abstract exec_node with interp_nested, for every environment
     that coincides with `amb` on what the bodies read and the node does not capture *)
  Lemma den_n_is_exec_node m e :
    lookup_node univ (n_id m) = Some m ->
    (forall v, In v (flat_map reads_g (n_subs m)) -> In v (caps (n_id m)) \/ e v = amb v) ->
    forall v, den_n m e v =
              exec_node T interp_nested (u_nins univ) caps (fun i => match lookup_node univ i with
                                                                     | Some n => n_outs n | None => [] end)
                        dflt e (n_id m) v.
  Proof.
    intros Hl Hamb v. rewrite den_n_eq. unfold exec_node, bindl, interp_nested, u_nins. rewrite Hl.
    destruct (pos v (n_outs m)); [|reflexivity]. f_equal. apply op_ext.
    induction (n_subs m) as [|g r IHr]; [constructor|]. simpl. constructor.
    - intros a.
      apply (den_agree_g g (reads_g g) e (env_of (n_id m) (map e (caps (n_id m))))); [apply incl_refl|].
      intros x Hx. destruct (in_dec Nat.eq_dec x (caps (n_id m))) as [Hc|Hc].
      + symmetry. apply env_of_caps. exact Hc.
      + destruct (Hamb x) as [H|H]; [simpl; apply in_or_app; left; exact Hx | contradiction |].
        unfold env_of. apply pos_None in Hc. rewrite Hc. exact H.
    - apply IHr. intros x Hx. apply Hamb. simpl. apply in_or_app. right. exact Hx.
  Qed.

  Notation nouts := (fun i => match lookup_node univ i with Some n => n_outs n | None => [] end).
  Notation aexec := (exec T interp_nested (u_nins univ) caps nouts dflt).
  Notation aexec_node := (exec_node T interp_nested (u_nins univ) caps nouts dflt).

  Lemma den_run_agree ns : forall R x x', incl (flat_map reads_n ns) R -> agree R x x' ->
                                          agree R (den_run ns x) (den_run ns x').
  Proof.
    induction ns as [|m r IHr]; intros R x x' Hs Hx; [exact Hx|].
    cbn [den_run]. apply IHr.
    - intros y Hy. apply Hs. simpl. apply in_or_app. right. exact Hy.
    - apply den_agree; [|exact Hx]. intros y Hy. apply Hs. simpl. apply in_or_app. left. exact Hy.
  Qed.

  Lemma den_run_ext ns x x' : (forall w, x w = x' w) -> forall v, den_run ns x v = den_run ns x' v.
  Proof.
    intros H v. apply (den_run_agree ns (v :: flat_map reads_n ns) x x').
    - intros y Hy. right. exact Hy.
    - intros w _. apply H.
    - left. reflexivity.
  Qed.

  (* a list of nodes: the recursive semantics is the abstract exec over their ids *)
  Lemma den_run_is_exec ns :
    (forall m, In m ns -> lookup_node univ (n_id m) = Some m) ->
    (forall m m' v, In m ns -> In m' ns -> In v (flat_map reads_g (n_subs m)) ->
                    ~ In v (caps (n_id m)) -> ~ In v (n_outs m')) ->
    forall e, (forall m v, In m ns -> In v (flat_map reads_g (n_subs m)) -> In v (caps (n_id m)) \/ e v = amb v) ->
    forall v, den_run ns e v = aexec e (map n_id ns) v.
  Proof.
    intros Hl Hst. 
    assert (GEN : forall r, incl r ns -> forall e,
              (forall m v, In m r -> In v (flat_map reads_g (n_subs m)) -> In v (caps (n_id m)) \/ e v = amb v) ->
              forall v, den_run r e v = aexec e (map n_id r) v).
    { induction r as [|m r IHr]; intros Hincl e He v; [reflexivity|].
      assert (Hm : In m ns) by (apply Hincl; left; reflexivity).
      cbn [den_run map]. unfold exec. cbn [fold_left]. fold (aexec (aexec_node e (n_id m)) (map n_id r)).
      rewrite (den_run_ext r (den_n m e) (aexec_node e (n_id m))).
      - apply IHr; [intros y Hy; apply Hincl; right; exact Hy|].
        intros m' w Hm' Hw.
        destruct (in_dec Nat.eq_dec w (caps (n_id m'))) as [Hc|Hc]; [left; exact Hc|]. right.
        assert (Hm'' : In m' ns) by (apply Hincl; right; exact Hm').
        rewrite exec_node_other.
        + destruct (He m' w (or_intror Hm') Hw) as [H|H]; [contradiction | exact H].
        + rewrite (Hl m Hm). apply (Hst m' m w Hm'' Hm Hw Hc).
      - intros w. apply den_n_is_exec_node; [apply Hl; exact Hm|].
        intros x Hx. apply (He m x (or_introl eq_refl) Hx). }
    intros e He v. apply (GEN ns (incl_refl ns) e He v).
  Qed.
End Nested.

Lemma map_filter_id (p : nat -> bool) (l : list node) :
  map n_id (filter (fun n => p (n_id n)) l) = filter p (map n_id l).
Proof.
  induction l as [|x l IH]; [reflexivity|]. simpl. destruct (p (n_id x)); simpl; rewrite IH; reflexivity.
Qed.

(* C18_semantics with the bodies evaluated recursively *)
Section ExtractNested.
  Variable T : Type.
  Variable dflt : T.
  Variable op : nat -> list (option T) -> list (list T -> list T) -> list T.
  Hypothesis op_ext : forall i ins bs bs',
    Forall2 (fun f g : list T -> list T => forall a, f a = g a) bs bs' -> op i ins bs = op i ins bs'.
  Variable h : heap.
  Variable univ : list node.
  Variable s : source.
  Variables inputs outputs : list ref.
  Variable e : extracted.
  Variable parent : nat.
  Variables e0 e1 : nat -> T.

  Let gn := map n_id (s_nodes s).
  Let ncaps := u_ncaps h univ parent.
  Let xnodes := filter (fun n => mem (n_id n) (e_nodes e)) (s_nodes s).   (* the nodes of the extracted graph *)
  Notation run := (den_run T dflt op).

  Hypothesis Hex : extract h univ s inputs outputs = Ok e.
  Hypothesis Hparent : exists o, hd_error (e_outputs e) = Some o /\ h_owner h o = Some parent.
  Hypothesis Hnd : NoDup gn.
  Hypothesis Hlookup : forall m, In m (s_nodes s) -> lookup_node univ (n_id m) = Some m.
  Hypothesis Hprod : forall v n, In n gn -> (h_prod h v = Some n <-> In v (u_nouts univ n)).
  Hypothesis Htopo : forall l1 n l2, gn = l1 ++ n :: l2 ->
                       forall u p, reads (u_nins univ) ncaps n u -> h_prod h u = Some p -> In p l1.
  Hypothesis Hinner : forall m S v, In m (s_nodes s) -> In S (n_subs m) -> In v (defs_rec_g S) ->
                                    h_owner h v <> Some parent.
  Hypothesis Houts : forall o, In o (e_outputs e) -> h_owner h o = Some parent.
  (* outputs of the source's nodes belong to the parent graph; what a body reads from the parent graph is
     read by one of its nodes (a nested graph does not return a parent value directly) *)
  Hypothesis Hnode_outs : forall m v, In m (s_nodes s) -> In v (n_outs m) -> h_owner h v = Some parent.
  Hypothesis Hbody_reads : forall m v, In m (s_nodes s) -> In v (flat_map reads_g (n_subs m)) ->
                                       h_owner h v = Some parent -> In v (ncaps (n_id m)).
  (* start environments: inputs bound to the source's values, initializers to the source's tensors, and the
     same ambient environment outside the parent graph (nested initializers, outer scopes) *)
  Hypothesis Hin : forall v, In v (e_inputs e) -> e1 v = run (s_nodes s) e0 v.
  Hypothesis Hini : forall v, In v (e_inits e) -> e1 v = e0 v.
  Hypothesis Hamb : forall v, h_owner h v <> Some parent -> e1 v = e0 v.

  Lemma owner_dec v : {h_owner h v = Some parent} + {h_owner h v <> Some parent}.
  Proof. destruct (h_owner h v) as [o|]; [|right; discriminate].
         destruct (Nat.eq_dec o parent); [left; congruence | right; congruence]. Qed.

  Lemma stable_hyp ns : incl ns (s_nodes s) ->
    forall m m' v, In m ns -> In m' ns -> In v (flat_map reads_g (n_subs m)) ->
                   ~ In v (ncaps (n_id m)) -> ~ In v (n_outs m').
  Proof.
    intros Hincl m m' v Hm Hm' Hv Hc Ho. apply Hc. apply Hbody_reads; [apply Hincl; exact Hm | exact Hv|].
    apply (Hnode_outs m'); [apply Hincl; exact Hm' | exact Ho].
  Qed.

  Lemma start_hyp ns x : incl ns (s_nodes s) -> (forall v, h_owner h v <> Some parent -> x v = e0 v) ->
    forall m v, In m ns -> In v (flat_map reads_g (n_subs m)) -> In v (ncaps (n_id m)) \/ x v = e0 v.
  Proof.
    intros Hincl Hx m v Hm Hv. destruct (owner_dec v) as [Ho|Ho].
    - left. apply Hbody_reads; [apply Hincl; exact Hm | exact Hv | exact Ho].
    - right. apply Hx. exact Ho.
  Qed.

  Theorem extract_semantics_nested :
    forall o, In o (e_outputs e) -> run xnodes e1 o = run (s_nodes s) e0 o.
  Proof.
    intros o Ho.
    assert (Hxi : incl xnodes (s_nodes s)) by (intros x Hx; apply filter_In in Hx; apply Hx).
    assert (SRC : forall v, run (s_nodes s) e0 v =
                    exec T (interp_nested T dflt op univ ncaps e0) (u_nins univ) ncaps (u_nouts univ) dflt e0 gn v).
    { intros v. apply (den_run_is_exec T dflt op op_ext univ ncaps e0 (s_nodes s) Hlookup
                         (stable_hyp (s_nodes s) (incl_refl _)) e0).
      apply start_hyp; [apply incl_refl | reflexivity]. }
    rewrite SRC.
    rewrite (den_run_is_exec T dflt op op_ext univ ncaps e0 xnodes
               (fun m Hm => Hlookup m (Hxi m Hm)) (stable_hyp xnodes Hxi) e1 (start_hyp xnodes e1 Hxi Hamb)).
    assert (Hids : map n_id xnodes = e_nodes e).
    { unfold xnodes. rewrite (map_filter_id (fun i => mem i (e_nodes e))).
      destruct (extract_ok_inv h univ s inputs outputs e Hex)
        as (all & o' & parent' & av & _ & _ & _ & Ho' & Hp' & Hf & _).
      destruct Hparent as [o1 [Ho1 Hp1]]. assert (parent' = parent) by congruence. subst parent'.
      destruct (find_bounded_exact _ _ _ _ _ _ _ _ _ (u_weight_univ h univ parent) _ _ Hf) as (H1 & _).
      symmetry. exact H1. }
    rewrite Hids.
    apply (extract_semantics T (interp_nested T dflt op univ ncaps e0) dflt h univ s inputs outputs e parent e0 e1
             Hex Hparent Hnd Hlookup Hprod Htopo Hinner Houts); [|exact Hini | exact Ho].
    intros v Hv. rewrite (Hin v Hv). apply SRC.
  Qed.
End ExtractNested.

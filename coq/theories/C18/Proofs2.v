(* C18/Proofs2.v — analyze_implicit_usage maps every nested graph to exactly its captured values. *)
From Coq Require Import List Bool Arith Lia.
From IRV Require Import Base.Exn C18.Model C18.Spec C18.Struct C18.Proofs.
Import ListNotations.

(* dict lookup *)
Fixpoint get (u : usages) (k : nat) : list nat :=
  match u with
  | [] => []
  | (k', l) :: r => if Nat.eqb k' k then l else get r k
  end.

Lemma onat_eqb_eq a b : onat_eqb a b = true <-> a = b.
Proof.
  destruct a as [x|], b as [y|]; simpl; split; intros H; try discriminate; try reflexivity.
  - apply Nat.eqb_eq in H. congruence.
  - inversion H. apply Nat.eqb_refl.
Qed.

Lemma has_key_ensure k g u : has_key k (ensure_key g u) = true <-> has_key k u = true \/ k = g.
Proof.
  unfold ensure_key. destruct (has_key g u) eqn:E.
  - split; [auto|]. intros [H|H]; [exact H | subst; exact E].
  - induction u as [|[k' l] r IH]; simpl.
    + rewrite orb_false_r, Nat.eqb_eq. split; [intros; right; congruence | intros [H|H]; [discriminate | congruence]].
    + simpl in E. apply orb_false_iff in E. destruct E as [E1 E2].
      rewrite !orb_true_iff, (IH E2). tauto.
Qed.

Lemma get_ensure k g u : get (ensure_key g u) k = get u k.
Proof.
  unfold ensure_key. destruct (has_key g u); [reflexivity|].
  induction u as [|[k' l] r IH]; simpl.
  - destruct (Nat.eqb g k); reflexivity.
  - rewrite IH. reflexivity.
Qed.

Lemma add_usage_ok g v u :
  has_key g u = true ->
  exists u', add_usage g v u = Ok u' /\
    (forall k, has_key k u' = has_key k u) /\
    (forall k w, In w (get u' k) <-> In w (get u k) \/ (k = g /\ w = v)).
Proof.
  induction u as [|[k' l] r IH]; simpl; [discriminate|].
  destruct (Nat.eqb k' g) eqn:E.
  - intros _. apply Nat.eqb_eq in E. subst k'. eexists. split; [reflexivity|]. split.
    + intros k. reflexivity.
    + intros k w. simpl. destruct (Nat.eqb g k) eqn:Ek.
      * apply Nat.eqb_eq in Ek. subst k.
        destruct (mem v l) eqn:Em.
        -- apply mem_In in Em. split; [auto|]. intros [H|[_ H]]; [exact H | subst; exact Em].
        -- rewrite in_app_iff. simpl. split.
           ++ intros [H|[H|[]]]; auto.
           ++ intros [H|[_ H]]; auto.
      * apply Nat.eqb_neq in Ek. split; [auto|]. intros [H|[H _]]; [exact H | congruence].
  - simpl. intros H. destruct (IH H) as [r' [E1 [E2 E3]]]. rewrite E1. simpl.
    eexists. split; [reflexivity|]. split.
    + intros k. simpl. rewrite E2. reflexivity.
    + intros k w. simpl. destruct (Nat.eqb k' k) eqn:Ek.
      * apply Nat.eqb_eq in Ek. subst k. apply Nat.eqb_neq in E.
        split; [auto|]. intros [H0|[H0 _]]; [exact H0 | congruence].
      * apply E3.
Qed.

Section Captures.
  Variable owner : nat -> option nat.

  (* the graphs the walk up the stack adds v to: those before v's own graph *)
  Fixpoint walk_keys (stack : list nat) (v : nat) : list nat :=
    match stack with
    | [] => []
    | g :: r => if onat_eqb (owner v) (Some g) then [] else g :: walk_keys r v
    end.

  Lemma walk_keys_removelast stack v o :
    owner v = Some o -> In o stack -> incl (walk_keys stack v) (removelast stack).
  Proof.
    intros Ho. induction stack as [|g r IH]; [intros []|].
    intros Hin. cbn [walk_keys]. destruct (onat_eqb (owner v) (Some g)) eqn:E; [intros x []|].
    destruct Hin as [H|H].
    - subst g. rewrite Ho in E. simpl in E. rewrite Nat.eqb_refl in E. discriminate.
    - destruct r as [|g' r']; [destruct H|].
      change (removelast (g :: g' :: r')) with (g :: removelast (g' :: r')).
      intros x [Hx|Hx]; [left; exact Hx | right; apply IH; assumption].
  Qed.

  Lemma walk_ok stack v u :
    (forall k, In k (walk_keys stack v) -> has_key k u = true) ->
    exists u', walk owner stack v u = Ok u' /\
      (forall k, has_key k u' = has_key k u) /\
      (forall k w, In w (get u' k) <-> In w (get u k) \/ (w = v /\ In k (walk_keys stack v))).
  Proof.
    revert u. induction stack as [|g r IH]; intros u Hk; cbn [walk walk_keys] in *.
    - exists u. split; [reflexivity|]. split; [reflexivity|]. intros k w. simpl. tauto.
    - destruct (onat_eqb (owner v) (Some g)) eqn:E.
      + exists u. split; [reflexivity|]. split; [reflexivity|]. intros k w. simpl. tauto.
      + destruct (add_usage_ok g v u (Hk g (or_introl eq_refl))) as [u1 [E1 [K1 G1]]].
        rewrite E1. cbn [res_bind].
        destruct (IH u1) as [u2 [E2 [K2 G2]]].
        { intros k Hin. rewrite K1. apply Hk. right. exact Hin. }
        exists u2. split; [exact E2|]. split.
        * intros k. rewrite K2, K1. reflexivity.
        * intros k w. rewrite G2, G1. simpl. intuition (subst; auto).
  Qed.

  Lemma collect_ins_ok vs sub rest u :
    (forall v k, In v vs -> In k (walk_keys (sub :: rest) v) -> has_key k u = true) ->
    exists u', collect_ins owner vs sub (sub :: rest) u = Ok u' /\
      (forall k, has_key k u' = has_key k u) /\
      (forall k w, In w (get u' k) <-> In w (get u k) \/ (In w vs /\ In k (walk_keys (sub :: rest) w))).
  Proof.
    revert u. induction vs as [|v r IH]; intros u Hk; cbn [collect_ins].
    - exists u. split; [reflexivity|]. split; [reflexivity|]. intros k w. simpl. tauto.
    - destruct (onat_eqb (owner v) (Some sub)) eqn:E.
      + destruct (IH u) as [u1 [E1 [K1 G1]]].
        { intros v' k Hv. apply Hk. right. exact Hv. }
        exists u1. split; [exact E1|]. split; [exact K1|].
        intros k w. rewrite G1. split.
        * intros [H|[H1 H2]]; [left; exact H | right; split; [right; exact H1 | exact H2]].
        * intros [H|[[H1|H1] H2]]; [left; exact H | | right; split; assumption].
          subst w. cbn [walk_keys] in H2. rewrite E in H2. destruct H2.
      + destruct (walk_ok (sub :: rest) v u) as [u1 [E1 [K1 G1]]].
        { intros k. apply Hk. left. reflexivity. }
        rewrite E1. cbn [res_bind].
        destruct (IH u1) as [u2 [E2 [K2 G2]]].
        { intros v' k Hv Hin. rewrite K1. apply (Hk v'); [right; exact Hv | exact Hin]. }
        exists u2. split; [exact E2|]. split.
        * intros k. rewrite K2, K1. reflexivity.
        * intros k w. rewrite G2, G1. simpl. intuition (subst; auto).
  Qed.

  Notation captured := (captured owner).

  (* what processing nested graph S under the enclosing stack contributes to key k *)
  Definition Contrib (S : graph) (stack : list nat) (k v : nat) : Prop :=
    (exists S', In S' (graphs_incl S) /\ k = g_id S' /\ captured S' v)
    \/ (In k (walk_keys stack v) /\ captured S v).

  (* ---- scoping facts *)
  Lemma scoped_fresh_and_uses :
    (forall n, forall stk, scoped_n owner stk n ->
       (forall T, In T (rec_graphs_n n) -> ~ In (g_id T) stk) /\
       (forall S v, In S (n_subs n) -> In v (uses_rec_g S) ->
          exists o, owner v = Some o /\ (In o (map g_id (graphs_incl S)) \/ In o stk))).
  Proof.
    apply (node_ind2
      (fun n => forall stk, scoped_n owner stk n ->
         (forall T, In T (rec_graphs_n n) -> ~ In (g_id T) stk) /\
         (forall S v, In S (n_subs n) -> In v (uses_rec_g S) ->
            exists o, owner v = Some o /\ (In o (map g_id (graphs_incl S)) \/ In o stk)))
      (fun g => forall stk, scoped_g owner stk g ->
         (forall T, In T (graphs_incl g) -> ~ In (g_id T) stk) /\
         (forall v, In v (uses_rec_g g) ->
            exists o, owner v = Some o /\ (In o (map g_id (graphs_incl g)) \/ In o stk)))).
    - intros i ins outs subs IH stk Hs. apply scoped_n_eq in Hs. cbn [n_subs] in Hs.
      rewrite Forall_forall in IH, Hs. split.
      + intros T HT. rewrite rec_graphs_n_eq in HT. cbn [n_subs] in HT.
        apply in_flat_map in HT. destruct HT as [S [HS HT]].
        apply (proj1 (IH S HS stk (Hs S HS))). exact HT.
      + intros S v HS Hv. cbn [n_subs] in HS. apply (proj2 (IH S HS stk (Hs S HS))). exact Hv.
    - intros i gi gin body go IH stk Hs. apply scoped_g_eq in Hs. cbn [g_id g_body] in Hs.
      destruct Hs as [Hfresh Hbody]. rewrite Forall_forall in IH, Hbody.
      set (g := Graph i gi gin body go). split.
      + intros T [HT|HT]; [subst T; exact Hfresh|].
        rewrite rec_graphs_g_eq in HT. cbn [g_body] in HT.
        apply in_flat_map in HT. destruct HT as [m [Hm HT]].
        destruct (Hbody m Hm) as [_ Hsm].
        intros Hin. apply (proj1 (IH m Hm (i :: stk) Hsm) T HT). right. exact Hin.
      + intros v Hv. rewrite uses_rec_g_eq in Hv. cbn [g_body] in Hv.
        apply in_flat_map in Hv. destruct Hv as [m [Hm Hv]].
        destruct (Hbody m Hm) as [Hum Hsm].
        apply in_app_or in Hv. destruct Hv as [Hv|Hv].
        * destruct (Hum v Hv) as [o [Ho [Hin|Hin]]]; exists o; (split; [exact Ho|]).
          -- left. left. cbn [g_id]. exact Hin.
          -- right. exact Hin.
        * apply in_flat_map in Hv. destruct Hv as [S [HS Hv]].
          destruct (proj2 (IH m Hm (i :: stk) Hsm) S v HS Hv) as [o [Ho [Hin|[Hin|Hin]]]];
            exists o; (split; [exact Ho|]).
          -- left. right. apply in_map_iff in Hin. destruct Hin as [T [HT1 HT2]].
             apply in_map_iff. exists T. split; [exact HT1|].
             rewrite rec_graphs_g_eq. cbn [g_body]. apply in_flat_map. exists m. split; [exact Hm|].
             rewrite rec_graphs_n_eq. apply in_flat_map. exists S. split; assumption.
          -- left. left. cbn [g_id]. exact Hin.
          -- right. exact Hin.
  Qed.

  Lemma scoped_g_fresh g stk T :
    scoped_g owner stk g -> In T (graphs_incl g) -> ~ In (g_id T) stk.
  Proof.
    intros Hs HT.
    assert (Hn : scoped_n owner stk (Node 0 [] [] [g])).
    { apply scoped_n_eq. cbn [n_subs]. constructor; [exact Hs | constructor]. }
    apply (proj1 (scoped_fresh_and_uses _ stk Hn)).
    rewrite rec_graphs_n_eq. cbn [n_subs flat_map]. rewrite app_nil_r. exact HT.
  Qed.

  Lemma scoped_g_uses g stk v :
    scoped_g owner stk g -> In v (uses_rec_g g) ->
    exists o, owner v = Some o /\ (In o (map g_id (graphs_incl g)) \/ In o stk).
  Proof.
    intros Hs Hv.
    assert (Hn : scoped_n owner stk (Node 0 [] [] [g])).
    { apply scoped_n_eq. cbn [n_subs]. constructor; [exact Hs | constructor]. }
    apply (proj2 (scoped_fresh_and_uses _ stk Hn) g v); [left; reflexivity | exact Hv].
  Qed.

  (* a value captured by g belongs to one of the enclosing graphs *)
  Lemma captured_owner g stk v :
    scoped_g owner stk g -> captured g v -> exists o, owner v = Some o /\ In o stk.
  Proof.
    intros Hs [Hu Hc]. destruct (scoped_g_uses g stk v Hs Hu) as [o [Ho [Hin|Hin]]].
    - exfalso. apply in_map_iff in Hin. destruct Hin as [T [HT1 HT2]].
      apply (Hc T HT2). congruence.
    - exists o. split; assumption.
  Qed.

  (* ---- moving `captured` between a graph and the graphs of its nodes *)
  Lemma graphs_incl_sub g m S T :
    In m (g_body g) -> In S (n_subs m) -> In T (graphs_incl S) -> In T (rec_graphs_g g).
  Proof.
    intros Hm HS HT. rewrite rec_graphs_g_eq. apply in_flat_map. exists m. split; [exact Hm|].
    rewrite rec_graphs_n_eq. apply in_flat_map. exists S. split; assumption.
  Qed.

  Lemma cap_down g v :
    captured g v ->
    exists m, In m (g_body g) /\ (In v (uses_n m) \/ exists S, In S (n_subs m) /\ captured S v).
  Proof.
    intros [Hu Hc]. rewrite uses_rec_g_eq in Hu. apply in_flat_map in Hu.
    destruct Hu as [m [Hm Hv]]. exists m. split; [exact Hm|].
    apply in_app_or in Hv. destruct Hv as [Hv|Hv]; [left; exact Hv|]. right.
    apply in_flat_map in Hv. destruct Hv as [S [HS Hv]]. exists S. split; [exact HS|].
    split; [exact Hv|]. intros T HT. apply Hc. right. eapply graphs_incl_sub; eassumption.
  Qed.

  Lemma uses_rec_direct g m v : In m (g_body g) -> In v (uses_n m) -> In v (uses_rec_g g).
  Proof.
    intros Hm Hv. rewrite uses_rec_g_eq. apply in_flat_map. exists m. split; [exact Hm|].
    apply in_or_app. left. exact Hv.
  Qed.

  Lemma uses_rec_sub g m S v :
    In m (g_body g) -> In S (n_subs m) -> In v (uses_rec_g S) -> In v (uses_rec_g g).
  Proof.
    intros Hm HS Hv. rewrite uses_rec_g_eq. apply in_flat_map. exists m. split; [exact Hm|].
    apply in_or_app. right. apply in_flat_map. exists S. split; assumption.
  Qed.

  (* v belongs to a graph of the stack, hence to no graph in g *)
  Lemma owner_in_stack_not_inside g stk v o :
    scoped_g owner stk g -> owner v = Some o -> In o stk ->
    forall T, In T (graphs_incl g) -> owner v <> Some (g_id T).
  Proof.
    intros Hs Ho Hin T HT E. rewrite Ho in E. inversion E; subst o.
    apply (scoped_g_fresh g stk T Hs HT). exact Hin.
  Qed.

  (* ---- the main induction *)
  Definition keys_ok (stack : list nat) (u : usages) : Prop :=
    forall k, In k (removelast stack) -> has_key k u = true.

  Notation post_keys u u' gs :=
    (forall k, has_key k u' = true <-> has_key k u = true \/ In k (map g_id gs)).

  Lemma process_main :
    forall n, forall stack u,
      stack <> [] -> scoped_n owner stack n -> keys_ok stack u ->
      exists u', process_node owner n stack u = Ok u' /\
        post_keys u u' (rec_graphs_n n) /\
        (forall k v, In v (get u' k) <-> In v (get u k) \/ exists S, In S (n_subs n) /\ Contrib S stack k v).
  Proof.
    apply (node_ind2
      (fun n => forall stack u,
         stack <> [] -> scoped_n owner stack n -> keys_ok stack u ->
         exists u', process_node owner n stack u = Ok u' /\
           post_keys u u' (rec_graphs_n n) /\
           (forall k v, In v (get u' k) <-> In v (get u k) \/ exists S, In S (n_subs n) /\ Contrib S stack k v))
      (fun g => forall stack u,
         stack <> [] -> scoped_g owner stack g -> keys_ok stack u ->
         exists u', process_graph owner g stack u = Ok u' /\
           post_keys u u' (graphs_incl g) /\
           (forall k v, In v (get u' k) <-> In v (get u k) \/ Contrib g stack k v))).
    - (* node: fold over its graphs *)
      intros i ins outs subs IH stack u Hne Hs Hk.
      rewrite process_node_eq. apply scoped_n_eq in Hs. cbn [n_subs] in *.
      rewrite rec_graphs_n_eq. cbn [n_subs].
      revert u Hk. induction subs as [|g r IHr]; intros u Hk.
      + exists u. split; [reflexivity|]. split.
        * intros k. simpl. tauto.
        * intros k v. split; [auto|]. intros [H|[S [[] _]]]. exact H.
      + inversion IH as [|? ? IHg IHrest]; subst. inversion Hs as [|? ? Hsg Hsr]; subst.
        destruct (IHg stack u Hne Hsg Hk) as [u1 [E1 [K1 G1]]].
        cbn [process_graphs]. rewrite E1. cbn [res_bind].
        destruct (IHr IHrest Hsr u1) as [u2 [E2 [K2 G2]]].
        { intros k Hin. apply K1. left. apply Hk. exact Hin. }
        exists u2. split; [exact E2|]. split.
        * intros k. rewrite K2, K1. cbn [flat_map]. rewrite map_app, in_app_iff. tauto.
        * intros k v. rewrite G2, G1. split.
          -- intros [[H|H]|[S [HS HC]]]; auto.
             ++ right. exists g. split; [left; reflexivity | exact H].
             ++ right. exists S. split; [right; exact HS | exact HC].
          -- intros [H|[S [[HS|HS] HC]]]; auto.
             ++ subst S. left. right. exact HC.
             ++ right. exists S. split; assumption.
    - (* graph *)
      intros i gi gin body go IH stack u Hne Hs Hk.
      set (g := Graph i gi gin body go) in *.
      rewrite process_graph_eq. cbn [g_id g_body g].
      pose proof Hs as Hs0. apply scoped_g_eq in Hs. cbn [g_id g_body g] in Hs.
      destruct Hs as [Hfresh Hbody].
      set (stk := i :: stack).
      assert (Hrl : removelast stk = i :: removelast stack).
      { unfold stk. destruct stack; [contradiction | reflexivity]. }
      (* the loop over the body, for any suffix of it *)
      assert (BODY : forall ns, incl ns body -> forall u0, keys_ok stk u0 ->
        exists u', process_body owner ns i stk u0 = Ok u' /\
          post_keys u0 u' (flat_map rec_graphs_n ns) /\
          (forall k v, In v (get u' k) <-> In v (get u0 k) \/
             exists m, In m ns /\ ((In v (uses_n m) /\ In k (walk_keys stk v))
                                   \/ exists S, In S (n_subs m) /\ Contrib S stk k v))).
      { induction ns as [|m r IHr]; intros Hincl u0 Hk0.
        - exists u0. split; [reflexivity|]. split.
          + intros k. simpl. tauto.
          + intros k v. split; [auto|]. intros [H|[m [[] _]]]. exact H.
        - assert (Hm : In m body) by (apply Hincl; left; reflexivity).
          rewrite Forall_forall in IH, Hbody.
          destruct (Hbody m Hm) as [Hum Hsm].
          cbn [process_body]. unfold collect_implicit.
          destruct (collect_ins_ok (uses_n m) i stack u0) as [u1 [E1 [K1 G1]]].
          { intros v k Hv Hin. apply Hk0.
            destruct (Hum v Hv) as [o [Ho Hino]].
            eapply walk_keys_removelast; eauto. }
          fold stk in E1, G1. unfold uses_n in E1. rewrite E1. cbn [res_bind].
          destruct (IH m Hm stk u1) as [u2 [E2 [K2 G2]]].
          { unfold stk. discriminate. }
          { exact Hsm. }
          { intros k Hin. rewrite K1. apply Hk0. exact Hin. }
          rewrite E2. cbn [res_bind].
          destruct (IHr (fun x Hx => Hincl x (or_intror Hx)) u2) as [u3 [E3 [K3 G3]]].
          { intros k Hin. apply K2. left. rewrite K1. apply Hk0. exact Hin. }
          exists u3. split; [exact E3|]. split.
          + intros k. rewrite K3, K2, K1. cbn [flat_map]. rewrite map_app, in_app_iff. tauto.
          + intros k v. rewrite G3, G2, G1. split.
            * intros [[[H|H]|H]|[m' [Hm' H]]]; auto.
              -- right. exists m. split; [left; reflexivity | left; exact H].
              -- right. exists m. split; [left; reflexivity | right; exact H].
              -- right. exists m'. split; [right; exact Hm' | exact H].
            * intros [H|[m' [[Hm'|Hm'] H]]]; auto.
              -- subst m'. destruct H as [H|H]; [left; left; right; exact H | left; right; exact H].
              -- right. exists m'. split; assumption. }
      destruct (BODY body (fun x H => H) (ensure_key i u)) as [u' [E [K G]]].
      { intros k Hin. rewrite Hrl in Hin. apply has_key_ensure. destruct Hin as [Hin|Hin].
        - right. symmetry. exact Hin.
        - left. apply Hk. exact Hin. }
      exists u'. split; [exact E|]. split.
      + intros k. rewrite K, has_key_ensure. unfold graphs_incl. cbn [map g_id g].
        rewrite rec_graphs_g_eq. cbn [g_body]. simpl. intuition.
      + intros k v. rewrite G, get_ensure. apply or_iff_compat_l.
        rewrite Forall_forall in Hbody.
        (* captured for g from its parts *)
        assert (CAPD : forall m, In m body -> In v (uses_n m) -> owner v <> Some i -> captured g v).
        { intros m Hm Hv Hne'. split; [eapply uses_rec_direct; [exact Hm | exact Hv]|].
          destruct (proj1 (Hbody m Hm) v Hv) as [o [Ho [Hin|Hin]]]; [congruence|].
          eapply owner_in_stack_not_inside; eauto. }
        assert (CAPL : forall m S, In m body -> In S (n_subs m) -> captured S v -> owner v <> Some i ->
                                   captured g v).
        { intros m S Hm HS HC Hne'. split; [eapply uses_rec_sub; [exact Hm | exact HS | apply HC]|].
          assert (HsS : scoped_g owner stk S).
          { destruct (Hbody m Hm) as [_ Hsm]. apply scoped_n_eq in Hsm.
            rewrite Forall_forall in Hsm. apply Hsm. exact HS. }
          destruct (captured_owner S stk v HsS HC) as [o [Ho [Hin|Hin]]]; [congruence|].
          eapply owner_in_stack_not_inside; eauto. }
        assert (WK : forall x, In x (walk_keys stk v) <-> owner v <> Some i /\ (x = i \/ In x (walk_keys stack v))).
        { intros x. unfold stk. cbn [walk_keys]. destruct (onat_eqb (owner v) (Some i)) eqn:Eo.
          - apply onat_eqb_eq in Eo. split; [intros [] | intros [H _]; contradiction].
          - assert (owner v <> Some i) by (intros H; apply onat_eqb_eq in H; congruence).
            simpl. intuition. }
        unfold Contrib at 2. split.
        * intros [m [Hm [[Hv Hw]|[S [HS HC]]]]].
          -- apply WK in Hw. destruct Hw as [Hne' [Hx|Hx]].
             ++ left. exists g. split; [left; reflexivity|]. split; [exact Hx | eapply CAPD; eauto].
             ++ right. split; [exact Hx | eapply CAPD; eauto].
          -- destruct HC as [[S' [HS' [Hk' HC']]]|[Hw HC']].
             ++ left. exists S'. split; [right; eapply graphs_incl_sub; eauto | split; assumption].
             ++ apply WK in Hw. destruct Hw as [Hne' [Hx|Hx]].
                ** left. exists g. split; [left; reflexivity|]. split; [exact Hx | eapply CAPL; eauto].
                ** right. split; [exact Hx | eapply CAPL; eauto].
        * assert (DOWN : captured g v -> forall x, (x = i \/ In x (walk_keys stack v)) ->
                    exists m, In m body /\ ((In v (uses_n m) /\ In x (walk_keys stk v))
                                            \/ exists S, In S (n_subs m) /\ Contrib S stk x v)).
          { intros HC x Hx.
            assert (Hne' : owner v <> Some i) by (apply (proj2 HC g); left; reflexivity).
            destruct (cap_down g v HC) as [m [Hm [Hv|[S [HS HCS]]]]]; exists m; (split; [exact Hm|]).
            - left. split; [exact Hv|]. apply WK. split; assumption.
            - right. exists S. split; [exact HS|]. right. split; [|exact HCS]. apply WK. split; assumption. }
          intros [[S' [[HS'|HS'] [Hk' HC']]]|[Hw HC']].
          -- subst S'. apply (DOWN HC'). left. exact Hk'.
          -- rewrite rec_graphs_g_eq in HS'. cbn [g_body g] in HS'.
             apply in_flat_map in HS'. destruct HS' as [m [Hm HS']].
             rewrite rec_graphs_n_eq in HS'. apply in_flat_map in HS'. destruct HS' as [S [HS HS']].
             exists m. split; [exact Hm|]. right. exists S. split; [exact HS|].
             left. exists S'. split; [exact HS' | split; assumption].
          -- apply (DOWN HC'). right. exact Hw.
  Qed.

  (* analyze_implicit_usage on a well-scoped graph *)
  Theorem analyze_exact root :
    Forall (scoped_n owner [g_id root]) (g_body root) ->
    exists u, analyze owner root = Ok u /\
      (forall k, has_key k u = true <-> In k (map g_id (rec_graphs_g root))) /\
      (forall k v, In v (get u k) <->
                   exists S, In S (rec_graphs_g root) /\ g_id S = k /\ captured S v).
  Proof.
    intros Hs. unfold analyze. rewrite rec_graphs_g_eq.
    set (stack := [g_id root]).
    assert (GEN : forall ns, incl ns (g_body root) -> forall u0,
      exists u, process_nodes owner ns stack u0 = Ok u /\
        post_keys u0 u (flat_map rec_graphs_n ns) /\
        (forall k v, In v (get u k) <-> In v (get u0 k) \/
           exists S, In S (flat_map rec_graphs_n ns) /\ g_id S = k /\ captured S v)).
    { rewrite Forall_forall in Hs.
      induction ns as [|m r IH]; intros Hincl u0.
      - exists u0. split; [reflexivity|]. split.
        + intros k. simpl. tauto.
        + intros k v. split; [auto|]. intros [H|[S [[] _]]]. exact H.
      - assert (Hm : In m (g_body root)) by (apply Hincl; left; reflexivity).
        destruct (process_main m stack u0) as [u1 [E1 [K1 G1]]].
        { unfold stack. discriminate. }
        { apply Hs. exact Hm. }
        { intros k []. }
        cbn [process_nodes]. rewrite E1. cbn [res_bind].
        destruct (IH (fun x Hx => Hincl x (or_intror Hx)) u1) as [u2 [E2 [K2 G2]]].
        exists u2. split; [exact E2|]. split.
        + intros k. rewrite K2, K1. cbn [flat_map]. rewrite map_app, in_app_iff. tauto.
        + intros k v. rewrite G2, G1. cbn [flat_map].
          assert (HsS : forall S, In S (n_subs m) -> scoped_g owner stack S).
          { intros S HS. pose proof (Hs m Hm) as Hsm. apply scoped_n_eq in Hsm.
            rewrite Forall_forall in Hsm. apply Hsm. exact HS. }
          split.
          * intros [[H|[S [HS HC]]]|[S [HS HC]]]; auto.
            -- right. destruct HC as [[S' [HS' [Hk HC']]]|[Hw HC']].
               ++ exists S'. split; [|split; [symmetry; exact Hk | exact HC']].
                  apply in_or_app. left. rewrite rec_graphs_n_eq. apply in_flat_map. exists S. split; assumption.
               ++ exfalso. destruct (captured_owner S stack v (HsS S HS) HC') as [o [Ho [Hin|[]]]].
                  subst o. unfold stack in Hw. cbn [walk_keys] in Hw.
                  rewrite Ho in Hw. simpl in Hw. rewrite Nat.eqb_refl in Hw. exact Hw.
            -- right. exists S. split; [apply in_or_app; right; exact HS | exact HC].
          * intros [H|[S [HS [Hk HC]]]]; auto.
            apply in_app_or in HS. destruct HS as [HS|HS].
            -- left. right. rewrite rec_graphs_n_eq in HS. apply in_flat_map in HS.
               destruct HS as [S0 [HS0 HS]]. exists S0. split; [exact HS0|].
               left. exists S. split; [exact HS | split; [symmetry; exact Hk | exact HC]].
            -- right. exists S. split; [exact HS | split; assumption]. }
    destruct (GEN (g_body root) (fun x H => H) []) as [u [E [K G]]].
    exists u. split; [exact E|]. split.
    - intros k. rewrite K. simpl. split; [intros [H|H]; [discriminate | exact H] | auto].
    - intros k v. rewrite G. simpl. split; [intros [[]|H]; exact H | auto].
  Qed.
End Captures.

(* C18/Proofs4.v — evaluating the extracted node list on the source's boundary values gives the source's
   values on every needed value (uninterpreted operator semantics). *)
From Coq Require Import List Bool Arith Lia.
From IRV Require Import Base.Exn C18.Model C18.Spec C18.Proofs.
Import ListNotations.

Section SemProofs.
  Variable T : Type.
  Variable interp : nat -> list (option T) -> list T -> list T.
  Variable nins : nat -> list (option nat).
  Variable ncaps : nat -> list nat.
  Variable nouts : nat -> list nat.
  Variable dflt : T.
  Variable prod : nat -> option nat.
  Variables inputs outputs : list nat.
  Variable gnodes : list nat.
  Variable keep : nat -> bool.
  Variables e0 e1 : nat -> T.

  Notation exec_node := (exec_node T interp nins ncaps nouts dflt).
  Notation exec := (exec T interp nins ncaps nouts dflt).
  Notation Reach := (Reach prod nins ncaps inputs outputs).
  Notation NeededNode := (NeededNode prod nins ncaps inputs outputs).
  Notation reads := (reads nins ncaps).

  Let rho := exec e0 gnodes.

  Hypothesis Hnd : NoDup gnodes.
  (* SSA, for the nodes of the source: a value is an output of node n iff n is its producer (nodes of
     nested bodies produce values too; they are not in gnodes and are not constrained) *)
  Hypothesis Hprod : forall v n, In n gnodes -> (prod v = Some n <-> In v (nouts n)).
  Hypothesis Hneeded : forall n, NeededNode n -> In n gnodes.
  Hypothesis Htopo : forall l1 n l2, gnodes = l1 ++ n :: l2 ->
                       forall u p, reads n u -> prod u = Some p -> In p l1.
  Hypothesis Hkeep : forall n, In n gnodes -> (keep n = true <-> NeededNode n).
  Hypothesis He1 : forall u, Reach u -> (In u inputs \/ prod u = None) -> e1 u = rho u.

  Lemma pos_None v l : pos v l = None <-> ~ In v l.
  Proof.
    induction l as [|x l IH]; simpl; [tauto|].
    destruct (Nat.eqb x v) eqn:E.
    - apply Nat.eqb_eq in E. subst. split; [discriminate | intros H; exfalso; apply H; left; reflexivity].
    - apply Nat.eqb_neq in E. destruct (pos v l); simpl.
      + split; [discriminate|]. intros H. exfalso. apply H. right. apply Decidable.not_not; [|intros H1; apply IH in H1; discriminate].
        destruct (in_dec Nat.eq_dec v l); [left|right]; assumption.
      + split; [|reflexivity]. intros _ [H|H]; [congruence | apply IH in H; [exact H | reflexivity]].
  Qed.

  Lemma exec_node_other e n v : ~ In v (nouts n) -> exec_node e n v = e v.
  Proof. intros H. unfold Spec.exec_node. apply pos_None in H. rewrite H. reflexivity. Qed.

  Lemma exec_other l : forall e v, (forall n, In n l -> ~ In v (nouts n)) -> exec e l v = e v.
  Proof.
    induction l as [|n l IH]; intros e v H; [reflexivity|].
    unfold Spec.exec. cbn [fold_left]. fold (exec (exec_node e n) l).
    rewrite IH; [|intros m Hm; apply H; right; exact Hm].
    apply exec_node_other. apply H. left. reflexivity.
  Qed.

  Lemma exec_app e l1 l2 : exec e (l1 ++ l2) = exec (exec e l1) l2.
  Proof. unfold Spec.exec. apply fold_left_app. Qed.

  (* the node's results depend only on the values of what it reads *)
  Lemma exec_node_agree e e' n v :
    (forall u, reads n u -> e u = e' u) -> In v (nouts n) -> exec_node e n v = exec_node e' n v.
  Proof.
    intros H Hv. unfold Spec.exec_node.
    assert (E1 : map (option_map e) (nins n) = map (option_map e') (nins n)).
    { apply map_ext_in. intros [u|] Hu; [|reflexivity]. simpl. f_equal. apply H. left. exact Hu. }
    assert (E2 : map e (ncaps n) = map e' (ncaps n)).
    { apply map_ext_in. intros u Hu. apply H. right. exact Hu. }
    rewrite E1, E2. destruct (pos v (nouts n)) eqn:Ep; [reflexivity|].
    apply pos_None in Ep. contradiction.
  Qed.

  (* invariant after the prefix l1 of the source *)
  Definition agree_upto (l1 : list nat) (e : nat -> T) : Prop :=
    forall v, Reach v ->
      (In v inputs \/ prod v = None \/ exists p, prod v = Some p /\ In p l1) -> e v = rho v.

  Lemma rho_stable l1 l2 v :
    gnodes = l1 ++ l2 -> (prod v = None \/ exists p, prod v = Some p /\ In p l1) ->
    rho v = exec e0 l1 v.
  Proof.
    intros Hg Hv. unfold rho. rewrite Hg, exec_app. apply exec_other.
    intros n Hn Hin.
    assert (Hp : prod v = Some n).
    { apply Hprod; [rewrite Hg; apply in_or_app; right; exact Hn | exact Hin]. }
    destruct Hv as [Hv|[p [Hv Hp1]]]; [congruence|].
    assert (p = n) by congruence. subst p.
    assert (Hnd' : NoDup (l1 ++ l2)) by (rewrite <- Hg; exact Hnd).
    revert Hnd' Hp1 Hn. clear. intros Hnd Hp1 Hn.
    induction l1 as [|x l1 IH]; [destruct Hp1|].
    simpl in Hnd. inversion Hnd as [|? ? H1 H2]; subst. destruct Hp1 as [H|H].
    - subst x. apply H1. apply in_or_app. right. exact Hn.
    - apply IH; assumption.
  Qed.

  Lemma sem_prefix : forall l1 l2, gnodes = l1 ++ l2 -> agree_upto l1 (exec e1 (filter keep l1)).
  Proof.
    induction l1 as [|n l1 IH] using rev_ind; intros l2 Hg.
    - intros v R [H|[H|[p [_ []]]]]; simpl; apply He1; auto.
    - rewrite <- app_assoc in Hg. cbn [app] in Hg.
      specialize (IH (n :: l2) Hg).
      assert (Hn : In n gnodes) by (rewrite Hg; apply in_or_app; right; left; reflexivity).
      rewrite filter_app. cbn [filter].
      destruct (keep n) eqn:Ek.
      + (* needed node: executed in both *)
        apply (proj1 (Hkeep n Hn)) in Ek.
        rewrite exec_app. unfold Spec.exec at 1. cbn [fold_left].
        set (e' := exec e1 (filter keep l1)) in *.
        intros v R Hv.
        destruct (in_dec Nat.eq_dec v (nouts n)) as [Hout|Hout].
        * (* an output of n: same operator on equal arguments *)
          assert (Hp : prod v = Some n) by (apply Hprod; assumption).
          assert (Hg' : gnodes = (l1 ++ [n]) ++ l2) by (rewrite <- app_assoc; exact Hg).
          assert (Hs' : prod v = None \/ exists p, prod v = Some p /\ In p (l1 ++ [n])).
          { right. exists n. split; [exact Hp | apply in_or_app; right; left; reflexivity]. }
          rewrite (rho_stable (l1 ++ [n]) l2 v Hg' Hs').
          rewrite exec_app. unfold Spec.exec at 2. cbn [fold_left].
          apply exec_node_agree; [|exact Hout].
          intros u Hr.
          assert (Ru : Reach u).
          { destruct Ek as [w [Rw [Nw Pw]]]. exact (R_step _ _ _ _ _ w n u Rw Nw Pw Hr). }
          assert (Hsrc : prod u = None \/ exists p, prod u = Some p /\ In p l1).
          { destruct (prod u) as [p|] eqn:Ep; [right | left; reflexivity].
            exists p. split; [reflexivity|]. eapply Htopo; eauto. }
          rewrite (IH u Ru); [|right; exact Hsrc].
          apply (rho_stable l1 (n :: l2) u Hg Hsrc).
        * rewrite exec_node_other by exact Hout. apply IH; [exact R|].
          destruct Hv as [H|[H|[p [Hp Hin]]]]; auto.
          apply in_app_or in Hin. destruct Hin as [Hin|[Hin|[]]]; [right; right; exists p; auto|].
          subst p. exfalso. apply Hout. apply (proj1 (Hprod v n Hn) Hp).
      + (* node not needed: skipped *)
        rewrite app_nil_r. intros v R Hv. apply IH; [exact R|].
        destruct Hv as [H|[H|[p [Hp Hin]]]]; auto.
        apply in_app_or in Hin. destruct Hin as [Hin|[Hin|[]]]; [right; right; exists p; auto|].
        subst p. destruct (in_dec Nat.eq_dec v inputs) as [Hi|Hi]; [left; exact Hi|].
        exfalso. assert (NeededNode n) by (exists v; auto).
        apply (proj2 (Hkeep n Hn)) in H. congruence.
  Qed.

  Theorem sem_extracted :
    forall v, Reach v -> exec e1 (filter keep gnodes) v = rho v.
  Proof.
    intros v R. apply (sem_prefix gnodes [] (eq_sym (app_nil_r _)) v R).
    destruct (in_dec Nat.eq_dec v inputs) as [Hi|Hi]; [left; exact Hi|].
    destruct (prod v) as [p|] eqn:Ep; [|right; left; reflexivity].
    right. right. exists p. split; [reflexivity|]. apply Hneeded. exists v. auto.
  Qed.
End SemProofs.

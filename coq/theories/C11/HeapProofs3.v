(* C11/HeapProofs3.v — translated remove / _insert_one_after refine the model. *)
From Coq Require Import List Arith ZArith Bool Lia.
From IRV Require Import Base.Exn C11.Model C11.Proofs C11.Proofs2 C11.Proofs3 C11.Proofs4 C11.Proofs5
  C11.Heap Gen.C11Gen C11.HeapProofs C11.HeapProofs2.
Import ListNotations.

Lemma bind_ok {A B} (m : M A) (k : A -> M B) h a h' : m h = (Ok a, h') -> bind m k h = k a h'.
Proof. intros E. unfold bind. rewrite E. reflexivity. Qed.
Lemma bind_raise {A B} (m : M A) (k : A -> M B) h e h' : m h = (Raise e, h') -> bind m k h = (Raise e, h').
Proof. intros E. unfold bind. rewrite E. reflexivity. Qed.

Lemma py_remove_eval h x sb y :
  d_get (hdict h) x = Some sb -> b_val (hbox h sb) = Some y ->
  py_remove x h = (Ok tt, mkH (hbox (erase_heap h sb)) (hlen h - 1)%Z (d_del (hdict h) x) (hnew h)).
Proof.
  intros Hd Hv. unfold py_remove. cbv zeta.
  rewrite (bind_ok (dict_mem x) _ h true h) by (unfold dict_mem; rewrite Hd; reflexivity).
  cbn [negb].
  rewrite (bind_ok (dict_get x) _ h sb h) by (unfold dict_get; rewrite Hd; reflexivity).
  cbv zeta.
  rewrite (bind_ok (py_erase sb) _ h tt (erase_heap h sb)) by (rewrite py_erase_eval, Hv; reflexivity).
  unfold bind, get_len, set_len, dict_del, ret. simpl. rewrite Hd. reflexivity.
Qed.

Lemma py_remove_absent h x : d_get (hdict h) x = None -> py_remove x h = (Raise ValueError, h).
Proof. intros Hd. unfold py_remove, bind, dict_mem, raise. rewrite Hd. reflexivity. Qed.

Lemma tomb_not_live s b p n : wf s -> In (b, (p, n)) (tomb s) -> ~ In b (ids (live s)).
Proof.
  intros [W1 _] Hi. apply (dwf_tids_not_live (view true s) W1). rewrite view_tids.
  apply (in_map fst) in Hi. exact Hi.
Qed.

(* the heap after the pointer surgery of erase represents erase_box *)
Lemma R_erase h s b x hl hd :
  R h s -> In (b, x) (live s) ->
  hl = (hlen h - 1)%Z -> (forall y, d_get hd y = if y =? x then None else d_get (hdict h) y) -> NoDup (map fst hd) ->
  R (mkH (hbox (erase_heap h (S b))) hl hd (hnew h)) (erase_box b s).
Proof.
  intros HR Hi Hl Hd Hk. destruct HR as [Hw Hlive Htomb Hlen Hnew Hdict Hkeys].
  destruct (wf_nodups s Hw) as [Hnd Hnx]. pose proof (in_live_ids _ _ _ Hi) as Hb.
  pose proof (Hlive (B b) Hb) as Hbb. simpl rid in Hbb.
  destruct (prv_ne_self _ _ Hnd Hb) as [Hpn Hnn].
  assert (HP : b_prev (hbox h (S b)) = rid (prv (live s) (B b))) by (rewrite Hbb; reflexivity).
  assert (HN : b_next (hbox h (S b)) = rid (nxt (live s) (B b))) by (rewrite Hbb; reflexivity).
  assert (HPs : b_prev (hbox h (S b)) <> S b) by (rewrite HP; intros E; apply Hpn; apply rid_inj; exact E).
  assert (HNs : b_next (hbox h (S b)) <> S b) by (rewrite HN; intros E; apply Hnn; apply rid_inj; exact E).
  constructor; cbn [live tomb slen nid hbox hlen hdict hnew erase_box].
  - apply wf_erase; assumption.
  - intros r Hr.
    assert (Hr0 : rlive (live s) r /\ r <> B b).
    { destruct r as [|c]; simpl in Hr |- *; [split; [exact I|discriminate]|]. apply in_ids_rm_box in Hr.
      split; [tauto|]. intros E. inversion E. tauto. }
    destruct Hr0 as [Hr0 Hne].
    rewrite erase_heap_other; [|intros E; apply Hne; apply rid_inj; exact E|exact HPs|exact HNs].
    rewrite (Hlive r Hr0). cbn [b_prev b_next b_val b_own]. rewrite HP, HN, !rid_eqb.
    rewrite (prv_erase _ _ _ Hnd Hb Hr0 Hne), (nxt_erase _ _ _ Hnd Hb Hr0 Hne).
    f_equal.
    + destruct (ref_eqb r (nxt (live s) (B b))); reflexivity.
    + destruct (ref_eqb r (prv (live s) (B b))); reflexivity.
    + destruct r as [|c]; [reflexivity|]. simpl. symmetry. apply val_of_rm_box_ne. congruence.
  - intros b0 p n Hin. apply in_app_or in Hin. destruct Hin as [Hin|[Hin|[]]].
    + pose proof (tomb_not_live s b0 p n Hw Hin) as Hnl.
      assert (Hne : S b0 <> S b) by (intros E; inversion E; subst; contradiction).
      rewrite erase_heap_other; [|exact Hne|exact HPs|exact HNs].
      rewrite (Htomb b0 p n Hin). cbn [b_prev b_next b_val b_own].
      destruct (rlive_prv_nxt _ (B b) Hnd Hb) as [Lp Ln].
      assert (E1 : (S b0 =? b_next (hbox h (S b))) = false).
      { apply Nat.eqb_neq. rewrite HN. change (S b0) with (rid (B b0)). intros E. apply rid_inj in E. rewrite <- E in Ln. contradiction. }
      assert (E2 : (S b0 =? b_prev (hbox h (S b))) = false).
      { apply Nat.eqb_neq. rewrite HP. change (S b0) with (rid (B b0)). intros E. apply rid_inj in E. rewrite <- E in Lp. contradiction. }
      rewrite E1, E2. reflexivity.
    + inversion Hin; subst. rewrite erase_heap_self by assumption. rewrite HP, HN, Hbb. reflexivity.
  - subst hl. rewrite Hlen. destruct Hw as [_ [_ [_ [W4 _]]]]. rewrite W4.
    destruct (live s) as [|q t]; [destruct Hi|]. cbn [length Nat.pred]. lia.
  - exact Hnew.
  - intros y. rewrite Hd, Hdict. rewrite (find_box_rm _ _ _ y Hnd Hnx Hi). destruct (y =? x); reflexivity.
  - exact Hk.
Qed.

(* DoublyLinkedSet.remove, as translated, refines the model's Remove: same outcome, related states *)
Theorem py_remove_refines h s x :
  R h s -> fst (py_remove x h) = snd (apply_edit (Remove x) s) /\ R (snd (py_remove x h)) (fst (apply_edit (Remove x) s)).
Proof.
  intros HR. pose proof HR as [Hw Hlive Htomb Hlen Hnew Hdict Hkeys]. simpl.
  destruct (find_box (live s) x) as [b|] eqn:Ef.
  - pose proof (find_box_Some _ _ _ Ef) as Hi.
    assert (Hd : d_get (hdict h) x = Some (S b)) by (rewrite Hdict, Ef; reflexivity).
    assert (Hv : b_val (hbox h (S b)) = Some x).
    { change (S b) with (rid (B b)). rewrite (Hlive (B b) (in_live_ids _ _ _ Hi)). simpl.
      destruct (wf_nodups s Hw) as [Hnd _]. apply val_of_In; assumption. }
    rewrite (py_remove_eval h x (S b) x Hd Hv). simpl. split; [reflexivity|].
    apply (R_erase h s b x); [exact HR|exact Hi|reflexivity| |apply d_del_nodup; exact Hkeys].
    intros y. apply d_get_del. exact Hkeys.
  - assert (Hd : d_get (hdict h) x = None) by (rewrite Hdict, Ef; reflexivity).
    rewrite (py_remove_absent h x Hd). simpl. split; [reflexivity|exact HR].
Qed.

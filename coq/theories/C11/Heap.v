(* C11/Heap.v — the target language of the per-run translation of onnx_ir/_linked_list.py (Gen/C11Gen.v):
   a heap of link boxes with the four slots of _LinkBox (prev, next, value, owning_list) and the three fields of
   DoublyLinkedSet (_root = box 0, _length, _value_ids_to_boxes), and a state-and-exception monad whose
   operations are exactly the attribute reads / writes, dict operations and allocation the Python statements
   perform.  A raise keeps the heap as mutated so far.  Executable definitions only. *)
From Coq Require Import List Arith ZArith Bool Lia.
From IRV Require Import Base.Exn C11.Model.
Import ListNotations.

Record box := mkBox { b_prev : bid; b_next : bid; b_val : option elt; b_own : nat }.
Record heap := mkH { hbox : bid -> box; hlen : Z; hdict : list (elt * bid); hnew : bid }.

Definition ROOT : bid := 0.
Definition SELF : nat := 1.          (* identity of the one DoublyLinkedSet object *)

Definition M (A : Type) : Type := heap -> res A * heap.
Definition ret {A} (a : A) : M A := fun h => (Ok a, h).
Definition raise {A} (e : exn) : M A := fun h => (Raise e, h).
Definition bind {A B} (m : M A) (k : A -> M B) : M B :=
  fun h => match m h with (Ok a, h') => k a h' | (Raise e, h') => (Raise e, h') end.
Notation "x <- m ;; k" := (bind m (fun x => k)) (at level 61, m at next level, right associativity).
Notation "m ;;; k" := (bind m (fun _ => k)) (at level 61, right associativity).

Definition upd_box (f : bid -> box) (b : bid) (v : box) : bid -> box := fun c => if c =? b then v else f c.
Definition get_prev (b : bid) : M bid := fun h => (Ok (b_prev (hbox h b)), h).
Definition get_next (b : bid) : M bid := fun h => (Ok (b_next (hbox h b)), h).
Definition get_val (b : bid) : M (option elt) := fun h => (Ok (b_val (hbox h b)), h).
Definition get_own (b : bid) : M nat := fun h => (Ok (b_own (hbox h b)), h).
Definition set_box (b : bid) (f : box -> box) : M unit :=
  fun h => (Ok tt, mkH (upd_box (hbox h) b (f (hbox h b))) (hlen h) (hdict h) (hnew h)).
Definition set_prev (b v : bid) : M unit := set_box b (fun x => mkBox v (b_next x) (b_val x) (b_own x)).
Definition set_next (b v : bid) : M unit := set_box b (fun x => mkBox (b_prev x) v (b_val x) (b_own x)).
Definition set_val (b : bid) (v : option elt) : M unit := set_box b (fun x => mkBox (b_prev x) (b_next x) v (b_own x)).
Definition set_own (b : bid) (v : nat) : M unit := set_box b (fun x => mkBox (b_prev x) (b_next x) (b_val x) v).
(* object.__new__: a fresh box identity (slots are then filled by the translated __init__) *)
Definition alloc : M bid :=
  fun h => (Ok (hnew h), mkH (hbox h) (hlen h) (hdict h) (S (hnew h))).
Definition get_len : M Z := fun h => (Ok (hlen h), h).
Definition set_len (z : Z) : M unit := fun h => (Ok tt, mkH (hbox h) z (hdict h) (hnew h)).

Fixpoint d_get (d : list (elt * bid)) (k : elt) : option bid :=
  match d with [] => None | (k', v) :: t => if k' =? k then Some v else d_get t k end.
Fixpoint d_set (d : list (elt * bid)) (k : elt) (v : bid) : list (elt * bid) :=
  match d with [] => [(k, v)] | (k', v') :: t => if k' =? k then (k', v) :: t else (k', v') :: d_set t k v end.
Fixpoint d_del (d : list (elt * bid)) (k : elt) : list (elt * bid) :=
  match d with [] => [] | (k', v') :: t => if k' =? k then t else (k', v') :: d_del t k end.
Definition dict_mem (k : elt) : M bool :=
  fun h => (Ok (match d_get (hdict h) k with Some _ => true | None => false end), h).
Definition dict_get (k : elt) : M bid :=
  fun h => (match d_get (hdict h) k with Some b => Ok b | None => Raise KeyError end, h).
Definition dict_set (k : elt) (v : bid) : M unit :=
  fun h => (Ok tt, mkH (hbox h) (hlen h) (d_set (hdict h) k v) (hnew h)).
Definition dict_del (k : elt) : M unit :=
  fun h => match d_get (hdict h) k with
           | Some _ => (Ok tt, mkH (hbox h) (hlen h) (d_del (hdict h) k) (hnew h))
           | None => (Raise KeyError, h)
           end.

Definition is_none {A} (o : option A) : bool := match o with None => true | Some _ => false end.
(* `box.value is v` for a value v that is not None *)
Definition val_is (o : option elt) (v : elt) : bool := match o with Some x => x =? v | None => false end.

(* for-loops over a Python iterable of values: the loop-carried variables are threaded *)
Fixpoint for_m {S} (xs : list elt) (body : S -> elt -> M S) (s : S) : M S :=
  match xs with [] => ret s | x :: t => s' <- body s x ;; for_m t body s' end.

Definition empty_heap : heap :=
  mkH (fun _ => mkBox ROOT ROOT None SELF) 0%Z [] 1.

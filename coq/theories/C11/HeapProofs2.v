(* C11/HeapProofs2.v — the refinement relation between the box heap and the sequence+tombstone model, and the
   refinement of the TRANSLATED erase / remove (Gen/C11Gen.v). *)
From Coq Require Import List Arith ZArith Bool Lia.
From IRV Require Import Base.Exn C11.Model C11.Proofs C11.Proofs2 C11.Proofs3 C11.Proofs4 C11.Proofs5
  C11.Heap Gen.C11Gen C11.HeapProofs.
Import ListNotations.

(* model references as heap addresses: the root box is 0, box b of the model is S b *)
Definition rid (r : ref) : bid := match r with Root => ROOT | B b => S b end.
Lemma rid_inj a b : rid a = rid b -> a = b.
Proof. destruct a, b; simpl; unfold ROOT; intros H; try reflexivity; try discriminate. inversion H. reflexivity. Qed.
Lemma rid_eqb a b : (rid a =? rid b) = ref_eqb a b.
Proof.
  destruct (ref_eqb a b) eqn:E.
  - apply ref_eqb_eq in E. subst. apply Nat.eqb_refl.
  - apply ref_eqb_neq in E. apply Nat.eqb_neq. intros H. apply E. apply rid_inj. exact H.
Qed.

Record R (h : heap) (s : st) : Prop := mkR {
  R_wf : wf s;
  R_live : forall r, rlive (live s) r ->
           hbox h (rid r) = mkBox (rid (prv (live s) r)) (rid (nxt (live s) r)) (val_ref (live s) r) SELF;
  R_tomb : forall b p n, In (b, (p, n)) (tomb s) -> hbox h (S b) = mkBox (rid p) (rid n) None SELF;
  R_len : hlen h = Z.of_nat (slen s);
  R_new : hnew h = S (nid s);
  R_dict : forall x, d_get (hdict h) x = option_map S (find_box (live s) x);
  R_keys : NoDup (map fst (hdict h)) }.

Lemma R_empty : R empty_heap empty.
Proof.
  constructor; simpl; try reflexivity.
  - apply wf_empty.
  - intros [|c]; simpl; [reflexivity|intros []].
  - intros b p n [].
  - constructor.
Qed.

(* ---------- _LinkBox.erase, as translated *)
Definition erase_heap (h : heap) (sb : bid) : heap :=
  let P := b_prev (hbox h sb) in
  let N := b_next (hbox h sb) in
  let f1 := upd_box (hbox h) P (mkBox (b_prev (hbox h P)) N (b_val (hbox h P)) (b_own (hbox h P))) in
  let f2 := upd_box f1 N (mkBox P (b_next (f1 N)) (b_val (f1 N)) (b_own (f1 N))) in
  let f3 := upd_box f2 sb (mkBox (b_prev (f2 sb)) (b_next (f2 sb)) None (b_own (f2 sb))) in
  mkH f3 (hlen h) (hdict h) (hnew h).

Lemma py_erase_eval h sb :
  py_erase sb h = match b_val (hbox h sb) with None => (Raise ValueError, h) | Some _ => (Ok tt, erase_heap h sb) end.
Proof. unfold py_erase, bind, get_val, get_prev, get_next, set_next, set_prev, set_val, set_box, ret, raise. simpl.
  destruct (b_val (hbox h sb)); reflexivity. Qed.

Lemma erase_heap_other h sb c :
  c <> sb -> b_prev (hbox h sb) <> sb -> b_next (hbox h sb) <> sb ->
  hbox (erase_heap h sb) c =
    mkBox (if c =? b_next (hbox h sb) then b_prev (hbox h sb) else b_prev (hbox h c))
          (if c =? b_prev (hbox h sb) then b_next (hbox h sb) else b_next (hbox h c))
          (b_val (hbox h c)) (b_own (hbox h c)).
Proof.
  intros Hc Hp Hn. unfold erase_heap. simpl. unfold upd_box.
  apply Nat.eqb_neq in Hc. rewrite Hc.
  destruct (c =? b_next (hbox h sb)) eqn:E1; destruct (c =? b_prev (hbox h sb)) eqn:E2; simpl.
  - apply Nat.eqb_eq in E1. apply Nat.eqb_eq in E2. rewrite <- E1, <- E2. rewrite Nat.eqb_refl. simpl. reflexivity.
  - apply Nat.eqb_eq in E1. rewrite <- E1. rewrite E2. destruct (hbox h c); reflexivity.
  - apply Nat.eqb_eq in E2. rewrite <- E2. reflexivity.
  - destruct (hbox h c); reflexivity.
Qed.

Lemma erase_heap_self h sb :
  b_prev (hbox h sb) <> sb -> b_next (hbox h sb) <> sb ->
  hbox (erase_heap h sb) sb = mkBox (b_prev (hbox h sb)) (b_next (hbox h sb)) None (b_own (hbox h sb)).
Proof.
  intros Hp Hn. unfold erase_heap. simpl. unfold upd_box. rewrite Nat.eqb_refl.
  apply not_eq_sym in Hp. apply not_eq_sym in Hn. apply Nat.eqb_neq in Hp. apply Nat.eqb_neq in Hn.
  rewrite Hn, Hp. reflexivity.
Qed.

Lemma prv_ne_self l b : NoDup (ids l) -> In b (ids l) -> prv l (B b) <> B b /\ nxt l (B b) <> B b.
Proof.
  intros Hnd Hb. destruct (from_split _ _ Hb) as [l1 [x [l2 [E [N1 _]]]]]. subst l.
  destruct (NoDup_mid_notin _ _ _ _ Hnd) as [_ N2]. split.
  - simpl. rewrite pred_ref_mid by exact N2. pose proof (last_ref_in l1) as H. destruct (last_ref l1); [discriminate|].
    intros E. inversion E; subst. contradiction.
  - simpl. unfold succ_ref. rewrite after_mid by exact N1. destruct l2 as [|q l2']; simpl; [discriminate|].
    intros E. inversion E; subst. apply N2. left. reflexivity.
Qed.

Lemma rlive_prv_nxt l r : NoDup (ids l) -> rlive l r -> rlive l (prv l r) /\ rlive l (nxt l r).
Proof.
  intros Hnd Hr. assert (Hn : forall l0 r0, NoDup (ids l0) -> rlive l0 r0 -> rlive l0 (nxt l0 r0)).
  { intros l0 r0 Hnd0 Hr0. destruct r0 as [|c]; simpl.
    - destruct l0 as [|p t]; simpl; [exact I|left; reflexivity].
    - simpl in Hr0. destruct (from_split _ _ Hr0) as [l1 [x [l2 [E [N1 _]]]]]. subst l0.
      unfold succ_ref. rewrite after_mid by exact N1. destruct l2 as [|q t]; simpl; [exact I|].
      rewrite ids_app. apply in_or_app. right. right. left. reflexivity. }
  split; [|apply Hn; assumption].
  rewrite prv_rev. apply rlive_rev. apply Hn; [rewrite ids_rev; apply NoDup_rev; exact Hnd|apply rlive_rev; exact Hr].
Qed.

Lemma find_box_rm l b x y :
  NoDup (ids l) -> NoDup (map snd l) -> In (b, x) l ->
  find_box (rm_box b l) y = if y =? x then None else find_box l y.
Proof.
  intros Hnd Hnx Hi. destruct (split_live _ _ _ Hnd Hnx Hi) as [l1 [l2 [E [N1 [N2 [X1 X2]]]]]]. subst l.
  rewrite rm_box_mid by assumption. destruct (y =? x) eqn:Ey.
  - apply Nat.eqb_eq in Ey. subst y. apply find_box_None. rewrite map_app. intros H. apply in_app_or in H. tauto.
  - apply Nat.eqb_neq in Ey. clear -Ey X1. induction l1 as [|p t IH]; simpl.
    + destruct (x =? y) eqn:E; [apply Nat.eqb_eq in E; congruence|reflexivity].
    + destruct (snd p =? y); [reflexivity|]. apply IH. intros H. apply X1. right. exact H.
Qed.

Lemma d_get_notin d k : ~ In k (map fst d) -> d_get d k = None.
Proof.
  induction d as [|[k' v'] t IH]; simpl; [reflexivity|]. intros H. destruct (k' =? k) eqn:E.
  - apply Nat.eqb_eq in E. exfalso. apply H. left. exact E.
  - apply IH. intros H1. apply H. right. exact H1.
Qed.

Lemma d_get_del d k y : NoDup (map fst d) -> d_get (d_del d k) y = if y =? k then None else d_get d y.
Proof.
  induction d as [|[k' v'] t IH]; simpl; intros Hnd; [destruct (y =? k); reflexivity|].
  inversion Hnd as [|? ? Hn Hd]; subst. destruct (k' =? k) eqn:E1.
  - apply Nat.eqb_eq in E1. subst k'. destruct (y =? k) eqn:E2.
    + apply Nat.eqb_eq in E2. subst y. apply d_get_notin. exact Hn.
    + rewrite Nat.eqb_sym, E2. reflexivity.
  - simpl. destruct (k' =? y) eqn:E3.
    + apply Nat.eqb_eq in E3. subst y. rewrite E1. reflexivity.
    + apply IH. exact Hd.
Qed.

Lemma d_del_keys d k : forall x, In x (map fst (d_del d k)) -> In x (map fst d).
Proof.
  induction d as [|[k' v'] t IH]; simpl; [tauto|]. intros x. destruct (k' =? k); simpl; [tauto|].
  intros [H|H]; [left; exact H|right; apply IH; exact H].
Qed.

Lemma d_del_nodup d k : NoDup (map fst d) -> NoDup (map fst (d_del d k)).
Proof.
  induction d as [|[k' v'] t IH]; simpl; intros Hnd; [constructor|].
  inversion Hnd as [|? ? Hn Hd]; subst. destruct (k' =? k); simpl; [exact Hd|].
  constructor; [|apply IH; exact Hd]. intros H. apply Hn. eapply d_del_keys. exact H.
Qed.

Lemma d_get_set d k v y : d_get (d_set d k v) y = if y =? k then Some v else d_get d y.
Proof.
  induction d as [|[k' v'] t IH]; simpl.
  - rewrite (Nat.eqb_sym k y). reflexivity.
  - destruct (k' =? k) eqn:E1; simpl.
    + apply Nat.eqb_eq in E1. subst k'. rewrite (Nat.eqb_sym k y). destruct (y =? k); reflexivity.
    + destruct (k' =? y) eqn:E2.
      * apply Nat.eqb_eq in E2. subst y. rewrite E1. reflexivity.
      * exact IH.
Qed.

Lemma d_set_keys d k v : forall x, In x (map fst (d_set d k v)) -> x = k \/ In x (map fst d).
Proof.
  induction d as [|[k' v'] t IH]; simpl; [intros x [H|[]]; left; congruence|].
  intros x. destruct (k' =? k) eqn:E; simpl; [tauto|].
  intros [H|H]; [right; left; exact H|]. destruct (IH x H); tauto.
Qed.

Lemma d_set_nodup d k v : NoDup (map fst d) -> NoDup (map fst (d_set d k v)).
Proof.
  induction d as [|[k' v'] t IH]; simpl; intros Hnd; [constructor; [intros []|constructor]|].
  inversion Hnd as [|? ? Hn Hd]; subst. destruct (k' =? k) eqn:E; simpl; [exact Hnd|].
  constructor; [|apply IH; exact Hd]. intros H. destruct (d_set_keys _ _ _ _ H) as [H1|H1]; [|exact (Hn H1)].
  apply Nat.eqb_neq in E. congruence.
Qed.

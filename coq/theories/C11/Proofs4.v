(* C11/Proofs4.v — refinement of the plain-list specification, and the position laws. *)
From Coq Require Import List Arith ZArith Bool Lia Permutation.
From IRV Require Import Base.Exn C11.Model C11.Proofs C11.Proofs2 C11.Proofs3.
Import ListNotations.

(* ---------- plain-list facts *)
Lemma l_remove_notin x l : ~ In x l -> l_remove x l = l.
Proof.
  induction l as [|y t IH]; simpl; [reflexivity|]. intros H. destruct (y =? x) eqn:E.
  - apply Nat.eqb_eq in E. exfalso. apply H. left. exact E.
  - simpl. f_equal. apply IH. intros H1. apply H. right. exact H1.
Qed.

Lemma l_remove_mid x l1 l2 : ~ In x l1 -> ~ In x l2 -> l_remove x (l1 ++ x :: l2) = l1 ++ l2.
Proof.
  intros H1 H2. assert (E : l_remove x (l1 ++ x :: l2) = l_remove x l1 ++ l_remove x (x :: l2)) by apply filter_app.
  rewrite E. assert (E2 : l_remove x (x :: l2) = l_remove x l2) by (unfold l_remove; simpl; rewrite Nat.eqb_refl; reflexivity).
  rewrite E2, !l_remove_notin by assumption. reflexivity.
Qed.

Lemma l_ins_after_mid a x l1 l2 : ~ In a l1 -> l_ins_after a x (l1 ++ a :: l2) = l1 ++ a :: x :: l2.
Proof.
  induction l1 as [|y t IH]; simpl; intros H.
  - rewrite Nat.eqb_refl. reflexivity.
  - destruct (y =? a) eqn:E.
    + apply Nat.eqb_eq in E. exfalso. apply H. left. exact E.
    + f_equal. apply IH. intros H1. apply H. right. exact H1.
Qed.

Lemma split_live (l : boxes) b x :
  NoDup (ids l) -> NoDup (map snd l) -> In (b, x) l ->
  exists l1 l2, l = l1 ++ (b, x) :: l2 /\ ~ In b (ids l1) /\ ~ In b (ids l2) /\
                ~ In x (map snd l1) /\ ~ In x (map snd l2).
Proof.
  intros Hnd Hnx Hi. destruct (from_split _ _ (in_live_ids _ _ _ Hi)) as [l1 [x' [l2 [E [N F]]]]].
  assert (x' = x).
  { destruct (val_of_from _ _ _ _ F) as [_ V]. rewrite (val_of_In _ _ _ Hnd Hi) in V. simpl in V. congruence. }
  subst x'. exists l1, l2. rewrite E in Hnd, Hnx. destruct (NoDup_mid_notin _ _ _ _ Hnd) as [_ N2].
  rewrite map_app in Hnx. simpl in Hnx. pose proof (NoDup_remove_2 _ _ _ Hnx) as Hx.
  repeat split; try assumption; intros H; apply Hx; apply in_or_app; tauto.
Qed.

Lemma wf_nodups s : wf s -> NoDup (ids (live s)) /\ NoDup (to_list s).
Proof. intros [W1 [_ [W3 _]]]. split; [apply (dwf_live_nodup _ W1)|exact W3]. Qed.

Lemma to_list_erase_eq s b x : wf s -> In (b, x) (live s) -> to_list (erase_box b s) = l_remove x (to_list s).
Proof.
  intros Hw Hi. destruct (wf_nodups s Hw) as [Hnd Hnx].
  destruct (split_live _ _ _ Hnd Hnx Hi) as [l1 [l2 [E [N1 [N2 [X1 X2]]]]]].
  unfold to_list, erase_box. simpl. rewrite E. rewrite rm_box_mid by assumption.
  rewrite !map_app. simpl. rewrite l_remove_mid by assumption. reflexivity.
Qed.

Lemma val_of_app_l l1 l2 b : In b (ids l1) -> val_of (l1 ++ l2) b = val_of l1 b.
Proof.
  induction l1 as [|p t IH]; simpl; [intros []|]. destruct (fst p =? b) eqn:E; [reflexivity|].
  apply Nat.eqb_neq in E. intros [H|H]; [congruence|apply IH; exact H].
Qed.

Lemma to_list_ins_eq s r x :
  wf s -> ref_live s r -> to_list (ins_box r x s) = l_ins_at (val_ref (live s) r) x (to_list s).
Proof.
  intros Hw Hr. destruct (wf_nodups s Hw) as [Hnd Hnx]. unfold to_list, ins_box. simpl.
  destruct r as [|b]; simpl; [reflexivity|]. simpl in Hr.
  destruct (from_split _ _ Hr) as [l1 [a [l2 [E [N F]]]]].
  destruct (val_of_from _ _ _ _ F) as [_ V]. rewrite V. simpl.
  assert (Hi : In (b, a) (live s)) by (rewrite E; apply in_or_app; right; left; reflexivity).
  destruct (split_live _ _ _ Hnd Hnx Hi) as [k1 [k2 [E' [N1 [N2 [X1 X2]]]]]].
  destruct (ins_after_ref_split (live s) (B b) (nid s, x) Hr Hnd) as [m1 [m2 [Em [Ei [El _]]]]].
  simpl in Ei. rewrite Ei. rewrite E'. rewrite !map_app. simpl. rewrite l_ins_after_mid by exact X1.
  (* identify m1 = k1 ++ [(b,a)], m2 = k2 *)
  assert (Hm : m1 ++ m2 = k1 ++ (b, a) :: k2) by congruence.
  unfold last_ref in El. destruct (rev m1) as [|q tq] eqn:Er; simpl in El; [discriminate|].
  inversion El as [Eq]. assert (Em1 : m1 = rev tq ++ [q]).
  { rewrite <- (rev_involutive m1), Er. reflexivity. }
  rewrite Em1 in Hm. rewrite <- app_assoc in Hm. simpl in Hm.
  assert (Hq : In q (live s)).
  { rewrite Em, Em1. apply in_or_app. left. apply in_or_app. right. left. reflexivity. }
  assert (q = (b, a)).
  { destruct q as [qb qa]. simpl in Eq. subst qb. f_equal. exact (nodup_ids_fun _ _ _ _ Hnd Hq Hi). }
  subst q.
  assert (Hk : rev tq = k1 /\ m2 = k2).
  { assert (Hn' : ~ In b (ids (rev tq))).
    { rewrite Em, Em1 in Hnd. rewrite <- app_assoc in Hnd. simpl in Hnd. apply NoDup_mid_notin in Hnd. tauto. }
    clear -Hm Hn' N1. revert k1 Hm N1. induction (rev tq) as [|p t IH]; intros k1 Hm N1; simpl in *.
    - destruct k1 as [|p1 k1]; simpl in *.
      + inversion Hm. split; reflexivity.
      + inversion Hm; subst. exfalso. apply N1. left. reflexivity.
    - destruct k1 as [|p1 k1]; simpl in *.
      + inversion Hm; subst. exfalso. apply Hn'. left. reflexivity.
      + inversion Hm; subst. destruct (IH (fun H => Hn' (or_intror H)) k1 H1 (fun H => N1 (or_intror H))) as [A B'].
        subst. split; reflexivity. }
  destruct Hk as [K1 K2]. rewrite Em1, K1, K2. rewrite map_app. simpl. rewrite <- app_assoc. reflexivity.
Qed.

Lemma val_of_rm_box_ne l b n : n <> b -> val_of (rm_box b l) n = val_of l n.
Proof.
  intros Hn. induction l as [|p t IH]; [reflexivity|]. rewrite rm_box_cons. simpl.
  destruct (fst p =? b) eqn:E1.
  - apply Nat.eqb_eq in E1. destruct (fst p =? n) eqn:E2; [apply Nat.eqb_eq in E2; congruence|exact IH].
  - simpl. destruct (fst p =? n); [reflexivity|exact IH].
Qed.

Lemma option_eqb_nat_eq (a b : option elt) : option_eqb Nat.eqb a b = true <-> a = b.
Proof.
  destruct a, b; simpl; split; intros H; try reflexivity; try discriminate.
  - apply Nat.eqb_eq in H. congruence.
  - inversion H. apply Nat.eqb_refl.
Qed.

Lemma find_box_mem l x : (exists b, find_box l x = Some b) <-> l_mem x (map snd l) = true.
Proof.
  unfold l_mem. rewrite existsb_eqb_In. destruct (find_box l x) as [b|] eqn:E.
  - split; [intros _|intros _; exists b; reflexivity]. apply find_box_Some in E.
    apply (in_map snd) in E. exact E.
  - apply find_box_None in E. split; [intros [b Hb]; discriminate|intros H; contradiction].
Qed.

Lemma insert_one_refines r x s :
  wf s -> ref_live s r ->
  let s' := fst (insert_one_after r x s) in let r' := snd (insert_one_after r x s) in
  to_list s' = fst (l_one (val_ref (live s) r) x (to_list s)) /\
  val_ref (live s') r' = snd (l_one (val_ref (live s) r) x (to_list s)).
Proof.
  intros Hw Hr. destruct (wf_nodups s Hw) as [Hnd Hnx]. unfold insert_one_after, l_one.
  destruct (option_eqb Nat.eqb (val_ref (live s) r) (Some x)) eqn:Eo; cbn [fst snd]; [split; reflexivity|].
  assert (Hnew : forall s1, wf s1 -> ref_live s1 r -> ~ In x (to_list s1) ->
                 val_ref (live (ins_box r x s1)) (B (nid s1)) = Some x).
  { intros s1 Hw1 Hr1 Hx1. pose proof (wf_ins s1 r x Hw1 Hr1 Hx1) as Hw2.
    destruct (wf_nodups _ Hw2) as [Hnd2 _]. simpl. apply val_of_In; [exact Hnd2|].
    destruct (wf_nodups _ Hw1) as [Hnd1 _].
    destruct (ins_after_ref_split (live s1) r (nid s1, x) Hr1 Hnd1) as [l1 [l2 [_ [Ei _]]]].
    unfold ins_box. simpl. rewrite Ei. apply in_or_app. right. left. reflexivity. }
  destruct (find_box (live s) x) as [bx|] eqn:Ef.
  - apply find_box_Some in Ef.
    assert (Hne : r <> B bx).
    { intros E. subst r. simpl in Eo. rewrite (val_of_In _ _ _ Hnd Ef) in Eo. simpl in Eo.
      rewrite Nat.eqb_refl in Eo. discriminate. }
    pose proof (wf_erase s bx Hw (in_live_ids _ _ _ Ef)) as Hw1.
    pose proof (ref_live_erase s bx r Hr Hne) as Hr1.
    destruct (to_list_erase s bx x Hnd Hnx Ef) as [Hx1 _].
    split; [|apply Hnew; assumption].
    rewrite to_list_ins_eq by assumption. rewrite (to_list_erase_eq s bx x Hw Ef).
    f_equal. destruct r as [|n]; [reflexivity|]. simpl. apply val_of_rm_box_ne. congruence.
  - apply find_box_None in Ef. split; [|apply Hnew; assumption].
    rewrite to_list_ins_eq by assumption. fold (to_list s) in Ef. rewrite l_remove_notin by exact Ef. reflexivity.
Qed.

Lemma insert_many_refines xs : forall r s,
  wf s -> ref_live s r -> to_list (insert_many_after r xs s) = l_many (val_ref (live s) r) xs (to_list s).
Proof.
  induction xs as [|x t IH]; intros r s Hw Hr; simpl; [reflexivity|].
  destruct (insert_one_refines r x s Hw Hr) as [E1 E2].
  destruct (insert_one_prims (fun _ => false) r x s Hw Hr eq_refl) as [P1 R1].
  destruct (insert_one_after r x s) as [s' r'] eqn:E. simpl in *.
  destruct (l_one (val_ref (live s) r) x (to_list s)) as [l' p'] eqn:El. simpl in *.
  rewrite IH; [|eapply prims_wf; eassumption|exact R1]. rewrite E1, E2. reflexivity.
Qed.

Lemma last_ref_val s : wf s -> val_ref (live s) (last_ref (live s)) = l_last (to_list s).
Proof.
  intros Hw. destruct (wf_nodups s Hw) as [Hnd _]. unfold last_ref, l_last, to_list.
  rewrite <- map_rev. destruct (rev (live s)) as [|p t] eqn:E; simpl; [reflexivity|].
  apply val_of_In; [exact Hnd|]. apply in_rev. rewrite E. destruct p. left. reflexivity.
Qed.

Lemma append_refines x s : wf s -> to_list (append x s) = l_append x (to_list s).
Proof.
  intros Hw. unfold append, l_append. destruct (insert_one_refines _ x s Hw (last_ref_live s)) as [E _].
  rewrite E, last_ref_val by exact Hw. reflexivity.
Qed.

Lemma extend_refines xs : forall s,
  wf s -> to_list (extend xs s) = fold_left (fun l x => l_append x l) xs (to_list s).
Proof.
  unfold extend. induction xs as [|x t IH]; intros s Hw; simpl; [reflexivity|].
  rewrite IH, append_refines; [reflexivity|exact Hw|].
  unfold append. apply (prims_wf (fun _ => false) s); [exact Hw|].
  apply insert_one_prims; [exact Hw|apply last_ref_live|reflexivity].
Qed.

Lemma pred_ref_mid l1 b a l2 :
  ~ In b (ids l2) -> pred_ref (l1 ++ (b, a) :: l2) b = last_ref l1.
Proof.
  intros N2. unfold pred_ref, succ_ref, last_ref. rewrite rev_app_distr. simpl. rewrite <- app_assoc. simpl.
  rewrite after_mid; [reflexivity|]. rewrite ids_rev. intros H. apply in_rev in H. contradiction.
Qed.

Lemma l_pred_mid a prev l1 l2 :
  ~ In a l1 -> l_pred a prev (l1 ++ a :: l2) = match l_last l1 with Some y => Some y | None => prev end.
Proof.
  revert prev. induction l1 as [|y t IH]; intros prev H; simpl.
  - rewrite Nat.eqb_refl. reflexivity.
  - destruct (y =? a) eqn:E.
    + apply Nat.eqb_eq in E. exfalso. apply H. left. exact E.
    + rewrite IH by (intros H1; apply H; right; exact H1).
      unfold l_last. simpl. destruct (rev t) as [|z tz] eqn:Er; simpl; reflexivity.
Qed.

Lemma pred_ref_val s b a :
  wf s -> In (b, a) (live s) -> val_ref (live s) (pred_ref (live s) b) = l_pred a None (to_list s).
Proof.
  intros Hw Hi. destruct (wf_nodups s Hw) as [Hnd Hnx].
  destruct (split_live _ _ _ Hnd Hnx Hi) as [l1 [l2 [E [N1 [N2 [X1 X2]]]]]].
  unfold to_list. rewrite E. rewrite pred_ref_mid by exact N2. rewrite map_app. simpl.
  rewrite l_pred_mid by exact X1. unfold last_ref, l_last. rewrite <- map_rev.
  destruct (rev l1) as [|p t] eqn:Er; simpl; [reflexivity|].
  assert (Hp : In p l1) by (apply in_rev; rewrite Er; left; reflexivity).
  rewrite val_of_app_l by (apply (in_map fst) in Hp; exact Hp).
  rewrite E in Hnd. rewrite ids_app in Hnd. apply NoDup_app_inv in Hnd. destruct Hnd as [Hnd1 _].
  destruct p as [pb pa]. apply val_of_In; assumption.
Qed.

(* THE REFINEMENT: every edit acts on list(g) as the plain-list operation, with the same outcome *)
Theorem apply_edit_refines e s :
  wf s -> (to_list (fst (apply_edit e s)), snd (apply_edit e s)) = l_apply e (to_list s).
Proof.
  intros Hw. destruct (wf_nodups s Hw) as [Hnd Hnx].
  destruct e as [x|xs|a xs|a xs|x]; simpl.
  - rewrite append_refines by exact Hw. reflexivity.
  - rewrite extend_refines by exact Hw. reflexivity.
  - destruct (find_box (live s) a) as [b|] eqn:Ef.
    + assert (Hm : l_mem a (to_list s) = true) by (apply find_box_mem; exists b; exact Ef). rewrite Hm.
      apply find_box_Some in Ef. simpl. rewrite insert_many_refines; [|exact Hw|eapply in_live_ids; exact Ef].
      simpl. rewrite (val_of_In _ _ _ Hnd Ef). reflexivity.
    + assert (Hm : l_mem a (to_list s) = false).
      { destruct (l_mem a (to_list s)) eqn:E; [|reflexivity]. apply find_box_mem in E. destruct E as [b E]. congruence. }
      rewrite Hm. reflexivity.
  - destruct (find_box (live s) a) as [b|] eqn:Ef.
    + assert (Hm : l_mem a (to_list s) = true) by (apply find_box_mem; exists b; exact Ef). rewrite Hm.
      apply find_box_Some in Ef. simpl.
      rewrite insert_many_refines; [|exact Hw|apply pred_ref_live; [eapply in_live_ids; exact Ef|exact Hnd]].
      rewrite (pred_ref_val s b a Hw Ef). reflexivity.
    + assert (Hm : l_mem a (to_list s) = false).
      { destruct (l_mem a (to_list s)) eqn:E; [|reflexivity]. apply find_box_mem in E. destruct E as [b E]. congruence. }
      rewrite Hm. reflexivity.
  - destruct (find_box (live s) x) as [b|] eqn:Ef.
    + assert (Hm : l_mem x (to_list s) = true) by (apply find_box_mem; exists b; exact Ef). rewrite Hm.
      apply find_box_Some in Ef. simpl. rewrite (to_list_erase_eq s b x Hw Ef). reflexivity.
    + assert (Hm : l_mem x (to_list s) = false).
      { destruct (l_mem x (to_list s)) eqn:E; [|reflexivity]. apply find_box_mem in E. destruct E as [b E]. congruence. }
      rewrite Hm. reflexivity.
Qed.

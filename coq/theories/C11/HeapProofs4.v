(* C11/HeapProofs4.v — field-level view of the heap operations; the translated _insert_one_after. *)
From Coq Require Import List Arith ZArith Bool Lia.
From IRV Require Import Base.Exn C11.Model C11.Proofs C11.Proofs2 C11.Proofs3 C11.Proofs4 C11.Proofs5
  C11.Heap Gen.C11Gen C11.HeapProofs C11.HeapProofs2 C11.HeapProofs3.
Import ListNotations.

Ltac fld := intros; unfold set_prev, set_next, set_val, set_own, set_box, upd_box; simpl;
  match goal with |- context [?c =? ?b] => destruct (c =? b) eqn:E; [apply Nat.eqb_eq in E; subst|]; reflexivity end.

Lemma sp_prev b v h c : b_prev (hbox (snd (set_prev b v h)) c) = if c =? b then v else b_prev (hbox h c). Proof. fld. Qed.
Lemma sp_next b v h c : b_next (hbox (snd (set_prev b v h)) c) = b_next (hbox h c).
Proof. unfold set_prev, set_box, upd_box; simpl. destruct (c =? b) eqn:E; [apply Nat.eqb_eq in E; subst|]; reflexivity. Qed.
Lemma sp_val b v h c : b_val (hbox (snd (set_prev b v h)) c) = b_val (hbox h c).
Proof. unfold set_prev, set_box, upd_box; simpl. destruct (c =? b) eqn:E; [apply Nat.eqb_eq in E; subst|]; reflexivity. Qed.
Lemma sp_own b v h c : b_own (hbox (snd (set_prev b v h)) c) = b_own (hbox h c).
Proof. unfold set_prev, set_box, upd_box; simpl. destruct (c =? b) eqn:E; [apply Nat.eqb_eq in E; subst|]; reflexivity. Qed.
Lemma sn_next b v h c : b_next (hbox (snd (set_next b v h)) c) = if c =? b then v else b_next (hbox h c). Proof. fld. Qed.
Lemma sn_prev b v h c : b_prev (hbox (snd (set_next b v h)) c) = b_prev (hbox h c).
Proof. unfold set_next, set_box, upd_box; simpl. destruct (c =? b) eqn:E; [apply Nat.eqb_eq in E; subst|]; reflexivity. Qed.
Lemma sn_val b v h c : b_val (hbox (snd (set_next b v h)) c) = b_val (hbox h c).
Proof. unfold set_next, set_box, upd_box; simpl. destruct (c =? b) eqn:E; [apply Nat.eqb_eq in E; subst|]; reflexivity. Qed.
Lemma sn_own b v h c : b_own (hbox (snd (set_next b v h)) c) = b_own (hbox h c).
Proof. unfold set_next, set_box, upd_box; simpl. destruct (c =? b) eqn:E; [apply Nat.eqb_eq in E; subst|]; reflexivity. Qed.
Lemma sv_val b v h c : b_val (hbox (snd (set_val b v h)) c) = if c =? b then v else b_val (hbox h c). Proof. fld. Qed.
Lemma sv_prev b v h c : b_prev (hbox (snd (set_val b v h)) c) = b_prev (hbox h c).
Proof. unfold set_val, set_box, upd_box; simpl. destruct (c =? b) eqn:E; [apply Nat.eqb_eq in E; subst|]; reflexivity. Qed.
Lemma sv_next b v h c : b_next (hbox (snd (set_val b v h)) c) = b_next (hbox h c).
Proof. unfold set_val, set_box, upd_box; simpl. destruct (c =? b) eqn:E; [apply Nat.eqb_eq in E; subst|]; reflexivity. Qed.
Lemma sv_own b v h c : b_own (hbox (snd (set_val b v h)) c) = b_own (hbox h c).
Proof. unfold set_val, set_box, upd_box; simpl. destruct (c =? b) eqn:E; [apply Nat.eqb_eq in E; subst|]; reflexivity. Qed.
Lemma so_own b v h c : b_own (hbox (snd (set_own b v h)) c) = if c =? b then v else b_own (hbox h c). Proof. fld. Qed.
Lemma so_prev b v h c : b_prev (hbox (snd (set_own b v h)) c) = b_prev (hbox h c).
Proof. unfold set_own, set_box, upd_box; simpl. destruct (c =? b) eqn:E; [apply Nat.eqb_eq in E; subst|]; reflexivity. Qed.
Lemma so_next b v h c : b_next (hbox (snd (set_own b v h)) c) = b_next (hbox h c).
Proof. unfold set_own, set_box, upd_box; simpl. destruct (c =? b) eqn:E; [apply Nat.eqb_eq in E; subst|]; reflexivity. Qed.
Lemma so_val b v h c : b_val (hbox (snd (set_own b v h)) c) = b_val (hbox h c).
Proof. unfold set_own, set_box, upd_box; simpl. destruct (c =? b) eqn:E; [apply Nat.eqb_eq in E; subst|]; reflexivity. Qed.
#[export] Hint Rewrite sp_prev sp_next sp_val sp_own sn_next sn_prev sn_val sn_own sv_val sv_prev sv_next sv_own
  so_own so_prev so_next so_val : fld.

Lemma box_eta (x : box) : x = mkBox (b_prev x) (b_next x) (b_val x) (b_own x).
Proof. destruct x; reflexivity. Qed.

(* the heap after `new_box = _LinkBox(self, v)` ... `self._value_ids_to_boxes[id] = new_box` *)
Definition init_heap (b : bid) (o : nat) (v : option elt) (h : heap) : heap :=
  snd (set_own b o (snd (set_val b v (snd (set_next b b (snd (set_prev b b h))))))).
Lemma py_linkbox_init_eval b o v h : py_linkbox_init b o v h = (Ok tt, init_heap b o v h).
Proof. reflexivity. Qed.

Definition ins_heap (h : heap) (bx : bid) (v : elt) : heap :=
  let nb := hnew h in
  let h2 := init_heap nb SELF (Some v) (snd (alloc h)) in
  let N := b_next (hbox h2 bx) in
  let h6 := snd (set_prev N nb (snd (set_next nb N (snd (set_prev nb bx (snd (set_next bx nb h2))))))) in
  snd (dict_set v nb (snd (set_len (hlen h6 + 1)%Z h6))).

Definition ins_tail (bx : bid) (v : elt) : M bid :=
   t5 <- alloc ;;
   _ <- py_linkbox_init t5 SELF (Some v) ;;
   let v_new_box := t5 in
   t6 <- get_next bx ;;
   let v_original_next := t6 in
   _ <- set_next bx v_new_box ;;
   _ <- set_prev v_new_box bx ;;
   _ <- set_next v_new_box v_original_next ;;
   _ <- set_prev v_original_next v_new_box ;;
   t7 <- get_len ;;
   _ <- set_len (t7 + 1)%Z ;;
   _ <- dict_set v v_new_box ;;
   ret v_new_box.

Lemma set_prev_ok b v h : set_prev b v h = (Ok tt, snd (set_prev b v h)). Proof. reflexivity. Qed.
Lemma set_next_ok b v h : set_next b v h = (Ok tt, snd (set_next b v h)). Proof. reflexivity. Qed.
Lemma set_len_ok z h : set_len z h = (Ok tt, snd (set_len z h)). Proof. reflexivity. Qed.
Lemma dict_set_ok k v h : dict_set k v h = (Ok tt, snd (dict_set k v h)). Proof. reflexivity. Qed.
Lemma alloc_ok h : alloc h = (Ok (hnew h), snd (alloc h)). Proof. reflexivity. Qed.
Lemma get_next_ok b h : get_next b h = (Ok (b_next (hbox h b)), h). Proof. reflexivity. Qed.
Lemma get_len_ok h : get_len h = (Ok (hlen h), h). Proof. reflexivity. Qed.

Lemma ins_tail_eval h bx v : ins_tail bx v h = (Ok (hnew h), ins_heap h bx v).
Proof.
  unfold ins_tail, ins_heap.
  rewrite (bind_ok alloc _ h _ _ (alloc_ok h)).
  rewrite (bind_ok (py_linkbox_init (hnew h) SELF (Some v)) _ _ _ _ (py_linkbox_init_eval _ _ _ _)).
  cbv zeta. set (h2 := init_heap (hnew h) SELF (Some v) (snd (alloc h))).
  rewrite (bind_ok (get_next bx) _ h2 _ _ (get_next_ok bx h2)).
  set (N := b_next (hbox h2 bx)).
  rewrite (bind_ok (set_next bx (hnew h)) _ h2 _ _ (set_next_ok _ _ _)).
  set (h3 := snd (set_next bx (hnew h) h2)).
  rewrite (bind_ok (set_prev (hnew h) bx) _ h3 _ _ (set_prev_ok _ _ _)).
  set (h4 := snd (set_prev (hnew h) bx h3)).
  rewrite (bind_ok (set_next (hnew h) N) _ h4 _ _ (set_next_ok _ _ _)).
  set (h5 := snd (set_next (hnew h) N h4)).
  rewrite (bind_ok (set_prev N (hnew h)) _ h5 _ _ (set_prev_ok _ _ _)).
  set (h6 := snd (set_prev N (hnew h) h5)).
  rewrite (bind_ok get_len _ h6 _ _ (get_len_ok h6)).
  rewrite (bind_ok (set_len (hlen h6 + 1)%Z) _ h6 _ _ (set_len_ok _ _)).
  set (h7 := snd (set_len (hlen h6 + 1)%Z h6)).
  rewrite (bind_ok (dict_set v (hnew h)) _ h7 _ _ (dict_set_ok _ _ _)).
  reflexivity.
Qed.

Lemma hbox_alloc h c : hbox (snd (alloc h)) c = hbox h c. Proof. reflexivity. Qed.
Lemma hbox_set_len z h c : hbox (snd (set_len z h)) c = hbox h c. Proof. reflexivity. Qed.
Lemma hbox_dict_set k v h c : hbox (snd (dict_set k v h)) c = hbox h c. Proof. reflexivity. Qed.

Lemma init_fields b o v h c :
  b_prev (hbox (init_heap b o v h) c) = (if c =? b then b else b_prev (hbox h c)) /\
  b_next (hbox (init_heap b o v h) c) = (if c =? b then b else b_next (hbox h c)) /\
  b_val (hbox (init_heap b o v h) c) = (if c =? b then v else b_val (hbox h c)) /\
  b_own (hbox (init_heap b o v h) c) = (if c =? b then o else b_own (hbox h c)).
Proof. unfold init_heap. autorewrite with fld. repeat split. Qed.

Lemma ins_fields h bx v c :
  bx <> hnew h -> b_next (hbox h bx) <> hnew h ->
  let nb := hnew h in let N := b_next (hbox h bx) in
  b_prev (hbox (ins_heap h bx v) c) = (if c =? N then nb else if c =? nb then bx else b_prev (hbox h c)) /\
  b_next (hbox (ins_heap h bx v) c) = (if c =? nb then N else if c =? bx then nb else b_next (hbox h c)) /\
  b_val (hbox (ins_heap h bx v) c) = (if c =? nb then Some v else b_val (hbox h c)) /\
  b_own (hbox (ins_heap h bx v) c) = (if c =? nb then SELF else b_own (hbox h c)).
Proof.
  intros Hb HN nb N. unfold ins_heap. cbv zeta. rewrite hbox_dict_set, hbox_set_len.
  destruct (init_fields (hnew h) SELF (Some v) (snd (alloc h)) bx) as [_ [En _]].
  assert (EN : b_next (hbox (init_heap (hnew h) SELF (Some v) (snd (alloc h))) bx) = N).
  { rewrite En. apply Nat.eqb_neq in Hb. rewrite Hb. reflexivity. }
  rewrite EN. autorewrite with fld.
  destruct (init_fields (hnew h) SELF (Some v) (snd (alloc h)) c) as [Ep [En' [Ev Eo]]].
  rewrite Ep, En', Ev, Eo. rewrite !hbox_alloc. fold nb.
  assert (HNn : (N =? nb) = false) by (apply Nat.eqb_neq; exact HN).
  assert (Hbn : (bx =? nb) = false) by (apply Nat.eqb_neq; exact Hb).
  repeat split.
  - destruct (c =? N) eqn:E1; [reflexivity|]. destruct (c =? nb) eqn:E2; reflexivity.
  - destruct (c =? nb) eqn:E2; [reflexivity|]. destruct (c =? bx) eqn:E3; reflexivity.
Qed.

Lemma val_of_ins l1 l2 n v c :
  ~ In n (ids (l1 ++ l2)) -> val_of (l1 ++ (n, v) :: l2) c = if c =? n then Some v else val_of (l1 ++ l2) c.
Proof.
  intros Hn. induction l1 as [|p t IH]; simpl.
  - rewrite (Nat.eqb_sym n c). reflexivity.
  - simpl in Hn. destruct (fst p =? c) eqn:E.
    + apply Nat.eqb_eq in E. subst c. destruct (fst p =? n) eqn:E2; [|reflexivity].
      apply Nat.eqb_eq in E2. exfalso. apply Hn. left. exact E2.
    + apply IH. intros H. apply Hn. right. exact H.
Qed.

Lemma find_box_ins l1 l2 n v y :
  ~ In v (map snd (l1 ++ l2)) -> find_box (l1 ++ (n, v) :: l2) y = if y =? v then Some n else find_box (l1 ++ l2) y.
Proof.
  intros Hv. induction l1 as [|p t IH]; simpl.
  - rewrite (Nat.eqb_sym v y). reflexivity.
  - simpl in Hv. destruct (snd p =? y) eqn:E.
    + apply Nat.eqb_eq in E. subst y. destruct (snd p =? v) eqn:E2; [|reflexivity].
      apply Nat.eqb_eq in E2. exfalso. apply Hv. left. exact E2.
    + apply IH. intros H. apply Hv. right. exact H.
Qed.

(* the heap after the pointer surgery of _insert_one_after represents ins_box *)
Lemma R_ins h s r v :
  R h s -> ref_live s r -> ~ In v (to_list s) -> R (ins_heap h (rid r) v) (ins_box r v s).
Proof.
  intros HR Hr Hv. destruct HR as [Hw Hlive Htomb Hlen Hnew Hdict Hkeys].
  destruct (wf_nodups s Hw) as [Hnd Hnx].
  assert (Hrl : rlive (live s) r) by (destruct r; exact Hr).
  destruct (ins_after_ref_split (live s) r (nid s, v) Hr Hnd) as [l1 [l2 [E [Ei [El Eh]]]]].
  assert (Eh' : head_ref l2 = nxt (live s) r) by (rewrite Eh; destruct r; reflexivity).
  pose proof Hw as [_ [_ [_ [_ W5]]]]. pose proof (fresh_nid s W5) as Hf.
  assert (Hfl : ~ In (nid s) (ids (live s))) by (intros H; apply Hf; apply in_or_app; left; exact H).
  pose proof (wf_ins s r v Hw Hr Hv) as Hw'. destruct (wf_nodups _ Hw') as [Hnd' _].
  unfold ins_box in Hnd'. cbn [live] in Hnd'. rewrite Ei in Hnd'.
  pose proof (Hlive r Hrl) as Hbr.
  assert (HN : b_next (hbox h (rid r)) = rid (nxt (live s) r)) by (rewrite Hbr; reflexivity).
  assert (Hnb : hnew h = rid (B (nid s))) by (rewrite Hnew; reflexivity).
  assert (Hfresh : forall q, rlive (live s) q -> rid q <> hnew h).
  { intros q Hq E0. rewrite Hnb in E0. apply rid_inj in E0. subst q. exact (Hfl Hq). }
  assert (H1 : rid r <> hnew h) by (apply Hfresh; exact Hrl).
  assert (H2 : b_next (hbox h (rid r)) <> hnew h).
  { rewrite HN. apply Hfresh. apply (rlive_prv_nxt _ r Hnd Hrl). }
  constructor; cbn [live tomb slen nid ins_box].
  - exact Hw'.
  - rewrite Ei. intros q Hq.
    destruct (ins_fields h (rid r) v (rid q) H1 H2) as [Fp [Fn [Fv Fo]]].
    rewrite (box_eta (hbox _ (rid q))). rewrite Fp, Fn, Fv, Fo. rewrite HN, Hnb, !rid_eqb.
    rewrite (nxt_insert l1 l2 (nid s, v) q Hnd' Hq), (prv_insert l1 l2 (nid s, v) q Hnd' Hq).
    cbn [fst]. rewrite El, Eh', <- E.
    destruct (ref_eqb q (B (nid s))) eqn:Eq.
    + apply ref_eqb_eq in Eq. subst q.
      assert (E1 : ref_eqb (B (nid s)) r = false).
      { apply ref_eqb_neq. intros E0. rewrite <- E0 in Hrl. exact (Hfl Hrl). }
      assert (E2 : ref_eqb (B (nid s)) (nxt (live s) r) = false).
      { apply ref_eqb_neq. intros E0. pose proof (proj2 (rlive_prv_nxt _ r Hnd Hrl)) as H. rewrite <- E0 in H. exact (Hfl H). }
      rewrite E1, E2. f_equal. simpl. rewrite val_of_ins by (rewrite <- E; exact Hfl).
      rewrite Nat.eqb_refl. reflexivity.
    + apply ref_eqb_neq in Eq.
      assert (Hq0 : rlive (live s) q).
      { destruct q as [|c]; [exact I|]. simpl in Hq |- *. rewrite E. rewrite ids_app in *. simpl in Hq.
        apply in_app_or in Hq. apply in_or_app. destruct Hq as [Hq|[Hq|Hq]]; [left; exact Hq| |right; exact Hq].
        exfalso. apply Eq. subst c. reflexivity. }
      rewrite (Hlive q Hq0). cbn [b_prev b_next b_val b_own].
      f_equal.
      * destruct (ref_eqb q (nxt (live s) r)); reflexivity.
      * destruct (ref_eqb q r); reflexivity.
      * destruct q as [|c]; [reflexivity|]. simpl. rewrite val_of_ins by (rewrite <- E; exact Hfl). rewrite <- E.
        destruct (c =? nid s) eqn:Ec; [|reflexivity]. apply Nat.eqb_eq in Ec. exfalso. apply Eq. subst c. reflexivity.
  - intros b0 p n Hin.
    destruct (ins_fields h (rid r) v (S b0) H1 H2) as [Fp [Fn [Fv Fo]]].
    rewrite (box_eta (hbox _ (S b0))). rewrite Fp, Fn, Fv, Fo.
    pose proof (tomb_not_live s b0 p n Hw Hin) as Hnl.
    assert (Hb0 : b0 < nid s) by (apply W5; right; apply (in_map fst) in Hin; exact Hin).
    assert (E1 : (S b0 =? b_next (hbox h (rid r))) = false).
    { apply Nat.eqb_neq. rewrite HN. change (S b0) with (rid (B b0)). intros E0. apply rid_inj in E0.
      pose proof (proj2 (rlive_prv_nxt _ r Hnd Hrl)) as H. rewrite <- E0 in H. exact (Hnl H). }
    assert (E2 : (S b0 =? hnew h) = false) by (apply Nat.eqb_neq; rewrite Hnew; lia).
    assert (E3 : (S b0 =? rid r) = false).
    { apply Nat.eqb_neq. change (S b0) with (rid (B b0)). intros E0. apply rid_inj in E0. rewrite <- E0 in Hrl. exact (Hnl Hrl). }
    rewrite E1, E2, E3. rewrite (Htomb b0 p n Hin). reflexivity.
  - unfold ins_heap. cbn [hlen dict_set set_len snd]. unfold init_heap. cbn. rewrite Hlen. lia.
  - unfold ins_heap. cbn. rewrite Hnew. reflexivity.
  - intros y. unfold ins_heap. cbn [hdict dict_set set_len snd]. unfold init_heap. cbn [hdict set_own set_val set_next set_prev set_box alloc snd].
    rewrite d_get_set, Hdict, Ei, E. rewrite find_box_ins by (rewrite <- E; exact Hv).
    rewrite Hnew. destruct (y =? v); reflexivity.
  - unfold ins_heap. cbn [hdict dict_set set_len snd]. unfold init_heap. cbn [hdict set_own set_val set_next set_prev set_box alloc snd].
    apply d_set_nodup. exact Hkeys.
Qed.

(* C11/Proofs.v — the one-directional cursor theory: a live sequence, frozen "next" pointers of erased
   boxes, erase / insert-in-a-gap, and what a suspended iterator will still yield (`fut`). *)
From Coq Require Import List Arith ZArith Bool Lia.
From IRV Require Import Base.Exn C11.Model.
Import ListNotations.

Definition ids (l : boxes) : list bid := map fst l.
Definition tids (t : list (bid * ref)) : list bid := map fst t.

(* ---------- NoDup over appends *)
Lemma NoDup_app_inv {A} (l1 l2 : list A) :
  NoDup (l1 ++ l2) -> NoDup l1 /\ NoDup l2 /\ (forall x, In x l1 -> ~ In x l2).
Proof.
  induction l1 as [|a tl IH]; simpl; intros H.
  - repeat split; [constructor|exact H|intros x []].
  - inversion H as [|? ? Hn Hd]; subst. destruct (IH Hd) as [H1 [H2 H3]]. repeat split.
    + constructor; [|exact H1]. intros Hi. apply Hn. apply in_or_app. left. exact Hi.
    + exact H2.
    + intros x [E|Hi]; [subst; intros Hi; apply Hn; apply in_or_app; right; exact Hi | apply H3; exact Hi].
Qed.

Lemma NoDup_app_intro {A} (l1 l2 : list A) :
  NoDup l1 -> NoDup l2 -> (forall x, In x l1 -> ~ In x l2) -> NoDup (l1 ++ l2).
Proof.
  induction l1 as [|a tl IH]; simpl; intros H1 H2 H3; [exact H2|].
  inversion H1 as [|? ? Hn Hd]; subst. constructor.
  - intros Hi. apply in_app_or in Hi. destruct Hi as [Hi|Hi]; [exact (Hn Hi)|].
    apply (H3 a); [left; reflexivity|exact Hi].
  - apply IH; try assumption. intros x Hx. apply H3. right. exact Hx.
Qed.

(* ---------- basic facts about from / after / livb / val_of *)
Lemma livb_In l b : livb l b = true <-> In b (ids l).
Proof.
  unfold livb, ids. rewrite existsb_exists. split.
  - intros [p [Hp E]]. apply Nat.eqb_eq in E. subst. apply in_map. exact Hp.
  - intros H. apply in_map_iff in H. destruct H as [p [E Hp]]. exists p. split; [exact Hp|].
    apply Nat.eqb_eq. exact E.
Qed.

Lemma livb_false l b : livb l b = false <-> ~ In b (ids l).
Proof. rewrite <- livb_In. destruct (livb l b); split; intros; congruence. Qed.

Lemma val_of_Some l b x : val_of l b = Some x -> In b (ids l).
Proof.
  induction l as [|p tl IH]; simpl; [discriminate|].
  destruct (fst p =? b) eqn:E.
  - apply Nat.eqb_eq in E. intros _. left. exact E.
  - intros H. right. apply IH. exact H.
Qed.

Lemma val_of_None l b : val_of l b = None <-> ~ In b (ids l).
Proof.
  induction l as [|p tl IH]; simpl.
  - split; [intros _ []|reflexivity].
  - destruct (fst p =? b) eqn:E.
    + apply Nat.eqb_eq in E. split; [discriminate|]. intros H. exfalso. apply H. left. exact E.
    + apply Nat.eqb_neq in E. rewrite IH. split.
      * intros H [H1|H1]; [congruence|exact (H H1)].
      * intros H H1. apply H. right. exact H1.
Qed.

Lemma from_split l b :
  In b (ids l) -> exists l1 x l2, l = l1 ++ (b, x) :: l2 /\ ~ In b (ids l1) /\ from l b = (b, x) :: l2.
Proof.
  induction l as [|p tl IH]; simpl; [intros []|].
  destruct (fst p =? b) eqn:E.
  - apply Nat.eqb_eq in E. intros _. exists [], (snd p), tl. destruct p as [pb px]. simpl in *. subst.
    repeat split. intros [].
  - apply Nat.eqb_neq in E. intros [H|H]; [congruence|].
    destruct (IH H) as [l1 [x [l2 [E1 [N1 F1]]]]]. exists (p :: l1), x, l2. subst tl. repeat split.
    + simpl. intros [H1|H1]; [congruence|exact (N1 H1)].
    + exact F1.
Qed.

Lemma from_app_notin l1 l2 b : ~ In b (ids l1) -> from (l1 ++ l2) b = from l2 b.
Proof.
  induction l1 as [|p tl IH]; simpl; [reflexivity|].
  intros H. destruct (fst p =? b) eqn:E.
  - apply Nat.eqb_eq in E. exfalso. apply H. left. exact E.
  - apply IH. intros H1. apply H. right. exact H1.
Qed.

Lemma from_notin l b : ~ In b (ids l) -> from l b = [].
Proof.
  induction l as [|p tl IH]; simpl; [reflexivity|].
  intros H. destruct (fst p =? b) eqn:E.
  - apply Nat.eqb_eq in E. exfalso. apply H. left. exact E.
  - apply IH. intros H1. apply H. right. exact H1.
Qed.

Lemma from_here b x l : from ((b, x) :: l) b = (b, x) :: l.
Proof. simpl. rewrite Nat.eqb_refl. reflexivity. Qed.

Lemma from_mid l1 b x l2 : ~ In b (ids l1) -> from (l1 ++ (b, x) :: l2) b = (b, x) :: l2.
Proof. intros H. rewrite from_app_notin by exact H. apply from_here. Qed.

Lemma after_mid l1 b x l2 : ~ In b (ids l1) -> after (l1 ++ (b, x) :: l2) b = l2.
Proof. intros H. unfold after. rewrite from_mid by exact H. reflexivity. Qed.

Lemma ids_app l1 l2 : ids (l1 ++ l2) = ids l1 ++ ids l2.
Proof. apply map_app. Qed.

Lemma NoDup_mid_notin (l1 : boxes) b x l2 :
  NoDup (ids (l1 ++ (b, x) :: l2)) -> ~ In b (ids l1) /\ ~ In b (ids l2).
Proof.
  rewrite ids_app. simpl. intros H. apply NoDup_remove_2 in H. split; intros H1; apply H; apply in_or_app; tauto.
Qed.

(* ---------- rm_box *)
Lemma rm_box_cons b p l : rm_box b (p :: l) = if fst p =? b then rm_box b l else p :: rm_box b l.
Proof. unfold rm_box. cbn [filter]. destruct (fst p =? b); reflexivity. Qed.

Lemma rm_box_notin b l : ~ In b (ids l) -> rm_box b l = l.
Proof.
  induction l as [|p tl IH]; [reflexivity|].
  intros H. rewrite rm_box_cons. simpl in H. destruct (fst p =? b) eqn:E.
  - apply Nat.eqb_eq in E. exfalso. apply H. left. exact E.
  - f_equal. apply IH. intros H1. apply H. right. exact H1.
Qed.

Lemma rm_box_app b l1 l2 : rm_box b (l1 ++ l2) = rm_box b l1 ++ rm_box b l2.
Proof. apply filter_app. Qed.

Lemma rm_box_mid b x l1 l2 :
  ~ In b (ids l1) -> ~ In b (ids l2) -> rm_box b (l1 ++ (b, x) :: l2) = l1 ++ l2.
Proof.
  intros H1 H2. rewrite rm_box_app, rm_box_cons. simpl. rewrite Nat.eqb_refl.
  rewrite !rm_box_notin by assumption. reflexivity.
Qed.

Lemma ids_rm_box b l : ids (rm_box b l) = filter (fun i => negb (i =? b)) (ids l).
Proof.
  induction l as [|p tl IH]; [reflexivity|].
  rewrite rm_box_cons. simpl. destruct (fst p =? b); simpl; [exact IH|]. f_equal. exact IH.
Qed.

Lemma in_ids_rm_box b l i : In i (ids (rm_box b l)) <-> In i (ids l) /\ i <> b.
Proof.
  rewrite ids_rm_box, filter_In. rewrite negb_true_iff, Nat.eqb_neq. tauto.
Qed.

Lemma from_rm_box_ne l b n : n <> b -> from (rm_box b l) n = rm_box b (from l n).
Proof.
  intros Hn. induction l as [|p tl IH]; [reflexivity|].
  rewrite rm_box_cons. simpl. destruct (fst p =? b) eqn:E1.
  - apply Nat.eqb_eq in E1. destruct (fst p =? n) eqn:E2.
    + apply Nat.eqb_eq in E2. congruence.
    + exact IH.
  - simpl. destruct (fst p =? n) eqn:E2.
    + rewrite rm_box_cons, E1. reflexivity.
    + exact IH.
Qed.

Lemma after_rm_box_ne l b n : n <> b -> after (rm_box b l) n = rm_box b (after l n).
Proof.
  intros Hn. unfold after. rewrite from_rm_box_ne by exact Hn.
  destruct (from l n) as [|p tl] eqn:E; [reflexivity|].
  assert (fst p = n).
  { destruct (in_dec Nat.eq_dec n (ids l)) as [Hi|Hi].
    - destruct (from_split l n Hi) as [l1 [x [l2 [_ [_ F]]]]]. rewrite F in E. inversion E. reflexivity.
    - rewrite from_notin in E by exact Hi. discriminate. }
  rewrite rm_box_cons. simpl. destruct (fst p =? b) eqn:E1; [|reflexivity].
  apply Nat.eqb_eq in E1. congruence.
Qed.

(* ---------- resolve: where a chain of frozen pointers ends (structural on the erase-ordered tombs) *)
Fixpoint resolve (t : list (bid * ref)) (r : ref) : ref :=
  match t with
  | [] => r
  | e :: rest => if ref_eqb r (B (fst e)) then resolve rest (snd e) else resolve rest r
  end.

Lemma ref_eqb_eq a b : ref_eqb a b = true <-> a = b.
Proof.
  destruct a, b; simpl; split; intros H; try reflexivity; try discriminate.
  - apply Nat.eqb_eq in H. congruence.
  - inversion H. apply Nat.eqb_refl.
Qed.

Lemma ref_eqb_neq a b : ref_eqb a b = false <-> a <> b.
Proof. rewrite <- ref_eqb_eq. destruct (ref_eqb a b); split; intros; congruence. Qed.

Lemma resolve_app t1 t2 r : resolve (t1 ++ t2) r = resolve t2 (resolve t1 r).
Proof.
  revert r. induction t1 as [|e tl IH]; intros r; simpl; [reflexivity|].
  destruct (ref_eqb r (B (fst e))); apply IH.
Qed.

Lemma resolve_root t : resolve t Root = Root.
Proof. induction t as [|e tl IH]; simpl; [reflexivity|exact IH]. Qed.

Lemma resolve_notin t b : ~ In b (tids t) -> resolve t (B b) = B b.
Proof.
  induction t as [|e tl IH]; simpl; [reflexivity|].
  intros H. destruct (b =? fst e) eqn:E.
  - apply Nat.eqb_eq in E. exfalso. apply H. left. congruence.
  - apply IH. intros H1. apply H. right. exact H1.
Qed.

(* pointer well-formedness: the frozen pointer of an erased box is the root, a live box, or a box
   erased LATER (this is the termination measure of the iterator loop) *)
Definition ref_ok (lv : list bid) (later : list bid) (r : ref) : Prop :=
  match r with Root => True | B n => In n lv \/ In n later end.
Fixpoint ptr_ok (lv : list bid) (t : list (bid * ref)) : Prop :=
  match t with
  | [] => True
  | e :: rest => ref_ok lv (tids rest) (snd e) /\ ptr_ok lv rest
  end.

Definition dwf (ds : dstate) : Prop :=
  NoDup (ids (dl ds) ++ tids (dt ds)) /\ ptr_ok (ids (dl ds)) (dt ds).

Definition is_live_or_root (lv : list bid) (r : ref) : Prop :=
  match r with Root => True | B n => In n lv end.

Lemma resolve_ok lv t r :
  ptr_ok lv t -> (forall b, In b (tids t) -> ~ In b lv) -> ref_ok lv (tids t) r ->
  is_live_or_root lv (resolve t r).
Proof.
  revert r. induction t as [|e tl IH]; intros r Hp Hd Hr; simpl.
  - destruct r as [|n]; simpl in *; [exact I|]. destruct Hr as [H|[]]. exact H.
  - destruct Hp as [Hp1 Hp2].
    assert (Hd' : forall b, In b (tids tl) -> ~ In b lv) by (intros b Hb; apply Hd; right; exact Hb).
    destruct (ref_eqb r (B (fst e))) eqn:E.
    + apply IH; assumption.
    + apply IH; try assumption. apply ref_eqb_neq in E.
      destruct r as [|n]; simpl in *; [exact I|].
      destruct Hr as [H|[H|H]]; [left; exact H| congruence | right; exact H].
Qed.

(* ---------- the iterator loop computes resolve *)
Definition outcome (l : boxes) (r : ref) : option (cursor * option elt) :=
  match r with
  | Root => Some (Done, None)
  | B n => match val_of l n with Some x => Some (Parked n, Some x) | None => None end
  end.

Lemma lookup_t_app_notin t1 t2 b : ~ In b (tids t1) -> lookup_t (t1 ++ t2) b = lookup_t t2 b.
Proof.
  induction t1 as [|e tl IH]; simpl; [reflexivity|].
  intros H. destruct (fst e =? b) eqn:E.
  - apply Nat.eqb_eq in E. exfalso. apply H. left. exact E.
  - apply IH. intros H1. apply H. right. exact H1.
Qed.

Lemma scan_resolve l pre suf fuel r :
  NoDup (ids l ++ tids (pre ++ suf)) -> ptr_ok (ids l) suf -> ref_ok (ids l) (tids suf) r ->
  length suf <= fuel ->
  scan (mkD l (pre ++ suf)) fuel r = outcome l (resolve suf r).
Proof.
  revert pre fuel r. induction suf as [|e tl IH]; intros pre fuel r Hnd Hp Hr Hf.
  - simpl. destruct r as [|n]; simpl in *.
    + destruct fuel; reflexivity.
    + destruct Hr as [H|[]]. destruct (val_of l n) eqn:E.
      * destruct fuel; simpl; rewrite E; reflexivity.
      * apply val_of_None in E. contradiction.
  - destruct Hp as [Hp1 Hp2]. simpl in Hf.
    assert (Hnd' : NoDup (ids l ++ tids ((pre ++ [e]) ++ tl))) by (rewrite <- app_assoc; exact Hnd).
    simpl resolve. destruct (ref_eqb r (B (fst e))) eqn:E.
    + apply ref_eqb_eq in E. subst r.
      destruct fuel as [|f]; [lia|]. simpl.
      assert (Hnl : ~ In (fst e) (ids l)).
      { intros H. apply NoDup_app_inv in Hnd. destruct Hnd as [_ [_ Hnd]].
        apply (Hnd _ H). unfold tids. rewrite map_app. apply in_or_app. right. left. reflexivity. }
      apply val_of_None in Hnl. rewrite Hnl.
      assert (Hnp : ~ In (fst e) (tids pre)).
      { apply NoDup_app_inv in Hnd. destruct Hnd as [_ [Hnd _]].
        unfold tids in Hnd. rewrite map_app in Hnd. simpl in Hnd.
        apply NoDup_remove_2 in Hnd.
        intros H. apply Hnd. apply in_or_app. left. exact H. }
      rewrite lookup_t_app_notin by exact Hnp. simpl. rewrite Nat.eqb_refl.
      replace (pre ++ e :: tl) with ((pre ++ [e]) ++ tl) by (rewrite <- app_assoc; reflexivity).
      apply IH; try assumption. lia.
    + apply ref_eqb_neq in E.
      replace (pre ++ e :: tl) with ((pre ++ [e]) ++ tl) by (rewrite <- app_assoc; reflexivity).
      apply IH; try assumption; [|lia].
      destruct r as [|n]; simpl in *; [exact I|].
      destruct Hr as [H|[H|H]]; [left; exact H| congruence | right; exact H].
Qed.

(* ---------- what a suspended iterator will still yield *)
Definition from_ref (l : boxes) (r : ref) : boxes := match r with Root => [] | B b => from l b end.
Definition fut (ds : dstate) (c : cursor) : boxes :=
  match c with
  | Done => []
  | Fresh => dl ds
  | Parked b => if livb (dl ds) b then after (dl ds) b else from_ref (dl ds) (resolve (dt ds) (B b))
  end.
(* a cursor only ever holds a box that was created in this list: live or erased *)
Definition cvalid (ds : dstate) (c : cursor) : Prop :=
  match c with Parked b => In b (ids (dl ds)) \/ In b (tids (dt ds)) | _ => True end.
(* anchored: not started, or parked on a box that is still live *)
Definition anch (ds : dstate) (c : cursor) : bool :=
  match c with Fresh => true | Parked b => livb (dl ds) b | Done => false end.

Definition next_of (f : boxes) : cursor * option elt :=
  match f with [] => (Done, None) | p :: _ => (Parked (fst p), Some (snd p)) end.

Lemma resolve_skip t r : (forall i, In i (tids t) -> r <> B i) -> resolve t r = r.
Proof.
  induction t as [|e tl IH]; simpl; [reflexivity|].
  intros H. destruct (ref_eqb r (B (fst e))) eqn:E.
  - apply ref_eqb_eq in E. exfalso. apply (H (fst e)); [left; reflexivity|exact E].
  - apply IH. intros i Hi. apply H. right. exact Hi.
Qed.

Lemma ptr_ok_app lv t1 t2 : ptr_ok lv (t1 ++ t2) -> ptr_ok lv t2.
Proof. induction t1 as [|e tl IH]; simpl; [tauto|]. intros [_ H]. apply IH. exact H. Qed.

Lemma lookup_t_split t b :
  In b (tids t) -> exists pre r suf, t = pre ++ (b, r) :: suf /\ ~ In b (tids pre) /\ lookup_t t b = Some r.
Proof.
  induction t as [|e tl IH]; simpl; [intros []|].
  destruct (fst e =? b) eqn:E.
  - apply Nat.eqb_eq in E. intros _. exists [], (snd e), tl. destruct e; simpl in *; subst.
    repeat split. intros [].
  - apply Nat.eqb_neq in E. intros [H|H]; [congruence|].
    destruct (IH H) as [pre [r [suf [E1 [N1 L1]]]]]. exists (e :: pre), r, suf. subst tl. repeat split.
    + simpl. intros [H1|H1]; [congruence|exact (N1 H1)].
    + exact L1.
Qed.

Lemma val_of_from l n p tl : from l n = p :: tl -> fst p = n /\ val_of l n = Some (snd p).
Proof.
  induction l as [|q l' IH]; simpl; [discriminate|].
  destruct (fst q =? n) eqn:E.
  - apply Nat.eqb_eq in E. intros H. inversion H; subst. split; reflexivity.
  - exact IH.
Qed.

Lemma outcome_from l r :
  is_live_or_root (ids l) r -> outcome l r = Some (next_of (from_ref l r)).
Proof.
  destruct r as [|n]; simpl; [reflexivity|].
  intros H. destruct (from_split l n H) as [l1 [x [l2 [_ [_ F]]]]].
  destruct (val_of_from _ _ _ _ F) as [_ V]. rewrite V, F. reflexivity.
Qed.

Lemma dwf_tids_not_live ds : dwf ds -> forall b, In b (tids (dt ds)) -> ~ In b (ids (dl ds)).
Proof.
  intros [Hnd _] b Hb Hl. apply NoDup_app_inv in Hnd. destruct Hnd as [_ [_ H]]. exact (H b Hl Hb).
Qed.

Lemma scan_full ds r :
  dwf ds -> ref_ok (ids (dl ds)) (tids (dt ds)) r ->
  scan ds (length (dt ds)) r = Some (next_of (from_ref (dl ds) (resolve (dt ds) r))).
Proof.
  intros Hw Hr. destruct ds as [l t]. simpl in *. destruct Hw as [Hnd Hp]. simpl in *.
  pose proof (scan_resolve l [] t (length t) r Hnd Hp Hr (le_n _)) as Hs. simpl in Hs. rewrite Hs.
  apply outcome_from. apply resolve_ok; try assumption.
  intros b Hb Hl. apply NoDup_app_inv in Hnd. destruct Hnd as [_ [_ H]]. exact (H b Hl Hb).
Qed.

Lemma resolve_live ds n : dwf ds -> In n (ids (dl ds)) -> resolve (dt ds) (B n) = B n.
Proof.
  intros Hw Hn. apply resolve_skip. intros i Hi E. inversion E; subst.
  exact (dwf_tids_not_live ds Hw _ Hi Hn).
Qed.

Lemma head_ref_from l : from_ref l (head_ref l) = l.
Proof. destruct l as [|p tl]; [reflexivity|]. destruct p. simpl. rewrite Nat.eqb_refl. reflexivity. Qed.

Lemma head_ref_ok l l1 t : ref_ok (ids (l1 ++ l)) t (head_ref l).
Proof.
  destruct l as [|p tl]; simpl; [exact I|]. left. rewrite ids_app. apply in_or_app. right. left. reflexivity.
Qed.

(* from the head of a suffix, in a duplicate-free sequence, one gets the suffix *)
Lemma from_ref_suffix l1 l2 : NoDup (ids (l1 ++ l2)) -> from_ref (l1 ++ l2) (head_ref l2) = l2.
Proof.
  intros Hnd. destruct l2 as [|p tl]; [reflexivity|]. destruct p as [n x]. simpl.
  apply from_mid. apply NoDup_mid_notin in Hnd. tauto.
Qed.

Lemma resolve_head ds l1 l2 : dwf ds -> dl ds = l1 ++ l2 -> resolve (dt ds) (head_ref l2) = head_ref l2.
Proof.
  intros Hw E. destruct l2 as [|p tl]; simpl; [apply resolve_root|].
  apply resolve_live; [exact Hw|]. rewrite E, ids_app. apply in_or_app. right. left. reflexivity.
Qed.

(* THE STEP LAW: next() yields the head of fut (or stops when fut is empty); the cursor then parks there *)
Lemma cstep_fut ds c :
  dwf ds -> cvalid ds c -> cstep ds c = Some (next_of (fut ds c)).
Proof.
  intros Hw Hc. destruct c as [|b|]; simpl; [| |reflexivity].
  - rewrite scan_full; [|exact Hw|apply (head_ref_ok (dl ds) [])].
    rewrite (resolve_head ds [] (dl ds) Hw eq_refl), head_ref_from. reflexivity.
  - unfold rd_next. destruct (livb (dl ds) b) eqn:L.
    + apply livb_In in L. destruct (from_split _ _ L) as [l1 [x [l2 [E [N F]]]]].
      unfold succ_ref, after. rewrite F. simpl.
      assert (E' : dl ds = (l1 ++ [(b, x)]) ++ l2) by (rewrite <- app_assoc; exact E).
      rewrite scan_full; [|exact Hw|rewrite E'; apply head_ref_ok].
      rewrite (resolve_head ds _ _ Hw E'). rewrite E'. rewrite from_ref_suffix; [reflexivity|].
      rewrite <- E'. destruct Hw as [Hnd _]. apply NoDup_app_inv in Hnd. tauto.
    + apply livb_false in L. simpl in Hc. destruct Hc as [Hc|Hc]; [contradiction|].
      destruct (lookup_t_split _ _ Hc) as [pre [r [suf [E [N Lk]]]]]. rewrite Lk.
      assert (Hw' := Hw). destruct Hw' as [Hnd Hp].
      assert (Hr : ref_ok (ids (dl ds)) (tids suf) r).
      { rewrite E in Hp. apply ptr_ok_app in Hp. simpl in Hp. tauto. }
      assert (Hnd2 : NoDup (tids (dt ds))) by (apply NoDup_app_inv in Hnd; tauto).
      rewrite E in Hnd2. unfold tids in Hnd2. rewrite map_app in Hnd2. simpl in Hnd2.
      assert (Hrn : forall i, In i (tids pre) \/ i = b -> r <> B i).
      { intros i Hi Er. subst r. simpl in Hr. destruct Hr as [Hr|Hr].
        - apply (dwf_tids_not_live ds Hw i); [|exact Hr]. rewrite E. unfold tids. rewrite map_app. simpl.
          apply in_or_app. destruct Hi as [Hi|Hi]; [left; exact Hi|right; left; congruence].
        - apply NoDup_app_inv in Hnd2. destruct Hnd2 as [_ [Hnd2 Hd]]. destruct Hi as [Hi|Hi].
          + apply (Hd i Hi). right. exact Hr.
          + subst i. inversion Hnd2; subst. contradiction. }
      rewrite scan_full; [|exact Hw|].
      * f_equal. f_equal. f_equal. rewrite E. rewrite !resolve_app. simpl.
        rewrite (resolve_skip pre (B b)) by (intros i Hi Ei; inversion Ei; subst; contradiction).
        simpl. rewrite Nat.eqb_refl.
        rewrite (resolve_skip pre r) by (intros i Hi; apply Hrn; left; exact Hi).
        destruct (ref_eqb r (B b)) eqn:Eb; [|reflexivity].
        apply ref_eqb_eq in Eb. exfalso. apply (Hrn b); [right; reflexivity|exact Eb].
      * destruct r as [|n]; simpl in *; [exact I|]. destruct Hr as [Hr|Hr]; [left; exact Hr|].
        right. rewrite E. unfold tids. rewrite map_app. simpl. apply in_or_app. right. right. exact Hr.
Qed.

Lemma fut_suffix ds c : dwf ds -> exists p, dl ds = p ++ fut ds c.
Proof.
  intros Hw. destruct c as [|b|]; simpl.
  - exists []. reflexivity.
  - destruct (livb (dl ds) b) eqn:L.
    + apply livb_In in L. destruct (from_split _ _ L) as [l1 [x [l2 [E [N F]]]]].
      unfold after. rewrite F. simpl. exists (l1 ++ [(b, x)]). rewrite <- app_assoc. exact E.
    + destruct (resolve (dt ds) (B b)) as [|n]; simpl.
      * exists (dl ds). rewrite app_nil_r. reflexivity.
      * destruct (in_dec Nat.eq_dec n (ids (dl ds))) as [Hi|Hi].
        -- destruct (from_split _ _ Hi) as [l1 [x [l2 [E [N F]]]]]. rewrite F. exists l1. exact E.
        -- rewrite from_notin by exact Hi. exists (dl ds). rewrite app_nil_r. reflexivity.
  - exists (dl ds). rewrite app_nil_r. reflexivity.
Qed.

(* after a yield the cursor is parked on the yielded (live) box and its future is the rest *)
Lemma fut_parked_head ds c p tl :
  dwf ds -> fut ds c = p :: tl -> fut ds (Parked (fst p)) = tl /\ In (fst p) (ids (dl ds)).
Proof.
  intros Hw E. destruct (fut_suffix ds c Hw) as [pre Ep]. rewrite E in Ep.
  assert (Hnd : NoDup (ids (dl ds))) by (destruct Hw as [H _]; apply NoDup_app_inv in H; tauto).
  assert (Hin : In (fst p) (ids (dl ds))).
  { rewrite Ep, ids_app. apply in_or_app. right. left. reflexivity. }
  split; [|exact Hin]. simpl. apply livb_In in Hin. rewrite Hin.
  rewrite Ep. destruct p as [b x]. apply after_mid. rewrite Ep in Hnd. apply NoDup_mid_notin in Hnd. tauto.
Qed.

(* ---------- primitive effect 1: erase a live box (its frozen pointer = its successor at that moment) *)
Definition d_erase (b : bid) (ds : dstate) : dstate :=
  mkD (rm_box b (dl ds)) (dt ds ++ [(b, succ_ref (dl ds) b)]).

Lemma dwf_live_nodup ds : dwf ds -> NoDup (ids (dl ds)).
Proof. intros [H _]. apply NoDup_app_inv in H. tauto. Qed.

Lemma fut_erase_self_aux l l1 b x l2 :
  NoDup (ids l) -> l = l1 ++ (b, x) :: l2 ->
  from_ref (rm_box b l) (succ_ref l b) = l2 /\ rm_box b l2 = l2 /\ after l b = l2.
Proof.
  intros Hnd E. subst l. destruct (NoDup_mid_notin _ _ _ _ Hnd) as [N1 N2].
  unfold succ_ref. rewrite after_mid by exact N1. rewrite rm_box_mid by assumption.
  repeat split.
  - apply from_ref_suffix. rewrite ids_app in *. simpl in Hnd. apply NoDup_remove_1 in Hnd. exact Hnd.
  - apply rm_box_notin. exact N2.
Qed.

(* THE ERASE LAW: removing a box deletes it from the future of every cursor and changes nothing else;
   in particular a cursor parked on the erased box keeps its future (resumes at the old successor) *)
Lemma fut_erase ds b c :
  dwf ds -> In b (ids (dl ds)) -> fut (d_erase b ds) c = rm_box b (fut ds c).
Proof.
  intros Hw Hb. pose proof (dwf_live_nodup ds Hw) as Hnd.
  destruct (from_split _ _ Hb) as [l1 [x [l2 [E [N F]]]]].
  destruct (fut_erase_self_aux _ _ _ _ _ Hnd E) as [A1 [A2 A3]].
  destruct c as [|b0|]; simpl; [reflexivity| |reflexivity].
  destruct (Nat.eq_dec b0 b) as [Eb|Eb].
  - subst b0. assert (L : livb (dl ds) b = true) by (apply livb_In; exact Hb). rewrite L.
    assert (L' : livb (rm_box b (dl ds)) b = false).
    { apply livb_false. rewrite in_ids_rm_box. tauto. }
    rewrite L'. rewrite resolve_app, (resolve_live ds b Hw Hb). simpl. rewrite Nat.eqb_refl.
    rewrite A1, A3, A2. reflexivity.
  - destruct (livb (dl ds) b0) eqn:L.
    + assert (L' : livb (rm_box b (dl ds)) b0 = true).
      { apply livb_In. apply in_ids_rm_box. split; [apply livb_In; exact L|exact Eb]. }
      rewrite L'. apply after_rm_box_ne. exact Eb.
    + assert (L' : livb (rm_box b (dl ds)) b0 = false).
      { apply livb_false. rewrite in_ids_rm_box. apply livb_false in L. tauto. }
      rewrite L'. rewrite resolve_app. simpl.
      destruct (ref_eqb (resolve (dt ds) (B b0)) (B b)) eqn:Er.
      * apply ref_eqb_eq in Er. rewrite Er. simpl. rewrite F. rewrite rm_box_cons. simpl.
        rewrite Nat.eqb_refl. rewrite A1, A2. reflexivity.
      * apply ref_eqb_neq in Er. destruct (resolve (dt ds) (B b0)) as [|n]; [reflexivity|].
        simpl. apply from_rm_box_ne. congruence.
Qed.

Lemma anch_erase ds b c :
  anch (d_erase b ds) c = anch ds c && negb (match c with Parked b0 => b0 =? b | _ => false end).
Proof.
  destruct c as [|b0|]; simpl; [reflexivity| |reflexivity].
  destruct (b0 =? b) eqn:E.
  - apply Nat.eqb_eq in E. subst. rewrite andb_false_r. apply livb_false. rewrite in_ids_rm_box. tauto.
  - rewrite andb_true_r. apply Nat.eqb_neq in E. destruct (livb (dl ds) b0) eqn:L.
    + apply livb_In. apply in_ids_rm_box. split; [apply livb_In; exact L|exact E].
    + apply livb_false. rewrite in_ids_rm_box. apply livb_false in L. tauto.
Qed.

(* ---------- primitive effect 2: a fresh box in a gap of the live sequence *)
Lemma firstn_len_app {A} (a b : list A) : firstn (length a) (a ++ b) = a.
Proof. induction a as [|x a IH]; simpl; [destruct b; reflexivity|]. f_equal. exact IH. Qed.

Lemma in_app_nodup_split (l1 l2 : boxes) b :
  NoDup (ids (l1 ++ l2)) -> In b (ids (l1 ++ l2)) ->
  (In b (ids l1) /\ ~ In b (ids l2)) \/ (~ In b (ids l1) /\ In b (ids l2)).
Proof.
  rewrite ids_app. intros Hnd Hi. apply NoDup_app_inv in Hnd. destruct Hnd as [_ [_ Hd]].
  apply in_app_or in Hi. destruct Hi as [Hi|Hi].
  - left. split; [exact Hi|apply Hd; exact Hi].
  - right. split; [|exact Hi]. intros H. exact (Hd b H Hi).
Qed.

Definition ins_cond (l2 f : boxes) (a : bool) : bool :=
  (length l2 <? length f) || ((length l2 =? length f) && a).

Lemma firstn_sub_app {A} (a b : list A) : firstn (length (a ++ b) - length b) (a ++ b) = a.
Proof.
  rewrite app_length. replace (length a + length b - length b) with (length a) by lia.
  apply firstn_len_app.
Qed.

Lemma ins_cond_app_anch (a l2 : boxes) : ins_cond l2 (a ++ l2) true = true.
Proof.
  unfold ins_cond. rewrite app_length, andb_true_r. destruct (length l2 <? length a + length l2) eqn:E; [reflexivity|].
  apply Nat.ltb_ge in E. simpl. apply Nat.eqb_eq. lia.
Qed.

Lemma ins_cond_app_cons (q : bid * elt) (a l2 : boxes) b : ins_cond l2 ((q :: a) ++ l2) b = true.
Proof.
  unfold ins_cond. rewrite app_length. simpl.
  assert (H : length l2 <? S (length a + length l2) = true) by (apply Nat.ltb_lt; lia).
  rewrite H. reflexivity.
Qed.

Lemma ins_cond_short (a1 : boxes) q (a2 : boxes) : ins_cond (a1 ++ q :: a2) a2 false = false
  /\ forall b, ins_cond (a1 ++ q :: a2) a2 b = false.
Proof.
  assert (forall b, ins_cond (a1 ++ q :: a2) a2 b = false).
  { intros b. unfold ins_cond. rewrite app_length. simpl.
    assert (H : length a1 + S (length a2) <? length a2 = false) by (apply Nat.ltb_ge; lia).
    assert (H' : length a1 + S (length a2) =? length a2 = false) by (apply Nat.eqb_neq; lia).
    rewrite H, H'. reflexivity. }
  split; [apply H|exact H].
Qed.

Lemma ins_cond_detached (a1 : boxes) q (a2 : boxes) : ins_cond (a1 ++ q :: a2) (q :: a2) false = false.
Proof.
  unfold ins_cond. rewrite app_length. simpl. rewrite andb_false_r, orb_false_r.
  apply Nat.ltb_ge. lia.
Qed.

(* THE INSERT LAW: a new box appears in the future of a cursor iff the gap lies after the cursor's
   position; a gap exactly at the position counts as "after" only for an anchored cursor *)
Lemma fut_ins l1 l2 t bx c :
  dwf (mkD (l1 ++ l2) t) -> ~ In (fst bx) (ids (l1 ++ l2) ++ tids t) -> cvalid (mkD (l1 ++ l2) t) c ->
  fut (mkD (l1 ++ bx :: l2) t) c =
    let f := fut (mkD (l1 ++ l2) t) c in
    if ins_cond l2 f (anch (mkD (l1 ++ l2) t) c)
    then firstn (length f - length l2) f ++ bx :: l2 else f.
Proof.
  intros Hw Hfr Hc. pose proof (dwf_live_nodup _ Hw) as Hnd. simpl in Hnd.
  assert (Hfl : ~ In (fst bx) (ids (l1 ++ l2))) by (intros H; apply Hfr; apply in_or_app; left; exact H).
  assert (Hft : ~ In (fst bx) (tids t)) by (intros H; apply Hfr; apply in_or_app; right; exact H).
  destruct c as [|b0|]; simpl.
  - (* Fresh *)
    rewrite ins_cond_app_anch, firstn_sub_app. reflexivity.
  - (* Parked *)
    destruct (livb (l1 ++ l2) b0) eqn:L.
    + apply livb_In in L. assert (Hne : fst bx <> b0) by (intros E; subst; contradiction).
      assert (L' : livb (l1 ++ bx :: l2) b0 = true).
      { apply livb_In. rewrite ids_app in *. simpl. apply in_app_or in L. apply in_or_app. simpl. tauto. }
      rewrite L'. destruct (in_app_nodup_split _ _ _ Hnd L) as [[H1 H2]|[H1 H2]].
      * destruct (from_split _ _ H1) as [a1 [x0 [a2 [E [N F]]]]]. subst l1.
        rewrite <- !app_assoc. simpl. rewrite !after_mid by exact N.
        rewrite ins_cond_app_anch, firstn_sub_app. reflexivity.
      * destruct (from_split _ _ H2) as [a1 [x0 [a2 [E [N F]]]]]. subst l2.
        assert (N' : ~ In b0 (ids (l1 ++ bx :: a1))).
        { rewrite ids_app. simpl. intros H. apply in_app_or in H. simpl in H. tauto. }
        replace (l1 ++ bx :: a1 ++ (b0, x0) :: a2) with ((l1 ++ bx :: a1) ++ (b0, x0) :: a2)
          by (rewrite <- app_assoc; reflexivity).
        rewrite after_mid by exact N'.
        replace (l1 ++ a1 ++ (b0, x0) :: a2) with ((l1 ++ a1) ++ (b0, x0) :: a2)
          by (rewrite <- app_assoc; reflexivity).
        rewrite after_mid by (rewrite ids_app; intros H; apply in_app_or in H; tauto).
        destruct (ins_cond_short a1 (b0, x0) a2) as [_ Hs]. rewrite Hs. reflexivity.
    + apply livb_false in L. simpl in Hc. destruct Hc as [Hc|Hc]; [contradiction|].
      assert (Hne : fst bx <> b0) by (intros E; subst; contradiction).
      assert (L' : livb (l1 ++ bx :: l2) b0 = false).
      { apply livb_false. rewrite ids_app in *. simpl. intros H. apply in_app_or in H. simpl in H.
        apply L. apply in_or_app. tauto. }
      rewrite L'.
      assert (Hr : is_live_or_root (ids (l1 ++ l2)) (resolve t (B b0))).
      { destruct Hw as [Hnd' Hp]. simpl in *. apply resolve_ok; try assumption.
        - intros b Hb Hl. apply NoDup_app_inv in Hnd'. destruct Hnd' as [_ [_ H]]. exact (H b Hl Hb).
        - simpl. right. exact Hc. }
      destruct (resolve t (B b0)) as [|n]; simpl.
      * unfold ins_cond. simpl. rewrite andb_false_r. destruct l2; reflexivity.
      * simpl in Hr.
        assert (Hnn : fst bx <> n) by (intros E; subst; contradiction).
        destruct (in_app_nodup_split _ _ _ Hnd Hr) as [[H1 H2]|[H1 H2]].
        -- destruct (from_split _ _ H1) as [a1 [xn [a2 [E [N F]]]]]. subst l1.
           rewrite <- !app_assoc. simpl. rewrite !from_mid by exact N.
           change ((n, xn) :: a2 ++ l2) with (((n, xn) :: a2) ++ l2).
           rewrite ins_cond_app_cons, firstn_sub_app. reflexivity.
        -- destruct (from_split _ _ H2) as [a1 [xn [a2 [E [N F]]]]]. subst l2.
           assert (N' : ~ In n (ids (l1 ++ bx :: a1))).
           { rewrite ids_app. simpl. intros H. apply in_app_or in H. simpl in H. tauto. }
           replace (l1 ++ bx :: a1 ++ (n, xn) :: a2) with ((l1 ++ bx :: a1) ++ (n, xn) :: a2)
             by (rewrite <- app_assoc; reflexivity).
           rewrite from_mid by exact N'.
           replace (l1 ++ a1 ++ (n, xn) :: a2) with ((l1 ++ a1) ++ (n, xn) :: a2)
             by (rewrite <- app_assoc; reflexivity).
           rewrite from_mid by (rewrite ids_app; intros H; apply in_app_or in H; tauto).
           rewrite ins_cond_detached. reflexivity.
  - (* Done *)
    unfold ins_cond. simpl. rewrite andb_false_r. destruct l2; reflexivity.
Qed.

Lemma anch_ins l1 l2 t bx c :
  ~ In (fst bx) (ids (l1 ++ l2) ++ tids t) -> cvalid (mkD (l1 ++ l2) t) c ->
  anch (mkD (l1 ++ bx :: l2) t) c = anch (mkD (l1 ++ l2) t) c.
Proof.
  intros Hfr Hc. destruct c as [|b0|]; simpl; try reflexivity.
  assert (Hne : fst bx <> b0).
  { intros E. subst. simpl in Hc. apply Hfr. apply in_or_app. exact Hc. }
  destruct (livb (l1 ++ l2) b0) eqn:L.
  - apply livb_In. apply livb_In in L. rewrite ids_app in *. simpl. apply in_app_or in L.
    apply in_or_app. simpl. tauto.
  - apply livb_false. apply livb_false in L. rewrite ids_app in *. simpl. intros H.
    apply in_app_or in H. simpl in H. apply L. apply in_or_app. tauto.
Qed.
